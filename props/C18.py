"""C18 Results depend only on explicit arguments, not on process history."""
import random
import re
from concurrent.futures import ThreadPoolExecutor

from translators import cachekeys

ID = "C18"
PROP_FILE = "props/C18.v"
COQ_TARGETS = ["props/C18.vo"]
TRUSTED = ["translators/cachekeys.py (classification of every parameter read of the assemblers by source object and binding "
           "time, cache key tuples; call-chain edges checked literally; fails closed; purity scan of the operator/discrete "
           "operator/grid-function/potential algebra modules: every augmented assignment, subscript store, out= argument, "
           ".fill/.sort on a value that may alias self or an argument is listed in inplace_updates)",
           "the list of functions that make up each assembler (configuration of the translator)",
           "harness/c18_impl.py and the exafmm stand-in harness/stubs/exafmm with fmm.dense_evaluation=True",
           "fresh-interpreter oracle: a new interpreter with the parameter values set globally"]
ASSUMPTIONS = ["numerical content of the assemblers is abstracted to the list of parameter values read (descriptor)",
               "single precision (C18_precision) is not modelled: Numba computes in double and the dtype is chosen by the "
               "descriptor; accuracy of single precision is analytic",
               "purity (no in-place update of an array reachable from self/arguments) is decided syntactically and "
               "conservatively: names bound to freshly allocated arrays (np.zeros/empty/copy/astype/...) are exempt, everything "
               "else counts as possibly aliased; aliasing through C extensions is not seen (the search re-observes operands)",
               "FMM tree parameters (depth, ncrit, expansion order) are invisible with the exact stand-in evaluator: their "
               "cache-key omissions are proved on the model and not observable in the search"]

FIELDS = ["QReg", "QSing", "FOrder", "FNcrit", "FDepth"]
DEFAULTS = {"QReg": 4, "QSing": 4, "FOrder": 5, "FNcrit": 400, "FDepth": 4}
VALUES = {"QReg": [1, 2, 3, 4, 5, 6], "QSing": [2, 3, 4, 5], "FOrder": [4, 5, 6], "FNcrit": [200, 400], "FDepth": [3, 4]}
BOUNDARY = ["KDense", "KSingular", "KSparse", "KFmm"]
POTENTIAL = ["KPotential", "KFmmPotential"]


def regen(ctx):
    ctx.info = ctx.translate(cachekeys.cache_keys)
    if ctx.info:
        glob = {k: sorted({f for f, s, _ in v if s == "Global"}) for k, v in ctx.info["kinds"].items()}
        ctx.note("parameters read through GLOBAL_PARAMETERS per assembler: %s; cache keys: %s" % (
            {k: v for k, v in glob.items() if v}, {k: [f for f, _ in v["key"]] for k, v in ctx.info["caches"].items()}))


# ---- histories ---------------------------------------------------------------------------------------------------------
LEADS = [
    # explicit parameter object on an FMM operator
    [["reset"], ["space", "P1"], ["op", "KFmm", 0, {"QReg": 6}], ["weak", 0]],
    # FMM interface cache hit after the global order changed
    [["reset"], ["space", "P1"], ["op", "KFmm", 0, None], ["weak", 0], ["set", 0, "QReg", 6], ["op", "KFmm", 0, None],
     ["weak", 1]],
    # the same with the cache cleared in between
    [["reset"], ["space", "P1"], ["op", "KFmm", 0, None], ["weak", 0], ["set", 0, "QReg", 6], ["clear"],
     ["op", "KFmm", 0, None], ["weak", 1]],
    # mass-matrix memo computed at order 1
    [["reset"], ["set", 0, "QReg", 1], ["space", "P1"], ["mass", 0], ["set", 0, "QReg", 4], ["op", "KDense", 0, None],
     ["strong", 0], ["mass", 0]],
    # dense operators: explicit parameters, later global changes, repeated weak_form
    [["reset"], ["space", "P1"], ["op", "KDense", 0, {"QReg": 6, "QSing": 3}], ["set", 0, "QReg", 2], ["weak", 0],
     ["set", 0, "QSing", 5], ["weak", 0], ["op", "KDense", 0, None], ["weak", 1], ["op", "KPotential", 0, {"QReg": 3}],
     ["set", 0, "QReg", 5], ["eval", 2]],
    # FMM potential: explicit order, then a cache hit with other globals
    [["reset"], ["space", "P1"], ["op", "KFmmPotential", 0, {"QReg": 6}], ["eval", 0], ["set", 0, "QReg", 3],
     ["op", "KFmmPotential", 0, None], ["eval", 1]],
]


def grid_histories():
    """Deterministic sweep: every assembler kind x {explicit, global} parameter object x {before, after} a change of the
    global (or of the explicit) object, for every parameter that kind can see; plus blocked operators, single precision and
    the FMM backend parameters.  Values are chosen so that a wrong order is numerically visible (sparse / mass: order 1)."""
    hs = []
    see = {"KDense": ["QReg", "QSing"], "KSingular": ["QSing"], "KSparse": ["QReg"], "KPotential": ["QReg"],
           "KFmm": ["QReg", "QSing"], "KFmmPotential": ["QReg"]}
    val = {"QReg": (1, 6), "QSing": (2, 5)}
    for kind, fields in see.items():
        obs = "eval" if kind in POTENTIAL else "weak"
        for f in fields:
            a, b = val[f]
            # explicit object, global changed before the first assembly; second observation after another change
            hs.append([["reset"], ["space", "P1"], ["op", kind, 0, {f: a}], ["set", 0, f, b], [obs, 0],
                       ["set", 0, f, a], [obs, 0]])
            # global object, changed before the first assembly (late binding) and after it; then a second operator
            hs.append([["reset"], ["space", "P1"], ["op", kind, 0, None], ["set", 0, f, a], [obs, 0], ["set", 0, f, b],
                       [obs, 0], ["op", kind, 0, None], [obs, 1]])
            # explicit object shared by two operators and mutated between their assemblies
            hs.append([["reset"], ["space", "P1"], ["op", kind, 0, {f: a}], [obs, 0], ["set", 1, f, b],
                       ["op", kind, 0, 1], [obs, 1], [obs, 0]])
    # FMM backend parameters (in the cache key on the current tree): must follow the parameter object
    hs.append([["reset"], ["space", "P1"], ["op", "KFmm", 0, None], ["weak", 0], ["iface", 0], ["set", 0, "FOrder", 6],
               ["op", "KFmm", 0, None], ["weak", 1], ["iface", 1], ["set", 0, "FNcrit", 200], ["op", "KFmm", 0, None],
               ["weak", 2], ["iface", 2]])
    hs.append([["reset"], ["space", "P1"], ["op", "KFmm", 0, {"FOrder": 4, "FNcrit": 200}], ["weak", 0], ["iface", 0]])
    # blocked operator: blocks bind when the blocked weak form is first requested
    hs.append([["reset"], ["space", "P1"], ["op", "KDense", 0, {"QReg": 6}], ["op", "KSparse", 0, None],
               ["blocked", [0, 1]], ["set", 0, "QReg", 1], ["weak", 2], ["set", 0, "QReg", 3], ["weak", 2], ["weak", 1]])
    # derived operators assembled between two observations of the original one, in both precisions: the operand's weak form
    # (and strong form) must stay what a fresh process computes -- no in-place update of the cached array
    for kind in ("KDense", "KSparse"):
        for prec in ((None, "single") if kind == "KDense" else (None,)):
            op0 = ["op", kind, 0, None] + ([prec] if prec else [])
            hs.append([["reset"], ["space", "P1"], op0, ["weak", 0], ["derived", "neg", 0], ["weak", 0], ["derived", "scal", 0],
                       ["weak", 0], ["derived", "rscal", 0], ["weak", 0], ["derived", "prod", 0], ["weak", 0], ["strong", 0]])
            hs.append([["reset"], ["space", "P1"], op0, list(op0), ["derived", "sub", 0, 1], ["weak", 0], ["weak", 1],
                       ["derived", "sum", 1, 0], ["weak", 1], ["weak", 0]])
    # single precision: same parameters, result within single-precision accuracy of the double one
    hs.append([["reset"], ["space", "P1"], ["op", "KDense", 0, {"QReg": 3}, "single"], ["set", 0, "QReg", 5], ["weak", 0],
               ["op", "KSparse", 0, None, "single"], ["weak", 1], ["op", "KPotential", 0, None, "single"], ["eval", 2]])
    return hs


def gen_history(rnd, length):
    h = [["reset"], ["space", "P1"]]
    nsp, ops, npobj = 1, [], 1
    while len(h) < length:
        x = rnd.random()
        if x < 0.28 or not ops:
            kind = rnd.choice(BOUNDARY + POTENTIAL + ["KDense"])
            y = rnd.random()
            if y < 0.5:
                par = None
            elif y < 0.9 or npobj == 1:
                par = {f: rnd.choice(VALUES[f]) for f in rnd.sample(FIELDS, rnd.randint(1, 2))}
                npobj += 1
            else:
                par = rnd.randint(1, npobj - 1)
            h.append(["op", kind, rnd.randrange(nsp), par])
            ops.append(kind)
        elif x < 0.5:
            pid = 0 if rnd.random() < 0.7 else rnd.randrange(npobj)
            f = rnd.choice(FIELDS if rnd.random() < 0.4 else ["QReg", "QSing"])
            h.append(["set", pid, f, rnd.choice(VALUES[f])])
        elif x < 0.85:
            i = rnd.randrange(len(ops))
            if ops[i] in POTENTIAL:
                h.append(["eval", i])
            else:
                h.append(["strong" if rnd.random() < 0.25 else "weak", i])
        elif x < 0.9:
            h.append(["clear"])
        elif x < 0.95:
            h.append(["mass", rnd.randrange(nsp)])
        else:
            h.append(["space", "P1"])
            nsp += 1
    return h


def annotate(h):
    """Ideal semantics: for every observation step the specification a fresh process has to compute."""
    pobjs = [dict(DEFAULTS)]
    spaces, ops, specs = [], [], {}

    def bind(o):
        if o["bound"] is None:
            o["bound"] = dict(pobjs[o["pid"]])
        return o["bound"]
    for si, st in enumerate(h):
        tag = st[0]
        if tag == "reset":
            pobjs[0] = dict(DEFAULTS)
        elif tag == "space":
            spaces.append(st[1])
        elif tag == "blocked":
            ops.append({"kind": "Blocked", "parts": list(st[1]), "space": ops[st[1][0]]["space"], "pid": 0, "bound": None,
                        "single": False})
        elif tag == "op":
            kind, sidx, par = st[1], st[2], st[3]
            if par is None:
                pid = 0
            elif isinstance(par, int):
                pid = par
            else:
                v = dict(DEFAULTS)
                v.update(par)
                pobjs.append(v)
                pid = len(pobjs) - 1
            ops.append({"kind": kind, "space": sidx, "pid": pid, "single": len(st) > 4 and st[4] == "single",
                        "bound": dict(pobjs[pid]) if kind in POTENTIAL else None, "explicit": pid != 0})
        elif tag == "set":
            pobjs[st[1]][st[2]] = st[3]
        elif tag == "derived":
            for i in st[2:]:
                bind(ops[i])
        elif tag in ("weak", "strong", "eval", "iface"):
            o = ops[st[1]]
            if o["kind"] == "Blocked":
                parts = []
                for i in o["parts"]:
                    parts.append({"kind": ops[i]["kind"], "space": spaces[ops[i]["space"]], "params": dict(bind(ops[i]))})
                specs[si] = {"kind": "Blocked", "space": spaces[o["space"]], "params": {}, "what": "blocked", "parts": parts,
                             "part_index": list(o["parts"])}
                continue
            sp = {"kind": o["kind"], "space": spaces[o["space"]], "params": dict(bind(o)), "what": tag,
                  "single": o["single"]}
            if tag == "strong":
                sp["mass_params"] = dict(pobjs[0])
            specs[si] = sp
        elif tag == "mass":
            specs[si] = {"kind": "KSparse", "space": spaces[st[1]], "params": dict(pobjs[0]), "what": "mass"}
    return specs


# ---- Coq rendering of a history -------------------------------------------------------------------------------------------
def _params(v):
    t = "default_params"
    for f in FIELDS:
        if v.get(f, DEFAULTS[f]) != DEFAULTS[f]:
            t = "(set_field %s %s %d)" % (t, f, v[f])
    return t


def _model_index(h, si, i):
    """Index of python operator i among the model's operators (blocked operators are not model objects)."""
    ops_so_far = [x for x in h[:si] if x[0] in ("op", "blocked")]
    return sum(1 for x in ops_so_far[:i] if x[0] == "op")


def coq_history(h):
    """-> (list of Coq op terms, {python step index: number of Coq steps executed after it})"""
    out, after = [], {}
    for si, st in enumerate(h):
        tag = st[0]
        if tag == "reset":
            for f in FIELDS:
                out.append("SetParam 0 %s %d" % (f, DEFAULTS[f]))
        elif tag == "space":
            out.append("CreateSpace")
        elif tag == "op":
            kind, sidx, par = st[1], st[2], st[3]
            if par is None:
                out.append("CreateOp %s %d None" % (kind, sidx))
            elif isinstance(par, int):
                out.append("CreateOpShared %s %d %d" % (kind, sidx, par))
            else:
                out.append("CreateOp %s %d (Some %s)" % (kind, sidx, _params(par)))
        elif tag == "set":
            out.append("SetParam %d %s %d" % (st[1], st[2], st[3]))
        elif tag == "weak":
            ops_so_far = [x for x in h[:si] if x[0] in ("op", "blocked")]
            tgt = ops_so_far[st[1]]
            for i in (tgt[1] if tgt[0] == "blocked" else [st[1]]):
                out.append("WeakForm %d" % _model_index(h, si, i))
        elif tag == "iface":
            out.append("WeakForm %d" % _model_index(h, si, st[1]))
        elif tag == "strong":
            out.append("StrongForm %d %d" % (_model_index(h, si, st[1]),
                                             [x for x in h[:si] if x[0] in ("op", "blocked")][st[1]][2]))
        elif tag == "derived":
            for i in st[2:]:
                out.append("AssembleDerived %d 3" % _model_index(h, si, i))
        elif tag == "clear":
            out.append("ClearFmmCache")
        elif tag == "mass":
            out.append("MassMatrix %d" % st[1])
        after[si] = len(out)
    return out, after


def _close(a, b, tol=1e-9):
    if "exception" in a or "exception" in b:
        return a.get("exception") is not None and a.get("exception") == b.get("exception")
    va, vb = a["value"], b["value"]
    if va["shape"] != vb["shape"]:
        return False
    xs = va["re"] + va.get("im", [0.0] * len(va["re"]))
    ys = vb["re"] + vb.get("im", [0.0] * len(vb["re"]))
    import math
    if not all(math.isfinite(v) for v in xs + ys):
        return False          # nan / inf (e.g. garbage read through a stale FMM interface) never equals a fresh value
    scale = max([1e-300] + [abs(y) for y in ys])
    return max([0.0] + [abs(x - y) for x, y in zip(xs, ys)]) <= tol * scale


def _signature(h, si, spec):
    kind, what = spec["kind"], spec["what"]
    ops = [x for x in h[:si + 1] if x[0] in ("op", "blocked")]
    if what == "iface":
        return ("C18:fmm-cache:backend-built-with-other-expansion_order-or-ncrit-than-the-parameter-object",
                "the FMM backend used by an operator was constructed with another expansion order / ncrit than its parameter "
                "object holds")
    if what in ("weak", "strong") and any(x[0] == "derived" and h[si][1] in x[2:] for x in h[:si]):
        return ("C18:%s:%s-form-of-an-operand-changed-by-assembling-a-derived-operator[%s-precision]"
                % (kind, what, "single" if spec.get("single") else "double"),
                "after -A, 3*A, A*3, A-B, A+B or A*B was assembled the cached %s form of the operand is no longer the value "
                "a fresh process (and the first observation) gives: an in-place update of the cached array" % what)
    if spec.get("single"):
        return ("C18:%s:single-precision-result-differs-from-double-beyond-single-accuracy" % kind,
                "precision='single' does not agree with the double-precision result of the same parameters")
    if what == "mass" or (what == "strong" and kind not in ("KFmm",)):
        return ("C18:mass-matrix-memo:assembled-with-the-global-quadrature-order-of-its-first-use",
                "space.mass_matrix() / strong_form() reuse a mass matrix assembled under an earlier global "
                "quadrature.regular (memo per space, parameters=None)")
    if kind in ("KFmm", "KFmmPotential"):
        idx = h[si][1]
        explicit = ops[idx][3] is not None
        if explicit:
            return ("C18:fmm:explicit-parameter-object-not-honoured(quadrature.regular-read-from-GLOBAL_PARAMETERS)",
                    "an FMM %s created with an explicit parameter object does not give the result of the same values set "
                    "globally" % ("operator" if kind == "KFmm" else "potential"))
        return ("C18:fmm-cache:interface-reused-across-a-change-of-quadrature.regular(key-omits-it)",
                "an FMM %s assembled after a change of the global quadrature order reuses the cached interface built "
                "before the change" % ("operator" if kind == "KFmm" else "potential"))
    if kind == "Blocked":
        return ("C18:blocked:weak-form-of-a-block-depends-on-history",
                "a block of a BlockedOperator differs from the value a fresh process computes")
    return ("C18:%s:%s-depends-on-history" % (kind, what),
            "%s of a %s operator differs from the value a fresh process computes for its parameter object" % (what, kind))


def _both(ctx, strength):
    rnd = random.Random(ctx.seed)
    n_rand, length = (12, 12) if strength == "thorough" else (2, 10)
    hs = [list(h) for h in LEADS] + grid_histories() + [gen_history(rnd, rnd.randint(6, length)) for _ in range(n_rand)]
    specs, order = [], []
    for hi, h in enumerate(hs):
        for si, sp in sorted(annotate(h).items()):
            order.append((hi, si))
            specs.append(sp)
    env = {"OMP_WAIT_POLICY": "passive"}
    jobs = [("replay", {"mode": "replay", "histories": hs}), ("fresh", {"mode": "fresh", "specs": specs, "emulate": True})]
    # truly fresh interpreters validate the hand-reset emulation (a sample in the quick tier)
    # (every truly fresh interpreter pays the full JIT warm-up: 6 of them in the thorough tier, 2 in the quick one)
    pick = [i for i, s in enumerate(specs) if s["kind"] in ("KDense", "KFmm")]
    sample = sorted(set((pick[:3] + pick[-3:]) if strength == "thorough" else pick[:1]))
    for i in sample:
        jobs.append(("true%d" % i, {"mode": "fresh", "specs": [specs[i]], "emulate": False}))
    with ThreadPoolExecutor(max_workers=4 if strength != "thorough" else 6) as ex:
        res = list(ex.map(lambda j: ctx.run_impl("c18_impl.py", j[1], timeout=3000, threads=3, extra_env=env), jobs))
    out = {"histories": hs, "specs": specs, "order": order, "replay": res[0], "fresh": res[1],
           "true": {i: r for i, r in zip(sample, res[2:])}}
    for r in res:
        if r is not None and r.get("crash"):
            ctx.problem("harness", "c18_impl.py crashed", r["crash"])
    return out


def _verdicts(ctx, data):
    """[(history, step, spec, equal-to-fresh?, observation)]"""
    if data["replay"] is None or data["fresh"] is None or "observations" not in data["replay"]:
        return None
    obs = {(o["history"], o["step"]): o for o in data["replay"]["observations"] if o["what"] != "op"}
    rows = []
    for k, ((hi, si), sp) in enumerate(zip(data["order"], data["specs"])):
        o = obs.get((hi, si))
        f = data["fresh"]["results"][k]
        if o is None:
            ctx.problem("harness", "observation missing for history %d step %d" % (hi, si))
            continue
        rows.append((hi, si, sp, _close(o, f, 1e-4 if sp.get("single") else 1e-9), o, f))
        t = data["true"].get(k)
        if t is not None and "results" in t and not _close(t["results"][0], f):
            ctx.problem("harness", "the hand-reset 'fresh' emulation differs from a truly fresh interpreter", sp)
    return rows


def correspond(ctx):
    data = _both(ctx, "thorough" if ctx.tier == "thorough" else "quick")
    ctx.data = data
    rows = _verdicts(ctx, data)
    if rows is None:
        return
    ctx.rows = rows
    # the model's verdict for the same observations
    hdefs, queries = [], []
    for hi, h in enumerate(data["histories"]):
        terms, after = coq_history(h)
        hdefs.append("Definition h%d : list op := [%s]." % (hi, "; ".join(terms)))
    for (hi, si, sp, eq, o, f) in rows:
        h = data["histories"][hi]
        _, after = coq_history(h)
        st = h[si]
        n = after[si]
        if st[0] == "mass":
            qs = ["(%d, 1, %d)" % (n, st[1])]
        elif sp["what"] == "blocked":
            qs = ["(%d, 0, %d)" % (n, _model_index(h, si, i)) for i in sp["part_index"]]
        elif st[0] == "strong":
            sidx = [x for x in h[:si] if x[0] in ("op", "blocked")][st[1]][2]
            qs = ["(%d, 0, %d)" % (n, _model_index(h, si, st[1])), "(%d, 1, %d)" % (n, sidx)]
        elif st[0] == "iface":
            qs = ["(%d, 2, %d)" % (n, _model_index(h, si, st[1]))]
        else:
            qs = ["(%d, 0, %d)" % (n, _model_index(h, si, st[1]))]
        queries.append((hi, qs))
    body = "\n".join(["From Coq Require Import ZArith List.", "From BV Require Import State.Caches.",
                      "From BVgen Require Import CacheKeys.", "Import ListNotations."] + hdefs + [
        "Definition answers : list (list (option bool)) := [%s]." % ";\n ".join(
            "map (answer2 cur h%d) [%s]" % (hi, "; ".join("(%s)%%nat" % q[1:-1] for q in qs)) for hi, qs in queries),
        "Eval vm_compute in answers.", ""])
    out = ctx.coq_eval("c18cases", body, timeout=600)
    ctx.corr["evaluations"] = len(rows)
    ctx.corr["distinct_nontrivial"] = len({(hi, si) for hi, si, sp, eq, o, f in rows
                                           if any(x[0] == "set" for x in data["histories"][hi][:si])})
    ctx.corr["rule"] = ("for every observation of every replayed history: does the library's value equal the fresh-process "
                        "value (1e-9)?  vs  does the state-machine model with the regenerated tables predict equality of the "
                        "visible part of the descriptors?  non-trivial = the observation comes after at least one parameter "
                        "change")
    hist = {}
    for hi, si, sp, eq, o, f in rows:
        k = "%s %s -> %s" % (sp["kind"], sp["what"], "equal" if eq else ("differs" if "value" in o else o["exception"]))
        hist[k] = hist.get(k, 0) + 1
    ctx.corr["histogram"] = hist
    ctx.corr["samples"] = [{"history": data["histories"][hi][:si + 1], "spec": sp, "equal_to_fresh": eq}
                           for hi, si, sp, eq, o, f in rows[:4]]
    if out is None:
        return
    flat = re.findall(r'Some true|Some false|None', out)
    want = sum(len(qs) for _, qs in queries)
    if len(flat) != want:
        ctx.problem("correspondence", "could not parse model answers (%d of %d)" % (len(flat), want), out[-1500:])
        return
    pos = 0
    for (hi, si, sp, eq, o, f), (_, qs) in zip(rows, queries):
        ans = flat[pos:pos + len(qs)]
        pos += len(qs)
        model_eq = all(a == "Some true" for a in ans)
        if "None" in ans or model_eq != eq:
            ctx.corr["disagreements"] += 1
            ctx.problem("correspondence", "model predicts %s, library shows %s for history %s step %d" % (
                ans, "equal to fresh" if eq else "different from fresh", data["histories"][hi][:si + 1], si))


def search(ctx, strength):
    if strength == "thorough" and ctx.tier != "thorough":
        ctx.data = _both(ctx, "thorough")
        ctx.rows = _verdicts(ctx, ctx.data)
    rows = getattr(ctx, "rows", None)
    if rows is None:
        return
    ctx.search_info["evaluations"] = len(rows) + sum(len(h) for h in ctx.data["histories"])
    counts = {}
    for hi, si, sp, eq, o, f in rows:
        if o.get("same_object") is False:
            ctx.failure("C18:weak_form-returns-a-new-object-on-repetition", "repeated weak_form() returns another object",
                        {"history": ctx.data["histories"][hi][:si + 1]})
        if not eq:
            sig, what = _signature(ctx.data["histories"][hi], si, sp)
            counts[sig] = counts.get(sig, 0) + 1
            ctx.failure(sig, what, {"history": ctx.data["histories"][hi][:si + 1], "spec": sp,
                                    "in_process": o.get("exception") or "numbers", "fresh": f.get("exception") or "numbers",
                                    "message": o.get("message")})
    ctx.search_info["notes"].append({"failing_observations_per_signature": counts,
                                     "histories": len(ctx.data["histories"])})


def replay(ctx):
    regen(ctx)
    correspond(ctx)
    search(ctx, "quick")


META = {
    "technique": "Coq proof of invariants over all histories of a state-machine model (parameter-object heap, operator "
                 "cache cells, FMM caches, mass-matrix memo) whose tables - which parameter each assembler reads, through "
                 "which object and when; cache keys vs build inputs - are regenerated from the source; histories replayed on "
                 "the library against fresh-interpreter values, and against the model's verdicts",
    "level_text": "Theorems in coq/props/C18.v: for all histories the cached weak form is written once and never changed by "
                  "later steps, repeated weak_form is idempotent; every non-FMM assembler of the current source reads all "
                  "parameters through its own object, hence (all histories) dense/sparse/singular/dense-potential results are "
                  "a function of the own parameter object at construction/first assembly, equal to what a fresh process "
                  "computes; binding times; for ANY tables whose FMM cache keys contain all build inputs the caches are transparent "
                  "(all histories). Refuted on the pinned tree, with witness histories: explicit parameters for FMM "
                  "operators, sufficiency of both FMM cache keys, the mass-matrix memo; clearing the cache restores "
                  "independence. Assembling a derived operator (-A, k*A, A+B, A-B, A*B) never changes "
                  "the cached value of an operand, for all histories, given that the regenerated list of in-place updates is "
                  "empty (theorem over the regenerated table); refuted for tables with an in-place scaling.",
    "level_note": "Trusted: Coq kernel; translators/cachekeys.py and its list of assembler functions; the harness and the "
                  "exafmm stand-in. Numerical content abstracted to descriptors; single precision not modelled.",
    "design_ref": "DESIGN.md §7 C18",
}
