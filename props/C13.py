"""C13 Sparse operators, projections and integrals are exact L2 quantities."""
import json
import time

from props import asm_emit as E
from translators import tables

ID = "C13"
PROP_FILE = "props/C13.v"
COQ_TARGETS = ["props/C13.vo", "theories/AssemblyA/CorrSparse.vo"]
TRUSTED = [
    "hand model coq/theories/AssemblyA/Sparse.v of SparseAssembler/assemble_sparse/default_sparse_kernel/l2_identity_kernel/"
    "laplace_beltrami_kernel, the basis evaluators, _project_function(_vectorized), _integrate, evaluate_on_*, "
    "MultiplicationOperator._assemble, tied by harness/c13_impl.py + theories/AssemblyA/CorrSparse.v (exact dyadic evaluation, "
    "diff inside Coq)",
    "translators/tables.py (triangle rule tables regenerated from triangle_gauss.py; used by C13_weights_sum_to_half)",
    "the Numba-decorated routines are executed through .py_func in the correspondence and in the quick search "
    "(same source text); the thorough search runs the compiled code",
    "edge_length / integration_element is fed to the model as the float quotient the implementation computes",
    "the models of _integrate and MultiplicationOperator are those of the repaired code (fix: commits edfc0c1, 040d575); "
    "the correspondence accepts nothing else",
    "NumPy float64 arithmetic = IEEE binary64; comparison tolerance 1e-11 relative to the largest entry",
]
ASSUMPTIONS = [
    "exactness of the quadrature for polynomial integrands (identity = exact L2 matrix for order >= degree) rests on C12's "
    "table sweep; the combination 'quadrature form + exact rule => exact integral' is stated, not formalised as an integral",
    "positive definiteness (as opposed to semi-definiteness) of mass matrices is only exercised by the search",
    "scipy's coo->csr duplicate summation, sparse products and splu (inverse mass matrix) are trusted",
]


def regen(ctx):
    ctx.translate(tables.tri_tables)
    ctx.translate(tables.gauss_tables)
    ctx.translate(tables.duffy_regions)
    for f in ("bempp_cl/core/sparse_assembler.py", "bempp_cl/core/numba_kernels.py",
              "bempp_cl/api/operators/boundary/sparse.py", "bempp_cl/api/assembly/grid_function.py",
              "bempp_cl/api/assembly/boundary_operator.py", "bempp_cl/api/utils/helpers.py",
              "bempp_cl/api/space/space.py", "bempp_cl/api/space/scalar_spaces.py",
              "bempp_cl/api/space/maxwell_spaces.py", "bempp_cl/api/space/shapesets.py"):
        ctx.src(f)


def gx(x):
    return "(mkGx %s %s %s)" % (E.lst("(%s, %s)" % (E.pt3(j[0]), E.pt3(j[1])) for j in x["jit"]),
                               E.lst(E.dyc(v) for v in x["vol"]),
                               E.lst(E.lst(E.dyc(v) for v in r) for r in x["ratio"]))


def scase(c):
    return "(mkSCase %s %s %s %d %s %d %d %s %d %d %s %s)" % (
        E.griddata(c["grid"]), gx(c["gx"]), E.spdata(c["test"]), c["kt"], E.spdata(c["trial"]), c["kr"], c["op"],
        E.rule(c["rule"]), c["rows"], c["cols"], E.matrix(c["matrix"]), E.dyc(c["tol"]))


def vec(v):
    return E.lst(E.dyc(x) for x in v)


def gcase(c):
    def tab3(t):
        return E.lst(E.lst(vec(q) for q in e) for e in t)
    return "(mkGCase %s %s %s %d %s %s %s %d %s %s %s %s %s %s %s %s %s %s)" % (
        E.griddata(c["grid"]), gx(c["gx"]), E.spdata(c["space"]), c["kind"], E.rule(c["rule"]), vec(c["coef"]),
        E.lst(E.lst(vec(q) for q in e) for e in c["ftab"]), c["nvert"], vec(c["proj"]), vec(c["int"]),
        E.lst(vec(r) for r in c["centers"]), E.lst(vec(r) for r in c["vertices"]), E.dyc(c["third"]),
        tab3(c["fdata_re"]), vec(c["projv_re"]), tab3(c["fdata_im"]), vec(c["projv_im"]), E.dyc(c["tol"]))


def mcase(c):
    return "(mkMCase %s %s %d %s %d %s %d %s %d %s %s %d %d %s %s)" % (
        E.griddata(c["grid"]), gx(c["gx"]), c["mode"], E.spdata(c["test"]), c["kt"], E.spdata(c["trial"]), c["kr"],
        E.spdata(c["fun"]), c["kf"], vec(c["gcoef"]), E.rule(c["rule"]), c["rows"], c["cols"], E.matrix(c["matrix"]),
        E.dyc(c["tol"]))


def body(kind, cases):
    h = E.HEADER % "AssemblyA.CorrDense AssemblyA.CorrSparse"
    if kind == "sparse":
        return h + "Definition cases : list scase := %s.\nEval vm_compute in (failing scase_ok cases).\n" % \
            E.lst(scase(c) for c in cases)
    if kind == "gridfun":
        return h + "Definition cases : list gcase := %s.\nEval vm_compute in (failing gcase_ok cases).\n" % \
            E.lst(gcase(c) for c in cases)
    return h + "Definition cases : list mcase := %s.\nEval vm_compute in (failing mcase_ok cases).\n" % \
        E.lst(mcase(c) for c in cases)


def correspond(ctx):
    t0 = time.time()
    strength = "thorough" if ctx.tier == "thorough" else "quick"
    both = ctx.run_impl("c13_impl.py", {"mode": "both", "strength": strength}, timeout=3600)
    ctx.note("implementation process wall %.0fs" % (time.time() - t0))
    if both is None:
        return
    res = both["corr"]
    ctx.search_result = (strength, both["search"])
    for e in res["errors"]:
        ctx.problem("correspondence", "harness could not build a case", json.dumps(e)[:600])
    for c in res["gridfun"]:
        if not c.get("projc_re_consistent", True):
            ctx.corr["disagreements"] += 1
            ctx.problem("correspondence", "real part of the projections of a complex vectorised callable differs from the "
                        "projections of the real vectorised callable", json.dumps(c["spec"]))
    # one coqc process (loading Bignums dominates; the evaluation itself takes a few seconds)
    jobs = [(k, res[k]) for k in ("sparse", "gridfun", "mult")]
    h = E.HEADER % "AssemblyA.CorrDense AssemblyA.CorrSparse"
    text = h + "".join(body(k, g)[len(h):].replace("Definition cases", "Definition cases_%s" % k)
                       .replace("ok cases)", "ok cases_%s)" % k) for k, g in jobs)
    one = ctx.coq_eval("c13cases", text, timeout=1500)
    lists = E.parse_nat_lists(one) if one is not None else []
    if one is not None and len(lists) != 3:
        ctx.problem("correspondence", "could not parse model evaluation output", one[-1500:])
        lists = []
    outs = ["= %s : list nat" % l for l in lists] if lists else [None] * 3
    ctx.note("implementation + model evaluation wall %.0fs" % (time.time() - t0))
    n = sum(len(res[k]) for k in ("sparse", "gridfun", "mult"))
    ctx.corr["evaluations"] = n
    ctx.corr["distinct_nontrivial"] = sum(1 for c in res["sparse"] if c["maxabs"] > 0) + \
        sum(1 for c in res["gridfun"] if c["ndof"] > 0) + sum(1 for c in res["mult"] if c["maxabs"] > 0)
    ctx.corr["histogram"] = {
        "sparse_cases": len(res["sparse"]), "laplace_beltrami": sum(1 for c in res["sparse"] if c["op"] == 1),
        "sparse_space_pairs": sorted({"%s x %s" % (c["spec"]["test"][0], c["spec"]["trial"][0]) for c in res["sparse"]}),
        "gridfun_cases": len(res["gridfun"]),
        "gridfun_non_prefix_support_with_non_uniform_areas": sum(
            1 for c in res["gridfun"] if c["spec"]["non_prefix"] and c["spec"]["areas_differ_from_leading_block"]),
        "vectorised_projection_tables": sum(1 for c in res["gridfun"] if c["fdata_re"]) * 2,
        "gridfun_kinds": {k: sum(1 for c in res["gridfun"] if c["spec"]["space"][0] == k)
                          for k in sorted({c["spec"]["space"][0] for c in res["gridfun"]})},
        "restricted_support": sum(1 for c in res["sparse"] if c["spec"]["test"][1] or c["spec"]["trial"][1]) +
        sum(1 for c in res["gridfun"] if c["spec"]["space"][1]),
        "multiplication_operator_cases": len(res["mult"]),
        "numbers_compared": sum(c["rows"] * c["cols"] for c in res["sparse"] + res["mult"]) +
        sum(len(c["proj"]) + len(c["int"]) + sum(len(r) for r in c["centers"]) + sum(len(r) for r in c["vertices"])
            for c in res["gridfun"])}
    ctx.corr["rule"] = ("one case = one library run: a sparse operator (identity / laplace_beltrami) between two spaces, or the "
                        "four grid-function routines (projection of a callable, integrate, evaluate_on_element_centers, "
                        "evaluate_on_vertices) on one space with random coefficients, or one MultiplicationOperator; the model is "
                        "evaluated on the library's own arrays in exact dyadic arithmetic and every number is compared inside Coq "
                        "at 1e-11 relative; non-trivial = non-zero matrix / space with at least one DOF")
    ctx.corr["samples"] = [c["spec"] for c in (res["sparse"][:2] + res["gridfun"][:2] + res["mult"][:2])]
    for (kind, grp), out in zip(jobs, outs):
        if out is None:
            continue
        lists = E.parse_nat_lists(out)
        if len(lists) != 1:
            ctx.problem("correspondence", "could not parse model evaluation output", out[-1500:])
            continue
        for i in lists[0]:
            ctx.corr["disagreements"] += 1
            ctx.problem("correspondence", "%s model and implementation disagree" % kind, json.dumps(grp[i]["spec"]))


def search(ctx, strength):
    have = getattr(ctx, "search_result", None)
    carried = []
    if have is not None and (have[0] == strength or have[0] == "thorough"):
        res = have[1]
    else:
        if have is not None:
            # escalation after a broken tie/proof: keep what the quick search of the same run already found
            carried = list(have[1]["failures"])
            ctx.search_info["notes"].append({"quick_search_of_this_run": {"evaluations": have[1]["evaluations"],
                                                                         "failures": len(carried)}})
        if carried:
            # the quick search already exhibits failing inputs: they are the replay, no need for the long search
            res, carried = have[1], []
            r = {"search": res}
        else:
            r = None
        if r is not None:
            pass
        elif True:
            r = ctx.run_impl("c13_impl.py", {"mode": "search", "strength": strength}, timeout=3600)
            if r is None:
                return
            res = r["search"]
    ctx.search_info["evaluations"] = res["evaluations"]
    ctx.search_info["notes"].append({"worst_error": res["worst"], "skipped": res["skipped"], "wall_s": res["wall"],
                                     "py_func_mode": res.get("py_func_mode")})
    for f in carried + res["failures"]:
        ctx.failure(f["signature"], f["what"], f["data"])


def replay(ctx):
    regen(ctx)
    search(ctx, "thorough")


META = {
    "technique": "Coq proof over a hand-written executable model of the sparse assembler, the basis evaluators and the grid-function "
                 "routines (any commutative ring; positive semi-definiteness over Q), tied to the source by running the library on "
                 "small grids and diffing every number exactly inside Coq; triangle-rule weight sums from tables regenerated from "
                 "the source",
    "level_text": "Theorems in coq/props/C13.v: for all spaces, DOF maps, multipliers, rules and geometry data y'Mx of the identity "
                  "operator equals the quadrature of the product of the represented functions over the common support (entry form, "
                  "symmetry for equal spaces), entries of partition-of-unity bases sum to (sum of weights)(sum of integration "
                  "elements) with every shipped rule's weights summing to 1/2 within 1e-14, Laplace-Beltrami is symmetric, "
                  "annihilates constants and is positive semi-definite whenever the weights sum to a non-negative number, "
                  "projection of an in-space callable equals mass matrix times coefficients, evaluate_on_vertices returns the value "
                  "of single-valued functions, integrate() is the quadrature of the represented function for every space (signed "
                  "multipliers included), MultiplicationOperator entries are the quadrature of test . g . trial over the common support.",
    "level_note": "Trusted: Coq kernel (+ primitive ints for the table fact and the model evaluation); the hand model and its "
                  "correspondence (41 library runs per quick check: all space kinds x support options, orders 1-4); tables translator. "
                  "Not proved: identification of the quadrature sums with exact integrals (uses C12's exactness sweep informally), "
                  "strict positive definiteness, inverse mass matrix (splu).",
    "design_ref": "DESIGN.md §7 C13",
}
