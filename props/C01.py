"""C01 Laplace boundary operators satisfy the Calderon identities on any polyhedron (provable logic part)."""
from concurrent.futures import ThreadPoolExecutor

from props import _gridutil as U
from translators import tables, py_kernels

ID = "C01"
PROP_FILE = "props/C01.v"
COQ_TARGETS = ["props/C01.vo", "theories/Grid/SingularCorr.vo", "theories/Grid/GridCorr.vo"]
TRUSTED = ["correspondence harness harness/c01_impl.py + theories/Grid/SingularCorr.v (get_arrays() of the singular quadrature "
           "interface vs the model, integers exactly, points/weights as exact rationals at 1e-14)",
           "the grid adjacency model theories/Grid/Topology.v is tied to Grid(...) by the correspondence of check C11, which this "
           "check reruns on a reduced input set",
           "translators/tables.py (Duffy region formulas and point-count factors regenerated from duffy_galerkin.py)"]
ASSUMPTIONS = ["ANALYTIC GAP (not proved): the Duffy/Gauss quadrature sums converge to the boundary integrals and those satisfy "
               "(1/2 M + K) g = V psi and W g = (1/2 M' - K') psi for affine u; only exercised by the search "
               "(residuals fall below 1e-6 as the orders are raised)",
               "the scatter of the singular/regular pair contributions into the dense matrix through local2global and "
               "multipliers is the subject of C04 (congruence) and is not restated here",
               "double-layer kernels = normal derivatives of the single-layer kernel: theorems of Kernels/LaplaceDerivs.v, "
               "added to props/C01.v by the lead"]

SOURCES = ["bempp_cl/core/singular_assembler.py", "bempp_cl/api/grid/grid.py", "bempp_cl/core/numba_kernels.py",
           "bempp_cl/core/dense_assembler.py", "bempp_cl/api/operators/boundary/laplace.py",
           "bempp_cl/api/operators/boundary/sparse.py"]

HEADER = "\n".join(["From Coq Require Import QArith ZArith List Bool Arith.",
                    "From BV Require Import Quad.Rules Grid.Topology Grid.GridCorr Grid.SingularOffsets Grid.SingularCorr.",
                    "Import ListNotations.", ""])


def regen(ctx):
    for s in SOURCES:
        ctx.src(s)
    ctx.tables = {"tri": ctx.translate(tables.tri_tables), "gauss": ctx.translate(tables.gauss_tables),
                  "duffy": ctx.translate(tables.duffy_regions)}
    ctx.nb = ctx.translate(py_kernels.numba_kernels)  # gen/NumbaKernels.v for the kernel-derivative theorems


def _zs(xs):
    return U.lst("(%d)%%Z" % x for x in xs)


def _arrays_body(cases):
    items = []
    for c in cases:
        sing = "(mkSing %s %s %s %s %s %s)" % (U.nats(c["test_indices"]), U.nats(c["trial_indices"]), _zs(c["test_offsets"]),
                                               _zs(c["trial_offsets"]), _zs(c["weights_offsets"]), _zs(c["nquad"]))
        items.append("((%d)%%Z, %s, %s, %s, %s, %s)" % (c["order"], U.bools(c["ts"]), U.bools(c["rs"]),
                                                       U.lst(U.tup(r) for r in c["ea"]), U.lst(U.tup(r) for r in c["va"]), sing))
    return HEADER + "Open Scope nat_scope.\nDefinition cases : list sing_case := %s.\n" % U.lst(items) + \
        "Eval vm_compute in (failing sing_case_ok cases).\n"


def _rule_body(order, r):
    pts = lambda l: U.lst("(%s, %s)" % (U.qq(p[0]), U.qq(p[1])) for p in l)
    return HEADER + "Open Scope Q_scope.\nDefinition cases : list rule_case := [((%d)%%Z, %s, %s, %s)].\n" % (
        order, pts(r["tp"]), pts(r["rp"]), U.lst(U.qq(w) for w in r["w"])) + \
        "Eval vm_compute in (failing rule_case_ok cases).\n"


def _rule2_body(r):
    pts = lambda l: U.lst("(%s, %s)" % (U.qq(p[0]), U.qq(p[1])) for p in l)
    qp = lambda l: U.lst("(mkQ %s %s %s %s %s)" % tuple(U.qq(x) for x in p) for p in l)
    return HEADER + "Open Scope Q_scope.\nDefinition cases : list rule2_case := [(%s, %s, %s, %s, %s, %s)].\n" % (
        qp(r["rc"]), qp(r["re"]), qp(r["rv"]), pts(r["tp"]), pts(r["rp"]), U.lst(U.qq(w) for w in r["w"])) + \
        "Eval vm_compute in (failing rule2_case_ok cases).\n"


def _topo_body(cases):
    items = ["(%s, %d, %d, %s)" % (U.elems(c["els"]), c["nv"], c["kind"], U.topology(c["tables"])) for c in cases]
    return HEADER + "Open Scope nat_scope.\nDefinition cases : list topo_case := %s.\n" % U.lst(items) + \
        "Eval vm_compute in (diffs topo_case_diff cases).\n"


def _launch(ctx, strength, corr=True):
    """Start the implementation-side processes concurrently: numba compiles every kernel family anew in each process
    (15-40 s each), so the four operator families run in four processes and the driver combines their vectors."""
    ex = ThreadPoolExecutor(max_workers=5)
    ctx.futs = {}
    if corr:
        ctx.futs["corr"] = ex.submit(ctx.run_impl, "c01_impl.py", {"strength": strength, "parts": ["arrays", "rule", "topo"]}, 2400)
    for w in ("V", "K", "W", "Kt"):
        ctx.futs[w] = ex.submit(ctx.run_impl, "c01_impl.py", {"strength": strength, "parts": ["search"], "operator": w}, 7000,
                                4)
    ctx.futs_strength = strength


def correspond(ctx):
    strength = "thorough" if ctx.tier == "thorough" else "quick"
    _launch(ctx, strength)
    res = ctx.futs["corr"].result()
    if res is None:
        return
    for f in res["failures"]:
        ctx.failure(f["signature"], f["what"], f["data"])
        ctx.problem("correspondence", f["what"])
    jobs = [("c01arrays", _arrays_body(res["arrays"]))]
    names = [("arrays", res["arrays"])]
    for order, r in sorted(res["rule"].items(), key=lambda kv: int(kv[0])):
        jobs.append(("c01rule%s" % order, _rule_body(int(order), r)))
        names.append(("rule", order))
    for order, r in sorted(res.get("rule2", {}).items(), key=lambda kv: int(kv[0])):
        jobs.append(("c01rule2_%s" % order, _rule2_body(r)))
        names.append(("rule", "%s (structural: library's duffy rule as input)" % order))
    topo = res["topo"]
    for k, ch in enumerate(U.chunks(topo, 200)):
        jobs.append(("c01topo%d" % k, _topo_body(ch)))
        names.append(("topo", ch))
    adj = res.get("adjacent", [])
    jobs.append(("c01adjacent", HEADER + "Open Scope nat_scope.\nDefinition cases : list (list elem * list bool) := %s.\n" % U.lst(
        "(%s, %s)" % (U.elems(c["els"]), U.bools(c["adj"])) for c in adj) + "Eval vm_compute in (failing adjacent_case_ok cases).\n"))
    names.append(("adjacent", adj))
    cols = res.get("colors", [])
    opt = lambda c: "None" if c < 0 else "(Some %d)" % c
    jobs.append(("c01colors", HEADER + "Open Scope nat_scope.\nDefinition cases : list color_case := %s.\n" % U.lst(
        "(%s, %s, %s)" % (U.lst(opt(x) for x in c["cm"]), U.nats(c["sorted"]), U.nats(c["indexptr"])) for c in cols) +
        "Eval vm_compute in (failing color_case_ok cases).\n"))
    names.append(("colors", cols))
    for c in cols:   # the hypothesis colours_match of C01_pair_coverage: coloured elements = support
        if [x >= 0 for x in c["cm"]] != c["support"]:
            ctx.corr["disagreements"] += 1
            ctx.problem("correspondence", "space.color_map colours an element outside the support or misses one: %s" % c)
    outs = U.eval_many(ctx, jobs, workers=4, timeout=3000)
    n_eval, nontriv = 0, 0
    hist = {"get_arrays_cases": len(res["arrays"]), "rule_orders": sorted(int(o) for o in res["rule"]), "rule_orders_structural": sorted(int(o) for o in res.get("rule2", {})),
            "rule_points_compared": sum(len(r["w"]) for r in res["rule"].values()), "grid_topology_cases": len(topo)}
    for (kind, data), out in zip(names, outs):
        if out is None:
            continue
        if kind == "topo":
            pl = U.parse_pair_list(out)
            if len(pl) != 1:
                ctx.problem("correspondence", "could not parse the topology comparison output", out[-1500:])
                continue
            n_eval += len(data)
            nontriv += sum(1 for c in data if c["tables"] and (c["tables"]["edge_adjacency"] or c["tables"]["vertex_adjacency"]))
            for i, code in pl[0]:
                ctx.corr["disagreements"] += 1
                ctx.problem("correspondence", "Grid(...) adjacency and the model disagree (table code %d): %s" % (
                    code, {"elements": data[i]["els"], "nv": data[i]["nv"]}))
            continue
        nl = U.parse_nat_list(out)
        if len(nl) != 1:
            ctx.problem("correspondence", "could not parse the %s comparison output" % kind, out[-1500:])
            continue
        if kind == "colors":
            n_eval += len(data)
            hist["get_elements_by_color_cases"] = len(data)
            for i in nl[0]:
                ctx.corr["disagreements"] += 1
                ctx.problem("correspondence", "get_elements_by_color() and the model disagree: color_map %s" % data[i]["cm"])
        elif kind == "adjacent":
            n_eval += len(data)
            hist["elements_adjacent_grids"] = len(data)
            for i in nl[0]:
                ctx.corr["disagreements"] += 1
                ctx.problem("correspondence", "elements_adjacent and the model disagree on %s" % data[i]["els"])
        elif kind == "arrays":
            n_eval += len(data)
            nontriv += sum(1 for c in data if len(c["test_indices"]) > sum(1 for a, b in zip(c["ts"], c["rs"]) if a and b))
            for n_bad, i in enumerate(nl[0]):
                c = data[i]
                ctx.corr["disagreements"] += 1
                if n_bad < 4:
                    ctx.problem("correspondence", "get_arrays() and the model disagree: %s order %d supports %s / %s" % (
                        c["tag"], c["order"], c["ts"], c["rs"]))
            if len(nl[0]) > 4:
                ctx.problem("correspondence", "... and %d more get_arrays() cases disagree" % (len(nl[0]) - 4))
        else:
            n_eval += 1
            nontriv += 1
            if nl[0]:
                ctx.corr["disagreements"] += 1
                ctx.problem("correspondence", "concatenated singular rule arrays differ from the model at order %s" % data)
    for c in res["arrays"]:
        n = c["order"] ** 4
        want = 6 * n + 30 * n + 6 * n
        if c["npoints"] != [want, want, 13 * n] or any(d != "uint32" for d in c["dtypes"]):
            ctx.corr["disagreements"] += 1
            ctx.problem("correspondence", "get_arrays(): array lengths/dtypes differ from 42n^4/42n^4/13n^4, uint32: %s %s" % (
                c["npoints"], c["dtypes"]))
    ctx.corr["evaluations"] = n_eval
    ctx.corr["distinct_nontrivial"] = nontriv
    ctx.corr["histogram"] = hist
    ctx.corr["rule"] = ("cases: (a) _SingularQuadratureRuleInterfaceGalerkin(grid, order, test_support, trial_support).get_arrays() "
                        "on 6 grids with full and random supports, orders 1..6: the six per-pair arrays compared exactly with the "
                        "model fed with the grid's own adjacency tables; (b) the three concatenated point/weight arrays for orders "
                        "1..4 compared entry by entry with the model built from the regenerated Duffy regions and remaps; "
                        "(c) Grid(...) adjacency tables vs the topology model on all sub-complexes of the octahedron + random soups. "
                        "non-trivial = case with at least one edge- or vertex-adjacent pair / non-empty table")
    ctx.corr["samples"] = [{k: c[k] for k in ("tag", "order", "ts", "rs", "test_indices", "test_offsets", "trial_offsets")}
                           for c in res["arrays"][1:3]]


TARGET = 1e-6


def _judge(seq):
    """ok: the residual falls below 1e-6 (the last one is below) and never grows by more than a factor 2 from one order
    to the next while above 1e-6 -- convergence, never a single order."""
    for x, y in zip(seq, seq[1:]):
        if x >= TARGET and y > 2 * x:
            return "fail"
    return "ok" if seq[-1] < TARGET else "fail"


def _norm(x):
    return sum(t * t for t in x) ** 0.5


def search(ctx, strength):
    if not hasattr(ctx, "futs"):
        _launch(ctx, strength, corr=False)
    _collect(ctx)
    if strength == "thorough" and ctx.futs_strength != "thorough" and not ctx.failures:
        # something broke and the quick inputs show no failing input: widen the search
        _launch(ctx, "thorough", corr=False)
        _collect(ctx)


def _collect(ctx):
    vec = {}
    for w in ("V", "K", "W", "Kt"):
        res = ctx.futs[w].result()
        if res is None:
            return
        vec[w] = res["vectors"]["cases"]
        ctx.search_info["evaluations"] += res["search_evals"]
        for f in res["failures"]:
            ctx.failure(f["signature"], f["what"], f["data"])
    table = {}
    for k, c in enumerate(vec["V"]):
        seqs = {1: [], 2: []}
        for o in range(len(c["orders"])):
            Vp, Kg = vec["V"][k]["vectors"][o], vec["K"][k]["vectors"][o]
            Wg, Kt = vec["W"][k]["vectors"][o], vec["Kt"][k]["vectors"][o]
            if any(isinstance(x, dict) for x in (Vp, Kg, Wg, Kt)):   # assembly raised: already recorded as a failing input
                seqs[1].append(float("inf"))
                seqs[2].append(float("inf"))
                continue
            seqs[1].append(_norm([p - q for p, q in zip(Kg, Vp)]) / _norm(Vp))
            seqs[2].append(_norm([p - q for p, q in zip(Wg, Kt)]) / _norm(Kt))
        verdicts = {i: _judge(s) for i, s in seqs.items()}
        table[c["tag"]] = {"orders": c["orders"], "first_identity": seqs[1], "second_identity": seqs[2],
                           "verdicts": [verdicts[1], verdicts[2]]}
        data = {k2: c[k2] for k2 in ("mesh", "vertices", "elements", "a", "b", "orders")}
        for i, name in ((1, "first identity (1/2 M + K) g = V psi"), (2, "second identity W g = (1/2 M' - K') psi")):
            if verdicts[i] == "fail":
                ctx.failure("calderon:%s-identity-residual-does-not-fall-below-1e-6" % ("first" if i == 1 else "second"),
                            "%s: residuals %s at orders %s on %s" % (name, ["%.1e" % x for x in seqs[i]], c["orders"], c["tag"]),
                            dict(data, residuals=seqs[i]))
    ctx.search_info["notes"].append({"residuals_per_order": table})


def replay(ctx):
    regen(ctx)
    data = ctx.replay.get("input") or {}
    if "a" in data or "order" in data:
        res = ctx.run_impl("c01_impl.py", {"parts": ["replay" if "a" in data else "replay_arrays"], "input": data}, timeout=3400)
        if res:
            ctx.search_info["evaluations"] = res["search_evals"]
            ctx.search_info["notes"].append(res.get("worst"))
            for f in res["failures"]:
                ctx.failure(f["signature"], f["what"], f["data"])
    else:
        search(ctx, "thorough")


META = {
    "technique": "Coq proof of the logic part over hand-written executable models (grid adjacency, singular-rule offset "
                 "vectorisation) and regenerated Duffy regions/remaps; correspondence of the models with Grid(...) and "
                 "get_arrays() evaluated inside Coq; the analytic part is exercised by a convergence search on the implementation",
    "level_text": "Theorems in coq/props/C01.v: for EVERY triangulation (distinct vertices per element, no duplicate triangles) "
                  "every ordered element pair is in exactly one of coincident / one edge-adjacency column / one vertex-adjacency "
                  "column / not adjacent (regular rule), with exactly the shared local indices; for every order 1..30 the offsets "
                  "stored per pair address exactly the block of the concatenated Duffy point array produced by the remap that "
                  "places those shared vertices first (block sizes 6n^4/5n^4/2n^4, table [[-1,0,4],[1,-1,2],[5,3,-1]]), weights "
                  "likewise; remaps place shared vertices first for every triangle and point; support filter exact. Conjunction "
                  "C01_calderon_partial. The analytic statement (quadrature sums converge to integrals satisfying Calderon's "
                  "identities) is NOT proved.",
    "level_note": "Trusted: Coq kernel + vm_compute (no axioms under any theorem); "
                  "translators/tables.py; correspondence harness. Gap: potential theory and quadrature convergence; scatter into "
                  "the global matrix (C04); kernel-derivative relation (separate theorems). The search assembles V,K,K',W,M on small "
                  "closed meshes and requires both residuals to fall below 1e-6 as orders are raised - testing, reported as such.",
    "design_ref": "DESIGN.md §7 C01",
}
