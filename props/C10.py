"""C10 Barycentric and dual-grid spaces represent the functions they claim to."""
import re
from concurrent.futures import ThreadPoolExecutor

from translators import bary_tables

ID = "C10"
PROP_FILE = "props/C10.v"
COQ_TARGETS = ["props/C10.vo", "theories/Bary/Corr.vo", "theories/Bary/DualCorr.vo", "theories/Bary/BcCorr.vo",
               "theories/Bary/RefineCorr.vo"]
TRUSTED = [
    "correspondence harness harness/c10_impl.py, c10_dual.py + theories/Bary/Corr.v, DualCorr.v (diff inside Coq on the exact "
    "rationals of the implementation's doubles; tolerances 1e-13 absolute on coordinates, 1e-12 relative on matrix entries)",
    "NumPy/SciPy float64 arithmetic and coo->csr duplicate summation (model computes in exact rationals)",
    "harness/c10_mass.py reference mass matrices: order-8 triangle rule (exact for degree 8, C12) applied to the product of "
    "the two bases evaluated through bempp-cl's own evaluate()",
]
ASSUMPTIONS = [
    "The hand models of the dual0/dual1 coefficient loops, of the BC/RBC coefficient stage and of the connectivity memo loop are "
    "tied by correspondence (tie H); the BC stage is additionally pinned to the source text by the translator",
    "BC/RBC: the ordered vertex fans (enumerate_vertex_adjacent_elements, _get_barycentric_edges_associated_to_vertex, "
    "_sort_vertex_edges) and the choice of upper/lower cells in _compute_bc_space_data are inputs of the model; the hypotheses "
    "of the flux theorems are checked on the recorded fans in every run, the fan ordering itself is only exercised",
    "DUAL1: soundness and non-overlap of the entries are proved; completeness (every documented node receives its entry) is "
    "corresponded and searched",
    "Mixed mass: composition X' M X = quadrature of products (abstract ring), pointwise representation (Q / R) and exactness of "
    "the rule (Q) are three theorems over different carriers, not merged into one formula",
    "1/3-style table constants are taken as exact rationals; the doubles differ by <= 1 ulp (covered by the tolerance)",
]


def regen(ctx):
    ctx.tables = ctx.translate(bary_tables.bary_tables)


# ------------------------------------------------------------------------------------------------------------
def _q(p):
    n, d = p
    return "(%s # %d)" % (n if n >= 0 else "(%d)" % n, d)


def _lst(xs):
    return "[" + "; ".join(xs) + "]"


def _vec(v):
    return "(%s, %s, %s)" % (_q(v[0]), _q(v[1]), _q(v[2]))


PARTS = (["geometry", "tables", "pointwise", "dual", "bc"], ["bcmodel", "bcborder", "mass_scalar"], ["mass_vector", "mass_border"])


def _start_harness(ctx, strength):
    """Three harness processes in parallel (numba JIT of the scalar and of the vector sparse assemblers dominates)."""
    ex = ThreadPoolExecutor(max_workers=4)
    to = 9000 if strength == "thorough" else 3000      # generous: numba JIT is 3-4x slower on a loaded machine
    return ex, [ex.submit(ctx.run_impl, "c10_impl.py", {"strength": strength, "parts": p}, to, 4) for p in PARTS]


KIND = {"DP": 0, "P": 1, "RWG": 2, "SNC": 3}


def _nat_ll(ll):
    return _lst(_lst("%d%%nat" % x for x in l) for l in ll)


def _dual_case(c):
    def triples(t):
        return _lst("(%d%%nat, %d%%nat, %s)" % (r, cc, _q(v)) for r, cc, v in t)
    return ("{| dc_truncate := %s; dc_elements := %s; dc_element_edges := %s; dc_edge_neighbors := %s; "
            "dc_vertex_neighbors := %s; dc_p1_support := %s; dc_p1_g2l := %s; dc_dp0_support := %s; "
            "dc_dual0 := %s; dc_dual1 := %s; dc_dual0_shape := %s; dc_dual1_shape := %s; dc_dual0_support := %s; "
            "dc_dual1_support := %s |}" % (
                "true" if c["truncate"] else "false", _nat_ll(c["elements"]), _nat_ll(c["element_edges"]),
                _nat_ll(c["edge_neighbors"]), _nat_ll(c["vertex_neighbors"]),
                _lst("%d%%nat" % x for x in c["p1_support_elements"]),
                _lst(_lst("(%d%%nat, %d%%nat)" % (f, v) for f, v in d) for d in c["p1_g2l"]),
                _lst("%d%%nat" % x for x in c["dp0_support_elements"]),
                ("Some " + triples(c["dual0"])) if "dual0" in c else "None",
                ("Some " + triples(c["dual1"])) if "dual1" in c else "None",
                "(%d%%nat, %d%%nat)" % tuple(c.get("dual0_shape", [0, 0])),
                "(%d%%nat, %d%%nat)" % tuple(c.get("dual1_shape", [0, 0])),
                _lst("%d%%nat" % x for x in c.get("dual0_support", [])),
                _lst("%d%%nat" % x for x in c.get("dual1_support", []))))


def correspond(ctx):
    strength = "thorough" if ctx.tier == "thorough" else "quick"
    ex, futs = _start_harness(ctx, strength)
    ctx.impl = (futs, strength)
    # the BC coefficient model is evaluated (in its own coqc) as soon as the second process is done, in parallel
    bc_future = ex.submit(lambda: _correspond_bc(ctx, futs[1].result()))
    ctx.bc_future = bc_future
    ra = futs[0].result()            # the mass-matrix processes keep running while the model is evaluated in Coq
    if ra is None:
        bc_future.result()
        return
    geom, tabs, duals = ra.get("geom_cases", []), ra.get("table_cases", []), ra.get("dual_cases", [])
    conns = ra.get("conn_cases", [])
    g_terms = []
    for c in geom:
        g_terms.append("{| gc_P := %s; gc_B := %s; gc_ids := %s; gc_coarse := %s |}" % (
            _lst(_vec(p) for p in c["P"]), _lst(_lst(_vec(b) for b in row) for row in c["B"]),
            _nat_ll(c["ids"]), _lst("%d%%nat" % x for x in c["coarse_ids"])))
    t_terms = []
    for c in tabs:
        vals = _lst(("None" if v is None else "Some " + _lst(_q(x) for x in v)) for v in c["vals"])
        lens = _lst("(%s%%nat, %s%%nat, %s)" % (k.split(",")[0], k.split(",")[1], _q(v))
                    for k, v in sorted(c.get("len", {}).items()))
        t_terms.append("{| tc_kind := %d%%nat; tc_vals := %s; tc_len := %s |}" % (KIND[c["kind"]], vals, lens))
    d_terms = [_dual_case(c) for c in duals]
    body = "\n".join([
        "From Coq Require Import QArith List.",
        "From BV Require Import Bary.Syms Bary.Model Bary.Corr Bary.DualModel Bary.DualCorr Bary.RefineCorr.",
        "Import ListNotations.", "Open Scope Q_scope.",
        "Definition geom : list geom_case := %s." % _lst(g_terms),
        "Definition tabs : list table_case := %s." % _lst(t_terms),
        "Definition duals : list dual_case := %s." % _lst(d_terms),
        "Definition conns : list conn_case := %s." % _lst(
            "{| cc_nv := %d%%nat; cc_elements := %s; cc_element_edges := %s; cc_bary := %s |}" % (
                c["nv"], _nat_ll(c["elements"]), _nat_ll(c["element_edges"]), _nat_ll(c["bary"])) for c in conns),
        "Eval vm_compute in (failing geom_case_ok geom).",
        "Eval vm_compute in (failing table_case_ok tabs).",
        "Eval vm_compute in (failing dual0_case_ok duals).",
        "Eval vm_compute in (failing dual1_case_ok duals).",
        "Eval vm_compute in (failing conn_case_ok conns).", ""])
    out = ctx.coq_eval("c10cases", body, timeout=900)
    n_d0 = sum(1 for c in duals if "dual0" in c)
    n_d1 = sum(1 for c in duals if "dual1" in c)
    ctx.corr["evaluations"] = len(geom) + len(tabs) + n_d0 + n_d1 + len(conns)
    ctx.corr["distinct_nontrivial"] = len(geom) + sum(1 for c in tabs if any(v is not None for v in c["vals"])) + \
        sum(1 for c in duals if c.get("dual0")) + sum(1 for c in duals if c.get("dual1")) + len(conns)
    ctx.corr["rule"] = ("one case = one coarse element of one grid: (a) the 18 vertices of its six barycentric children as built "
                        "by Grid.barycentric_refinement vs the connectivity model (coordinates to 1e-13, vertex-id sharing "
                        "exact); (b) the 54 (DP0: 6) entries of dof_transformation of space.barycentric_representation() for "
                        "DP0/P1/RWG/SNC, whole grids and segments, vs table * length ratio (1e-12 relative); (c) the complete "
                        "dof_transformation of DUAL0 / DUAL1 vs the hand model of their construction loops (exact); "
                        "non-trivial = the element/space has at least one non-zero entry")
    hist = {}
    for c in tabs:
        k = "table:%s:%s" % (c["kind"], "whole" if c["options"] == "whole" else "segment")
        hist[k] = hist.get(k, 0) + 1
    for c in geom:
        hist["geometry:" + c["grid"]] = hist.get("geometry:" + c["grid"], 0) + 1
    for c in duals:
        k = "dual:%s" % ("whole" if c["options"] == "whole" else ("segment,truncate" if c["truncate"] else "segment"))
        hist[k] = hist.get(k, 0) + 1
    ctx.corr["histogram"] = hist
    if geom:
        ctx.corr["samples"].append({"geometry": {"grid": geom[0]["grid"], "element": geom[0]["e"], "child_0_vertices": geom[0]["B"][0]}})
    if tabs:
        pick = [c for c in tabs if c["kind"] == "RWG"][:1] + [c for c in tabs if c["kind"] == "P"][:1]
        for c in pick:
            ctx.corr["samples"].append({"table": {"grid": c["grid"], "kind": c["kind"], "options": c["options"], "element": c["e"],
                                                  "first_dof_entries": (c["vals"][0] or [])[:6]}})
    if duals:
        ctx.corr["samples"].append({"dual": {"grid": duals[0]["grid"], "options": duals[0]["options"],
                                             "dual1_first_entries": duals[0].get("dual1", [])[:6]}})
    if out is None:
        return
    blocks = re.findall(r'=\s*(\[[^\]]*\])\s*:\s*list nat', out.replace("\n", " "))
    if len(blocks) != 5:
        ctx.problem("correspondence", "could not parse model evaluation output", out[-2000:])
        return
    names = [("barycentric grid", geom, lambda c: "%s element %d" % (c["grid"], c["e"])),
             ("dof_transformation entries", tabs, lambda c: "%s %s (%s) element %d" % (c["grid"], c["kind"], c["options"], c["e"])),
             ("DUAL0 dof_transformation", duals, lambda c: "%s (%s)" % (c["grid"], c["options"])),
             ("DUAL1 dof_transformation", duals, lambda c: "%s (%s)" % (c["grid"], c["options"])),
             ("element array of the barycentric grid (connectivity loop model)", conns, lambda c: c["grid"])]
    for (nm, cases, desc), blk in zip(names, blocks):
        for i in [int(x) for x in re.findall(r'\d+', blk)]:
            ctx.corr["disagreements"] += 1
            ctx.problem("correspondence", "model and implementation disagree on %s: %s" % (nm, desc(cases[i])))
    bc_future.result()


def _slots(l):
    return _lst("(%d%%nat, %d%%nat)" % (a, b) for a, b in l)


def _bc_case(c):
    return ("{| bc_ve1 := %s; bc_ve2 := %s; bc_se1 := %s; bc_se2 := %s; bc_nc1 := %d%%nat; bc_nc2 := %d%%nat; bc_r1 := %d%%nat; "
            "bc_r2 := %d%%nat; bc_cells := %s; bc_info := %s; bc_len := %s; bc_col := %s; bc_interior := %s |}" % (
                _slots(c["ve1"]), _slots(c["ve2"]), _lst("%d%%nat" % x for x in c["se1"]), _lst("%d%%nat" % x for x in c["se2"]),
                c["nc1"], c["nc2"], c["r1"], c["r2"], _lst("%d%%nat" % x for x in c["cells"]),
                _lst("(%d%%nat, %d%%nat, %d%%nat, %d%%nat)" % tuple(i) for i in c["info"]),
                _lst("(%d%%nat, %s)" % (e, _q(v)) for e, v in c["len"]),
                _lst("(%d%%nat, %s)" % (d, _q(v)) for d, v in c["col"]),
                _lst("(%d%%nat, %s)" % (e, _lst("%d%%nat" % s[2] for s in c["slots_of_edge"][str(e)])) for e in c["interior"])))


def _correspond_bc(ctx, rb):
    """BC coefficient model vs the recorded fans / columns of dof_transformation (second harness process)."""
    if rb is None:
        return
    cases = rb.get("bc_cases", [])
    if not cases:
        ctx.problem("correspondence", "no BC coefficient case was recorded")
        return
    body = "\n".join([
        "From Coq Require Import QArith List.", "From BV Require Import Bary.Corr Bary.BcModel Bary.BcCorr.",
        "Import ListNotations.", "Open Scope Q_scope.",
        "Definition cases : list bc_case := %s." % _lst(_bc_case(c) for c in cases),
        "Eval vm_compute in (failing bc_column_ok cases).",
        "Eval vm_compute in (failing bc_flux_ok cases).",
        "Eval vm_compute in (failing bc_hyps_ok cases).", ""])
    out = ctx.coq_eval("c10bccases", body, timeout=900)
    ctx.corr["evaluations"] += len(cases)
    ctx.corr["distinct_nontrivial"] += sum(1 for c in cases if c["col"])
    h = ctx.corr["histogram"]
    for c in cases:
        k = "bc:%s:%s" % ("whole" if c["options"] == "whole" else "segment",
                          "border" if (c["se1"] or c["se2"]) else "interior(valences %d,%d)" % (c["nc1"], c["nc2"]))
        h[k] = h.get(k, 0) + 1
    ctx.corr["samples"].append({"bc": {"grid": cases[0]["grid"], "options": cases[0]["options"], "dof": cases[0]["dof"],
                                       "nc": [cases[0]["nc1"], cases[0]["nc2"]], "column_head": cases[0]["col"][:4]}})
    ctx.corr["rule"] += ("; (d) one BC basis function = one case: its column of dof_transformation vs the Gallina model of the "
                         "coefficient stage on the recorded vertex fans (1e-12 relative), exact zero net flux through every "
                         "interior barycentric edge of the fans, and the hypotheses of the flux theorems")
    if out is None:
        return
    blocks = re.findall(r'=\s*(\[[^\]]*\])\s*:\s*list nat', out.replace("\n", " "))
    if len(blocks) != 3:
        ctx.problem("correspondence", "could not parse BC model evaluation output", out[-2000:])
        return
    for nm, blk in zip(("BC column", "BC interior-edge flux", "hypotheses of the BC flux theorems"), blocks):
        for i in [int(x) for x in re.findall(r'\d+', blk)]:
            ctx.corr["disagreements"] += 1
            c = cases[i]
            ctx.problem("correspondence", "model and implementation disagree on %s: %s (%s) dof %d" % (
                nm, c["grid"], c["options"], c["dof"]))


def _collect(ctx, res):
    for r in res:
        if r is None:
            continue
        ctx.search_info["evaluations"] += r.get("search_evals", 0)
        for part, tb in r.get("crashed", {}).items():
            ctx.problem("harness", "harness part %s crashed" % part, tb)
        ctx.search_info["notes"].append({"worst": r.get("worst", {}), "timing_s": r.get("timing", {}),
                                         "grids": [g["name"] for g in r.get("grids", [])]})
        seen = {}
        for f in r.get("failures", []):
            if f["signature"] in seen:
                seen[f["signature"]] += 1
                continue
            seen[f["signature"]] = 1
            ctx.failure(f["signature"], f["what"], f["data"])
        if seen:
            ctx.search_info["notes"].append({"failing_cases_per_signature": seen})


def search(ctx, strength):
    impl = getattr(ctx, "impl", None)
    if getattr(ctx, "bc_future", None) is not None:
        ctx.bc_future.result()
    first = [f.result() for f in impl[0]] if impl is not None else []
    if impl is None or (strength == "thorough" and impl[1] != "thorough"):
        # proofs/tie/correspondence broke in the quick tier: search again at thorough strength (keep what was found)
        _collect(ctx, first)
        _, futs = _start_harness(ctx, strength)
        first = [f.result() for f in futs]
    _collect(ctx, first)


def replay(ctx):
    regen(ctx)
    search(ctx, "thorough")


META = {
    "technique": "Coq proof: complete finite sweeps over the barycentric coefficient tables and the sub-triangle connectivity "
                 "regenerated from the source (vm_compute, lifted with forallb_forall), general theorems for every geometry / "
                 "coefficient vector / point on top of them, hand model of the dual-space loops tied by exact correspondence",
    "level_text": "Theorems in coq/props/C10.v over tables regenerated on every run from grid.py, scalar_spaces.py, "
                  "maxwell_spaces.py, scalar_dual_spaces.py, shapesets.py: the six children of an element have the stated "
                  "vertices, orientation and 1/6 of the area for every geometry; DP0 map for every support size; RWG/SNC tables "
                  "with the length ratios of generate_rwg0_map reproduce every coarse function on every child for every "
                  "non-degenerate triangle in R^3 and every point; P1: complete sweep of the table (entries = shape function at the child "
                  "vertices) and pointwise agreement for every coefficient vector and point; dual index lists address the documented nodes; DUAL0 entries exact, DUAL1 entries "
                  "sound and non-overlapping for every grid and valence; connectivity memo loop (vertex sharing) for all grids; BC "
                  "coefficient stage: opposite fluxes on the two sides of every spoke / reference edge for every valence, RBC = n x BC; "
                  "mixed mass matrix = quadrature of the product of the represented functions (sparse-assembler model of C04/C13) and "
                  "per-element exactness of the rule.",
    "level_note": "Trusted: Coq kernel + vm_compute; translators/bary_tables.py (AST shape match, fails closed); correspondence "
                  "harness; IEEE arithmetic. Over R the three standard real-number axioms. Not proved: ordering of the BC "
                  "vertex fans (inputs of the model, hypotheses checked per run), DUAL1 completeness, the merge of the three "
                  "mixed-mass statements into one formula.",
    "design_ref": "DESIGN.md §7 C10",
}
