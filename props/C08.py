"""C08 Potentials and far fields satisfy their PDEs, normalisation and asymptotics."""
from concurrent.futures import ThreadPoolExecutor

from translators import dispatch, py_kernels

ID = "C08"
PROP_FILE = "props/C08.v"
COQ_TARGETS = ["props/C08.vo"]
TRUSTED = [
    "translators/py_kernels.py (ast symbolic execution of the Numba kernels; self-tested each run) and "
    "translators/dispatch.py (kernel type of every potential / far-field factory)",
    "Coquelicot's derivative library (is_derive, auto_derive)",
    "correspondence harness harness/c08_impl.py: API potential and far-field values vs the sum of the translated kernel "
    "over the library's own quadrature points (1e-11 relative)",
]
ASSUMPTIONS = [
    "the step from the radial equation to the PDE, Laplacian f(|x-y|) = (r f)''/r in R^3 minus the source, and "
    "differentiation under the (finite) quadrature sum are classical and not re-proved; the PDE is additionally exercised "
    "by finite differences of the API potentials",
    "'potential = kernel sum' is proved by C02 for the assembler loop; here it is only corresponded numerically",
    "far field = lim r exp(-ikr) potential is not proved (only exercised by the search at two radii); Maxwell potentials "
    "and far fields are not covered by theorems of this check",
]


def regen(ctx):
    ctx.nb = ctx.translate(py_kernels.numba_kernels)
    ctx.table = ctx.translate(dispatch.factories)
    ctx.maxwell = ctx.translate(py_kernels.maxwell_integrands)


def _run(ctx, strength):
    """Two processes (each compiles its own assemblers): scalar potentials / Helmholtz far fields, and the four Maxwell
    potential / far-field assemblers.  Both run on spaces restricted to a non-prefix segment of a non-uniform mesh."""
    payload = {"job": "scalar", "strength": strength, "numba": ctx.nb, "table": ctx.table}
    mpayload = {"job": "maxwell", "strength": strength, "numba": ctx.nb, "maxwell": getattr(ctx, "maxwell", None)}
    with ThreadPoolExecutor(max_workers=2) as ex:
        a = ex.submit(ctx.run_impl, "c08_impl.py", payload, 3600, 4)
        b = ex.submit(ctx.run_impl, "c08_impl.py", mpayload, 3600, 4)
        res, mx = a.result(), b.result()
    if res is None or mx is None:
        return None
    for key in ("evaluations", "nontrivial"):
        res["corr"][key] += mx["corr"][key]
    res["corr"]["disagreements"] += mx["corr"]["disagreements"]
    res["corr"]["samples"] = res["corr"]["samples"][:4] + mx["corr"]["samples"][:3]
    for k, v in mx["corr"]["hist"].items():
        res["corr"]["hist"][k] = res["corr"]["hist"].get(k, 0) + v
    res["search"]["evaluations"] += mx["search"]["evaluations"]
    res["search"]["worst"].update(mx["search"]["worst"])
    res["failures"] += mx["failures"]
    res["notes"] += mx["notes"]
    if "crash" in mx:
        res["crash"] = res.get("crash", "") + mx["crash"]
    return res


def correspond(ctx):
    strength = "thorough" if ctx.tier == "thorough" else "quick"
    ctx.c08_strength = strength
    res = ctx.c08 = _run(ctx, strength)
    ctx.corr["rule"] = ("(a) translator self-test of the 11 potential/far-field kernels (lanes vs the function's source); "
                        "(b) every potential / far-field assembler of numba_kernels.py -- scalar potentials, Helmholtz far "
                        "fields, Maxwell E/H potentials, Maxwell E/H far fields -- evaluated through the API on a space "
                        "restricted to a non-prefix, non-contiguous segment of a mesh with non-uniform triangle areas (P1 "
                        "resp. RWG with dropped boundary dofs: multipliers 0/1 resp. +-1), complex coefficients, real and "
                        "complex k, vs the sum over the library's quadrature points of the translated kernel / translated "
                        "Maxwell integrand with densities recomputed from local2global and local_multipliers; non-trivial "
                        "= API value non-zero")
    if res is None:
        return
    if "crash" in res:
        ctx.problem("harness", "c08_impl.py crashed", res["crash"])
    c = res["corr"]
    ctx.corr["evaluations"] = c["evaluations"]
    ctx.corr["distinct_nontrivial"] = c["nontrivial"]
    ctx.corr["histogram"] = c["hist"]
    ctx.corr["samples"] = c["samples"]
    for d in c["disagreements"]:
        ctx.corr["disagreements"] += 1
        ctx.problem("correspondence", d["what"], d["data"])
    for n in res["notes"]:
        ctx.note(n)


def search(ctx, strength):
    res = getattr(ctx, "c08", None)
    if res is None or strength != getattr(ctx, "c08_strength", None):
        res = _run(ctx, strength)
        if res is not None and "crash" in res:
            ctx.problem("harness", "c08_impl.py crashed", res["crash"])
    if res is None:
        return
    ctx.search_info["evaluations"] = res["search"]["evaluations"]
    ctx.search_info["notes"].append({"worst": res["search"]["worst"]})
    for f in res["failures"]:
        ctx.failure(f["signature"], f["what"], f["data"])


def replay(ctx):
    """Re-run the seeded implementation job that produced the recorded case (thorough set for Maxwell / P1 / segment cases)."""
    regen(ctx)
    txt = str(ctx.replay)
    thorough = (ctx.replay or {}).get("tier") == "thorough" or "maxwell" in txt or " P1 " in txt or "segment" in txt or \
        "screen" in txt
    ctx.tier = "thorough" if thorough else "quick"
    correspond(ctx)
    search(ctx, "thorough" if thorough else "quick")


META = {
    "technique": "Coq proof (Coquelicot derivatives, field) over the Numba potential and far-field kernels regenerated from "
                 "the source on every run; numerical correspondence of API potentials with the translated kernels",
    "level_text": "Theorems in coq/props/C08.v: the Laplace, modified Helmholtz and Helmholtz (complex k) single-layer "
                  "potential kernels are u(r)/r with u solving u''=0, u''=w^2 u, u''=-k^2 u (real 2-system) for all r; the "
                  "double-layer kernels are the derivative of the single-layer kernels along the trial normal (all x<>y); "
                  "for real k translating the source multiplies both far-field kernels by exp(-ik xhat.t); for complex k "
                  "the law is refuted by an explicit witness when the far-field kernels do not read imag k (lead 9.7). "
                  "PDE residuals, kernel-sum values, far-field limit and translation law are exercised on the API.",
    "level_note": "Trusted: Coq kernel, standard real-number axioms (+ classical logic via Coquelicot), py_kernels "
                  "translator, harness. Not proved: 3-D Laplacian of a radial function, far-field limit, Maxwell "
                  "identities (search only for the scalar operators in the quick tier).",
    "design_ref": "DESIGN.md §7 C08",
}
