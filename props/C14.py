"""C14 Operator, grid-function and potential algebra is coherent."""
import re

from translators import opclasses

ID = "C14"
PROP_FILE = "props/C14.v"
COQ_TARGETS = ["props/C14.vo", "theories/Algebra/Corr.vo"]
TRUSTED = ["translators/opclasses.py (AST translation of the algebra classes into OpLang terms, name resolution against "
           "the class hierarchy; fails closed)",
           "Space.__eq__ / is_compatible is an equivalence relation (space ids of the model are its classes)",
           "the inverse mass matrix operator (SciPy sparse LU) is an abstract matrix `invmass` in the model",
           "NumPy/SciPy primitives behind + * @ on arrays and LinearOperator dispatch (python's binary-operator protocol "
           "is modelled by the dispatch tables)",
           "correspondence harness harness/c14_impl.py + theories/Algebra/Corr.v (exact complex-rational evaluation of the "
           "regenerated tables inside Coq, compared at 1e-9 relative)"]
ASSUMPTIONS = ["dtype promotion (single/double, real/complex result types) is only exercised by the search",
               "adjoints (conjugation), GeneralizedBlockedOperator and transposes of composite discrete operators are only exercised "
               "by the search",
               "value semantics (evaluating an expression leaves every operand's cached weak form / matrix / coefficients "
               "unchanged) is not a theorem of the expression model, which has no store: it is searched (operands re-read after "
               "every program, dense single/double/complex and sparse pools) and tied syntactically in C18 (inplace_updates = [])",
               "operands of the correspondence run are stub-assembled operators with exactly known matrices; real kernels "
               "enter in the thorough search only"]

SCAL = {"2": (2, 0), "-1.5": (-1.5, 0), "0.5": (0.5, 0), "1+2j": (1, 2), "np.float64(3)": (3, 0),
        "np.complex128(0.5-1j)": (0.5, -1), "np.float32(0.25)": (0.25, 0), "np.int64(-2)": (-2, 0), "True": (1, 0)}
SCAL_ORDER = ["2", "-1.5", "0.5", "1+2j", "np.float64(3)", "np.complex128(0.5-1j)", "np.float32(0.25)", "np.int64(-2)",
              "True"]


def regen(ctx):
    ctx.info = ctx.translate(opclasses.op_classes)
    if ctx.info:
        ctx.note("name resolution: %d attribute uses checked, unresolved: %s" % (
            len(ctx.info["resolution"]), [r[:4] for r in ctx.info["resolution"] if not r[4]]))


def _q(p):
    n, d = p
    return "(%s # %d)" % (n if n >= 0 else "(%d)" % n, d)


def _qc(p):
    return "(%s, %s)" % (_q(p[0]), _q(p[1]))


def _mat(m):
    return "[" + "; ".join("[" + "; ".join(_qc(x) for x in row) + "]" for row in m) + "]"


def _scal(k):
    from fractions import Fraction
    re_, im = SCAL[SCAL_ORDER[k]]
    fr = lambda x: (Fraction(x).numerator, Fraction(x).denominator)
    return _qc((fr(re_), fr(im)))


def _uexp(e, pre="U"):
    k = e[0]
    if k == "atom":
        return "(%sAtom %d)" % (pre, e[1])
    if k in ("add", "sub", "mul", "matmul"):
        return "(%s%s %s %s)" % (pre, {"add": "Add", "sub": "Sub", "mul": "Mul", "matmul": "Matmul"}[k],
                                 _uexp(e[1], pre), _uexp(e[2], pre))
    if k == "neg":
        return "(%sNeg %s)" % (pre, _uexp(e[1], pre))
    if k == "scall":
        return "(%sScalL %s %s)" % (pre, _scal(e[1]), _uexp(e[2], pre))
    return "(%sScalR %s %s)" % (pre, _uexp(e[1], pre), _scal(e[2]))


def _gexp(e):
    k = e[0]
    if k == "atom":
        return "(GAtom (gfun_of_atom a%d))" % e[1]
    if k in ("add", "sub"):
        return "(%s %s %s)" % ("GAdd" if k == "add" else "GSub", _gexp(e[1]), _gexp(e[2]))
    if k == "neg":
        return "(GNeg %s)" % _gexp(e[1])
    if k == "scall":
        return "(GScalL %s %s)" % (_scal(e[1]), _gexp(e[2]))
    if k == "scalr":
        return "(GScalR %s %s)" % (_gexp(e[2]), _scal(e[1]))
    return "(GDiv %s %s)" % (_gexp(e[2]), _scal(e[1]))


def _expected(c, key):
    if c["result"] == "ok":
        return "(EMat %s)" % _mat(c[key])
    if c["result"] in ("ValueError", "AttributeError", "TypeError"):
        return "(EExn %s)" % c["result"]
    return "EOther"


def _run(ctx, strength):
    res = ctx.run_impl("c14_impl.py", {"strength": strength}, timeout=3000, threads=4,
                       extra_env={"OMP_WAIT_POLICY": "passive"})
    if res is not None and res.get("crash"):
        ctx.problem("harness", "c14_impl.py crashed", res["crash"])
    return res


def correspond(ctx):
    res = _run(ctx, "thorough" if ctx.tier == "thorough" else "quick")
    if res is None or "env" not in res:
        return
    ctx.impl = res
    env = res["env"]
    envtxt = "Definition E : cenv := {|\n ce_atoms := [%s];\n ce_dims := [%s];\n ce_invmass := [%s];\n ce_mass := [%s];\n" \
             " ce_patoms := [%s] |}." % (
                 ";\n  ".join("((%d, %d, %d)%%nat, %s)" % (a["spaces"][0], a["spaces"][1], a["spaces"][2], _mat(a["mat"]))
                              for a in env["atoms"]),
                 "; ".join("(%s, %d)%%nat" % (k, v) for k, v in env["dims"].items()),
                 ";\n  ".join("(%d%%nat, %d%%nat, %s)" % (m["range"], m["dual"], _mat(m["mat"])) for m in env["invmass"]),
                 ";\n  ".join("(%d%%nat, %d%%nat, %s)" % (m["range"], m["dual"], _mat(m["mat"])) for m in env["mass"]),
                 ";\n  ".join("((%d, %d, %d)%%nat, %s)" % (a["type"][0], a["type"][1], a["type"][2], _mat(a["mat"]))
                              for a in env["patoms"]))
    hdr = ["From Coq Require Import QArith List String.",
           "From BV Require Import Algebra.Mat Algebra.OpLang Algebra.PotLang Algebra.Corr.",
           "Import ListNotations.", "Open Scope Q_scope.", envtxt]
    cases, pcases = res["cases"], res["pcases"]
    nchunk = 4
    bodies = []
    for k in range(nchunk):
        ch = cases[k::nchunk]
        bodies.append(("c14b%d" % k, "\n".join(hdr + [
            "Definition cases : list (uexp QC * expected) := [\n%s]." % ";\n".join(
                "(%s, %s)" % (_uexp(c["expr"]), _expected(c, "mat")) for c in ch),
            "Eval vm_compute in (failing (bcase_ok E) cases).", ""])))
    bodies.append(("c14p", "\n".join(hdr + [
        "Definition pcases : list (upot QC * list (list QC) * expected) := [\n%s]." % ";\n".join(
            "(%s, %s, %s)" % (_uexp(c["expr"], "UP"), _mat([[x] for x in c["coef"]]),
                              "(EMat %s)" % _mat([[x] for x in c["vec"]]) if c["result"] == "ok" else _expected(c, "vec"))
            for c in pcases),
        "Eval vm_compute in (failing (pcase_ok E) pcases).", ""])))
    gcases = res.get("gf_cases", [])
    adefs = ["Definition a%d : gatom := {| ga_space := %d; ga_dual := %d; ga_primal := %s; ga_vec := [%s] |}." % (
        i, a["space"], a["dual"], "true" if a["rep"] == "coef" else "false", "; ".join(_qc(x) for x in a["vec"]))
        for i, a in enumerate(res.get("gf_atoms", []))]

    def gexpd(c):
        if c["result"] == "ok":
            return "(GCoefs %d [%s])" % (c["space"], "; ".join(_qc(x) for x in c["coef"]))
        if c["result"] in ("ValueError", "AttributeError", "TypeError"):
            return "(GExn %s)" % c["result"]
        return "GOther"
    bodies.append(("c14g", "\n".join(hdr + ["From BV Require Import Algebra.GfLang."] + adefs + [
        "Definition gcases : list (ugf QC * gexpected) := [\n%s]." % ";\n".join(
            "(%s, %s)" % (_gexp(c["expr"]), gexpd(c)) for c in gcases),
        "Eval vm_compute in (failing (gfcase_ok E) gcases).", ""])))
    bbcases = res.get("bb_cases", [])
    if res.get("bb_env"):
        be = res["bb_env"]
        bbenv = "Definition E : cenv := {|\n ce_atoms := [%s];\n ce_dims := [%s];\n ce_invmass := [%s];\n ce_mass := [];\n" \
                " ce_patoms := [] |}." % (
                    ";\n  ".join("((%d, %d, %d)%%nat, %s)" % (a["spaces"][0], a["spaces"][1], a["spaces"][2], _mat(a["mat"]))
                                 for a in be["atoms"]),
                    "; ".join("(%s, %d)%%nat" % (k, v) for k, v in be["dims"].items()),
                    ";\n  ".join("(%d%%nat, %d%%nat, %s)" % (m["range"], m["dual"], _mat(m["mat"])) for m in be["invmass"]))
        bodies.append(("c14bb", "\n".join(hdr[:4] + [bbenv,
            "Definition bbcases : list (nat * uexp QC * list QC * expected) := [\n%s]." % ";\n".join(
                "(%d%%nat, %s, [%s], %s)" % (c["what"], _uexp(c["expr"]), "; ".join(_qc(x) for x in c.get("coef", [])),
                                           _expected(c, "mat")) for c in bbcases),
            "Eval vm_compute in (failing (bbcase_ok E) bbcases).", ""])))
    from concurrent.futures import ThreadPoolExecutor
    with ThreadPoolExecutor(max_workers=len(bodies)) as ex:
        outs = list(ex.map(lambda nb: ctx.coq_eval(nb[0], nb[1], timeout=1200), bodies))
    ctx.corr["evaluations"] = len(cases) + len(pcases) + len(gcases) + len(bbcases)
    ctx.corr["distinct_nontrivial"] = len({c["show"] for c in cases if c["result"] == "ok" and c["expr"][0] != "atom"}) + \
        len({c["show"] for c in pcases if c["expr"][0] != "atom"}) + \
        len({c["show"] for c in gcases if c["expr"][0] != "atom" and c["result"] == "ok"})
    ctx.corr["rule"] = ("random user expressions (depth <= 3) over stub-assembled operators with exactly known matrices on real "
                        "spaces: library result (dense weak form or exception class) vs the Coq interpretation of the "
                        "regenerated class tables on complex rationals, 1e-9 relative; potential expressions applied to a "
                        "coefficient vector likewise. non-trivial = a composite expression (boundary: that evaluates)")
    hist = {}
    for c in cases:
        k = "boundary %s -> %s" % ("well-typed" if c["typed"] else "ill-typed", c["result"])
        hist[k] = hist.get(k, 0) + 1
    for c in pcases:
        k = "potential %s -> %s" % ("well-typed" if c["typed"] else "ill-typed", c["result"])
        hist[k] = hist.get(k, 0) + 1
    for c in gcases:
        k = "grid function -> %s" % c["result"]
        hist[k] = hist.get(k, 0) + 1
    for c in bbcases:
        k = "blocked %s %s -> %s" % (["weak", "strong", "apply"][c["what"]], "well-typed" if c["typed"] else "ill-typed",
                                     c["result"])
        hist[k] = hist.get(k, 0) + 1
    ctx.corr["histogram"] = hist
    ctx.corr["samples"] = [{"expr": c["show"], "result": c["result"]} for c in (cases[:3] + pcases[:3])]
    if any(o is None for o in outs):
        return
    for k, o in enumerate(outs):
        blocks = re.findall(r'=\s*(\[[^\]]*\])\s*:\s*list nat', o.replace("\n", " "))
        if len(blocks) != 1:
            ctx.problem("correspondence", "could not parse model evaluation output", o[-2000:])
            return
        for i in [int(x) for x in re.findall(r'\d+', blocks[0])]:
            c = cases[k + nchunk * i] if k < nchunk else (pcases[i] if k == nchunk else (
                gcases[i] if k == nchunk + 1 else bbcases[i]))
            kindname = "boundary expression" if k < nchunk else ("potential expression" if k == nchunk else (
                "grid-function expression" if k == nchunk + 1 else
                "blocked expression (%s)" % {0: "weak form", 1: "strong form", 2: "applied to a function list"}[c["what"]]))
            ctx.corr["disagreements"] += 1
            ctx.problem("correspondence", "model (translated classes) and library disagree on %s %s -> library: %s" % (
                kindname, c["show"], c["result"]))


def search(ctx, strength):
    res = getattr(ctx, "impl", None)
    if res is None or (strength == "thorough" and ctx.tier != "thorough"):
        res = _run(ctx, strength)
    if res is None:
        return
    ctx.search_info["evaluations"] = res["evaluations"]
    ctx.search_info["notes"].append({"failing_cases_per_signature": res.get("failure_counts", {})})
    for f in res["failures"]:
        ctx.failure(f["signature"], f["what"], f["data"])


def replay(ctx):
    regen(ctx)
    search(ctx, "thorough")


META = {
    "technique": "Coq proof over a deep embedding (OpLang) whose class descriptions - constructor guards, result spaces, "
                 "_assemble/evaluate/strong_form bodies, dunder dispatch, property paths - are regenerated from the algebra "
                 "classes of the source on every run; name resolution of every attribute use; correspondence by running the "
                 "interpretation of the regenerated tables inside Coq against the library",
    "level_text": "Theorems in coq/props/C14.v, for every commutative ring, every set of assembled operands and every "
                  "expression tree built with + - unary- scalar* * @: well-typed trees denote the matrix expression (product "
                  "= W1 M^-1 W2) in the predicted spaces; the translated guards raise ValueError exactly on incompatible "
                  "spaces; strong form = M^-1 W; operator*function = projections W c in (range, dual), rejected for foreign "
                  "spaces; for every conformable tree of Scaled/Sum/Product discrete operators to_dense is the matrix "
                  "expression and _matvec = to_dense()x, shape guards accept exactly conformable operands, real operator x "
                  "complex vector splits into real and imaginary parts; blocked pack/unpack are inverse and projection "
                  "unpacking is right iff sliced by dual dof counts (refuted with witness for the pinned recipe); the dense block "
                  "matrix of a BlockedDiscreteOperator (None = zero block) times x equals the blockwise matvec; Dense/Sparse/"
                  "Diagonal/RankOne transposes have the transposed matrix; blocked operators (Sum/Scaled/Product/strong form/"
                  "B*[f]) over the regenerated blocked tables: same denotation and typing theorems with space lists, strong form = "
                  "blockdiag(M(range_i,dual_i)^-1) weak; every "
                  "attribute/method name used on self or operands in the five algebra files resolves "
                  "(the regenerated list of unresolved names is empty); potential algebra (sums, differences, scalar multiples "
                  "keep space/components/points and evaluate to the matrix expression, ValueError iff incompatible); "
                  "GridFunction arithmetic (+ - neg scalar* /) over coefficient/projection representations with arbitrary "
                  "dual spaces: ValueError iff spaces differ, coefficients = vector expression.",
    "level_note": "Trusted: Coq kernel; translators/opclasses.py; python's operator protocol as modelled by the dispatch "
                  "tables; SciPy LU behind the abstract inverse mass matrix; the harness. Not proved: dtype promotion, "
                  "discrete-operator transposes, rounding.",
    "design_ref": "DESIGN.md §7 C14",
}
