"""C12 Quadrature rules have their stated degree of exactness."""
from translators import tables

ID = "C12"
PROP_FILE = "props/C12.v"
COQ_TARGETS = ["props/C12.vo"]


def regen(ctx):
    ctx.tables = {"tri": ctx.translate(tables.tri_tables), "gauss": ctx.translate(tables.gauss_tables),
                  "duffy": ctx.translate(tables.duffy_regions)}
