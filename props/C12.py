"""C12 Quadrature rules have their stated degree of exactness."""
from translators import tables

ID = "C12"
PROP_FILE = "props/C12.v"
COQ_TARGETS = ["props/C12.vo"]


def regen(ctx):
    ctx.tables = {"tri": ctx.translate(tables.tri_tables), "gauss": ctx.translate(tables.gauss_tables),
                  "duffy": ctx.translate(tables.duffy_regions)}

COQ_TARGETS = ["props/C12.vo", "theories/Quad/Corr.vo"]
TRUSTED = ["correspondence harness harness/c12_impl.py + theories/Quad/Corr.v (exact rational diff inside Coq)",
           "NumPy float64 arithmetic = IEEE binary64 (model computes in exact rationals; 1 ulp allowed on 0.5*(1+c))"]
ASSUMPTIONS = ["Sauter-Schwab identity / Duffy exactness proved for total degree <= 8 only (computation bound), to 1e-8",
               "Convergence on 1/|x-y| is exercised by the search on the implementation, not proved"]


def _q(p):
    n, d = p
    return "(%s # %d)" % (n if n >= 0 else "(%d)" % n, d)


def _lst(xs):
    return "[" + "; ".join(xs) + "]"


def correspond(ctx):
    strength = "thorough" if ctx.tier == "thorough" else "quick"
    res = ctx.run_impl("c12_impl.py", {"strength": strength}, timeout=1200)
    if res is None:
        return
    ctx.impl = res
    bad_exc = []
    tri, gau = [], []
    for k, v in sorted(res["tri"].items(), key=lambda kv: int(kv[0])):
        if isinstance(v, str):
            if v != "ValueError":
                bad_exc.append("triangle_gauss.rule(%s) raised %s" % (k, v))
            tri.append("((%s)%%Z, None)" % k)
        else:
            tri.append("((%s)%%Z, Some %s)" % (k,
                                          _lst("(%s, %s, %s)" % (_q(p[0]), _q(p[1]), _q(p[2])) for p in v)))
    for k, v in sorted(res["gauss"].items(), key=lambda kv: int(kv[0])):
        if isinstance(v, str):
            if v != "ValueError":
                bad_exc.append("gauss.rule(%s) raised %s" % (k, v))
            gau.append("((%s)%%Z, None)" % k)
        else:
            gau.append("((%s)%%Z, Some %s)" % (k,
                                          _lst("(%s, %s)" % (_q(p[0]), _q(p[1])) for p in v)))
    adjn = {"coincident": 0, "edge_adjacent": 1, "vertex_adjacent": 2}
    duf, dkeys = [], []
    for k, v in res["duffy"].items():
        o, a = k.split(",")
        dkeys.append(k)
        duf.append("((%s)%%Z, %d%%nat, %s)" % (o, adjn[a], _lst("(%s, %s, %s, %s, %s)" % tuple(_q(c) for c in p) for p in v)))
    pts = _lst("(%s, %s)" % (_q(p[0]), _q(p[1])) for p in res["remap_points"])
    re_, rekeys = [], []
    for k, v in res["remap_edge"].items():
        v0, v1 = k.split(",")
        rekeys.append(k)
        re_.append("(%s%%nat, %s%%nat, %s)" % (v0, v1, _lst("(%s, %s)" % (_q(p[0]), _q(p[1])) for p in v)))
    rv = ["(%s%%nat, %s)" % (k, _lst("(%s, %s)" % (_q(p[0]), _q(p[1])) for p in v)) for k, v in res["remap_vertex"].items()]
    body = "\n".join([
        "From Coq Require Import QArith ZArith List.", "From BV Require Import Quad.Rules Quad.Corr.",
        "Import ListNotations.", "Open Scope Q_scope.",
        "Definition impl_tri : list (Z * option (list (Q * Q * Q))) := %s." % _lst(tri),
        "Definition impl_gauss : list (Z * option (list (Q * Q))) := %s." % _lst(gau),
        "Definition impl_duffy : list (Z * nat * list (Q * Q * Q * Q * Q)) := %s." % _lst(duf),
        "Definition pts : list (Q * Q) := %s." % pts,
        "Definition impl_re : list (nat * nat * list (Q * Q)) := %s." % _lst(re_),
        "Definition impl_rv : list (nat * list (Q * Q)) := %s." % _lst(rv),
        "Eval vm_compute in (failing tri_case_ok impl_tri).",
        "Eval vm_compute in (failing gauss_case_ok impl_gauss).",
        "Eval vm_compute in (failing duffy_case_ok impl_duffy).",
        "Eval vm_compute in (failing (remap_edge_case_ok pts) impl_re).",
        "Eval vm_compute in (failing (remap_vertex_case_ok pts) impl_rv).", ""])
    out = ctx.coq_eval("c12cases", body, timeout=900)
    n_cases = len(tri) + len(gau) + len(duf) + len(re_) + len(rv)
    ctx.corr["evaluations"] = n_cases
    ctx.corr["distinct_nontrivial"] = sum(1 for v in res["tri"].values() if not isinstance(v, str)) + \
        sum(1 for v in res["gauss"].values() if not isinstance(v, str)) + len(duf) + len(re_) + len(rv)
    ctx.corr["rule"] = ("every rule lookup for orders -2..23 (triangle) and -2..33 (Gauss), the full point lists of the "
                        "Duffy rules of order 1..3 for the three adjacency types, the 6 edge and 3 vertex remaps on 5 "
                        "points; non-trivial = the lookup is accepted (returns points) or is a Duffy/remap case")
    ctx.corr["histogram"] = {"triangle_lookups": len(tri), "gauss_lookups": len(gau), "duffy_point_lists": len(duf),
                             "duffy_points_compared": sum(len(v) for v in res["duffy"].values()),
                             "edge_remaps": len(re_), "vertex_remaps": len(rv)}
    ctx.corr["samples"] = [{"triangle_gauss.rule(1)": res["tri"]["1"]}, {"gauss.rule(2)": res["gauss"]["2"]},
                           {"duffy.rule(1,'vertex_adjacent')": res["duffy"]["1,vertex_adjacent"]}]
    for b in bad_exc:
        ctx.problem("correspondence", b)
        ctx.corr["disagreements"] += 1
    if out is None:
        return
    import re
    blocks = re.findall(r'=\s*(\[[^\]]*\])\s*:\s*list nat', out.replace("\n", " "))
    names = ["triangle lookup", "gauss lookup", "duffy points", "edge remap", "vertex remap"]
    keysets = [sorted(res["tri"], key=int), sorted(res["gauss"], key=int), dkeys, rekeys, list(res["remap_vertex"])]
    if len(blocks) != 5:
        ctx.problem("correspondence", "could not parse model evaluation output", out[-2000:])
        return
    for nm, blk, keys in zip(names, blocks, keysets):
        idx = [int(x) for x in re.findall(r'\d+', blk)]
        for i in idx:
            ctx.corr["disagreements"] += 1
            ctx.problem("correspondence", "model and implementation disagree on %s case %s" % (nm, keys[i]))


def search(ctx, strength):
    res = getattr(ctx, "impl", None)
    if res is None or (strength == "thorough" and ctx.tier != "thorough"):
        res = ctx.run_impl("c12_impl.py", {"strength": strength}, timeout=2400)
    if res is None:
        return
    ctx.search_info["evaluations"] = res["search_evals"]
    ctx.search_info["notes"].append({"worst_errors": res["worst"]})
    for f in res["failures"]:
        ctx.failure(f["signature"], f["what"], f["data"])


def replay(ctx):
    regen(ctx)
    search(ctx, "thorough")

META = {
    "technique": "Coq proof: finite complete sweeps over tables regenerated from the source (BigZ vm_compute, lifted with "
                 "forallb_forall) + general theorems on the translated Duffy regions; correspondence by exact rational diff",
    "level_text": "Theorems in coq/props/C12.v over tables, lookup guards and Duffy region formulas regenerated from "
                  "bempp_cl/api/integration/*.py on every run: exactness of all 20 triangle and 30 Gauss rules to 1e-14 on the "
                  "exact values of the shipped doubles (complete finite sweep), rejection outside the ranges (all integers), "
                  "advertised point counts (all orders), the product-moment theorem for every 1-D rule and the Sauter-Schwab "
                  "identity for all monomials of degree <= 8, remap placement for all 6+3 cases and all points. "
                  "Convergence on 1/|x-y| is only exercised on the implementation by the search.",
    "level_note": "Trusted: Coq kernel + vm_compute + primitive int63 (Bignums); translators/tables.py (AST shape match, "
                  "fails closed); the correspondence harness; IEEE arithmetic of NumPy. Not proved: Duffy exactness "
                  "above total degree 8; 1/r convergence.",
    "design_ref": "DESIGN.md §7 C12",
}

PROP_FILES_THOROUGH = ["props/C12deep.v"]
