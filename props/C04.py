"""C04 Operators on a subspace are congruence transforms of those on the full element-wise space."""
import json

from props import asm_emit as E

ID = "C04"
PROP_FILE = "props/C04.v"
COQ_TARGETS = ["props/C04.vo", "theories/AssemblyA/CorrDense.vo"]
TRUSTED = [
    "hand model coq/theories/AssemblyA/{Dense,Sparse}.v of assemble_dense / dense_assembler / default_scalar_regular_kernel / "
    "default_scalar_singular_kernel / assemble_singular_part / SparseAssembler / map_to_full_grid, tied by the correspondence "
    "harness harness/c04_impl.py + theories/AssemblyA/CorrDense.v (exact dyadic evaluation and diff inside Coq)",
    "surrogate-kernel device: the library's own assembly code runs with the kernel *function argument* replaced by a "
    "polynomial and the Numba loops executed via .py_func (same source text, no JIT)",
    "Coq primitive 63-bit integers through Bignums BigZ (model evaluation only, not the theorems)",
    "NumPy float64 arithmetic = IEEE binary64; comparison tolerance 1e-11 * max|A| per matrix",
]
ASSUMPTIONS = [
    "wf_colors / wf_adj hypotheses of the theorems are checked as booleans on the implementation's own arrays in every "
    "correspondence case (the colour-partition fact itself is C16's theorem)",
    "the hypersingular and Maxwell regular/singular assemblers are tied at the first level (their own matrix on the full "
    "element-wise spaces supplies the local values Lreg, Lsing; the model must reproduce their matrix on restricted spaces with "
    "non-prefix supports and non-unit multipliers); only the default scalar assemblers are also tied at the second level "
    "(quadrature sums with a surrogate kernel)",
    "P' A_fine P = A_coarse up to quadrature error for nested grids is analytic and only exercised by the search",
]


def regen(ctx):
    for f in ("bempp_cl/core/dense_assembler.py", "bempp_cl/core/numba_assemblers.py", "bempp_cl/core/numba_kernels.py",
              "bempp_cl/core/singular_assembler.py", "bempp_cl/core/sparse_assembler.py", "bempp_cl/api/space/space.py",
              "bempp_cl/api/space/scalar_spaces.py", "bempp_cl/api/space/maxwell_spaces.py",
              "bempp_cl/api/grid/grid.py"):
        ctx.src(f)


def case_term(c):
    return "(mkCase %s %s %s %d %s %s %d %d %s %s %s %s)" % (
        E.griddata(c["grid"]), E.spdata(c["test"]), E.spdata(c["trial"]), c["spec"]["kernel"], E.rule(c["rule"]),
        E.singtab(c["sing"]), c["rows"], c["cols"], E.matrix(c["matrix"]), E.dyc(c["scale"]),
        E.triplets(c["Tt"]), E.triplets(c["Tr"]))


def lcase_term(c):
    g = dict(c["grid"])
    return "(mkLCase %s %s %s %s %d %d %s %s)" % (
        E.griddata(g), E.spdata(c["test"]), E.spdata(c["trial"]), E.matrix(c["AD"]), c["rows"], c["cols"],
        E.matrix(c["matrix"]), E.dyc(c["tol"]))


def lcases_body(cases):
    return (E.HEADER % "AssemblyA.CorrDense") + \
        "Definition lcases : list lcase := %s.\n" % E.lst(lcase_term(c) for c in cases) + \
        "Eval vm_compute in (failing lcase_ok lcases).\n"


def cases_body(cases):
    return (E.HEADER % "AssemblyA.CorrDense") + \
        "Definition cases : list dcase := %s.\n" % E.lst(case_term(c) for c in cases) + \
        "Eval vm_compute in (failing case_ok cases).\n"


def describe(c):
    return {"grid": c["spec"]["grid"], "distorted": c["spec"]["distorted"], "test": [c["spec"]["test"], c["topt"]],
            "trial": [c["spec"]["trial"], c["ropt"]], "kernel": c["spec"]["kernel"],
            "orders": [c["spec"]["oreg"], c["spec"]["osing"]], "shape": [c["rows"], c["cols"]],
            "singular_pairs": len(c["sing"]), "max_abs_entry": c["maxabs"]}


QUICK_FAMILIES = ["laplace", "sparse", "helmholtz", "maxwell", "modified_helmholtz"]


def correspond(ctx):
    import time
    t0 = time.time()
    strength = "thorough" if ctx.tier == "thorough" else "quick"
    # one process: correspondence dump + quick search (shares the Numba JIT of the grid/space helpers)
    both = ctx.run_impl("c04_impl.py", {"mode": "both", "strength": strength, "families": QUICK_FAMILIES,
                                        "budget": 60 if strength == "quick" else 1e9}, timeout=3600)
    ctx.note("implementation process wall %.0fs" % (time.time() - t0))
    if both is None:
        return
    res = both["corr"]
    ctx.search_result = (strength, both["search"])
    cases = res["cases"]
    ctx.corr_cases = cases
    for e in res["errors"]:
        ctx.problem("correspondence", "harness could not build a case", json.dumps(e)[:500])
    lcases = res.get("lcases", [])
    groups = E.chunks(cases, 13 if ctx.tier != "thorough" else 20)
    lgroups = E.chunks(lcases, 16 if ctx.tier != "thorough" else 24)
    allouts = E.run_parallel(ctx, [cases_body(g) for g in groups] + [lcases_body(g) for g in lgroups], "c04cases",
                             timeout=1200, workers=6)
    outs, louts = allouts[:len(groups)], allouts[len(groups):]
    ctx.note("correspondence harness + model evaluation wall %.0fs" % (time.time() - t0))
    hist = {}
    seen = set()
    for c in cases:
        k = "%s x %s" % (c["spec"]["test"], c["spec"]["trial"])
        hist[k] = hist.get(k, 0) + 1
        key = json.dumps([c["spec"], c["topt"], c["ropt"]], sort_keys=True)
        if c["maxabs"] > 0 and key not in seen:
            seen.add(key)
    ctx.corr["evaluations"] = len(cases) + len(lcases)
    ctx.corr["distinct_nontrivial"] = len(seen) + sum(1 for c in lcases if c["maxabs"] > 0)
    ctx.corr["histogram"] = {"space_pairs": hist,
                             "grids": {g: sum(1 for c in cases if c["spec"]["grid"] == g) for g in
                                       sorted({c["spec"]["grid"] for c in cases})},
                             "restricted_support": sum(1 for c in cases if c["topt"] or c["ropt"]),
                             "matrix_entries_compared": sum(c["rows"] * c["cols"] for c in cases),
                             "singular_pairs": sum(len(c["sing"]) for c in cases),
                             "first_level_cases_per_assembler": {a: sum(1 for c in lcases if c["spec"]["assembler"] == a)
                                                                 for a in sorted({c["spec"]["assembler"] for c in lcases})},
                             "assembler_functions_run": sorted({f[1] for c in lcases for f in c["spec"]["functions"]}),
                             "first_level_entries_compared": sum(c["rows"] * c["cols"] for c in lcases)}
    ctx.corr["rule"] = ("second level: one case = the library's assemble_dense run with a polynomial surrogate kernel on one grid / test "
                        "space / trial space / quadrature orders; the model is evaluated on the library's own arrays in exact "
                        "dyadic arithmetic and every matrix entry and every non-zero of map_to_full_grid is compared inside "
                        "Coq (tolerance 1e-11*max|A|); non-trivial = the matrix has a non-zero entry; distinct = distinct "
                        "(grid, spaces, options, kernel, orders). First level: every regular+singular Numba assembler "
                        "(default scalar, three hypersingular, two Maxwell) run through .py_func with a surrogate kernel on restricted "
                        "spaces with non-prefix supports and non-unit multipliers on both sides and on the full element-wise spaces; the "
                        "model scatters the full-space entries and must reproduce the restricted matrix (real and imaginary parts)")
    ctx.corr["samples"] = [describe(c) for c in cases[:6]]
    for g, out in zip(lgroups, louts):
        if out is None:
            continue
        lists = E.parse_nat_lists(out)
        if len(lists) != 1:
            ctx.problem("correspondence", "could not parse model evaluation output", out[-1500:])
            continue
        for i in lists[0]:
            ctx.corr["disagreements"] += 1
            ctx.problem("correspondence", "assembler %s does not scatter its local values as the congruence model does"
                        % g[i]["spec"]["assembler"], json.dumps(g[i]["spec"]))
    for g, out in zip(groups, outs):
        if out is None:
            continue
        lists = E.parse_nat_lists(out)
        if len(lists) != 1:
            ctx.problem("correspondence", "could not parse model evaluation output", out[-1500:])
            continue
        for i in lists[0]:
            ctx.corr["disagreements"] += 1
            ctx.problem("correspondence", "dense model and implementation disagree", json.dumps(describe(g[i])))


def search(ctx, strength):
    have = getattr(ctx, "search_result", None)
    carried = []
    if have is not None and (have[0] == strength or have[0] == "thorough"):
        res = have[1]
    else:
        if have is not None:
            # escalation after a broken tie/proof: keep what the quick search of the same run already found
            carried = list(have[1]["failures"])
            ctx.search_info["notes"].append({"quick_search_of_this_run": {"evaluations": have[1]["evaluations"],
                                                                         "failures": len(carried)}})
        if carried:
            # the quick search already exhibits failing inputs: they are the replay, no need for the long search
            res, carried = have[1], []
            r = {"search": res}
        else:
            r = None
        if r is not None:
            pass
        elif True:
            # escalated search after a broken tie/proof in the quick tier: bounded (thorough tier: unbounded)
            r = ctx.run_impl("c04_impl.py", {"mode": "search", "strength": strength, "families": QUICK_FAMILIES,
                                             "budget": 1e9 if ctx.tier == "thorough" else 420}, timeout=3600)
            if r is None:
                return
            res = r["search"]
    ctx.search_info["evaluations"] = res["evaluations"]
    ctx.search_info["notes"].append({"operators_run": res["operators_run"], "worst_relative_error": res["worst"],
                                     "skipped_empty_selections": res["skipped"], "wall_s": res["wall"],
                                     "py_func_mode": res.get("py_func_mode")})
    for f in carried + res["failures"]:
        ctx.failure(f["signature"], f["what"], f["data"])


def replay(ctx):
    regen(ctx)
    search(ctx, "thorough")


META = {
    "technique": "Coq proof over a hand-written executable model of the dense/sparse assembly loops (kernel, quadrature rules, "
                 "geometry, DOF maps, supports, colour classes, adjacency as parameters; any commutative ring), tied to the source "
                 "by running the library's own assembly with a polynomial surrogate kernel and diffing exactly inside Coq",
    "level_text": "Theorems in coq/props/C04.v, for every commutative ring, grid topology, support, local2global map, multipliers, "
                  "colouring and local kernel values: dense(S_test,S_trial) = T_test' dense(D_test,D_trial) T_trial entrywise "
                  "(regular colour loop with adjacent-pair skipping + singular triplets filtered by both supports), sub-block "
                  "corollary for injective unit-multiplier DOF maps (DP on segments/support elements), independence of test and "
                  "trial side, the same for the sparse assembler including dof_transformation; refinement nesting facts "
                  "(children, midpoints, areas, prolongation row sums) as a partial theorem.",
    "level_note": "Trusted: Coq kernel; the hand model and its correspondence harness (26+ library runs per quick check, all "
                  "space kinds x segment/support options, entries compared at 1e-11); hypersingular/Maxwell assemblers are "
                  "covered by the theorem's arbitrary local values but tied only through the API-level search "
                  "(||A_S - T'A_D T|| <= 1e-12 ||A_D||, real kernels). Not proved: P'A_fine P = A_coarse up to quadrature error.",
    "design_ref": "DESIGN.md §7 C04",
}
