"""C15 Linear solvers return solutions of the stated system in the right spaces."""
import re

from translators import opclasses
from props import C14 as _c14

ID = "C15"
PROP_FILE = "props/C15.v"
COQ_TARGETS = ["props/C15.vo", "theories/Algebra/CorrSolvers.vo"]
TRUSTED = ["translators/opclasses.py (op_classes + solver_glue: strict AST shape match of bempp_cl/api/linalg/*.py and of "
           "GridFunction.projections/coefficients, fails closed)",
           "scipy.linalg.solve / lu_solve satisfy W*solve(W,v)=v for invertible W (universally quantified oracle)",
           "SciPy gmres/cg: convergence to rtol with info=0, and the meaning of the legacy callback value (trusted oracle; "
           "exercised by the search against a direct SciPy run)",
           "correspondence harness harness/c15_impl.py (captures the arguments of the SciPy calls) + theories/Algebra/"
           "CorrSolvers.v"]
ASSUMPTIONS = ["C15 convergence part is _partial: 'returns f to the requested tolerance with info 0' is SciPy's; only glue "
               "(system, right-hand side, spaces, bookkeeping) is proved",
               "blocked lu/gmres glue is checked by translator shape match + search; the blocked pack/unpack theorems are "
               "part of C14",
               "the inverse mass matrix is assumed two-sided where the strong/weak equivalence is used"]


def regen(ctx):
    ctx.info = ctx.translate(opclasses.op_classes)
    ctx.glue = ctx.translate(opclasses.solver_glue)


_q, _qc, _mat, _uexp = _c14._q, _c14._qc, _c14._mat, _c14._uexp


def _vec(v):
    return "[" + "; ".join(_qc(x) for x in v) + "]"


def _bfun(b):
    return "{| bf_space := %d; bf_dual := %d; bf_primal := %s; bf_vec := %s |}" % (
        b["space"], b["dual"], "true" if b["rep"] == "coef" else "false", _vec(b["vec"]))


def _run(ctx, strength):
    res = ctx.run_impl("c15_impl.py", {"strength": strength}, timeout=3000, threads=4,
                       extra_env={"OMP_WAIT_POLICY": "passive"})
    if res is not None and res.get("crash"):
        ctx.problem("harness", "c15_impl.py crashed", res["crash"])
    return res


def correspond(ctx):
    res = _run(ctx, "thorough" if ctx.tier == "thorough" else "quick")
    if res is None or "env" not in res:
        return
    ctx.impl = res
    env = res["env"]
    envtxt = "Definition E : cenv := {|\n ce_atoms := [%s];\n ce_dims := [%s];\n ce_invmass := [%s];\n ce_mass := [%s];\n" \
             " ce_patoms := [] |}." % (
                 ";\n  ".join("((%d, %d, %d)%%nat, %s)" % (a["spaces"][0], a["spaces"][1], a["spaces"][2], _mat(a["mat"]))
                              for a in env["atoms"]),
                 "; ".join("(%s, %d)%%nat" % (k, v) for k, v in env["dims"].items()),
                 ";\n  ".join("(%d%%nat, %d%%nat, %s)" % (m["range"], m["dual"], _mat(m["mat"])) for m in env["invmass"]),
                 ";\n  ".join("(%d%%nat, %d%%nat, %s)" % (m["range"], m["dual"], _mat(m["mat"])) for m in env["mass"]))
    hdr = ["From Coq Require Import QArith List String.",
           "From BV Require Import Algebra.Mat Algebra.OpLang Algebra.Corr Algebra.CorrSolvers.",
           "Import ListNotations.", "Open Scope Q_scope.", envtxt]
    sysc, luc, icc = res["sys_cases"], [c for c in res["lu_cases"] if c["result"] == "ok"], res["ic_cases"]

    def sysexp(c):
        if c["result"] == "ok":
            return "(SysOk %s %s %d)" % (_mat(c["A"]), _vec(c["rhs"]), c["space"])
        if c["result"] in ("ValueError", "AttributeError", "TypeError"):
            return "(SysExn %s)" % c["result"]
        return "SysOther"
    half = (len(sysc) + 1) // 2
    bodies = []
    for k, ch in enumerate((sysc[:half], sysc[half:])):
        bodies.append(("c15s%d" % k, "\n".join(hdr + [
            "Definition cases : list (uexp QC * bfun * bool * sys_expected) := [\n%s]." % ";\n".join(
                "(%s, %s, %s, %s)" % (_uexp(c["expr"]), _bfun(c["b"]), "true" if c["strong"] else "false", sysexp(c))
                for c in ch),
            "Eval vm_compute in (failing (sys_case_ok E) cases).", ""])))
    bodies.append(("c15l", "\n".join(hdr + [
        "Definition cases : list (uexp QC * bfun * list (list QC) * list QC * nat) := [\n%s]." % ";\n".join(
            "(%s, %s, %s, %s, %d%%nat)" % (_uexp(c["expr"]), _bfun(c["b"]), _mat(c["mat"]), _vec(c["vec"]), c["space"])
            for c in luc),
        "Eval vm_compute in (failing (lu_case_ok E) cases).",
        "Definition icases : list (bool * bool * list (list QC) * list QC * list (list QC) * nat * list Q) := [\n%s]." %
        ";\n".join("(%s, %s, %s, %s, [%s], %d%%nat, [%s])" % (
            "true" if c["store"] else "false", "true" if c["is_cg"] else "false", _mat(c["op"]), _vec(c["rhs"]),
            "; ".join(_vec(x) for x in c["xs"]), c["count"], "; ".join(_q(x) for x in c["res2"])) for c in icc),
        "Eval vm_compute in (failing ic_case_ok icases).", ""])))
    from concurrent.futures import ThreadPoolExecutor
    with ThreadPoolExecutor(max_workers=len(bodies)) as ex:
        outs = list(ex.map(lambda nb: ctx.coq_eval(nb[0], nb[1], timeout=1200), bodies))
    ctx.corr["evaluations"] = len(sysc) + len(luc) + len(icc)
    ctx.corr["distinct_nontrivial"] = len({(c["show"], c["strong"], c["b"]["space"], c["b"]["rep"]) for c in sysc
                                           if c["result"] == "ok"}) + len(luc) + sum(1 for c in icc if c["xs"])
    ctx.corr["rule"] = ("for random well-typed operator expressions and right-hand sides (coefficient or projection "
                        "representation, in or outside the range): the (operator, right-hand side) pair captured at the "
                        "scipy gmres call and the (matrix, vector, result space) of lu vs the model of the regenerated glue "
                        "on complex rationals at 1e-9; IterationCounter count / residuals for random callback sequences. "
                        "non-trivial = the wrapper reached the SciPy call / at least one callback")
    hist = {}
    for c in sysc:
        k = "system %s rhs-%s -> %s" % ("strong" if c["strong"] else "weak", c["b"]["rep"], c["result"])
        hist[k] = hist.get(k, 0) + 1
    hist["lu"] = len(luc)
    hist["counter"] = len(icc)
    ctx.corr["histogram"] = hist
    ctx.corr["samples"] = [{"expr": c["show"], "strong": c["strong"], "result": c["result"]} for c in sysc[:4]]
    if any(o is None for o in outs):
        return
    lists = []
    for o in outs:
        lists += re.findall(r'=\s*(\[[^\]]*\])\s*:\s*list nat', o.replace("\n", " "))
    if len(lists) != 4:
        ctx.problem("correspondence", "could not parse model evaluation output", "\n".join(outs)[-2000:])
        return
    groups = [sysc[:half], sysc[half:], luc, icc]
    names = ["system handed to gmres", "system handed to gmres", "lu arguments", "IterationCounter"]
    for lst, grp, nm in zip(lists, groups, names):
        for i in [int(x) for x in re.findall(r'\d+', lst)]:
            c = grp[i]
            ctx.corr["disagreements"] += 1
            ctx.problem("correspondence", "model and library disagree on %s: %s" % (
                nm, {k: c[k] for k in ("show", "strong", "result", "store", "is_cg", "count") if k in c}))


def search(ctx, strength):
    res = getattr(ctx, "impl", None)
    if res is None or (strength == "thorough" and ctx.tier != "thorough"):
        res = _run(ctx, strength)
    if res is None:
        return
    ctx.search_info["evaluations"] = res["evaluations"]
    ctx.search_info["notes"].append({"failing_cases_per_signature": res.get("failure_counts", {})})
    for f in res["failures"]:
        ctx.failure(f["signature"], f["what"], f["data"])


def replay(ctx):
    regen(ctx)
    search(ctx, "thorough")


META = {
    "technique": "Coq proof over the operator-algebra embedding of C14 plus the solver glue regenerated from "
                 "bempp_cl/api/linalg (strict AST match): SciPy's dense solve is a universally quantified oracle; the "
                 "arguments of the SciPy calls are captured on the implementation and diffed against the model inside Coq",
    "level_text": "Theorems in coq/props/C15.v, for every commutative ring, operand set and well-typed operator expression A "
                  "with invertible matrix: lu(A, A*f) has the coefficients of f and lives in the domain of A; uniqueness "
                  "(hence precomputed factors agree); the system handed to gmres/cg is (W, projections of b) in weak form "
                  "and (M^-1 W, coefficients of b) in strong form, rejected with ValueError iff b is outside the range, and "
                  "both have the same solutions; IterationCounter.count / residuals for every callback sequence; each of the three "
                  "iterative wrappers passes return_residuals to the callback (regenerated table), hence for all four "
                  "return_residuals x return_iteration_count combinations the residual list is returned iff requested with one "
                  "entry per iteration and the count is the number of callbacks; every blocked "
                  "branch (gmres weak/strong, lu) cuts the solution by A.domain_spaces. "
                  "Convergence to the tolerance with info 0 is SciPy's (partial).",
    "level_note": "Trusted: Coq kernel; translators/opclasses.py; SciPy solve/gmres/cg as oracles; harness. Blocked "
                  "solver paths: glue matched by the translator and exercised by the search only.",
    "design_ref": "DESIGN.md §7 C15",
}
