"""C03 Boundary operators are equivariant under motion, scaling and relabelling."""
import json
import time

from props import asm_emit as E
from props import C04 as _c04
from translators import py_kernels, c03_geometry

ID = "C03"
PROP_FILE = "props/C03.v"
COQ_TARGETS = ["props/C03.vo", "theories/AssemblyA/CorrEquiv.vo"]
TRUSTED = [
    "hand model coq/theories/AssemblyA/Dense.v (as in C04) + theories/AssemblyA/CorrEquiv.v: the hypotheses of "
    "C03_relabel_scatter are checked as booleans on the arrays the library produced for a grid and for its transformed copy, "
    "the model is evaluated on both, and the conclusion is checked on the two matrices the library assembled",
    "translators/c03_geometry.py (AST of Grid._compute_geometric_quantities: absolute vertex coordinates enter only the "
    "centroids and the vertex differences; fails closed)",
    "translators/py_kernels.py (all scalar kernels regenerated from core/numba_kernels.py for the kernel theorems)",
    "surrogate-kernel device and .py_func execution of the Numba loops in the correspondence",
    "Coq primitive 63-bit integers through Bignums BigZ (model evaluation only)",
]
ASSUMPTIONS = [
    "for local rotations / orientation flips the singular local values are only equal up to singular-quadrature error "
    "(hypothesis of the theorem); on the implementation this is exercised with polynomial surrogate kernels integrated exactly by "
    "order-4 Duffy rules and, for the real kernels, as convergence under order refinement in the search",
    "kernel theorems (rigid invariance, homogeneity with k/s) cover all 18 scalar Green's-function kernels of numba_kernels.py "
    "(coq/theories/Kernels/Invariance.v, shared with C08); the Maxwell integrand terms and the matrix-level homogeneity factors "
    "are exercised by the search",
    "edge-space (RWG/SNC) basis functions under local rotation / flip are covered by the search only (the correspondence uses "
    "scalar spaces for these two transformations, edge spaces for relabelling with sign changes)",
]


def regen(ctx):
    ctx.translate(py_kernels.numba_kernels)
    ctx.translate(c03_geometry.geometry_facts)
    for f in ("bempp_cl/api/grid/grid.py", "bempp_cl/core/singular_assembler.py", "bempp_cl/core/dense_assembler.py",
              "bempp_cl/core/numba_assemblers.py", "bempp_cl/api/integration/duffy_galerkin.py",
              "bempp_cl/core/numba_kernels.py", "bempp_cl/api/space/space.py", "bempp_cl/api/space/scalar_spaces.py",
              "bempp_cl/api/space/maxwell_spaces.py"):
        ctx.src(f)


def blist(rows):
    return E.lst(E.lst("true" if b else "false" for b in r) for r in rows)


def rcase(c):
    return "(mkRCase %s %s %s %s %s %s %s %s %s %s %s %s %s)" % (
        _c04.case_term(c["c0"]), _c04.case_term(c["c1"]), "true" if c["eval"] else "false", E.natlist(c["pi"]),
        E.lst(E.natlist(r) for r in c["loc_t"]), E.lst(E.natlist(r) for r in c["loc_r"]), E.natlist(c["rho_t"]),
        E.natlist(c["rho_r"]), E.lst(E.dyc(x) for x in c["sgn_t"]), E.lst(E.dyc(x) for x in c["sgn_r"]),
        blist(c["act_t"]), blist(c["act_r"]), E.dyc(c["tol"]))


def body(cases):
    return (E.HEADER % "AssemblyA.CorrDense AssemblyA.CorrEquiv") + \
        "Definition cases : list rcase := %s.\nEval vm_compute in (failing rcase_ok cases).\n" % \
        E.lst(rcase(c) for c in cases)


def correspond(ctx):
    t0 = time.time()
    strength = "thorough" if ctx.tier == "thorough" else "quick"
    both = ctx.run_impl("c03_impl.py", {"mode": "both", "strength": strength,
                                        "budget": 15 if strength == "quick" else 1e9}, timeout=5400)
    ctx.note("implementation process wall %.0fs" % (time.time() - t0))
    if both is None:
        return
    res = both["corr"]
    ctx.search_result = (strength, both["search"])
    for e in res["errors"]:
        ctx.problem("correspondence", "harness could not build a case", json.dumps(e)[:600])
    cases = res["cases"]
    groups = E.chunks(cases, 8 if strength == "quick" else 12)
    outs = E.run_parallel(ctx, [body(g) for g in groups], "c03cases", timeout=1500, workers=4)
    ctx.note("implementation + model evaluation wall %.0fs" % (time.time() - t0))
    ctx.corr["evaluations"] = len(cases)
    ctx.corr["distinct_nontrivial"] = sum(1 for c in cases if c["maxabs"] > 0)
    ctx.corr["histogram"] = {
        "transformations": {m: sum(1 for c in cases if c["spec"]["mode"] == m) for m in ("relabel", "rotate", "flip")},
        "model_evaluated_on_both_grids": sum(1 for c in cases if c["eval"]),
        "space_pairs": sorted({"%s x %s" % (c["spec"]["test"][0], c["spec"]["trial"][0]) for c in cases}),
        "sign_changes": sum(1 for c in cases if any(x[0] < 0 for x in c["sgn_t"] + c["sgn_r"])),
        "matrix_entries_compared": sum(c["c0"]["rows"] * c["c0"]["cols"] for c in cases)}
    ctx.corr["rule"] = ("one case = the library's dense assembly (surrogate kernel) on a grid and on its transformed copy "
                        "(random vertex+element permutation / local cyclic rotations / orientation flip vs swapped_normals); inside "
                        "Coq: the hypotheses of C03_relabel_scatter on the library's arrays (element, local-index, DOF maps, signs, "
                        "adjacency, singular pairs), model = implementation on both grids (relabel cases), carried-along regular local "
                        "values, and the conclusion A1[rho r, rho c] = sgn sgn A0[r,c] on the library's matrices; non-trivial = "
                        "non-zero matrix")
    ctx.corr["samples"] = [c["spec"] for c in cases[:6]]
    for g, out in zip(groups, outs):
        if out is None:
            continue
        lists = E.parse_nat_lists(out)
        if len(lists) != 1:
            ctx.problem("correspondence", "could not parse model evaluation output", out[-1500:])
            continue
        for i in lists[0]:
            ctx.corr["disagreements"] += 1
            ctx.problem("correspondence", "relabelling hypotheses / model / conclusion fail on the implementation's arrays",
                        json.dumps(g[i]["spec"]))


def search(ctx, strength):
    have = getattr(ctx, "search_result", None)
    carried = []
    if have is not None and (have[0] == strength or have[0] == "thorough"):
        res = have[1]
    else:
        if have is not None:
            # escalation after a broken tie/proof: keep what the quick search of the same run already found
            carried = list(have[1]["failures"])
            ctx.search_info["notes"].append({"quick_search_of_this_run": {"evaluations": have[1]["evaluations"],
                                                                         "failures": len(carried)}})
        if carried:
            # the quick search already exhibits failing inputs: they are the replay, no need for the long search
            res, carried = have[1], []
            r = {"search": res}
        else:
            r = None
        if r is not None:
            pass
        elif True:
            # escalated search after a broken tie/proof in the quick tier: bounded (thorough tier: unbounded)
            r = ctx.run_impl("c03_impl.py", {"mode": "search", "strength": strength,
                                             "budget": 1e9 if ctx.tier == "thorough" else 420}, timeout=5400)
            if r is None:
                return
            res = r["search"]
    ctx.search_info["evaluations"] = res["evaluations"]
    ctx.search_info["notes"].append({"operators_run": res["operators_run"], "worst_relative_error": res["worst"],
                                     "skipped": res["skipped"], "wall_s": res["wall"]})
    for f in carried + res["failures"]:
        ctx.failure(f["signature"], f["what"], f["data"])


def replay(ctx):
    regen(ctx)
    search(ctx, "thorough")


META = {
    "technique": "Coq proof: relabelling / local-renumbering / sign equivariance and translation invariance of the dense assembly "
                 "model (any commutative ring), geometry-from-differences and orthogonal/scaling facts, rigid invariance and "
                 "homogeneity of all scalar Green's-function kernels regenerated from the source (over R); tie by checking the theorem's hypotheses "
                 "and conclusion inside Coq on the arrays and matrices the library produces for transformed grids",
    "level_text": "Theorems in coq/props/C03.v: for all grids, spaces, element permutations, local index permutations (cyclic rotation, "
                  "flip), DOF renumberings and sign changes compatible with the DOF maps, and all local values carried along, the "
                  "assembled matrix is the permuted sign-changed matrix (regular part unconditionally, singular part under the stated "
                  "hypothesis on the singular local values); translation invariance of the assembled matrix for every translation-"
                  "invariant kernel; Jacobians/normals/integration elements depend on vertex differences only, are invariant under "
                  "orthogonal maps and scale with s^4 (and the source computes them from differences: regenerated fact);  all 18 scalar kernels of numba_kernels.py (Laplace, Helmholtz with complex k, "
                  "modified Helmholtz; regular and singular variants) are invariant under rigid motions and homogeneous of degree "
                  "-1/-2 with the wavenumber scaled by 1/s.",
    "level_note": "Trusted: Coq kernel, three real-number axioms of the standard library (kernel theorems), hand model + correspondence "
                  "(12 transformed-grid pairs per quick check), py_kernels translator. Not proved: equality of singular contributions "
                  "under changed local vertex order (quadrature error, analytic), matrix homogeneity factors and the Maxwell "
                  "integrand terms (exercised by the search on all families).",
    "design_ref": "DESIGN.md §7 C03",
}
