"""C19 Grid and grid-function export and import round-trip."""
import re

from translators import iofacts

ID = "C19"
PROP_FILE = "props/C19.v"
COQ_TARGETS = ["props/C19.vo", "theories/IO/Corr.vo"]
TRUSTED = ["translators/iofacts.py (AST shape match of bempp_cl/api/grid/io.py, fails closed)",
           "meshio write-then-read preserves points, the triangle block and the gmsh:physical / gmsh:geometrical "
           "integer arrays (universally quantified oracle in the theorems; observed on the installed meshio for .msh "
           "ascii/binary, .vtu, .ply by the correspondence run)",
           "correspondence harness harness/c19_impl.py + theories/IO/Corr.v (diff inside Coq, exact rationals)",
           "NumPy integer casts uint32<->int32 wrap modulo 2^32 (modelled, proved to be the identity on uint32)"]
ASSUMPTIONS = ["GridFunction.evaluate_on_vertices / evaluate_on_element_centers are taken as the reference values "
               "(their own correctness belongs to C13/C09)",
               "sqrt and log of the 'abs'/'log_abs' modes are abstract functions in the model; their values are "
               "compared on the implementation only (search)",
               "callable transformations are modelled by one representative (doubling)"]

PINNED = {"fb_zero": True, "elem_c": [("real", "PRe", False), ("imag", "PIm", False)]}


def regen(ctx):
    ctx.facts = ctx.translate(iofacts.io_facts)
    if ctx.facts:
        ctx.note("io.py variant: fallback-on-all-zero=%s, complex element data wrapped=%s" % (
            ctx.facts["fb_zero"], all(w for _, _, w in ctx.facts["elem_c"])))


def _z(x):
    return str(x) if x >= 0 else "(%d)" % x


def _zl(xs):
    return "[" + "; ".join(_z(x) for x in xs) + "]%Z"


def _ozl(xs):
    return "None" if xs is None else "(Some %s)" % _zl(xs)


def _q(p):
    n, d = p
    return "(%s # %d)" % (n if n >= 0 else "(%d)" % n, d)


def _qc(p):
    if p is None:
        return "(0, 0)"
    return "(%s, %s)" % (_q(p[0]), _q(p[1]))


def _arr(a):
    return "[" + "; ".join("[" + "; ".join(_qc(x) for x in row) + "]" for row in a) + "]"


def _run(ctx, strength):
    res = ctx.run_impl("c19_impl.py", {"strength": strength}, timeout=2400, threads=4)
    if res is not None and res.get("crash"):
        ctx.problem("harness", "c19_impl.py crashed", res["crash"])
    return res


def correspond(ctx):
    strength = "thorough" if ctx.tier == "thorough" else "quick"
    res = _run(ctx, strength)
    if res is None:
        return
    ctx.impl = res
    gcs = res["grid_cases"]
    glines = []
    for c in gcs:
        if "imported_dom" not in c:
            continue
        glines.append("{| c_gmsh := %s; c_dom := %s; c_uniq := %s; c_phys := %s; c_geom := %s; c_imp := %s |}" % (
            "true" if c["ext"] == ".msh" else "false", _zl(c["dom"]), _zl(c["uniq"]), _ozl(c["read_phys"]),
            _ozl(c["read_geom"]), _zl(c["imported_dom"])))
        if not (c["oracle_points"] and c["oracle_cells"]) and c["ext"] == ".msh":
            ctx.problem("correspondence", "meshio oracle hypothesis violated: points/cells changed by write+read",
                        {k: c[k] for k in ("grid", "pattern", "ext", "binary")})
            ctx.corr["disagreements"] += 1
    dcs = [c for c in res["data_cases"]]
    dlines = []
    for c in dcs:
        mode = c["mode"]
        cmp_ = {None: 0, "real": 0, "imag": 0, "call2": 0, "abs_squared": 1, "abs": 2, "log_abs": 2}[mode]
        f = c.get("file")
        fs = "None" if f is None else "(Some [%s])" % "; ".join('("%s"%%string, %s)' % (k, _arr(v)) for k, v in sorted(f.items()))
        dlines.append("{| d_kind := %s; d_cplx := %s; d_mode := %s; d_callable := %s; d_vals := %s; d_n := %d; "
                      "d_npts := %d; d_ncells := %d; d_cmp := %d; d_file := %s |}" % (
                          "Node" if c["effective"] == "node" else "Element", "true" if c["complex"] else "false",
                          "None" if mode in (None, "call2") else '(Some "%s"%%string)' % mode,
                          "true" if mode == "call2" else "false",
                          _arr([[None for _ in row] for row in c["vals"]] if cmp_ == 2 else c["vals"]),
                          c["n"], c["npts"], c["ncells"], cmp_, fs))
    hdr = ["From Coq Require Import QArith ZArith List String.", "From BV Require Import IO.Msh IO.Corr.",
           "Import ListNotations.", "Open Scope Q_scope."]
    nchunk = 6
    chunks = [dlines[i::nchunk] for i in range(nchunk)]
    bodies = [("c19grid", "\n".join(hdr + ["Definition gcases : list gcase := [\n%s]." % ";\n".join(glines),
                                            "Eval vm_compute in (failing gcase_ok gcases).", ""]))]
    for k, ch in enumerate(chunks):
        bodies.append(("c19data%d" % k, "\n".join(hdr + ["Definition dcases : list dcase := [\n%s]." % ";\n".join(ch),
                                                         "Eval vm_compute in (failing dcase_ok dcases).", ""])))
    from concurrent.futures import ThreadPoolExecutor
    with ThreadPoolExecutor(max_workers=len(bodies)) as ex:
        outs = list(ex.map(lambda nb: ctx.coq_eval(nb[0], nb[1], timeout=900), bodies))
    ctx.corr["evaluations"] = len(glines) + len(dlines)
    ctx.corr["distinct_nontrivial"] = len({(tuple(c["dom"]), c["ext"], c["binary"]) for c in gcs if any(c["dom"])}) + \
        sum(1 for c in dcs if c.get("file"))
    ctx.corr["rule"] = ("grid cases: (domain indices, python set order, tag arrays meshio read back, domain indices "
                        "import_grid returned) vs the model at the regenerated variant; data cases: (vertex/centre values, "
                        "mode, kind) -> arrays read back from a binary .msh vs the model (exact for none/real/imag/"
                        "callable, 1e-12 for abs_squared, shapes for abs/log_abs; rejected exports must be rejected by "
                        "the model). non-trivial = a grid case with some non-zero domain index or an accepted data export")
    hist = {}
    for c in gcs:
        k = "grid %s%s %s" % (c["ext"], "" if c["binary"] else "-ascii", c["pattern"])
        hist[k] = hist.get(k, 0) + 1
    for c in dcs:
        k = "data %s %s %s mode=%s -> %s" % (c["space"], "complex" if c["complex"] else "real", c["effective"], c["mode"],
                                             "written" if c.get("file") else c["result"])
        hist[k] = hist.get(k, 0) + 1
    ctx.corr["histogram"] = hist
    ctx.corr["samples"] = [{k: gcs[i][k] for k in ("grid", "pattern", "ext", "binary", "dom", "uniq", "read_phys",
                                                  "read_geom", "imported_dom")} for i in (0, len(gcs) // 2, len(gcs) - 1)]
    if any(o is None for o in outs):
        return
    idx = []
    for o in outs:
        blocks = re.findall(r'=\s*(\[[^\]]*\])\s*:\s*list nat', o.replace("\n", " "))
        if len(blocks) != 1:
            ctx.problem("correspondence", "could not parse model evaluation output", o[-2000:])
            return
        idx.append([int(x) for x in re.findall(r'\d+', blocks[0])])
    gi = [c for c in gcs if "imported_dom" in c]
    for i in idx[0]:
        ctx.corr["disagreements"] += 1
        ctx.problem("correspondence", "model and implementation disagree on grid case %s" % (
            {k: gi[i][k] for k in ("grid", "pattern", "ext", "binary", "dom", "read_phys", "read_geom", "imported_dom")}))
    for k, ids in enumerate(idx[1:]):
        for i in ids:
            c = dcs[k + nchunk * i]
            ctx.corr["disagreements"] += 1
            ctx.problem("correspondence", "model and implementation disagree on data case %s" % (
                {kk: c[kk] for kk in ("space", "complex", "data_type", "mode", "result")}))


def search(ctx, strength):
    res = getattr(ctx, "impl", None)
    if res is None or (strength == "thorough" and ctx.tier != "thorough"):
        res = _run(ctx, strength)
    if res is None:
        return
    ctx.search_info["evaluations"] = res["evaluations"]
    counts = {}
    for f in res["failures"]:
        counts[f["signature"]] = counts.get(f["signature"], 0) + 1
    ctx.search_info["notes"].append({"failing_cases_per_signature": counts,
                                     "worst_relative_data_error": max([c.get("worst", 0.0) for c in
                                                                       res["data_cases"] + res["data_light"]] or [0.0])})
    for f in res["failures"]:
        ctx.failure(f["signature"], f["what"], f["data"])


def replay(ctx):
    regen(ctx)
    search(ctx, "thorough")


META = {
    "technique": "Coq proof over a model of io.py whose deciding facts (tag keys, fallback condition, numbering, data "
                 "keys/wrapping/transposition, transformation table) are regenerated from the source on every run; "
                 "meshio is a universally quantified oracle; correspondence through real files, diffed inside Coq",
    "level_text": "Theorems in coq/props/C19.v: for every grid (any size, any uint32 domain indices, any set iteration "
                  "order) .msh export followed by import returns the same vertices, elements and - when some index is "
                  "non-zero - domain indices; exact characterisation of when the whole grid survives (refuted for all-zero "
                  "indices on the current tree, with witness: recorded finding); vertices/connectivity for the tag-less formats; the int32 "
                  "casts are harmless; data layout (node/element, real/complex split, transposition, per-block wrapping) "
                  "of the current source incl. complex element data (two wrapped arrays) and the transformation table; unwrapped "
                  "element arrays would be rejected by meshio.",
    "level_note": "Trusted: Coq kernel; translators/iofacts.py; meshio behaves as the stated oracle (checked on real files "
                  "by the correspondence run, not proved); evaluate_on_vertices/_element_centers are the reference. sqrt/"
                  "log values of abs/log_abs and user callables are only exercised on the implementation.",
    "design_ref": "DESIGN.md §7 C19",
}
