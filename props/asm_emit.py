"""Driver-side helpers shared by props/C04.py, C13.py, C03.py: turn the exact dumps of the harness (dyadic numbers as
[mantissa, exponent]) into Coq terms for the cases files, run several cases files in parallel, parse the lists of
failing indices Coq prints.  stdlib only."""
import os
import re
import subprocess
from concurrent.futures import ThreadPoolExecutor


def dyc(p):
    m, e = p
    ms = str(m) if m >= 0 else "(%d)" % m
    es = str(e) if e >= 0 else "(%d)" % e
    return "(D %s %s)" % (ms, es)


def lst(xs):
    return "[" + "; ".join(xs) + "]"


def natlist(xs):
    return lst("%d%%nat" % int(x) for x in xs)


def pt3(v):
    return "(%s, %s, %s)" % tuple(dyc(x) for x in v)


def spdata(s):
    return "(mkSp %d %d %s %s %s %s %s)" % (
        s["shape"], s["ns"], lst("true" if b else "false" for b in s["support"]),
        lst(natlist(r) for r in s["l2g"]), lst(lst(dyc(x) for x in r) for r in s["mult"]),
        lst(natlist(c) for c in s["colors"]), lst(dyc(x) for x in s["nm"]))


def griddata(g):
    return "(mkGd %d %s %s %s %s %s %s %s)" % (
        g["nel"], lst("(%d, %d, %d)%%nat" % tuple(e) for e in g["els"]), lst(natlist(c) for c in g["edge_adj"]),
        lst(natlist(c) for c in g["vertex_adj"]), lst(pt3(v) for v in g["v0"]),
        lst("(%s, %s)" % (pt3(j[0]), pt3(j[1])) for j in g["jac"]), lst(pt3(v) for v in g["normal"]),
        lst(dyc(x) for x in g["intel"]))


def rule(r):
    return lst("((%s, %s), %s)" % (dyc(p[0]), dyc(p[1]), dyc(p[2])) for p in r)


def singtab(t):
    return lst("(%d%%nat, %d%%nat, %d%%nat, %s)" % (
        k, a, b, lst("((%s, %s), (%s, %s), %s)" % tuple(dyc(x) for x in q) for q in pts)) for k, a, b, pts in t)


def matrix(m):
    return lst(lst(dyc(x) for x in row) for row in m)


def triplets(t):
    return lst("(%d%%nat, %d%%nat, %s)" % (a, b, dyc(v)) for a, b, v in t)


HEADER = "\n".join([
    "From Coq Require Import List Arith Bool ZArith.", "From Bignums Require Import BigZ.",
    "From BV Require Import AssemblyA.Sums AssemblyA.Mat AssemblyA.Dense AssemblyA.Sparse AssemblyA.Dyadic %s.",
    "Import ListNotations.", ""])


def parse_nat_lists(out):
    """All '= [..] : list nat' answers of a coqc run, in order."""
    flat = out.replace("\n", " ")
    return [[int(x) for x in re.findall(r'\d+', blk)] for blk in
            re.findall(r'=\s*(\[[^\]]*\])\s*:\s*list nat', flat)]


def run_parallel(ctx, bodies, prefix, timeout=900, workers=6):
    """bodies: list of Coq file texts; returns list of outputs (None on failure, problem recorded)."""
    def one(ib):
        i, body = ib
        return ctx.coq_eval("%s_%d" % (prefix, i), body, timeout=timeout)
    with ThreadPoolExecutor(max_workers=workers) as ex:
        return list(ex.map(one, enumerate(bodies)))


def chunks(xs, n):
    return [xs[i:i + n] for i in range(0, len(xs), n)]
