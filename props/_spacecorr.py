"""Shared by props/C09.py and props/C16.py: turn the harness dump (grid tables + arrays of the spaces the
implementation built) into Coq cases files for theories/Space/Corr.v and collect the disagreements."""
import re
import threading

CHUNK = 500
FIELDS = {1: "local2global", 2: "local_multipliers", 3: "support", 4: "normal_multipliers", 5: "global_dof_count",
          6: "dof count returned by the builder", 7: "global2local", 8: "color_map", 9: "sorted indices",
          10: "indexptr", 11: "model undefined (ValueError expected)"}


def nl(xs):
    return "[" + ";".join(str(int(x)) for x in xs) + "]"


def zl(xs):
    return "[" + ";".join(("(%d)" % x if x < 0 else str(int(x))) for x in xs) + "]%Z"


def bl(xs):
    return "[" + ";".join("true" if x else "false" for x in xs) + "]"


def ll(rows, f=nl):
    return "[" + ";".join(f(r) for r in rows) + "]"


def opt(x):
    return "None" if x is None else "(Some %s)" % nl(x)


def grid_def(name, t):
    return ("Definition %s : gridtab := mkgrid %d %d %s %s %s %s %s %s." % (
        name, t["nvert"], t["nedge"], ll(t["elems"]), ll(t["eedges"]), ll(t["enbrs"]), ll(t["vnbrs"]),
        bl(t["vob"]), nl(t["dom"])))


def case_term(c):
    g2l = "[" + ";".join("[" + ";".join("(%d,%d)" % (a, b) for a, b in row) + "]" for row in c["g2l"]) + "]"
    return "(mkcase %s %s %s %s %s %s %s %s %s %s %d %s %s %s %s %s)" % (
        c["kind"], opt(c["se"]), opt(c["segs"]), nl(c["swapped"]), "true" if c["incl"] else "false",
        "true" if c["trunc"] else "false", ll(c["l2g"]), ll(c["mult"], zl), bl(c["supp"]), zl(c["nm"]),
        c["ndofs"], "None" if c["count"] is None else "(Some %d)" % c["count"], g2l, zl(c["colour"]),
        nl(c["sorted"]), nl(c["indexptr"]))


KIND_NO = {"DP0": 0, "DP1": 1, "P1": 2, "RWG": 3, "SNC": 4}


def pack_case(c):
    """List of primitive-int literals, five 12-bit fields each (layout: theories/Space/Corr.v p_case)."""
    f = [KIND_NO[c["kind"]]]

    def lst(xs, off=0):
        f.append(len(xs))
        f.extend(int(x) + off for x in xs)

    def optl(x):
        if x is None:
            f.append(0)
        else:
            f.append(1)
            lst(x)

    def tab(rows, off=0):
        f.append(len(rows))
        f.append(len(rows[0]) if rows else 0)
        for r in rows:
            f.extend(int(x) + off for x in r)

    optl(c["se"]); optl(c["segs"]); lst(c["swapped"]); f.append(int(c["incl"])); f.append(int(c["trunc"]))
    tab(c["l2g"]); tab(c["mult"], 1); lst([int(x) for x in c["supp"]]); lst(c["nm"], 1); f.append(c["ndofs"])
    if c["count"] is None:
        f.append(0)
    else:
        f += [1, c["count"]]
    f.append(len(c["g2l"]))
    for row in c["g2l"]:
        f.append(len(row))
        for a, b in row:
            f += [a, b]
    lst(c["colour"], 1); lst(c["sorted"]); lst(c["indexptr"])
    if any(x < 0 or x >= 4096 for x in f):
        raise ValueError("field out of range")
    f += [0] * (-len(f) % 5)
    return "[" + ";".join(str(sum(f[i + k] << (12 * k) for k in range(5))) for i in range(0, len(f), 5)) + "]"


HEADER = ("From Coq Require Import Uint63.\nFrom Coq Require Import ZArith List Bool.\nFrom BV Require Import Space.DofMaps Space.Colouring Space.Corr.\n"
          "Import ListNotations.\nOpen Scope nat_scope.\n")


def parse_failing(ctx, name, out):
    """Parse `= [(i, [f; ...]); ...] : list (nat * list nat)` strictly: every tuple of the printed list must be
    recognised (numbers are printed as `3%nat` when uint63_scope is open), otherwise the evaluation counts as broken."""
    flat = re.sub(r'\s+', '', out.replace("%nat", ""))
    m = re.search(r'=(\[.*\]):list\(nat\*listnat\)', flat)
    if not m:
        ctx.problem("correspondence", "could not parse model evaluation output of " + name, out[-1500:])
        return None
    body = m.group(1)
    entries = re.findall(r'\((\d+),\[([\d;]*)\]\)', body)
    rebuilt = "[" + ";".join("(%s,[%s])" % e for e in entries) + "]"
    if rebuilt != body:
        ctx.problem("correspondence", "unrecognised entries in the model evaluation output of " + name, out[-1500:])
        return None
    return entries


def run_groups(ctx, groups, tag, parallel=4):
    """Evaluate every case of every group inside Coq.  Returns (n_cases, disagreements[list of dicts])."""
    jobs = []
    for gi, g in enumerate(groups):
        cs = g["cases"]
        for k in range(0, len(cs), CHUNK):
            part = cs[k:k + CHUNK]
            body = HEADER + grid_def("g", g["tables"]) + "\nOpen Scope uint63_scope.\nDefinition cs : list (list int) := [\n" + \
                ";\n".join(pack_case(c) for c in part) + "].\nEval vm_compute in (failing_packed g cs).\n"
            jobs.append((gi, k, part, "%s_%d_%d" % (tag, gi, k), body))
    results = [None] * len(jobs)
    sem = threading.Semaphore(parallel)

    def work(i):
        with sem:
            results[i] = ctx.coq_eval(jobs[i][3], jobs[i][4], timeout=1200)

    th = [threading.Thread(target=work, args=(i,)) for i in range(len(jobs))]
    for t in th:
        t.start()
    for t in th:
        t.join()
    bad = []
    n = 0
    for (gi, k, part, name, _), out in zip(jobs, results):
        n += len(part)
        if out is None:
            continue
        entries = parse_failing(ctx, name, out)
        if entries is None:
            continue
        for idx, fields in entries:
            c = part[int(idx)]
            fs = [int(x) for x in re.findall(r'\d+', fields)]
            bad.append({"group": groups[gi]["name"], "case": {k2: c[k2] for k2 in ("kind", "se", "segs", "swapped", "incl", "trunc")},
                        "fields": [FIELDS.get(f, str(f)) for f in fs], "tables": groups[gi]["tables"],
                        "impl": {k2: c[k2] for k2 in ("l2g", "mult", "supp", "ndofs", "colour")}})
    return n, bad


# ------------------------------------------------------------------------------------------------ C16
def _ints(f):
    if any(x < 0 or x >= 4096 for x in f):
        raise ValueError("field out of range")
    f = list(f) + [0] * (-len(f) % 5)
    return "[" + ";".join(str(sum(f[i + k] << (12 * k) for k in range(5))) for i in range(0, len(f), 5)) + "]"


def _space_fields(a):
    f = [a["n"], a["k"], len(a["l2g"]), a["k"]]
    for r in a["l2g"]:
        f += [int(x) for x in r]
    f += [len(a["mult"]), a["k"]]
    for r in a["mult"]:
        f += [int(x) + 1 for x in r]
    f.append(len(a["supp"]))
    f += [int(x) for x in a["supp"]]
    return f


def pack_ccase(c):
    f = _space_fields(c)
    for key, off in (("colour", 1), ("sorted", 0), ("indexptr", 0)):
        f.append(len(c[key]))
        f += [int(x) + off for x in c[key]]
    f.append(1 if c.get("arange") else 0)
    return _ints(f)


def pack_lcase(c):
    f = _space_fields(c["dual"]) + _space_fields(c["domain"])
    f.append(len(c["launches"]))
    for la in c["launches"]:
        for key in ("test", "trial"):
            f.append(len(la[key]))
            f += [int(x) for x in la[key]]
    return _ints(f)


CFIELDS = {8: "color_map", 9: "sorted indices", 10: "indexptr", 12: "undecodable case",
           13: "zero-multiplier entries are not alias closed", 14: "model colouring improper",
           15: "launch structure of dense_assembler",
           16: "arrays are not the arange layout (local2global[support] = arange, multipliers 1) that the alias-closure theorem covers"}


def run_packed(ctx, packed, fn, tag, chunk=60, parallel=4):
    """Evaluate `fn` (failing_ccases / failing_lcases) over packed cases; returns list of (index, [field names])."""
    jobs = []
    for k in range(0, len(packed), chunk):
        body = HEADER + "Open Scope uint63_scope.\nDefinition cs : list (list int) := [\n" + \
            ";\n".join(packed[k:k + chunk]) + "].\nEval vm_compute in (%s cs).\n" % fn
        jobs.append((k, "%s_%d" % (tag, k), body))
    results = [None] * len(jobs)
    sem = threading.Semaphore(parallel)

    def work(i):
        with sem:
            results[i] = ctx.coq_eval(jobs[i][1], jobs[i][2], timeout=1200)

    th = [threading.Thread(target=work, args=(i,)) for i in range(len(jobs))]
    for t in th:
        t.start()
    for t in th:
        t.join()
    bad = []
    for (k, name, _), out in zip(jobs, results):
        if out is None:
            continue
        entries = parse_failing(ctx, name, out)
        if entries is None:
            continue
        for idx, fields in entries:
            bad.append((k + int(idx), [CFIELDS.get(int(x), x) for x in re.findall(r'\d+', fields)]))
    return bad
