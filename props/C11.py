"""C11 Grid topology and geometry data are complete and consistent."""
from props import _gridutil as U

ID = "C11"
PROP_FILE = "props/C11.v"
COQ_TARGETS = ["props/C11.vo", "theories/Grid/GridCorr.vo", "theories/Grid/RefineCorr.vo"]
TRUSTED = ["correspondence harness harness/c11_impl.py + theories/Grid/GridCorr.v, RefineCorr.v (model evaluated inside Coq "
           "on the same inputs; tables whose order scipy leaves unspecified are sorted on the implementation side)",
           "NumPy/SciPy primitives (csr_matrix construction and product, numpy.linalg.inv raising on exactly singular "
           "input) and the numba typed dict are modelled, not verified",
           "IEEE arithmetic: geometric quantities compared with the exact model at relative tolerance 1e-12"]
ASSUMPTIONS = ["sqrt/normalisation step of normals, volumes, integration elements and diameters is compared by the "
               "correspondence check only (the theorems are about the squared, sqrt-free quantities)",
               "element index ranges: models use unbounded naturals; uint32/int32 wrap-around above 2^31 elements is not modelled"]

SOURCES = ["bempp_cl/api/grid/grid.py", "bempp_cl/helpers.py", "bempp_cl/core/numba_kernels.py"]

DIFF_NAMES = {1: "edges", 2: "element_edges", 3: "edge_adjacency", 4: "vertex_adjacency", 5: "element_neighbors",
              6: "edge_neighbors", 7: "vertex_neighbors", 8: "edge_on_boundary", 9: "vertex_on_boundary",
              99: "library accepted a grid the model rejects"}

HEADER = "\n".join(["From Coq Require Import QArith ZArith List Bool Arith.",
                    "From BV Require Import Grid.Topology Grid.Geometry Grid.GridCorr Grid.Refine Grid.RefineCorr.",
                    "Import ListNotations.", ""])


def regen(ctx):
    for s in SOURCES:
        ctx.src(s)


def _topo_body(cases):
    items = ["(%s, %d, %d, %s)" % (U.elems(c["els"]), c["nv"], c["kind"], U.topology(c["tables"])) for c in cases]
    return HEADER + "Open Scope nat_scope.\nDefinition cases : list topo_case := %s.\n" % U.lst(items) + \
        "Eval vm_compute in (diffs topo_case_diff cases).\n"


def _geom_term(g):
    return "(mkGeom %s %s %s %s %s %s %s %s %s)" % (U.vec(g["n"]), U.qq(g["vol"]), U.qq(g["ie"]), U.qq(g["diam"]),
                                                      U.vec(g["c"]), U.vec(g["ja"]), U.vec(g["jb"]), U.vec(g["ta"]),
                                                      U.vec(g["tb"]))


def _elems_nat(els):
    return U.lst("(%d, %d, %d)%%nat" % tuple(e) for e in els)


def _geom_body(cases):
    items = []
    for c in cases:
        impl = "None" if c["geom"] is None else "(Some %s)" % U.lst(_geom_term(g) for g in c["geom"])
        items.append("(%s, %s, %s)" % (U.lst(U.vec(v) for v in c["vs"]), _elems_nat(c["els"]), impl))
    return HEADER + "Open Scope Q_scope.\nDefinition cases : list geom_case := %s.\n" % U.lst(items) + \
        "Eval vm_compute in (failing geom_case_ok cases).\n"


def _grid_term(g):
    return "(%s, %s, %s)" % (U.lst(U.vec(v) for v in g["vs"]), _elems_nat(g["els"]),
                             U.lst("%d%%nat" % d for d in g["dom"]))


def _derived_body(cases):
    ref, bar, seg = [], [], []
    for c in cases:
        base = _grid_term(c)
        ref.append("(%s, %s)" % (base, _grid_term(c["refine"])))
        bar.append("(%s, %s)" % (base, _grid_term(c["bary"])))
        if "segments" in c:
            seg.append("(%s, %s, %s)" % (base, U.lst("%d%%nat" % s for s in c["segments"]["segs"]),
                                         _grid_term(c["segments"])))
    return HEADER + "Open Scope Q_scope.\n" + \
        "Definition rcases : list (cgrid * cgrid) := %s.\n" % U.lst(ref) + \
        "Definition bcases : list (cgrid * cgrid) := %s.\n" % U.lst(bar) + \
        "Definition scases : list (cgrid * list nat * cgrid) := %s.\n" % U.lst(seg) + \
        "Eval vm_compute in (failing refine_case_ok rcases).\n" + \
        "Eval vm_compute in (failing bary_case_ok bcases).\n" + \
        "Eval vm_compute in (failing segments_case_ok scases).\n", (len(ref), len(bar), len(seg))


def _union_body(cases):
    items = []
    for c in cases:
        gs = U.lst("(%d, %s, %s)" % (g["nv"], U.elems(g["els"]), U.nats(g["dom"])) for g in c["grids"])
        sw = "None" if c["swapped"] is None else "(Some %s)" % U.bools(c["swapped"])
        given = "None" if c["given"] is None else "(Some %s)" % U.nats(c["given"])
        items.append("(%s, %s, %d, %s, (%d, %s, %s))" % (gs, sw, c["mode"], given, c["nv"], U.elems(c["els"]), U.nats(c["dom"])))
    return HEADER + "Open Scope nat_scope.\nDefinition ucases : list union_case := %s.\n" % U.lst(items) + \
        "Eval vm_compute in (failing union_case_ok ucases).\n"


def correspond(ctx):
    strength = "thorough" if ctx.tier == "thorough" else "quick"
    res = ctx.run_impl("c11_impl.py", {"strength": strength}, timeout=3000)
    if res is None:
        return
    ctx.impl = res
    for err in res.get("errors", []):
        ctx.problem("harness", "c11_impl.py internal error", err)
    for key in ("topo", "adjacent", "geom", "derived", "union"):
        res.setdefault(key, [])
    res.setdefault("topo_hist", {})
    topo = res["topo"]
    jobs, meta = [], []
    for k, ch in enumerate(U.chunks(topo, 180)):
        jobs.append(("c11topo%d" % k, _topo_body(ch)))
        meta.append(("topo", ch))
    adj = res["adjacent"]
    body = HEADER + "Open Scope nat_scope.\nDefinition cases : list (list elem * list bool) := %s.\n" % U.lst(
        "(%s, %s)" % (U.elems(c["els"]), U.bools(c["adj"])) for c in adj) + \
        "Eval vm_compute in (failing adjacent_case_ok cases).\n"
    jobs.append(("c11adjacent", body))
    meta.append(("adjacent", adj))
    jobs.append(("c11geom", _geom_body(res["geom"])))
    meta.append(("geom", res["geom"]))
    dbody, dcounts = _derived_body(res["derived"])
    jobs.append(("c11derived", dbody))
    meta.append(("derived", res["derived"]))
    jobs.append(("c11union", _union_body(res["union"])))
    meta.append(("union", res["union"]))
    outs = U.eval_many(ctx, jobs, workers=4, timeout=1200)
    hist = dict(res["topo_hist"])
    nontrivial = set()
    n_eval = 0
    for (kind, cases), out in zip(meta, outs):
        if out is None:
            continue
        if kind == "topo":
            n_eval += len(cases)
            for c in cases:
                if c["tables"] is not None and (c["tables"]["edge_adjacency"] or c["tables"]["vertex_adjacency"]):
                    nontrivial.add(json_key(c))
            pl = U.parse_pair_list(out)
            if len(pl) != 1:
                ctx.problem("correspondence", "could not parse the topology comparison output", out[-1500:])
                continue
            for i, code in pl[0]:
                c = cases[i]
                ctx.corr["disagreements"] += 1
                what = ("exception class differs: library %s, model kind %d" % (c["exc"] or "accepts", code - 100)) \
                    if code >= 100 else DIFF_NAMES.get(code, str(code))
                ctx.disagree = getattr(ctx, "disagree", []) + [c]
                if len(ctx.disagree) <= 6:
                    ctx.problem("correspondence", "Grid(...) and the model disagree on %s (%s): %s" % (
                        c["tag"], what, {"elements": c["els"], "nv": c["nv"]}))
        else:
            nl = U.parse_nat_list(out)
            names = {"adjacent": ["elements_adjacent"], "geom": ["geometric quantities"],
                     "derived": ["refine", "barycentric_refinement", "grid_from_segments"], "union": ["union"]}[kind]
            if len(nl) != len(names):
                ctx.problem("correspondence", "could not parse the %s comparison output" % kind, out[-1500:])
                continue
            if kind == "derived":
                n_eval += sum(dcounts)
                hist.update({"refine": dcounts[0], "barycentric_refinement": dcounts[1], "grid_from_segments": dcounts[2]})
            else:
                n_eval += len(cases)
                hist[kind] = len(cases)
            for nm, idx in zip(names, nl):
                for i in idx:
                    ctx.corr["disagreements"] += 1
                    ctx.problem("correspondence", "library and model disagree on %s, case %d" % (nm, i))
                    # remember the case: the search evaluates the property predicates on exactly it
                    rc = ctx.__dict__.setdefault("recheck", {"union_cases": [], "derived_cases": [], "geom_cases": []})
                    if kind == "union":
                        rc["union_cases"].append({k: cases[i][k] for k in ("grids", "swapped", "mode", "given")})
                    elif kind == "geom":
                        rc["geom_cases"].append({"vs": cases[i]["vs"], "els": cases[i]["els"]})
                    elif kind == "derived":
                        pool = [c for c in cases if "segments" in c] if nm == "grid_from_segments" else cases
                        rc["derived_cases"].append({k: pool[i][k] for k in ("vs", "els", "dom")})
    if len(getattr(ctx, "disagree", [])) > 6:
        ctx.problem("correspondence", "... and %d more topology cases disagree" % (len(ctx.disagree) - 6))
    if res.get("lists") != "AttributeError":
        ctx.problem("correspondence", "Grid(list, list) expected to raise AttributeError, got %s" % res.get("lists"))
        ctx.corr["disagreements"] += 1
    ctx.corr["evaluations"] = n_eval
    ctx.corr["distinct_nontrivial"] = len(nontrivial)
    ctx.corr["histogram"] = hist
    ctx.corr["rule"] = ("every case = one Grid(vertices, elements) call (all 255+255 non-empty sub-complexes of the "
                        "octahedron and of the 2x2 screen, seeded random soups incl. non-manifold fans, duplicate triangles, "
                        "isolated vertices, several components, int64/int32/float32 inputs; malformed stream: repeated vertex, "
                        "out-of-range index, no elements) whose nine topology tables or exception class are compared with "
                        "the model evaluated in Coq; plus elements_adjacent on all ordered pairs, per-element geometry "
                        "(exact rationals, sqrt-free), refine / barycentric_refinement / grid_from_segments / union outputs. "
                        "non-trivial = distinct element lists accepted by Grid with a non-empty edge- or vertex-adjacency table")
    ok = [c for c in topo if c["tables"] is not None]
    ctx.corr["samples"] = [{"elements": c["els"], "nv": c["nv"], "edge_adjacency": c["tables"]["edge_adjacency"][:4],
                            "edges": c["tables"]["edges"][:6]} for c in (ok[300:303] or ok[:3])] + \
                          [{"elements": c["els"], "nv": c["nv"], "exception": c["exc"]} for c in topo if c["exc"]][:3]


def json_key(c):
    return str(c["els"]) + "/" + str(c["nv"])


def search(ctx, strength):
    res = getattr(ctx, "impl", None)
    if res is not None:   # failing inputs of the run that fed the correspondence
        ctx.search_info["evaluations"] = res["search_evals"]
        for f in res["failures"]:
            ctx.failure(f["signature"], f["what"], f["data"])
    _recheck(ctx, strength)
    if res is None or (strength == "thorough" and ctx.tier != "thorough" and not ctx.failures):
        res = ctx.run_impl("c11_impl.py", {"strength": strength, "parts": ["topo", "search"]}, timeout=3000)
        if res is None:
            return
        ctx.search_info["evaluations"] += res["search_evals"]
        for f in res["failures"]:
            ctx.failure(f["signature"], f["what"], f["data"])


def _recheck(ctx, strength):
    # a correspondence disagreement on an accepted grid is itself a failing input of the implementation when the
    # numpy relations (same definitions as the theorems) fail on it: rerun the relations on those grids
    bad = getattr(ctx, "disagree", [])
    rc = getattr(ctx, "recheck", None)
    if bad or rc:
        payload = {"strength": strength, "parts": ["recheck"],
                   "grids": [{"els": c["els"], "nv": c["nv"]} for c in bad[:20]]}
        if rc:
            payload.update({k: v[:10] for k, v in rc.items()})
        r2 = ctx.run_impl("c11_impl.py", payload, timeout=1200)
        if r2:
            ctx.search_info["evaluations"] += r2["search_evals"]
            for f in r2["failures"]:
                ctx.failure(f["signature"], f["what"], f["data"])


def replay(ctx):
    regen(ctx)
    data = ctx.replay.get("input") or {}
    if "grids" in data and "mode" in data:
        r2 = ctx.run_impl("c11_impl.py", {"strength": "thorough", "parts": ["recheck"], "union_cases": [
            {k: data.get(k) for k in ("grids", "swapped", "mode", "given")}]}, timeout=1200)
        if r2:
            ctx.search_info["evaluations"] = r2["search_evals"]
            for f in r2["failures"]:
                ctx.failure(f["signature"], f["what"], f["data"])
    elif "els" in data:
        r2 = ctx.run_impl("c11_impl.py", {"strength": "thorough", "parts": ["recheck"],
                                         "grids": [{"els": data["els"], "nv": data.get("nv")}]}, timeout=1200)
        if r2:
            ctx.search_info["evaluations"] = r2["search_evals"]
            for f in r2["failures"]:
                ctx.failure(f["signature"], f["what"], f["data"])
    else:
        search(ctx, "thorough")


META = {
    "technique": "Coq proof over a hand-written executable Gallina model of bempp_cl/api/grid/grid.py (edge enumeration, "
                 "adjacency search incl. the ordering swap, neighbour/boundary tables, refinements, union, segment extraction; "
                 "sqrt-free geometry over Q), theorems for every element list; the model is tied to the source on every run by "
                 "an exhaustive correspondence sweep evaluated inside Coq",
    "level_text": "Theorems in coq/props/C11.v, quantified over ALL element lists (hypotheses are boolean well-formedness "
                  "predicates: distinct vertices per element, no two elements on the same three vertices): every undirected "
                  "edge listed once and sorted, element_edges indexes the element's local edges; edge/vertex adjacency tables "
                  "are exactly the ordered pairs sharing two/one vertices, each once, with exactly the shared local indices "
                  "(trial indices ascending); element_neighbors = elements sharing a vertex = elements_adjacent; "
                  "edge/vertex neighbours and boundary flags (flag <=> exactly one neighbour) mutually consistent; refinement, "
                  "barycentric refinement, union, segment extraction keep orientation, area vectors and domain indices; "
                  "geometry identities (Lagrange, right-handedness, JinvT^T J = I, centroid) over Q. The model is hand-written; "
                  "each run compares it with Grid(...) on all 510 sub-complexes of two base meshes, random soups and a "
                  "malformed stream.",
    "level_note": "Trusted: Coq kernel + vm_compute; the correspondence harness (canonicalisation by sorting where scipy leaves "
                  "the order unspecified); NumPy/SciPy/numba primitives. The sqrt/normalisation step of the geometric quantities "
                  "and floating-point rounding are compared numerically (1e-12), not proved. Duplicate triangles are outside "
                  "the hypotheses (witness theorem C11_duplicate_pair_dropped).",
    "design_ref": "DESIGN.md §7 C11",
}
