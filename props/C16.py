"""C16 Assembly results are independent of thread count and scheduling."""
import threading

from translators import footprints
from props import _spacecorr as S

ID = "C16"
PROP_FILE = "props/C16.v"
COQ_TARGETS = ["props/C16.vo", "theories/Space/Corr.vo"]
TRUSTED = [
    "translators/footprints.py (AST classification of every store inside every prange loop; fails closed; the index "
    "expressions it emits are re-proved equal to the canonical mixed-radix form by `ring` inside Coq)",
    "correspondence harness harness/c16_impl.py + theories/Space/Corr.v (colour maps, launch structure of "
    "dense_assembler recorded through a stand-in kernel; diff inside Coq)",
    "Numba/OpenMP runtime: a prange loop runs its iterations as threads of atomic loads/stores, arrays allocated in "
    "the loop body are thread-private, `a[i] += x` is not turned into a cross-thread reduction",
]
ASSUMPTIONS = [
    "That Numba implements prange as the thread model of Concurrency/Interleave.v is not proved (exercised by the "
    "thread-count runs only)",
    "Array-expression statements outside prange loops in parallel=True functions are parallelised by Numba itself and "
    "are assumed race free",
    "Floating-point: bitwise identity follows from executing the same operations in the same per-cell order; no "
    "rounding model is involved",
]
META = {
    "technique": "Coq proof: induction over the greedy colouring loop (all spaces), n-thread interleaving theorem for "
                 "arbitrary schedules and update functions, launch model of dense_assembler, generated footprint table "
                 "of every prange store with arithmetic disjointness proofs; correspondence of colour maps and launch "
                 "structure inside Coq; thread-count runs in fresh processes",
    "level_text": "Theorems in coq/props/C16.v: for every space whose zero-multiplier entries are alias closed the greedy "
                  "colouring model of FunctionSpace._compute_color_map is defined and proper on complete local2global "
                  "rows (zero-multiplier entries included) and its colour classes partition the support; any number of "
                  "threads with pairwise disjoint footprints end, under every schedule and for arbitrary (non-associative) "
                  "updates, in the memory of the sequential run; hence the dense assembler (one launch per colour) is "
                  "schedule independent; every store in every prange loop of numba_kernels.py and fmm/helpers.py "
                  "(table regenerated from the source on every run) is private, own-slot, own-column, own-csr-range or "
                  "row-of-dof, with disjointness proved for all parameter values. Alias closure is proved for DP0, DP1, "
                  "P1, RWG/SNC and localised spaces and checked (not proved) for barycentric/dual/BC spaces.",
    "level_note": "Trusted: Coq kernel; translators/footprints.py; the correspondence harness; Numba's implementation of "
                  "prange/privatisation and OpenMP (not modelled beyond atomic loads/stores). Alias closure of "
                  "barycentric, DUAL, BC, RBC spaces is evaluated per instance inside Coq, not proved.",
    "design_ref": "DESIGN.md §7 C16",
}

QUICK_THREADS = [1, 2, 16]
THOROUGH_THREADS = [1, 2, 7, 16]


def regen(ctx):
    from lib.vlib import TieBroken
    try:
        ctx.fp = footprints.footprints(ctx)
    except TieBroken as e:      # say WHICH store is not race free in the BROKEN line itself
        ctx.fp = None
        msg = str(e)
        what = "translator footprints failed closed"
        if "UNSOUND class" in msg:
            what = "footprints: a store inside a prange loop is in an UNSOUND class -- " + msg[:330]
        ctx.problem("tie", what, msg)
    except Exception:
        import traceback
        ctx.fp = None
        ctx.problem("tie", "translator footprints crashed", traceback.format_exc())


def _start_thread_runs(ctx, strength):
    """Fresh process per thread count, started in the background (JIT dominates: ~80 s each)."""
    # "escalated": a quick-tier run in which a tie/proof/correspondence broke -- all four thread counts, but without the
    # two slowest kernel families to JIT (hypersingular, Maxwell), so that the verdict arrives in minutes
    fams = {"quick": ["laplace_sl_only", "potential", "identity_p1", "fmm_near"],
            "escalated": ["laplace_sl", "identity", "potential", "fmm_near"]}.get(
        strength, ["laplace_sl", "identity", "potential", "fmm_near", "hypersingular", "maxwell"])
    counts = QUICK_THREADS if strength == "quick" else THOROUGH_THREADS
    res = {}

    def work(n):
        res[n] = ctx.run_impl("c16_threads.py", {"families": fams, "reps": 2 if strength == "quick" else 3},
                              timeout=3000 if strength == "quick" else 9000, threads=n)

    th = [threading.Thread(target=work, args=(n,)) for n in counts]
    for t in th:
        t.start()
    ctx.thread_runs = (th, res, counts, strength)


def correspond(ctx):
    strength = "thorough" if ctx.tier == "thorough" else "quick"
    _start_thread_runs(ctx, strength)
    res = ctx.run_impl("c16_impl.py", {"strength": strength, "parts": ["corr", "scan"]}, timeout=2400)
    if res is None:
        return
    ctx.impl = res
    cases, lcases = res["cases"], res["launch_cases"]
    bad = S.run_packed(ctx, [S.pack_ccase(c) for c in cases], "failing_ccases", "c16c", chunk=40)
    lbad = S.run_packed(ctx, [S.pack_lcase(c) for c in lcases], "failing_lcases", "c16l", chunk=20)
    ctx.corr["evaluations"] = len(cases) + len(lcases)
    ctx.corr["distinct_nontrivial"] = sum(1 for c in cases if len(set(c["colour"])) > 2) + \
        sum(1 for c in lcases if len(c["launches"]) > 1)
    ctx.corr["rule"] = ("colour map, colour-sorted element list and indexptr of real spaces (all kinds, localised and "
                        "barycentric versions, random supports, both flag values) against the colouring model run on "
                        "the same arrays, alias closure and properness evaluated in Coq; launch slices of "
                        "dense_assembler against the model; non-trivial = at least two colours / two launches")
    hist = {}
    for c in cases:
        k = c["desc"]["kind"] + c["desc"]["variant"]
        hist[k] = hist.get(k, 0) + 1
    hist["dense_assembler launch structures"] = len(lcases)
    if ctx.fp:
        for rel, s in ctx.fp["summary"].items():
            hist["prange loops in " + rel] = s["prange_loops"]
            hist["stores classified in " + rel] = s["stores"]
    ctx.corr["histogram"] = hist
    ctx.corr["samples"] = [{"space": cases[i]["desc"], "colour_map": cases[i]["colour"]} for i in (0, len(cases) // 2)] + \
        [{"dense_assembler": lcases[0]["desc"], "launches": lcases[0]["launches"][:3]}] if cases and lcases else []
    for i, fields in bad:
        ctx.corr["disagreements"] += 1
        ctx.problem("correspondence", "colouring model and implementation disagree (%s) on %s" % (
            ", ".join(fields), cases[i]["desc"]), {"impl_colour_map": cases[i]["colour"], "l2g": cases[i]["l2g"][:12]})
    for i, fields in lbad:
        ctx.corr["disagreements"] += 1
        ctx.problem("correspondence", "launch structure of dense_assembler differs from the model on %s" %
                    lcases[i]["desc"], lcases[i]["launches"][:4])
    for c in lcases:
        if not c["dofs_are_the_space_arrays"]:
            ctx.corr["disagreements"] += 1
            ctx.problem("correspondence", "dense_assembler does not pass the spaces' local2global arrays to the kernel",
                        c["desc"])
    if res["skipped"]:
        ctx.note("spaces that could not be built: %s" % res["skipped"][:4])


def search(ctx, strength):
    res = getattr(ctx, "impl", None)
    if res is None or (strength == "thorough" and ctx.tier != "thorough"):
        r2 = ctx.run_impl("c16_impl.py", {"strength": strength, "parts": ["scan"]}, timeout=2400)
        res = r2 or res
    if res is not None:
        ctx.search_info["evaluations"] += res["scan_evals"]
        for f in res["failures"]:
            ctx.failure(f["signature"], f["what"], f["data"])
    if strength == "thorough" and ctx.tier != "thorough":
        strength = "escalated"
    tr = getattr(ctx, "thread_runs", None)
    if tr is None or tr[3] != strength:
        if tr is not None:
            for t in tr[0]:
                t.join()
        _start_thread_runs(ctx, strength)
        tr = ctx.thread_runs
    th, runs, counts, _ = tr
    for t in th:
        t.join()
    ref = None
    summary = {}
    for n in counts:
        r = runs.get(n)
        if r is None:
            continue
        ctx.search_info["evaluations"] += sum(len(v) for v in r["hashes"].values())
        summary[n] = r.get("seconds")
        for name, hs in r["hashes"].items():
            if len(set(hs)) != 1:
                ctx.failure("C16:not-repeatable:" + name.split("(")[0],
                            "%s assembled twice in one process with %d threads gives different bytes" % (name, n),
                            {"operator": name, "threads": n, "hashes": hs})
        # (b) built under one thread count, applied under another, inside this process
        for name, v in (r.get("variants") or {}).items():
            ctx.search_info["evaluations"] += len(v)
            if len(set(v.values())) > 1:
                ctx.failure("C16:build-apply-thread-count:" + name.split("(")[0].strip(),
                            "%s: results differ bitwise inside one process (NUMBA_NUM_THREADS=%d) depending on the thread "
                            "count at build time / at application time (numba.set_num_threads)" % (name, n),
                            {"operator": name, "process_threads": n, "hash_by_build_and_apply_thread_count": v,
                             "replay": "harness/c16_threads.py families containing this operator, NUMBA_NUM_THREADS=%d" % n})
        if ref is None:
            ref = (n, r["hashes"])
            continue
        for name, hs in r["hashes"].items():
            if ref[1].get(name, [None])[0] != hs[0]:
                ctx.failure("C16:thread-count-dependent:" + name.split("(")[0],
                            "%s differs bitwise between NUMBA_NUM_THREADS=%d and %d" % (name, ref[0], n),
                            {"operator": name, "threads": [ref[0], n], "hashes": [ref[1].get(name), hs]})
    ctx.search_info["notes"].append({"thread_counts": [n for n in counts if runs.get(n)], "seconds_per_operator": summary,
                                     "colour_conflict_scan_spaces": res["scan_evals"] if res else 0})


def replay(ctx):
    regen(ctx)
    search(ctx, "thorough")
