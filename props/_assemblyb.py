"""Driver-side helpers shared by the AssemblyB property modules (C06, C07, C17, C02): formatting of the harness'
exact-rational dumps as Coq terms over the complex-rational carrier of coq/theories/AssemblyB/Corr.v, and parallel
evaluation of cases files.  Python stdlib only."""
import re
from concurrent.futures import ThreadPoolExecutor

HEADER = "\n".join([
    "From Coq Require Import List Arith ZArith.",
    "From Bignums Require Import BigZ BigQ.",
    "From BV Require Import AssemblyB.Defs AssemblyB.Model AssemblyB.Corr.",
    "Import ListNotations.", ""])


def q(p):
    n, d = p
    return "(%s # %d)%%bigQ" % (n if n >= 0 else "(%d)" % n, d)


def cr(p):           # real rational -> CQ
    return "(%s, 0%%bigQ)" % q(p)


def cc(p):           # [re, im] -> CQ
    return "(%s, %s)" % (q(p[0]), q(p[1]))


def lst(xs):
    return "[" + "; ".join(xs) + "]"


def v3r(v):
    return "(%s, %s, %s)" % tuple(cr(x) for x in v)


def v3c(v):
    return "(%s, %s, %s)" % tuple(cc(x) for x in v)


def nat(n):
    return "%d%%nat" % n


def geom(g):
    return "(mk_geom cq0 %s %s %s %s %s %s %s)" % (
        lst(v3r(c) for c in g["corner"]),
        lst("(%s, %s)" % (v3r(j[0]), v3r(j[1])) for j in g["jac"]),
        lst(v3r(c) for c in g["normal"]),
        lst(cr(x) for x in g["intel"]),
        lst("(%s, %s)" % (v3r(j[0]), v3r(j[1])) for j in g["jit"]),
        lst(lst(cr(x) for x in r) for r in g["elen"]),
        lst("(%s, %s, %s)" % tuple(nat(x) for x in v) for v in g["verts"]))


def space(s, kind=None):
    return "(mk_space CQops %s %s %s %s %s)" % (
        nat(s["nshape"]), lst(lst(nat(x) for x in r) for r in s["l2g"]),
        lst(lst(cr(x) for x in r) for r in s["mult"]), lst(cr(x) for x in s["nmult"]),
        nat(s["kind"] if kind is None else kind))


def quad(qd):
    return lst("(%s, %s, %s)" % (cr(p[0]), cr(p[1]), cr(p[2])) for p in qd)


def surr(s):
    def m(M):
        return "(%s, %s, %s)" % tuple(v3c(r) for r in M)
    return "(mk_surr %s %s %s %s %s %s %s %s)" % (cc(s["c0"]), v3c(s["ux"]), v3c(s["uy"]), m(s["M"]), m(s["N"]),
                                                  v3c(s["p"]), v3c(s["r"]), v3c(s["d"]))


def pairs(ps):
    def pt(x):
        return "((%s, %s), (%s, %s), %s)" % (cr(x[0][0]), cr(x[0][1]), cr(x[1][0]), cr(x[1][1]), cr(x[2]))
    return lst("(%s, %s, %s)" % (nat(p[0]), nat(p[1]), lst(pt(x) for x in p[2])) for p in ps)


def nats(xs):
    return lst(nat(x) for x in xs)


def clist(xs):
    return lst(cc(x) for x in xs)


def tol_of(scale, rel=1e-11):
    """absolute tolerance = rel * scale (scale = max |entry| measured on the implementation), as a BigQ literal."""
    from fractions import Fraction
    s = Fraction(scale[0], scale[1])
    t = s * Fraction(rel).limit_denominator(10 ** 15)
    if t == 0:
        t = Fraction(1, 10 ** 30)
    return q([t.numerator, t.denominator])


def parse_nat_lists(out):
    """all '= [..] : list nat' results of a coqc run, in order."""
    res = []
    for blk in re.findall(r'=\s*(\[[^\]]*\])\s*:\s*list nat', out.replace("\n", " ")):
        res.append([int(x) for x in re.findall(r'\d+', blk)])
    return res


def parse_nats(out):
    return [int(x) for x in re.findall(r'=\s*(\d+)(?:%nat)?\s*:\s*nat', out.replace("\n", " "))]


def eval_many(ctx, named_bodies, workers=6, timeout=900):
    """Evaluate several cases files concurrently; returns {name: stdout or None}."""
    with ThreadPoolExecutor(max_workers=workers) as ex:
        futs = {n: ex.submit(ctx.coq_eval, n, b, timeout) for n, b in named_bodies}
        return {n: f.result() for n, f in futs.items()}
