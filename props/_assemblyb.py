"""Driver-side helpers shared by the AssemblyB property modules (C06, C07, C17, C02): formatting of the harness'
exact-rational dumps as Coq terms over the complex-rational carrier of coq/theories/AssemblyB/Corr.v, and parallel
evaluation of cases files.  Python stdlib only."""
import re
from concurrent.futures import ThreadPoolExecutor

HEADER = "\n".join([
    "From Coq Require Import List Arith ZArith.",
    "From Bignums Require Import BigZ BigQ.",
    "From BV Require Import AssemblyB.Defs AssemblyB.Model AssemblyB.Corr.",
    "Import ListNotations.", ""])


def q(p):
    """[numerator, denominator] with the denominator a power of two (every double is) -> dyadic literal."""
    n, d = p
    k = d.bit_length() - 1
    if d != 1 << k:
        raise ValueError("not a dyadic rational: %r" % (p,))
    return "(mkd (%d) (%d))" % (n, -k)


def cr(p):           # real dyadic -> CQ
    return "(%s, dy0)" % q(p)


def cc(p):           # [re, im] -> CQ
    return "(%s, %s)" % (q(p[0]), q(p[1]))


def lst(xs):
    return "[" + "; ".join(xs) + "]"


def v3r(v):
    return "(%s, %s, %s)" % tuple(cr(x) for x in v)


def v3c(v):
    return "(%s, %s, %s)" % tuple(cc(x) for x in v)


def nat(n):
    return "%d%%nat" % n


def geom(g):
    return "(mk_geom cq0 %s %s %s %s %s %s %s)" % (
        lst(v3r(c) for c in g["corner"]),
        lst("(%s, %s)" % (v3r(j[0]), v3r(j[1])) for j in g["jac"]),
        lst(v3r(c) for c in g["normal"]),
        lst(cr(x) for x in g["intel"]),
        lst("(%s, %s)" % (v3r(j[0]), v3r(j[1])) for j in g["jit"]),
        lst(lst(cr(x) for x in r) for r in g["elen"]),
        lst("(%s, %s, %s)" % tuple(nat(x) for x in v) for v in g["verts"]))


def space(s, kind=None):
    return "(mk_space CQops %s %s %s %s %s)" % (
        nat(s["nshape"]), lst(lst(nat(x) for x in r) for r in s["l2g"]),
        lst(lst(cr(x) for x in r) for r in s["mult"]), lst(cr(x) for x in s["nmult"]),
        nat(s["kind"] if kind is None else kind))


def quad(qd):
    return lst("(%s, %s, %s)" % (cr(p[0]), cr(p[1]), cr(p[2])) for p in qd)


def surr(s):
    def m(M):
        return "(%s, %s, %s)" % tuple(v3c(r) for r in M)
    return "(mk_surr %s %s %s %s %s %s %s %s)" % (cc(s["c0"]), v3c(s["ux"]), v3c(s["uy"]), m(s["M"]), m(s["N"]),
                                                  v3c(s["p"]), v3c(s["r"]), v3c(s["d"]))


def pairs(ps):
    def pt(x):
        return "((%s, %s), (%s, %s), %s)" % (cr(x[0][0]), cr(x[0][1]), cr(x[1][0]), cr(x[1][1]), cr(x[2]))
    return lst("(%s, %s, %s)" % (nat(p[0]), nat(p[1]), lst(pt(x) for x in p[2])) for p in ps)


def nats(xs):
    return lst(nat(x) for x in xs)


def clist(xs):
    return lst(cc(x) for x in xs)


def tol_of(scale, rel=1e-11):
    """absolute tolerance = rel * scale (scale = max |entry| measured on the implementation), as a BigQ literal."""
    from fractions import Fraction
    s = Fraction(scale[0], scale[1])
    t = s * Fraction(rel).limit_denominator(10 ** 15)
    if t == 0:
        t = Fraction(1, 10 ** 30)
    m = int(t * (1 << 160))              # rounded down to a multiple of 2^-160
    return q([max(m, 1), 1 << 160])


def parse_nat_lists(out):
    """all '= [..] : list nat' results of a coqc run, in order."""
    res = []
    for blk in re.findall(r'=\s*(\[[^\]]*\])\s*:\s*list nat', out.replace("\n", " ")):
        res.append([int(x) for x in re.findall(r'\d+', blk)])
    return res


def parse_nats(out):
    return [int(x) for x in re.findall(r'=\s*(\d+)(?:%nat)?\s*:\s*nat', out.replace("\n", " "))]


def eval_many(ctx, named_bodies, workers=4, timeout=900):
    """Evaluate several cases (name, body) inside Coq; returns {name: stdout or None}.

    The cases are packed into at most `workers` files (one Coq Module per case; the Require header of the first
    case is used for the file) that are compiled concurrently - coqc start-up dominates for small cases.  Every
    case prints its results between two marker lines so that the output can be split again."""
    if not named_bodies:
        return {}
    nb = max(1, min(workers, len(named_bodies)))
    groups = [named_bodies[i::nb] for i in range(nb)]

    def split_header(body):
        lines = body.split("\n")
        k = 0
        while k < len(lines) and (lines[k].startswith("From ") or lines[k].startswith("Import ") or not lines[k].strip()):
            k += 1
        return "\n".join(lines[:k]), "\n".join(lines[k:])

    def run(gi, group):
        hdrs = []
        parts = []
        for n, b in group:
            h, rest = split_header(b)
            for l in h.split("\n"):
                if l.strip() and l not in hdrs:
                    hdrs.append(l)
            parts.append('Module M_%s.\nGoal True. idtac "@@BEGIN %s". Abort.\n%s\nGoal True. idtac "@@END %s". Abort.\nEnd M_%s.\n'
                         % (n, n, rest, n, n))
        # Require lines first, Import lines after
        hdrs.sort(key=lambda l: 0 if l.startswith("From ") else 1)
        name = "%s_bundle%d" % (group[0][0], gi)
        out = ctx.coq_eval(name, "\n".join(hdrs) + "\n" + "\n".join(parts), timeout)
        res = {}
        for n, _b in group:
            if out is None:
                res[n] = None
                continue
            m = re.search(r'@@BEGIN %s\b(.*?)@@END %s\b' % (re.escape(n), re.escape(n)), out, re.S)
            res[n] = m.group(1) if m else None
            if m is None:
                ctx.problem("correspondence", "no output for case %s in bundle %s" % (n, name), out[-1500:])
        return res

    allres = {}
    with ThreadPoolExecutor(max_workers=nb) as ex:
        for r in ex.map(lambda a: run(*a), list(enumerate(groups))):
            allres.update(r)
    return allres


POT_HEADER = HEADER.replace("AssemblyB.Model AssemblyB.Corr.", "AssemblyB.Model AssemblyB.PotModel AssemblyB.Corr.")


def trips(ts):
    return lst("(%s, %s, %s)" % (nat(t[0]), nat(t[1]), cr(t[2])) for t in ts)


def potential_body(c):
    """Cases file for one potential case of harness/bcommon.potential_case."""
    sp = dict(c["space"])
    sp["nmult"] = c["nmult"]
    lines = [
        "Definition g := %s." % geom(c["grid"]),
        "Definition s := %s." % space(sp),
        "Definition qd : list (@qpt CQ) := %s." % quad(c["quad"]),
        "Definition kr : @kernel CQ := surr_kernel CQops %s." % surr(c["surr"]),
        "Definition supp := %s." % nats(c["supp"]),
        "Definition dt : list (trip CQ) := %s." % trips(c["dt"]),
        "Definition pts : list (vec3 CQ) := %s." % lst(v3r(p) for p in c["points"]),
        "Definition coefs : list (list CQ) := %s." % lst(clist(cf) for cf in c["coefs"]),
        "Definition xfull (cf : list CQ) : nat -> CQ := %s." % (
            "full_coeffs_dt CQops s supp dt (fun n => nth n cf cq0)" if c["requires_dt"]
            else "full_coeffs CQops s supp (fun n => nth n cf cq0)"),
    ]
    if c["family"] == "scalar":
        lines.append("Definition model := Eval vm_compute in (flat_map (fun cf => map (fun pt => "
                     "scalar_potential CQops g s qd kr supp (xfull cf) pt) pts) coefs).")
    else:
        ik = "(cq_mul cq_i %s)" % cc(c["k"])
        fn = "mfield_potential" if c["family"] == "mfield" else "efield_potential"
        lines.append("Definition model := Eval vm_compute in (flat_map (fun cf => flat_map (fun pt => "
                     "let v := %s CQops g s qd kr supp cq_dist %s (xfull cf) pt in [vx v; vy v; vz v]) pts) coefs)."
                     % (fn, ik))
    lc = c.get("loc")
    if lc is not None and not c["requires_dt"]:
        lines.append("Definition loc_ok : bool := localised_ok s supp %s %s %s %s %s." % (
            nat(lc["nE"]), lst(lst(nat(x) for x in r) for r in lc["l2g"]),
            lst(lst(cr(x) for x in r) for r in lc["mult"]), lst(cr(x) for x in lc["nmult"]), nats(lc["supp"])))
    else:
        lines.append("Definition loc_ok : bool := true.")
    lines += ["Definition impl : list CQ := %s." % clist(c["impl"]),
              "Eval vm_compute in (cmp_list %s model impl ++ (if loc_ok then [] else [7777%%nat]))."
              % tol_of(c["scale"]),
              "Eval vm_compute in (count_nonzero model).", ""]
    return POT_HEADER + "\n".join(lines)


def judge_cases(ctx, cases, outs, prefix, what, per_case_evals):
    """Common bookkeeping: one cases file per case printing [failing indices] and the non-zero count."""
    for i, c in enumerate(cases):
        out = outs["%s%d" % (prefix, i)]
        ctx.corr["evaluations"] += per_case_evals(c)
        if out is None:
            ctx.corr["disagreements"] += 1
            continue
        fails = parse_nat_lists(out)
        nz = parse_nats(out)
        if len(fails) != 1 or len(nz) != 1:
            ctx.problem("correspondence", "could not parse model evaluation of case " + c["name"], out[-1500:])
            ctx.corr["disagreements"] += 1
            continue
        ctx.corr["distinct_nontrivial"] += nz[0]
        if fails[0]:
            ctx.corr["disagreements"] += len(fails[0])
            extra = " (7777 = the localised space does not inherit support / normal multipliers / numbering)" \
                if 7777 in fails[0] else ""
            ctx.problem("correspondence", "%s: bempp-cl differs from the model on %s at output positions %s%s"
                        % (what, c["name"], fails[0][:8], extra))


# ---- overlap the (quick) failing-input search with the correspondence -------------------------------------
import threading

THREADS = 4     # the harnesses run Python bodies; idle OpenMP threads only spin on a loaded machine


def start_search(ctx, script, payload, timeout=3000):
    """Start the quick-strength search harness in the background (it is a separate OS process); `finish_search`
    returns its result.  Only wall time changes: the search is always run and always judged."""
    box = {}

    def work():
        box["res"] = ctx.run_impl(script, payload, timeout=timeout, threads=THREADS)
    t = threading.Thread(target=work, daemon=True)
    t.start()
    ctx._bg_search = (t, box, dict(payload))


def finish_search(ctx, script, payload, timeout=3000):
    bg = getattr(ctx, "_bg_search", None)
    if bg is not None:
        t, box, started = bg
        t.join()
        ctx._bg_search = None
        if started == payload and box.get("res") is not None:
            return box["res"]
    return ctx.run_impl(script, payload, timeout=timeout, threads=THREADS)


def report_search(ctx, res):
    if res is None:
        return
    ctx.search_info["evaluations"] = res.get("evaluations", 0)
    ctx.search_info["notes"].append({"worst": res.get("worst", {}), "wall_s": round(res.get("wall", 0), 1)})
    for f in res.get("failures", []):
        ctx.failure(f["signature"], f["what"], f["data"])
