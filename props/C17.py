"""C17 FMM-mode operators equal dense-mode ones given an exact far-field evaluator."""
from props import _assemblyb as ab
from translators import fmm_indexing

ID = "C17"
PROP_FILE = "props/C17.v"
COQ_TARGETS = ["props/C17.vo", "theories/AssemblyB/Corr.vo", "gen/FmmIndexing.vo"]
TRUSTED = [
    "hand model coq/theories/AssemblyB/FmmModel.v of the FMM glue (map_space_to_points, curl/RWG/div transforms, "
    "ExafmmInterface.evaluate with near-field correction, the evaluate_* closures), tie H: corresponded on every run "
    "against the real glue of bempp-cl running with the exafmm stand-in (harness/stubs/exafmm), "
    "fmm.dense_evaluation=True, the library's evaluator / near-field code executing as Python bodies on a surrogate "
    "4-component polynomial kernel (harness/c17_impl.py, bcommon.py); exact model evaluation in Coq, 1e-11*max",
    "translators/fmm_indexing.py (tie T, ast, fails closed): which point-slot / storage indexing the current "
    "fmm_assembler.py and space.py use is regenerated into coq/gen/FmmIndexing.v (current_version) and selects the "
    "version of the model the correspondence evaluates; the theorems are stated for every version",
    "the exact evaluator contract: the far-field backend returns sum_s K_c(x_t,y_s) q_s for the same 4-component "
    "kernel as the near-field correction (true for dense_interaction_evaluator; only approximately for exafmm)",
    "element_neighbors(e) = {f : elements_adjacent(e,f)} is a hypothesis of the glue theorems (grid topology: C11); "
    "the correspondence feeds the library's element_neighbors lists to the model",
    "point-cloud vectors are modelled as functions of (element slot, rule point); the flattening npts*slot+q is "
    "C07_point_cloud_order",
]
ASSUMPTIONS = [
    "barycentric (dof_transformation != identity) spaces are covered by the search only",
    "the reference vectors shipped under /repo/test are an implementation-level regression (search only, if loadable)",
]
SRC = ["bempp_cl/api/fmm/fmm_assembler.py", "bempp_cl/api/fmm/exafmm.py", "bempp_cl/api/fmm/helpers.py",
       "bempp_cl/api/space/space.py", "bempp_cl/api/assembly/assembler.py", "bempp_cl/core/singular_assembler.py"]


def regen(ctx):
    for s in SRC:
        ctx.src(s)
    ctx.fmm_version = ctx.translate(fmm_indexing.fmm_indexing)


HDR = ab.HEADER.replace("AssemblyB.Model AssemblyB.Corr.", "AssemblyB.Model AssemblyB.FmmModel AssemblyB.Corr.").replace(
    "Import ListNotations.", "From BVgen Require Import FmmIndexing.\nImport ListNotations.")


def _g4(c):
    return ["Definition g4l : list (surr CQ) := %s." % ab.lst(ab.surr(s) for s in c["g4"]),
            "Definition G4 : vec3 CQ -> vec3 CQ -> nat -> CQ := fun x y c => "
            "surr_kernel CQops (nth c g4l (mk_surr cq0 (zv cq0) (zv cq0) (zv cq0, zv cq0, zv cq0) "
            "(zv cq0, zv cq0, zv cq0) (zv cq0) (zv cq0) (zv cq0))) x y (zv cq0) (zv cq0)."]


def boundary_body(c):
    nr, nc = c["shape"]
    op = c["op"]
    common = "CQops current_version G4 gt gs st ss Et Es %s qd nb Sing" % ab.nat(c["nEs"])
    opt = True
    if op == "sl":
        glue = "glue_single_layer %s" % common
    elif op == "dl":
        glue = "glue_double_layer %s" % common
    elif op == "adl":
        glue = "glue_adjoint_double_layer %s" % common
    elif op == "hyp":
        glue = ("glue_laplace_hypersingular %s" % common) if c["k"] is None else \
            ("glue_helmholtz_hypersingular %s %s" % (common, ab.cc(c["k"])))
    elif op == "hyp_mod":
        glue = "glue_modhelm_hypersingular %s %s" % (common, ab.cc(c["k"]))
    else:
        opt = False
        ik = "(cq_mul cq_i %s)" % ab.cc(c["k"])
        glue = ("glue_efield %s (cq_opp %s) %s" % (common, ik, ik)) if op == "efield" else ("glue_mfield %s" % common)
    sing = c.get("sing") or []
    lines = [
        "Definition gt := %s." % ab.geom(c["gt"]),
        "Definition gs := %s." % ab.geom(c["gs"]),
        "Definition st := %s." % ab.space(c["test"]),
        "Definition ss := %s." % ab.space(c["trial"]),
        "Definition qd : list (@qpt CQ) := %s." % ab.quad(c["quad"]),
    ] + _g4(c) + [
        "Definition nbl : list (list nat) := %s." % ab.lst(ab.nats(n) for n in c["nbrs"]),
        "Definition nb : nat -> list nat := fun e => nth e nbl [].",
        "Definition Sing : list (trip CQ) := %s." % ab.lst("(%s, %s, %s)" % (ab.nat(t[0]), ab.nat(t[1]), ab.cc(t[2]))
                                                          for t in sing),
        "Definition Et := %s." % ab.nats(c["test"]["support"]),
        "Definition Es := %s." % ab.nats(c["trial"]["support"]),
    ]
    if opt:
        lines.append("Definition col (J : nat) : option (nat -> CQ) := %s (unitv CQops J)." % glue)
        lines.append("Definition raised : bool := match col 0%nat with None => true | Some _ => false end.")
        lines.append("Definition ent (I J : nat) : CQ := match col J with Some f => f I | None => cq0 end.")
    else:
        lines.append("Definition raised : bool := false.")
        lines.append("Definition ent (I J : nat) : CQ := %s (unitv CQops J) I." % glue)
    if c["impl"] is None:
        lines += ["Eval vm_compute in (if raised then @nil nat else [0%nat]).", "Eval vm_compute in 0%nat.", ""]
    else:
        lines += [
            "Definition model := Eval vm_compute in (flat_map (fun I => map (fun J => ent I J) (seq 0 %d)) (seq 0 %d))."
            % (nc, nr),
            "Definition impl : list CQ := %s." % ab.clist(c["impl"]),
            "Eval vm_compute in (if raised then [9998%%nat] else cmp_list %s model impl)." % ab.tol_of(c["scale"]),
            "Eval vm_compute in (count_nonzero model).", ""]
    return HDR + "\n".join(lines)


def potential_body(c):
    op = c["op"]
    common = "CQops current_version G4 gs ss Es %s qd" % ab.nat(c["nEs"])
    lines = [
        "Definition gs := %s." % ab.geom(c["gs"]),
        "Definition ss := %s." % ab.space(c["trial"]),
        "Definition qd : list (@qpt CQ) := %s." % ab.quad(c["quad"]),
    ] + _g4(c) + [
        "Definition Es := %s." % ab.nats(c["trial"]["support"]),
        "Definition pts : list (vec3 CQ) := %s." % ab.lst(ab.v3r(p) for p in c["points"]),
        "Definition coefs : list (list CQ) := %s." % ab.lst(ab.clist(cf) for cf in c["coefs"]),
        "Definition xf (cf : list CQ) : nat -> CQ := fun n => nth n cf cq0.",
    ]
    if op in ("psl", "pdl"):
        fn = "glue_pot_single_layer" if op == "psl" else "glue_pot_double_layer"
        lines.append("Definition raised : bool := match %s %s (xf []) with None => true | Some _ => false end." % (fn, common))
        lines.append("Definition val (cf : list CQ) (pt : vec3 CQ) : list CQ := match %s %s (xf cf) with Some f => [f pt] "
                     "| None => [cq0] end." % (fn, common))
    else:
        ik = "(cq_mul cq_i %s)" % ab.cc(c["k"])
        call = ("glue_pot_efield %s %s" % (common, ik)) if op == "pefield" else ("glue_pot_mfield %s" % common)
        lines.append("Definition raised : bool := false.")
        lines.append("Definition val (cf : list CQ) (pt : vec3 CQ) : list CQ := let v := %s (xf cf) pt in "
                     "[vx v; vy v; vz v]." % call)
    if c["impl"] is None:
        lines += ["Eval vm_compute in (if raised then @nil nat else [0%nat]).", "Eval vm_compute in 0%nat.", ""]
    else:
        lines += [
            "Definition model := Eval vm_compute in (flat_map (fun cf => flat_map (fun pt => val cf pt) pts) coefs).",
            "Definition impl : list CQ := %s." % ab.clist(c["impl"]),
            "Eval vm_compute in (if raised then [9998%%nat] else cmp_list %s model impl)." % ab.tol_of(c["scale"]),
            "Eval vm_compute in (count_nonzero model).", ""]
    return HDR + "\n".join(lines)


def correspond(ctx):
    strength = "thorough" if ctx.tier == "thorough" else "quick"
    ab.start_search(ctx, "c17_impl.py", {"mode": "search", "strength": strength, "seed": ctx.seed})
    res = ctx.run_impl("c17_impl.py", {"mode": "corr", "strength": strength, "seed": ctx.seed}, timeout=1500, threads=ab.THREADS)
    if res is None:
        return
    bodies = [("c17b%d" % i, boundary_body(c)) for i, c in enumerate(res["boundary"])] + \
             [("c17p%d" % i, potential_body(c)) for i, c in enumerate(res["potential"])]
    outs = ab.eval_many(ctx, bodies)
    ab.judge_cases(ctx, res["boundary"], outs, "c17b", "FMM-glue boundary operator",
                   lambda c: 1 if c["impl"] is None else len(c["impl"]))
    ab.judge_cases(ctx, res["potential"], outs, "c17p", "FMM-glue potential operator",
                   lambda c: 1 if c["impl"] is None else len(c["impl"]))
    ctx.corr["histogram"] = {}
    raised = [c["name"] + ": " + c["error"] for c in res["boundary"] + res["potential"] if c["error"]]
    ctx.corr["histogram"] = {"source_indexing_version": getattr(ctx, "fmm_version", None),
                             "boundary_cases": [c["name"] for c in res["boundary"]],
                             "potential_cases": [c["name"] for c in res["potential"]],
                             "cases_where_the_implementation_raised (model must return None)": raised,
                             "harness_wall_s": round(res["wall"], 1)}
    ctx.corr["samples"] = [{"case": c["name"], "shape": c.get("shape"), "error": c["error"],
                            "first_impl_entry": None if c["impl"] is None else c["impl"][0]}
                           for c in (res["boundary"][:2] + res["boundary"][6:8] + res["potential"][:1])]
    ctx.corr["rule"] = ("one evaluation = one entry of the matrix of an FMM-mode boundary operator (closure applied to "
                        "unit vectors) or one component of an FMM-mode potential at one point, produced by the real glue "
                        "with the stand-in backend and a surrogate point kernel, compared with the exact model value; "
                        "for inputs on which the implementation raises, the single evaluation is 'model returns None'; "
                        "non-trivial = model value not exactly zero")


def search(ctx, strength):
    if strength == "thorough" and ctx.tier != "thorough":
        strength = "escalated"      # something broke in a quick run: all thorough configurations, Python bodies only
    res = ab.finish_search(ctx, "c17_impl.py", {"mode": "search", "strength": strength, "seed": ctx.seed})
    ab.report_search(ctx, res)


def replay(ctx):
    regen(ctx)
    search(ctx, "thorough")


META = {
    "technique": "Coq proof over a hand model of the FMM glue (ring, geometry, spaces, rule, point kernel, neighbour "
                 "lists, singular part universally quantified) + correspondence of the model with the real glue "
                 "(exafmm stand-in, exact evaluator, surrogate kernels; exact rational diff inside Coq)",
    "level_text": "Theorems in coq/props/C17.v about the modelled glue: for supports that are a prefix of the element "
                  "list the single-layer / double-layer / adjoint glue target_map'(E-N)source_map + S equals the dense "
                  "model, and the hypersingular and Maxwell glue reproduce the C06 decompositions; "
                  "C17_point_map_refuted: for a support that is not a prefix the modelled map_space_to_points raises "
                  "and the modelled Maxwell glue differs from the dense model (witness), matching the implementation.",
    "level_note": "Trusted: Coq kernel; the hand model (tied by correspondence, 1e-11); the exact-evaluator contract; "
                  "element_neighbors = adjacency (C11). Not covered by theorems: barycentric spaces, real exafmm "
                  "accuracy.",
    "design_ref": "DESIGN.md §7 C17",
}
