"""C07 Boundary operators between disjoint grids equal Galerkin-tested potentials."""
from props import _assemblyb as ab

ID = "C07"
PROP_FILE = "props/C07.v"
COQ_TARGETS = ["props/C07.vo", "theories/AssemblyB/Corr.vo"]
TRUSTED = [
    "hand models coq/theories/AssemblyB/Model.v (boundary assemblers) and PotModel.v (potential assemblers, "
    "map_to_full_grid, grid_to_points), tie H: corresponded on every run against the real dense two-grid and potential "
    "pipelines of bempp-cl executed on the Python bodies (.py_func) of the Numba assemblers with surrogate polynomial "
    "kernels (harness/c07_impl.py, bcommon.py); exact complex-rational model evaluation in Coq, tolerance 1e-11*max",
    "Numba compilation of the same function bodies and IEEE rounding are not modelled",
    "the hypothesis 'kernel does not depend on the test normal' of C07_two_grid_equals_tested_potential holds for the "
    "single- and double-layer Green's functions by inspection of numba_kernels.py:176-709 (kernel translator: C05/C20)",
]
ASSUMPTIONS = [
    "Electric field: equality of the weak div-div boundary form and the analytic-gradient potential kernel is "
    "integration by parts on both surfaces (needs conforming test functions without boundary flux) - analytic, not "
    "proved; exercised as convergence under order refinement on a closed test grid",
    "object identity of Grid decides grids_identical (two equal-content grids are treated as disjoint); touching "
    "copies get no singular treatment - outside the property ('non-touching')",
]
SRC = ["bempp_cl/core/numba_kernels.py", "bempp_cl/core/dense_assembler.py", "bempp_cl/core/numba_assemblers.py",
       "bempp_cl/core/dense_potential_assembler.py", "bempp_cl/api/grid/grid.py", "bempp_cl/api/space/space.py",
       "bempp_cl/api/assembly/potential_operator.py", "bempp_cl/api/operators/potential/laplace.py",
       "bempp_cl/api/operators/potential/helmholtz.py", "bempp_cl/api/operators/potential/maxwell.py"]


def regen(ctx):
    for s in SRC:
        ctx.src(s)


def two_body(c):
    nr, nc = c["shape"]
    common = "CQops gt gs st ss qd kr false"
    op = c["op"]
    if op in ("slp", "dlp", "adlp"):
        model = "scalar_regular %s Et Es" % common
    else:
        kc = ab.cc(c["k"])
        ik = "(cq_mul cq_i %s)" % kc
        if op == "hyp":
            model = "helm_hyp_regular %s %s Et Es" % (common, kc)
        elif op == "mfield":
            model = "mfield_regular %s cq_dist %s Et Es" % (common, ik)
        else:
            model = "efield_regular %s (cq_opp %s) %s Et Es" % (common, ik, ik)
    return ab.HEADER + "\n".join([
        "Definition gt := %s." % ab.geom(c["gt"]),
        "Definition gs := %s." % ab.geom(c["gs"]),
        "Definition st := %s." % ab.space(c["test"]),
        "Definition ss := %s." % ab.space(c["trial"]),
        "Definition qd : list (@qpt CQ) := %s." % ab.quad(c["quad"]),
        "Definition kr : @kernel CQ := surr_kernel CQops %s." % ab.surr(c["surr"]),
        "Definition Et := %s." % ab.nats(c["Et"]),
        "Definition Es := %s." % ab.nats(c["Es"]),
        "Definition model := Eval vm_compute in (dense_entries CQops %d %d (%s))." % (nr, nc, model),
        "Definition impl : list CQ := %s." % ab.clist(c["impl"]),
        "Eval vm_compute in (cmp_list %s model impl)." % ab.tol_of(c["scale"]),
        "Eval vm_compute in (count_nonzero model).", ""])


def cloud_body(c):
    return ab.POT_HEADER + "\n".join([
        "Definition g := %s." % ab.geom(c["grid"]),
        "Definition qd : list (@qpt CQ) := %s." % ab.quad(c["quad"]),
        "Definition model := Eval vm_compute in (flat_map (fun v => [vx v; vy v; vz v]) "
        "(grid_to_points CQops g %d qd))." % c["n"],
        "Definition impl : list CQ := %s." % ab.clist(c["impl"]),
        "Eval vm_compute in (cmp_list %s model impl)." % ab.tol_of(c["scale"], 1e-14),
        "Eval vm_compute in (count_nonzero model).", ""])


def correspond(ctx):
    strength = "thorough" if ctx.tier == "thorough" else "quick"
    ab.start_search(ctx, "c07_impl.py", {"mode": "search", "strength": strength, "seed": ctx.seed})
    res = ctx.run_impl("c07_impl.py", {"mode": "corr", "strength": strength, "seed": ctx.seed}, timeout=1500, threads=ab.THREADS)
    if res is None:
        return
    bodies = [("c07two%d" % i, two_body(c)) for i, c in enumerate(res["two"])] + \
             [("c07pot%d" % i, ab.potential_body(c)) for i, c in enumerate(res["pots"])] + \
             [("c07cloud%d" % i, cloud_body(c)) for i, c in enumerate(res["clouds"])]
    outs = ab.eval_many(ctx, bodies)
    ab.judge_cases(ctx, res["two"], outs, "c07two", "two-grid dense matrix", lambda c: c["shape"][0] * c["shape"][1])
    ab.judge_cases(ctx, res["pots"], outs, "c07pot", "potential operator", lambda c: len(c["impl"]))
    ab.judge_cases(ctx, res["clouds"], outs, "c07cloud", "map_to_point_cloud", lambda c: len(c["impl"]))
    ctx.corr["histogram"] = {"two_grid_cases": [c["name"] for c in res["two"]],
                             "potential_cases": [c["name"] for c in res["pots"]],
                             "point_clouds": [c["name"] for c in res["clouds"]],
                             "harness_wall_s": round(res["wall"], 1)}
    ctx.corr["samples"] = [{"case": c["name"], "shape": c["shape"], "first_impl_entry": c["impl"][0]}
                           for c in res["two"][:2]] + \
                          [{"case": c["name"], "points": len(c["points"]), "first_impl_value": c["impl"][0]}
                           for c in res["pots"][:2]]
    ctx.corr["rule"] = ("one evaluation = one entry of a two-grid dense matrix, one component of a potential at one "
                        "point for one coefficient vector, or one coordinate of a point of map_to_point_cloud, all "
                        "produced by the real pipelines with surrogate kernels; compared with the exact model value; "
                        "non-trivial = model value is not exactly zero")


def search(ctx, strength):
    if strength == "thorough" and ctx.tier != "thorough":
        strength = "escalated"      # something broke in a quick run: all thorough configurations, Python bodies only
    res = ab.finish_search(ctx, "c07_impl.py", {"mode": "search", "strength": strength, "seed": ctx.seed})
    ab.report_search(ctx, res)


def replay(ctx):
    regen(ctx)
    search(ctx, "thorough")


META = {
    "technique": "Coq proof over hand models of the boundary and potential assemblers (kernel, rule, two geometries, "
                 "spaces, ring universally quantified) + correspondence of both models with the real pipelines run on "
                 "the assemblers' Python bodies with surrogate kernels (exact rational diff inside Coq)",
    "level_text": "Theorems in coq/props/C07.v: with grids_identical=false the modelled regular assembler integrates "
                  "every element pair and each matrix column equals the modelled potential of the trial basis function "
                  "evaluated at the test grid's quadrature points (enumerated as grid_to_points: npts*e+q, proved) and "
                  "integrated against the test functions, for single/double-layer-type kernels (no test-normal "
                  "dependence) and for the Maxwell magnetic field (dot with the RWG test function = SNC function "
                  "against potential x n); for the electric field only the vector-potential part is proved "
                  "(C07_efield_partial).",
    "level_note": "Trusted: Coq kernel; the two hand models (tied by correspondence, 1e-11); Numba compilation; IEEE "
                  "arithmetic. Not proved: electric-field equality (integration by parts, analytic) - exercised by "
                  "order refinement in the search.",
    "design_ref": "DESIGN.md §7 C07",
}
