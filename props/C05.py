"""C05 Helmholtz-family operators are consistent with Laplace and with each other."""
from concurrent.futures import ThreadPoolExecutor

from translators import dispatch, py_kernels

ID = "C05"
PROP_FILE = "props/C05.v"
COQ_TARGETS = ["props/C05.vo"]
TRUSTED = [
    "translators/py_kernels.py (ast symbolic execution of the Numba kernels and FMM point kernels, lane-generic, fails "
    "closed; self-tested each run against the functions' own source run by the interpreter) and translators/dispatch.py "
    "(shape match of the scalar operator factories, fails closed; corresponded each run with the real factories)",
    "theories/Kernels/DispatchModel.v: hand-written meaning of one factory call (guard, redirect, descriptor)",
    "float arithmetic of NumPy/Numba vs exact reals (kernel identities are proved over R; the search compares matrices "
    "at 1e-12..1e-13 relative)",
]
ASSUMPTIONS = [
    "the entrywise small-wavenumber matrix bounds are not proved (pointwise kernel expansions and the lift through the "
    "quadrature sum are missing); they are exercised by the search on assembled matrices for real, imaginary and complex k",
    "complex symmetry of V, W and K' = K^T: proved for the kernels (hence for the regular quadrature part with C04); "
    "the singular Duffy part is only measured by the search ('up to singular-quadrature error')",
    "hypersingular operators: the factor of the normal-product term (0, -k^2, +w^2) and the kernel used are translated and the "
    "family laws proved coefficient-wise; the decomposition of W into single-layer pieces is C06's",
]


def regen(ctx):
    ctx.nb = ctx.translate(py_kernels.numba_kernels)
    ctx.table = ctx.translate(dispatch.factories)
    ctx.hyp = ctx.translate(py_kernels.hypersingular_coefficients)


def _merge(ctx, res, into_corr):
    if res is None:
        return
    if "crash" in res:
        ctx.problem("harness", "c05_impl.py crashed", res["crash"])
    if into_corr:
        c = res["corr"]
        ctx.corr["evaluations"] += c["evaluations"]
        ctx.corr["distinct_nontrivial"] += c["nontrivial"]
        for k, v in c["hist"].items():
            ctx.corr["histogram"][k] = ctx.corr["histogram"].get(k, 0) + v
        ctx.corr["samples"] += c["samples"]
        for d in c["disagreements"]:
            ctx.corr["disagreements"] += 1
            ctx.problem("correspondence", d["what"], d["data"])
    ctx.search_info["evaluations"] += res["search"]["evaluations"]
    if res["search"]["worst"]:
        ctx.search_info["notes"].append({"worst": res["search"]["worst"]})
    for f in res["failures"]:
        ctx.failure(f["signature"], f["what"], f["data"])
    for n in res["notes"]:
        ctx.note(n)


def _jobs(ctx, strength):
    jobs = [{"job": "dispatch", "strength": strength, "numba": ctx.nb, "table": ctx.table},
            {"job": "boundary", "kinds": ["single_layer"], "strength": strength},
            {"job": "boundary", "kinds": ["double_layer"], "strength": strength},
            {"job": "potential", "kinds": ["single_layer", "double_layer"], "strength": strength},
            # hypersingular operators on P1/P1 (octahedron: almost all element pairs are singular pairs), every tier
            {"job": "boundary", "kinds": ["hypersingular"], "strength": strength}]
    if strength == "thorough":
        # adjoint double layer (and with it K' = K^T) and the hypersingular operator: thorough tier only -- every
        # process compiles its own Laplace / modified / Helmholtz assemblers (numba does not cache them)
        jobs.append({"job": "boundary", "kinds": ["adjoint_double_layer"], "strength": strength})
    if ctx.nb is None or ctx.table is None:
        ctx.note("translators failed: dispatch correspondence and kernel self-test skipped")
        jobs = jobs[1:]
    with ThreadPoolExecutor(max_workers=len(jobs)) as ex:
        return list(zip(jobs, ex.map(lambda j: ctx.run_impl("c05_impl.py", j, timeout=3000, threads=2), jobs)))


def _cross_checks(ctx, results):
    """K' = K^T up to singular-quadrature error: matrices come from two harness processes, compared here."""
    mats = {}
    for _j, r in results:
        if r:
            mats.update(r.get("mats", {}))
    groups = {}
    for key in mats:
        kind, g, pair, fam, o = key.split("|")
        if kind == "double_layer" and key.replace("double_layer", "adjoint_double_layer", 1) in mats:
            groups.setdefault((g, pair, fam), {})[int(o)] = key
    for (g, pair, fam), byorder in sorted(groups.items()):
        a = []
        for o in sorted(byorder):
            A = mats[byorder[o]]
            B = mats[byorder[o].replace("double_layer", "adjoint_double_layer", 1)]
            n = len(A)
            scale = max(abs(complex(*A[i][j])) for i in range(n) for j in range(n))
            a.append(max(abs(complex(*B[i][j]) - complex(*A[j][i])) for i in range(n) for j in range(n)) / scale)
        ctx.search_info["evaluations"] += 1
        ctx.search_info["notes"].append({"adl - dl^T, %s %s %s, singular orders %s" % (g, pair, fam, sorted(byorder)): a})
        ok = len(a) == 3 and a[1] <= 0.35 * a[0] + 1e-12 and a[2] <= 0.35 * a[1] + 1e-12 and a[2] <= 1e-4
        if not ok:
            ctx.failure("C05 symmetry: adjoint double layer != transpose of double layer up to singular quadrature",
                        "K' - K^T does not decay with the singular quadrature order",
                        {"case": "%s %s %s" % (g, pair, fam), "rel_diff_by_order": a})


def correspond(ctx):
    strength = "thorough" if ctx.tier == "thorough" else "quick"
    ctx.corr["rule"] = ("(a) every factory of the generated table called with k in {0, real, i w, complex, tiny real part} "
                        "(as python complex and float): outcome (ValueError / descriptor fields) vs the model of "
                        "DispatchModel.call; (b) translator self-test: each lane of each translated Numba kernel and each "
                        "slot of the FMM point kernels vs the function's source; non-trivial = descriptor returned / "
                        "value non-zero")
    # the search jobs run alongside the correspondence job (separate processes: numba compiles per kernel family)
    ctx.c05_strength = strength
    ctx.c05_results = _jobs(ctx, strength)
    for j, r in ctx.c05_results:
        if j["job"] == "dispatch":
            _merge(ctx, r, True)


def search(ctx, strength):
    results = getattr(ctx, "c05_results", None)
    if results is None or strength != getattr(ctx, "c05_strength", None):
        results = [jr for jr in _jobs(ctx, strength) if jr[0]["job"] != "dispatch"]
    else:
        results = [jr for jr in results if jr[0]["job"] != "dispatch"]
    _consume_search(ctx, results)


def _consume_search(ctx, results):
    for _j, r in results:
        _merge(ctx, r, False)
    _cross_checks(ctx, results)


def replay(ctx):
    """Re-run the (seeded, deterministic) implementation jobs that produced the recorded case: the quick set, or the
    thorough set when the replay was recorded by a thorough search."""
    regen(ctx)
    ctx.tier = "thorough" if (ctx.replay or {}).get("tier") == "thorough" or "adjoint" in str(ctx.replay) or \
        "DP0/P1" in str(ctx.replay) else "quick"
    correspond(ctx)
    search(ctx, "thorough" if ctx.tier == "thorough" else "quick")


META = {
    "technique": "Coq proof over the Numba kernels and the factory dispatch table regenerated from the source on every "
                 "run; table-driven kernel identities closed by one field-based tactic; dispatch theorem by computation "
                 "over the generated table; correspondence of the table with the real factories",
    "level_text": "Theorems in coq/props/C05.v: for sl/dl/adl, regular and singular kernels: helmholtz(k=0) = laplace, "
                  "helmholtz(k = i w) = modified_helmholtz(w) with zero imaginary part, helmholtz(-conj k) = conj, for all "
                  "x<>y, normals, w, complex k; K_sl symmetric and K_adl(x,y;n) = K_dl(y,x;n) for all three families; the "
                  "same family laws for the FMM point kernels (value and gradient); every boundary Helmholtz factory with "
                  "k = i w builds exactly the modified Helmholtz descriptor for w; potential factories: specification or "
                  "explicit ValueError witness (lead 9.1).  Matrix bounds for small k and symmetry of the singular "
                  "quadrature are exercised by the search only.",
    "level_note": "Trusted: Coq kernel, three standard real-number axioms, the two translators, DispatchModel.v, the "
                  "harness. Not proved: lift of the small-k bounds to matrix entries, Duffy-rule symmetry.",
    "design_ref": "DESIGN.md §7 C05",
}
