(* C09 -- Function spaces are conforming and their DOF maps are coherent.
   Only statements: each theorem is closed by [exact] of a lemma proved under theories/Space.
   grid_ok g (Space.GridOk): vertex_neighbors / edge_neighbors list exactly the elements containing the vertex /
   edge, neighbour lists have no repetitions, the three vertices of an element are distinct, indices are in range;
   it is evaluated (boolean checker, proved sound) on the tables of every grid the implementation builds in the
   correspondence.  support_in_range holds for every support computed by _process_segments. *)
From Coq Require Import ZArith List Bool Arith QArith.
From BV Require Import Space.DofMaps Space.SpaceBasics Space.DofMapsProofs Space.P1Proofs Space.RwgProofs
  Space.Corr Space.GridOk Space.C09Lemmas Space.Reference Space.RwgSpec.
Import ListNotations.
Open Scope nat_scope.

(* global2local is the inverse of local2global on non-zero multipliers (invert_local2global, any space) *)
Theorem C09_g2l_inverse : forall (s : space) (d e i : nat),
  In (e, i) (nth d (global2local s) []) <->
  d < ndofs s /\ e < sp_n s /\ i < sp_k s /\ l2g s e i = d /\ mult s e i <> 0%Z.
Proof. exact g2l_inverse. Qed.
Print Assumptions C09_g2l_inverse.

Theorem C09_g2l_shape : forall s : space,
  length (global2local s) = ndofs s /\ (forall e i, e < sp_n s -> i < sp_k s -> l2g s e i < ndofs s).
Proof. exact (fun s => conj (g2l_length s) (l2g_lt_ndofs s)). Qed.
Print Assumptions C09_g2l_shape.

Theorem C09_process_segments : forall g se segs sw sup nm,
  process_segments g se segs sw = Some (sup, nm) ->
  support_in_range g sup /\
  forall e, e < nelem g ->
    (sup e = true <-> match se, segs with
                     | Some l, None => In e l | None, Some l => In (dom g e) l
                     | None, None => True | Some _, Some _ => False end) /\
    nm e = (if memb (dom g e) sw then -1 else 1)%Z.
Proof. exact (fun g se segs sw sup nm H => conj (process_segments_in_range g se segs sw sup nm H)
                (fun e He => process_segments_spec g se segs sw sup nm e H He)). Qed.
Print Assumptions C09_process_segments.

(* DP0 / DP1: one dof per (element[, local index]); the dof of a support element is its rank in the support *)
Theorem C09_dp_dofs : forall g sup,
  (forall e, e < nelem g -> sup e = true ->
     l2g (dp0_space g sup) e 0 = rank sup e /\ mult (dp0_space g sup) e 0 = 1%Z) /\
  (forall e f, sup e = true -> sup f = true -> l2g (dp0_space g sup) e 0 = l2g (dp0_space g sup) f 0 -> e = f) /\
  (forall e f i j, sup e = true -> sup f = true -> i < 3 -> j < 3 ->
     l2g (dp1_space g sup) e i = l2g (dp1_space g sup) f j -> e = f /\ i = j).
Proof. exact (fun g sup => conj (dp0_dof_is_rank g sup) (conj (dp0_injective g sup) (dp1_injective g sup))). Qed.
Print Assumptions C09_dp_dofs.

(* P1: the selected vertices are exactly those the flags specify *)
Theorem C09_p1_selected_vertices : forall g sup incl trunc, grid_ok g -> support_in_range g sup ->
  forall v, pD (p1_loop1 g sup incl trunc) v = true <-> touched g sup v /\ sel g sup incl v = true.
Proof. exact c09_p1_selected. Qed.
Print Assumptions C09_p1_selected_vertices.

(* P1: same (dof, multiplier) at a shared vertex, or multiplier zero on both, for all four flag combinations *)
Theorem C09_p1_continuous : forall g sup incl trunc, grid_ok g -> support_in_range g sup ->
  forall x y k j, supp (p1_space g sup incl trunc) x = true -> supp (p1_space g sup incl trunc) y = true ->
  k < 3 -> j < 3 -> elems g x k = elems g y j ->
  mult (p1_space g sup incl trunc) x k = mult (p1_space g sup incl trunc) y j /\
  (mult (p1_space g sup incl trunc) x k <> 0%Z ->
   l2g (p1_space g sup incl trunc) x k = l2g (p1_space g sup incl trunc) y j).
Proof. exact c09_p1_continuous. Qed.
Print Assumptions C09_p1_continuous.

(* P1: dof of a vertex = its rank among the selected vertices; different vertices get different dofs *)
Theorem C09_p1_dof_is_rank : forall g sup incl trunc, grid_ok g -> support_in_range g sup ->
  forall x k, supp (p1_space g sup incl trunc) x = true -> mult (p1_space g sup incl trunc) x k <> 0%Z ->
  mult (p1_space g sup incl trunc) x k = 1%Z /\
  l2g (p1_space g sup incl trunc) x k = rank (pD (p1_loop1 g sup incl trunc)) (elems g x k) /\
  pD (p1_loop1 g sup incl trunc) (elems g x k) = true.
Proof. exact c09_p1_dof_is_rank. Qed.
Print Assumptions C09_p1_dof_is_rank.

Theorem C09_p1_dofs_injective : forall g sup incl trunc, grid_ok g -> support_in_range g sup ->
  forall x y k j, supp (p1_space g sup incl trunc) x = true -> supp (p1_space g sup incl trunc) y = true ->
  mult (p1_space g sup incl trunc) x k <> 0%Z -> mult (p1_space g sup incl trunc) y j <> 0%Z ->
  l2g (p1_space g sup incl trunc) x k = l2g (p1_space g sup incl trunc) y j -> elems g x k = elems g y j.
Proof. exact c09_p1_dofs_injective. Qed.
Print Assumptions C09_p1_dofs_injective.

(* partition of unity: where every vertex of a selected element is selected (always with include_boundary_dofs; on a
   closed grid taken as a whole) all three multipliers are 1; with C09_reference_p1 (sum of the three reference
   functions = 1) the P1 basis sums to one on that element.  DP0: the single function is the constant 1. *)
Theorem C09_partition_of_unity : forall g sup incl trunc, grid_ok g -> support_in_range g sup ->
  forall x, sup x = true -> (forall k, k < 3 -> sel g sup incl (elems g x k) = true) ->
  supp (p1_space g sup incl trunc) x = true /\ forall k, k < 3 -> mult (p1_space g sup incl trunc) x k = 1%Z.
Proof. exact c09_p1_full_multipliers. Qed.
Print Assumptions C09_partition_of_unity.

(* dof count = number of selected entities, for non-empty selections ... *)
Theorem C09_dof_count : forall g sup incl trunc, grid_ok g -> support_in_range g sup ->
  (1 <= p1_selected_count g sup incl trunc ->
     ndofs (p1_space g sup incl trunc) = p1_selected_count g sup incl trunc) /\
  (1 <= rwg_dof_count g sup incl trunc ->
     ndofs (rwg_space g sup incl trunc) = rwg_dof_count g sup incl trunc /\
     rwg_dof_count g sup incl trunc =
       length (filter (fun edge => negb (Z.eqb (rE (rwg_loop1 g sup incl trunc) edge) (-1))) (seq 0 (nedge g)))).
Proof. exact (fun g sup incl trunc Hg Hs => conj (c09_p1_dof_count g sup incl trunc Hg Hs)
                                                  (c09_rwg_dof_count g sup incl trunc Hg Hs)). Qed.
Print Assumptions C09_dof_count.

(* ... and refuted for empty ones: a selection without any dof still reports one global dof (phantom dof 0) *)
Theorem C09_dof_count_empty_refuted :
  (exists g sup incl trunc, p1_selected_count g sup incl trunc = 0 /\ ndofs (p1_space g sup incl trunc) = 1 /\
                            support_elements (p1_space g sup incl trunc) = []) /\
  (exists g sup incl trunc, rwg_dof_count g sup incl trunc = 0 /\ ndofs (rwg_space g sup incl trunc) = 1 /\
                            support_elements (rwg_space g sup incl trunc) = []).
Proof. exact (conj p1_dof_count_empty_refuted rwg_dof_count_empty_refuted). Qed.
Print Assumptions C09_dof_count_empty_refuted.

(* RWG / SNC (_compute_rwg0_space_data): every non-zero entry is a grid edge; its dof is the number of that edge *)
Theorem C09_rwg_dof_is_edge : forall g sup incl trunc, grid_ok g -> support_in_range g sup ->
  (forall x k, supp (rwg_space g sup incl trunc) x = true -> mult (rwg_space g sup incl trunc) x k <> 0%Z ->
     Z.of_nat (l2g (rwg_space g sup incl trunc) x k) = rE (rwg_loop1 g sup incl trunc) (eedges g x k) /\
     (0 <= rE (rwg_loop1 g sup incl trunc) (eedges g x k) < Z.of_nat (rwg_dof_count g sup incl trunc))%Z) /\
  (forall x y k j, supp (rwg_space g sup incl trunc) x = true -> supp (rwg_space g sup incl trunc) y = true ->
     mult (rwg_space g sup incl trunc) x k <> 0%Z -> mult (rwg_space g sup incl trunc) y j <> 0%Z ->
     l2g (rwg_space g sup incl trunc) x k = l2g (rwg_space g sup incl trunc) y j -> eedges g x k = eedges g y j) /\
  (forall x, supp (rwg_space g sup incl trunc) x = true ->
     exists k, k < 3 /\ rE (rwg_loop1 g sup incl trunc) (eedges g x k) <> (-1)%Z) /\
  (forall x k, supp (rwg_space g sup incl trunc) x = true -> k < 3 ->
     (0 <= rwg_dofmap g (rwg_loop1 g sup incl trunc) x k < Z.of_nat (rwg_dof_count g sup incl trunc))%Z).
Proof. exact (fun g sup incl trunc Hg Hs =>
  conj (c09_rwg_dof_is_edge g sup incl trunc Hg Hs) (conj (c09_rwg_dof_injective g sup incl trunc Hg Hs)
  (conj (c09_rwg_support_has_dof g sup incl trunc Hg Hs) (c09_rwg_no_wrap g sup incl trunc Hg Hs)))). Qed.
Print Assumptions C09_rwg_dof_is_edge.

(* the sign pattern on any grid: +1 when the element is alone on the edge, else +1 on the smallest index, -1 on the
   others; a lone element only when boundary dofs are included *)
Theorem C09_rwg_sign_pattern : forall g sup incl trunc, grid_ok g -> support_in_range g sup ->
  forall x k, supp (rwg_space g sup incl trunc) x = true -> k < 3 -> mult (rwg_space g sup incl trunc) x k <> 0%Z ->
  let fe := filter (rS (rwg_loop1 g sup incl trunc)) (enbrs g (eedges g x k)) in
  In x fe /\
  mult (rwg_space g sup incl trunc) x k =
    (if Nat.eqb (length fe) 1 then 1 else if Nat.eqb x (list_min fe) then 1 else -1)%Z /\
  (incl = false -> 2 <= length fe).
Proof. exact c09_rwg_sign_pattern. Qed.
Print Assumptions C09_rwg_sign_pattern.

(* on a manifold grid: one entry +1 (boundary dof, only with include_boundary_dofs) or two entries, +1 on the smaller
   element index and -1 on the other, on the local indices of the same grid edge, with the same dof *)
Theorem C09_rwg_normal_continuity : forall g sup incl trunc, grid_ok g -> support_in_range g sup -> manifold g ->
  forall x k, supp (rwg_space g sup incl trunc) x = true -> k < 3 -> mult (rwg_space g sup incl trunc) x k <> 0%Z ->
  let fe := filter (rS (rwg_loop1 g sup incl trunc)) (enbrs g (eedges g x k)) in
  (fe = [x] /\ mult (rwg_space g sup incl trunc) x k = 1%Z /\ incl = true) \/
  (exists y, y <> x /\ (fe = [x; y] \/ fe = [y; x]) /\ supp (rwg_space g sup incl trunc) y = true /\
     mult (rwg_space g sup incl trunc) x k = (if Nat.ltb x y then 1 else -1)%Z /\
     exists j, j < 3 /\ eedges g y j = eedges g x k /\
               mult (rwg_space g sup incl trunc) y j = (if Nat.ltb y x then 1 else -1)%Z /\
               l2g (rwg_space g sup incl trunc) y j = l2g (rwg_space g sup incl trunc) x k).
Proof. exact c09_rwg_two_or_one. Qed.
Print Assumptions C09_rwg_normal_continuity.

(* RWG/SNC on manifold grids: the edges that carry a dof are exactly those the flags specify on the selection the
   user asked for (two selected elements on the edge, or one and include_boundary_dofs), whatever the builder did
   to the support in between *)
Theorem C09_rwg_selected_edges : forall g sup incl trunc, grid_ok g -> support_in_range g sup -> manifold g ->
  forall edge, rE (rwg_loop1 g sup incl trunc) edge <> (-1)%Z <->
               (length (filter sup (enbrs g edge)) = 2 \/ (length (filter sup (enbrs g edge)) = 1 /\ incl = true)).
Proof. exact (fun g sup incl trunc Hg Hs Hm =>
  rwg_dof_iff_rule g sup incl trunc (ok_en g Hg) (ok_nodup g Hg) Hs Hm). Qed.
Print Assumptions C09_rwg_selected_edges.

(* zero-multiplier entries alias a non-zero entry of the same element (needed by C16) *)
Theorem C09_alias_closed : forall g sup incl trunc,
  alias_closed (p1_space g sup incl trunc) /\
  (grid_ok g -> support_in_range g sup -> alias_closed (rwg_space g sup incl trunc)) /\
  alias_closed (dp0_space g sup) /\ alias_closed (dp1_space g sup).
Proof. exact (fun g sup incl trunc => conj (p1_alias_closed g sup incl trunc)
  (conj (c09_rwg_alias_closed g sup incl trunc) (conj (dp0_alias_closed g sup) (dp1_alias_closed g sup)))). Qed.
Print Assumptions C09_alias_closed.

(* the hypotheses are satisfiable: they hold for the octahedron tables of the implementation *)
Theorem C09_hypotheses_satisfiable : grid_ok (grid_of octahedron_tab) /\ manifold (grid_of octahedron_tab).
Proof. exact octahedron_ok. Qed.
Print Assumptions C09_hypotheses_satisfiable.

(* reference element, over any field: P1 nodal, partition of unity, edge trace depends on the end values only *)
Theorem C09_reference_p1 :
  forall (K : Type) (k0 k1 : K) (kadd kmul ksub : K -> K -> K) (kopp : K -> K) (kdiv : K -> K -> K) (kinv : K -> K),
  Field_theory.field_theory k0 k1 kadd kmul ksub kopp kdiv kinv (@eq K) ->
  (forall i j, i < 3 -> j < 3 ->
     p1_ref K k1 ksub i (fst (ref_vertex K k0 k1 j)) (snd (ref_vertex K k0 k1 j)) = if Nat.eqb i j then k1 else k0) /\
  (forall x y, kadd (kadd (p1_ref K k1 ksub 0 x y) (p1_ref K k1 ksub 1 x y)) (p1_ref K k1 ksub 2 x y) = k1) /\
  (forall (c : nat -> K) a b t, a < 3 -> b < 3 -> a <> b ->
     let x := kadd (kmul (ksub k1 t) (fst (ref_vertex K k0 k1 a))) (kmul t (fst (ref_vertex K k0 k1 b))) in
     let y := kadd (kmul (ksub k1 t) (snd (ref_vertex K k0 k1 a))) (kmul t (snd (ref_vertex K k0 k1 b))) in
     kadd (kadd (kmul (c 0) (p1_ref K k1 ksub 0 x y)) (kmul (c 1) (p1_ref K k1 ksub 1 x y)))
          (kmul (c 2) (p1_ref K k1 ksub 2 x y)) = kadd (kmul (ksub k1 t) (c a)) (kmul t (c b))).
Proof. exact (fun K k0 k1 kadd kmul ksub kopp kdiv kinv Kf =>
  conj (p1_nodal K k0 k1 kadd kmul ksub kopp kdiv kinv Kf)
  (conj (p1_partition_of_unity K k0 k1 kadd kmul ksub kopp kdiv kinv Kf)
        (p1_edge_trace K k0 k1 kadd kmul ksub kopp kdiv kinv Kf))). Qed.
Print Assumptions C09_reference_p1.

(* mapped RWG function i on edge j of any non-degenerate triangle: normal component (outward unit co-normal) equals
   the local multiplier on its own edge and 0 on the two others; SNC: tangential component = normal multiplier times
   that.  l i and A are the edge lengths and the integration element of the source; no square root is needed. *)
Theorem C09_reference_traces :
  forall (K : Type) (k0 k1 : K) (kadd kmul ksub : K -> K -> K) (kopp : K -> K) (kdiv : K -> K -> K) (kinv : K -> K),
  Field_theory.field_theory k0 k1 kadd kmul ksub kopp kdiv kinv (@eq K) ->
  forall (p0 p1 p2 : vec K) (l : nat -> K) (A : K),
  kmul A A = dot K kadd kmul (nrm K kmul ksub p0 p1 p2) (nrm K kmul ksub p0 p1 p2) -> A <> k0 ->
  (forall i, i < 3 -> l i <> k0) ->
  forall (nm m : K) (i j : nat) (t : K), i < 3 -> j < 3 ->
  let u := edge_local K k0 k1 ksub j t in
  dot K kadd kmul (rwg_eval K k1 kadd kmul ksub kdiv p0 p1 p2 l A m i (fst u) (snd u))
                  (unit_conormal K k1 kmul ksub kdiv p0 p1 p2 l A j) = (if Nat.eqb i j then m else k0) /\
  dot K kadd kmul (snc_eval K k1 kadd kmul ksub kdiv p0 p1 p2 l A nm m i (fst u) (snd u))
                  (unit_tangent K k1 kmul ksub kdiv p0 p1 p2 l j) = (if Nat.eqb i j then kmul nm m else k0).
Proof. exact (fun K k0 k1 kadd kmul ksub kopp kdiv kinv Kf p0 p1 p2 l A HA HA0 Hl nm m i j t Hi Hj =>
  conj (rwg_normal_trace K k0 k1 kadd kmul ksub kopp kdiv kinv Kf p0 p1 p2 l A HA HA0 Hl m i j t Hi Hj)
       (snc_tangential_trace K k0 k1 kadd kmul ksub kopp kdiv kinv Kf p0 p1 p2 l A HA HA0 Hl nm m i j t Hi Hj)). Qed.
Print Assumptions C09_reference_traces.

(* across a shared edge the two one-sided components (each w.r.t. its own outward co-normal / counter-clockwise
   tangent) of a function with multipliers +m / -m cancel for RWG; for SNC they cancel iff the two elements carry the
   same normal multiplier ... *)
Theorem C09_snc_tangential_jump :
  forall (K : Type) (k0 k1 : K) (kadd kmul ksub : K -> K -> K) (kopp : K -> K) (kdiv : K -> K -> K) (kinv : K -> K),
  Field_theory.field_theory k0 k1 kadd kmul ksub kopp kdiv kinv (@eq K) ->
  forall nm1 nm2 m : K,
  kadd m (kopp m) = k0 /\
  kadd (kmul nm1 m) (kmul nm2 (kopp m)) = kmul (ksub nm1 nm2) m /\
  kadd (kmul nm1 m) (kmul nm1 (kopp m)) = k0.
Proof. exact (fun K k0 k1 kadd kmul ksub kopp kdiv kinv Kf nm1 nm2 m =>
  conj (rwg_normal_jump_cancels K k0 k1 kadd kmul ksub kopp kdiv kinv Kf m)
  (conj (snc_tangential_jump K k0 k1 kadd kmul ksub kopp kdiv kinv Kf nm1 nm2 m)
        (snc_tangential_continuous_same_orientation K k0 k1 kadd kmul ksub kopp kdiv kinv Kf nm1 m))). Qed.
Print Assumptions C09_snc_tangential_jump.

(* ... and with the normals of one side swapped (swapped_normals on one of two adjacent domains) they do not *)
Theorem C09_snc_swapped_interface_refuted :
  exists nm1 nm2 m : Q, ~ (nm1 * m + nm2 * (- m) == 0)%Q /\ (m + - m == 0)%Q.
Proof. exact snc_swapped_interface_refuted. Qed.
Print Assumptions C09_snc_swapped_interface_refuted.
