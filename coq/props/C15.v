(* C15 -- Linear solvers return solutions of the stated system in the right spaces.
   Only statements.  LU / IT / IC (BVgen.SolverGlue) are regenerated from bempp_cl/api/linalg/*.py; the operator
   algebra underneath is BVgen.OpClasses.  scipy.linalg.solve / lu_solve is the universally quantified oracle
   [solve] with the hypothesis W * solve(W, v) = v for invertible W.  Convergence of SciPy's gmres / cg to the
   requested tolerance and info = 0 are NOT modelled (trusted; exercised by the search). *)
From Coq Require Import List Arith Bool String.
From BV Require Import Algebra.Mat Algebra.OpLang Algebra.OpProofs Algebra.SolverLang Algebra.SolverProofs.
From BVgen Require Import OpClasses SolverGlue.
Import ListNotations.

(* lu(A, A*f) has the coefficients of f and lives in the domain of A, for every expression A whose matrix is
   invertible *)
Theorem C15_lu_recovers : forall (A : Type) (r0 r1 : A) (radd rmul rsub : A -> A -> A) (ropp : A -> A),
  ring_theory r0 r1 radd rmul rsub ropp eq -> forall (rinv : A -> A) (solve : M A -> M A -> M A),
  (forall W v : M A, invertible A r0 r1 radd rmul W -> rows v = rows W ->
     meq A (mmul A r0 radd rmul W (solve W v)) v /\ rows (solve W v) = cols W /\ cols (solve W v) = cols v) ->
  forall (dim : nat -> nat) (invmass mass : nat -> nat -> M A) (atoms : nat -> nat * nat * nat * M A),
  (forall i : nat, rows (snd (atoms i)) = dim (pick3 Dual (fst (atoms i))) /\
                   cols (snd (atoms i)) = dim (pick3 Dom (fst (atoms i)))) ->
  (forall r d : nat, rows (invmass r d) = dim r /\ cols (invmass r d) = dim d) ->
  forall (e : uexp A) (d q u : nat) (c : M A), type_of A atoms e = Some (d, q, u) ->
  invertible A r0 r1 radd rmul (den A r0 r1 radd rmul ropp invmass atoms e) -> rows c = dim d ->
  let f := {| g_space := d; g_dual := d; g_rep := Primal c |} in
  exists b g,
    bind (elab A r0 r1 ropp rinv BD boundary_classes e)
         (fun o => apply_op A r0 r1 radd rmul ropp rinv invmass mass atoms (bd_strong BD) BD o f) = Ok b /\
    bind (elab A r0 r1 ropp rinv BD boundary_classes e)
         (fun o => lu_single A r0 r1 radd rmul ropp rinv invmass mass atoms (bd_strong BD) solve LU o b) = Ok g /\
    g_space g = d /\ meq A (coefficients A r0 radd rmul invmass g) c.
Proof. exact lu_recovers. Qed.
Print Assumptions C15_lu_recovers.

(* weak form: the system handed to gmres / cg is (W, projections of b onto dual_to_range), result in the domain *)
Theorem C15_weak_system : forall (A : Type) (r0 r1 : A) (radd rmul : A -> A -> A) (ropp rinv : A -> A)
  (dim : nat -> nat) (invmass mass : nat -> nat -> M A) (atoms : nat -> nat * nat * nat * M A),
  (forall i : nat, rows (snd (atoms i)) = dim (pick3 Dual (fst (atoms i))) /\
                   cols (snd (atoms i)) = dim (pick3 Dom (fst (atoms i)))) ->
  (forall r d : nat, rows (invmass r d) = dim r /\ cols (invmass r d) = dim d) ->
  forall (e : uexp A) (d q u : nat) (b : gfun A), type_of A atoms e = Some (d, q, u) ->
  exists m, bind (elab A r0 r1 ropp rinv BD boundary_classes e)
                 (fun o => it_system A r0 r1 radd rmul ropp rinv invmass mass atoms (bd_strong BD) IT false o b) =
            Ok (m, proj_onto A r0 radd rmul invmass mass b u, d) /\
            meq A m (den A r0 r1 radd rmul ropp invmass atoms e).
Proof. exact weak_system. Qed.
Print Assumptions C15_weak_system.

(* strong form: ValueError unless b lives in the range; otherwise the system is (M^-1 W, coefficients of b) *)
Theorem C15_strong_form_system : forall (A : Type) (r0 r1 : A) (radd rmul : A -> A -> A) (ropp rinv : A -> A)
  (dim : nat -> nat) (invmass mass : nat -> nat -> M A) (atoms : nat -> nat * nat * nat * M A),
  (forall i : nat, rows (snd (atoms i)) = dim (pick3 Dual (fst (atoms i))) /\
                   cols (snd (atoms i)) = dim (pick3 Dom (fst (atoms i)))) ->
  (forall r d : nat, rows (invmass r d) = dim r /\ cols (invmass r d) = dim d) ->
  forall (e : uexp A) (d q u : nat) (b : gfun A), type_of A atoms e = Some (d, q, u) ->
  (g_space b <> q ->
   bind (elab A r0 r1 ropp rinv BD boundary_classes e)
        (fun o => it_system A r0 r1 radd rmul ropp rinv invmass mass atoms (bd_strong BD) IT true o b) = Err ValueError) /\
  (g_space b = q ->
   exists m, bind (elab A r0 r1 ropp rinv BD boundary_classes e)
                  (fun o => it_system A r0 r1 radd rmul ropp rinv invmass mass atoms (bd_strong BD) IT true o b) =
             Ok (m, coefficients A r0 radd rmul invmass b, d) /\
             meq A m (mmul A r0 radd rmul (invmass q u) (den A r0 r1 radd rmul ropp invmass atoms e))).
Proof. exact strong_system. Qed.
Print Assumptions C15_strong_form_system.

(* ... and with a two-sided inverse mass matrix it has exactly the solutions of the weak system W x = M cb *)
Theorem C15_strong_weak_equivalent : forall (A : Type) (r0 r1 : A) (radd rmul rsub : A -> A -> A) (ropp : A -> A),
  ring_theory r0 r1 radd rmul rsub ropp eq ->
  forall (W Mi Mm x cb : M A) (n k : nat),
  rows Mm = n -> cols Mm = k -> rows Mi = k -> cols Mi = n -> rows W = n -> rows cb = k -> rows x = cols W ->
  meq A (mmul A r0 radd rmul Mm Mi) (mid A r0 r1 n) -> meq A (mmul A r0 radd rmul Mi Mm) (mid A r0 r1 k) ->
  (meq A (mmul A r0 radd rmul (mmul A r0 radd rmul Mi W) x) cb <->
   meq A (mmul A r0 radd rmul W x) (mmul A r0 radd rmul Mm cb)).
Proof. exact strong_weak_equivalent. Qed.
Print Assumptions C15_strong_weak_equivalent.

(* the solution of an invertible system is unique, hence precomputed factors (same oracle) give the same answer *)
Theorem C15_solution_unique : forall (A : Type) (r0 r1 : A) (radd rmul rsub : A -> A -> A) (ropp : A -> A),
  ring_theory r0 r1 radd rmul rsub ropp eq -> forall solve : M A -> M A -> M A,
  (forall W v : M A, invertible A r0 r1 radd rmul W -> rows v = rows W ->
     meq A (mmul A r0 radd rmul W (solve W v)) v /\ rows (solve W v) = cols W /\ cols (solve W v) = cols v) ->
  forall W x v : M A, invertible A r0 r1 radd rmul W -> rows x = cols W -> rows v = rows W -> cols x = cols v ->
  meq A (mmul A r0 radd rmul W x) v -> meq A x (solve W v).
Proof. exact solve_unique. Qed.
Print Assumptions C15_solution_unique.

(* IterationCounter, for every sequence of callback calls *)
Theorem C15_counter : forall (A : Type) (r0 : A) (radd rmul : A -> A -> A) (norm : M A -> A) (msub : M A -> M A -> M A)
  (store is_cg : bool) (op rhs : M A) (xs : list (M A)),
  ic_run A r0 radd rmul norm msub IC store is_cg op rhs xs =
  (List.length xs,
   if store then map (fun x => norm (if is_cg then msub rhs (mmul A r0 radd rmul op x) else x)) xs else []).
Proof. exact counter. Qed.
Print Assumptions C15_counter.

(* the three iterative wrappers (single gmres, cg, blocked gmres) hand their return_residuals flag to the callback (read off
   the current source: store_flags), hence for all four combinations of return_residuals x return_iteration_count and every
   sequence of SciPy callbacks: a residual list is returned iff requested and has exactly one entry per iteration; the count is
   returned iff requested and is the number of callbacks *)
Theorem C15_wrapper_flags : forall (A : Type) (r0 : A) (radd rmul : A -> A -> A) (norm : M A -> A) (msub : M A -> M A -> M A),
  map fst store_flags = ["_gmres_single_op_imp"; "cg"; "_gmres_block_op_imp"]%string /\
  forall (w flag : string), In (w, flag) store_flags ->
  forall (rr ric is_cg : bool) (op rhs : M A) (xs : list (M A)),
  wrapper_out A r0 radd rmul norm msub IC flag rr ric is_cg op rhs xs =
  (if rr then Some (map (fun x => norm (if is_cg then msub rhs (mmul A r0 radd rmul op x) else x)) xs) else None,
   if ric then Some (List.length xs) else None).
Proof. exact (fun A r0 radd rmul norm msub => conj wrappers_listed (wrapper_flags A r0 radd rmul norm msub)). Qed.
Print Assumptions C15_wrapper_flags.

(* blocked lu / gmres: every branch (weak, strong, direct) cuts the solution vector by A.domain_spaces and takes the
   right-hand side of the weak systems with respect to A.dual_to_range_spaces (read off the current source) *)
Theorem C15_blocked_space_lists :
  it_blocked_result_strong IT = "domain_spaces"%string /\ it_blocked_result_weak IT = "domain_spaces"%string /\
  lu_blocked_result LU = "domain_spaces"%string /\ it_blocked_weak_rhs IT = "dual_to_range_spaces"%string /\
  lu_blocked_rhs LU = "dual_to_range_spaces"%string.
Proof. exact blocked_space_lists. Qed.
Print Assumptions C15_blocked_space_lists.

(* recorded finding C15:cg-strong:...: the strong-form system matrix M^-1 W handed to CG is in general not symmetric even
   for symmetric W and M (witness over Z) ... *)
Theorem C15_strong_system_not_symmetric :
  exists (W Mi : M BinNums.Z), symmetric W /\ symmetric Mi /\ ~ symmetric (mmul BinNums.Z BinNums.Z0 BinInt.Z.add BinInt.Z.mul Mi W).
Proof. exact strong_system_not_symmetric. Qed.
Print Assumptions C15_strong_system_not_symmetric.

(* ... but it is self-adjoint with respect to the inner product of the mass matrix: M (M^-1 W) = W *)
Theorem C15_strong_system_M_selfadjoint : forall (A : Type) (r0 r1 : A) (radd rmul rsub : A -> A -> A) (ropp : A -> A),
  ring_theory r0 r1 radd rmul rsub ropp eq -> forall (W Mm Mi : M A) (n : nat), rows W = n -> cols Mi = n ->
  meq A (mmul A r0 radd rmul Mm Mi) (mid A r0 r1 n) ->
  meq A (mmul A r0 radd rmul Mm (mmul A r0 radd rmul Mi W)) W.
Proof. exact strong_system_M_selfadjoint. Qed.
Print Assumptions C15_strong_system_M_selfadjoint.
