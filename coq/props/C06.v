(* C06 -- Hypersingular and Maxwell operators equal their single-layer decompositions.
   Only statements; each is closed by [exact] of a lemma proved under theories/AssemblyB.
   Models (tie H, correspondence against bempp_cl/core/numba_kernels.py with surrogate kernels): AssemblyB/Model.v.
   Everything is quantified over the coefficient ring (operations [RO] + [IsRing RO] = ring_theory over eq),
   geometry data, spaces (local2global, multipliers, normal multipliers), quadrature rule(s), kernel function,
   element lists and wavenumber.  [congr3 RO n P Q V I J] = sum_c sum_r sum_s P c r I * V r s * Q c s J. *)
From Coq Require Import List Arith.
From BV Require Import AssemblyB.Defs AssemblyB.Model AssemblyB.Decomposition AssemblyB.Kernel0 AssemblyB.C06Thms.

(* W = sum_c C_c' V0 C_c - k^2 sum_c N_c' V1 N_c: regular model (two grids or one, any identical flag) *)
Theorem C06_hypersingular_regular_decomposition :
  forall (A : Type) (RO : ops A) (Hring : IsRing RO)
         (gt gs : geom) (st ss : space) (quad : list qpt) (kern : kernel) (identical : bool)
         (Et Es : list nat) (nE : nat) (k : A) (I J : nat),
  is_p1 RO st -> is_p1 RO ss ->
  (forall e, In e Et -> e < nE) -> (forall f, In f Es -> f < nE) ->
  let V0 := fun r s => entry (o0 RO) (oadd RO) r s
              (scalar_regular RO gt gs (dp0_of RO st) (dp0_of RO ss) quad kern identical Et Es) in
  let V1 := fun r s => entry (o0 RO) (oadd RO) r s
              (scalar_regular RO gt gs (dp1_of RO st) (dp1_of RO ss) quad kern identical Et Es) in
  entry (o0 RO) (oadd RO) I J (helm_hyp_regular RO gt gs st ss quad kern identical k Et Es) =
    osub RO (congr3 RO nE (Cmat RO gt st) (Cmat RO gs ss) V0 I J)
            (omul RO (omul RO k k) (congr3 RO (3 * nE) (Nmat RO gt st) (Nmat RO gs ss) V1 I J))
  /\ entry (o0 RO) (oadd RO) I J (modhelm_hyp_regular RO gt gs st ss quad kern identical k Et Es) =
    oadd RO (congr3 RO nE (Cmat RO gt st) (Cmat RO gs ss) V0 I J)
            (omul RO (omul RO k k) (congr3 RO (3 * nE) (Nmat RO gt st) (Nmat RO gs ss) V1 I J))
  /\ entry (o0 RO) (oadd RO) I J (lap_hyp_regular RO gt gs st ss quad kern identical Et Es) =
    congr3 RO nE (Cmat RO gt st) (Cmat RO gs ss) V0 I J.
Proof. exact @hyp_regular_decomposition. Qed.
Print Assumptions C06_hypersingular_regular_decomposition.

(* the same for the singular (adjacent pairs, Duffy-type rules as parameters) model *)
Theorem C06_hypersingular_singular_decomposition :
  forall (A : Type) (RO : ops A) (Hring : IsRing RO)
         (g : geom) (st ss : space) (kern : kernel) (pairs : list spair) (nE : nat) (k : A) (I J : nat),
  is_p1 RO st -> is_p1 RO ss ->
  (forall pr, In pr pairs -> sp_e pr < nE /\ sp_f pr < nE) ->
  let V0 := fun r s => entry (o0 RO) (oadd RO) r s (scalar_singular RO g (dp0_of RO st) (dp0_of RO ss) kern pairs) in
  let V1 := fun r s => entry (o0 RO) (oadd RO) r s (scalar_singular RO g (dp1_of RO st) (dp1_of RO ss) kern pairs) in
  entry (o0 RO) (oadd RO) I J (helm_hyp_singular RO g st ss kern k pairs) =
    osub RO (congr3 RO nE (Cmat RO g st) (Cmat RO g ss) V0 I J)
            (omul RO (omul RO k k) (congr3 RO (3 * nE) (Nmat RO g st) (Nmat RO g ss) V1 I J))
  /\ entry (o0 RO) (oadd RO) I J (modhelm_hyp_singular RO g st ss kern k pairs) =
    oadd RO (congr3 RO nE (Cmat RO g st) (Cmat RO g ss) V0 I J)
            (omul RO (omul RO k k) (congr3 RO (3 * nE) (Nmat RO g st) (Nmat RO g ss) V1 I J))
  /\ entry (o0 RO) (oadd RO) I J (lap_hyp_singular RO g st ss kern pairs) =
    congr3 RO nE (Cmat RO g st) (Cmat RO g ss) V0 I J.
Proof. exact @hyp_singular_decomposition. Qed.
Print Assumptions C06_hypersingular_singular_decomposition.

(* the assembled dense matrix (regular part over all pairs of one grid ++ singular part) *)
Theorem C06_hypersingular_decomposition :
  forall (A : Type) (RO : ops A) (Hring : IsRing RO)
         (g : geom) (st ss : space) (quad : list qpt) (kr ks : kernel) (Et Es : list nat) (pairs : list spair)
         (nE : nat) (k : A) (I J : nat),
  is_p1 RO st -> is_p1 RO ss ->
  (forall e, In e Et -> e < nE) -> (forall f, In f Es -> f < nE) ->
  (forall pr, In pr pairs -> sp_e pr < nE /\ sp_f pr < nE) ->
  let V0 := fun r s => entry (o0 RO) (oadd RO) r s
              (scalar_dense RO g (dp0_of RO st) (dp0_of RO ss) quad kr ks Et Es pairs) in
  let V1 := fun r s => entry (o0 RO) (oadd RO) r s
              (scalar_dense RO g (dp1_of RO st) (dp1_of RO ss) quad kr ks Et Es pairs) in
  entry (o0 RO) (oadd RO) I J (helm_hyp_dense RO g st ss quad kr ks Et Es pairs k) =
    osub RO (congr3 RO nE (Cmat RO g st) (Cmat RO g ss) V0 I J)
            (omul RO (omul RO k k) (congr3 RO (3 * nE) (Nmat RO g st) (Nmat RO g ss) V1 I J))
  /\ entry (o0 RO) (oadd RO) I J (modhelm_hyp_dense RO g st ss quad kr ks Et Es pairs k) =
    oadd RO (congr3 RO nE (Cmat RO g st) (Cmat RO g ss) V0 I J)
            (omul RO (omul RO k k) (congr3 RO (3 * nE) (Nmat RO g st) (Nmat RO g ss) V1 I J))
  /\ entry (o0 RO) (oadd RO) I J (lap_hyp_dense RO g st ss quad kr ks Et Es pairs) =
    congr3 RO nE (Cmat RO g st) (Cmat RO g ss) V0 I J.
Proof. exact @hyp_dense_decomposition. Qed.
Print Assumptions C06_hypersingular_decomposition.

(* E = -ik sum_c R_c' V1 R_c - (1/ik) D' V0 D   (mik, ik arbitrary ring elements standing for -ik and ik;
   rinv any function with rinv (a*b) = rinv a * rinv b, e.g. field inverse with 1/0 = 0) *)
Theorem C06_efield_decomposition :
  forall (A : Type) (RO : ops A) (Hring : IsRing RO)
         (g : geom) (st ss : space) (quad : list qpt) (kr ks : kernel) (Et Es : list nat) (pairs : list spair)
         (nE : nat) (mik ik : A) (I J : nat),
  (forall a b : A, oinv RO (omul RO a b) = omul RO (oinv RO a) (oinv RO b)) ->
  s_nshape st = 3 -> s_nshape ss = 3 ->
  (forall e, In e Et -> e < nE) -> (forall f, In f Es -> f < nE) ->
  (forall pr, In pr pairs -> sp_e pr < nE /\ sp_f pr < nE) ->
  let V0 := fun r s => entry (o0 RO) (oadd RO) r s
              (scalar_dense RO g (dp0_of RO st) (dp0_of RO ss) quad (kern0 RO kr) (kern0 RO ks) Et Es pairs) in
  let V1 := fun r s => entry (o0 RO) (oadd RO) r s
              (scalar_dense RO g (dp1_of RO st) (dp1_of RO ss) quad (kern0 RO kr) (kern0 RO ks) Et Es pairs) in
  entry (o0 RO) (oadd RO) I J (efield_dense RO g st ss quad kr ks Et Es pairs mik ik) =
    osub RO (omul RO mik (congr3 RO (3 * nE) (Rmat RO g st) (Rmat RO g ss) V1 I J))
            (omul RO (oinv RO ik) (congr1 RO nE (Dmat RO g st) (Dmat RO g ss) V0 I J)).
Proof. exact @efield_dense_decomposition. Qed.
Print Assumptions C06_efield_decomposition.

Theorem C06_efield_regular_decomposition :
  forall (A : Type) (RO : ops A) (Hring : IsRing RO)
         (gt gs : geom) (st ss : space) (quad : list qpt) (kern : kernel) (identical : bool)
         (Et Es : list nat) (nE : nat) (mik ik : A) (I J : nat),
  (forall a b : A, oinv RO (omul RO a b) = omul RO (oinv RO a) (oinv RO b)) ->
  s_nshape st = 3 -> s_nshape ss = 3 ->
  (forall e, In e Et -> e < nE) -> (forall f, In f Es -> f < nE) ->
  let V0 := fun r s => entry (o0 RO) (oadd RO) r s
      (scalar_regular RO gt gs (dp0_of RO st) (dp0_of RO ss) quad (kern0 RO kern) identical Et Es) in
  let V1 := fun r s => entry (o0 RO) (oadd RO) r s
      (scalar_regular RO gt gs (dp1_of RO st) (dp1_of RO ss) quad (kern0 RO kern) identical Et Es) in
  entry (o0 RO) (oadd RO) I J (efield_regular RO gt gs st ss quad kern identical mik ik Et Es) =
    osub RO (omul RO mik (congr3 RO (3 * nE) (Rmat RO gt st) (Rmat RO gs ss) V1 I J))
            (omul RO (oinv RO ik) (congr1 RO nE (Dmat RO gt st) (Dmat RO gs ss) V0 I J)).
Proof. exact @efield_regular_decomposition. Qed.
Print Assumptions C06_efield_regular_decomposition.

(* zero row and column sums of every local hypersingular block; W.1 = 0 exactly on whole closed grids *)
Theorem C06_constants_in_kernel :
  forall (A : Type) (RO : ops A) (Hring : IsRing RO),
  (forall (gt gs : geom) (st ss : space) quad kern e f i,
     sumn (o0 RO) (oadd RO) 3 (fun j => lap_hyp_loc RO gt gs st ss quad kern e f i j) = o0 RO) /\
  (forall (gt gs : geom) (st ss : space) quad kern e f j,
     sumn (o0 RO) (oadd RO) 3 (fun i => lap_hyp_loc RO gt gs st ss quad kern e f i j) = o0 RO) /\
  (forall (g : geom) (st ss : space) kern e f pts i,
     sumn (o0 RO) (oadd RO) 3 (fun j => lap_hyp_sing_val RO g st ss kern e f pts i j) = o0 RO) /\
  (forall (g : geom) (st ss : space) kern e f pts j,
     sumn (o0 RO) (oadd RO) 3 (fun i => lap_hyp_sing_val RO g st ss kern e f pts i j) = o0 RO) /\
  (forall (g : geom) (st ss : space) quad kr ks Et Es pairs n I,
     s_nshape ss = 3 ->
     (forall f j, j < 3 -> s_mult ss f j = o1 RO) ->
     (forall f j, j < 3 -> s_l2g ss f j < n) ->
     matvec (o0 RO) (oadd RO) (omul RO) n
       (fun I J => entry (o0 RO) (oadd RO) I J (lap_hyp_dense RO g st ss quad kr ks Et Es pairs))
       (fun _ => o1 RO) I = o0 RO).
Proof. exact @hyp_constants_in_kernel. Qed.
Print Assumptions C06_constants_in_kernel.

(* regular parts are (complex-)symmetric for a symmetric kernel when test and trial space coincide *)
Theorem C06_maxwell_regular_symmetric :
  forall (A : Type) (RO : ops A) (Hring : IsRing RO)
         (g : geom) (s : space) (quad : list qpt) (kern : kernel) (identical : bool) (E : list nat)
         (dist : vec3 A -> vec3 A -> A) (mik ik : A) (I J : nat),
  (forall x y, kern x y (vzero (o0 RO)) (vzero (o0 RO)) = kern y x (vzero (o0 RO)) (vzero (o0 RO))) ->
  (forall x y, dist x y = dist y x) ->
  entry (o0 RO) (oadd RO) I J (efield_regular RO g g s s quad kern identical mik ik E E) =
  entry (o0 RO) (oadd RO) J I (efield_regular RO g g s s quad kern identical mik ik E E) /\
  entry (o0 RO) (oadd RO) I J (mfield_regular RO g g s s quad kern identical dist ik E E) =
  entry (o0 RO) (oadd RO) J I (mfield_regular RO g g s s quad kern identical dist ik E E).
Proof. exact @maxwell_regular_symmetric. Qed.
Print Assumptions C06_maxwell_regular_symmetric.

Theorem C06_hypersingular_regular_symmetric :
  forall (A : Type) (RO : ops A) (Hring : IsRing RO)
         (g : geom) (s : space) (quad : list qpt) (kern : kernel) (identical : bool) (E : list nat)
         (k : A) (I J : nat),
  is_p1 RO s ->
  (forall x y nx ny, kern x y nx ny = kern y x ny nx) ->
  entry (o0 RO) (oadd RO) I J (helm_hyp_regular RO g g s s quad kern identical k E E) =
  entry (o0 RO) (oadd RO) J I (helm_hyp_regular RO g g s s quad kern identical k E E).
Proof. exact @hyp_regular_symmetric. Qed.
Print Assumptions C06_hypersingular_regular_symmetric.

(* ---- symmetry of the singular part (deepening) ---- *)
From Coq Require Import Permutation QArith.
From BV Require Import Quad.Poly Quad.Rules AssemblyB.SingSym.
From BVgen Require Import DuffyRegions.

(* model side: if the rule of the pair (f,e) is the test/trial swap of the rule of (e,f) as a multiset (for a
   coincident pair: a swap-closed rule), the singular values are transposes of each other for a symmetric kernel *)
Theorem C06_singular_part_swap :
  forall (A : Type) (RO : ops A) (Hring : IsRing RO) (g : geom) (st ss : space) (kern : kernel)
         (mik ik k : A) (e f : nat) (pts pts' : list spt) (i j : nat),
  (forall x y nx ny, kern x y nx ny = kern y x ny nx) ->
  Permutation pts' (map swap_pt pts) ->
  scalar_sing_val RO g st ss kern e f pts i j = scalar_sing_val RO g ss st kern f e pts' j i /\
  ghyp_sing_val RO g st ss kern k e f pts i j = ghyp_sing_val RO g ss st kern k f e pts' j i /\
  efield_sing_val RO g kern mik ik e f pts i j = efield_sing_val RO g kern mik ik f e pts' j i.
Proof. exact singular_part_swap. Qed.
Print Assumptions C06_singular_part_swap.

(* rule side (regions regenerated from duffy_galerkin.py): for EVERY 1-D rule the coincident and the
   vertex-adjacent Duffy rules are swap-closed multisets of (test point, trial point, weight); the edge-adjacent
   region list is not made of swapped pairs (5 regions) - the source of the residual asymmetry of E and M *)
Theorem C06_duffy_coincident_vertex_swap_closed :
  forall xw : list (Q * Q),
  Permutation (map qpoint_swap (duffy_rule duffy_coincident xw)) (duffy_rule duffy_coincident xw) /\
  Permutation (map qpoint_swap (duffy_rule duffy_vertex xw)) (duffy_rule duffy_vertex xw).
Proof. exact duffy_coincident_vertex_swap_closed. Qed.
Print Assumptions C06_duffy_coincident_vertex_swap_closed.

Theorem C06_duffy_edge_not_paired : paired duffy_edge = false.
Proof. exact edge_not_paired. Qed.
Print Assumptions C06_duffy_edge_not_paired.
