(* C19 -- Grid and grid-function export and import round-trip.
   Only statements; every theorem is closed by [exact] of a lemma proved under theories/IO.
   [cur] (BVgen.IoFacts) is the record of facts regenerated from the current bempp_cl/api/grid/io.py;
   [pinned] (BV.IO.Msh) is the hand-written record of the pinned tree, used for the witnesses only.
   meshio write-then-read is the universally quantified function [rw] with its three preservation hypotheses. *)
From Coq Require Import ZArith List String Bool.
From BV Require Import IO.Msh IO.MshProofs IO.C19Lemmas.
From BVgen Require Import IoFacts.
Import ListNotations.
Open Scope Z_scope.

(* .msh (ascii and binary take the same path): the whole grid comes back when some domain index is non-zero *)
Theorem C19_roundtrip : forall (V : Type) (uniq : list Z -> list Z),
  (forall l x, In x (uniq l) -> In x l) -> forall rw : mesh V -> mesh V,
  (forall m, mpts (rw m) = mpts m) -> (forall m, mcells (rw m) = mcells m) ->
  (forall m k, (k = "gmsh:physical" \/ k = "gmsh:geometrical")%string -> lookup k (mcd (rw m)) = lookup k (mcd m)) ->
  forall g, wf_grid V g = true -> existsb (fun d => negb (d =? 0)) (gd g) = true ->
  import_grid V cur (rw (export_grid V uniq cur true g)) = g.
Proof. exact cur_roundtrip. Qed.
Print Assumptions C19_roundtrip.

(* vertices and connectivity: always, .msh and the tag-less formats (.vtu, .ply) *)
Theorem C19_vertices_elements : forall (V : Type) (uniq : list Z -> list Z) (rw : mesh V -> mesh V),
  (forall m, mpts (rw m) = mpts m) -> (forall m, mcells (rw m) = mcells m) ->
  forall (gmsh : bool) g, wf_grid V g = true ->
  let h := import_grid V cur (rw (export_grid V uniq cur gmsh g)) in gv h = gv g /\ ge h = ge g.
Proof. exact cur_vertices_elements. Qed.
Print Assumptions C19_vertices_elements.

(* exact characterisation, for every variant of the source with matching tag keys: the grid survives iff
   some index is non-zero, or import does not fall back on all-zero tags, or there are no elements, or
   geometrical numbering starts at 0 *)
Theorem C19_roundtrip_characterised : forall (V : Type) (uniq : list Z -> list Z),
  (forall l x, In x (uniq l) -> In x l) -> forall rw : mesh V -> mesh V,
  (forall m, mpts (rw m) = mpts m) -> (forall m, mcells (rw m) = mcells m) ->
  (forall m k, (k = "gmsh:physical" \/ k = "gmsh:geometrical")%string -> lookup k (mcd (rw m)) = lookup k (mcd m)) ->
  forall v g, keys_ok v = true -> wf_grid V g = true ->
  (import_grid V v (rw (export_grid V uniq v true g)) = g <->
   (existsb (fun d => negb (d =? 0)) (gd g) = true \/ fb_zero v = false \/ gd g = [] \/ to_u32 (geom_base v) = 0)).
Proof. exact roundtrip_iff. Qed.
Print Assumptions C19_roundtrip_characterised.

(* the current source: a default grid (all domain indices 0) does not come back (recorded finding) *)
Theorem C19_roundtrip_zero_refuted :
  exists g : grid unit, wf_grid unit g = true /\
    gd (import_grid unit cur (export_grid unit (fun l => nodup Z.eq_dec l) cur true g)) <> gd g.
Proof. exact roundtrip_zero_refuted_cur. Qed.
Print Assumptions C19_roundtrip_zero_refuted.

(* uint32 -> int32 -> uint32 casts of the indices are the identity *)
Theorem C19_int_casts : forall z, is_u32 z = true -> to_u32 (to_i32 z) = z.
Proof. exact u32_i32. Qed.
Print Assumptions C19_int_casts.

(* data layout of the current source: node data = transposed transformed vertex values, element data = transposed
   transformed centre values wrapped per cell block, complex node data split into real and imaginary parts *)
Theorem C19_data_layout : forall (X : Type) (x0 : X) (xadd : X -> X -> X) (xre xim xabs2 xsqrt xlog : X -> X)
  (call : list (list X) -> list (list X)) (call_cplx : bool) m cplx vals c n other,
  m <> TCall -> rect X vals c n = true -> (1 <= c)%nat ->
  (out_complex call_cplx m cplx = false ->
     (exists key, export_data X x0 xadd xre xim xabs2 xsqrt xlog call call_cplx cur Node cplx m vals n n other =
                    Some [(key, transpose X x0 n (transform X x0 xadd xre xim xabs2 xsqrt xlog call m vals n))]) /\
     (exists key, export_data X x0 xadd xre xim xabs2 xsqrt xlog call call_cplx cur Element cplx m vals n other n =
                    Some [(key, transpose X x0 n (transform X x0 xadd xre xim xabs2 xsqrt xlog call m vals n))])) /\
  (out_complex call_cplx m cplx = true ->
     exists k1 k2, k1 <> k2 /\
       export_data X x0 xadd xre xim xabs2 xsqrt xlog call call_cplx cur Node cplx m vals n n other =
         Some [(k1, map (map xre) (transpose X x0 n (transform X x0 xadd xre xim xabs2 xsqrt xlog call m vals n)));
               (k2, map (map xim) (transpose X x0 n (transform X x0 xadd xre xim xabs2 xsqrt xlog call m vals n)))]).
Proof. exact cur_data_layout. Qed.
Print Assumptions C19_data_layout.

(* entry [i][c] of an exported array is entry [c][i] of the evaluated (components x n) array *)
Theorem C19_transposed : forall (X : Type) (x0 : X) n rows i, (i < n)%nat ->
  nth i (transpose X x0 n rows) [] = map (fun r => nth i r x0) rows.
Proof. exact transpose_nth. Qed.
Print Assumptions C19_transposed.

(* the transformation table of the current _transform_array *)
Theorem C19_modes : forall name m, In (name, m) modes_expected -> mode_case_ok (name, m) = true.
Proof. exact cur_modes. Qed.
Print Assumptions C19_modes.

(* complex element data: exported iff the two arrays are wrapped per cell block *)
Theorem C19_complex_element_wrapped : forall (X : Type) (x0 : X) (xadd : X -> X -> X) (xre xim xabs2 xsqrt xlog : X -> X)
  (call : list (list X) -> list (list X)) (call_cplx : bool) v m cplx vals c n npts, data_ok v = true ->
  m <> TCall -> rect X vals c n = true -> (1 <= c)%nat -> out_complex call_cplx m cplx = true ->
  exists k1 k2, k1 <> k2 /\
    export_data X x0 xadd xre xim xabs2 xsqrt xlog call call_cplx v Element cplx m vals n npts n =
      Some [(k1, map (map xre) (transpose X x0 n (transform X x0 xadd xre xim xabs2 xsqrt xlog call m vals n)));
            (k2, map (map xim) (transpose X x0 n (transform X x0 xadd xre xim xabs2 xsqrt xlog call m vals n)))].
Proof. exact element_complex_wrapped. Qed.
Print Assumptions C19_complex_element_wrapped.

(* why the wrapping is needed (the pinned tree f71eeee left these two arrays unwrapped) *)
Theorem C19_complex_element_unwrapped_rejected : forall (X : Type) (x0 : X) (xadd : X -> X -> X)
  (xre xim xabs2 xsqrt xlog : X -> X) (call : list (list X) -> list (list X)) (call_cplx : bool)
  v m cplx vals c n npts k1 k2,
  elem_T v = true -> elem_c v = [(k1, PRe, false); (k2, PIm, false)] ->
  m <> TCall -> rect X vals c n = true -> (1 <= c)%nat -> out_complex call_cplx m cplx = true -> n <> 1%nat ->
  export_data X x0 xadd xre xim xabs2 xsqrt xlog call call_cplx v Element cplx m vals n npts n = None.
Proof. exact element_complex_unwrapped. Qed.
Print Assumptions C19_complex_element_unwrapped_rejected.

(* the current source: complex element data are exported as two arrays (real, imaginary parts), each wrapped into the
   single cell block *)
Theorem C19_complex_element : forall (X : Type) (x0 : X) (xadd : X -> X -> X) (xre xim xabs2 xsqrt xlog : X -> X)
  (call : list (list X) -> list (list X)) (call_cplx : bool) m cplx vals c n npts,
  m <> TCall -> rect X vals c n = true -> (1 <= c)%nat -> out_complex call_cplx m cplx = true ->
  exists k1 k2, k1 <> k2 /\
    export_data X x0 xadd xre xim xabs2 xsqrt xlog call call_cplx cur Element cplx m vals n npts n =
      Some [(k1, map (map xre) (transpose X x0 n (transform X x0 xadd xre xim xabs2 xsqrt xlog call m vals n)));
            (k2, map (map xim) (transpose X x0 n (transform X x0 xadd xre xim xabs2 xsqrt xlog call m vals n)))].
Proof. exact cur_complex_element. Qed.
Print Assumptions C19_complex_element.
