(* C12, thorough tier only: exact-moment identity of the translated Duffy regions up to total degree 10. *)
From Coq Require Import QArith ZArith List.
From BV Require Import Quad.Poly Quad.Rules Quad.DuffyMoments Quad.DuffyExact Quad.DuffyExactDeep.

Theorem C12_duffy_identity_degree_10 : forall adj a b c d : nat,
  (a + b + c + d <= 10)%nat ->
  (apply_moments exact_mu (total_poly (regions_of adj) a b c d) == exactQ a b c d)%Q /\
  (max_exp (total_poly (regions_of adj) a b c d) <= a + b + c + d + 3)%nat.
Proof. exact duffy_identity_deep. Qed.
Print Assumptions C12_duffy_identity_degree_10.
