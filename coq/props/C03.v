(* C03 -- Boundary operators are equivariant under motion, scaling and relabelling.
   Only statements; proofs in theories/AssemblyA/{Equivariance,KernelInvariance}.v. *)
From Coq Require Import List Arith Bool Permutation Reals String.
From BVgen Require Import NumbaKernels.
From BV Require Import AssemblyA.Sums AssemblyA.Mat AssemblyA.Dense AssemblyA.Congruence AssemblyA.Equivariance
     AssemblyA.GeometryTie Kernels.Invariance.
From BVgen Require Import GeometryFacts.

(* relabelling elements (pi), local indices (loc: cyclic rotation of the local vertex order, orientation flip),
   global DOFs (rho) and signs of edge functions (sgn): the assembled matrix is the permuted, sign-changed matrix.
   The local values are carried along (hypotheses on Lreg / Lsing: exact for the regular part; for the singular
   part exact when the local vertex correspondences are preserved, otherwise up to singular-quadrature error). *)
Theorem C03_relabel_scatter :
  forall (A : Type) (R : CRing A) (ident : bool) (G0 G1 : gridtopo) Lreg0 Lreg1 Lsing0 Lsing1
         (St0 Sr0 St1 Sr1 : space A) pi loc_t loc_r rho_t rho_r sgn_t sgn_r act_t act_r (img : spair -> spair) r c,
    g_nel G1 = g_nel G0 ->
    Permutation (map pi (seq 0 (g_nel G0))) (seq 0 (g_nel G0)) ->
    injective rho_t -> injective rho_r ->
    relabelled (g_nel G0) pi loc_t rho_t sgn_t act_t St0 St1 -> relabelled (g_nel G0) pi loc_r rho_r sgn_r act_r Sr0 Sr1 ->
    wf_colors (g_nel G0) St0 -> wf_colors (g_nel G0) Sr0 -> wf_colors (g_nel G1) St1 -> wf_colors (g_nel G1) Sr1 ->
    (forall a b, (a < g_nel G0)%nat -> (b < g_nel G0)%nat ->
                 elements_adjacent (g_els G1) (pi a) (pi b) = elements_adjacent (g_els G0) a b) ->
    (forall a b i j, (a < g_nel G0)%nat -> (b < g_nel G0)%nat -> (i < sp_ns St0)%nat -> (j < sp_ns Sr0)%nat ->
                     req (Lreg1 (pi a) (pi b) (loc_t a i) (loc_r b j)) (Lreg0 a b i j)) ->
    wf_adj (g_nel G0) (g_edge_adj G0) -> wf_adj (g_nel G0) (g_vertex_adj G0) ->
    Permutation (map img (singular_pairs (g_nel G0) St0 Sr0 (g_edge_adj G0) (g_vertex_adj G0)))
                (singular_pairs (g_nel G1) St1 Sr1 (g_edge_adj G1) (g_vertex_adj G1)) ->
    (forall p, In p (singular_pairs (g_nel G0) St0 Sr0 (g_edge_adj G0) (g_vertex_adj G0)) ->
               s_te (img p) = pi (s_te p) /\ s_tr (img p) = pi (s_tr p) /\
               forall i j, (i < sp_ns St0)%nat -> (j < sp_ns Sr0)%nat ->
                           req (Lsing1 (img p) (loc_t (s_te p) i) (loc_r (s_tr p) j)) (Lsing0 p i j)) ->
    req (dense ident G1 Lreg1 Lsing1 St1 Sr1 (rho_t r) (rho_r c))
        (rmul (rmul (sgn_t r) (sgn_r c)) (dense ident G0 Lreg0 Lsing0 St0 Sr0 r c)).
Proof. exact @relabel_dense. Qed.
Print Assumptions C03_relabel_scatter.

(* the regular part alone (no hypothesis about singular quadrature): exact under every relabelling *)
Theorem C03_relabel_regular_part :
  forall (A : Type) (R : CRing A) (ident : bool) (G0 G1 : gridtopo) Lreg0 Lreg1 (St0 Sr0 St1 Sr1 : space A)
         pi loc_t loc_r rho_t rho_r sgn_t sgn_r act_t act_r r c,
    g_nel G1 = g_nel G0 ->
    Permutation (map pi (seq 0 (g_nel G0))) (seq 0 (g_nel G0)) ->
    injective rho_t -> injective rho_r ->
    relabelled (g_nel G0) pi loc_t rho_t sgn_t act_t St0 St1 -> relabelled (g_nel G0) pi loc_r rho_r sgn_r act_r Sr0 Sr1 ->
    (forall a b, (a < g_nel G0)%nat -> (b < g_nel G0)%nat ->
                 elements_adjacent (g_els G1) (pi a) (pi b) = elements_adjacent (g_els G0) a b) ->
    (forall a b i j, (a < g_nel G0)%nat -> (b < g_nel G0)%nat -> (i < sp_ns St0)%nat -> (j < sp_ns Sr0)%nat ->
                     req (Lreg1 (pi a) (pi b) (loc_t a i) (loc_r b j)) (Lreg0 a b i j)) ->
    req (regular_form ident G1 Lreg1 St1 Sr1 (rho_t r) (rho_r c))
        (rmul (rmul (sgn_t r) (sgn_r c)) (regular_form ident G0 Lreg0 St0 Sr0 r c)).
Proof. exact @relabel_regular. Qed.
Print Assumptions C03_relabel_regular_part.

(* translation: quadrature points move with the grid and every translation-invariant kernel gives the same matrix *)
Theorem C03_translation_invariance :
  forall (A : Type) (R : CRing A) (ident : bool) (T : gridtopo) K rule srule t (G : geom A) nm_t nm_r sh_t sh_r (St Sr : space A),
    wf_colors (g_nel T) St -> wf_colors (g_nel T) Sr -> kernel_respects K -> translation_invariant K t ->
    meq (dense ident T (Lreg_quad K rule (translate t G) (translate t G) nm_t nm_r sh_t sh_r)
               (Lsing_quad K srule (translate t G) nm_t nm_r sh_t sh_r) St Sr)
        (dense ident T (Lreg_quad K rule G G nm_t nm_r sh_t sh_r) (Lsing_quad K srule G nm_t nm_r sh_t sh_r) St Sr).
Proof. exact @dense_translation_invariant. Qed.
Print Assumptions C03_translation_invariance.

(* Jacobian columns, normal direction and det(J'J) are functions of vertex differences *)
Theorem C03_geometry_from_differences :
  forall (A : Type) (R : CRing A) (v0 v1 v2 t : pt3 A),
    eq3 (fst (jac_of (add3 v0 t) (add3 v1 t) (add3 v2 t))) (fst (jac_of v0 v1 v2)) /\
    eq3 (snd (jac_of (add3 v0 t) (add3 v1 t) (add3 v2 t))) (snd (jac_of v0 v1 v2)) /\
    eq3 (normal_dir (add3 v0 t) (add3 v1 t) (add3 v2 t)) (normal_dir v0 v1 v2) /\
    req (gram_det (sub3 (add3 v1 t) (add3 v0 t)) (sub3 (add3 v2 t) (add3 v0 t))) (gram_det (sub3 v1 v0) (sub3 v2 v0)).
Proof. exact @geometry_from_differences. Qed.
Print Assumptions C03_geometry_from_differences.

(* tie to the source (regenerated on every run from Grid._compute_geometric_quantities, translator fails closed): the code
   computes the normal direction as cross(jacobians[::2], jacobians[1::2]) with jacobians = vertex differences, and absolute
   vertex coordinates enter nothing but the centroids *)
Theorem C03_geometry_source_uses_differences :
  geometry_from_differences_in_source = true /\
  geometry_normal_cross_arguments = ("jacobians[::2]"%string :: "jacobians[1::2]"%string :: nil) /\
  (forall q, In q geometry_absolute_quantities ->
             q = "centroids"%string \/ q = "element_vertices"%string \/ q = "self._centroids"%string).
Proof. exact geometry_source_uses_differences. Qed.
Print Assumptions C03_geometry_source_uses_differences.

(* orthogonal maps preserve det(J'J) (integration elements); scaling by s multiplies it by s^4 *)
Theorem C03_integration_element_rotation :
  forall (A : Type) (R : CRing A) (Q : mat3) (a b : pt3 A), Equivariance.orthogonal Q -> req (gram_det (mv Q a) (mv Q b)) (gram_det a b).
Proof. exact @gram_det_orthogonal. Qed.
Print Assumptions C03_integration_element_rotation.

Theorem C03_integration_element_scaling :
  forall (A : Type) (R : CRing A) (s : A) (a b : pt3 A),
    req (gram_det (scale3 s a) (scale3 s b)) (rmul (rmul (rmul s s) (rmul s s)) (gram_det a b)).
Proof. exact @gram_det_scaling. Qed.
Print Assumptions C03_integration_element_scaling.

(* ALL 18 scalar Green's-function kernels regenerated from numba_kernels.py (Laplace / Helmholtz with complex k /
   modified Helmholtz; single, double, adjoint double layer; regular and singular variants; table [kernel_forms],
   names as in select_numba_kernels): K(Qx+t, Qy+t, Q n_x, Q n_y, k) = K(x, y, n_x, n_y, k) for orthogonal Q, x <> y *)
Theorem C03_kernel_rigid_invariance :
  forall (Q : rot) (t0 t1 t2 : R), Invariance.orthogonal Q ->
  forall name G deg g, In (name, G, deg) kernel_forms -> numba_kernel name = Some g ->
  forall x0 x1 x2 y0 y1 y2 nx0 nx1 nx2 ny0 ny1 ny2 p0 p1 : R, (x0, x1, x2) <> (y0, y1, y2) ->
    g (mv0 Q t0 x0 x1 x2) (mv1 Q t1 x0 x1 x2) (mv2 Q t2 x0 x1 x2) (mv0 Q t0 y0 y1 y2) (mv1 Q t1 y0 y1 y2) (mv2 Q t2 y0 y1 y2)
      (ap0 Q nx0 nx1 nx2) (ap1 Q nx0 nx1 nx2) (ap2 Q nx0 nx1 nx2)
      (ap0 Q ny0 ny1 ny2) (ap1 Q ny0 ny1 ny2) (ap2 Q ny0 ny1 ny2) p0 p1
    = g x0 x1 x2 y0 y1 y2 nx0 nx1 nx2 ny0 ny1 ny2 p0 p1.
Proof. exact kernels_rigid_motion_invariant. Qed.
Print Assumptions C03_kernel_rigid_invariance.

(* homogeneity with the wavenumber scaled by 1/s: K(sx, sy, n, k/s) = s^-deg K(x, y, n, k), deg = 1 (single layer),
   2 (double / adjoint double layer), s > 0, x <> y *)
Theorem C03_kernel_homogeneity :
  forall name G deg g, In (name, G, deg) kernel_forms -> numba_kernel name = Some g ->
  forall s x0 x1 x2 y0 y1 y2 nx0 nx1 nx2 ny0 ny1 ny2 p0 p1 : R, (0 < s)%R -> (x0, x1, x2) <> (y0, y1, y2) ->
    g (s * x0)%R (s * x1)%R (s * x2)%R (s * y0)%R (s * y1)%R (s * y2)%R nx0 nx1 nx2 ny0 ny1 ny2 (p0 / s)%R (p1 / s)%R
    = scale_pair (/ s ^ deg)%R (g x0 x1 x2 y0 y1 y2 nx0 nx1 nx2 ny0 ny1 ny2 p0 p1).
Proof. exact kernels_homogeneous. Qed.
Print Assumptions C03_kernel_homogeneity.
