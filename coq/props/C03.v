(* C03 -- Boundary operators are equivariant under motion, scaling and relabelling.
   Only statements; proofs in theories/AssemblyA/{Equivariance,KernelInvariance}.v. *)
From Coq Require Import List Arith Bool Permutation Reals.
From BVgen Require Import NumbaKernels.
From BV Require Import AssemblyA.Sums AssemblyA.Mat AssemblyA.Dense AssemblyA.Congruence AssemblyA.Equivariance
     AssemblyA.KernelInvariance.

(* relabelling elements (pi), local indices (loc: cyclic rotation of the local vertex order, orientation flip),
   global DOFs (rho) and signs of edge functions (sgn): the assembled matrix is the permuted, sign-changed matrix.
   The local values are carried along (hypotheses on Lreg / Lsing: exact for the regular part; for the singular
   part exact when the local vertex correspondences are preserved, otherwise up to singular-quadrature error). *)
Theorem C03_relabel_scatter :
  forall (A : Type) (R : CRing A) (ident : bool) (G0 G1 : gridtopo) Lreg0 Lreg1 Lsing0 Lsing1
         (St0 Sr0 St1 Sr1 : space A) pi loc_t loc_r rho_t rho_r sgn_t sgn_r act_t act_r (img : spair -> spair) r c,
    g_nel G1 = g_nel G0 ->
    Permutation (map pi (seq 0 (g_nel G0))) (seq 0 (g_nel G0)) ->
    injective rho_t -> injective rho_r ->
    relabelled (g_nel G0) pi loc_t rho_t sgn_t act_t St0 St1 -> relabelled (g_nel G0) pi loc_r rho_r sgn_r act_r Sr0 Sr1 ->
    wf_colors (g_nel G0) St0 -> wf_colors (g_nel G0) Sr0 -> wf_colors (g_nel G1) St1 -> wf_colors (g_nel G1) Sr1 ->
    (forall a b, (a < g_nel G0)%nat -> (b < g_nel G0)%nat ->
                 elements_adjacent (g_els G1) (pi a) (pi b) = elements_adjacent (g_els G0) a b) ->
    (forall a b i j, (a < g_nel G0)%nat -> (b < g_nel G0)%nat -> (i < sp_ns St0)%nat -> (j < sp_ns Sr0)%nat ->
                     req (Lreg1 (pi a) (pi b) (loc_t a i) (loc_r b j)) (Lreg0 a b i j)) ->
    wf_adj (g_nel G0) (g_edge_adj G0) -> wf_adj (g_nel G0) (g_vertex_adj G0) ->
    Permutation (map img (singular_pairs (g_nel G0) St0 Sr0 (g_edge_adj G0) (g_vertex_adj G0)))
                (singular_pairs (g_nel G1) St1 Sr1 (g_edge_adj G1) (g_vertex_adj G1)) ->
    (forall p, In p (singular_pairs (g_nel G0) St0 Sr0 (g_edge_adj G0) (g_vertex_adj G0)) ->
               s_te (img p) = pi (s_te p) /\ s_tr (img p) = pi (s_tr p) /\
               forall i j, (i < sp_ns St0)%nat -> (j < sp_ns Sr0)%nat ->
                           req (Lsing1 (img p) (loc_t (s_te p) i) (loc_r (s_tr p) j)) (Lsing0 p i j)) ->
    req (dense ident G1 Lreg1 Lsing1 St1 Sr1 (rho_t r) (rho_r c))
        (rmul (rmul (sgn_t r) (sgn_r c)) (dense ident G0 Lreg0 Lsing0 St0 Sr0 r c)).
Proof. exact @relabel_dense. Qed.
Print Assumptions C03_relabel_scatter.

(* the regular part alone (no hypothesis about singular quadrature): exact under every relabelling *)
Theorem C03_relabel_regular_part :
  forall (A : Type) (R : CRing A) (ident : bool) (G0 G1 : gridtopo) Lreg0 Lreg1 (St0 Sr0 St1 Sr1 : space A)
         pi loc_t loc_r rho_t rho_r sgn_t sgn_r act_t act_r r c,
    g_nel G1 = g_nel G0 ->
    Permutation (map pi (seq 0 (g_nel G0))) (seq 0 (g_nel G0)) ->
    injective rho_t -> injective rho_r ->
    relabelled (g_nel G0) pi loc_t rho_t sgn_t act_t St0 St1 -> relabelled (g_nel G0) pi loc_r rho_r sgn_r act_r Sr0 Sr1 ->
    (forall a b, (a < g_nel G0)%nat -> (b < g_nel G0)%nat ->
                 elements_adjacent (g_els G1) (pi a) (pi b) = elements_adjacent (g_els G0) a b) ->
    (forall a b i j, (a < g_nel G0)%nat -> (b < g_nel G0)%nat -> (i < sp_ns St0)%nat -> (j < sp_ns Sr0)%nat ->
                     req (Lreg1 (pi a) (pi b) (loc_t a i) (loc_r b j)) (Lreg0 a b i j)) ->
    req (regular_form ident G1 Lreg1 St1 Sr1 (rho_t r) (rho_r c))
        (rmul (rmul (sgn_t r) (sgn_r c)) (regular_form ident G0 Lreg0 St0 Sr0 r c)).
Proof. exact @relabel_regular. Qed.
Print Assumptions C03_relabel_regular_part.

(* translation: quadrature points move with the grid and every translation-invariant kernel gives the same matrix *)
Theorem C03_translation_invariance :
  forall (A : Type) (R : CRing A) (ident : bool) (T : gridtopo) K rule srule t (G : geom A) nm_t nm_r sh_t sh_r (St Sr : space A),
    wf_colors (g_nel T) St -> wf_colors (g_nel T) Sr -> kernel_respects K -> translation_invariant K t ->
    meq (dense ident T (Lreg_quad K rule (translate t G) (translate t G) nm_t nm_r sh_t sh_r)
               (Lsing_quad K srule (translate t G) nm_t nm_r sh_t sh_r) St Sr)
        (dense ident T (Lreg_quad K rule G G nm_t nm_r sh_t sh_r) (Lsing_quad K srule G nm_t nm_r sh_t sh_r) St Sr).
Proof. exact @dense_translation_invariant. Qed.
Print Assumptions C03_translation_invariance.

(* Jacobian columns, normal direction and det(J'J) are functions of vertex differences *)
Theorem C03_geometry_from_differences :
  forall (A : Type) (R : CRing A) (v0 v1 v2 t : pt3 A),
    eq3 (fst (jac_of (add3 v0 t) (add3 v1 t) (add3 v2 t))) (fst (jac_of v0 v1 v2)) /\
    eq3 (snd (jac_of (add3 v0 t) (add3 v1 t) (add3 v2 t))) (snd (jac_of v0 v1 v2)) /\
    eq3 (normal_dir (add3 v0 t) (add3 v1 t) (add3 v2 t)) (normal_dir v0 v1 v2) /\
    req (gram_det (sub3 (add3 v1 t) (add3 v0 t)) (sub3 (add3 v2 t) (add3 v0 t))) (gram_det (sub3 v1 v0) (sub3 v2 v0)).
Proof. exact @geometry_from_differences. Qed.
Print Assumptions C03_geometry_from_differences.

(* orthogonal maps preserve det(J'J) (integration elements); scaling by s multiplies it by s^4 *)
Theorem C03_integration_element_rotation :
  forall (A : Type) (R : CRing A) (Q : mat3) (a b : pt3 A), orthogonal Q -> req (gram_det (mv Q a) (mv Q b)) (gram_det a b).
Proof. exact @gram_det_orthogonal. Qed.
Print Assumptions C03_integration_element_rotation.

Theorem C03_integration_element_scaling :
  forall (A : Type) (R : CRing A) (s : A) (a b : pt3 A),
    req (gram_det (scale3 s a) (scale3 s b)) (rmul (rmul (rmul s s) (rmul s s)) (gram_det a b)).
Proof. exact @gram_det_scaling. Qed.
Print Assumptions C03_integration_element_scaling.

(* Laplace kernels regenerated from numba_kernels.py: invariant under x -> Qx + t, n -> Qn for orthogonal Q *)
Theorem C03_kernel_rigid_invariance :
  forall q00 q01 q02 q10 q11 q12 q20 q21 q22 t0 t1 t2 : R,
    orth q00 q01 q02 q10 q11 q12 q20 q21 q22 ->
    let P0 := fun x0 x1 x2 => (q00 * x0 + q01 * x1 + q02 * x2 + t0)%R in
    let P1 := fun x0 x1 x2 => (q10 * x0 + q11 * x1 + q12 * x2 + t1)%R in
    let P2 := fun x0 x1 x2 => (q20 * x0 + q21 * x1 + q22 * x2 + t2)%R in
    let V0 := fun x0 x1 x2 => (q00 * x0 + q01 * x1 + q02 * x2)%R in
    let V1 := fun x0 x1 x2 => (q10 * x0 + q11 * x1 + q12 * x2)%R in
    let V2 := fun x0 x1 x2 => (q20 * x0 + q21 * x1 + q22 * x2)%R in
    forall x0 x1 x2 y0 y1 y2 nx0 nx1 nx2 ny0 ny1 ny2 p0 p1 : R,
      laplace_single_layer_regular (P0 x0 x1 x2) (P1 x0 x1 x2) (P2 x0 x1 x2) (P0 y0 y1 y2) (P1 y0 y1 y2) (P2 y0 y1 y2)
         (V0 nx0 nx1 nx2) (V1 nx0 nx1 nx2) (V2 nx0 nx1 nx2) (V0 ny0 ny1 ny2) (V1 ny0 ny1 ny2) (V2 ny0 ny1 ny2) p0 p1
      = laplace_single_layer_regular x0 x1 x2 y0 y1 y2 nx0 nx1 nx2 ny0 ny1 ny2 p0 p1 /\
      laplace_double_layer_regular (P0 x0 x1 x2) (P1 x0 x1 x2) (P2 x0 x1 x2) (P0 y0 y1 y2) (P1 y0 y1 y2) (P2 y0 y1 y2)
         (V0 nx0 nx1 nx2) (V1 nx0 nx1 nx2) (V2 nx0 nx1 nx2) (V0 ny0 ny1 ny2) (V1 ny0 ny1 ny2) (V2 ny0 ny1 ny2) p0 p1
      = laplace_double_layer_regular x0 x1 x2 y0 y1 y2 nx0 nx1 nx2 ny0 ny1 ny2 p0 p1 /\
      laplace_adjoint_double_layer_regular (P0 x0 x1 x2) (P1 x0 x1 x2) (P2 x0 x1 x2) (P0 y0 y1 y2) (P1 y0 y1 y2) (P2 y0 y1 y2)
         (V0 nx0 nx1 nx2) (V1 nx0 nx1 nx2) (V2 nx0 nx1 nx2) (V0 ny0 ny1 ny2) (V1 ny0 ny1 ny2) (V2 ny0 ny1 ny2) p0 p1
      = laplace_adjoint_double_layer_regular x0 x1 x2 y0 y1 y2 nx0 nx1 nx2 ny0 ny1 ny2 p0 p1.
Proof. exact laplace_rigid_all. Qed.
Print Assumptions C03_kernel_rigid_invariance.

(* homogeneity away from the diagonal: K_sl(sx, sy) = K_sl(x, y)/s, K_dl and K_adl scale with 1/s^2 *)
Theorem C03_kernel_homogeneity :
  forall s x0 x1 x2 y0 y1 y2 nx0 nx1 nx2 ny0 ny1 ny2 p0 p1 : R,
    (0 < s)%R -> (0 < (y0 - x0) * (y0 - x0) + (y1 - x1) * (y1 - x1) + (y2 - x2) * (y2 - x2))%R ->
    fst (laplace_single_layer_regular (s * x0) (s * x1) (s * x2) (s * y0) (s * y1) (s * y2) nx0 nx1 nx2 ny0 ny1 ny2 p0 p1)
    = (fst (laplace_single_layer_regular x0 x1 x2 y0 y1 y2 nx0 nx1 nx2 ny0 ny1 ny2 p0 p1) / s)%R /\
    fst (laplace_double_layer_regular (s * x0) (s * x1) (s * x2) (s * y0) (s * y1) (s * y2) nx0 nx1 nx2 ny0 ny1 ny2 p0 p1)
    = (fst (laplace_double_layer_regular x0 x1 x2 y0 y1 y2 nx0 nx1 nx2 ny0 ny1 ny2 p0 p1) / (s * s))%R /\
    fst (laplace_adjoint_double_layer_regular (s * x0) (s * x1) (s * x2) (s * y0) (s * y1) (s * y2) nx0 nx1 nx2 ny0 ny1 ny2 p0 p1)
    = (fst (laplace_adjoint_double_layer_regular x0 x1 x2 y0 y1 y2 nx0 nx1 nx2 ny0 ny1 ny2 p0 p1) / (s * s))%R.
Proof. exact laplace_homogeneous_all. Qed.
Print Assumptions C03_kernel_homogeneity.
