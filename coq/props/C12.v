(* C12 -- Quadrature rules have their stated degree of exactness.
   Only statements: each theorem is closed by [exact] of a lemma proved under theories/Quad. *)
From Coq Require Import QArith ZArith List.
From BV Require Import Quad.Poly Quad.Rules Quad.DuffyMoments Quad.Exactness Quad.DuffyExact Quad.C12Lemmas Quad.DuffyTolerance.

(* triangle rule of order n (1..20): every monomial x^a y^b, a+b <= n, is integrated to 1e-14
   (tri_ok r a b:  | sum_i w_i x_i^a y_i^b - a! b!/(a+b+2)! | <= 1e-14, on the exact values of the shipped doubles) *)
Theorem C12_triangle_exact : forall (order : Z) (a b : nat),
  (1 <= order <= 20)%Z -> (a + b <= Z.to_nat order)%nat ->
  exists r, tri_rule order = Some r /\ tri_lookup_in_bounds order = true /\ tri_ok r a b = true.
Proof. exact tri_exact. Qed.
Print Assumptions C12_triangle_exact.

Theorem C12_triangle_not_over_claimed : forall order : Z,
  (1 <= order <= 19)%Z ->
  exists r a b, tri_rule order = Some r /\ (a + b = Z.to_nat order + 1)%nat /\ tri_ok r a b = false.
Proof. exact tri_not_overclaimed. Qed.
Print Assumptions C12_triangle_not_over_claimed.

(* Gauss rule with n points (1..30) on [0,1]: x^k, k <= 2n-1, integrated to 1e-14 *)
Theorem C12_gauss_exact : forall (order : Z) (k : nat),
  (1 <= order <= 30)%Z -> (k <= 2 * Z.to_nat order - 1)%nat ->
  exists r, gauss_rule order = Some r /\ gauss_lookup_in_bounds order = true /\
            length r = Z.to_nat order /\ gauss_ok r k = true.
Proof. exact gauss_exact. Qed.
Print Assumptions C12_gauss_exact.

Theorem C12_lookup_rejects_triangle : forall order : Z, (order < 1 \/ order > 20)%Z -> tri_rule order = None.
Proof. exact tri_rejects_outside. Qed.
Print Assumptions C12_lookup_rejects_triangle.

Theorem C12_lookup_rejects_gauss : forall order : Z, (order < 1 \/ order > 30)%Z -> gauss_rule order = None.
Proof. exact gauss_rejects_outside. Qed.
Print Assumptions C12_lookup_rejects_gauss.

Theorem C12_duffy_counts : forall (order : Z) (adj : nat) (pts : list qpoint),
  (1 <= order <= 30)%Z -> (adj < 3)%nat -> duffy order adj = Some pts ->
  Z.of_nat (length pts) = (count_factor_of adj * order ^ 4)%Z /\
  count_factor_of adj = match adj with 0%nat => 6%Z | 1%nat => 5%Z | _ => 2%Z end.
Proof. exact duffy_counts. Qed.
Print Assumptions C12_duffy_counts.

(* for EVERY 1-D rule and every list of (closed) polynomial regions *)
Theorem C12_duffy_product_moment : forall (regs : list region) (xw : list (Q * Q)) (a b c d : nat),
  forallb region_closed regs = true ->
  (rule_sum (duffy_rule regs xw) (monoQ a b c d) == apply_moments (moment xw) (total_poly regs a b c d))%Q.
Proof. exact duffy_product_moment. Qed.
Print Assumptions C12_duffy_product_moment.

Theorem C12_duffy_exact_partial : forall (order : Z) (adj a b c d : nat) (xw : list (Q * Q)),
  (2 <= order <= 30)%Z -> (adj < 3)%nat -> gauss_ruleQ order = Some xw ->
  (a + b + c + d <= 2 * Z.to_nat order - 4)%nat -> (a + b + c + d <= cap)%nat ->
  let p := total_poly (regions_of adj) a b c d in
  (rule_sum (duffy_rule (regions_of adj) xw) (monoQ a b c d) == apply_moments (moment xw) p)%Q /\
  (apply_moments exact_mu p == exactQ a b c d)%Q /\
  (max_exp p <= 2 * Z.to_nat order - 1)%nat /\
  (forall k, (k <= 2 * Z.to_nat order - 1)%nat -> exists r, gauss_rule order = Some r /\ gauss_ok r k = true).
Proof. exact duffy_exact_partial. Qed.
Print Assumptions C12_duffy_exact_partial.

(* the numerical statement: every singular rule of order n = 2..30 integrates every monomial of total degree
   <= min(2n-4, 8) over the product of two reference triangles to 1e-8 (near e x y := -e <= x - y <= e; the bound is
   crude: l1 norm of the expanded integrand (< 1e5) times 5e-14).  Degrees 9..2n-4 are not covered (computation cap). *)
Theorem C12_duffy_exact_to_degree_8 : forall (order : Z) (adj a b c d : nat) (xw : list (Q * Q)),
  (2 <= order <= 30)%Z -> (adj < 3)%nat -> gauss_ruleQ order = Some xw ->
  (a + b + c + d <= 2 * Z.to_nat order - 4)%nat -> (a + b + c + d <= cap)%nat ->
  near (1 # 100000000) (rule_sum (duffy_rule (regions_of adj) xw) (monoQ a b c d)) (exactQ a b c d).
Proof. exact duffy_exact. Qed.
Print Assumptions C12_duffy_exact_to_degree_8.

Theorem C12_remap_edge : forall (x0 x1 x2 : Q) (v0 v1 : nat) (p : Q * Q),
  (v0 < 3)%nat -> (v1 < 3)%nat -> v0 <> v1 ->
  (local2global x0 x1 x2 (remap_edge v0 v1 p)
   == vtx x0 x1 x2 v0 + (vtx x0 x1 x2 v1 - vtx x0 x1 x2 v0) * fst p
      + (vtx x0 x1 x2 (3 - v0 - v1) - vtx x0 x1 x2 v0) * snd p)%Q.
Proof. exact remap_edge_places. Qed.
Print Assumptions C12_remap_edge.

Theorem C12_remap_vertex : forall (x0 x1 x2 : Q) (k : nat) (p : Q * Q),
  (k < 3)%nat ->
  (local2global x0 x1 x2 (remap_vertex k p)
   == vtx x0 x1 x2 k + (vtx x0 x1 x2 (vperm k 1) - vtx x0 x1 x2 k) * fst p
      + (vtx x0 x1 x2 (vperm k 2) - vtx x0 x1 x2 k) * snd p)%Q.
Proof. exact remap_vertex_places. Qed.
Print Assumptions C12_remap_vertex.
