(* C17 -- FMM-mode operators equal dense-mode ones given an exact far-field evaluator.
   Statements only.  Models: AssemblyB/FmmModel.v (glue), Model.v (dense), PotModel.v (potentials); tie H by
   correspondence (harness/c17_impl.py).  G4 = the 4-component kernel of the exact point evaluator (value and
   target gradient), nbrs = element_neighbors, the singular part is the singular part of the dense model.
   Hypotheses common to the boundary theorems: trial elements below the element count, neighbour lists duplicate
   free and equal to vertex adjacency (C11), dof numbers below the column count. *)
From Coq Require Import List Arith ZArith.
Import ListNotations.
From BV Require Import AssemblyB.Defs AssemblyB.Model AssemblyB.PotModel AssemblyB.FmmModel AssemblyB.Decomposition
  AssemblyB.FmmGlue AssemblyB.C17Thms AssemblyB.PropLemmas.

(* target_map' (E - N) source_map + S = dense, single layer; needs only that map_space_to_points does not raise *)
Theorem C17_scalar_glue_single_layer :
  forall (A : Type) (RO : ops A), IsRing RO -> forall (ver : fmm_version),
  forall (G4 : vec3 A -> vec3 A -> nat -> A) (g : geom) (st ss : space) (Et Es : list nat) (nE : nat)
         (quad : list qpt) (nbrs : nat -> list nat) (kr ks : kernel) (pairs : list spair) (n : nat),
  (forall f, In f Es -> f < nE) ->
  (forall e, In e Et -> NoDup (nbrs e)) ->
  (forall e f, In e Et -> In f Es -> memb f (nbrs e) = adjacent (g_verts g e) (g_verts g f)) ->
  (forall f j, In f Es -> j < s_nshape ss -> s_l2g ss f j < n) ->
  (forall (pr : spair) j, In pr pairs -> j < s_nshape ss -> s_l2g ss (sp_f pr) j < n) ->
  maps_ok ver Et Es = true ->
  forall x : nat -> A,
  (forall a b nx ny, kr a b nx ny = G4 a b 0) ->
  exists f : nat -> A,
    glue_single_layer RO ver G4 g g st ss Et Es nE quad nbrs (scalar_singular RO g st ss ks pairs) x = Some f /\
    forall I, f I = matvec (o0 RO) (oadd RO) (omul RO) n
                      (fun I0 J => entry (o0 RO) (oadd RO) I0 J (scalar_dense RO g st ss quad kr ks Et Es pairs)) x I.
Proof. exact @glue_single_layer_correct. Qed.
Print Assumptions C17_scalar_glue_single_layer.

(* double layer: dense kernel = - grad_x G . n_y *)
Theorem C17_scalar_glue_double_layer :
  forall (A : Type) (RO : ops A), IsRing RO -> forall (ver : fmm_version),
  forall (G4 : vec3 A -> vec3 A -> nat -> A) (g : geom) (st ss : space) (Et Es : list nat) (nE : nat)
         (quad : list qpt) (nbrs : nat -> list nat) (kr ks : kernel) (pairs : list spair) (n : nat),
  (forall f, In f Es -> f < nE) ->
  (forall e, In e Et -> NoDup (nbrs e)) ->
  (forall e f, In e Et -> In f Es -> memb f (nbrs e) = adjacent (g_verts g e) (g_verts g f)) ->
  (forall f j, In f Es -> j < s_nshape ss -> s_l2g ss f j < n) ->
  (forall (pr : spair) j, In pr pairs -> j < s_nshape ss -> s_l2g ss (sp_f pr) j < n) ->
  maps_ok ver Et Es = true ->
  forall x : nat -> A,
  (forall a b nx ny, kr a b nx ny =
       osub RO (o0 RO) (sumn (o0 RO) (oadd RO) 3 (fun c => omul RO (G4 a b (S c)) (comp ny c)))) ->
  exists f : nat -> A,
    glue_double_layer RO ver G4 g g st ss Et Es nE quad nbrs (scalar_singular RO g st ss ks pairs) x = Some f /\
    forall I, f I = matvec (o0 RO) (oadd RO) (omul RO) n
                      (fun I0 J => entry (o0 RO) (oadd RO) I0 J (scalar_dense RO g st ss quad kr ks Et Es pairs)) x I.
Proof. exact @glue_double_layer_correct. Qed.
Print Assumptions C17_scalar_glue_double_layer.

(* adjoint double layer: dense kernel = grad_x G . n_x *)
Theorem C17_scalar_glue_adjoint_double_layer :
  forall (A : Type) (RO : ops A), IsRing RO -> forall (ver : fmm_version),
  forall (G4 : vec3 A -> vec3 A -> nat -> A) (g : geom) (st ss : space) (Et Es : list nat) (nE : nat)
         (quad : list qpt) (nbrs : nat -> list nat) (kr ks : kernel) (pairs : list spair) (n : nat),
  (forall f, In f Es -> f < nE) ->
  (forall e, In e Et -> NoDup (nbrs e)) ->
  (forall e f, In e Et -> In f Es -> memb f (nbrs e) = adjacent (g_verts g e) (g_verts g f)) ->
  (forall f j, In f Es -> j < s_nshape ss -> s_l2g ss f j < n) ->
  (forall (pr : spair) j, In pr pairs -> j < s_nshape ss -> s_l2g ss (sp_f pr) j < n) ->
  maps_ok ver Et Es = true ->
  forall x : nat -> A,
  (forall a b nx ny, kr a b nx ny = sumn (o0 RO) (oadd RO) 3 (fun c => omul RO (G4 a b (S c)) (comp nx c))) ->
  exists f : nat -> A,
    glue_adjoint_double_layer RO ver G4 g g st ss Et Es nE quad nbrs (scalar_singular RO g st ss ks pairs) x = Some f /\
    forall I, f I = matvec (o0 RO) (oadd RO) (omul RO) n
                      (fun I0 J => entry (o0 RO) (oadd RO) I0 J (scalar_dense RO g st ss quad kr ks Et Es pairs)) x I.
Proof. exact @glue_adjoint_double_layer_correct. Qed.
Print Assumptions C17_scalar_glue_adjoint_double_layer.

(* hypersingular glue = dense hypersingular model (= the C06 decomposition), for supports on which the curl
   transform's point index (position in support_elements) is the element number, e.g. prefixes *)
Theorem C17_hypersingular_glue :
  forall (A : Type) (RO : ops A), IsRing RO -> forall (ver : fmm_version),
  forall (G4 : vec3 A -> vec3 A -> nat -> A) (g : geom) (st ss : space) (Et Es : list nat) (nE : nat)
         (quad : list qpt) (nbrs : nat -> list nat) (kr ks : kernel) (pairs : list spair) (n : nat),
  (forall f, In f Es -> f < nE) ->
  (forall e, In e Et -> NoDup (nbrs e)) ->
  (forall e f, In e Et -> In f Es -> memb f (nbrs e) = adjacent (g_verts g e) (g_verts g f)) ->
  (forall f j, In f Es -> j < s_nshape ss -> s_l2g ss f j < n) ->
  (forall (pr : spair) j, In pr pairs -> j < s_nshape ss -> s_l2g ss (sp_f pr) j < n) ->
  slot_exact (slot_pos ver) Et -> slot_exact (slot_pos ver) Es ->
  (forall a b nx ny, kr a b nx ny = G4 a b 0) ->
  is_p1 RO st -> is_p1 RO ss ->
  forall (k : A) (x : nat -> A),
  maps_ok ver Et Es = true ->
  exists f : nat -> A,
    glue_helmholtz_hypersingular RO ver G4 g g st ss Et Es nE quad nbrs (helm_hyp_singular RO g st ss ks k pairs) k x
      = Some f /\
    forall I, f I = matvec (o0 RO) (oadd RO) (omul RO) n
        (fun I0 J => entry (o0 RO) (oadd RO) I0 J (helm_hyp_dense RO g st ss quad kr ks Et Es pairs k)) x I.
Proof. exact @glue_helmholtz_hypersingular_correct. Qed.
Print Assumptions C17_hypersingular_glue.

Theorem C17_hypersingular_glue_laplace_modified :
  forall (A : Type) (RO : ops A), IsRing RO -> forall (ver : fmm_version),
  forall (G4 : vec3 A -> vec3 A -> nat -> A) (g : geom) (st ss : space) (Et Es : list nat) (nE : nat)
         (quad : list qpt) (nbrs : nat -> list nat) (kr ks : kernel) (pairs : list spair) (n : nat),
  (forall f, In f Es -> f < nE) ->
  (forall e, In e Et -> NoDup (nbrs e)) ->
  (forall e f, In e Et -> In f Es -> memb f (nbrs e) = adjacent (g_verts g e) (g_verts g f)) ->
  (forall f j, In f Es -> j < s_nshape ss -> s_l2g ss f j < n) ->
  (forall (pr : spair) j, In pr pairs -> j < s_nshape ss -> s_l2g ss (sp_f pr) j < n) ->
  slot_exact (slot_pos ver) Et -> slot_exact (slot_pos ver) Es ->
  (forall a b nx ny, kr a b nx ny = G4 a b 0) ->
  is_p1 RO st -> is_p1 RO ss ->
  forall (k : A) (x : nat -> A),
  maps_ok ver Et Es = true ->
  (exists f : nat -> A,
    glue_laplace_hypersingular RO ver G4 g g st ss Et Es nE quad nbrs (lap_hyp_singular RO g st ss ks pairs) x = Some f /\
    forall I, f I = matvec (o0 RO) (oadd RO) (omul RO) n
        (fun I0 J => entry (o0 RO) (oadd RO) I0 J (lap_hyp_dense RO g st ss quad kr ks Et Es pairs)) x I) /\
  (exists f : nat -> A,
    glue_modhelm_hypersingular RO ver G4 g g st ss Et Es nE quad nbrs (modhelm_hyp_singular RO g st ss ks k pairs) k x
      = Some f /\
    forall I, f I = matvec (o0 RO) (oadd RO) (omul RO) n
        (fun I0 J => entry (o0 RO) (oadd RO) I0 J (modhelm_hyp_dense RO g st ss quad kr ks Et Es pairs k)) x I).
Proof. exact @C17_hypersingular_glue_laplace_modified_l. Qed.
Print Assumptions C17_hypersingular_glue_laplace_modified.

(* Maxwell: rinv multiplicative and an exact inverse on the integration elements (field inverse, J <> 0) *)
Theorem C17_maxwell_glue_electric :
  forall (A : Type) (RO : ops A), IsRing RO -> forall (ver : fmm_version),
  forall (G4 : vec3 A -> vec3 A -> nat -> A) (g : geom) (st ss : space) (Et Es : list nat) (nE : nat)
         (quad : list qpt) (nbrs : nat -> list nat) (kr ks : kernel) (pairs : list spair) (n : nat),
  (forall f, In f Es -> f < nE) ->
  (forall e, In e Et -> NoDup (nbrs e)) ->
  (forall e f, In e Et -> In f Es -> memb f (nbrs e) = adjacent (g_verts g e) (g_verts g f)) ->
  (forall f j, In f Es -> j < s_nshape ss -> s_l2g ss f j < n) ->
  (forall (pr : spair) j, In pr pairs -> j < s_nshape ss -> s_l2g ss (sp_f pr) j < n) ->
  slot_exact (slot_pos ver) Et -> slot_exact (slot_pos ver) Es ->
  (forall a b nx ny, kr a b nx ny = G4 a b 0) ->
  forall mik ik : A,
  (forall a b : A, oinv RO (omul RO a b) = omul RO (oinv RO a) (oinv RO b)) ->
  (forall e, In e Et -> omul RO (g_intel g e) (oinv RO (g_intel g e)) = o1 RO) ->
  (forall f, In f Es -> omul RO (g_intel g f) (oinv RO (g_intel g f)) = o1 RO) ->
  forall (x : nat -> A) (I : nat),
  glue_efield RO ver G4 g g st ss Et Es nE quad nbrs (efield_singular RO g st ss ks mik ik pairs) mik ik x I =
  matvec (o0 RO) (oadd RO) (omul RO) n
    (fun I0 J => entry (o0 RO) (oadd RO) I0 J (efield_dense RO g st ss quad kr ks Et Es pairs mik ik)) x I.
Proof. exact @glue_efield_correct. Qed.
Print Assumptions C17_maxwell_glue_electric.

(* magnetic field: the evaluator's gradient components are the analytic gradient of its value *)
Theorem C17_maxwell_glue_magnetic :
  forall (A : Type) (RO : ops A), IsRing RO -> forall (ver : fmm_version),
  forall (G4 : vec3 A -> vec3 A -> nat -> A) (g : geom) (st ss : space) (Et Es : list nat) (nE : nat)
         (quad : list qpt) (nbrs : nat -> list nat) (kr ks : kernel) (pairs : list spair) (n : nat),
  (forall f, In f Es -> f < nE) ->
  (forall e, In e Et -> NoDup (nbrs e)) ->
  (forall e f, In e Et -> In f Es -> memb f (nbrs e) = adjacent (g_verts g e) (g_verts g f)) ->
  (forall f j, In f Es -> j < s_nshape ss -> s_l2g ss f j < n) ->
  (forall (pr : spair) j, In pr pairs -> j < s_nshape ss -> s_l2g ss (sp_f pr) j < n) ->
  slot_exact (slot_pos ver) Et -> slot_exact (slot_pos ver) Es ->
  (forall a b nx ny, kr a b nx ny = G4 a b 0) ->
  forall (ik : A) (dist : vec3 A -> vec3 A -> A),
  (forall a b d, d < 3 ->
     G4 a b (S d) =
     omul RO (omul RO (omul RO (G4 a b 0) (osub RO (omul RO ik (dist a b)) (o1 RO)))
                      (oinv RO (omul RO (dist a b) (dist a b)))) (comp (vsub (osub RO) a b) d)) ->
  forall (x : nat -> A) (I : nat),
  glue_mfield RO ver G4 g g st ss Et Es nE quad nbrs (mfield_singular RO g st ss ks dist ik pairs) x I =
  matvec (o0 RO) (oadd RO) (omul RO) n
    (fun I0 J => entry (o0 RO) (oadd RO) I0 J (mfield_dense RO g st ss quad kr ks Et Es pairs dist ik)) x I.
Proof. exact @glue_mfield_correct. Qed.
Print Assumptions C17_maxwell_glue_magnetic.

(* potential operators: FMM-mode potential = dense potential model *)
Theorem C17_potential_glue :
  forall (A : Type) (RO : ops A), IsRing RO -> forall (ver : fmm_version),
  forall (G4 : vec3 A -> vec3 A -> nat -> A) (gs : geom) (ss : space) (Es : list nat) (nEs : nat)
         (quad : list qpt) (ksl kdl : kernel),
  NoDup Es -> (forall f, In f Es -> f < nEs) -> msp_ok ver Es = true ->
  forall x : nat -> A,
  (forall a b nx ny, ksl a b nx ny = G4 a b 0) ->
  (forall a b nx ny, kdl a b nx ny =
       osub RO (o0 RO) (sumn (o0 RO) (oadd RO) 3 (fun c => omul RO (G4 a b (S c)) (comp ny c)))) ->
  (exists f, glue_pot_single_layer RO ver G4 gs ss Es nEs quad x = Some f /\
             forall pt, f pt = potential_eval RO gs ss quad ksl Es x pt) /\
  (exists f, glue_pot_double_layer RO ver G4 gs ss Es nEs quad x = Some f /\
             forall pt, f pt = potential_eval RO gs ss quad kdl Es x pt).
Proof. exact @C17_potential_glue_l. Qed.
Print Assumptions C17_potential_glue.

(* supports that are a prefix 0..n-1 of the element list satisfy the support hypotheses of all theorems above *)
Theorem C17_prefix_supports_ok :
  forall (ver : fmm_version) (nt ns : nat),
  maps_ok ver (seq 0 nt) (seq 0 ns) = true /\ slot_exact (slot_pos ver) (seq 0 nt) /\ slot_exact slot_elem (seq 0 nt).
Proof. exact prefix_supports_ok. Qed.
Print Assumptions C17_prefix_supports_ok.

(* with the repaired indexing (both version flags false) the support hypotheses hold for EVERY support, i.e. the
   glue theorems above then hold for all segments *)
Theorem C17_fixed_indexing_all_supports :
  forall (ver : fmm_version),
  v_transform_by_position ver = false -> v_msp_store_by_element ver = false ->
  forall Et Es : list nat,
  maps_ok ver Et Es = true /\ slot_exact (slot_pos ver) Et /\ slot_exact (slot_pos ver) Es.
Proof. exact fixed_indexing_all_supports. Qed.
Print Assumptions C17_fixed_indexing_all_supports.

(* REFUTED for other supports (indexing of the pinned tree, version flags true; which version the current
   source has is regenerated into gen/FmmIndexing.v and used by the correspondence):
   (1) map_space_to_points_impl stores its output at [elem*nlocal : (elem+1)*nlocal] of arrays of length
       nlocal*len(support): on the sorted, duplicate-free support [1] it raises, so every glue that uses
       space.map_to_points raises while the dense assembler is defined *)
Theorem C17_point_map_refuted :
  forall (A : Type) (RO : ops A) (ver : fmm_version),
  v_msp_store_by_element ver = true ->
  exists supp : list nat, NoDup supp /\ (forall i j, i < j < length supp -> nth i supp 0 < nth j supp 0) /\
    forall G4 (gt gs : geom) (st ss : space) nEs quad nbrs Sing (x : nat -> A),
      glue_single_layer RO ver G4 gt gs st ss supp supp nEs quad nbrs Sing x = None /\
      glue_laplace_hypersingular RO ver G4 gt gs st ss supp supp nEs quad nbrs Sing x = None /\
      glue_pot_single_layer RO ver G4 gs ss supp nEs quad x = None.
Proof. exact @C17_point_map_refuted_l. Qed.
Print Assumptions C17_point_map_refuted.

(* (2) the curl / RWG / div transforms write to point slot nq*position+q instead of nq*element+q: on a trial support
       [2] (all other hypotheses of C17_maxwell_glue_electric hold) the glue differs from the dense matrix *)
Theorem C17_transform_point_index_refuted :
  NoDup [2] /\ slot_exact (slot_pos pinned) [0] /\ ~ slot_exact (slot_pos pinned) [2] /\
  (forall e f, In e [0] -> In f [2] -> memb f (w_nbrs e) = adjacent (g_verts w_geom e) (g_verts w_geom f)) /\
  glue_efield Zops1 pinned w_G4 w_geom w_geom w_space w_space [0] [2] 3 w_quad w_nbrs nil 2%Z 1%Z (unitv Zops1 0) 0 <>
  matvec 0%Z Z.add Z.mul 3
     (fun I J => entry 0%Z Z.add I J
        (efield_dense Zops1 w_geom w_space w_space w_quad (fun a b _ _ => w_G4 a b 0) (fun a b _ _ => w_G4 a b 0)
                      [0] [2] nil 2%Z 1%Z))
     (unitv Zops1 0) 0.
Proof. exact transform_point_index_refuted. Qed.
Print Assumptions C17_transform_point_index_refuted.

(* Reuse of the trial-side transforms on the test side (make_scalar_hypersingular: target_curls_trans =
   source_curls_trans; Maxwell: dual_rwg_map from the domain).  The condition in the current source is regenerated by
   translators/fmm_indexing.py (fails closed unless it is equality of the two SPACES).  Sound under space equality: *)
Theorem C17_reuse_sound_under_space_equality :
  forall (A : Type) (RO : ops A) (ver : fmm_version)
         (G4 : vec3 A -> vec3 A -> nat -> A) (g : geom) (s : space) (E : list nat) (nEs : nat) (quad : list qpt)
         (nbrs : nat -> list nat) (x : nat -> A) (I : nat),
  curl_part_shared RO ver G4 g g s E nEs quad nbrs x I = curl_part RO ver G4 g g s s E E nEs quad nbrs x I /\
  rwg_part_shared RO ver G4 g g s E nEs quad nbrs x I = rwg_part RO ver G4 g g s s E E nEs quad nbrs x I.
Proof. exact @reuse_sound_under_space_equality. Qed.
Print Assumptions C17_reuse_sound_under_space_equality.

(* ... and not under equality of the grids only: same geometry, support and dof map, swapped normals on the test side *)
Theorem C17_reuse_unsound_on_equal_grids :
  curl_part_shared Zops1 fixed_version w_G4 w_geom w_geom w_space [0; 2] 3 w_quad w_nbrs (unitv Zops1 0) 0 <>
  curl_part Zops1 fixed_version w_G4 w_geom w_geom w_space_swapped w_space [0; 2] [0; 2] 3 w_quad w_nbrs
     (unitv Zops1 0) 0.
Proof. exact reuse_unsound_on_equal_grids. Qed.
Print Assumptions C17_reuse_unsound_on_equal_grids.
