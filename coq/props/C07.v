(* C07 -- Boundary operators between disjoint grids equal Galerkin-tested potentials.
   Statements only.  Models: AssemblyB/Model.v (boundary assemblers), AssemblyB/PotModel.v (potential assemblers,
   map_to_full_grid, grid_to_points); tie H by correspondence (harness/c07_impl.py).  All parameters (ring, two
   geometries, spaces, rule, kernel, element lists) universally quantified. *)
From Coq Require Import List Arith.
From BV Require Import AssemblyB.Defs AssemblyB.Model AssemblyB.PotModel AssemblyB.Decomposition AssemblyB.TwoGrids AssemblyB.PropLemmas.

(* with grids_identical = false the regular model integrates all pairs (no adjacency skipping, no singular part)
   and each column J is the potential of the J-th trial basis function, evaluated at the test grid's quadrature
   points and integrated against the test functions *)
Theorem C07_two_grid_equals_tested_potential :
  forall (A : Type) (RO : ops A) (Hring : IsRing RO)
         (gt gs : geom) (st ss : space) (quad : list qpt) (kern : kernel) (Et Es : list nat) (I J : nat),
  (forall x y n1 n2 ny, kern x y n1 ny = kern x y n2 ny) ->      (* single/double layer: no test normal *)
  NoDup Es ->
  entry (o0 RO) (oadd RO) I J (scalar_regular RO gt gs st ss quad kern false Et Es) =
  sumf (o0 RO) (oadd RO) (fun e => sumf (o0 RO) (oadd RO) (fun p =>
      omul RO (omul RO (omul RO (q_w p) (g_intel gt e)) (test_fun RO st I e p))
              (potential_eval RO gs ss quad kern Es (unit_vec RO J) (xt RO gt e p))) quad) Et.
Proof. exact @C07_two_grid_equals_tested_potential_l. Qed.
Print Assumptions C07_two_grid_equals_tested_potential.

(* the test points are enumerated as grid_to_points does: point npts*e + q = q-th rule point of element e *)
Theorem C07_point_cloud_order :
  forall (A : Type) (RO : ops A) (g : geom) (n : nat) (quad : list qpt) (e q : nat) (d : vec3 A) (dq : qpt),
  e < n -> q < length quad ->
  nth (length quad * e + q) (grid_to_points RO g n quad) d =
  l2g_point RO g e (q_u (nth q quad dq)) (q_v (nth q quad dq)).
Proof. exact @point_cloud_order. Qed.
Print Assumptions C07_point_cloud_order.

(* magnetic field: M[I,J] = - sum_{e,p} w_p J_e <RWG test function I, magnetic potential of basis function J>
   ( = <SNC test function, potential x n> since the SNC function is n x RWG function ) *)
Theorem C07_mfield :
  forall (A : Type) (RO : ops A) (Hring : IsRing RO)
         (gt gs : geom) (st ss : space) (quad : list qpt) (kern : kernel) (Et Es : list nat)
         (dist : vec3 A -> vec3 A -> A) (ik : A) (I J : nat),
  s_nshape st = 3 -> s_nshape ss = 3 -> NoDup Es ->
  entry (o0 RO) (oadd RO) I J (mfield_regular RO gt gs st ss quad kern false dist ik Et Es) =
  osub RO (o0 RO) (sumf (o0 RO) (oadd RO) (fun e => sumf (o0 RO) (oadd RO) (fun p =>
      sumn (o0 RO) (oadd RO) 3 (fun i =>
        omul RO (omul RO (omul RO (omul RO (q_w p) (g_intel gt e))
                                  (omul RO (delta (o0 RO) (o1 RO) (s_l2g st e i) I) (s_mult st e i)))
                         (g_elen gt e i))
          (dot3 (oadd RO) (omul RO) (piola RO gt e i (q_u p) (q_v p))
             (mfield_potential RO gs ss quad kern Es dist ik (full_coeffs RO ss Es (unit_vec RO J)) (xt RO gt e p)))))
      quad) Et).
Proof. exact @C07_mfield_l. Qed.
Print Assumptions C07_mfield.

(* electric field, PARTIAL: the boundary kernel uses the div-div (weak) form, the potential kernel the analytic
   gradient (1j*k*r - 1)/(1j*k*r^2); their equality is integration by parts on the trial surface and is not proved.
   Proved: the boundary integrand splits into vector part - div part, and the vector part equals the tested
   vector part of the potential (boundary coefficient -ik in place of +ik). *)
Theorem C07_efield_partial :
  forall (A : Type) (RO : ops A) (Hring : IsRing RO)
         (gt gs : geom) (st ss : space) (quad : list qpt) (kern : kernel) (Et Es : list nat)
         (mik ik : A) (I J : nat),
  s_nshape st = 3 -> s_nshape ss = 3 -> NoDup Es ->
  (forall e f i j, efield_loc RO gt gs quad kern mik ik e f i j =
      osub RO (efield_vec_loc RO gt gs quad kern mik e f i j) (efield_div_loc RO gt gs quad kern ik e f i j)) /\
  entry (o0 RO) (oadd RO) I J
    (reg_assemble RO gt st ss false Et Es (efield_vec_loc RO gt gs quad kern mik) (mx_fac RO gt gs st ss)) =
  sumf (o0 RO) (oadd RO) (fun e => sumf (o0 RO) (oadd RO) (fun p =>
      sumn (o0 RO) (oadd RO) 3 (fun i =>
        omul RO (omul RO (omul RO (omul RO (q_w p) (g_intel gt e))
                                  (omul RO (delta (o0 RO) (o1 RO) (s_l2g st e i) I) (s_mult st e i)))
                         (g_elen gt e i))
          (dot3 (oadd RO) (omul RO) (piola RO gt e i (q_u p) (q_v p))
             (efield_potential_vec RO gs ss quad kern Es mik (full_coeffs RO ss Es (unit_vec RO J)) (xt RO gt e p)))))
      quad) Et.
Proof. exact @C07_efield_partial_l. Qed.
Print Assumptions C07_efield_partial.
