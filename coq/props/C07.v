(* C07 -- Boundary operators between disjoint grids equal Galerkin-tested potentials.
   Statements only.  Models: AssemblyB/Model.v (boundary assemblers), AssemblyB/PotModel.v (potential assemblers,
   map_to_full_grid, grid_to_points); tie H by correspondence (harness/c07_impl.py).  All parameters (ring, two
   geometries, spaces, rule, kernel, element lists) universally quantified. *)
From Coq Require Import List Arith.
From BV Require Import AssemblyB.Defs AssemblyB.Model AssemblyB.PotModel AssemblyB.Decomposition AssemblyB.TwoGrids AssemblyB.PropLemmas.

(* with grids_identical = false the regular model integrates all pairs (no adjacency skipping, no singular part)
   and each column J is the potential of the J-th trial basis function, evaluated at the test grid's quadrature
   points and integrated against the test functions *)
Theorem C07_two_grid_equals_tested_potential :
  forall (A : Type) (RO : ops A) (Hring : IsRing RO)
         (gt gs : geom) (st ss : space) (quad : list qpt) (kern : kernel) (Et Es : list nat) (I J : nat),
  (forall x y n1 n2 ny, kern x y n1 ny = kern x y n2 ny) ->      (* single/double layer: no test normal *)
  NoDup Es ->
  entry (o0 RO) (oadd RO) I J (scalar_regular RO gt gs st ss quad kern false Et Es) =
  sumf (o0 RO) (oadd RO) (fun e => sumf (o0 RO) (oadd RO) (fun p =>
      omul RO (omul RO (omul RO (q_w p) (g_intel gt e)) (test_fun RO st I e p))
              (potential_eval RO gs ss quad kern Es (unit_vec RO J) (xt RO gt e p))) quad) Et.
Proof. exact @C07_two_grid_equals_tested_potential_l. Qed.
Print Assumptions C07_two_grid_equals_tested_potential.

(* the test points are enumerated as grid_to_points does: point npts*e + q = q-th rule point of element e *)
Theorem C07_point_cloud_order :
  forall (A : Type) (RO : ops A) (g : geom) (n : nat) (quad : list qpt) (e q : nat) (d : vec3 A) (dq : qpt),
  e < n -> q < length quad ->
  nth (length quad * e + q) (grid_to_points RO g n quad) d =
  l2g_point RO g e (q_u (nth q quad dq)) (q_v (nth q quad dq)).
Proof. exact @point_cloud_order. Qed.
Print Assumptions C07_point_cloud_order.

(* magnetic field: M[I,J] = - sum_{e,p} w_p J_e <RWG test function I, magnetic potential of basis function J>
   ( = <SNC test function, potential x n> since the SNC function is n x RWG function ) *)
Theorem C07_mfield :
  forall (A : Type) (RO : ops A) (Hring : IsRing RO)
         (gt gs : geom) (st ss : space) (quad : list qpt) (kern : kernel) (Et Es : list nat)
         (dist : vec3 A -> vec3 A -> A) (ik : A) (I J : nat),
  s_nshape st = 3 -> s_nshape ss = 3 -> NoDup Es ->
  entry (o0 RO) (oadd RO) I J (mfield_regular RO gt gs st ss quad kern false dist ik Et Es) =
  osub RO (o0 RO) (sumf (o0 RO) (oadd RO) (fun e => sumf (o0 RO) (oadd RO) (fun p =>
      sumn (o0 RO) (oadd RO) 3 (fun i =>
        omul RO (omul RO (omul RO (omul RO (q_w p) (g_intel gt e))
                                  (omul RO (delta (o0 RO) (o1 RO) (s_l2g st e i) I) (s_mult st e i)))
                         (g_elen gt e i))
          (dot3 (oadd RO) (omul RO) (piola RO gt e i (q_u p) (q_v p))
             (mfield_potential RO gs ss quad kern Es dist ik (full_coeffs RO ss Es (unit_vec RO J)) (xt RO gt e p)))))
      quad) Et).
Proof. exact @C07_mfield_l. Qed.
Print Assumptions C07_mfield.

(* electric field, PARTIAL: the boundary kernel uses the div-div (weak) form, the potential kernel the analytic
   gradient (1j*k*r - 1)/(1j*k*r^2); their equality is integration by parts on the trial surface and is not proved.
   Proved: the boundary integrand splits into vector part - div part, and the vector part equals the tested
   vector part of the potential (boundary coefficient -ik in place of +ik). *)
Theorem C07_efield_partial :
  forall (A : Type) (RO : ops A) (Hring : IsRing RO)
         (gt gs : geom) (st ss : space) (quad : list qpt) (kern : kernel) (Et Es : list nat)
         (mik ik : A) (I J : nat),
  s_nshape st = 3 -> s_nshape ss = 3 -> NoDup Es ->
  (forall e f i j, efield_loc RO gt gs quad kern mik ik e f i j =
      osub RO (efield_vec_loc RO gt gs quad kern mik e f i j) (efield_div_loc RO gt gs quad kern ik e f i j)) /\
  entry (o0 RO) (oadd RO) I J
    (reg_assemble RO gt st ss false Et Es (efield_vec_loc RO gt gs quad kern mik) (mx_fac RO gt gs st ss)) =
  sumf (o0 RO) (oadd RO) (fun e => sumf (o0 RO) (oadd RO) (fun p =>
      sumn (o0 RO) (oadd RO) 3 (fun i =>
        omul RO (omul RO (omul RO (omul RO (q_w p) (g_intel gt e))
                                  (omul RO (delta (o0 RO) (o1 RO) (s_l2g st e i) I) (s_mult st e i)))
                         (g_elen gt e i))
          (dot3 (oadd RO) (omul RO) (piola RO gt e i (q_u p) (q_v p))
             (efield_potential_vec RO gs ss quad kern Es mik (full_coeffs RO ss Es (unit_vec RO J)) (xt RO gt e p)))))
      quad) Et.
Proof. exact @C07_efield_partial_l. Qed.
Print Assumptions C07_efield_partial.

(* Maxwell potentials (also the potential side of C02-type statements for RWG densities): the coefficients reach the
   kernels as mult[e,i]*c[l2g[e,i]] (map_to_full_grid), the potentials are exactly the kernel sums over the
   support's quadrature points, and they are exactly additive over partitions of the support *)
Theorem C07_maxwell_potentials_kernel_sum :
  forall (A : Type) (RO : ops A) (Hring : IsRing RO)
         (g : geom) (s : space) (quad : list qpt) (kern : kernel) (supp : list nat)
         (dist : vec3 A -> vec3 A -> A) (ik : A) (c : nat -> A) (pt : vec3 A) (d : nat),
  NoDup supp -> d < 3 ->
  comp (efield_potential RO g s quad kern supp dist ik (full_coeffs RO s supp c) pt) d =
  sumf (o0 RO) (oadd RO) (fun e => sumf (o0 RO) (oadd RO) (fun q =>
     omul RO (kern pt (ypt RO g e q) (vzero (o0 RO)) (vzero (o0 RO)))
       (osub RO (omul RO ik (mx_density RO g s c e q d))
          (omul RO (omul RO (omul RO (comp (vsub (osub RO) pt (ypt RO g e q)) d)
                                     (osub RO (omul RO ik (dist pt (ypt RO g e q))) (o1 RO)))
                            (mx_divdensity RO g s c e q))
                   (oinv RO (omul RO (omul RO ik (dist pt (ypt RO g e q))) (dist pt (ypt RO g e q))))))) quad) supp
  /\
  comp (mfield_potential RO g s quad kern supp dist ik (full_coeffs RO s supp c) pt) d =
  sumf (o0 RO) (oadd RO) (fun e => sumf (o0 RO) (oadd RO) (fun q =>
     comp (cross3 (omul RO) (osub RO) (vsub (osub RO) pt (ypt RO g e q))
        (vscal (omul RO)
           (omul RO (omul RO (kern pt (ypt RO g e q) (vzero (o0 RO)) (vzero (o0 RO)))
                             (osub RO (omul RO ik (dist pt (ypt RO g e q))) (o1 RO)))
                    (oinv RO (omul RO (dist pt (ypt RO g e q)) (dist pt (ypt RO g e q)))))
           (mkv (mx_density RO g s c e q)))) d) quad) supp
  /\
  (forall (x : nat -> A) (inseg : nat -> bool),
     comp (efield_potential RO g s quad kern supp dist ik x pt) d =
     oadd RO (comp (efield_potential RO g s quad kern (filter inseg supp) dist ik x pt) d)
             (comp (efield_potential RO g s quad kern (filter (fun e => negb (inseg e)) supp) dist ik x pt) d) /\
     comp (mfield_potential RO g s quad kern supp dist ik x pt) d =
     oadd RO (comp (mfield_potential RO g s quad kern (filter inseg supp) dist ik x pt) d)
             (comp (mfield_potential RO g s quad kern (filter (fun e => negb (inseg e)) supp) dist ik x pt) d)).
Proof. exact @C07_maxwell_potentials_kernel_sum_l. Qed.
Print Assumptions C07_maxwell_potentials_kernel_sum.
