(* C05 -- Helmholtz-family operators are consistent with Laplace and with each other.
   Only statements; lemmas are proved in theories/Kernels/C05Lemmas.v over definitions regenerated from
   core/numba_kernels.py, api/fmm/helpers.py and the operator factories on every run. *)
From Coq Require Import Reals String List.
From BVgen Require Import NumbaKernels Dispatch Hypersingular.
From BV Require Import Kernels.KernelTactics Kernels.DispatchModel Kernels.C05Lemmas Kernels.SmallK Kernels.SmallKComplex Kernels.Invariance Kernels.HypersingularLemmas.
Import ListNotations.
Open Scope R_scope.
Open Scope string_scope.

(* For kind in {single_layer, double_layer, adjoint_double_layer}, with h/l/m the functions select_numba_kernels
   returns for helmholtz_<kind> / laplace_<kind> / modified_helmholtz_<kind> in regular (= potential) mode, for all
   x <> y, normals:  h(k=0) = l;  h(k = i w) = m(w) (imaginary part 0);  h(-conj k) = conj h(k). *)
Theorem C05_family_regular : forall kind, In kind ["single_layer"; "double_layer"; "adjoint_double_layer"] ->
  family_ok numba_kernel_functions_regular kind.
Proof. exact (fun k H => proj1 (Forall_forall _ _) family_regular k H). Qed.
Print Assumptions C05_family_regular.

(* the same for the kernels used by the singular (Duffy) assembler *)
Theorem C05_family_singular : forall kind, In kind ["single_layer"; "double_layer"; "adjoint_double_layer"] ->
  family_ok numba_kernel_functions_singular kind.
Proof. exact (fun k H => proj1 (Forall_forall _ _) family_singular k H). Qed.
Print Assumptions C05_family_singular.

(* K_sl(x,y) = K_sl(y,x) and K_adl(x,y; n_x) = K_dl(y,x; trial normal := n_x), for the Laplace, Helmholtz (complex k)
   and modified Helmholtz kernels, regular and singular.  With the congruence theorem of C04 this gives V = V^T and
   K' = K^T for the regular part exactly; symmetry of the Duffy rules is not part of this theorem. *)
Theorem C05_symmetry_partial : forall fam, In fam ["laplace_"; "helmholtz_"; "modified_helmholtz_"] ->
  symmetry_ok numba_kernel_functions_regular fam /\ symmetry_ok numba_kernel_functions_singular fam.
Proof.
  exact (fun f H => conj (proj1 (Forall_forall _ _) symmetry_regular f H)
                         (proj1 (Forall_forall _ _) symmetry_singular f H)).
Qed.
Print Assumptions C05_symmetry_partial.

(* FMM point kernels of api/fmm/helpers.py: the value slot is the single-layer kernel ... *)
Theorem C05_fmm_values : forall x0 x1 x2 y0 y1 y2 nx0 nx1 nx2 ny0 ny1 ny2 p0 p1 : R,
  (x0, x1, x2) <> (y0, y1, y2) ->
  (fmm_laplace_kernel_0_re x0 x1 x2 y0 y1 y2 p0 p1, fmm_laplace_kernel_0_im x0 x1 x2 y0 y1 y2 p0 p1)
    = laplace_single_layer_regular x0 x1 x2 y0 y1 y2 nx0 nx1 nx2 ny0 ny1 ny2 p0 p1 /\
  (fmm_modified_helmholtz_kernel_0_re x0 x1 x2 y0 y1 y2 p0 p1, fmm_modified_helmholtz_kernel_0_im x0 x1 x2 y0 y1 y2 p0 p1)
    = modified_helmholtz_single_layer_regular x0 x1 x2 y0 y1 y2 nx0 nx1 nx2 ny0 ny1 ny2 p0 p1 /\
  (fmm_helmholtz_kernel_0_re x0 x1 x2 y0 y1 y2 p0 p1, fmm_helmholtz_kernel_0_im x0 x1 x2 y0 y1 y2 p0 p1)
    = helmholtz_single_layer_regular x0 x1 x2 y0 y1 y2 nx0 nx1 nx2 ny0 ny1 ny2 p0 p1.
Proof. exact fmm_values_are_single_layer. Qed.
Print Assumptions C05_fmm_values.

(* ... and the gradient slots obey the same family laws (k = 0: Laplace; k = i w: modified Helmholtz) *)
Theorem C05_fmm_gradients : forall x0 x1 x2 y0 y1 y2 w q0 q1 : R,
  (x0, x1, x2) <> (y0, y1, y2) ->
  (fmm_helmholtz_kernel_1_re x0 x1 x2 y0 y1 y2 0 0 = fmm_laplace_kernel_1_re x0 x1 x2 y0 y1 y2 q0 q1 /\
   fmm_helmholtz_kernel_2_re x0 x1 x2 y0 y1 y2 0 0 = fmm_laplace_kernel_2_re x0 x1 x2 y0 y1 y2 q0 q1 /\
   fmm_helmholtz_kernel_3_re x0 x1 x2 y0 y1 y2 0 0 = fmm_laplace_kernel_3_re x0 x1 x2 y0 y1 y2 q0 q1) /\
  (fmm_helmholtz_kernel_1_im x0 x1 x2 y0 y1 y2 0 0 = 0 /\ fmm_helmholtz_kernel_2_im x0 x1 x2 y0 y1 y2 0 0 = 0 /\
   fmm_helmholtz_kernel_3_im x0 x1 x2 y0 y1 y2 0 0 = 0) /\
  (fmm_helmholtz_kernel_1_re x0 x1 x2 y0 y1 y2 0 w = fmm_modified_helmholtz_kernel_1_re x0 x1 x2 y0 y1 y2 w q1 /\
   fmm_helmholtz_kernel_2_re x0 x1 x2 y0 y1 y2 0 w = fmm_modified_helmholtz_kernel_2_re x0 x1 x2 y0 y1 y2 w q1 /\
   fmm_helmholtz_kernel_3_re x0 x1 x2 y0 y1 y2 0 w = fmm_modified_helmholtz_kernel_3_re x0 x1 x2 y0 y1 y2 w q1) /\
  (fmm_helmholtz_kernel_1_im x0 x1 x2 y0 y1 y2 0 w = 0 /\ fmm_helmholtz_kernel_2_im x0 x1 x2 y0 y1 y2 0 w = 0 /\
   fmm_helmholtz_kernel_3_im x0 x1 x2 y0 y1 y2 0 w = 0).
Proof. exact fmm_gradient_family. Qed.
Print Assumptions C05_fmm_gradients.

(* Dispatch (table gen/Dispatch.v, semantics theories/Kernels/DispatchModel.v): every boundary Helmholtz factory called
   with k = i w builds exactly the descriptor the modified Helmholtz factory of the same name builds for w, for all w,
   and does not raise. *)
Theorem C05_dispatch_boundary : forall f, In f (helmholtz_factories "boundary") -> dispatch_spec f.
Proof. exact (fun f H => proj1 (Forall_forall _ _) dispatch_boundary f H). Qed.
Print Assumptions C05_dispatch_boundary.

(* Potential Helmholtz factories: each one either meets the same specification or -- lead 9.1, the state of the pinned
   tree -- raises ValueError for k = i; the two alternatives exclude each other (C05_dispatch_defect_refutes). *)
Theorem C05_dispatch_potential_refuted_unless_fixed : forall f, In f (helmholtz_factories "potential") ->
  dispatch_spec f \/ dispatch_defect f.
Proof. exact (fun f H => proj1 (Forall_forall _ _) dispatch_potential f H). Qed.
Print Assumptions C05_dispatch_potential_refuted_unless_fixed.

Theorem C05_dispatch_defect_refutes : forall f, dispatch_defect f -> ~ dispatch_spec f.
Proof. exact defect_refutes_spec. Qed.
Print Assumptions C05_dispatch_defect_refutes.

(* the quantifications above are not vacuous: 4 boundary and 2 potential Helmholtz factories are in the table *)
Theorem C05_dispatch_nonempty :
  length (helmholtz_factories "boundary") = 4%nat /\ length (helmholtz_factories "potential") = 2%nat.
Proof. exact dispatch_nonempty. Qed.
Print Assumptions C05_dispatch_nonempty.

(* every kernel type a factory puts into its descriptor is a key of select_numba_kernels *)
Theorem C05_factories_kernel_types_known :
  Forall (fun f => kernel_of numba_kernel_functions_regular (f_kernel_type f) <> None) factories.
Proof. exact factories_kernel_types_known. Qed.
Print Assumptions C05_factories_kernel_types_known.

(* Pointwise small-wavenumber bounds of the property's first sentence, on the generated regular (= potential) kernels,
   with r = |x - y|, stated as squared moduli.  _partial: proved for purely real k (single and double layer) and purely
   imaginary k (single layer); general complex k, the adjoint double layer, and the lift to matrix entries through the
   quadrature sum (m m' factor) are not proved -- the search checks the matrix bounds on assembled operators. *)
Theorem C05_small_k_bounds_partial :
  forall x0 x1 x2 y0 y1 y2 nx0 nx1 nx2 ny0 ny1 ny2 : R, (x0, x1, x2) <> (y0, y1, y2) ->
  let r := sqrt (r2 x0 x1 x2 y0 y1 y2) in
  (* real k, |k| r <= 1:  |K_helm - K_lap - i k/(4 pi)| <= k^2 r/(4 pi) *)
  (forall k p q : R, (k * r) * (k * r) <= 1 ->
     let re := helmholtz_single_layer_regular_re x0 x1 x2 y0 y1 y2 nx0 nx1 nx2 ny0 ny1 ny2 k 0 in
     let im := helmholtz_single_layer_regular_im x0 x1 x2 y0 y1 y2 nx0 nx1 nx2 ny0 ny1 ny2 k 0 in
     let l := laplace_single_layer_regular_re x0 x1 x2 y0 y1 y2 nx0 nx1 nx2 ny0 ny1 ny2 p q in
     (re - l) * (re - l) + (im - k / (4 * PI)) * (im - k / (4 * PI)) <= (k * k * r / (4 * PI)) * (k * k * r / (4 * PI))) /\
  (* k = i w, |w| r <= 1:  real, and 0 <= K_helm - K_lap - i(iw)/(4 pi) <= w^2 r/(4 pi) *)
  (forall w p q : R, -1 <= w * r <= 1 ->
     let re := helmholtz_single_layer_regular_re x0 x1 x2 y0 y1 y2 nx0 nx1 nx2 ny0 ny1 ny2 0 w in
     let im := helmholtz_single_layer_regular_im x0 x1 x2 y0 y1 y2 nx0 nx1 nx2 ny0 ny1 ny2 0 w in
     let l := laplace_single_layer_regular_re x0 x1 x2 y0 y1 y2 nx0 nx1 nx2 ny0 ny1 ny2 p q in
     im = 0 /\ 0 <= re - l - (- w) / (4 * PI) <= w * w * r / (4 * PI)) /\
  (* real k, |k| r <= 1:  |K_dl,helm - K_dl,lap| <= k^2/(4 pi) |n_y.(y-x)|/r  (<= k^2/(4 pi) for a unit normal) *)
  (forall k : R, (k * r) * (k * r) <= 1 ->
     let re := helmholtz_double_layer_regular_re x0 x1 x2 y0 y1 y2 nx0 nx1 nx2 ny0 ny1 ny2 k 0 in
     let im := helmholtz_double_layer_regular_im x0 x1 x2 y0 y1 y2 nx0 nx1 nx2 ny0 ny1 ny2 k 0 in
     let l := laplace_double_layer_regular_re x0 x1 x2 y0 y1 y2 nx0 nx1 nx2 ny0 ny1 ny2 k 0 in
     let cosang := ((y0 - x0) * ny0 + (y1 - x1) * ny1 + (y2 - x2) * ny2) / r in
     (re - l) * (re - l) + im * im <= (k * k / (4 * PI) * cosang) * (k * k / (4 * PI) * cosang)).
Proof.
  exact (fun x0 x1 x2 y0 y1 y2 nx0 nx1 nx2 ny0 ny1 ny2 H =>
    conj (helmholtz_sl_small_real_k x0 x1 x2 y0 y1 y2 nx0 nx1 nx2 ny0 ny1 ny2 H)
   (conj (helmholtz_sl_small_imag_k x0 x1 x2 y0 y1 y2 nx0 nx1 nx2 ny0 ny1 ny2 H)
         (helmholtz_dl_small_real_k x0 x1 x2 y0 y1 y2 nx0 nx1 nx2 ny0 ny1 ny2 H))).
Qed.
Print Assumptions C05_small_k_bounds_partial.

(* General complex wavenumber k = kr + i ki with |k| r <= 1 (r = |x - y|): the single-layer bound of the property,
   |K_helm - K_lap - i k/(4 pi)| <= |k|^2 r/(4 pi), squared moduli, for all x <> y.  Proof: |e^z - 1 - z| <= |z|^2 for |z| <= 1
   by comparing second derivatives along the ray t z (theories/Kernels/SmallKComplex.v), no complex analysis needed.
   The double-layer / adjoint bounds for complex k and the lift to matrix entries remain search-only. *)
Theorem C05_small_k_complex_single_layer :
  forall x0 x1 x2 y0 y1 y2 nx0 nx1 nx2 ny0 ny1 ny2 kr ki p q : R, (x0, x1, x2) <> (y0, y1, y2) ->
  let r := sqrt (r2 x0 x1 x2 y0 y1 y2) in
  (kr * kr + ki * ki) * (r * r) <= 1 ->
  let re := helmholtz_single_layer_regular_re x0 x1 x2 y0 y1 y2 nx0 nx1 nx2 ny0 ny1 ny2 kr ki in
  let im := helmholtz_single_layer_regular_im x0 x1 x2 y0 y1 y2 nx0 nx1 nx2 ny0 ny1 ny2 kr ki in
  let l := laplace_single_layer_regular_re x0 x1 x2 y0 y1 y2 nx0 nx1 nx2 ny0 ny1 ny2 p q in
  (re - l - (- ki) / (4 * PI)) * (re - l - (- ki) / (4 * PI)) + (im - kr / (4 * PI)) * (im - kr / (4 * PI))
  <= ((kr * kr + ki * ki) * r / (4 * PI)) * ((kr * kr + ki * ki) * r / (4 * PI)).
Proof. exact helmholtz_sl_small_complex_k. Qed.
Print Assumptions C05_small_k_complex_single_layer.

(* General complex k with |k| r <= 1: the double-layer and adjoint double-layer bounds of the property,
   |K_helm - K_lap| <= |k|^2/(4 pi) * |n.(y-x)|/r  (<= |k|^2/(4 pi) for a unit normal), squared moduli, all x <> y.
   Proof: |(1 - z) e^z - 1| <= |z|^2 for |z| <= 1 by the same ray comparison, with e^a (a-1) + 1 <= a^2 on [-1, 1]. *)
Theorem C05_small_k_complex_double_layers :
  forall x0 x1 x2 y0 y1 y2 nx0 nx1 nx2 ny0 ny1 ny2 kr ki p q : R, (x0, x1, x2) <> (y0, y1, y2) ->
  let r := sqrt (r2 x0 x1 x2 y0 y1 y2) in
  (kr * kr + ki * ki) * (r * r) <= 1 ->
  let bound (d : R) := ((kr * kr + ki * ki) / (4 * PI) * (d / r)) * ((kr * kr + ki * ki) / (4 * PI) * (d / r)) in
  let dl := helmholtz_double_layer_regular x0 x1 x2 y0 y1 y2 nx0 nx1 nx2 ny0 ny1 ny2 kr ki in
  let ldl := fst (laplace_double_layer_regular x0 x1 x2 y0 y1 y2 nx0 nx1 nx2 ny0 ny1 ny2 p q) in
  let adl := helmholtz_adjoint_double_layer_regular x0 x1 x2 y0 y1 y2 nx0 nx1 nx2 ny0 ny1 ny2 kr ki in
  let ladl := fst (laplace_adjoint_double_layer_regular x0 x1 x2 y0 y1 y2 nx0 nx1 nx2 ny0 ny1 ny2 p q) in
  (fst dl - ldl) * (fst dl - ldl) + snd dl * snd dl <= bound (dotd x0 x1 x2 y0 y1 y2 ny0 ny1 ny2) /\
  (fst adl - ladl) * (fst adl - ladl) + snd adl * snd adl <= bound (dotd x0 x1 x2 y0 y1 y2 nx0 nx1 nx2).
Proof. exact helmholtz_dl_adl_small_complex_k. Qed.
Print Assumptions C05_small_k_complex_double_layers.

(* Hypersingular assemblers (gen/Hypersingular.v: the complex factor M of the normal-product term, integrand
   G (curl_t.curl_s + M phi_t phi_s n_t.n_s), translated from the six *_hypersingular_regular/_singular functions; fails closed):
   M_laplace = 0, M_helmholtz = -k^2 for complex k, M_modified = +w^2; k = 0 gives Laplace, k = i w gives modified Helmholtz
   for w, -conj k conjugates -- for the regular and for the singular assembler (which therefore use the same factor). *)
Theorem C05_hypersingular_family :
  hyp_family_ok numba_assembly_functions_regular /\ hyp_family_ok numba_assembly_functions_singular.
Proof. exact (conj hyp_family_regular hyp_family_singular). Qed.
Print Assumptions C05_hypersingular_family.

(* the three hypersingular factories ask for the single-layer kernel and the hypersingular assembler of their own family *)
Theorem C05_hypersingular_factories :
  Forall (fun f => f_kernel_type f = f_module f ++ "_single_layer" /\ f_assembly_type f = f_module f ++ "_hypersingular")
         (filter is_hypersingular factories) /\ length (filter is_hypersingular factories) = 3%nat.
Proof. exact hypersingular_factories_kernels. Qed.
Print Assumptions C05_hypersingular_factories.

(* whole integrand: Helmholtz with k = i w equals modified Helmholtz with w, regular and singular, all x <> y, all curl
   products c and mass products m *)
Theorem C05_hypersingular_imaginary_k : forall x0 x1 x2 y0 y1 y2 nx0 nx1 nx2 ny0 ny1 ny2 w q c m : R,
  (x0, x1, x2) <> (y0, y1, y2) ->
  hyp_integrand (helmholtz_single_layer_regular x0 x1 x2 y0 y1 y2 nx0 nx1 nx2 ny0 ny1 ny2 0 w)
                (hyp_mass_helmholtz_hypersingular_regular 0 w) c m
  = hyp_integrand (modified_helmholtz_single_layer_regular x0 x1 x2 y0 y1 y2 nx0 nx1 nx2 ny0 ny1 ny2 w q)
                  (hyp_mass_modified_helmholtz_hypersingular_regular w q) c m /\
  hyp_integrand (helmholtz_single_layer_singular x0 x1 x2 y0 y1 y2 nx0 nx1 nx2 ny0 ny1 ny2 0 w)
                (hyp_mass_helmholtz_hypersingular_singular 0 w) c m
  = hyp_integrand (modified_helmholtz_single_layer_singular x0 x1 x2 y0 y1 y2 nx0 nx1 nx2 ny0 ny1 ny2 w q)
                  (hyp_mass_modified_helmholtz_hypersingular_singular w q) c m.
Proof. exact hyp_integrand_imaginary_k. Qed.
Print Assumptions C05_hypersingular_imaginary_k.
