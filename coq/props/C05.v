(* C05 -- Helmholtz-family operators are consistent with Laplace and with each other.
   Only statements; lemmas are proved in theories/Kernels/C05Lemmas.v over definitions regenerated from
   core/numba_kernels.py, api/fmm/helpers.py and the operator factories on every run. *)
From Coq Require Import Reals String List.
From BVgen Require Import NumbaKernels Dispatch.
From BV Require Import Kernels.KernelTactics Kernels.DispatchModel Kernels.C05Lemmas.
Import ListNotations.
Open Scope R_scope.
Open Scope string_scope.

(* For kind in {single_layer, double_layer, adjoint_double_layer}, with h/l/m the functions select_numba_kernels
   returns for helmholtz_<kind> / laplace_<kind> / modified_helmholtz_<kind> in regular (= potential) mode, for all
   x <> y, normals:  h(k=0) = l;  h(k = i w) = m(w) (imaginary part 0);  h(-conj k) = conj h(k). *)
Theorem C05_family_regular : forall kind, In kind ["single_layer"; "double_layer"; "adjoint_double_layer"] ->
  family_ok numba_kernel_functions_regular kind.
Proof. exact (fun k H => proj1 (Forall_forall _ _) family_regular k H). Qed.
Print Assumptions C05_family_regular.

(* the same for the kernels used by the singular (Duffy) assembler *)
Theorem C05_family_singular : forall kind, In kind ["single_layer"; "double_layer"; "adjoint_double_layer"] ->
  family_ok numba_kernel_functions_singular kind.
Proof. exact (fun k H => proj1 (Forall_forall _ _) family_singular k H). Qed.
Print Assumptions C05_family_singular.

(* K_sl(x,y) = K_sl(y,x) and K_adl(x,y; n_x) = K_dl(y,x; trial normal := n_x), for the Laplace, Helmholtz (complex k)
   and modified Helmholtz kernels, regular and singular.  With the congruence theorem of C04 this gives V = V^T and
   K' = K^T for the regular part exactly; symmetry of the Duffy rules is not part of this theorem. *)
Theorem C05_symmetry_partial : forall fam, In fam ["laplace_"; "helmholtz_"; "modified_helmholtz_"] ->
  symmetry_ok numba_kernel_functions_regular fam /\ symmetry_ok numba_kernel_functions_singular fam.
Proof.
  exact (fun f H => conj (proj1 (Forall_forall _ _) symmetry_regular f H)
                         (proj1 (Forall_forall _ _) symmetry_singular f H)).
Qed.
Print Assumptions C05_symmetry_partial.

(* FMM point kernels of api/fmm/helpers.py: the value slot is the single-layer kernel ... *)
Theorem C05_fmm_values : forall x0 x1 x2 y0 y1 y2 nx0 nx1 nx2 ny0 ny1 ny2 p0 p1 : R,
  (x0, x1, x2) <> (y0, y1, y2) ->
  (fmm_laplace_kernel_0_re x0 x1 x2 y0 y1 y2 p0 p1, fmm_laplace_kernel_0_im x0 x1 x2 y0 y1 y2 p0 p1)
    = laplace_single_layer_regular x0 x1 x2 y0 y1 y2 nx0 nx1 nx2 ny0 ny1 ny2 p0 p1 /\
  (fmm_modified_helmholtz_kernel_0_re x0 x1 x2 y0 y1 y2 p0 p1, fmm_modified_helmholtz_kernel_0_im x0 x1 x2 y0 y1 y2 p0 p1)
    = modified_helmholtz_single_layer_regular x0 x1 x2 y0 y1 y2 nx0 nx1 nx2 ny0 ny1 ny2 p0 p1 /\
  (fmm_helmholtz_kernel_0_re x0 x1 x2 y0 y1 y2 p0 p1, fmm_helmholtz_kernel_0_im x0 x1 x2 y0 y1 y2 p0 p1)
    = helmholtz_single_layer_regular x0 x1 x2 y0 y1 y2 nx0 nx1 nx2 ny0 ny1 ny2 p0 p1.
Proof. exact fmm_values_are_single_layer. Qed.
Print Assumptions C05_fmm_values.

(* ... and the gradient slots obey the same family laws (k = 0: Laplace; k = i w: modified Helmholtz) *)
Theorem C05_fmm_gradients : forall x0 x1 x2 y0 y1 y2 w q0 q1 : R,
  (x0, x1, x2) <> (y0, y1, y2) ->
  (fmm_helmholtz_kernel_1_re x0 x1 x2 y0 y1 y2 0 0 = fmm_laplace_kernel_1_re x0 x1 x2 y0 y1 y2 q0 q1 /\
   fmm_helmholtz_kernel_2_re x0 x1 x2 y0 y1 y2 0 0 = fmm_laplace_kernel_2_re x0 x1 x2 y0 y1 y2 q0 q1 /\
   fmm_helmholtz_kernel_3_re x0 x1 x2 y0 y1 y2 0 0 = fmm_laplace_kernel_3_re x0 x1 x2 y0 y1 y2 q0 q1) /\
  (fmm_helmholtz_kernel_1_im x0 x1 x2 y0 y1 y2 0 0 = 0 /\ fmm_helmholtz_kernel_2_im x0 x1 x2 y0 y1 y2 0 0 = 0 /\
   fmm_helmholtz_kernel_3_im x0 x1 x2 y0 y1 y2 0 0 = 0) /\
  (fmm_helmholtz_kernel_1_re x0 x1 x2 y0 y1 y2 0 w = fmm_modified_helmholtz_kernel_1_re x0 x1 x2 y0 y1 y2 w q1 /\
   fmm_helmholtz_kernel_2_re x0 x1 x2 y0 y1 y2 0 w = fmm_modified_helmholtz_kernel_2_re x0 x1 x2 y0 y1 y2 w q1 /\
   fmm_helmholtz_kernel_3_re x0 x1 x2 y0 y1 y2 0 w = fmm_modified_helmholtz_kernel_3_re x0 x1 x2 y0 y1 y2 w q1) /\
  (fmm_helmholtz_kernel_1_im x0 x1 x2 y0 y1 y2 0 w = 0 /\ fmm_helmholtz_kernel_2_im x0 x1 x2 y0 y1 y2 0 w = 0 /\
   fmm_helmholtz_kernel_3_im x0 x1 x2 y0 y1 y2 0 w = 0).
Proof. exact fmm_gradient_family. Qed.
Print Assumptions C05_fmm_gradients.

(* Dispatch (table gen/Dispatch.v, semantics theories/Kernels/DispatchModel.v): every boundary Helmholtz factory called
   with k = i w builds exactly the descriptor the modified Helmholtz factory of the same name builds for w, for all w,
   and does not raise. *)
Theorem C05_dispatch_boundary : forall f, In f (helmholtz_factories "boundary") -> dispatch_spec f.
Proof. exact (fun f H => proj1 (Forall_forall _ _) dispatch_boundary f H). Qed.
Print Assumptions C05_dispatch_boundary.

(* Potential Helmholtz factories: each one either meets the same specification or -- lead 9.1, the state of the pinned
   tree -- raises ValueError for k = i; the two alternatives exclude each other (C05_dispatch_defect_refutes). *)
Theorem C05_dispatch_potential_refuted_unless_fixed : forall f, In f (helmholtz_factories "potential") ->
  dispatch_spec f \/ dispatch_defect f.
Proof. exact (fun f H => proj1 (Forall_forall _ _) dispatch_potential f H). Qed.
Print Assumptions C05_dispatch_potential_refuted_unless_fixed.

Theorem C05_dispatch_defect_refutes : forall f, dispatch_defect f -> ~ dispatch_spec f.
Proof. exact defect_refutes_spec. Qed.
Print Assumptions C05_dispatch_defect_refutes.

(* the quantifications above are not vacuous: 4 boundary and 2 potential Helmholtz factories are in the table *)
Theorem C05_dispatch_nonempty :
  length (helmholtz_factories "boundary") = 4%nat /\ length (helmholtz_factories "potential") = 2%nat.
Proof. exact dispatch_nonempty. Qed.
Print Assumptions C05_dispatch_nonempty.

(* every kernel type a factory puts into its descriptor is a key of select_numba_kernels *)
Theorem C05_factories_kernel_types_known :
  Forall (fun f => kernel_of numba_kernel_functions_regular (f_kernel_type f) <> None) factories.
Proof. exact factories_kernel_types_known. Qed.
Print Assumptions C05_factories_kernel_types_known.
