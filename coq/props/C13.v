(* C13 -- Sparse operators, projections and integrals are exact L2 quantities (quadrature form).
   Only statements; proofs in theories/AssemblyA/{L2Proofs,GridFunProofs,L2Q}.v over the hand model
   theories/AssemblyA/Sparse.v (tied to /repo by the correspondence check of props/C13.py). *)
From Coq Require Import List Arith Bool ZArith QArith.
From BVgen Require Import TriTables.
From BV Require Import Quad.Rules.
From BV Require Import AssemblyA.Sums AssemblyA.Mat AssemblyA.Dense AssemblyA.Sparse AssemblyA.Congruence
     AssemblyA.L2Proofs AssemblyA.GridFunProofs AssemblyA.L2Q.

(* the identity operator between any two spaces: y' M x is the quadrature of the product of the two represented
   functions over the common support; both DOF maps and multipliers enter only through u_y, u_x *)
Theorem C13_identity_is_quadrature_of_products :
  forall (A : Type) (R : CRing A) dim rule intel (bt br : basisfn) nel (St Sr : space A) (I J : list nat) (y x : nat -> A),
    NoDup I -> NoDup J ->
    dofs_in I St (sparse_elements nel St Sr) -> dofs_in J Sr (sparse_elements nel St Sr) ->
    req (bilin I J y (sparse_core nel (Lsp_identity dim rule intel bt br) St Sr) x)
        (sumf (fun e => sumf (fun d => sumf (fun q =>
            rmul (rmul (uval y St bt e (fst q) d) (uval x Sr br e (fst q) d)) (rmul (snd q) (intel e))) rule) (seq 0 dim))
              (sparse_elements nel St Sr)).
Proof. exact @identity_bilinear_form. Qed.
Print Assumptions C13_identity_is_quadrature_of_products.

Theorem C13_identity_entry :
  forall (A : Type) (R : CRing A) dim rule intel (bt br : basisfn) nel (St Sr : space A) r c,
    req (sparse_core nel (Lsp_identity dim rule intel bt br) St Sr r c)
        (sumf (fun e => sumf (fun d => sumf (fun q =>
            rmul (rmul (uval (delta r) St bt e (fst q) d) (uval (delta c) Sr br e (fst q) d)) (rmul (snd q) (intel e)))
              rule) (seq 0 dim)) (sparse_elements nel St Sr)).
Proof. exact @identity_entry. Qed.
Print Assumptions C13_identity_entry.

Theorem C13_identity_symmetric :
  forall (A : Type) (R : CRing A) dim rule intel (b : basisfn) nel (S0 : space A) r c,
    req (sparse_core nel (Lsp_identity dim rule intel b b) S0 S0 r c)
        (sparse_core nel (Lsp_identity dim rule intel b b) S0 S0 c r).
Proof. exact @identity_symmetric. Qed.
Print Assumptions C13_identity_symmetric.

(* partition-of-unity bases: 1' M 1 = (sum of weights) * (sum of integration elements) ... *)
Theorem C13_partition_sums_to_area :
  forall (A : Type) (R : CRing A) rule intel (bt br : basisfn) nel (St Sr : space A) (I J : list nat),
    NoDup I -> NoDup J ->
    dofs_in I St (sparse_elements nel St Sr) -> dofs_in J Sr (sparse_elements nel St Sr) ->
    (forall e q, In e (sparse_elements nel St Sr) -> In q rule -> req (uval (fun _ => rI) St bt e (fst q) 0%nat) rI) ->
    (forall e q, In e (sparse_elements nel St Sr) -> In q rule -> req (uval (fun _ => rI) Sr br e (fst q) 0%nat) rI) ->
    req (bilin I J (fun _ => rI) (sparse_core nel (Lsp_identity 1%nat rule intel bt br) St Sr) (fun _ => rI))
        (rmul (sumf (fun q => snd q) rule) (sumf intel (sparse_elements nel St Sr))).
Proof. exact @identity_partition_sum. Qed.
Print Assumptions C13_partition_sums_to_area.

(* ... and the weights of every shipped triangle rule sum to 1/2 within 1e-14 (weight_q = W_q / 2^(tri_scale+1)),
   so that 1' M 1 = area up to 2e-14 relative; from the tables regenerated from triangle_gauss.py *)
Theorem C13_weights_sum_to_half :
  forall order : Z, (1 <= order <= 20)%Z ->
    exists r, tri_rule order = Some r /\
              (Z.abs (wsum r * 2 - 2 ^ (tri_scale + 1)) * 10 ^ 14 <= 2 ^ (tri_scale + 1) * 2)%Z.
Proof. exact tri_weights_sum_half. Qed.
Print Assumptions C13_weights_sum_to_half.

Theorem C13_laplace_beltrami_symmetric :
  forall (A : Type) (R : CRing A) rule intel (g : basisfn) nel (S0 : space A) r c,
    req (sparse_core nel (Lsp_lb rule intel g g) S0 S0 r c) (sparse_core nel (Lsp_lb rule intel g g) S0 S0 c r).
Proof. exact @lb_symmetric. Qed.
Print Assumptions C13_laplace_beltrami_symmetric.

Theorem C13_laplace_beltrami_annihilates_constants :
  forall (A : Type) (R : CRing A) rule intel jit (gt : basisfn) nel (St Sr : space A) (J : list nat) r,
    NoDup J -> dofs_in J Sr (sparse_elements nel St Sr) -> sp_ns Sr = 3%nat ->
    (forall e i, In e (sparse_elements nel St Sr) -> (i < 3)%nat -> req (sp_mult Sr e i) rI) ->
    req (mvec J (sparse_core nel (Lsp_lb rule intel gt (grad_p1 jit)) St Sr) (fun _ => rI) r) rO.
Proof. exact @lb_annihilates_constants. Qed.
Print Assumptions C13_laplace_beltrami_annihilates_constants.

(* positive semi-definiteness over Q (Gram sums); for Laplace-Beltrami only the SUM of the weights must be >= 0 *)
Theorem C13_identity_psd :
  forall dim rule intel (b : @basisfn Q) nel (S0 : space Q) (I : list nat) (x : nat -> Q),
    NoDup I -> dofs_in I S0 (support_elements nel S0) ->
    (forall e q, In e (support_elements nel S0) -> In q rule -> 0 <= snd q * intel e)%Q ->
    (0 <= bilin I I x (sparse_core nel (Lsp_identity dim rule intel b b) S0 S0) x)%Q.
Proof. exact identity_psd_Q. Qed.
Print Assumptions C13_identity_psd.

Theorem C13_laplace_beltrami_psd :
  forall rule intel jit nel (S0 : space Q) (I : list nat) (x : nat -> Q),
    NoDup I -> dofs_in I S0 (support_elements nel S0) ->
    (0 <= sumf (fun q => snd q) rule)%Q -> (forall e, In e (support_elements nel S0) -> 0 <= intel e)%Q ->
    (0 <= bilin I I x (sparse_core nel (Lsp_lb rule intel (grad_p1 jit) (grad_p1 jit)) S0 S0) x)%Q.
Proof. exact lb_psd_Q. Qed.
Print Assumptions C13_laplace_beltrami_psd.

(* projecting a callable that coincides at the quadrature points with a function of the trial space returns
   (mass matrix) * (its coefficients) *)
Theorem C13_projection_recovers_coefficients :
  forall (A : Type) (R : CRing A) dim rule intel (bt br evt : basisfn) nel (St Sr : space A) (J : list nat)
         (coef : nat -> A) (f : nat -> pt2 A -> nat -> A) r,
    NoDup J -> dofs_in J Sr (sparse_elements nel St Sr) ->
    (forall e i p d, req (evt e i p d) (rmul (sp_mult St e i) (bt e i p d))) ->
    (forall e q d, In e (support_elements nel St) -> In q rule -> (d < dim)%nat ->
                   req (f e (fst q) d) (indic (sp_support Sr e) (uval coef Sr br e (fst q) d))) ->
    req (project nel dim rule intel St evt f r)
        (mvec J (sparse_core nel (Lsp_identity dim rule intel bt br) St Sr) coef r).
Proof. exact @projection_is_mass_times_coefficients. Qed.
Print Assumptions C13_projection_recovers_coefficients.

(* the vectorised path (get_function_quadrature_information + callable + _project_function_vectorized, function_data
   addressed by the POSITION of the element in the support) computes the same projections as the scalar path, for every
   support (prefix or not), hence also M c for in-space callables *)
Theorem C13_vectorized_projection_is_scalar_projection :
  forall (A : Type) (R : CRing A) nel dim rule intel (S0 : space A) (ev : basisfn)
         (fdata : nat -> nat -> nat -> A) (f : nat -> pt2 A -> nat -> A) r,
    (forall pos e k q d, In (pos, e) (enumerate (support_elements nel S0)) -> In (k, q) (enumerate rule) ->
                         req (fdata pos k d) (f e (fst q) d)) ->
    req (project_vectorized nel dim rule intel S0 ev fdata r) (project nel dim rule intel S0 ev f r).
Proof. exact @project_vectorized_is_project. Qed.
Print Assumptions C13_vectorized_projection_is_scalar_projection.

Theorem C13_vectorized_projection_recovers_coefficients :
  forall (A : Type) (R : CRing A) dim rule intel (bt br evt : basisfn) nel (St Sr : space A) (J : list nat)
         (coef : nat -> A) (fdata : nat -> nat -> nat -> A) (f : nat -> pt2 A -> nat -> A) r,
    NoDup J -> dofs_in J Sr (sparse_elements nel St Sr) ->
    (forall e i p d, req (evt e i p d) (rmul (sp_mult St e i) (bt e i p d))) ->
    (forall e q d, In e (support_elements nel St) -> In q rule -> (d < dim)%nat ->
                   req (f e (fst q) d) (indic (sp_support Sr e) (uval coef Sr br e (fst q) d))) ->
    (forall pos e k q d, In (pos, e) (enumerate (support_elements nel St)) -> In (k, q) (enumerate rule) ->
                         req (fdata pos k d) (f e (fst q) d)) ->
    req (project_vectorized nel dim rule intel St evt fdata r)
        (mvec J (sparse_core nel (Lsp_identity dim rule intel bt br) St Sr) coef r).
Proof. exact @projection_vectorized_is_mass_times_coefficients. Qed.
Print Assumptions C13_vectorized_projection_recovers_coefficients.

(* _integrate (after the fix: commit edfc0c1 the multipliers enter once): quadrature of the represented function for
   every space, signed multipliers included *)
Theorem C13_integrate :
  forall (A : Type) (R : CRing A) nel rule intel (S0 : space A) (ev : basisfn) coef d,
    req (integrate nel rule intel S0 ev coef d) (integrate_direct nel rule intel S0 ev coef d).
Proof. exact @integrate_is_direct_quadrature. Qed.
Print Assumptions C13_integrate.

Theorem C13_evaluate_vertices :
  forall (A : Type) (R : CRing A) nel els vol (S0 : space A) ev coef v d (c : A),
    (forall e k, In e (support_elements nel S0) -> (k < 3)%nat -> elt_vertex els e k = v ->
                 req (gf_eval S0 ev coef e (ref_vertex_pt k) d) c) ->
    req (vertex_num nel els vol S0 ev coef v d) (rmul c (vertex_den nel els vol S0 v)).
Proof. exact @vertex_average_of_continuous. Qed.
Print Assumptions C13_evaluate_vertices.

Theorem C13_evaluate_centres :
  forall (A : Type) (R : CRing A) third (S0 : space A) ev coef e d,
    sp_support S0 e = true -> eval_centers third S0 ev coef e d = gf_eval S0 ev coef e (third, third) d.
Proof. exact @eval_centers_value. Qed.
Print Assumptions C13_evaluate_centres.

(* MultiplicationOperator, mode 'component' (after fix: 040d575): entry (r, c) is the quadrature of
   (test function r) . g . (trial function c) over the common support of the three spaces, component by component *)
Theorem C13_multiplication_operator :
  forall (A : Type) (R : CRing A) nel dim rule intel (St Sr Sf : space A) evt evr evf gcoef r c,
    req (scatter (mult_op_core nel dim rule intel St Sr Sf evt evr evf gcoef) r c)
        (sumf (fun e => sumf (fun d => sumf (fun q =>
            rmul (rmul (gfun r St evt e (fst q) d) (rmul (gf_eval Sf evf gcoef e (fst q) d) (gfun c Sr evr e (fst q) d)))
                 (rmul (snd q) (intel e))) rule) (seq 0 dim)) (mult_elements nel St Sr Sf)).
Proof. exact @mult_op_entry. Qed.
Print Assumptions C13_multiplication_operator.
