(* C02 -- Green's representation formula: the provable (logic) part.
   The representation formula itself (jump relations, potential theory) is analytic and NOT proved here; it is
   exercised on the implementation by the convergence search (harness/c02_impl.py).  Proved, for the potential
   model AssemblyB/PotModel.v (tie H, correspondence harness/c02_impl.py): the coefficient mapping, the kernel-sum
   form, exact additivity over partitions of the support.  The kernel-derivative lemmas
   (laplace_dl_is_normal_derivative / laplace_adl_is_normal_derivative, Kernels/LaplaceDerivs.v) are added by the
   lead. *)
From Coq Require Import List Arith Permutation.
From BV Require Import AssemblyB.Defs AssemblyB.Model AssemblyB.PotModel AssemblyB.TwoGrids AssemblyB.PropLemmas.

(* (T c)[nshape*e+i] = mult[e,i] * c[l2g[e,i]] on the support, 0 elsewhere, T = map_to_full_grid (ordinary spaces) *)
Theorem C02_coefficients_mapped :
  forall (A : Type) (RO : ops A) (Hring : IsRing RO) (s : space) (supp : list nat) (c : nat -> A) (e i : nat),
  NoDup supp -> i < s_nshape s ->
  (In e supp -> full_coeffs RO s supp c (s_nshape s * e + i) = omul RO (s_mult s e i) (c (s_l2g s e i))) /\
  (~ In e supp -> full_coeffs RO s supp c (s_nshape s * e + i) = o0 RO).
Proof. exact @C02_coefficients_mapped_l. Qed.
Print Assumptions C02_coefficients_mapped.

Theorem C02_potential_is_kernel_sum :
  forall (A : Type) (RO : ops A) (Hring : IsRing RO)
         (g : geom) (s : space) (quad : list qpt) (kern : kernel) (supp : list nat) (c : nat -> A) (pt : vec3 A),
  NoDup supp ->
  potential_eval RO g s quad kern supp c pt =
  sumf (o0 RO) (oadd RO) (fun e => sumf (o0 RO) (oadd RO) (fun q =>
     omul RO (omul RO (omul RO (q_w q) (g_intel g e))
                      (kern pt (ypt RO g e q) (vzero (o0 RO)) (snormal RO g s e)))
       (sumn (o0 RO) (oadd RO) (s_nshape s) (fun i =>
          omul RO (omul RO (s_mult s e i) (c (s_l2g s e i))) (s_shape s i (q_u q) (q_v q))))) quad) supp.
Proof. exact @potential_is_kernel_sum. Qed.
Print Assumptions C02_potential_is_kernel_sum.

(* whole-grid potential = sum of the potentials of the restrictions to a partition of the elements: exact *)
Theorem C02_segmentwise_additive :
  forall (A : Type) (RO : ops A) (Hring : IsRing RO)
         (g : geom) (s : space) (quad : list qpt) (kern : kernel) (supp : list nat) (inseg : nat -> bool)
         (x xa xb : nat -> A) (pt : vec3 A),
  (forall e i, In e supp -> inseg e = true -> i < s_nshape s ->
       xa (s_nshape s * e + i) = x (s_nshape s * e + i)) ->
  (forall e i, In e supp -> inseg e = false -> i < s_nshape s ->
       xb (s_nshape s * e + i) = x (s_nshape s * e + i)) ->
  scalar_potential RO g s quad kern supp x pt =
  oadd RO (scalar_potential RO g s quad kern (filter inseg supp) xa pt)
          (scalar_potential RO g s quad kern (filter (fun e => negb (inseg e)) supp) xb pt).
Proof. exact @potential_segmentwise. Qed.
Print Assumptions C02_segmentwise_additive.

Theorem C02_potential_linear_and_order_independent :
  forall (A : Type) (RO : ops A) (Hring : IsRing RO)
         (g : geom) (s : space) (quad : list qpt) (kern : kernel) (supp supp' : list nat) (a b : A)
         (x1 x2 : nat -> A) (pt : vec3 A),
  Permutation supp supp' ->
  scalar_potential RO g s quad kern supp (fun n => oadd RO (omul RO a (x1 n)) (omul RO b (x2 n))) pt =
  oadd RO (omul RO a (scalar_potential RO g s quad kern supp' x1 pt))
          (omul RO b (scalar_potential RO g s quad kern supp' x2 pt)).
Proof. exact @C02_potential_linear_and_order_independent_l. Qed.
Print Assumptions C02_potential_linear_and_order_independent.

(* the conjunction proved for C02; ANALYTIC GAP: that SLP[du/dn] - DLP[u] reproduces u inside and 0 outside
   (Green's third identity + convergence of the quadrature) is not proved. *)
Theorem C02_partial :
  forall (A : Type) (RO : ops A) (Hring : IsRing RO)
         (g : geom) (s : space) (quad : list qpt) (kern : kernel) (supp : list nat) (c : nat -> A) (pt : vec3 A),
  NoDup supp ->
  potential_eval RO g s quad kern supp c pt =
  sumf (o0 RO) (oadd RO) (fun e => sumf (o0 RO) (oadd RO) (fun q =>
     omul RO (omul RO (omul RO (q_w q) (g_intel g e))
                      (kern pt (ypt RO g e q) (vzero (o0 RO)) (snormal RO g s e)))
       (sumn (o0 RO) (oadd RO) (s_nshape s) (fun i =>
          omul RO (omul RO (s_mult s e i) (c (s_l2g s e i))) (s_shape s i (q_u q) (q_v q))))) quad) supp
  /\ (forall (inseg : nat -> bool) (x : nat -> A),
      scalar_potential RO g s quad kern supp x pt =
      oadd RO (scalar_potential RO g s quad kern (filter inseg supp) x pt)
              (scalar_potential RO g s quad kern (filter (fun e => negb (inseg e)) supp) x pt)).
Proof. exact @C02_partial_l. Qed.
Print Assumptions C02_partial.

(* ---- sign, normalisation and orientation of the two potentials relative to each other: the double-layer potential
   kernel is the derivative of the single-layer potential kernel along the trial normal (tie T: kernels regenerated
   from core/numba_kernels.py; proof in Kernels/LaplaceDerivs.v) ---- *)
From Coq Require Import Reals.
From Coquelicot Require Import Coquelicot.
From BVgen Require Import NumbaKernels.
From BV Require Import Kernels.LaplaceDerivs.

Theorem C02_double_layer_potential_kernel_is_normal_derivative :
  forall x0 x1 x2 y0 y1 y2 nx0 nx1 nx2 ny0 ny1 ny2 p0 p1 : R, (x0, x1, x2) <> (y0, y1, y2) ->
  is_derive (fun t => laplace_single_layer_regular_re x0 x1 x2 (y0 + t * ny0) (y1 + t * ny1) (y2 + t * ny2)
                        nx0 nx1 nx2 ny0 ny1 ny2 p0 p1)%R 0%R
            (laplace_double_layer_regular_re x0 x1 x2 y0 y1 y2 nx0 nx1 nx2 ny0 ny1 ny2 p0 p1).
Proof. exact laplace_dl_is_normal_derivative. Qed.
Print Assumptions C02_double_layer_potential_kernel_is_normal_derivative.

(* make_localised_space: the space on which the potential kernels run inherits normal multipliers, shapeset and
   support from the user's space (multipliers 1 on the support), so the library's evaluation (coefficients mapped with
   the space, kernel run on its localised space) is the potential model of the space itself.  The correspondence
   compares the implementation's localised space with [localised_space] field by field. *)
Theorem C02_localised_space_inherits :
  forall (A : Type) (RO : ops A)
         (g : geom) (s : space) (quad : list qpt) (kern : kernel) (supp : list nat) (c : nat -> A) (pt : vec3 A),
  (forall e, s_nmult (localised_space RO s supp) e = s_nmult s e) /\
  (forall i u v, s_shape (localised_space RO s supp) i u v = s_shape s i u v) /\
  s_nshape (localised_space RO s supp) = s_nshape s /\
  (forall e i, In e supp -> s_mult (localised_space RO s supp) e i = o1 RO) /\
  potential_eval_impl RO g s quad kern supp c pt = potential_eval RO g s quad kern supp c pt.
Proof. exact @localised_space_inherits. Qed.
Print Assumptions C02_localised_space_inherits.
