(* C04 -- Operators on a subspace are congruence transforms of those on the full element-wise space.
   Only statements; proofs are in theories/AssemblyA/Congruence.v over the hand model theories/AssemblyA/Dense.v
   (tied to /repo by the correspondence check of props/C04.py). *)
From Coq Require Import List Arith Bool Permutation.
From BV Require Import AssemblyA.Sums AssemblyA.Mat AssemblyA.Dense AssemblyA.Congruence.

(* for every commutative ring, grid topology, supports, DOF maps, multipliers, colourings (any partition of the
   support into classes, any partition of the full grid) and local regular / singular kernel values:
   dense(S_test, S_trial) = T_test' * dense(D_test, D_trial) * T_trial, entrywise *)
Theorem C04_congruence :
  forall (A : Type) (R : CRing A) (ident : bool) (G : gridtopo) (Lreg : nat -> nat -> nat -> nat -> A)
         (Lsing : spair -> nat -> nat -> A) (St Sr : space A) (ct cr : list (list nat)),
    wf_colors (g_nel G) St -> wf_colors (g_nel G) Sr ->
    Permutation (concat ct) (seq 0 (g_nel G)) -> Permutation (concat cr) (seq 0 (g_nel G)) ->
    wf_adj (g_nel G) (g_edge_adj G) -> wf_adj (g_nel G) (g_vertex_adj G) ->
    meq (dense ident G Lreg Lsing St Sr)
        (congr (seq 0 (sp_ns St * g_nel G)%nat) (seq 0 (sp_ns Sr * g_nel G)%nat)
               (scatter (tmat (g_nel G) St))
               (dense ident G Lreg Lsing (full_space (sp_ns St) ct) (full_space (sp_ns Sr) cr))
               (scatter (tmat (g_nel G) Sr))).
Proof. exact @congruence_dense. Qed.
Print Assumptions C04_congruence.

(* spaces whose DOF map is injective on the support with unit multipliers (DP0/DP1 on segments or support
   elements): the operator is the corresponding sub-block of the full-grid operator *)
Theorem C04_segment_blocks :
  forall (A : Type) (R : CRing A) (ident : bool) (G : gridtopo) Lreg Lsing (St Sr : space A) ct cr e i f j,
    wf_colors (g_nel G) St -> wf_colors (g_nel G) Sr ->
    Permutation (concat ct) (seq 0 (g_nel G)) -> Permutation (concat cr) (seq 0 (g_nel G)) ->
    wf_adj (g_nel G) (g_edge_adj G) -> wf_adj (g_nel G) (g_vertex_adj G) ->
    selects (g_nel G) St -> selects (g_nel G) Sr ->
    (e < g_nel G)%nat -> sp_support St e = true -> (i < sp_ns St)%nat ->
    (f < g_nel G)%nat -> sp_support Sr f = true -> (j < sp_ns Sr)%nat ->
    req (dense ident G Lreg Lsing St Sr (sp_l2g St e i) (sp_l2g Sr f j))
        (dense ident G Lreg Lsing (full_space (sp_ns St) ct) (full_space (sp_ns Sr) cr)
               (sp_ns St * e + i)%nat (sp_ns Sr * f + j)%nat).
Proof. exact @segment_blocks. Qed.
Print Assumptions C04_segment_blocks.

(* test and trial spaces are independent (C04_congruence already quantifies over both); restricting the test
   side only multiplies by T_test' from the left *)
Theorem C04_test_trial_independent :
  forall (A : Type) (R : CRing A) (ident : bool) (G : gridtopo) Lreg Lsing (St : space A) ct cr nsr r f j,
    wf_colors (g_nel G) St ->
    Permutation (concat ct) (seq 0 (g_nel G)) -> Permutation (concat cr) (seq 0 (g_nel G)) ->
    wf_adj (g_nel G) (g_edge_adj G) -> wf_adj (g_nel G) (g_vertex_adj G) ->
    (f < g_nel G)%nat -> (j < nsr)%nat ->
    req (dense ident G Lreg Lsing St (full_space nsr cr) r (nsr * f + j)%nat)
        (mmul (seq 0 (sp_ns St * g_nel G)%nat) (tr (scatter (tmat (g_nel G) St)))
              (dense ident G Lreg Lsing (full_space (sp_ns St) ct) (full_space nsr cr)) r (nsr * f + j)%nat).
Proof. exact @congruence_test_side. Qed.
Print Assumptions C04_test_trial_independent.
