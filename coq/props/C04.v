(* C04 -- Operators on a subspace are congruence transforms of those on the full element-wise space.
   Only statements; proofs are in theories/AssemblyA/Congruence.v over the hand model theories/AssemblyA/Dense.v
   (tied to /repo by the correspondence check of props/C04.py). *)
From Coq Require Import List Arith Bool Permutation.
Import ListNotations.
From BV Require Import AssemblyA.Sums AssemblyA.Mat AssemblyA.Dense AssemblyA.Sparse AssemblyA.Congruence
     AssemblyA.L2Proofs AssemblyA.SparseCongruence AssemblyA.Equivariance AssemblyA.Refine.

(* for every commutative ring, grid topology, supports, DOF maps, multipliers, colourings (any partition of the
   support into classes, any partition of the full grid) and local regular / singular kernel values:
   dense(S_test, S_trial) = T_test' * dense(D_test, D_trial) * T_trial, entrywise *)
Theorem C04_congruence :
  forall (A : Type) (R : CRing A) (ident : bool) (G : gridtopo) (Lreg : nat -> nat -> nat -> nat -> A)
         (Lsing : spair -> nat -> nat -> A) (St Sr : space A) (ct cr : list (list nat)),
    wf_colors (g_nel G) St -> wf_colors (g_nel G) Sr ->
    Permutation (concat ct) (seq 0 (g_nel G)) -> Permutation (concat cr) (seq 0 (g_nel G)) ->
    wf_adj (g_nel G) (g_edge_adj G) -> wf_adj (g_nel G) (g_vertex_adj G) ->
    meq (dense ident G Lreg Lsing St Sr)
        (congr (seq 0 (sp_ns St * g_nel G)%nat) (seq 0 (sp_ns Sr * g_nel G)%nat)
               (scatter (tmat (g_nel G) St))
               (dense ident G Lreg Lsing (full_space (sp_ns St) ct) (full_space (sp_ns Sr) cr))
               (scatter (tmat (g_nel G) Sr))).
Proof. exact @congruence_dense. Qed.
Print Assumptions C04_congruence.

(* spaces whose DOF map is injective on the support with unit multipliers (DP0/DP1 on segments or support
   elements): the operator is the corresponding sub-block of the full-grid operator *)
Theorem C04_segment_blocks :
  forall (A : Type) (R : CRing A) (ident : bool) (G : gridtopo) Lreg Lsing (St Sr : space A) ct cr e i f j,
    wf_colors (g_nel G) St -> wf_colors (g_nel G) Sr ->
    Permutation (concat ct) (seq 0 (g_nel G)) -> Permutation (concat cr) (seq 0 (g_nel G)) ->
    wf_adj (g_nel G) (g_edge_adj G) -> wf_adj (g_nel G) (g_vertex_adj G) ->
    selects (g_nel G) St -> selects (g_nel G) Sr ->
    (e < g_nel G)%nat -> sp_support St e = true -> (i < sp_ns St)%nat ->
    (f < g_nel G)%nat -> sp_support Sr f = true -> (j < sp_ns Sr)%nat ->
    req (dense ident G Lreg Lsing St Sr (sp_l2g St e i) (sp_l2g Sr f j))
        (dense ident G Lreg Lsing (full_space (sp_ns St) ct) (full_space (sp_ns Sr) cr)
               (sp_ns St * e + i)%nat (sp_ns Sr * f + j)%nat).
Proof. exact @segment_blocks. Qed.
Print Assumptions C04_segment_blocks.

(* test and trial spaces are independent (C04_congruence already quantifies over both); restricting the test
   side only multiplies by T_test' from the left *)
Theorem C04_test_trial_independent :
  forall (A : Type) (R : CRing A) (ident : bool) (G : gridtopo) Lreg Lsing (St : space A) ct cr nsr r f j,
    wf_colors (g_nel G) St ->
    Permutation (concat ct) (seq 0 (g_nel G)) -> Permutation (concat cr) (seq 0 (g_nel G)) ->
    wf_adj (g_nel G) (g_edge_adj G) -> wf_adj (g_nel G) (g_vertex_adj G) ->
    (f < g_nel G)%nat -> (j < nsr)%nat ->
    req (dense ident G Lreg Lsing St (full_space nsr cr) r (nsr * f + j)%nat)
        (mmul (seq 0 (sp_ns St * g_nel G)%nat) (tr (scatter (tmat (g_nel G) St)))
              (dense ident G Lreg Lsing (full_space (sp_ns St) ct) (full_space nsr cr)) r (nsr * f + j)%nat).
Proof. exact @congruence_test_side. Qed.
Print Assumptions C04_test_trial_independent.

(* the sparse assembler (identity, Laplace-Beltrami, ...) including the dof_transformation products:
   sparse(S_test,S_trial) = X_test' (T_test' sparse(D_test,D_trial) T_trial) X_trial *)
Theorem C04_sparse_congruence :
  forall (A : Type) (R : CRing A) (nel : nat) (Lsp : nat -> nat -> nat -> A) (St Sr : space A) (ct cr : list (list nat))
         (gt gr : nat) (Xt Xr : option mat),
    meq (sparse_op nel Lsp St Sr gt gr Xt Xr)
        (dof_transform gt gr Xt Xr
           (congr (seq 0 (sp_ns St * nel)%nat) (seq 0 (sp_ns Sr * nel)%nat) (scatter (tmat nel St))
                  (sparse_core nel Lsp (full_space (sp_ns St) ct) (full_space (sp_ns Sr) cr))
                  (scatter (tmat nel Sr)))).
Proof. exact @congruence_sparse. Qed.
Print Assumptions C04_sparse_congruence.

(* uniform refinement (model of Grid.refine): children 4e..4e+3 carry the parent's domain index; their vertices are
   the parent's vertices and edge midpoints in the stated order; with h = 1/2 every child has the parent's
   orientation and a quarter of its vector area, and the quarters add up.  PARTIAL: the statement
   P' A_fine P = A_coarse up to quadrature error is analytic and not proved. *)
Theorem C04_refine_nesting_partial :
  (forall dom e k d, (k < 4)%nat -> nth (4 * e + k) (refine_domains dom) d = nth e dom d) /\
  (forall nv els edges_of e k d v0 v1 v2 e0 e1 e2,
      length els = length edges_of -> (e < length els)%nat ->
      nth e els d = (v0, v1, v2) -> nth e edges_of d = (e0, e1, e2) -> (k < 4)%nat ->
      nth (4 * e + k) (refine_elements nv els edges_of) d =
      nth k [(v0, (e0 + nv)%nat, (e1 + nv)%nat); ((e0 + nv)%nat, v1, (e2 + nv)%nat);
             ((e2 + nv)%nat, v2, (e1 + nv)%nat); ((e0 + nv)%nat, (e2 + nv)%nat, (e1 + nv)%nat)]%list d) /\
  (forall (A : Type) (R : CRing A) (h : A) (v0 v1 v2 : pt3 A),
      req (radd h h) rI ->
      let m01 := midpoint h v0 v1 in let m20 := midpoint h v2 v0 in let m12 := midpoint h v1 v2 in
      let q := scale3 (rmul h h) (normal_dir v0 v1 v2) in
      eq3 (normal_dir v0 m01 m20) q /\ eq3 (normal_dir m01 v1 m12) q /\
      eq3 (normal_dir m12 v2 m20) q /\ eq3 (normal_dir m01 m12 m20) q) /\
  (forall (A : Type) (R : CRing A) (h x : A),
      req (radd h h) rI ->
      req (radd (radd (radd (rmul x (rmul h h)) (rmul x (rmul h h))) (rmul x (rmul h h))) (rmul x (rmul h h))) x).
Proof. exact refine_nesting. Qed.
Print Assumptions C04_refine_nesting_partial.
