(* C10 -- Barycentric and dual-grid spaces represent the functions they claim to.
   Only statements: each theorem is closed by [exact] of a lemma proved under theories/Bary.
   All tables (p1_coeffs, rwg_coeffs, snc_coeffs, bary_conn, dual*_dofs, ...) are BVgen.BaryTables, regenerated from
   the bempp-cl sources on every run. *)
From Coq Require Import Reals QArith List Arith.
From BV Require Import Bary.Syms Bary.Model Bary.RwgModel Bary.Tables Bary.RwgReal Bary.DualModel Bary.DualProofs.
From BV Require Import Quad.Rules Quad.Exactness Bary.Mass Bary.BcModel Bary.BcProofs Bary.DualNoOverlap Bary.Refine.
From BVgen Require Import BaryTables.
Import ListNotations.
Open Scope Q_scope.

(* sub-triangle 6e+j: stated reference vertices; and for EVERY geometry (corners in Q^3) the cross product of its edge
   vectors is 1/6 of the parent's: orientation preserved, area 1/6 *)
Theorem C10_bary_subtriangles :
  forall j, (j < 6)%nat ->
    (forall v, (v < 3)%nat -> peq (sub_vertex j v) (stated_vertex j v)) /\
    sub_det j == 1 # 6 /\
    forall P0 P1 P2 : vec,
      veq (cross (vsub (aff P0 P1 P2 (sub_vertex j 1)) (aff P0 P1 P2 (sub_vertex j 0)))
                 (vsub (aff P0 P1 P2 (sub_vertex j 2)) (aff P0 P1 P2 (sub_vertex j 0))))
          (vscale (1 # 6) (cross (vsub P1 P0) (vsub P2 P0))).
Proof. exact bary_subtriangles. Qed.
Print Assumptions C10_bary_subtriangles.

(* ... and for ALL grids (model Bary/Refine.v of the element loop of _create_barycentric_connectivity_array with its
   edge -> midpoint memo, corresponded exactly with Grid.barycentric_refinement.elements): row j of element i carries,
   per symbol of the generated table, the coarse vertex, THE midpoint id of that edge of the final memo (one id per
   edge, hence shared by every element containing it) or the element's centroid id; new ids are >= nv, a centroid id
   differs from every midpoint id and from the other centroids, distinct edges have distinct midpoint ids *)
Theorem C10_bary_connectivity_all_grids :
  forall (nv : nat) (els : list (list nat * list nat)) out st',
    run els ([], nv) = (out, st') ->
    length out = length els /\
    (forall i V Eg cen lv rows, nth_error els i = Some (V, Eg) -> nth_error out i = Some (cen, lv, rows) ->
       (forall j v, (j < 6)%nat -> (v < 3)%nat ->
          nth v (nth j rows []) 0%nat = sym_id V lv cen (nth v (nth j bary_conn []) BCentre)) /\
       (nv <= cen)%nat /\
       (forall k, (k < 3)%nat -> lookup (nth k Eg 0%nat) (fst st') = Some (nth k lv 0%nat) /\
                                 (nv <= nth k lv 0%nat)%nat /\ nth k lv 0%nat <> cen) /\
       (forall i' cen' lv' rows', i' <> i -> nth_error out i' = Some (cen', lv', rows') -> cen' <> cen)) /\
    (forall g g' id, lookup g (fst st') = Some id -> lookup g' (fst st') = Some id -> g = g').
Proof. exact bary_connectivity_all_grids. Qed.
Print Assumptions C10_bary_connectivity_all_grids.

(* ---- P1: coeffs[a][j][v] = phi_a(vertex v of sub-triangle j), complete sweep of the regenerated table ---- *)
Theorem C10_p1_table :
  forall a j v, (a < 3)%nat -> (j < 6)%nat -> (v < 3)%nat -> p1_entry a j v == p1_shape a (sub_vertex j v).
Proof. exact (p1_table_correct (eq_refl : p1_table_status = true)). Qed.
Print Assumptions C10_p1_table.

(* pointwise agreement on every sub-triangle, for every coefficient vector and every point *)
Theorem C10_p1_pointwise :
  forall (c : nat -> Q) (j : nat) (st : pt), (j < 6)%nat -> p1_fun c (sub_map j st) == p1_bary_fun c j st.
Proof. exact (p1_pointwise (eq_refl : p1_table_status = true)). Qed.
Print Assumptions C10_p1_pointwise.

(* the representation reproduces constants *)
Theorem C10_p1_partition_of_unity :
  forall j v, (j < 6)%nat -> (v < 3)%nat -> p1_entry 0 j v + p1_entry 1 j v + p1_entry 2 j v == 1.
Proof. exact p1_partition_of_unity. Qed.
Print Assumptions C10_p1_partition_of_unity.

(* the positive property, conditional on the complete sweep of the table (a closed boolean): pointwise agreement on
   every sub-triangle for every coefficient vector and every point *)
Theorem C10_p1_pointwise_if_table :
  p1_table_status = true ->
  (forall a j v, (a < 3)%nat -> (j < 6)%nat -> (v < 3)%nat -> p1_entry a j v == p1_shape a (sub_vertex j v)) /\
  (forall (c : nat -> Q) (j : nat) (st : pt), (j < 6)%nat -> p1_fun c (sub_map j st) == p1_bary_fun c j st).
Proof. exact (fun H => conj (p1_table_correct H) (p1_pointwise H)). Qed.
Print Assumptions C10_p1_pointwise_if_table.

(* ---- DP0: bary dof k (= position k in the barycentric support = child k mod 6 of support element k/6) takes the
   coefficient of coarse dof k/6 with weight 1; for every number n of support elements *)
Theorem C10_dp0_table :
  forall n k, (k < 6 * n)%nat ->
    length (dp0_bary_dofs n) = (6 * n)%nat /\ length (dp0_coarse_dofs n) = (6 * n)%nat /\
    length (dp0_values n) = (6 * n)%nat /\
    nth k (dp0_bary_dofs n) 0%nat = k /\ nth k (dp0_coarse_dofs n) 0%nat = (k / 6)%nat /\ nth k (dp0_values n) 0 = 1.
Proof. exact dp0_table. Qed.
Print Assumptions C10_dp0_table.

(* ---- RWG / SNC, reference level: with the length ratios of generate_rwg0_map (each stored length is +-1 or +-2
   times the sub-edge it scales), the three entries of (a, j) are weights w_k with sum 1 whose weighted opposite
   vertices give the origin of the coarse shape function: exactly the condition for reproducing it *)
Theorem C10_rwg_table :
  (forall a j, (a < 3)%nat -> (j < 6)%nat ->
     rwg_entry_ok rwg_coeffs (a, j) = true /\ rwg_entry_ok snc_coeffs (a, j) = true) /\
  (forall a j k, (a < 3)%nat -> (j < 6)%nat -> (k < 3)%nat ->
     rwg_flux_entry_ok rwg_coeffs (a, j, k) = true /\ rwg_flux_entry_ok snc_coeffs (a, j, k) = true).
Proof.
  exact (conj (fun a j Ha Hj => conj (rwg_entry a j Ha Hj) (snc_entry a j Ha Hj))
              (fun a j k Ha Hj Hk => conj (rwg_flux_entry a j k Ha Hj Hk) (snc_flux_entry a j k Ha Hj Hk))).
Qed.
Print Assumptions C10_rwg_table.

(* ---- RWG / SNC, for EVERY non-degenerate triangle in R^3 (Euclidean lengths as generate_rwg0_map and the Piola
   evaluators compute them) and EVERY point: coarse function a at the point with child-local coordinates st equals
   the combination of the three child functions with the scaled table entries rwg_T = c * outer / dof_mult *)
Theorem C10_rwg_table_pointwise :
  forall P0 P1 P2 : V3, intel (mk_tri P0 P1 P2) <> 0%R ->
  forall a j, (a < 3)%nat -> (j < 6)%nat -> forall st : R2,
    rwg_eval (mk_tri P0 P1 P2) a (sub_mapR j st) =
    radd (rscale (rwg_T rwg_coeffs (mk_tri P0 P1 P2) a j 0) (rwg_eval (child (mk_tri P0 P1 P2) j) 0 st))
         (radd (rscale (rwg_T rwg_coeffs (mk_tri P0 P1 P2) a j 1) (rwg_eval (child (mk_tri P0 P1 P2) j) 1 st))
               (rscale (rwg_T rwg_coeffs (mk_tri P0 P1 P2) a j 2) (rwg_eval (child (mk_tri P0 P1 P2) j) 2 st))).
Proof. exact (rwg_table_pointwise rwg_coeffs rwg_entry). Qed.
Print Assumptions C10_rwg_table_pointwise.

Theorem C10_snc_table_pointwise :
  forall P0 P1 P2 : V3, intel (mk_tri P0 P1 P2) <> 0%R ->
  forall a j, (a < 3)%nat -> (j < 6)%nat -> forall st : R2,
    snc_eval (mk_tri P0 P1 P2) a (sub_mapR j st) =
    radd (rscale (rwg_T snc_coeffs (mk_tri P0 P1 P2) a j 0) (snc_eval (child (mk_tri P0 P1 P2) j) 0 st))
         (radd (rscale (rwg_T snc_coeffs (mk_tri P0 P1 P2) a j 1) (snc_eval (child (mk_tri P0 P1 P2) j) 1 st))
               (rscale (rwg_T snc_coeffs (mk_tri P0 P1 P2) a j 2) (snc_eval (child (mk_tri P0 P1 P2) j) 2 st))).
Proof. exact (snc_table_pointwise snc_coeffs snc_entry). Qed.
Print Assumptions C10_snc_table_pointwise.

(* ---- BC / RBC: coefficient stage (Bary/BcModel.v, pinned to the text of grid.py by the translator and corresponded
   with every column of dof_transformation), for EVERY valence nc >= 1, sign and edge length: the coefficients written
   on the two sides of a barycentric edge carry opposite fluxes (coefficient x edge length; the barycentric RWG function
   of a local edge has unit normal component there and none on the other edges, C09) - interior vertex: consecutive fan
   entries; border vertex (open or truncated fan): local edges 0 and 1; reference edge: the two cells of each side *)
Theorem C10_bc_normal_continuity :
  forall (eid : slot -> nat) (len : nat -> Q),
    (forall nc, (0 < nc)%nat -> forall fan sign, pairs_cancel eid len (interior_coeffs eid len nc fan sign)) /\
    (forall nc, (0 < nc)%nat -> forall sorted ref sign s1 s2,
        eid s1 = eid s2 -> snd s1 = 0%nat -> snd s2 = 1%nat -> ~ len (eid s1) == 0 ->
        border_value eid len nc sorted ref sign s1 * len (eid s1) +
        border_value eid len nc sorted ref sign s2 * len (eid s2) == 0) /\
    (forall um up lm lp,
        eid (um, 2%nat) = eid (up, 2%nat) -> eid (lm, 2%nat) = eid (lp, 2%nat) ->
        ~ len (eid (um, 2%nat)) == 0 -> ~ len (eid (lm, 2%nat)) == 0 ->
        match reference_part eid len um up lm lp with
        | [(s1, v1); (s2, v2); (s3, v3); (s4, v4)] =>
            v1 * len (eid s1) + v2 * len (eid s2) == 0 /\ v3 * len (eid s3) + v4 * len (eid s4) == 0
        | _ => False
        end).
Proof.
  exact (fun eid len => conj (interior_flux_cancels eid len) (conj (border_flux_cancels eid len) (reference_flux_cancels eid len))).
Qed.
Print Assumptions C10_bc_normal_continuity.

(* border-border reference edge (both poles on the border of an open grid or of a truncated support): each pole's fan
   is built with the cell count of ITS OWN pole (nc1 around vertex 1, nc2 around vertex 2; the translator pins the
   argument lists of the four dispatch branches), and an open fan with nc cells carries the documented fluxes
   (nc-1)/nc before, (2-nc)/(2 nc) on and 1/nc after the reference edge *)
Theorem C10_bc_poles_use_own_cell_count :
  (forall eid len fan1 fan2 g1 s1 g2 s2 nc1 nc2 ref1 ref2 um up lm lp,
     bc_coeffs eid len fan1 fan2 (g1 :: s1) (g2 :: s2) nc1 nc2 ref1 ref2 um up lm lp =
     border_coeffs eid len nc1 fan1 (g1 :: s1) ref1 (- (1)) ++ border_coeffs eid len nc2 fan2 (g2 :: s2) ref2 1 ++
     reference_part eid len um up lm lp) /\
  (forall eid len nc sorted ref sign s, (0 < nc)%nat -> ~ len (eid s) == 0 ->
     border_value eid len nc sorted ref sign s * len (eid s) ==
     if Nat.ltb (pos_of (eid s) sorted) ref then (match snd s with 0%nat => - sign | _ => sign end) * (1 - qn nc) / qn nc
     else if Nat.eqb (pos_of (eid s) sorted) ref then (match snd s with 0%nat => - sign | _ => sign end) * (2 - qn nc) / (2 * qn nc)
     else (match snd s with 0%nat => - sign | _ => sign end) / qn nc).
Proof.
  exact (conj (fun eid len fan1 fan2 g1 s1 g2 s2 nc1 nc2 ref1 ref2 um up lm lp =>
                 border_border_uses_own_count eid len fan1 fan2 g1 s1 g2 s2 nc1 nc2 ref1 ref2 um up lm lp
                   (eq_refl : bc_border_test_uses_sorted_edges = true))
              border_flux_values).
Qed.
Print Assumptions C10_bc_poles_use_own_cell_count.

(* RBC = n x BC pointwise on every barycentric element, for every coefficient triple *)
Theorem C10_rbc_is_n_cross_bc :
  forall (T : tri) (c0 c1 c2 : R) (st : R2),
    radd (rscale c0 (snc_eval T 0 st)) (radd (rscale c1 (snc_eval T 1 st)) (rscale c2 (snc_eval T 2 st))) =
    rcross (normal T) (radd (rscale c0 (rwg_eval T 0 st)) (radd (rscale c1 (rwg_eval T 1 st)) (rscale c2 (rwg_eval T 2 st)))).
Proof. exact rbc_n_cross_bc. Qed.
Print Assumptions C10_rbc_is_n_cross_bc.

(* ---- mixed mass matrices, partial: on every barycentric element the triangle rule of any order 2..20 (default 4)
   gives the local mass matrices of P1xP1 (1/12, 1/24), P1xP0 (1/6), P0xP0 (1/2) and every monomial of degree <= 2
   (products of two RT0 fields, component-wise) to 1e-14 on the exact values of the shipped doubles.
   partial: that the assembled matrix is T_dual^T M_bary T_primal is the sparse congruence theorem of C04/C13
   (AssemblyA/SparseCongruence.v), and that the barycentric representations are the same functions is
   C10_*_pointwise above; the composition of the three is not stated as one theorem. *)
Theorem C10_mixed_mass_exact_partial :
  forall order : Z, (2 <= order <= 20)%Z ->
    (exists r, tri_ruleQ order = Some r /\
       (forall a b, (a < 3)%nat -> (b < 3)%nat ->
          near (quad r (fun p => p1_shape a p * p1_shape b p)) (mass_exact a b) = true) /\
       (forall a, (a < 3)%nat -> near (quad r (fun p => p1_shape a p)) (1 # 6) = true) /\
       near (quad r (fun _ => 1)) (1 # 2) = true) /\
    (forall a b, (a + b <= 2)%nat -> exists r, tri_rule order = Some r /\ tri_ok r a b = true).
Proof. exact (fun order H => conj (local_mass_exact order H) (monomials_deg2 order H)). Qed.
Print Assumptions C10_mixed_mass_exact_partial.

(* ---- dual spaces: the literal index lists address the nodes they are documented to *)
Theorem C10_dual_index_lists :
  forall k, (k < 3)%nat ->
    same_set (nth k dual0_subtris []) (subtris_at_corner k) = true /\
    same_set (nth k dual1_vertex_dofs []) (all_dofs_of (BCorner k)) = true /\
    same_set (nth k dual1_edge_dofs []) (all_dofs_of (BMid k)) = true.
Proof. exact (fun k H => conj (dual0_rows k H) (conj (dual1_vertex_rows k H) (dual1_edge_rows k H))). Qed.
Print Assumptions C10_dual_index_lists.

(* DUAL0, hand model of the construction loop, for every coarse P1 space (support, global2local) with faces inside
   its support: when the support is not truncated (or the guard tests the coarse support - after the repair), the
   entries written are EXACTLY (6*pos(face)+s, dof, 1) for (face, v) in global2local[dof] and s one of the two
   sub-triangles listed for corner v: the indicator of the dual cell *)
Theorem C10_dual0_cells :
  forall (truncate : bool) (sup : list nat) (g2l : list (list (nat * nat))),
    (dual0_guard_uses_coarse_support = true \/ truncate = false) ->
    (forall dl f v, In dl g2l -> In (f, v) dl -> mem f sup = true) ->
    exists l, dual0_entries truncate sup g2l = Some l /\
      forall t, In t l <->
        exists d dl f v fn s, nth_error g2l d = Some dl /\ In (f, v) dl /\ index_of f sup = Some fn /\
                              In s (nth v dual0_subtris []) /\ t = ((6 * fn + s)%nat, d, 1).
Proof.
  exact (fun truncate sup g2l Hg Hwf =>
           dual0_entries_exact truncate sup g2l
             (fun dl f v Hdl Hfv => conj (Hwf dl f v Hdl Hfv) (dual0_guard_passes truncate sup f (Hwf dl f v Hdl Hfv) Hg))).
Qed.
Print Assumptions C10_dual0_cells.

(* the guard of the dual0 entries tests the coarse support (regenerated from the source) ... *)
Theorem C10_dual0_guard : dual0_guard_uses_coarse_support = true.
Proof. exact (eq_refl : dual0_guard_uses_coarse_support = true). Qed.
Print Assumptions C10_dual0_guard.

(* ... hence DUAL0 is the indicator of the dual cell for both truncation modes *)
Theorem C10_dual0_cells_all :
  forall (truncate : bool) (sup : list nat) (g2l : list (list (nat * nat))),
    (forall dl f v, In dl g2l -> In (f, v) dl -> mem f sup = true) ->
    exists l, dual0_entries truncate sup g2l = Some l /\
      forall t, In t l <->
        exists d dl f v fn s, nth_error g2l d = Some dl /\ In (f, v) dl /\ index_of f sup = Some fn /\
                              In s (nth v dual0_subtris []) /\ t = ((6 * fn + s)%nat, d, 1).
Proof.
  exact (fun truncate sup g2l Hwf =>
           dual0_entries_exact truncate sup g2l
             (fun dl f v Hdl Hfv => conj (Hwf dl f v Hdl Hfv)
                (dual0_guard_passes truncate sup f (Hwf dl f v Hdl Hfv) (or_introl (eq_refl : dual0_guard_uses_coarse_support = true))))).
Qed.
Print Assumptions C10_dual0_cells_all.

(* DUAL1, hand model of the construction loop, for every grid (any valence) and both truncation modes: every entry
   written for the dof of coarse element E is  1 at a listed "barycentre" dof of E,  1/2 at a dof that IS the midpoint
   of an edge shared with E,  or 1/valence(V) at a dof that IS a corner V of E, of an element of the support.
   partial: that the entries do not overlap / are complete (so that the summed matrix takes exactly these values) is
   covered by the correspondence check and the search, not proved. *)
Theorem C10_dual_nodal_values_partial :
  forall (truncate : bool) (elements element_edges edge_neighbors vertex_neighbors : list (list nat))
         (dp0_support : list nat) (t : triple),
    In t (dual1_entries truncate elements element_edges edge_neighbors vertex_neighbors dp0_support) ->
    exists d E, nth_error dp0_support d = Some E /\
      dual1_entry_kind truncate elements element_edges edge_neighbors vertex_neighbors dp0_support d E t.
Proof. exact dual1_entries_sound. Qed.
Print Assumptions C10_dual_nodal_values_partial.

(* DUAL1, no overlap: on every grid whose support elements have three distinct vertices and edges and whose neighbour
   lists are repetition-free, no two entries of the map address the same (barycentric dof, coarse dof): the coo->csr
   summation never adds two entries, so with C10_dual_nodal_values_partial every stored matrix entry IS a documented
   nodal value (1, 1/2, 1/valence). *)
Theorem C10_dual1_no_overlap :
  forall (truncate : bool) (elements element_edges edge_neighbors vertex_neighbors : list (list nat)) (dp0_support : list nat),
    grid_wf elements element_edges edge_neighbors vertex_neighbors dp0_support ->
    NoDup (map key (dual1_entries truncate elements element_edges edge_neighbors vertex_neighbors dp0_support)).
Proof.
  exact (fun truncate elements element_edges edge_neighbors vertex_neighbors dp0_support =>
           dual1_no_overlap truncate elements element_edges edge_neighbors vertex_neighbors dp0_support
                            (eq_refl : dual1_centre_status = true)).
Qed.
Print Assumptions C10_dual1_no_overlap.

(* the "1 at the barycentre" list of dual1 names exactly the six dofs located at the barycentre *)
Theorem C10_dual1_centre : same_set dual1_centre_dofs (all_dofs_of BCentre) = true.
Proof. exact (eq_refl : dual1_centre_status = true). Qed.
Print Assumptions C10_dual1_centre.

(* (kept last: the modules below open their own ring notations) *)
From BV Require Import AssemblyA.Sums AssemblyA.Mat AssemblyA.Dense AssemblyA.Sparse AssemblyA.L2Proofs Bary.MixedMass.
(* ---- mixed mass matrices, composition: in the model of core/sparse_assembler.py (BV.AssemblyA.Sparse, tied by C04/C13)
   the assembled matrix  X_test' . M_bary . X_trial  is, entry by entry, the quadrature over the common barycentric
   grid of the product of the two represented functions (barycentric coefficients = columns of the two
   dof_transformations), over any commutative ring.  With C10_*_pointwise (the represented functions ARE the coarse
   / dual functions) and C10_mixed_mass_exact_partial (the rule is exact for these integrands) this is the exact
   integral of the product of the two bases; those three statements are not merged into a single formula because they
   live over different carriers (abstract ring / Q / R). *)
Theorem C10_mixed_mass_composition :
  forall (A : Type) (R : CRing A) dim rule intel (bt br : basisfn) nel (St Sr : space A) gt gr (Xt Xr : mat) r c,
    dofs_in (seq 0 gt) St (sparse_elements nel St Sr) -> dofs_in (seq 0 gr) Sr (sparse_elements nel St Sr) ->
    req (sparse_op nel (Lsp_identity dim rule intel bt br) St Sr gt gr (Some Xt) (Some Xr) r c)
        (sumf (fun e => sumf (fun d => sumf (fun q =>
            rmul (rmul (uval (fun i => Xt i r) St bt e (fst q) d) (uval (fun j => Xr j c) Sr br e (fst q) d))
                 (rmul (snd q) (intel e))) rule) (seq 0 dim)) (sparse_elements nel St Sr)).
Proof. exact @mixed_mass_entry. Qed.
Print Assumptions C10_mixed_mass_composition.
