(* C18 -- Results depend only on explicit arguments, not on process history.
   Only statements.  [cur] (BVgen.CacheKeys) = for every assembler the parameters it reads, through which object
   (its own / the global one) and when (construction / first assembly), and the key and build inputs of the module
   caches, regenerated from the current source; [pinned] (BV.State.Caches) = the same tables of the pinned tree by
   hand, used for the witnesses.  [run T h] replays a history of API calls on the state machine. *)
From Coq Require Import ZArith List Bool.
From BV Require Import State.Caches State.CacheProofs State.C18Lemmas State.CacheTransparent.
From BVgen Require Import CacheKeys.
Import ListNotations.

(* all histories: once assembled, no later step (assemblies, cache hits, cache clears, parameter changes, ...) changes
   the cached weak form of an operator -- for any tables *)
Theorem C18_cached_write_once : forall (T : tables), t_pure T = true -> forall (h' : list op) (s : st) (i : nat) (d : desc),
  observe s i = Some d -> observe (fold_left (step T) h' s) i = Some d.
Proof. exact cached_write_once. Qed.
Print Assumptions C18_cached_write_once.

(* repeated weak_form calls return the same object and change nothing *)
Theorem C18_weak_form_idempotent : forall (T : tables) (s : st) (i : nat),
  do_weak T (do_weak T s i) i = do_weak T s i.
Proof. exact weak_form_idempotent. Qed.
Print Assumptions C18_weak_form_idempotent.

(* every non-FMM assembler of the current source reads its parameters through its own parameter object *)
Theorem C18_explicit_parameters_honoured : forall k, is_fmm k = false -> all_own (reads_of cur k) = true.
Proof. exact cur_explicit_parameters_honoured. Qed.
Print Assumptions C18_explicit_parameters_honoured.

(* all histories: the result of a dense / sparse / singular / dense-potential operator is determined by its own
   parameter object's values at construction and at first assembly *)
Theorem C18_dense_history_free : forall h i o d,
  nth_error (s_ops (run cur h)) i = Some o -> is_fmm (o_kind o) = false -> o_cached o = Some d ->
  exists p, o_snapshot o = Some p /\
            d = created_desc cur (o_kind o) (o_cparams o) ++ assemble_desc cur (o_kind o) p.
Proof. exact cur_dense_history_free. Qed.
Print Assumptions C18_dense_history_free.

(* ... which is what a fresh process with those values computes *)
Theorem C18_fresh_process : forall k args p, is_fmm k = false ->
  observe (run cur [CreateOp k args (Some p); WeakForm 0]) 0 = Some (fresh_desc cur k p).
Proof. exact cur_fresh_process. Qed.
Print Assumptions C18_fresh_process.

Theorem C18_binding_times :
  binds_at KDense Assemble = true /\ binds_at KSingular Assemble = true /\ binds_at KSparse Assemble = true /\
  binds_at KPotential Create = true.
Proof. exact cur_binding_times. Qed.
Print Assumptions C18_binding_times.

(* pinned tree: an explicit parameter object is not honoured by the FMM assembler *)
Theorem C18_explicit_parameters_fmm_refuted :
  exists d, observe (run pinned [CreateOp KFmm 0 (Some p_q6); WeakForm 0]) 0 = Some d /\
            desc_eqb d (fresh_desc pinned KFmm p_q6) = false.
Proof. exact fmm_explicit_parameters_refuted. Qed.
Print Assumptions C18_explicit_parameters_fmm_refuted.

(* pinned tree: the keys of both FMM caches omit inputs of the cached value; witness history *)
Theorem C18_cache_key_sufficient_refuted :
  key_sufficient pinned CFmm = false /\ key_sufficient pinned CFmmPotential = false /\
  exists d, observe (run pinned [CreateOp KFmm 0 None; WeakForm 0; SetParam 0 QReg 6; CreateOp KFmm 0 None; WeakForm 1]) 1
            = Some d /\ desc_eqb d (fresh_desc pinned KFmm p_q6) = false.
Proof. exact fmm_cache_key_refuted. Qed.
Print Assumptions C18_cache_key_sufficient_refuted.

Theorem C18_potential_cache_refuted :
  exists o, nth_error (s_ops (run pinned [CreateOp KFmmPotential 0 None; SetParam 0 FDepth 3;
                                          CreateOp KFmmPotential 0 None])) 1 = Some o /\
            desc_eqb (o_created o) (fresh_desc pinned KFmmPotential (set_field default_params FDepth 3)) = false.
Proof. exact fmm_potential_cache_refuted. Qed.
Print Assumptions C18_potential_cache_refuted.

Theorem C18_cache_cleared_restores :
  observe (run pinned [CreateOp KFmm 0 None; WeakForm 0; SetParam 0 QReg 6; ClearFmmCache; CreateOp KFmm 0 None;
                       WeakForm 1]) 1 = Some (fresh_desc pinned KFmm p_q6).
Proof. exact fmm_cache_cleared_ok. Qed.
Print Assumptions C18_cache_cleared_restores.

(* pinned tree: the mass-matrix memo of a space keeps the global quadrature order of its first use *)
Theorem C18_memo_keys_refuted :
  nth_error (s_spaces (run pinned [SetParam 0 QReg 1; CreateSpace; MassMatrix 0; SetParam 0 QReg 4;
                                   CreateOp KDense 0 None; StrongForm 0 0])) 0 = Some (Some [(APromote, 0%Z); (QReg, 1%Z)]) /\
  nth_error (s_spaces (run pinned [SetParam 0 QReg 4; CreateSpace; CreateOp KDense 0 None; StrongForm 0 0])) 0
    = Some (Some [(APromote, 0%Z); (QReg, 4%Z)]).
Proof. exact mass_memo_refuted. Qed.
Print Assumptions C18_memo_keys_refuted.

(* for ANY tables whose FMM cache keys contain every input read while building the cached interface: for all histories
   the descriptor of an assembled FMM operator is computed from the two parameter objects (own, global) as they were at
   its construction / first assembly -- cache hits are indistinguishable from rebuilding *)
Theorem C18_cache_key_sufficient : forall T : tables, t_pure T = true ->
  key_sufficient T CFmm = true -> key_sufficient T CFmmPotential = true ->
  forall h i o d, nth_error (s_ops (run T h)) i = Some o -> o_kind o = KFmm -> o_cached o = Some d ->
  exists po pg, o_snapshot o = Some po /\ o_gsnapshot o = Some pg /\
    d = at_time T KFmm Create (o_cparams o) (o_gcparams o) ++ at_time T KFmm Assemble po pg ++ iface_at T CFmm po pg.
Proof. exact fmm_cache_transparent. Qed.
Print Assumptions C18_cache_key_sufficient.

Theorem C18_potential_cache_key_sufficient : forall T : tables, t_pure T = true ->
  key_sufficient T CFmm = true -> key_sufficient T CFmmPotential = true ->
  forall h i o, nth_error (s_ops (run T h)) i = Some o -> o_kind o = KFmmPotential ->
  o_created o = at_time T KFmmPotential Create (o_cparams o) (o_gcparams o) ++
                iface_at T CFmmPotential (o_cparams o) (o_gcparams o).
Proof. exact fmm_potential_cache_transparent. Qed.
Print Assumptions C18_potential_cache_key_sufficient.

(* the hypotheses are satisfiable (tables of the repaired source, docs/fixes/c18_fmm_parameters.diff) *)
Theorem C18_repaired_keys_sufficient :
  key_sufficient repaired CFmm = true /\ key_sufficient repaired CFmmPotential = true.
Proof. exact repaired_keys_sufficient. Qed.
Print Assumptions C18_repaired_keys_sufficient.

(* the current source, exactly: the inputs of the cached FMM interfaces that are not part of the cache keys, and the keys
   themselves (recorded finding); any further omission breaks this theorem *)
Theorem C18_cache_keys_current :
  missing cur CFmm = [(FDepth, Own); (FNear, Global); (QReg, Own)] /\
  missing cur CFmmPotential = [(FDepth, Global); (FNcrit, Global); (FOrder, Global); (QReg, Global)] /\
  fst (cache_of cur CFmm) = [(FOrder, Own); (FNcrit, Own)] /\ fst (cache_of cur CFmmPotential) = [].
Proof. exact cur_cache_keys. Qed.
Print Assumptions C18_cache_keys_current.

(* the only parameter the FMM assemblers read through the global object is quadrature.regular (recorded finding) *)
Theorem C18_fmm_global_reads_current : global_reads KFmm = [QReg] /\ global_reads KFmmPotential = [QReg].
Proof. exact cur_fmm_global_reads. Qed.
Print Assumptions C18_fmm_global_reads_current.

(* the current source: the purity scan of the algebra files (every augmented assignment, subscript store, out= and
   fill/sort applied to a value that may alias self, an argument or what their methods return) finds nothing ... *)
Theorem C18_no_inplace_updates : inplace_updates = [] /\ t_pure cur = true.
Proof. exact (conj cur_no_inplace_updates cur_pure). Qed.
Print Assumptions C18_no_inplace_updates.

(* ... hence, for all histories including the assembly of derived operators (step AssembleDerived: -A, alpha*A, A-B, A*B, ...),
   an assembled operand keeps its cached weak form *)
Theorem C18_derived_assembly_keeps_operands : forall (h' : list op) (s : st) (i : nat) (d : desc),
  observe s i = Some d -> observe (fold_left (step cur) h' s) i = Some d.
Proof. exact cur_derived_assembly_pure. Qed.
Print Assumptions C18_derived_assembly_keeps_operands.

(* with an in-place scaling in the algebra (tables with t_pure = false, e.g. seeded change C18-3) the operand's weak form
   changes when a derived operator is assembled *)
Theorem C18_inplace_scaling_refuted :
  observe (run impure [CreateOp KDense 0 None; WeakForm 0]) 0 <>
  observe (run impure [CreateOp KDense 0 None; WeakForm 0; AssembleDerived 0 3]) 0.
Proof. exact inplace_scaling_refuted. Qed.
Print Assumptions C18_inplace_scaling_refuted.
