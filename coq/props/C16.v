(* C16 -- Assembly results are independent of thread count and scheduling.
   Only statements: each theorem is closed by [exact] of a lemma proved under theories/. *)
From Coq Require Import ZArith List Bool Arith.
From BV Require Import Space.DofMaps Space.Colouring Space.SpaceBasics Space.ColouringProofs Space.DofMapsProofs
  Space.P1Proofs Space.RwgProofs Space.Corr Space.GridOk Space.C09Lemmas Space.FreezeProofs
  Concurrency.Interleave Concurrency.Launch Concurrency.FootprintFacts Concurrency.C16Lemmas.
From BVgen Require Import Footprints.
Import ListNotations.

(* greedy colouring of FunctionSpace._compute_color_map: for EVERY space (arrays local2global, local_multipliers,
   support) whose zero-multiplier entries repeat a non-zero entry of the same row, two distinct support elements of
   equal colour have disjoint local2global rows -- all entries, zero-multiplier ones included *)
Theorem C16_colouring_proper : forall (s : space) (cm : nat -> Z),
  alias_closed s -> colour_map s = Some cm ->
  forall e f, In e (support_elements s) -> In f (support_elements s) -> e <> f -> cm e = cm f ->
  forall d, In d (l2g_row s e) -> In d (l2g_row s f) -> False.
Proof. exact colouring_proper. Qed.
Print Assumptions C16_colouring_proper.

(* next(colour for colour in range(number_of_support_elements) ...) never raises StopIteration *)
Theorem C16_colouring_defined : forall s : space, exists cm, colour_map s = Some cm.
Proof. exact colouring_defined. Qed.
Print Assumptions C16_colouring_defined.

Theorem C16_colouring_range : forall (s : space) (cm : nat -> Z), colour_map s = Some cm ->
  (forall e, In e (support_elements s) -> (0 <= cm e < Z.of_nat (length (support_elements s)))%Z) /\
  (forall e, ~ In e (support_elements s) -> cm e = (-1)%Z).
Proof. exact colouring_range. Qed.
Print Assumptions C16_colouring_range.

(* alias closure is needed: without it the later element does not see the earlier one *)
Theorem C16_colouring_asymmetric_refuted :
  exists s cm, colour_map s = Some cm /\ In 0 (support_elements s) /\ In 1 (support_elements s) /\
               cm 0 = cm 1 /\ In 1 (l2g_row s 0) /\ In 1 (l2g_row s 1) /\ alias_closedb s = false.
Proof. exact colouring_asymmetric_refuted. Qed.
Print Assumptions C16_colouring_asymmetric_refuted.

(* get_elements_by_color lists every support element exactly once *)
Theorem C16_colour_classes_partition_support : forall (s : space) (cm : nat -> Z), colour_map s = Some cm ->
  NoDup (sorted_indices (sp_n s) cm) /\
  (forall e, In e (sorted_indices (sp_n s) cm) <-> In e (support_elements s)) /\
  length (sorted_indices (sp_n s) cm) = length (support_elements s).
Proof. exact colour_classes_partition. Qed.
Print Assumptions C16_colour_classes_partition_support.

(* the slices sorted_indices[indexptr[c] : indexptr[c+1]] that dense_assembler launches are the colour classes *)
Theorem C16_launches_are_colour_classes : forall (n : nat) (cm : nat -> Z),
  slices (sorted_indices n cm) (indexptr n cm) = colour_classes n cm.
Proof. exact launches_are_colour_classes. Qed.
Print Assumptions C16_launches_are_colour_classes.

(* n threads, any schedule, any value/local-state types, any update functions (no law of + is used) *)
Theorem C16_schedule_independent :
  forall (cell : Type) (cell_eq_dec : forall a b : cell, {a = b} + {a <> b}) (V L : Type)
         (ps : list (list (step cell V L))) (ls : list L) (sched : list nat) (m : mem cell V),
  length ps = length ls -> pairwise_disjoint cell V L ps ->
  let r := run_sched cell cell_eq_dec V L sched ps ls m in
  (forall p, In p (fst (fst r)) -> p = []) ->
  snd (fst r) = fst (run_seq cell cell_eq_dec V L ps ls m) /\
  meq cell V (snd r) (snd (run_seq cell cell_eq_dec V L ps ls m)).
Proof. exact schedule_independent. Qed.
Print Assumptions C16_schedule_independent.

(* dense_assembler: one launch per test colour; thread of test element e touches only rows local2global[e, .] *)
Theorem C16_dense_assembly_schedule_independent :
  forall (V L : Type) (test : space) (cm : nat -> Z), alias_closed test -> colour_map test = Some cm ->
  forall prog : nat -> list (step mcell V L),
  (forall e c, fp mcell V L (prog e) c -> In (fst c) (l2g_row test e)) ->
  forall (locals : nat -> list L) (scheds : nat -> list nat) (m : mem mcell V),
  (forall c, c < ncolours (sp_n test) cm ->
     length (locals c) = length (colour_class (sp_n test) cm c) /\
     forall m' p, In p (fst (fst (run_sched mcell mcell_eq_dec V L (scheds c)
                       (map prog (colour_class (sp_n test) cm c)) (locals c) m'))) -> p = []) ->
  let las := map (fun c => dense_launch V L test cm prog c (locals c) (scheds c)) (seq 0 (ncolours (sp_n test) cm)) in
  meq mcell V (run_launches mcell mcell_eq_dec V L las m) (run_launches_seq mcell mcell_eq_dec V L las m).
Proof. exact dense_assembly_schedule_independent. Qed.
Print Assumptions C16_dense_assembly_schedule_independent.

(* every store inside every prange loop of numba_kernels.py / fmm/helpers.py (generated list) is private, own-slot,
   own-column, own-csr-range (disjoint by arithmetic, for all values of the loop-invariant quantities) or row-of-dof *)
Theorem C16_footprints_disjoint : forall w, In w footprints -> safe w.
Proof. exact footprints_disjoint. Qed.
Print Assumptions C16_footprints_disjoint.

Theorem C16_alias_closed_dp0 : forall g sup, alias_closed (dp0_space g sup).
Proof. exact dp0_alias_closed. Qed.
Print Assumptions C16_alias_closed_dp0.
Theorem C16_alias_closed_dp1 : forall g sup, alias_closed (dp1_space g sup).
Proof. exact dp1_alias_closed. Qed.
Print Assumptions C16_alias_closed_dp1.
Theorem C16_alias_closed_localised : forall s, alias_closed (localised_space s).
Proof. exact localised_alias_closed. Qed.
Print Assumptions C16_alias_closed_localised.
Theorem C16_alias_closed_p1 : forall g sup incl trunc, alias_closed (p1_space g sup incl trunc).
Proof. exact p1_alias_closed. Qed.
Print Assumptions C16_alias_closed_p1.
(* RWG and SNC (same builder), on every grid whose tables are consistent *)
Theorem C16_alias_closed_rwg : forall g sup incl trunc, grid_ok g -> support_in_range g sup ->
  alias_closed (rwg_space g sup incl trunc).
Proof. exact c09_rwg_alias_closed. Qed.
Print Assumptions C16_alias_closed_rwg.
(* the correspondence evaluates the model on the list-backed copy of a space: same tables, same colour map *)
Theorem C16_correspondence_evaluates_the_same_colouring : forall s : space,
  colour_map (freeze s) = colour_map s /\
  l2g_tab (freeze s) = l2g_tab s /\ mult_tab (freeze s) = mult_tab s /\ supp_tab (freeze s) = supp_tab s.
Proof. exact (fun s => conj (freeze_colour_map s) (freeze_tables s)). Qed.
Print Assumptions C16_correspondence_evaluates_the_same_colouring.
(* barycentric (P0/P1/RWG/SNC), DUAL0/DUAL1, BC/RBC, localised and DP spaces are all built as
   local2global[support] = arange(k * size).reshape(size, k), multipliers 1: alias closed for every n, k, support
   (the correspondence checks inside Coq that the arrays of those spaces ARE arange_space n k support), and
   different elements never share a dof *)
Theorem C16_alias_closed_arange : forall n k sup,
  alias_closed (arange_space n k sup) /\
  (forall e f i j, sup e = true -> sup f = true -> i < k -> j < k ->
     l2g (arange_space n k sup) e i = l2g (arange_space n k sup) f j -> e = f /\ i = j).
Proof. exact (fun n k sup => conj (arange_alias_closed n k sup) (arange_rows_disjoint n k sup)). Qed.
Print Assumptions C16_alias_closed_arange.
