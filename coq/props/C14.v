(* C14 -- Operator, grid-function and potential algebra is coherent.
   Only statements; each theorem is closed by [exact] of a lemma proved under theories/Algebra.
   OpClasses.* (BVgen) are the guards, constructor spaces, _assemble / evaluate / strong_form bodies and dunder
   methods regenerated from the current bempp_cl/api/assembly/*.py; [uweak] interprets them.
   The coefficient ring, the atoms (assembled operators: spaces + matrix), the dof counts and the inverse mass
   matrices are universally quantified. *)
From Coq Require Import List Arith Bool String.
From BV Require Import Algebra.Mat Algebra.OpLang Algebra.PotLang Algebra.OpProofs Algebra.PotProofs.
From BV Require Import Algebra.DiscLang Algebra.DiscProofs Algebra.PotAlgebra Algebra.GfLang Algebra.GfProofs Algebra.BlockMat.
From BVgen Require Import OpClasses.
Import ListNotations.

(* well-typed expression trees built with + - unary- scalar* * @ denote the matrix expressions
   (product = W1 (M^-1 W2)), in the predicted spaces and with the predicted dimensions *)
Theorem C14_denotation : forall (A : Type) (r0 r1 : A) (radd rmul : A -> A -> A) (ropp rinv : A -> A)
    (dim : nat -> nat) (invmass mass : nat -> nat -> M A) (atoms : nat -> nat * nat * nat * M A),
  (forall i : nat, rows (snd (atoms i)) = dim (pick3 Dual (fst (atoms i))) /\
                   cols (snd (atoms i)) = dim (pick3 Dom (fst (atoms i)))) ->
  (forall r d : nat, rows (invmass r d) = dim r /\ cols (invmass r d) = dim d) ->
  forall (e : uexp A) (t : nat * nat * nat), type_of A atoms e = Some t ->
  exists m : M A,
    uweak A r0 r1 radd rmul ropp rinv invmass mass atoms (bd_strong BD) BD boundary_classes e = Ok (VM m) /\
    meq A m (den A r0 r1 radd rmul ropp invmass atoms e) /\
    uspaces A r0 r1 radd rmul ropp rinv invmass mass atoms (bd_strong BD) BD boundary_classes e = Ok t /\
    dims_ok A dim t m.
Proof. exact denotation. Qed.
Print Assumptions C14_denotation.

(* the translated guards raise ValueError exactly on incompatible spaces; otherwise a matrix is produced *)
Theorem C14_typing_sound_complete : forall (A : Type) (r0 r1 : A) (radd rmul : A -> A -> A) (ropp rinv : A -> A)
    (dim : nat -> nat) (invmass mass : nat -> nat -> M A) (atoms : nat -> nat * nat * nat * M A),
  (forall i : nat, rows (snd (atoms i)) = dim (pick3 Dual (fst (atoms i))) /\
                   cols (snd (atoms i)) = dim (pick3 Dom (fst (atoms i)))) ->
  (forall r d : nat, rows (invmass r d) = dim r /\ cols (invmass r d) = dim d) ->
  forall e : uexp A,
  (type_of A atoms e = None <->
   uweak A r0 r1 radd rmul ropp rinv invmass mass atoms (bd_strong BD) BD boundary_classes e = Err ValueError) /\
  (type_of A atoms e <> None <->
   exists m : M A,
     uweak A r0 r1 radd rmul ropp rinv invmass mass atoms (bd_strong BD) BD boundary_classes e = Ok (VM m)).
Proof. exact typing_sound_complete. Qed.
Print Assumptions C14_typing_sound_complete.

(* strong form = M^-1 W with M between range and dual_to_range *)
Theorem C14_strong_form : forall (A : Type) (r0 r1 : A) (radd rmul : A -> A -> A) (ropp rinv : A -> A)
    (dim : nat -> nat) (invmass mass : nat -> nat -> M A) (atoms : nat -> nat * nat * nat * M A),
  (forall i : nat, rows (snd (atoms i)) = dim (pick3 Dual (fst (atoms i))) /\
                   cols (snd (atoms i)) = dim (pick3 Dom (fst (atoms i)))) ->
  (forall r d : nat, rows (invmass r d) = dim r /\ cols (invmass r d) = dim d) ->
  forall (e : uexp A) (d q u : nat), type_of A atoms e = Some (d, q, u) ->
  exists m : M A,
    bind (elab A r0 r1 ropp rinv BD boundary_classes e)
         (strong A r0 r1 radd rmul ropp rinv invmass mass atoms (bd_strong BD)) = Ok (VM m) /\
    meq A m (mmul A r0 radd rmul (invmass q u) (den A r0 r1 radd rmul ropp invmass atoms e)).
Proof. exact strong_form. Qed.
Print Assumptions C14_strong_form.

(* operator * grid function: ValueError unless the function lives in the domain; otherwise the function of
   (range, dual_to_range) whose projections are W * coefficients *)
Theorem C14_apply_function : forall (A : Type) (r0 r1 : A) (radd rmul : A -> A -> A) (ropp rinv : A -> A)
    (dim : nat -> nat) (invmass mass : nat -> nat -> M A) (atoms : nat -> nat * nat * nat * M A),
  (forall i : nat, rows (snd (atoms i)) = dim (pick3 Dual (fst (atoms i))) /\
                   cols (snd (atoms i)) = dim (pick3 Dom (fst (atoms i)))) ->
  (forall r d : nat, rows (invmass r d) = dim r /\ cols (invmass r d) = dim d) ->
  forall (e : uexp A) (d q u : nat) (f : gfun A), type_of A atoms e = Some (d, q, u) ->
  (g_space f <> d ->
   bind (elab A r0 r1 ropp rinv BD boundary_classes e)
        (fun o : bop A => apply_op A r0 r1 radd rmul ropp rinv invmass mass atoms (bd_strong BD) BD o f) =
   Err ValueError) /\
  (g_space f = d ->
   exists p : M A,
     bind (elab A r0 r1 ropp rinv BD boundary_classes e)
          (fun o : bop A => apply_op A r0 r1 radd rmul ropp rinv invmass mass atoms (bd_strong BD) BD o f) =
     Ok {| g_space := q; g_dual := u; g_rep := DualRep p |} /\
     (rows (coefficients A r0 radd rmul invmass f) = dim d ->
      meq A p (mmul A r0 radd rmul (den A r0 r1 radd rmul ropp invmass atoms e)
                    (coefficients A r0 radd rmul invmass f)))).
Proof. exact apply_function. Qed.
Print Assumptions C14_apply_function.

(* every attribute / method name used on self or on an operand in the five algebra files (433 uses) resolves against
   the class hierarchy; the list of unresolved names regenerated from the current source is empty (on the pinned tree
   f71eeee it had three entries in potential_operator.py, see Algebra/PotProofs.v) *)
Theorem C14_methods_resolve : unresolved = [].
Proof. exact all_names_resolve. Qed.
Print Assumptions C14_methods_resolve.

(* discrete operators: for every conformable tree of Scaled / Sum / Product operators over arbitrary matrices, the
   constructors accept it, to_dense is the matrix expression and _matvec(x) = to_dense() x  (matmat: column by column) *)
Theorem C14_discrete_algebra : forall (A : Type) (r0 r1 : A) (radd rmul rsub : A -> A -> A) (ropp : A -> A),
  ring_theory r0 r1 radd rmul rsub ropp eq -> forall e : dspec A, swf A r0 radd rmul e = true ->
  dwf A (DiscLang.build A r0 ScaledDiscreteOperator SumDiscreteOperator ProductDiscreteOperator e) = true /\
  dshape A (DiscLang.build A r0 ScaledDiscreteOperator SumDiscreteOperator ProductDiscreteOperator e) =
    (rows (sden A r0 radd rmul e), cols (sden A r0 radd rmul e)) /\
  meq A (dense A r0 radd rmul (DiscLang.build A r0 ScaledDiscreteOperator SumDiscreteOperator ProductDiscreteOperator e))
        (sden A r0 radd rmul e) /\
  (forall x : M A, rows x = cols (sden A r0 radd rmul e) ->
   meq A (matvec A r0 radd rmul (DiscLang.build A r0 ScaledDiscreteOperator SumDiscreteOperator ProductDiscreteOperator e) x)
         (mmul A r0 radd rmul
               (dense A r0 radd rmul (DiscLang.build A r0 ScaledDiscreteOperator SumDiscreteOperator ProductDiscreteOperator e)) x)).
Proof. exact discrete_algebra. Qed.
Print Assumptions C14_discrete_algebra.

(* the shape guards of the discrete Sum / Product constructors accept exactly the conformable operands *)
Theorem C14_discrete_shape_guards : forall (A : Type) (r0 : A) (a b : M A),
  (dwf A (DN SumDiscreteOperator (DA a) (DA b) r0) = true <-> rows a = rows b /\ cols a = cols b) /\
  (dwf A (DN ProductDiscreteOperator (DA a) (DA b) r0) = true <-> cols a = rows b).
Proof. exact discrete_shape_guards. Qed.
Print Assumptions C14_discrete_shape_guards.

(* a real operator applied to a complex vector: A x = A re(x) + i A im(x), over the complex extension of any ring *)
Theorem C14_real_times_complex : forall (A : Type) (r0 r1 : A) (radd rmul rsub : A -> A -> A) (ropp : A -> A),
  ring_theory r0 r1 radd rmul rsub ropp eq -> forall (m : M A) (x : M (C A)) (i j : nat),
  ent (mmul (C A) (c0 A r0) (cadd A radd) (cmul A radd rmul rsub) (embed A r0 m) x) i j =
  ent (join A (mmul A r0 radd rmul m (re_part A x)) (mmul A r0 radd rmul m (im_part A x))) i j.
Proof. exact real_times_complex. Qed.
Print Assumptions C14_real_times_complex.

(* blocked vectors: unpacking by the pieces' lengths inverts packing, and vice versa *)
Theorem C14_blocked_pack_unpack : forall (X : Type),
  (forall vs : list (list X), unpack X (map (@List.length X) vs) (pack X vs) = vs) /\
  (forall dims (v : list X), List.length v = list_sum dims -> pack X (unpack X dims v) = v).
Proof. exact (fun X => conj (unpack_pack X) (pack_unpack X)). Qed.
Print Assumptions C14_blocked_pack_unpack.

(* grid_function_list_from_projections of the current source recovers the projection pieces, for any dof counts *)
Theorem C14_blocked_unpack_projections : forall (X : Type) (dim : nat -> nat) (spaces duals : list nat)
  (ps : list (list X)), map (@List.length X) ps = map dim duals ->
  unpack_projections X slice_projections_by dim spaces duals (pack X ps) = ps.
Proof. exact cur_unpack_projections_now. Qed.
Print Assumptions C14_blocked_unpack_projections.

Theorem C14_blocked_recipe : slice_projections_by = DimDual /\ blocked_add_foreign = AddNotImplemented.
Proof. exact cur_recipe. Qed.
Print Assumptions C14_blocked_recipe.

(* why the dual selector is needed: slicing by the primal dof counts (the recipe of the pinned tree) loses entries as
   soon as range and dual dof counts differ (6 vs 8) *)
Theorem C14_blocked_unpack_primal_slicing_refuted :
  exists (dim : nat -> nat) (spaces duals : list nat) (ps : list (list nat)),
    map (@List.length nat) ps = map dim duals /\
    unpack_projections nat DimSpace dim spaces duals (pack nat ps) <> ps.
Proof. exact unpack_projections_refuted. Qed.
Print Assumptions C14_blocked_unpack_primal_slicing_refuted.

(* potential algebra of the current source (its names resolve: [potential_clean] computes to true): a well-typed
   expression built with + - unary- scalar* keeps space / component count / evaluation points and, applied to a grid
   function, evaluates to (matrix expression) * coefficients; an ill-typed one raises ValueError *)
Theorem C14_potential_algebra : forall (A : Type) (r0 r1 : A) (radd rmul rsub : A -> A -> A) (ropp : A -> A),
  ring_theory r0 r1 radd rmul rsub ropp eq -> forall (rinv : A -> A) (invmass mass : nat -> nat -> M A)
  (patoms : nat -> nat * nat * nat * M A) (prow : nat -> nat -> nat) (dim : nat -> nat),
  (forall i, let '(s, c, p) := fst (patoms i) in rows (snd (patoms i)) = prow c p /\ cols (snd (patoms i)) = dim s) ->
  forall e : upot A,
  match ptype_of A patoms e with
  | Some (s, c, p) =>
      exists o, pelab A r0 r1 ropp rinv patoms PB potential_classes e = Ok o /\
                pprop A patoms PB o "space" = Ok s /\ pprop A patoms PB o "component_count" = Ok c /\
                pprop A patoms PB o "evaluation_points" = Ok p /\
                forall coef, rows coef = dim s ->
                  exists m, peval A r0 r1 radd rmul ropp rinv invmass mass patoms o coef = Ok (VM m) /\
                            meq A m (mmul A r0 radd rmul (pden A r1 radd rmul ropp patoms e) coef)
  | None => pelab A r0 r1 ropp rinv patoms PB potential_classes e = Err ValueError
  end.
Proof. exact (fun A r0 r1 radd rmul rsub ropp Rth rinv invmass mass patoms prow dim D =>
                potential_algebra A r0 r1 radd rmul rsub ropp Rth rinv invmass mass patoms prow dim D potential_clean_now). Qed.
Print Assumptions C14_potential_algebra.

(* GridFunction arithmetic of the current source: for every expression built with + - unary- scalar* (either side) and /
   over grid functions in coefficient or projection representation with arbitrary dual spaces: ValueError iff the spaces
   differ; otherwise the result lives in the common space and its coefficients are the vector expression *)
Theorem C14_grid_function_arithmetic : forall (A : Type) (r0 r1 : A) (radd rmul rsub : A -> A -> A) (ropp : A -> A),
  ring_theory r0 r1 radd rmul rsub ropp eq -> forall (rinv : A -> A) (dim : nat -> nat) (ncol : nat)
  (invmass mass : nat -> nat -> M A),
  (forall r d : nat, rows (invmass r d) = dim r /\ cols (invmass r d) = dim d) ->
  forall e : ugf A, atoms_wf A dim ncol e ->
  match gtype A e with
  | Some s => exists g, gfeval A r0 r1 radd rmul ropp rinv invmass mass GF e = Ok g /\ g_space g = s /\
                        wf A dim ncol g /\
                        meq A (coefficients A r0 radd rmul invmass g) (gcoef A r0 r1 radd rmul ropp rinv invmass e)
  | None => gfeval A r0 r1 radd rmul ropp rinv invmass mass GF e = Err ValueError
  end.
Proof. exact gf_arithmetic. Qed.
Print Assumptions C14_grid_function_arithmetic.

(* transposes: exactly Dense, Sparse, Diagonal and RankOne operators define _transpose/_adjoint (regenerated list), and
   what they build has the transposed matrix *)
Theorem C14_leaf_transposes : forall (A : Type) (r0 r1 : A) (radd rmul rsub : A -> A -> A) (ropp : A -> A),
  ring_theory r0 r1 radd rmul rsub ropp eq -> forall (l : leaf A) (k : trkind),
  kind_of_class (leaf_class A l) = Some k ->
  meq A (leaf_dense A r0 rmul (leaf_transpose A k l)) (mtrans A (leaf_dense A r0 rmul l)).
Proof. exact leaf_transposes. Qed.
Print Assumptions C14_leaf_transposes.

Theorem C14_transposable_classes :
  kind_of_class "DenseDiscreteBoundaryOperator" = Some TrDense /\ kind_of_class "SparseDiscreteBoundaryOperator" = Some TrDense /\
  kind_of_class "DiagonalOperator" = Some TrSelf /\ kind_of_class "DiscreteRankOneOperator" = Some TrSwap /\
  List.length transposable = 4%nat.
Proof. exact transposable_now. Qed.
Print Assumptions C14_transposable_classes.

(* what the transposes of Sum / Scaled / Product operators have to be (these classes define none: recorded finding) *)
Theorem C14_composite_transposes : forall (A : Type) (r0 r1 : A) (radd rmul rsub : A -> A -> A) (ropp : A -> A),
  ring_theory r0 r1 radd rmul rsub ropp eq -> forall (X Y : M A) (a : A),
  meq A (mtrans A (madd A radd X Y)) (madd A radd (mtrans A X) (mtrans A Y)) /\
  meq A (mtrans A (mscale A rmul a X)) (mscale A rmul a (mtrans A X)) /\
  (cols X = rows Y -> meq A (mtrans A (mmul A r0 radd rmul X Y)) (mmul A r0 radd rmul (mtrans A Y) (mtrans A X))).
Proof. exact composite_transposes. Qed.
Print Assumptions C14_composite_transposes.

(* BlockedDiscreteOperator (any numbers and sizes of block rows/columns, any blocks, None = zero block): the product of the
   assembled dense block matrix with x equals the blockwise _matvec/_matmat, and region (p, q) of the dense matrix is block (p, q)
   or zeros *)
Theorem C14_blocked_matrix : forall (A : Type) (r0 r1 : A) (radd rmul rsub : A -> A -> A) (ropp : A -> A),
  ring_theory r0 r1 radd rmul rsub ropp eq ->
  forall (nr nc : nat) (rd cd : nat -> nat) (blk : nat -> nat -> option (M A)) (x : M A),
  meq A (mmul A r0 radd rmul (block_dense A r0 nr nc rd cd blk) x) (block_matmat A r0 radd rmul nr nc rd cd blk x).
Proof. exact block_matmat_dense. Qed.
Print Assumptions C14_blocked_matrix.

Theorem C14_blocked_matrix_regions : forall (A : Type) (r0 : A) (nr nc : nat) (rd cd : nat -> nat)
  (blk : nat -> nat -> option (M A)) (p q li lj : nat),
  (p < nr)%nat -> (q < nc)%nat -> (li < rd p)%nat -> (lj < cd q)%nat ->
  ent (block_dense A r0 nr nc rd cd blk) (off rd p + li) (off cd q + lj) =
  match blk p q with Some m => ent m li lj | None => r0 end.
Proof. exact block_dense_region. Qed.
Print Assumptions C14_blocked_matrix_regions.

(* ---- blocked operators (BlockedOperatorBase and its Sum / Scaled / Product classes), over the descriptions regenerated
   from blocked_operator.py (BBD, blocked_classes).  Here a space id stands for a LIST of spaces (tuple equality), [dim] for
   the total dof count and [invmass r d] for the block-diagonal operator of the inverse mass matrices between the spaces of
   list r and list d; which lists strong_form takes them from is part of the regenerated [bd_strong BBD]. ---- *)
From BV Require Algebra.BlockedProofs.

Theorem C14_blocked_denotation : forall (A : Type) (r0 r1 : A) (radd rmul : A -> A -> A) (ropp rinv : A -> A)
    (dim : nat -> nat) (invmass mass : nat -> nat -> M A) (atoms : nat -> nat * nat * nat * M A),
  (forall i : nat, rows (snd (atoms i)) = dim (pick3 Dual (fst (atoms i))) /\
                   cols (snd (atoms i)) = dim (pick3 Dom (fst (atoms i)))) ->
  (forall r d : nat, rows (invmass r d) = dim r /\ cols (invmass r d) = dim d) ->
  forall (e : uexp A) (t : nat * nat * nat), type_of A atoms e = Some t ->
  exists m : M A,
    uweak A r0 r1 radd rmul ropp rinv invmass mass atoms (bd_strong BBD) BBD blocked_classes e = Ok (VM m) /\
    meq A m (den A r0 r1 radd rmul ropp invmass atoms e) /\
    uspaces A r0 r1 radd rmul ropp rinv invmass mass atoms (bd_strong BBD) BBD blocked_classes e = Ok t /\
    BlockedProofs.dims_ok A dim t m.
Proof. exact BlockedProofs.denotation. Qed.
Print Assumptions C14_blocked_denotation.

Theorem C14_blocked_typing_sound_complete : forall (A : Type) (r0 r1 : A) (radd rmul : A -> A -> A) (ropp rinv : A -> A)
    (dim : nat -> nat) (invmass mass : nat -> nat -> M A) (atoms : nat -> nat * nat * nat * M A),
  (forall i : nat, rows (snd (atoms i)) = dim (pick3 Dual (fst (atoms i))) /\
                   cols (snd (atoms i)) = dim (pick3 Dom (fst (atoms i)))) ->
  (forall r d : nat, rows (invmass r d) = dim r /\ cols (invmass r d) = dim d) ->
  forall e : uexp A,
  (type_of A atoms e = None <->
   uweak A r0 r1 radd rmul ropp rinv invmass mass atoms (bd_strong BBD) BBD blocked_classes e = Err ValueError) /\
  (type_of A atoms e <> None <->
   exists m : M A,
     uweak A r0 r1 radd rmul ropp rinv invmass mass atoms (bd_strong BBD) BBD blocked_classes e = Ok (VM m)).
Proof. exact BlockedProofs.typing_sound_complete. Qed.
Print Assumptions C14_blocked_typing_sound_complete.

(* blocked strong form = (block-diagonal inverse mass operator between the RANGE and DUAL_TO_RANGE lists) * weak form;
   with C14_blocked_denotation: blocked product = weak(A) * strong(B) *)
Theorem C14_blocked_strong_form : forall (A : Type) (r0 r1 : A) (radd rmul : A -> A -> A) (ropp rinv : A -> A)
    (dim : nat -> nat) (invmass mass : nat -> nat -> M A) (atoms : nat -> nat * nat * nat * M A),
  (forall i : nat, rows (snd (atoms i)) = dim (pick3 Dual (fst (atoms i))) /\
                   cols (snd (atoms i)) = dim (pick3 Dom (fst (atoms i)))) ->
  (forall r d : nat, rows (invmass r d) = dim r /\ cols (invmass r d) = dim d) ->
  forall (e : uexp A) (d q u : nat), type_of A atoms e = Some (d, q, u) ->
  exists m : M A,
    bind (elab A r0 r1 ropp rinv BBD blocked_classes e)
         (strong A r0 r1 radd rmul ropp rinv invmass mass atoms (bd_strong BBD)) = Ok (VM m) /\
    meq A m (mmul A r0 radd rmul (invmass q u) (den A r0 r1 radd rmul ropp invmass atoms e)).
Proof. exact BlockedProofs.strong_form. Qed.
Print Assumptions C14_blocked_strong_form.

(* B * [f, g, ...] (packed coefficients c): result labelled with the range / dual_to_range lists, projections W c *)
Theorem C14_blocked_apply : forall (A : Type) (r0 r1 : A) (radd rmul : A -> A -> A) (ropp rinv : A -> A)
    (dim : nat -> nat) (invmass mass : nat -> nat -> M A) (atoms : nat -> nat * nat * nat * M A),
  (forall i : nat, rows (snd (atoms i)) = dim (pick3 Dual (fst (atoms i))) /\
                   cols (snd (atoms i)) = dim (pick3 Dom (fst (atoms i)))) ->
  (forall r d : nat, rows (invmass r d) = dim r /\ cols (invmass r d) = dim d) ->
  forall (e : uexp A) (d q u : nat) (f : gfun A), type_of A atoms e = Some (d, q, u) ->
  exists p : M A,
    bind (elab A r0 r1 ropp rinv BBD blocked_classes e)
         (fun o : bop A => apply_op A r0 r1 radd rmul ropp rinv invmass mass atoms (bd_strong BBD) BBD o f) =
    Ok {| g_space := q; g_dual := u; g_rep := DualRep p |} /\
    (rows (coefficients A r0 radd rmul invmass f) = dim d ->
     meq A p (mmul A r0 radd rmul (den A r0 r1 radd rmul ropp invmass atoms e) (coefficients A r0 radd rmul invmass f))).
Proof. exact BlockedProofs.apply_function. Qed.
Print Assumptions C14_blocked_apply.

(* a block-diagonal operator acts row block by row block: row block p of blockdiag(D) * x is D_p times row block p of x
   (so block (p, j) of the blocked strong form is M(range_p, dual_p)^-1 * W_pj) *)
Theorem C14_block_diagonal_rows : forall (A : Type) (r0 r1 : A) (radd rmul rsub : A -> A -> A) (ropp : A -> A),
  ring_theory r0 r1 radd rmul rsub ropp eq ->
  forall (nr nc : nat) (rd cd : nat -> nat) (blk : nat -> nat -> option (M A)) (D : nat -> M A) (x : M A) (p li c : nat),
  (forall a b, blk a b = if Nat.eqb a b then Some (D a) else None) ->
  (p < nr)%nat -> (p < nc)%nat -> (li < rd p)%nat -> (c < cols x)%nat ->
  ent (mmul A r0 radd rmul (block_dense A r0 nr nc rd cd blk) x) (off rd p + li) c =
  sumn A r0 radd (cd p) (fun l => rmul (ent (D p) li l) (ent x (off cd p + l)%nat c)).
Proof. exact block_diagonal_rows. Qed.
Print Assumptions C14_block_diagonal_rows.
