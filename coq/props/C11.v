(* C11 -- Grid topology and geometry data are complete and consistent.
   Only statements: each theorem is closed by [exact] of a lemma proved under theories/Grid.
   The model (theories/Grid/Topology.v, Geometry.v, Refine.v) is hand-written and tied to bempp_cl/api/grid/grid.py
   by the correspondence check of ./check C11 (exhaustive sub-complexes + random soups + malformed stream). *)
From Coq Require Import QArith List Arith Bool.
From BV Require Import Grid.Topology Grid.PairFacts Grid.AdjacencyFacts Grid.EdgeFacts Grid.TablesFacts
  Grid.Geometry Grid.GeometryFacts Grid.Refine Grid.RefineFacts Grid.Examples.
Import ListNotations.
Open Scope nat_scope.

(* ---- edges: for EVERY list of elements ------------------------------------------------------------------ *)
Theorem C11_edges_once : forall els : list elem,
  NoDup (edges els) /\ length (element_edges els) = length els /\
  (forall g, In g (edges els) -> fst g <= snd g) /\
  (forall e l, e < length els -> l < 3 ->
     eedge els e l < length (edges els) /\
     nth (eedge els e l) (edges els) dE = vertices_from_edge_index (el els e) l) /\
  (forall g, In g (edges els) -> exists e l, e < length els /\ l < 3 /\ g = vertices_from_edge_index (el els e) l).
Proof. exact edges_once. Qed.
Print Assumptions C11_edges_once.

Theorem C11_edge_numbering_injective : forall (els : list elem) e l f l',
  e < length els -> l < 3 -> f < length els -> l' < 3 ->
  (eedge els e l = eedge els f l' <->
   vertices_from_edge_index (el els e) l = vertices_from_edge_index (el els f) l').
Proof. exact edge_index_injective. Qed.
Print Assumptions C11_edge_numbering_injective.

Theorem C11_edges_strictly_sorted : forall els : list elem,
  elems_distinct_vertices els = true -> forall g, In g (edges els) -> fst g < snd g.
Proof. exact edges_strict. Qed.
Print Assumptions C11_edges_strictly_sorted.

(* ---- adjacency tables: exactly the ordered pairs sharing two / one vertices ------------------------------ *)
Theorem C11_edge_adjacency_exact : forall els : list elem, elems_distinct_vertices els = true ->
  exists tbl, edge_adjacency els = Some tbl /\ NoDup tbl /\
    forall e f i0 i1 j0 j1, In (e, f, i0, i1, j0, j1) tbl <->
      (e < length els /\ f < length els /\ count els e f = 2 /\
       shared_edge_info (el els e) (el els f) = Some (i0, i1, j0, j1)).
Proof. exact edge_adjacency_exact. Qed.
Print Assumptions C11_edge_adjacency_exact.

Theorem C11_vertex_adjacency_exact : forall els : list elem, elems_distinct_vertices els = true ->
  exists tbl, vertex_adjacency els = Some tbl /\ NoDup tbl /\
    forall e f i j, In (e, f, i, j) tbl <->
      (e < length els /\ f < length els /\ count els e f = 1 /\
       shared_vertex_info (el els e) (el els f) = Some (i, j)).
Proof. exact vertex_adjacency_exact. Qed.
Print Assumptions C11_vertex_adjacency_exact.

(* the stored local indices are exactly the shared vertices (and the trial indices ascend: Bempp-3 ordering) *)
Theorem C11_edge_rows_correct : forall (els : list elem) tbl e f i0 i1 j0 j1,
  elems_distinct_vertices els = true -> edge_adjacency els = Some tbl -> In (e, f, i0, i1, j0, j1) tbl ->
  e < length els /\ f < length els /\ e <> f /\ i0 < 3 /\ i1 < 3 /\ j0 < 3 /\ j1 < 3 /\ i0 <> i1 /\ j0 < j1 /\
  vget (el els e) i0 = vget (el els f) j0 /\ vget (el els e) i1 = vget (el els f) j1 /\
  forall i' j', i' < 3 -> j' < 3 -> vget (el els e) i' = vget (el els f) j' ->
    (i' = i0 /\ j' = j0) \/ (i' = i1 /\ j' = j1).
Proof. exact edge_rows_correct. Qed.
Print Assumptions C11_edge_rows_correct.

Theorem C11_vertex_rows_correct : forall (els : list elem) tbl e f i j,
  elems_distinct_vertices els = true -> vertex_adjacency els = Some tbl -> In (e, f, i, j) tbl ->
  e < length els /\ f < length els /\ e <> f /\ i < 3 /\ j < 3 /\ vget (el els e) i = vget (el els f) j /\
  forall i' j', i' < 3 -> j' < 3 -> vget (el els e) i' = vget (el els f) j' -> i' = i /\ j' = j.
Proof. exact vertex_rows_correct. Qed.
Print Assumptions C11_vertex_rows_correct.

(* every ordered pair of elements is in exactly one class: identical / one edge row / one vertex row / apart *)
Theorem C11_adjacency_partition : forall (els : list elem) e f,
  wf_grid els = true -> e < length els -> f < length els ->
  exists etbl vtbl, edge_adjacency els = Some etbl /\ vertex_adjacency els = Some vtbl /\
    NoDup etbl /\ NoDup vtbl /\
  let in_e := exists r, In r etbl /\ erow_pair r = (e, f) in
  let in_v := exists r, In r vtbl /\ vrow_pair r = (e, f) in
  let one_e := exists r, In r etbl /\ erow_pair r = (e, f) /\
                 forall r', In r' etbl -> erow_pair r' = (e, f) -> r' = r in
  let one_v := exists r, In r vtbl /\ vrow_pair r = (e, f) /\
                 forall r', In r' vtbl -> vrow_pair r' = (e, f) -> r' = r in
  let adj := elements_adjacent (el els e) (el els f) in
  (e = f /\ adj = true /\ ~ in_e /\ ~ in_v) \/
  (e <> f /\ adj = true /\ one_e /\ ~ in_v) \/
  (e <> f /\ adj = true /\ ~ in_e /\ one_v) \/
  (e <> f /\ adj = false /\ ~ in_e /\ ~ in_v).
Proof. exact pair_partition. Qed.
Print Assumptions C11_adjacency_partition.

(* the excluded case: duplicate triangles are adjacent for the regular kernel but in neither singular table *)
Theorem C11_duplicate_pair_dropped :
  exists els e f etbl vtbl, elems_distinct_vertices els = true /\ no_duplicate_triangles els = false /\
    e < length els /\ f < length els /\ e <> f /\ elements_adjacent (el els e) (el els f) = true /\
    edge_adjacency els = Some etbl /\ vertex_adjacency els = Some vtbl /\
    forallb (fun r => negb ((fst (erow_pair r) =? e) && (snd (erow_pair r) =? f))) etbl = true /\
    forallb (fun r => negb ((fst (vrow_pair r) =? e) && (snd (vrow_pair r) =? f))) vtbl = true.
Proof. exact duplicate_pair_dropped. Qed.
Print Assumptions C11_duplicate_pair_dropped.

Theorem C11_element_neighbors_exact : forall (els : list elem) e f, e < length els ->
  (In f (nth e (element_neighbors els) []) <->
     f < length els /\ elements_adjacent (el els e) (el els f) = true) /\
  NoDup (nth e (element_neighbors els) []) /\ length (element_neighbors els) = length els.
Proof. exact element_neighbors_exact. Qed.
Print Assumptions C11_element_neighbors_exact.

Theorem C11_elements_adjacent_iff_common_vertex : forall e f : elem,
  elements_adjacent e f = true <-> exists i j, i < 3 /\ j < 3 /\ vget e i = vget f j.
Proof. exact elements_adjacent_iff. Qed.
Print Assumptions C11_elements_adjacent_iff_common_vertex.

(* ---- neighbours and boundary flags, for EVERY list of elements --------------------------------------------- *)
Theorem C11_edge_neighbors_exact : forall (els : list elem) i e, i < length (edges els) ->
  (In e (nth i (edge_neighbors els) []) <-> e < length els /\ exists l, l < 3 /\ eedge els e l = i).
Proof. exact edge_neighbors_exact. Qed.
Print Assumptions C11_edge_neighbors_exact.

Theorem C11_edge_boundary_iff_one_neighbour : forall (els : list elem) i, i < length (edges els) ->
  (nth i (edge_on_boundary els) false = true <-> length (nth i (edge_neighbors els) []) = 1).
Proof. exact edge_boundary_iff. Qed.
Print Assumptions C11_edge_boundary_iff_one_neighbour.

Theorem C11_vertex_boundary_iff : forall (els : list elem) nv v, v < nv ->
  (nth v (vertex_on_boundary els nv) false = true <->
   exists i, i < length (edges els) /\ nth i (edge_on_boundary els) false = true /\
             (fst (nth i (edges els) dE) = v \/ snd (nth i (edges els) dE) = v)).
Proof. exact vertex_boundary_iff. Qed.
Print Assumptions C11_vertex_boundary_iff.

Theorem C11_vertex_neighbors_exact : forall (els : list elem) nv v e, v < nv ->
  (In e (nth v (vertex_neighbors els nv) []) <-> e < length els /\ exists k, k < 3 /\ vget (el els e) k = v) /\
  NoDup (nth v (vertex_neighbors els nv) []).
Proof. exact vertex_neighbors_exact. Qed.
Print Assumptions C11_vertex_neighbors_exact.

(* a row of the edge table names the same global edge through both elements; both are its neighbours; an
   edge carrying such a row is not a boundary edge *)
Theorem C11_tables_consistent : forall (els : list elem) tbl e f i0 i1 j0 j1,
  elems_distinct_vertices els = true -> edge_adjacency els = Some tbl -> In (e, f, i0, i1, j0, j1) tbl ->
  let g := eedge els e (local_edge_of i0 i1) in
  g = eedge els f (local_edge_of j0 j1) /\ g < length (edges els) /\
  In e (nth g (edge_neighbors els) []) /\ In f (nth g (edge_neighbors els) []) /\
  nth g (edge_on_boundary els) false = false.
Proof. exact edge_adjacency_consistent. Qed.
Print Assumptions C11_tables_consistent.

(* ---- geometry, sqrt-free, for every triangle over Q ---------------------------------------------------------- *)
Open Scope Q_scope.
Theorem C11_geometry_partial : forall x0 x1 x2 : vec,
  (* (2 volume)^2 = integration_element^2 = det(J^T J) *)
  cross_sq x0 x1 x2 == gram_det x0 x1 x2 /\
  (* normal direction orthogonal to the element, right-handed w.r.t. the vertex order *)
  dot (normal_dir x0 x1 x2) (jac_a x0 x1 x2) == 0 /\ dot (normal_dir x0 x1 x2) (jac_b x0 x1 x2) == 0 /\
  det3 (jac_a x0 x1 x2) (jac_b x0 x1 x2) (normal_dir x0 x1 x2) == cross_sq x0 x1 x2 /\ 0 <= cross_sq x0 x1 x2 /\
  veq (normal_dir x1 x2 x0) (normal_dir x0 x1 x2) /\
  veq (normal_dir x0 x2 x1) (vscale (-1 # 1) (normal_dir x0 x1 x2)) /\
  (* centroid *)
  veq (centroid x0 x1 x2) (l2g x0 x1 x2 (1 # 3) (1 # 3)) /\
  veq (vscale 3 (centroid x0 x1 x2)) (vadd (vadd x0 x1) x2) /\
  (* JinvT^T J = I and JinvT tangential, when the element is not degenerate *)
  (~ gram_det x0 x1 x2 == 0 ->
   let c0 := fst (jinvT x0 x1 x2) in let c1 := snd (jinvT x0 x1 x2) in
   dot c0 (jac_a x0 x1 x2) == 1 /\ dot c0 (jac_b x0 x1 x2) == 0 /\
   dot c1 (jac_a x0 x1 x2) == 0 /\ dot c1 (jac_b x0 x1 x2) == 1 /\
   dot c0 (normal_dir x0 x1 x2) == 0 /\ dot c1 (normal_dir x0 x1 x2) == 0).
Proof. exact geometry_all. Qed.
Print Assumptions C11_geometry_partial.
Close Scope Q_scope.

(* the sqrt step without sqrt: for ANY number s with s^2 = |n|^2, s <> 0 (the library's normal_direction_norms), the
   vector n/s is a unit normal orthogonal to both edges with det[a b n/s] = s (right-handed for s > 0), and
   |n/s|^2 (2 vol)^2 = |cross|^2 for vol = s/2, integration_element^2 = s^2 = det(J^T J);
   diameter^2 |n|^2 = |a|^2 |b|^2 |a-b|^2 *)
Open Scope Q_scope.
Theorem C11_unit_normal_volume_sqrtfree : forall (x0 x1 x2 nrm : vec) (s : Q),
  s * s == cross_sq x0 x1 x2 -> ~ s == 0 -> veq (vscale s nrm) (normal_dir x0 x1 x2) ->
  dot nrm nrm == 1 /\ dot nrm (jac_a x0 x1 x2) == 0 /\ dot nrm (jac_b x0 x1 x2) == 0 /\
  det3 (jac_a x0 x1 x2) (jac_b x0 x1 x2) nrm == s /\
  dot nrm nrm * ((2 * (s / 2)) * (2 * (s / 2))) == cross_sq x0 x1 x2 /\
  s * s == gram_det x0 x1 x2.
Proof. exact unit_normal_characterisation. Qed.
Print Assumptions C11_unit_normal_volume_sqrtfree.

Theorem C11_diameter_sqrtfree : forall x0 x1 x2 : vec, ~ cross_sq x0 x1 x2 == 0 ->
  let a := jac_a x0 x1 x2 in let b := jac_b x0 x1 x2 in
  diameter_sq x0 x1 x2 * cross_sq x0 x1 x2 == dot a a * dot b b * dot (vsub a b) (vsub a b).
Proof. exact diameter_sq_spec. Qed.
Print Assumptions C11_diameter_sqrtfree.
Close Scope Q_scope.

(* CSR layout of element_neighbors / vertex_neighbors (IndexList(indices, indexptr)): row i is
   indices[indexptr[i] : indexptr[i+1]] *)
Theorem C11_csr_layout : forall (rows : list (list nat)) i, i < length rows ->
  length (csr_indexptr 0 rows) = S (length rows) /\
  lslice (nth i (csr_indexptr 0 rows) 0) (nth (S i) (csr_indexptr 0 rows) 0) (csr_indices rows) = nth i rows [].
Proof. exact (fun rows i H => csr_rows rows 0 [] i eq_refl H). Qed.
Print Assumptions C11_csr_layout.

(* ---- refinement, segment extraction, union: for EVERY grid with in-range vertex numbers ---------------------- *)
(* Grid.refine: sizes; old vertices kept; children inherit the domain index; the new vertex on a local edge is
   nv + (global edge number) -- hence shared between elements exactly when the edge is (conformity, with
   C11_edge_numbering_injective) -- and is the midpoint; every child has the parent's orientation and a quarter of
   its area vector (so areas add up) *)
Theorem C11_refine : forall (vs : list vec) (els : list elem) (dom : list nat),
  in_range els (length vs) = true ->
  let g := (vs, els, dom) in let nv := length vs in let X := fun e k => vat vs (vget (el els e) k) in
  length (g_vs (refine g)) = nv + length (edges els) /\ length (g_els (refine g)) = 4 * length els /\
  length (g_dom (refine g)) = 4 * length dom /\
  (forall i, i < nv -> vat (g_vs (refine g)) i = vat vs i) /\
  (forall e k, e < length dom -> k < 4 -> nth (4 * e + k) (g_dom (refine g)) 0 = nth e dom 0) /\
  (forall e l, e < length els -> l < 3 ->
     veq (vat (g_vs (refine g)) (nv + eedge els e l))
         (midpoint (X e (fst (edge_local l))) (X e (snd (edge_local l))))) /\
  (forall e k, e < length els -> k < 4 ->
     let c := nth (4 * e + k) (g_els (refine g)) (0, 0, 0) in
     let Y := fun i => vat (g_vs (refine g)) (vget c i) in
     vget c 0 < length (g_vs (refine g)) /\ vget c 1 < length (g_vs (refine g)) /\
     vget c 2 < length (g_vs (refine g)) /\
     veq (normal_dir (Y 0) (Y 1) (Y 2)) (vscale (1 # 4)%Q (normal_dir (X e 0) (X e 1) (X e 2)))).
Proof. exact refine_correct. Qed.
Print Assumptions C11_refine.

(* geometry of the six barycentric children of any triangle: each has the parent's orientation and a sixth of its
   area vector *)
Theorem C11_barycentric_children : forall x0 x1 x2 : vec,
  let m01 := midpoint x0 x1 in let m20 := midpoint x2 x0 in let m12 := midpoint x1 x2 in
  let c := vscale (1 # 3)%Q (vadd (vadd x0 x1) x2) in
  let s := vscale (1 # 6)%Q (normal_dir x0 x1 x2) in
  veq (normal_dir x0 m01 c) s /\ veq (normal_dir x1 c m01) s /\ veq (normal_dir x1 m12 c) s /\
  veq (normal_dir x2 c m12) s /\ veq (normal_dir x2 m20 c) s /\ veq (normal_dir x0 c m20) s.
Proof. exact bary_children_normals. Qed.
Print Assumptions C11_barycentric_children.

(* barycentric_refinement: six children per element (the library's order), each with the parent's orientation and a
   sixth of its area vector (so areas add up); old vertices kept; children inherit the domain index.
   (vertex count: C11_barycentric_vertex_count) *)
Theorem C11_barycentric_partial : forall (vs : list vec) (els : list elem) (dom : list nat),
  in_range els (length vs) = true ->
  let b := barycentric (vs, els, dom) in let X := fun e k => vat vs (vget (el els e) k) in
  length (g_els b) = 6 * length els /\ length (g_dom b) = 6 * length dom /\
  (forall e k, e < length dom -> k < 6 -> nth (6 * e + k) (g_dom b) 0 = nth e dom 0) /\
  (forall i, i < length vs -> vat (g_vs b) i = vat vs i) /\
  (forall e k, e < length els -> k < 6 ->
     let c := nth (6 * e + k) (g_els b) (0, 0, 0) in
     let Y := fun i => vat (g_vs b) (vget c i) in
     vget c 0 < length (g_vs b) /\ vget c 1 < length (g_vs b) /\ vget c 2 < length (g_vs b) /\
     veq (normal_dir (Y 0) (Y 1) (Y 2)) (vscale (1 # 6)%Q (normal_dir (X e 0) (X e 1) (X e 2)))).
Proof. exact barycentric_correct. Qed.
Print Assumptions C11_barycentric_partial.

(* barycentric_refinement has exactly nv + n + (number of edges) vertices: one centroid per element, one midpoint
   per edge (created once, by the first element that has the edge) -- for EVERY element list *)
Theorem C11_barycentric_vertex_count : forall (vs : list vec) (els : list elem) (dom : list nat),
  length (g_vs (barycentric (vs, els, dom))) = length vs + length els + length (edges els).
Proof. exact barycentric_vertex_count. Qed.
Print Assumptions C11_barycentric_vertex_count.

(* grid_from_segments: exactly the elements with a listed domain index are kept, in order, with their domain
   indices; their vertices are renumbered injectively, keep their coordinates, and no unused vertex remains *)
Theorem C11_segments : forall (vs : list vec) (els : list elem) (dom segs : list nat),
  in_range els (length vs) = true ->
  let g := (vs, els, dom) in let s := segments g segs in let sel := selected g segs in
  g_dom s = map snd sel /\ length (g_els s) = length sel /\
  (forall p, In p sel <-> In p (combine els dom) /\ existsb (Nat.eqb (snd p)) segs = true) /\
  (forall k i, k < length sel -> i < 3 ->
     let old := vget (fst (nth k sel ((0, 0, 0), 0))) i in
     let new := vget (nth k (g_els s) (0, 0, 0)) i in
     new < length (g_vs s) /\ vat (g_vs s) new = vat vs old) /\
  (forall k i k' i', k < length sel -> i < 3 -> k' < length sel -> i' < 3 ->
     (vget (nth k (g_els s) (0, 0, 0)) i = vget (nth k' (g_els s) (0, 0, 0)) i' <->
      vget (fst (nth k sel ((0, 0, 0), 0))) i = vget (fst (nth k' sel ((0, 0, 0), 0))) i')) /\
  (forall j, j < length (g_vs s) ->
     exists k i, k < length sel /\ i < 3 /\ vget (nth k (g_els s) (0, 0, 0)) i = j).
Proof. exact segments_correct. Qed.
Print Assumptions C11_segments.

(* union: element k of input grid j sits behind the elements of the earlier grids, vertex numbers shifted by
   the number of earlier vertices, local vertices 1 and 2 exchanged iff the grid's normals are swapped;
   that exchange reverses the normal direction *)
Theorem C11_union_elements : forall (gs : list tgrid) sw off j k,
  j < length gs -> k < length (t_els (nth j gs dG)) ->
  nth (eoff gs j + k) (union_els off gs sw) (0, 0, 0) =
  shift_elem (off + voff gs j) (maybe_swap (nth j sw false) (nth k (t_els (nth j gs dG)) (0, 0, 0))).
Proof. exact union_els_nth. Qed.
Print Assumptions C11_union_elements.

Theorem C11_union_swap_reverses_orientation : forall (vs : list vec) (e : elem),
  let X := fun i => vat vs (vget e i) in let Y := fun i => vat vs (vget (swap_elem e) i) in
  veq (normal_dir (Y 0) (Y 1) (Y 2)) (vscale (-1 # 1)%Q (normal_dir (X 0) (X 1) (X 2))).
Proof. exact swap_elem_normal. Qed.
Print Assumptions C11_union_swap_reverses_orientation.

(* union, domain indices: inside every input grid the partition into domains is kept; different input grids
   receive disjoint (increasing) ranges; explicitly given indices are attached per grid; with
   normalize_domain_indices=True the indices of the union are exactly 0 .. N-1, N = total number of domains *)
Theorem C11_union_domain_indices :
  (forall mode pm first d i j, i < length d -> j < length d ->
     (nth i (union_dom_of mode pm first d) 0 = nth j (union_dom_of mode pm first d) 0 <-> nth i d 0 = nth j d 0)) /\
  (forall mode (gs : list tgrid) pm first j j' x y, (forall g, In g gs -> snd g <> []) -> j < j' ->
     In x (nth j (union_doms mode pm first gs) []) -> In y (nth j' (union_doms mode pm first gs) []) -> x < y) /\
  (forall (gs : list tgrid) sw mode ds, length ds = length gs ->
     snd (union gs sw mode (Some ds)) =
     concat (map (fun p => repeat (snd p) (length (t_els (fst p)))) (combine gs ds))) /\
  (forall (gs : list tgrid), (forall g, In g gs -> snd g <> []) ->
     forall x, In x (concat (union_doms 0 0 true gs)) <-> x < total_distinct gs).
Proof. exact union_domain_indices. Qed.
Print Assumptions C11_union_domain_indices.

(* ---- the hypotheses are satisfiable ------------------------------------------------------------------------- *)
Theorem C11_examples :
  (wf_grid octahedron = true /\ in_range octahedron 6 = true) /\
  (wf_grid screen2 = true /\ in_range screen2 9 = true) /\ wf_grid fan3 = true.
Proof. exact (conj octahedron_wf (conj screen2_wf fan3_wf)). Qed.
Print Assumptions C11_examples.
