(* C08 -- Potentials and far fields satisfy their PDEs, normalisation and asymptotics (kernel level).
   Only statements; lemmas in theories/Kernels/{C08Lemmas,LaplaceDerivs}.v over kernels regenerated from
   core/numba_kernels.py on every run.  "potential = kernel sum" is C02's theorem. *)
From Coq Require Import Reals String List Bool.
From Coquelicot Require Import Coquelicot.
From BVgen Require Import NumbaKernels Dispatch MaxwellIntegrands.
From BV Require Import Kernels.KernelTactics Kernels.DispatchModel Kernels.C08Lemmas Kernels.LaplaceDerivs Kernels.MaxwellLemmas.
Open Scope R_scope.

(* the potential (= regular) single-layer kernels are u(r)/r with r = |x - y| > 0 ... *)
Theorem C08_kernels_radial : forall x0 x1 x2 y0 y1 y2 nx0 nx1 nx2 ny0 ny1 ny2 p0 p1 : R,
  (x0, x1, x2) <> (y0, y1, y2) ->
  let r := dist x0 x1 x2 y0 y1 y2 in
  0 < r /\
  laplace_single_layer_regular x0 x1 x2 y0 y1 y2 nx0 nx1 nx2 ny0 ny1 ny2 p0 p1 = (lap_u r / r, 0) /\
  modified_helmholtz_single_layer_regular x0 x1 x2 y0 y1 y2 nx0 nx1 nx2 ny0 ny1 ny2 p0 p1 = (mod_u p0 r / r, 0) /\
  helmholtz_single_layer_regular x0 x1 x2 y0 y1 y2 nx0 nx1 nx2 ny0 ny1 ny2 p0 p1
    = (helm_u_re p0 p1 r / r, helm_u_im p0 p1 r / r).
Proof. exact single_layer_kernels_are_radial. Qed.
Print Assumptions C08_kernels_radial.

(* ... and u solves the radial equation: u'' = 0 (Laplace), u'' = w^2 u (modified Helmholtz), u'' = -k^2 u for complex
   k = kr + i ki written as a real 2-system (Helmholtz).  _partial: the classical step
   Laplacian(f(|x-y|)) = (r f)''/r in R^3 \ {y} is not re-proved. *)
Theorem C08_radial_pde_partial : forall w kr ki r : R,
  (is_derive lap_u r 0 /\ is_derive (fun _ : R => 0) r 0) /\
  (is_derive (mod_u w) r (mod_du w r) /\ is_derive (mod_du w) r (w * w * mod_u w r)) /\
  (is_derive (helm_u_re kr ki) r (helm_du_re kr ki r) /\ is_derive (helm_u_im kr ki) r (helm_du_im kr ki r) /\
   is_derive (helm_du_re kr ki) r (- ((kr * kr - ki * ki) * helm_u_re kr ki r - 2 * kr * ki * helm_u_im kr ki r)) /\
   is_derive (helm_du_im kr ki) r (- ((kr * kr - ki * ki) * helm_u_im kr ki r + 2 * kr * ki * helm_u_re kr ki r))).
Proof. exact (fun w kr ki r => conj (lap_ode r) (conj (mod_ode w r) (helm_ode kr ki r))). Qed.
Print Assumptions C08_radial_pde_partial.

(* double-layer potential kernel = derivative of the single-layer kernel along the trial normal (Laplace, modified
   Helmholtz, Helmholtz re and im); so double-layer potentials inherit the PDE *)
Theorem C08_double_layer_is_normal_derivative : forall x0 x1 x2 y0 y1 y2 nx0 nx1 nx2 ny0 ny1 ny2 p0 p1 : R,
  (x0, x1, x2) <> (y0, y1, y2) ->
  is_derive (fun t => laplace_single_layer_regular_re x0 x1 x2 (y0 + t * ny0) (y1 + t * ny1) (y2 + t * ny2)
                        nx0 nx1 nx2 ny0 ny1 ny2 p0 p1) 0
            (laplace_double_layer_regular_re x0 x1 x2 y0 y1 y2 nx0 nx1 nx2 ny0 ny1 ny2 p0 p1) /\
  is_derive (fun t => modified_helmholtz_single_layer_regular_re x0 x1 x2 (y0 + t * ny0) (y1 + t * ny1) (y2 + t * ny2)
                        nx0 nx1 nx2 ny0 ny1 ny2 p0 p1) 0
            (modified_helmholtz_double_layer_regular_re x0 x1 x2 y0 y1 y2 nx0 nx1 nx2 ny0 ny1 ny2 p0 p1) /\
  is_derive (fun t => helmholtz_single_layer_regular_re x0 x1 x2 (y0 + t * ny0) (y1 + t * ny1) (y2 + t * ny2)
                        nx0 nx1 nx2 ny0 ny1 ny2 p0 p1) 0
            (helmholtz_double_layer_regular_re x0 x1 x2 y0 y1 y2 nx0 nx1 nx2 ny0 ny1 ny2 p0 p1) /\
  is_derive (fun t => helmholtz_single_layer_regular_im x0 x1 x2 (y0 + t * ny0) (y1 + t * ny1) (y2 + t * ny2)
                        nx0 nx1 nx2 ny0 ny1 ny2 p0 p1) 0
            (helmholtz_double_layer_regular_im x0 x1 x2 y0 y1 y2 nx0 nx1 nx2 ny0 ny1 ny2 p0 p1).
Proof.
  exact (fun x0 x1 x2 y0 y1 y2 nx0 nx1 nx2 ny0 ny1 ny2 p0 p1 H =>
    conj (laplace_dl_is_normal_derivative x0 x1 x2 y0 y1 y2 nx0 nx1 nx2 ny0 ny1 ny2 p0 p1 H)
   (conj (modified_helmholtz_dl_is_normal_derivative x0 x1 x2 y0 y1 y2 nx0 nx1 nx2 ny0 ny1 ny2 p0 p1 H)
         (helmholtz_dl_is_normal_derivative x0 x1 x2 y0 y1 y2 nx0 nx1 nx2 ny0 ny1 ny2 p0 p1 H))).
Qed.
Print Assumptions C08_double_layer_is_normal_derivative.

(* real k: translating the source point by t multiplies both far-field kernels by exp(-i k xhat.t) *)
Theorem C08_far_field_translation : forall x0 x1 x2 y0 y1 y2 t0 t1 t2 nx0 nx1 nx2 ny0 ny1 ny2 k : R,
  helmholtz_far_field_single_layer x0 x1 x2 (y0 + t0) (y1 + t1) (y2 + t2) nx0 nx1 nx2 ny0 ny1 ny2 k 0
    = cmul (cexp_mik k 0 (dot3 x0 x1 x2 t0 t1 t2))
           (helmholtz_far_field_single_layer x0 x1 x2 y0 y1 y2 nx0 nx1 nx2 ny0 ny1 ny2 k 0) /\
  helmholtz_far_field_double_layer x0 x1 x2 (y0 + t0) (y1 + t1) (y2 + t2) nx0 nx1 nx2 ny0 ny1 ny2 k 0
    = cmul (cexp_mik k 0 (dot3 x0 x1 x2 t0 t1 t2))
           (helmholtz_far_field_double_layer x0 x1 x2 y0 y1 y2 nx0 nx1 nx2 ny0 ny1 ny2 k 0).
Proof. exact far_field_translation. Qed.
Print Assumptions C08_far_field_translation.

(* complex k (lead 9.7): if the far-field kernels do not read the imaginary part of k (flag computed by the translator
   from the current source; false on the pinned tree) the translation law fails -- explicit witness. *)
Theorem C08_far_field_complex_k_refuted :
  far_field_kernels_use_imag = false ->
  exists x0 x1 x2 y0 y1 y2 t0 t1 t2 nx0 nx1 nx2 ny0 ny1 ny2 kr ki,
    helmholtz_far_field_single_layer x0 x1 x2 (y0 + t0) (y1 + t1) (y2 + t2) nx0 nx1 nx2 ny0 ny1 ny2 kr ki
    <> cmul (cexp_mik kr ki (dot3 x0 x1 x2 t0 t1 t2))
            (helmholtz_far_field_single_layer x0 x1 x2 y0 y1 y2 nx0 nx1 nx2 ny0 ny1 ny2 kr ki).
Proof. exact far_field_complex_k_refuted. Qed.
Print Assumptions C08_far_field_complex_k_refuted.

(* the far-field double-layer kernel is the derivative of the far-field single-layer kernel along the trial normal *)
Theorem C08_far_field_dl_is_normal_derivative : forall x0 x1 x2 y0 y1 y2 nx0 nx1 nx2 ny0 ny1 ny2 p0 p1 : R,
  is_derive (fun t => helmholtz_far_field_single_layer_re x0 x1 x2 (y0 + t * ny0) (y1 + t * ny1) (y2 + t * ny2)
                        nx0 nx1 nx2 ny0 ny1 ny2 p0 p1) 0
            (helmholtz_far_field_double_layer_re x0 x1 x2 y0 y1 y2 nx0 nx1 nx2 ny0 ny1 ny2 p0 p1) /\
  is_derive (fun t => helmholtz_far_field_single_layer_im x0 x1 x2 (y0 + t * ny0) (y1 + t * ny1) (y2 + t * ny2)
                        nx0 nx1 nx2 ny0 ny1 ny2 p0 p1) 0
            (helmholtz_far_field_double_layer_im x0 x1 x2 y0 y1 y2 nx0 nx1 nx2 ny0 ny1 ny2 p0 p1).
Proof. exact far_field_dl_is_normal_derivative. Qed.
Print Assumptions C08_far_field_dl_is_normal_derivative.

(* far field = lim r exp(-ikr) potential kernel, real k.  _partial: proved as an exact identity for sources on the ray
   y = s xhat (|xhat| = 1, r > s):  r exp(-ikr) K_sl(r xhat, y) = r/(r-s) K_ff(xhat, y), and r/(r-s) -> 1;
   sources off the ray, the double layer and the passage to the limit under the quadrature sum are left to the search. *)
Theorem C08_far_field_is_limit_partial : forall x0 x1 x2 nx0 nx1 nx2 ny0 ny1 ny2 k s r : R,
  x0 * x0 + x1 * x1 + x2 * x2 = 1 -> s < r ->
  cmul (r * cos (k * r), - (r * sin (k * r)))
       (helmholtz_single_layer_regular (r * x0) (r * x1) (r * x2) (s * x0) (s * x1) (s * x2)
                                       nx0 nx1 nx2 ny0 ny1 ny2 k 0)
  = (r / (r - s) * helmholtz_far_field_single_layer_re x0 x1 x2 (s * x0) (s * x1) (s * x2) nx0 nx1 nx2 ny0 ny1 ny2 k 0,
     r / (r - s) * helmholtz_far_field_single_layer_im x0 x1 x2 (s * x0) (s * x1) (s * x2) nx0 nx1 nx2 ny0 ny1 ny2 k 0).
Proof. exact far_field_on_axis. Qed.
Print Assumptions C08_far_field_is_limit_partial.

(* the counterpart of the refutation: on a tree whose far-field kernels read the imaginary part of k (flag true; false on
   the pinned tree, where this statement is vacuous) the translation law must hold for every complex k *)
Theorem C08_far_field_translation_complex_k_if_supported :
  far_field_kernels_use_imag = true ->
  forall x0 x1 x2 y0 y1 y2 t0 t1 t2 nx0 nx1 nx2 ny0 ny1 ny2 kr ki : R,
  helmholtz_far_field_single_layer x0 x1 x2 (y0 + t0) (y1 + t1) (y2 + t2) nx0 nx1 nx2 ny0 ny1 ny2 kr ki
    = cmul (cexp_mik kr ki (dot3 x0 x1 x2 t0 t1 t2))
           (helmholtz_far_field_single_layer x0 x1 x2 y0 y1 y2 nx0 nx1 nx2 ny0 ny1 ny2 kr ki) /\
  helmholtz_far_field_double_layer x0 x1 x2 (y0 + t0) (y1 + t1) (y2 + t2) nx0 nx1 nx2 ny0 ny1 ny2 kr ki
    = cmul (cexp_mik kr ki (dot3 x0 x1 x2 t0 t1 t2))
           (helmholtz_far_field_double_layer x0 x1 x2 y0 y1 y2 nx0 nx1 nx2 ny0 ny1 ny2 kr ki).
Proof. exact far_field_translation_complex_if_supported. Qed.
Print Assumptions C08_far_field_translation_complex_k_if_supported.

(* API entry points -> kernels: every scalar potential / far-field factory (8 of them) puts into its descriptor the kernel
   type <family>_<kind> resp. helmholtz_far_field_<kind>, assembly type default_scalar, options [] / [w] / [re k, im k] and
   the complex flag of its family; select_numba_kernels(mode="potential") then returns the kernels of the theorems above *)
Theorem C08_factories_kernel_types :
  List.Forall (fun f => f_kernel_type f = expected_kernel_type f /\ f_assembly_type f = "default_scalar"%string /\
                   f_options f = expected_options f /\
                   f_is_complex f = negb (String.eqb (f_module f) "laplace" || String.eqb (f_module f) "modified_helmholtz"))
         (List.filter potential_like factories) /\
  List.length (List.filter potential_like factories) = 8%nat.
Proof. exact (conj potential_factories_kernel_types potential_factories_count). Qed.
Print Assumptions C08_factories_kernel_types.

(* the potential evaluator uses the very kernel functions of the boundary (regular) assembler: select_numba_kernels returns
   kernel_functions_regular[kernel_type] in mode "potential" (checked by the translator, fail closed) *)
Theorem C08_potential_kernels_are_regular_kernels :
  numba_kernel_functions_potential = numba_kernel_functions_regular.
Proof. exact eq_refl. Qed.
Print Assumptions C08_potential_kernels_are_regular_kernels.

(* the gradient slots of fmm.helpers.helmholtz_kernel are the partial derivatives of the Helmholtz single-layer kernel with
   respect to the evaluation point (complex k, re and im) *)
Theorem C08_helmholtz_gradient_is_derivative : forall x0 x1 x2 y0 y1 y2 nx0 nx1 nx2 ny0 ny1 ny2 p0 p1 : R,
  (x0, x1, x2) <> (y0, y1, y2) ->
  (is_derive (fun t => helmholtz_single_layer_regular_re (x0 + t) x1 x2 y0 y1 y2 nx0 nx1 nx2 ny0 ny1 ny2 p0 p1) 0
             (fmm_helmholtz_kernel_1_re x0 x1 x2 y0 y1 y2 p0 p1) /\
   is_derive (fun t => helmholtz_single_layer_regular_im (x0 + t) x1 x2 y0 y1 y2 nx0 nx1 nx2 ny0 ny1 ny2 p0 p1) 0
             (fmm_helmholtz_kernel_1_im x0 x1 x2 y0 y1 y2 p0 p1)) /\
  (is_derive (fun t => helmholtz_single_layer_regular_re x0 (x1 + t) x2 y0 y1 y2 nx0 nx1 nx2 ny0 ny1 ny2 p0 p1) 0
             (fmm_helmholtz_kernel_2_re x0 x1 x2 y0 y1 y2 p0 p1) /\
   is_derive (fun t => helmholtz_single_layer_regular_im x0 (x1 + t) x2 y0 y1 y2 nx0 nx1 nx2 ny0 ny1 ny2 p0 p1) 0
             (fmm_helmholtz_kernel_2_im x0 x1 x2 y0 y1 y2 p0 p1)) /\
  (is_derive (fun t => helmholtz_single_layer_regular_re x0 x1 (x2 + t) y0 y1 y2 nx0 nx1 nx2 ny0 ny1 ny2 p0 p1) 0
             (fmm_helmholtz_kernel_3_re x0 x1 x2 y0 y1 y2 p0 p1) /\
   is_derive (fun t => helmholtz_single_layer_regular_im x0 x1 (x2 + t) y0 y1 y2 nx0 nx1 nx2 ny0 ny1 ny2 p0 p1) 0
             (fmm_helmholtz_kernel_3_im x0 x1 x2 y0 y1 y2 p0 p1)).
Proof. exact helmholtz_gradient_is_derivative. Qed.
Print Assumptions C08_helmholtz_gradient_is_derivative.

(* Maxwell potentials, per quadrature point (integrands generated from maxwell_{e,m}field_potential): with G the Helmholtz
   kernel, gradG its gradient (theorem above), v the accumulated vector density and q the accumulated divergence density,
     H integrand = (gradG x v)_c = curl_x (G v)_c ,     E integrand = i k G v_c - (q/(i k)) (gradG)_c .
   Hence curl_x E = i k H up to curl grad = 0 (symmetry of second derivatives: classical, not re-proved) -- _partial. *)
Theorem C08_mfield_is_curl_of_efield_integrand_partial :
  forall (c : nat) (x y : vec3) (v : cvec3) (q k : R * R), (c < 3)%nat -> x <> y ->
  mfield_potential_integrand c x y (G_helm x y k) v q k
    = csub (cmul (gradG ((c + 1) mod 3) x y k) (vcomp ((c + 2) mod 3) v))
           (cmul (gradG ((c + 2) mod 3) x y k) (vcomp ((c + 1) mod 3) v)) /\
  (fst k * fst k + snd k * snd k <> 0 ->
   efield_potential_integrand c x y (G_helm x y k) v q k
     = csub (cmul (ik (fst k) (snd k)) (cmul (G_helm x y k) (vcomp c v)))
            (cmul (cdiv q (ik (fst k) (snd k))) (gradG c x y k))).
Proof. exact maxwell_potential_integrands. Qed.
Print Assumptions C08_mfield_is_curl_of_efield_integrand_partial.

(* Maxwell far fields, real k: translating the source by t multiplies every component of both integrands by exp(-ik xhat.t) *)
Theorem C08_maxwell_far_field_translation :
  forall (c : nat) (x y t : vec3) (v : cvec3) (q : R * R) (k : R), (c < 3)%nat ->
  efield_far_field_integrand c x (vadd y t) (G_ff x (vadd y t) (k, 0)) v q (k, 0)
    = cmul (cexp_mik k 0 (vdot x t)) (efield_far_field_integrand c x y (G_ff x y (k, 0)) v q (k, 0)) /\
  mfield_far_field_integrand c x (vadd y t) (G_ff x (vadd y t) (k, 0)) v q (k, 0)
    = cmul (cexp_mik k 0 (vdot x t)) (mfield_far_field_integrand c x y (G_ff x y (k, 0)) v q (k, 0)).
Proof. exact maxwell_far_field_translation. Qed.
Print Assumptions C08_maxwell_far_field_translation.

(* every translated factory hands its `points` argument to the assembler unchanged (the translator records an assignment to
   `points` inside a factory body as a fact of the table instead of failing closed; the return statement is matched literally) *)
Theorem C08_factories_pass_points_through : List.Forall (fun f => f_alters_points f = false) factories.
Proof. exact factories_pass_points_through. Qed.
Print Assumptions C08_factories_pass_points_through.
