(* C20 -- OpenCL and Numba back ends define the same kernels and shape functions.
   Only statements; every theorem is closed by [exact] of a lemma proved under theories/Kernels.
   All definitions named numba_*, cl_*, py_* are regenerated from the current /repo sources on every run. *)
From Coq Require Import Reals String List.
From BVgen Require Import NumbaKernels OpenCLKernels Shapesets ShapesetsCL.
From BV Require Import Kernels.KernelTactics Kernels.C20Lemmas Kernels.C20Literals.
Import ListNotations.
Open Scope R_scope.

(* For every entry (kernel type kt -> Numba function nb) of kernel_functions_regular in select_numba_kernels:
   select_cl_kernel maps kt to an OpenCL kernel name cl; kernels.h defines cl_novec, cl_vec4, cl_vec8, cl_vec16; and each
   of them, with M_INV_4PI = 1/(4 pi), returns for all points x <> y, all normals and all parameters (p0, p1) exactly
   the (re, im) pair of the Numba function (row_ok, kernels_agree in theories/Kernels/C20Lemmas.v); moreover each is
   linear in the constant M_INV_4PI (linear_in_constant), so the literal of either precision only scales the value. *)
Theorem C20_kernels_equal_regular : forall kt nb : string,
  In (kt, nb) numba_kernel_functions_regular -> row_ok [novec; vec4; vec8; vec16] (kt, nb).
Proof. exact kernels_equal_regular. Qed.
Print Assumptions C20_kernels_equal_regular.

(* same for kernel_functions_singular against the novec variant (evaluate_dense_singular.cl calls KERNEL(novec)) *)
Theorem C20_kernels_equal_singular : forall kt nb : string,
  In (kt, nb) numba_kernel_functions_singular -> row_ok [novec] (kt, nb).
Proof. exact kernels_equal_singular. Qed.
Print Assumptions C20_kernels_equal_singular.

(* helmholtz_gradient_{novec,vec4,vec8,vec16} = gradient (w.r.t. the test point) slots of fmm/helpers.helmholtz_kernel *)
Theorem C20_gradient_kernels_equal :
  (grad_agree cl_helmholtz_gradient_novec_0_re cl_helmholtz_gradient_novec_0_im fmm_helmholtz_kernel_1_re fmm_helmholtz_kernel_1_im /\
   grad_agree cl_helmholtz_gradient_novec_1_re cl_helmholtz_gradient_novec_1_im fmm_helmholtz_kernel_2_re fmm_helmholtz_kernel_2_im /\
   grad_agree cl_helmholtz_gradient_novec_2_re cl_helmholtz_gradient_novec_2_im fmm_helmholtz_kernel_3_re fmm_helmholtz_kernel_3_im) /\
  (grad_agree cl_helmholtz_gradient_vec4_0_re cl_helmholtz_gradient_vec4_0_im fmm_helmholtz_kernel_1_re fmm_helmholtz_kernel_1_im /\
   grad_agree cl_helmholtz_gradient_vec4_1_re cl_helmholtz_gradient_vec4_1_im fmm_helmholtz_kernel_2_re fmm_helmholtz_kernel_2_im /\
   grad_agree cl_helmholtz_gradient_vec4_2_re cl_helmholtz_gradient_vec4_2_im fmm_helmholtz_kernel_3_re fmm_helmholtz_kernel_3_im) /\
  (grad_agree cl_helmholtz_gradient_vec8_0_re cl_helmholtz_gradient_vec8_0_im fmm_helmholtz_kernel_1_re fmm_helmholtz_kernel_1_im /\
   grad_agree cl_helmholtz_gradient_vec8_1_re cl_helmholtz_gradient_vec8_1_im fmm_helmholtz_kernel_2_re fmm_helmholtz_kernel_2_im /\
   grad_agree cl_helmholtz_gradient_vec8_2_re cl_helmholtz_gradient_vec8_2_im fmm_helmholtz_kernel_3_re fmm_helmholtz_kernel_3_im) /\
  (grad_agree cl_helmholtz_gradient_vec16_0_re cl_helmholtz_gradient_vec16_0_im fmm_helmholtz_kernel_1_re fmm_helmholtz_kernel_1_im /\
   grad_agree cl_helmholtz_gradient_vec16_1_re cl_helmholtz_gradient_vec16_1_im fmm_helmholtz_kernel_2_re fmm_helmholtz_kernel_2_im /\
   grad_agree cl_helmholtz_gradient_vec16_2_re cl_helmholtz_gradient_vec16_2_im fmm_helmholtz_kernel_3_re fmm_helmholtz_kernel_3_im).
Proof. exact gradient_kernels_equal. Qed.
Print Assumptions C20_gradient_kernels_equal.

(* P0, P1, RWG, SNC: <name>_evaluate of the .h file = evaluate of shapesets.py at every local point (u, v);
   result[dim * i + j] of the C function is component j of shape function i *)
Theorem C20_shapesets_equal : forall name : string, In name py_shapeset_names ->
  exists f g, py_shapeset name = Some f /\ cl_shapeset name = Some g /\ forall u v : R, concat (f u v) = g u v.
Proof. exact (fun name H => proj1 (Forall_forall _ _) shapesets_equal name H). Qed.
Print Assumptions C20_shapesets_equal.

(* both selection tables know the same kernel types (singular: a subset) *)
Theorem C20_selection_tables :
  map fst numba_kernel_functions_regular = map fst cl_kernel_names /\
  incl (map fst numba_kernel_functions_singular) (map fst cl_kernel_names).
Proof. exact selection_tables_same_keys. Qed.
Print Assumptions C20_selection_tables.

(* "to the precision of the type", constant part: the decimal literals of both precisions are within one unit in the
   last place (2^-24, 2^-53 relative) of 1/(4 pi) and 4 pi.  Rounding of the arithmetic itself is outside the model. *)
Theorem C20_literals_partial :
  Rabs (cl_M_INV_4PI_double_literal * (4 * PI) - 1) <= / 2 ^ 53 /\
  Rabs (cl_M_4PI_double_literal / (4 * PI) - 1) <= / 2 ^ 53 /\
  Rabs (cl_M_INV_4PI_single_literal * (4 * PI) - 1) <= / 2 ^ 24 /\
  Rabs (cl_M_4PI_single_literal / (4 * PI) - 1) <= / 2 ^ 24.
Proof. exact literals_close. Qed.
Print Assumptions C20_literals_partial.
