(* C01 -- Laplace boundary operators satisfy the Calderon identities on any polyhedron: the provable logic part.
   Only statements: each theorem is closed by [exact] of a lemma proved under theories/.
   What makes the identities come out on every mesh is that singular and regular quadrature together treat every
   ordered element pair exactly once with the right vertex correspondence.  The analytic part (the quadrature sums
   converge to integrals that satisfy Calderon's identities) is NOT proved; it is exercised on the implementation
   by the failing-input search of ./check C01. *)
From Coq Require Import QArith ZArith List Arith Bool.
From BV Require Import Quad.Rules Quad.DuffyExact Grid.Topology Grid.PairFacts Grid.AdjacencyFacts
  Grid.SingularOffsets Grid.SingularOffsetsFacts Grid.C01Lemmas Grid.Examples Grid.Geometry Grid.Refine
  Grid.PairCoverage Grid.PairCoverageFacts Grid.PairPointsFacts.
From Coq Require Import Permutation.
Import ListNotations.
Close Scope Q_scope.
Open Scope nat_scope.

(* every ordered pair (e,f) of elements of a triangulation (distinct vertices per element, no two elements on the
   same three vertices) is in exactly one class: e = f (coincident rule) / exactly one column of edge_adjacency /
   exactly one column of vertex_adjacency / not adjacent (regular rule; elements_adjacent = false) *)
Theorem C01_pair_partition : forall (els : list elem) e f,
  wf_grid els = true -> e < length els -> f < length els ->
  exists etbl vtbl, edge_adjacency els = Some etbl /\ vertex_adjacency els = Some vtbl /\
    NoDup etbl /\ NoDup vtbl /\
  let in_e := exists r, In r etbl /\ erow_pair r = (e, f) in
  let in_v := exists r, In r vtbl /\ vrow_pair r = (e, f) in
  let one_e := exists r, In r etbl /\ erow_pair r = (e, f) /\
                 forall r', In r' etbl -> erow_pair r' = (e, f) -> r' = r in
  let one_v := exists r, In r vtbl /\ vrow_pair r = (e, f) /\
                 forall r', In r' vtbl -> vrow_pair r' = (e, f) -> r' = r in
  let adj := elements_adjacent (el els e) (el els f) in
  (e = f /\ adj = true /\ ~ in_e /\ ~ in_v) \/
  (e <> f /\ adj = true /\ one_e /\ ~ in_v) \/
  (e <> f /\ adj = true /\ ~ in_e /\ one_v) \/
  (e <> f /\ adj = false /\ ~ in_e /\ ~ in_v).
Proof. exact pair_partition. Qed.
Print Assumptions C01_pair_partition.

(* the local indices stored with a pair are exactly the shared vertices *)
Theorem C01_shared_indices_correct : forall (els : list elem), elems_distinct_vertices els = true ->
  (forall tbl e f i0 i1 j0 j1, edge_adjacency els = Some tbl -> In (e, f, i0, i1, j0, j1) tbl ->
     e < length els /\ f < length els /\ e <> f /\ i0 < 3 /\ i1 < 3 /\ j0 < 3 /\ j1 < 3 /\ i0 <> i1 /\ j0 < j1 /\
     vget (el els e) i0 = vget (el els f) j0 /\ vget (el els e) i1 = vget (el els f) j1 /\
     forall i' j', i' < 3 -> j' < 3 -> vget (el els e) i' = vget (el els f) j' ->
       (i' = i0 /\ j' = j0) \/ (i' = i1 /\ j' = j1)) /\
  (forall tbl e f i j, vertex_adjacency els = Some tbl -> In (e, f, i, j) tbl ->
     e < length els /\ f < length els /\ e <> f /\ i < 3 /\ j < 3 /\ vget (el els e) i = vget (el els f) j /\
     forall i' j', i' < 3 -> j' < 3 -> vget (el els e) i' = vget (el els f) j' -> i' = i /\ j' = j).
Proof. exact shared_indices_correct. Qed.
Print Assumptions C01_shared_indices_correct.

(* boundary of the property: duplicate triangles are skipped by the regular kernel and by both singular tables *)
Theorem C01_duplicate_pair_dropped :
  exists els e f etbl vtbl, elems_distinct_vertices els = true /\ no_duplicate_triangles els = false /\
    e < length els /\ f < length els /\ e <> f /\ elements_adjacent (el els e) (el els f) = true /\
    edge_adjacency els = Some etbl /\ vertex_adjacency els = Some vtbl /\
    forallb (fun r => negb ((fst (erow_pair r) =? e) && (snd (erow_pair r) =? f))) etbl = true /\
    forallb (fun r => negb ((fst (vrow_pair r) =? e) && (snd (vrow_pair r) =? f))) vtbl = true.
Proof. exact duplicate_pair_dropped. Qed.
Print Assumptions C01_duplicate_pair_dropped.

(* the remaps place the shared vertices first: for any triangle (one coordinate at a time) and any reference point *)
Theorem C01_remap_edge_places : forall (x0 x1 x2 : Q) (v0 v1 : nat) (p : Q * Q),
  v0 < 3 -> v1 < 3 -> v0 <> v1 ->
  (local2global x0 x1 x2 (remap_edge v0 v1 p)
   == vtx x0 x1 x2 v0 + (vtx x0 x1 x2 v1 - vtx x0 x1 x2 v0) * fst p
      + (vtx x0 x1 x2 (3 - v0 - v1) - vtx x0 x1 x2 v0) * snd p)%Q.
Proof. exact remap_edge_places. Qed.
Print Assumptions C01_remap_edge_places.

Theorem C01_remap_vertex_places : forall (x0 x1 x2 : Q) (k : nat) (p : Q * Q),
  k < 3 ->
  (local2global x0 x1 x2 (remap_vertex k p)
   == vtx x0 x1 x2 k + (vtx x0 x1 x2 (vperm k 1) - vtx x0 x1 x2 k) * fst p
      + (vtx x0 x1 x2 (vperm k 2) - vtx x0 x1 x2 k) * snd p)%Q.
Proof. exact remap_vertex_places. Qed.
Print Assumptions C01_remap_vertex_places.

(* the offsets of _compute_edge_offsets/_compute_vertex_offsets address, inside the arrays of _vectorize_points /
   _vectorize_weights, exactly the block produced by the remap named by the local indices ([proj] = test or trial
   points, [wp] any per-point weight); block sizes 6n^4 / 5n^4 / 2n^4, table [[-1,0,4],[1,-1,2],[5,3,-1]]; offsets fit into uint32 *)
Theorem C01_offsets_select_remap : forall (order : Z) rc re rv (proj : qpoint -> Q * Q) (wp : qpoint -> Q),
  (1 <= order <= 30)%Z -> duffy order 0 = Some rc -> duffy order 1 = Some re -> duffy order 2 = Some rv ->
  let P := vectorize_points (map proj rc) (map proj re) (map proj rv) in
  let W := vectorize_weights (map wp rc) (map wp re) (map wp rv) in
  (npts order 0 = 6 * order ^ 4 /\ npts order 1 = 5 * order ^ 4 /\ npts order 2 = 2 * order ^ 4)%Z /\
  slice 0 (Z.to_nat (npts order 0)) P = map proj rc /\
  (forall i0 i1, i0 < 3 -> i1 < 3 -> i0 <> i1 ->
     (0 <= edge_offset order i0 i1 < 2 ^ 32)%Z /\
     slice (Z.to_nat (edge_offset order i0 i1)) (Z.to_nat (npts order 1)) P = map (remap_edge i0 i1) (map proj re)) /\
  (forall k, k < 3 ->
     (0 <= vertex_offset order k < 2 ^ 32)%Z /\
     slice (Z.to_nat (vertex_offset order k)) (Z.to_nat (npts order 2)) P = map (remap_vertex k) (map proj rv)) /\
  slice 0 (Z.to_nat (npts order 0)) W = map wp rc /\
  slice (Z.to_nat (npts order 0)) (Z.to_nat (npts order 1)) W = map wp re /\
  slice (Z.to_nat (npts order 0 + npts order 1)) (Z.to_nat (npts order 2)) W = map wp rv.
Proof. exact offsets_select_remap. Qed.
Print Assumptions C01_offsets_select_remap.

(* the k-th edge-adjacent pair of get_arrays carries its own elements and the offsets of its own local indices *)
Theorem C01_pair_arrays_edge : forall (order : Z) ts rs ea va k,
  let A := vectorize order ts rs ea va in
  let co := length (coincident_indices ts rs) in
  k < length (filter_edge ts rs ea) ->
  match nth k (filter_edge ts rs ea) (0, 0, 0, 0, 0, 0) with
  | (e, f, i0, i1, j0, j1) =>
    nth (co + k) (s_test_indices A) 0 = e /\ nth (co + k) (s_trial_indices A) 0 = f /\
    nth (co + k) (s_test_offsets A) 0%Z = u32 (edge_offset order i0 i1) /\
    nth (co + k) (s_trial_offsets A) 0%Z = u32 (edge_offset order j0 j1) /\
    nth (co + k) (s_weights_offsets A) 0%Z = u32 (npts order 0) /\ nth (co + k) (s_nquad A) 0%Z = u32 (npts order 1)
  end.
Proof. exact vectorize_edge_entry. Qed.
Print Assumptions C01_pair_arrays_edge.

Theorem C01_pair_arrays_vertex : forall (order : Z) ts rs ea va k,
  let A := vectorize order ts rs ea va in
  let co := length (coincident_indices ts rs) + length (filter_edge ts rs ea) in
  k < length (filter_vertex ts rs va) ->
  match nth k (filter_vertex ts rs va) (0, 0, 0, 0) with
  | (e, f, i, j) =>
    nth (co + k) (s_test_indices A) 0 = e /\ nth (co + k) (s_trial_indices A) 0 = f /\
    nth (co + k) (s_test_offsets A) 0%Z = vertex_offset_u32 order i /\
    nth (co + k) (s_trial_offsets A) 0%Z = vertex_offset_u32 order j /\
    nth (co + k) (s_weights_offsets A) 0%Z = u32 (npts order 0 + npts order 1) /\
    nth (co + k) (s_nquad A) 0%Z = u32 (npts order 2)
  end.
Proof. exact vectorize_vertex_entry. Qed.
Print Assumptions C01_pair_arrays_vertex.

(* the support filter keeps exactly the pairs with test element in the test support and trial element in the
   trial support; coincident pairs are the elements in both supports, each once *)
Theorem C01_support_filter : forall ts rs (ea : list erow) (va : list vrow),
  (forall r, In r (filter_edge ts rs ea) <->
     In r ea /\ sup ts (fst (erow_pair r)) = true /\ sup rs (snd (erow_pair r)) = true) /\
  (forall r, In r (filter_vertex ts rs va) <->
     In r va /\ sup ts (fst (vrow_pair r)) = true /\ sup rs (snd (vrow_pair r)) = true) /\
  (forall e, In e (coincident_indices ts rs) <-> sup ts e = true /\ sup rs e = true) /\
  NoDup (coincident_indices ts rs).
Proof. exact support_filter. Qed.
Print Assumptions C01_support_filter.

(* ---- every ordered pair of the supports is integrated exactly once ------------------------------------------
   reg  = pairs visited by the regular kernel: one call per test colour, that colour's test elements x all trial
          elements of the support, pairs with elements_adjacent skipped;
   sing = (test_indices[k], trial_indices[k]) of get_arrays(): coincident, edge-adjacent, vertex-adjacent pairs
          filtered by the supports.
   For every triangulation, every pair of supports and every colouring whose coloured elements are the support:
   reg ++ sing has no repetition and is a permutation of all ordered pairs (test support) x (trial support). *)
Theorem C01_pair_coverage : forall (els : list elem) (ts rs : list bool) (cm_test cm_trial : list (option nat)),
  wf_grid els = true -> length ts = length els -> length rs = length els ->
  colours_match cm_test ts = true -> colours_match cm_trial rs = true ->
  forall (ea : list erow) (va : list vrow), edge_adjacency els = Some ea -> vertex_adjacency els = Some va ->
  let reg := regular_pairs els cm_test cm_trial in let sing := singular_pairs ts rs ea va in
  let target := filter (in_supports ts rs) (all_pairs (length els)) in
  NoDup (reg ++ sing) /\ (forall p, In p (reg ++ sing) <-> In p target) /\ Permutation (reg ++ sing) target.
Proof. exact pair_coverage. Qed.
Print Assumptions C01_pair_coverage.

(* get_elements_by_color lists every coloured element exactly once *)
Theorem C01_sorted_indices : forall (cm : list (option nat)),
  NoDup (sorted_indices cm) /\
  forall e, In e (sorted_indices cm) <-> e < length cm /\ nth e cm None <> None.
Proof. exact (fun cm => conj (sorted_indices_NoDup cm) (sorted_indices_in cm)). Qed.
Print Assumptions C01_sorted_indices.

(* ---- the points of a singular pair: canonical configuration, independent of local numbering --------------------
   XP e k = coordinates of vertex number elements[k,e]; phys = local2global; canon A B C p = A + p1 (B-A) + p2 (C-A) *)
Theorem C01_edge_pair_points : forall (els : list elem) (vs : list vec),
  elems_distinct_vertices els = true -> forall tbl e f i0 i1 j0 j1 (p : Q * Q),
  edge_adjacency els = Some tbl -> In (e, f, i0, i1, j0, j1) tbl ->
  let A := XP els vs e i0 in let B := XP els vs e i1 in
  A = XP els vs f j0 /\ B = XP els vs f j1 /\
  veq (phys (XP els vs e 0) (XP els vs e 1) (XP els vs e 2) (remap_edge i0 i1 p))
      (canon A B (XP els vs e (3 - i0 - i1)) p) /\
  veq (phys (XP els vs f 0) (XP els vs f 1) (XP els vs f 2) (remap_edge j0 j1 p))
      (canon A B (XP els vs f (3 - j0 - j1)) p).
Proof. exact edge_pair_points. Qed.
Print Assumptions C01_edge_pair_points.

Theorem C01_vertex_pair_points : forall (els : list elem) (vs : list vec),
  elems_distinct_vertices els = true -> forall tbl e f i j (p : Q * Q),
  vertex_adjacency els = Some tbl -> In (e, f, i, j) tbl ->
  let A := XP els vs e i in
  A = XP els vs f j /\
  veq (phys (XP els vs e 0) (XP els vs e 1) (XP els vs e 2) (remap_vertex i p))
      (canon A (XP els vs e (vperm i 1)) (XP els vs e (vperm i 2)) p) /\
  veq (phys (XP els vs f 0) (XP els vs f 1) (XP els vs f 2) (remap_vertex j p))
      (canon A (XP els vs f (vperm j 1)) (XP els vs f (vperm j 2)) p).
Proof. exact vertex_pair_points. Qed.
Print Assumptions C01_vertex_pair_points.

(* the offsets stored (in uint32 arrays) for the k-th edge-/vertex-adjacent pair select, in the concatenated test and
   trial point arrays, exactly the blocks remapped with that pair's own local indices -- for every order 1..30 *)
Theorem C01_edge_pair_blocks : forall (els : list elem) order ts rs ea va rc re rv k,
  elems_distinct_vertices els = true -> edge_adjacency els = Some ea ->
  (1 <= order <= 30)%Z -> duffy order 0 = Some rc -> duffy order 1 = Some re -> duffy order 2 = Some rv ->
  k < length (filter_edge ts rs ea) ->
  let A := vectorize order ts rs ea va in
  let pos := length (coincident_indices ts rs) + k in
  let TP := vectorize_points (map test_pt rc) (map test_pt re) (map test_pt rv) in
  let RP := vectorize_points (map trial_pt rc) (map trial_pt re) (map trial_pt rv) in
  match nth k (filter_edge ts rs ea) (0, 0, 0, 0, 0, 0) with
  | (e, f, i0, i1, j0, j1) =>
    nth pos (s_test_indices A) 0 = e /\ nth pos (s_trial_indices A) 0 = f /\
    slice (Z.to_nat (nth pos (s_test_offsets A) 0%Z)) (Z.to_nat (nth pos (s_nquad A) 0%Z)) TP
      = map (remap_edge i0 i1) (map test_pt re) /\
    slice (Z.to_nat (nth pos (s_trial_offsets A) 0%Z)) (Z.to_nat (nth pos (s_nquad A) 0%Z)) RP
      = map (remap_edge j0 j1) (map trial_pt re)
  end.
Proof. exact edge_pair_blocks. Qed.
Print Assumptions C01_edge_pair_blocks.

Theorem C01_vertex_pair_blocks : forall (els : list elem) order ts rs ea va rc re rv k,
  elems_distinct_vertices els = true -> vertex_adjacency els = Some va ->
  (1 <= order <= 30)%Z -> duffy order 0 = Some rc -> duffy order 1 = Some re -> duffy order 2 = Some rv ->
  k < length (filter_vertex ts rs va) ->
  let A := vectorize order ts rs ea va in
  let pos := length (coincident_indices ts rs) + length (filter_edge ts rs ea) + k in
  let TP := vectorize_points (map test_pt rc) (map test_pt re) (map test_pt rv) in
  let RP := vectorize_points (map trial_pt rc) (map trial_pt re) (map trial_pt rv) in
  match nth k (filter_vertex ts rs va) (0, 0, 0, 0) with
  | (e, f, i, j) =>
    nth pos (s_test_indices A) 0 = e /\ nth pos (s_trial_indices A) 0 = f /\
    slice (Z.to_nat (nth pos (s_test_offsets A) 0%Z)) (Z.to_nat (nth pos (s_nquad A) 0%Z)) TP
      = map (remap_vertex i) (map test_pt rv) /\
    slice (Z.to_nat (nth pos (s_trial_offsets A) 0%Z)) (Z.to_nat (nth pos (s_nquad A) 0%Z)) RP
      = map (remap_vertex j) (map trial_pt rv)
  end.
Proof. exact vertex_pair_blocks. Qed.
Print Assumptions C01_vertex_pair_blocks.

(* the offset arithmetic in the dtype of the code (uint32): the reductions mod 2^32 are the identity for every
   accepted order; with a 16-bit table they would not be (order 7) *)
Theorem C01_offsets_fit_uint32 : forall order : Z, (1 <= order <= 30)%Z ->
  (forall i j, i < 3 -> j < 3 -> i <> j -> u32 (edge_offset order i j) = edge_offset order i j) /\
  (forall k, k < 3 -> vertex_offset_u32 order k = vertex_offset order k) /\
  u32 (npts order 0) = npts order 0 /\ u32 (npts order 1) = npts order 1 /\ u32 (npts order 2) = npts order 2 /\
  u32 (npts order 0 + npts order 1) = (npts order 0 + npts order 1)%Z.
Proof. exact offsets_fit_u32. Qed.
Print Assumptions C01_offsets_fit_uint32.

Theorem C01_offsets_do_not_fit_uint16 :
  exists order i j, (1 <= order <= 30)%Z /\ i < 3 /\ j < 3 /\ i <> j /\
    (edge_offset order i j mod 2 ^ 16 <> edge_offset order i j)%Z.
Proof. exact offsets_do_not_fit_u16. Qed.
Print Assumptions C01_offsets_do_not_fit_uint16.

(* hypotheses satisfiable: the octahedron *)
Theorem C01_example : wf_grid octahedron = true /\ in_range octahedron 6 = true.
Proof. exact octahedron_wf. Qed.
Print Assumptions C01_example.

(* The conjunction of what is proved.  GAP (analytic, not proved, exercised by the search only): that the
   Sauter-Schwab/Duffy sums on the remapped points and the regular Gauss sums converge to the integrals of the
   single-layer, double-layer, adjoint and hypersingular kernels, and that those integrals satisfy
   (1/2 M + K) g = V psi and W g = (1/2 M' - K') psi for affine u.  Also separate (added by the lead from
   Kernels/LaplaceDerivs.v): the double-layer kernels are the normal derivatives of the single-layer kernel. *)
Theorem C01_calderon_partial :
  (* 1. every ordered pair is integrated by exactly one rule *)
  (forall (els : list elem) e f, wf_grid els = true -> e < length els -> f < length els ->
     let adj := elements_adjacent (el els e) (el els f) in
     exists etbl vtbl, edge_adjacency els = Some etbl /\ vertex_adjacency els = Some vtbl /\
       ((e = f /\ adj = true) \/
        (e <> f /\ adj = true /\ (exists r, In r etbl /\ erow_pair r = (e, f)) /\
                                 ~ (exists r, In r vtbl /\ vrow_pair r = (e, f))) \/
        (e <> f /\ adj = true /\ ~ (exists r, In r etbl /\ erow_pair r = (e, f)) /\
                                 (exists r, In r vtbl /\ vrow_pair r = (e, f))) \/
        (e <> f /\ adj = false /\ ~ (exists r, In r etbl /\ erow_pair r = (e, f)) /\
                                  ~ (exists r, In r vtbl /\ vrow_pair r = (e, f))))) /\
  (* 2. with the vertex correspondence of the shared vertices *)
  (forall (els : list elem) tbl e f i0 i1 j0 j1, elems_distinct_vertices els = true ->
     edge_adjacency els = Some tbl -> In (e, f, i0, i1, j0, j1) tbl ->
     i0 < 3 /\ i1 < 3 /\ j0 < 3 /\ j1 < 3 /\ i0 <> i1 /\ j0 <> j1 /\
     vget (el els e) i0 = vget (el els f) j0 /\ vget (el els e) i1 = vget (el els f) j1) /\
  (forall (els : list elem) tbl e f i j, elems_distinct_vertices els = true ->
     vertex_adjacency els = Some tbl -> In (e, f, i, j) tbl ->
     i < 3 /\ j < 3 /\ vget (el els e) i = vget (el els f) j) /\
  (* 3. the offsets select the remap that puts exactly those vertices first *)
  (forall (order : Z) rc re rv (proj : qpoint -> Q * Q) i0 i1,
     (1 <= order <= 30)%Z -> duffy order 0 = Some rc -> duffy order 1 = Some re -> duffy order 2 = Some rv ->
     i0 < 3 -> i1 < 3 -> i0 <> i1 ->
     slice (Z.to_nat (edge_offset order i0 i1)) (Z.to_nat (npts order 1))
           (vectorize_points (map proj rc) (map proj re) (map proj rv)) = map (remap_edge i0 i1) (map proj re)) /\
  (forall (order : Z) rc re rv (proj : qpoint -> Q * Q) k,
     (1 <= order <= 30)%Z -> duffy order 0 = Some rc -> duffy order 1 = Some re -> duffy order 2 = Some rv ->
     k < 3 ->
     slice (Z.to_nat (vertex_offset order k)) (Z.to_nat (npts order 2))
           (vectorize_points (map proj rc) (map proj re) (map proj rv)) = map (remap_vertex k) (map proj rv)) /\
  (forall (x0 x1 x2 : Q) (v0 v1 : nat) (p : Q * Q), v0 < 3 -> v1 < 3 -> v0 <> v1 ->
     (local2global x0 x1 x2 (remap_edge v0 v1 p)
      == vtx x0 x1 x2 v0 + (vtx x0 x1 x2 v1 - vtx x0 x1 x2 v0) * fst p
         + (vtx x0 x1 x2 (3 - v0 - v1) - vtx x0 x1 x2 v0) * snd p)%Q) /\
  (forall (x0 x1 x2 : Q) (k : nat) (p : Q * Q), k < 3 ->
     (local2global x0 x1 x2 (remap_vertex k p)
      == vtx x0 x1 x2 k + (vtx x0 x1 x2 (vperm k 1) - vtx x0 x1 x2 k) * fst p
         + (vtx x0 x1 x2 (vperm k 2) - vtx x0 x1 x2 k) * snd p)%Q).
Proof. exact calderon_partial. Qed.
Print Assumptions C01_calderon_partial.

(* ---- the three Laplace kernels are the right derivatives of one Green's function (tie T: kernels regenerated
   from core/numba_kernels.py by translators/py_kernels.py; proofs in Kernels/LaplaceDerivs.v, Coquelicot) ---- *)
From Coq Require Import Reals.
From Coquelicot Require Import Coquelicot.
From BVgen Require Import NumbaKernels.
From BV Require Import Kernels.LaplaceDerivs.

(* d/dt G(x, y + t n_y) at t = 0  =  K_dl(x, y; n_y)   for x <> y *)
Theorem C01_double_layer_kernel_is_normal_derivative :
  forall x0 x1 x2 y0 y1 y2 nx0 nx1 nx2 ny0 ny1 ny2 p0 p1 : R, (x0, x1, x2) <> (y0, y1, y2) ->
  is_derive (fun t => laplace_single_layer_regular_re x0 x1 x2 (y0 + t * ny0) (y1 + t * ny1) (y2 + t * ny2)
                        nx0 nx1 nx2 ny0 ny1 ny2 p0 p1)%R 0%R
            (laplace_double_layer_regular_re x0 x1 x2 y0 y1 y2 nx0 nx1 nx2 ny0 ny1 ny2 p0 p1).
Proof. exact laplace_dl_is_normal_derivative. Qed.
Print Assumptions C01_double_layer_kernel_is_normal_derivative.

(* d/dt G(x + t n_x, y) at t = 0  =  K_adl(x, y; n_x)  for x <> y *)
Theorem C01_adjoint_double_layer_kernel_is_normal_derivative :
  forall x0 x1 x2 y0 y1 y2 nx0 nx1 nx2 ny0 ny1 ny2 p0 p1 : R, (x0, x1, x2) <> (y0, y1, y2) ->
  is_derive (fun t => laplace_single_layer_regular_re (x0 + t * nx0) (x1 + t * nx1) (x2 + t * nx2) y0 y1 y2
                        nx0 nx1 nx2 ny0 ny1 ny2 p0 p1)%R 0%R
            (laplace_adjoint_double_layer_regular_re x0 x1 x2 y0 y1 y2 nx0 nx1 nx2 ny0 ny1 ny2 p0 p1).
Proof. exact laplace_adl_is_normal_derivative. Qed.
Print Assumptions C01_adjoint_double_layer_kernel_is_normal_derivative.
