(* C10 -- normal continuity of the BC coefficient stage, for every valence nc, every sign and every edge length:
   the two coefficients written on the two sides of a spoke edge carry opposite fluxes (coefficient x edge length). *)
From Coq Require Import QArith List Arith Bool Lia Setoid.
From BV Require Import Bary.BcModel.
From BVgen Require Import BaryTables.
Import ListNotations.
Open Scope Q_scope.

Section Proofs.
  Variable eid : slot -> nat.
  Variable len : nat -> Q.
  Variable nc : nat.
  Hypothesis nc_pos : (0 < nc)%nat.

  Lemma qn_nc_nonzero : ~ qn nc == 0.
  Proof. unfold qn. intro H. unfold Qeq, inject_Z in H. simpl in H. lia. Qed.

  (* interior vertex: consecutive entries 2m, 2m+1 of the fan are the two sides of one barycentric edge *)
  Fixpoint pairs_cancel (l : list (slot * Q)) : Prop :=
    match l with
    | (s1, v1) :: (s2, v2) :: t => (eid s1 = eid s2 -> ~ len (eid s1) == 0 -> v1 * len (eid s1) + v2 * len (eid s2) == 0) /\ pairs_cancel t
    | _ => True
    end.

  Lemma interior_go_sign l : forall e c s s', s == s' ->
    pairs_cancel (interior_go eid len nc l e c s') -> pairs_cancel (interior_go eid len nc l e c s).
  Proof.
    induction l as [l IHl] using (well_founded_induction (Wf_nat.well_founded_ltof _ (@length slot))).
    intros e c s s' Hs. destruct l as [|a [|b l']]; simpl; auto.
    intros [P1 P2]. split.
    - intros He HL. rewrite Hs. apply P1; assumption.
    - apply (IHl l') with (s' := - - s').
      + unfold ltof. simpl. lia.
      + rewrite Hs. reflexivity.
      + exact P2.
  Qed.

  Lemma interior_go_pairs fan : forall count sign, pairs_cancel (interior_go eid len nc fan true count sign).
  Proof.
    induction fan as [fan IH] using (well_founded_induction (Wf_nat.well_founded_ltof _ (@length slot))).
    intros count sign. destruct fan as [|s1 [|s2 t]]; simpl; auto.
    split.
    - intros He HL. rewrite <- He. pose proof qn_nc_nonzero. field. split; assumption.
    - assert (E : - - sign == sign) by ring.
      apply (interior_go_sign t true (S count) (- - sign) sign E).
      apply IH. unfold ltof. simpl. lia.
  Qed.

  Theorem interior_flux_cancels fan sign : pairs_cancel (interior_coeffs eid len nc fan sign).
  Proof. apply interior_go_pairs. Qed.

  (* border vertex (open fan): the two sides of a spoke are local edge 0 of one element and local edge 1 of the next *)
  Theorem border_flux_cancels sorted ref sign s1 s2 :
    eid s1 = eid s2 -> snd s1 = 0%nat -> snd s2 = 1%nat -> ~ len (eid s1) == 0 ->
    border_value eid len nc sorted ref sign s1 * len (eid s1) + border_value eid len nc sorted ref sign s2 * len (eid s2) == 0.
  Proof.
    intros He H1 H2 HL. unfold border_value. rewrite <- He, H1, H2. pose proof qn_nc_nonzero.
    destruct (Nat.ltb _ ref); [field; split; assumption|].
    destruct (Nat.eqb _ ref); field; split; assumption.
  Qed.
End Proofs.

(* the two cells of a coarse element on the reference edge share the edge (midpoint, centroid) = their local edge 2 *)
Theorem reference_flux_cancels eid len um up lm lp :
  eid (um, 2%nat) = eid (up, 2%nat) -> eid (lm, 2%nat) = eid (lp, 2%nat) ->
  ~ len (eid (um, 2%nat)) == 0 -> ~ len (eid (lm, 2%nat)) == 0 ->
  match reference_part eid len um up lm lp with
  | [(s1, v1); (s2, v2); (s3, v3); (s4, v4)] =>
      v1 * len (eid s1) + v2 * len (eid s2) == 0 /\ v3 * len (eid s3) + v4 * len (eid s4) == 0
  | _ => False
  end.
Proof.
  intros Hu Hl Lu Ll. unfold reference_part. rewrite <- Hu, <- Hl. split; field; assumption.
Qed.

(* ---- which cell count each pole uses --------------------------------------------------------------------------
   In the border-border branch (both fans open) the coefficients around pole 1 are the border coefficients with nc1 and
   sign -1, those around pole 2 the border coefficients with nc2 and sign +1: each side uses the cell count of ITS OWN
   pole.  (The translator pins the argument lists of the four dispatch branches; BVgen flag below.) *)
Theorem border_border_uses_own_count eid len fan1 fan2 g1 s1 g2 s2 nc1 nc2 ref1 ref2 um up lm lp :
  bc_border_test_uses_sorted_edges = true ->
  bc_coeffs eid len fan1 fan2 (g1 :: s1) (g2 :: s2) nc1 nc2 ref1 ref2 um up lm lp =
  border_coeffs eid len nc1 fan1 (g1 :: s1) ref1 (- (1)) ++ border_coeffs eid len nc2 fan2 (g2 :: s2) ref2 1 ++
  reference_part eid len um up lm lp.
Proof. intros H. unfold bc_coeffs, vertex_part. rewrite H. reflexivity. Qed.

(* the documented fluxes of an open fan with nc cells: (nc-1)/nc before, (2-nc)/(2 nc) on, 1/nc after the reference
   edge (up to the orientation sign of the local edge) *)
Theorem border_flux_values eid len nc sorted ref sign s :
  (0 < nc)%nat -> ~ len (eid s) == 0 ->
  let sg := match snd s with 0%nat => - sign | _ => sign end in
  let count := pos_of (eid s) sorted in
  border_value eid len nc sorted ref sign s * len (eid s) ==
  if Nat.ltb count ref then sg * (1 - qn nc) / qn nc
  else if Nat.eqb count ref then sg * (2 - qn nc) / (2 * qn nc) else sg / qn nc.
Proof.
  intros Hnc HL. pose proof (qn_nc_nonzero nc Hnc) as Hq. unfold border_value. cbv zeta.
  destruct (Nat.ltb _ ref); [field; split; assumption|].
  destruct (Nat.eqb _ ref); field; split; assumption.
Qed.
