(* C10 -- the vertex bookkeeping of _create_barycentric_connectivity_array (grid.py), for ALL grids: hand model of the
   element loop with its edge -> midpoint memo (vertex ids only; coordinates are covered per element by
   C10_bary_subtriangles), with the row layout taken from the generated table bary_conn.
   Theorem: every child row carries, per symbol, the coarse vertex, THE midpoint id of that edge (one id per edge,
   shared by all elements that contain the edge) or the centroid id of the element; all new ids are >= the number of
   coarse vertices, centroid ids are pairwise distinct and distinct from all midpoint ids, distinct edges get
   distinct midpoint ids. *)
From Coq Require Import List Arith Bool Lia.
From BV Require Import Bary.Syms.
From BVgen Require Import BaryTables.
Import ListNotations.

Definition memo := list (nat * nat).                       (* edge id -> new vertex id (edge_to_vertex) *)
Fixpoint lookup (g : nat) (m : memo) : option nat :=
  match m with [] => None | (g', id) :: t => if Nat.eqb g g' then Some id else lookup g t end.
Definition state := (memo * nat)%type.                     (* memo, number_of_vertices *)

Definition edge_step (st : state) (g : nat) : nat * state :=
  let '(m, nx) := st in
  match lookup g m with Some id => (id, (m, nx)) | None => (nx, ((g, nx) :: m, S nx)) end.

Definition elem_step (st : state) (Eg : list nat) : nat * list nat * state :=
  let '(m, nx) := st in
  let '(l0, st0) := edge_step (m, S nx) (nth 0 Eg 0) in
  let '(l1, st1) := edge_step st0 (nth 1 Eg 0) in
  let '(l2, st2) := edge_step st1 (nth 2 Eg 0) in
  (nx, [l0; l1; l2], st2).

Definition sym_id (V lv : list nat) (cen : nat) (s : bsym) : nat :=
  match s with BCorner k => nth k V 0 | BMid k => nth k lv 0 | BCentre => cen end.
Definition rows_of (V lv : list nat) (cen : nat) : list (list nat) := map (map (sym_id V lv cen)) bary_conn.

(* one record per coarse element: centroid id, the three midpoint ids, its six child rows *)
Fixpoint run (els : list (list nat * list nat)) (st : state) : list (nat * list nat * list (list nat)) * state :=
  match els with
  | [] => ([], st)
  | (V, Eg) :: t =>
    let '(cen, lv, st1) := elem_step st Eg in
    let '(rest, st2) := run t st1 in
    ((cen, lv, rows_of V lv cen) :: rest, st2)
  end.
Definition new_elements (els : list (list nat * list nat)) (nv : nat) : list (list nat) :=
  flat_map (fun r => snd r) (fst (run els ([], nv))).

(* ------------------------------------------------------------------------------------------------ *)
Definition Inv (nv : nat) (st : state) : Prop :=
  (forall g id, In (g, id) (fst st) -> nv <= id < snd st) /\ NoDup (map snd (fst st)).

Lemma lookup_In g m id : lookup g m = Some id -> In (g, id) m.
Proof.
  induction m as [|[g' i] m IH]; simpl; [discriminate|]. destruct (Nat.eqb g g') eqn:E.
  - intros H. inversion H; subst. apply Nat.eqb_eq in E. subst. left; reflexivity.
  - intros H. right. apply IH, H.
Qed.

(* what one memo step guarantees *)
Definition Ext (st st' : state) : Prop :=
  (forall g id, lookup g (fst st) = Some id -> lookup g (fst st') = Some id) /\
  snd st <= snd st' /\
  (forall g id, In (g, id) (fst st') -> In (g, id) (fst st) \/ snd st <= id).

Lemma Ext_refl st : Ext st st.
Proof. repeat split; auto. Qed.
Lemma Ext_trans a b c : Ext a b -> Ext b c -> Ext a c.
Proof.
  intros [A1 [A2 A3]] [B1 [B2 B3]]. repeat split; auto; [lia|].
  intros g id H. destruct (B3 g id H) as [H1|H1]; [destruct (A3 g id H1); [left; assumption|right; assumption]|right; lia].
Qed.

Lemma edge_step_spec nv st g l st' :
  Inv nv st -> nv <= snd st -> edge_step st g = (l, st') ->
  Inv nv st' /\ Ext st st' /\ lookup g (fst st') = Some l.
Proof.
  destruct st as [m nx]. intros [I1 I2] Hnv. simpl in *. destruct (lookup g m) as [id|] eqn:L; intros H; inversion H; subst.
  - split; [split; assumption|]. split; [apply Ext_refl|assumption].
  - split; [|split].
    + split; simpl.
      * intros g0 id [E|Hin]; [inversion E; subst; lia|]. specialize (I1 g0 id Hin). lia.
      * constructor; [|assumption]. intro Hc. apply in_map_iff in Hc. destruct Hc as [[g0 id] [E Hin]]. simpl in E. subst.
        specialize (I1 g0 l Hin). lia.
    + repeat split; simpl; [|lia|].
      * intros g0 id H0. destruct (Nat.eqb g0 g) eqn:E; [apply Nat.eqb_eq in E; subst; congruence|assumption].
      * intros g0 id [E|Hin]; [inversion E; subst; right; lia|left; assumption].
    + simpl. rewrite Nat.eqb_refl. reflexivity.
Qed.

Lemma elem_step_spec nv st Eg cen lv st' :
  Inv nv st -> nv <= snd st -> elem_step st Eg = (cen, lv, st') ->
  Inv nv st' /\ Ext st st' /\ cen = snd st /\ snd st < snd st' /\
  (forall g id, In (g, id) (fst st') -> id <> cen) /\
  (forall k, k < 3 -> lookup (nth k Eg 0) (fst st') = Some (nth k lv 0)).
Proof.
  destruct st as [m nx]. intros I Hnv. unfold elem_step.
  destruct (edge_step (m, S nx) (nth 0 Eg 0)) as [l0 st0] eqn:E0.
  destruct (edge_step st0 (nth 1 Eg 0)) as [l1 st1] eqn:E1.
  destruct (edge_step st1 (nth 2 Eg 0)) as [l2 st2] eqn:E2.
  intros H. inversion H; subst. clear H.
  assert (I' : Inv nv (m, S cen)).
  { destruct I as [I1 I2]. split; simpl in *; [|assumption]. intros g id Hin. specialize (I1 g id Hin). lia. }
  destruct (edge_step_spec nv _ _ _ _ I' ltac:(simpl in *; lia) E0) as [J0 [X0 K0]].
  assert (N0 : nv <= snd st0) by (destruct X0 as [_ [X _]]; simpl in *; lia).
  destruct (edge_step_spec nv _ _ _ _ J0 N0 E1) as [J1 [X1 K1]].
  assert (N1 : nv <= snd st1) by (destruct X1 as [_ [X _]]; lia).
  destruct (edge_step_spec nv _ _ _ _ J1 N1 E2) as [J2 [X2 K2]].
  pose proof (Ext_trans _ _ _ X0 (Ext_trans _ _ _ X1 X2)) as X.
  split; [assumption|]. split.
  - destruct X as [A [B C]]. repeat split; simpl in *; auto; [lia|].
    intros g id Hin. destruct (C g id Hin) as [H1|H1]; [left; assumption|right; lia].
  - split; [reflexivity|]. split; [destruct X as [_ [B _]]; simpl in *; lia|]. split.
    + intros g id Hin. destruct X as [_ [_ C]]. destruct (C g id Hin) as [H1|H1]; simpl in *.
      * destruct I as [I1 _]. specialize (I1 g id H1). simpl in I1. lia.
      * lia.
    + intros k Hk. destruct k as [|[|[|k]]]; try lia; simpl.
      * destruct X1 as [A1 _]. destruct X2 as [A2 _]. apply A2, A1, K0.
      * destruct X2 as [A2 _]. apply A2, K1.
      * exact K2.
Qed.

(* per-element facts about the whole run *)
Theorem run_spec nv els : forall st out st',
  Inv nv st -> nv <= snd st -> run els st = (out, st') ->
  Inv nv st' /\ Ext st st' /\ length out = length els /\
  forall i V Eg cen lv rows, nth_error els i = Some (V, Eg) -> nth_error out i = Some (cen, lv, rows) ->
    rows = rows_of V lv cen /\
    snd st <= cen < snd st' /\
    (forall g id, In (g, id) (fst st') -> id <> cen) /\
    (forall k, k < 3 -> lookup (nth k Eg 0) (fst st') = Some (nth k lv 0)) /\
    (forall i' cen' lv' rows', i' <> i -> nth_error out i' = Some (cen', lv', rows') -> cen' <> cen).
Proof.
  induction els as [|[V0 Eg0] t IH]; intros st out st' I Hnv H.
  - simpl in H. inversion H; subst. split; [assumption|]. split; [apply Ext_refl|]. split; [reflexivity|].
    intros i V Eg cen lv rows Hi. destruct i; discriminate.
  - simpl in H. destruct (elem_step st Eg0) as [[cen0 lv0] st1] eqn:ES.
    destruct (run t st1) as [rest st2] eqn:RT. inversion H; subst. clear H.
    destruct (elem_step_spec nv _ _ _ _ _ I Hnv ES) as [I1 [X1 [Ec [Hlt [Hfresh Hlk]]]]].
    assert (N1 : nv <= snd st1) by lia.
    destruct (IH st1 rest st' I1 N1 RT) as [I2 [X2 [Hlen Hall]]].
    split; [assumption|]. split; [exact (Ext_trans _ _ _ X1 X2)|]. split; [simpl; rewrite Hlen; reflexivity|].
    assert (Hcens : forall i' cen' lv' rows', nth_error rest i' = Some (cen', lv', rows') -> snd st1 <= cen' < snd st').
    { intros i' cen' lv' rows' Hn.
      assert (Hl : i' < length t) by (rewrite <- Hlen; apply nth_error_Some; congruence).
      destruct (nth_error t i') as [[V' Eg']|] eqn:Ht; [|apply nth_error_None in Ht; lia].
      destruct (Hall i' V' Eg' cen' lv' rows' Ht Hn) as [_ [B _]]. exact B. }
    intros i V Eg cen lv rows Hi Ho. destruct i as [|i]; simpl in Hi, Ho.
    + inversion Hi; inversion Ho; subst. split; [reflexivity|]. destruct X2 as [A2 [B2 C2]]. split; [lia|]. split.
      * intros g id Hin. destruct (C2 g id Hin) as [H1|H1]; [apply (Hfresh g id H1)|lia].
      * split; [intros k Hk; apply A2, Hlk, Hk|].
        intros i' cen' lv' rows' Hne Hn. destruct i' as [|i']; [congruence|]. simpl in Hn.
        specialize (Hcens i' cen' lv' rows' Hn). lia.
    + destruct (Hall i V Eg cen lv rows Hi Ho) as [A [B [C [D E]]]]. split; [assumption|]. split; [destruct X1 as [_ [X _]]; lia|].
      split; [assumption|]. split; [assumption|].
      intros i' cen' lv' rows' Hne Hn. destruct i' as [|i']; simpl in Hn.
      * inversion Hn; subst. lia.
      * apply (E i' cen' lv' rows'); [congruence|assumption].
Qed.

(* distinct edges never share a midpoint id; all new ids are >= nv *)
Lemma inv_injective nv st g g' id :
  Inv nv st -> lookup g (fst st) = Some id -> lookup g' (fst st) = Some id -> g = g'.
Proof.
  intros [_ ND] H1 H2. apply lookup_In in H1, H2. destruct st as [m nx]. simpl in *.
  induction m as [|[a b] m IH]; [destruct H1|]. simpl in ND. inversion ND as [|? ? Hn ND']; subst.
  destruct H1 as [E1|H1], H2 as [E2|H2].
  - congruence.
  - inversion E1; subst. exfalso. apply Hn. apply in_map_iff. exists (g', id). split; [reflexivity|assumption].
  - inversion E2; subst. exfalso. apply Hn. apply in_map_iff. exists (g, id). split; [reflexivity|assumption].
  - apply IH; assumption.
Qed.

Lemma Inv_init nv : Inv nv ([], nv).
Proof. split; simpl; [intros g id []|constructor]. Qed.

Lemma rows_of_entry V lv cen j v :
  j < 6 -> v < 3 ->
  nth v (nth j (rows_of V lv cen) []) 0 = sym_id V lv cen (nth v (nth j bary_conn []) BCentre).
Proof.
  intros Hj Hv.
  destruct j as [|[|[|[|[|[|j]]]]]]; try lia; destruct v as [|[|[|v]]]; try lia; reflexivity.
Qed.

Theorem bary_connectivity_all_grids nv els out st' :
  run els ([], nv) = (out, st') ->
  length out = length els /\
  (forall i V Eg cen lv rows, nth_error els i = Some (V, Eg) -> nth_error out i = Some (cen, lv, rows) ->
     (forall j v, j < 6 -> v < 3 ->
        nth v (nth j rows []) 0 = sym_id V lv cen (nth v (nth j bary_conn []) BCentre)) /\
     nv <= cen /\
     (forall k, k < 3 -> lookup (nth k Eg 0) (fst st') = Some (nth k lv 0) /\ nv <= nth k lv 0 /\ nth k lv 0 <> cen) /\
     (forall i' cen' lv' rows', i' <> i -> nth_error out i' = Some (cen', lv', rows') -> cen' <> cen)) /\
  (forall g g' id, lookup g (fst st') = Some id -> lookup g' (fst st') = Some id -> g = g').
Proof.
  intros H. destruct (run_spec nv els ([], nv) out st' (Inv_init nv) (le_n nv) H) as [I [X [Hlen Hall]]].
  split; [assumption|]. split.
  - intros i V Eg cen lv rows Hi Ho. destruct (Hall i V Eg cen lv rows Hi Ho) as [A [B [C [D E]]]].
    split; [intros j v Hj Hv; subst rows; apply rows_of_entry; assumption|]. split; [simpl in B; lia|]. split; [|assumption].
    intros k Hk. pose proof (D k Hk) as L. split; [assumption|]. pose proof (lookup_In _ _ _ L) as Hin.
    destruct I as [I1 _]. split; [specialize (I1 _ _ Hin); lia|apply (C _ _ Hin)].
  - intros g g' id. apply inv_injective with (nv := nv). assumption.
Qed.
