(* C10 -- theorems about the hand model of the dual-space coefficient loops (for every grid / valence / option). *)
From Coq Require Import QArith List Arith Bool Lia.
From BV Require Import Bary.Syms Bary.Model Bary.Tables Bary.DualModel.
From BVgen Require Import BaryTables.
Import ListNotations.
Open Scope Q_scope.

Lemma bsym_eqb_eq a b : bsym_eqb a b = true -> a = b.
Proof.
  destruct a, b; simpl; intros H; try discriminate; try reflexivity;
    apply Nat.eqb_eq in H; subst; reflexivity.
Qed.

Lemma existsb_eqb_In x l : existsb (Nat.eqb x) l = true <-> In x l.
Proof.
  rewrite existsb_exists. split.
  - intros [y [Hy E]]. apply Nat.eqb_eq in E. subst. assumption.
  - intros H. exists x. split; [assumption|apply Nat.eqb_refl].
Qed.

Lemma same_set_In l1 l2 x : same_set l1 l2 = true -> (In x l1 <-> In x l2).
Proof.
  unfold same_set. rewrite !andb_true_iff. intros [[A B] _].
  rewrite forallb_forall in A, B. split; intros H.
  - apply existsb_eqb_In. apply A. assumption.
  - apply existsb_eqb_In. apply B. assumption.
Qed.

Lemma all_dofs_of_In n s : In n (all_dofs_of s) -> (n < 18)%nat /\ dof_sym n = s.
Proof.
  unfold all_dofs_of. rewrite filter_In, in_seq. intros [A B]. split; [lia|apply bsym_eqb_eq; assumption].
Qed.

Lemma subtris_at_corner_In j k :
  In j (subtris_at_corner k) -> (j < 6)%nat /\ exists v, (v < 3)%nat /\ sub_sym j v = BCorner k.
Proof.
  unfold subtris_at_corner. rewrite filter_In, in_seq, existsb_exists. intros [A [v [Hv E]]].
  split; [lia|]. exists v. apply in_seq in Hv. split; [lia|apply bsym_eqb_eq; assumption].
Qed.

(* ---------------- DUAL0 ---------------- *)
Definition dual0_guard (truncate : bool) (p1_support : list nat) (face : nat) : bool :=
  (if dual0_guard_uses_coarse_support then mem face p1_support else bary_support p1_support face) || negb truncate.

Lemma concat_opt_all_some {A} (l : list (option (list A))) :
  (forall x, In x l -> exists y, x = Some y) ->
  exists r, concat_opt l = Some r /\ forall t, In t r <-> exists y, In (Some y) l /\ In t y.
Proof.
  induction l as [|x l IH]; intros H.
  - exists []. split; [reflexivity|]. intros t. split; [intros []|intros [y [[] _]]].
  - destruct (H x (or_introl eq_refl)) as [y Hy]. subst x.
    destruct IH as [r [Hr Hin]]; [intros z Hz; apply H; right; assumption|].
    exists (y ++ r). split; [simpl; rewrite Hr; reflexivity|].
    intros t. rewrite in_app_iff, Hin. split.
    + intros [Ht|[z [Hz Ht]]]; [exists y; split; [left; reflexivity|assumption]|exists z; split; [right|]; assumption].
    + intros [z [[E|Hz] Ht]]; [inversion E; subst; left; assumption|right; exists z; split; assumption].
Qed.

Lemma mem_index_of x l : mem x l = true -> exists i, index_of x l = Some i.
Proof.
  unfold mem. induction l as [|y l IH]; simpl; [discriminate|].
  rewrite Nat.eqb_sym. destruct (Nat.eqb x y) eqn:E.
  - rewrite Nat.eqb_sym, E. eexists; reflexivity.
  - rewrite Nat.eqb_sym, E. simpl. intros H. destruct (IH H) as [i Hi]. rewrite Hi. eexists; reflexivity.
Qed.

Lemma in_combine_seq {T} (l : list T) s i x :
  In (i, x) (combine (seq s (length l)) l) -> (s <= i)%nat /\ nth_error l (i - s) = Some x.
Proof.
  revert s. induction l as [|y l IH]; intros s; simpl; [intros []|].
  intros [E|H].
  - inversion E; subst. rewrite Nat.sub_diag. split; [lia|reflexivity].
  - destruct (IH (S s) H) as [A B]. split; [lia|].
    replace (i - s)%nat with (S (i - S s)) by lia. assumption.
Qed.
Lemma combine_seq_in {T} (l : list T) s k x :
  nth_error l k = Some x -> In ((s + k)%nat, x) (combine (seq s (length l)) l).
Proof.
  revert s k. induction l as [|y l IH]; intros s k; [destruct k; discriminate|].
  destruct k; simpl.
  - intros E. inversion E; subst. left. f_equal. lia.
  - intros H. right. replace (s + S k)%nat with (S s + k)%nat by lia. apply IH. assumption.
Qed.

(* the entries written for the dofs of the coarse P1 space, when the guard lets every (face, vertex) through:
   exactly { (6*pos(face)+s, d, 1) : (face, v) in global2local[d], s a listed sub-triangle of corner v } *)
Theorem dual0_entries_exact truncate sup (g2l : list (list (nat * nat))) :
  (forall dl f v, In dl g2l -> In (f, v) dl -> mem f sup = true /\ dual0_guard truncate sup f = true) ->
  exists l, dual0_entries truncate sup g2l = Some l /\
    forall t, In t l <->
      exists d dl f v fn s, nth_error g2l d = Some dl /\ In (f, v) dl /\ index_of f sup = Some fn /\
                            In s (nth v dual0_subtris []) /\ t = ((6 * fn + s)%nat, d, 1).
Proof.
  intros Hwf. unfold dual0_entries.
  (* inner lists *)
  assert (Hinner : forall d dl, In dl g2l ->
            exists r, concat_opt (map (dual0_face_entries truncate sup d) dl) = Some r /\
              forall t, In t r <-> exists f v fn s, In (f, v) dl /\ index_of f sup = Some fn /\
                                    In s (nth v dual0_subtris []) /\ t = ((6 * fn + s)%nat, d, 1)).
  { intros d dl Hdl.
    destruct (concat_opt_all_some (map (dual0_face_entries truncate sup d) dl)) as [r [Hr Hin]].
    - intros x Hx. apply in_map_iff in Hx. destruct Hx as [[f v] [E Hfv]]. subst x.
      destruct (Hwf dl f v Hdl Hfv) as [Hm Hg]. unfold dual0_face_entries. fold (dual0_guard truncate sup f).
      rewrite Hg. destruct (mem_index_of f sup Hm) as [i Hi]. rewrite Hi. eexists; reflexivity.
    - exists r. split; [assumption|]. intros t. rewrite Hin. split.
      + intros [y [Hy Ht]]. apply in_map_iff in Hy. destruct Hy as [[f v] [E Hfv]].
        destruct (Hwf dl f v Hdl Hfv) as [Hm Hg]. unfold dual0_face_entries in E. fold (dual0_guard truncate sup f) in E.
        rewrite Hg in E. destruct (mem_index_of f sup Hm) as [i Hi]. rewrite Hi in E. inversion E; subst y.
        apply in_map_iff in Ht. destruct Ht as [s [Es Hs]]. exists f, v, i, s. repeat split; try assumption. symmetry; assumption.
      + intros [f [v [fn [s [Hfv [Hi [Hs Et]]]]]]].
        exists (map (fun s0 => ((6 * fn + s0)%nat, d, 1)) (nth v dual0_subtris [])). split.
        * apply in_map_iff. exists (f, v). split; [|assumption].
          destruct (Hwf dl f v Hdl Hfv) as [Hm Hg]. unfold dual0_face_entries. fold (dual0_guard truncate sup f).
          rewrite Hg, Hi. reflexivity.
        * apply in_map_iff. exists s. split; [symmetry; assumption|assumption]. }
  destruct (concat_opt_all_some
              (map (fun dl => concat_opt (map (dual0_face_entries truncate sup (fst dl)) (snd dl)))
                   (combine (seq 0 (length g2l)) g2l))) as [l [Hl Hin]].
  - intros x Hx. apply in_map_iff in Hx. destruct Hx as [[d dl] [E Hd]]. subst x. simpl.
    destruct (Hinner d dl) as [r [Hr _]]; [apply in_combine_r in Hd; assumption|]. exists r. assumption.
  - exists l. split; [assumption|]. intros t. rewrite Hin. split.
    + intros [y [Hy Ht]]. apply in_map_iff in Hy. destruct Hy as [[d dl] [E Hd]]. simpl in E.
      pose proof (in_combine_r _ _ _ _ Hd) as Hdl. destruct (Hinner d dl Hdl) as [r [Hr Hrin]].
      rewrite Hr in E. inversion E; subst y. apply Hrin in Ht.
      destruct Ht as [f [v [fn [s [A [B [C D]]]]]]].
      destruct (in_combine_seq _ _ _ _ Hd) as [_ Hn]. rewrite Nat.sub_0_r in Hn.
      exists d, dl, f, v, fn, s. repeat split; assumption.
    + intros [d [dl [f [v [fn [s [Hn [A [B [C D]]]]]]]]]].
      pose proof (nth_error_In _ _ Hn) as Hdl. destruct (Hinner d dl Hdl) as [r [Hr Hrin]].
      exists r. split.
      * apply in_map_iff. exists (d, dl). split; [simpl; assumption|].
        apply (combine_seq_in g2l 0 d dl Hn).
      * apply Hrin. exists f, v, fn, s. repeat split; assumption.
Qed.

(* the guard lets everything through when the support is not truncated, or when it tests the coarse support *)
Lemma dual0_guard_passes truncate sup f :
  mem f sup = true -> (dual0_guard_uses_coarse_support = true \/ truncate = false) -> dual0_guard truncate sup f = true.
Proof.
  intros Hm [H|H]; unfold dual0_guard; [rewrite H, Hm; reflexivity|rewrite H; apply orb_true_r].
Qed.

(* ---------------- DUAL1 ---------------- *)
Lemma first_local_spec f x i : first_local f x = Some i -> (i < 3)%nat /\ f i = x.
Proof.
  unfold first_local.
  destruct (Nat.eqb (f 0%nat) x) eqn:E0; [intros H; inversion H; subst; split; [lia|apply Nat.eqb_eq; assumption]|].
  destruct (Nat.eqb (f 1%nat) x) eqn:E1; [intros H; inversion H; subst; split; [lia|apply Nat.eqb_eq; assumption]|].
  destruct (Nat.eqb (f 2%nat) x) eqn:E2; [intros H; inversion H; subst; split; [lia|apply Nat.eqb_eq; assumption]|].
  discriminate.
Qed.

Lemma in_block t d fn dofs val :
  In t (block d fn dofs val) <-> exists n, In n dofs /\ t = ((6 * 3 * fn + n)%nat, d, val).
Proof.
  unfold block. rewrite in_map_iff. split; intros [n [A B]]; exists n; [split; [assumption|symmetry; assumption]|split; [symmetry; assumption|assumption]].
Qed.

Section Dual1Sound.
  Variable truncate : bool.
  Variables elements element_edges edge_neighbors vertex_neighbors : list (list nat).
  Variable dp0_support : list nat.
  Let SF := support_final truncate elements element_edges edge_neighbors vertex_neighbors dp0_support.
  Let EL := el elements.
  Let EE := ee element_edges.

  Definition valence (V : nat) : nat := length (nth V vertex_neighbors []).

  (* what an entry of the DUAL1 map may be *)
  Inductive dual1_entry_kind (d E : nat) (t : triple) : Prop :=
  | K_centre fn n : index_of E SF = Some fn -> In n dual1_centre_dofs ->
                    t = ((18 * fn + n)%nat, d, 1) -> dual1_entry_kind d E t
  | K_edge e nb fn i n : (e < 3)%nat -> In nb (nth (EE E e) edge_neighbors []) -> index_of nb SF = Some fn ->
                    (i < 3)%nat -> EE nb i = EE E e -> (n < 18)%nat -> dof_sym n = BMid i ->
                    t = ((18 * fn + n)%nat, d, 1 # 2) -> dual1_entry_kind d E t
  | K_vertex v nb fn i n : (v < 3)%nat -> In nb (nth (EL E v) vertex_neighbors []) -> index_of nb SF = Some fn ->
                    (i < 3)%nat -> EL nb i = EL E v -> (n < 18)%nat -> dof_sym n = BCorner i ->
                    t = ((18 * fn + n)%nat, d, 1 / inject_Z (Z.of_nat (valence (EL E v)))) -> dual1_entry_kind d E t.

  Theorem dual1_entries_sound t :
    In t (dual1_entries truncate elements element_edges edge_neighbors vertex_neighbors dp0_support) ->
    exists d E, nth_error dp0_support d = Some E /\ dual1_entry_kind d E t.
  Proof.
    unfold dual1_entries. rewrite in_flat_map. intros [[d E] [HdE Ht]]. simpl in Ht.
    destruct (in_combine_seq _ _ _ _ HdE) as [_ Hn]. rewrite Nat.sub_0_r in Hn.
    exists d, E. split; [assumption|].
    rewrite !in_app_iff in Ht. destruct Ht as [Ht|[Ht|Ht]].
    - unfold centre_part in Ht. fold SF in Ht. destruct (index_of E SF) as [fn|] eqn:Hi; [|destruct Ht].
      apply in_block in Ht. destruct Ht as [n [A B]]. apply (K_centre d E t fn n); try assumption.
    - unfold edge_part in Ht. apply in_flat_map in Ht. destruct Ht as [e [He Ht]]. apply in_seq in He.
      apply in_flat_map in Ht. destruct Ht as [nb [Hnb Ht]]. fold SF in Ht.
      destruct (index_of nb SF) as [fn|] eqn:Hi; [|destruct Ht].
      destruct (first_local (ee element_edges nb) (ee element_edges E e)) as [i|] eqn:Hf; [|destruct Ht].
      apply first_local_spec in Hf. destruct Hf as [Hi3 Hee].
      apply in_block in Ht. destruct Ht as [n [A B]].
      apply (same_set_In _ _ n (dual1_edge_rows i Hi3)) in A. apply all_dofs_of_In in A. destruct A as [A1 A2].
      apply (K_edge d E t e nb fn i n); try assumption; try lia.
    - unfold vertex_part in Ht. apply in_flat_map in Ht. destruct Ht as [v [Hv Ht]]. apply in_seq in Hv.
      apply in_flat_map in Ht. destruct Ht as [nb [Hnb Ht]]. fold SF in Ht.
      destruct (index_of nb SF) as [fn|] eqn:Hi; [|destruct Ht].
      destruct (first_local (el elements nb) (el elements E v)) as [i|] eqn:Hf; [|destruct Ht].
      apply first_local_spec in Hf. destruct Hf as [Hi3 Hee].
      apply in_block in Ht. destruct Ht as [n [A B]].
      apply (same_set_In _ _ n (dual1_vertex_rows i Hi3)) in A. apply all_dofs_of_In in A. destruct A as [A1 A2].
      apply (K_vertex d E t v nb fn i n); try assumption; try lia.
  Qed.
End Dual1Sound.
