(* Correspondence predicates for the dual-space hand model. No proofs. *)
From Coq Require Import QArith Qabs List Arith Bool.
From BV Require Import Bary.Syms Bary.DualModel.
From BVgen Require Import BaryTables.
Import ListNotations.
Open Scope Q_scope.

Record dual_case := {
  dc_truncate : bool; dc_elements : list (list nat); dc_element_edges : list (list nat);
  dc_edge_neighbors : list (list nat); dc_vertex_neighbors : list (list nat);
  dc_p1_support : list nat; dc_p1_g2l : list (list (nat * nat)); dc_dp0_support : list nat;
  dc_dual0 : option (list triple); dc_dual1 : option (list triple);      (* implementation: summed, sorted, non-zero *)
  dc_dual0_shape : nat * nat; dc_dual1_shape : nat * nat;
  dc_dual0_support : list nat; dc_dual1_support : list nat }.     (* support_elements of the two barycentric spaces *)

Definition children (l : list nat) : list nat := flat_map (fun e => map (fun j => (6 * e + j)%nat) (seq 0 6)) l.
Definition list_eqb (a b : list nat) : bool := Nat.eqb (length a) (length b) && forallb (fun xy => Nat.eqb (fst xy) (snd xy)) (combine a b).

(* model triples (with duplicates) against the implementation's summed non-zero entries *)
(* 1/n is rounded once by the implementation (and sums of at most two terms): relative tolerance 2^-50 *)
Definition qnear (a b : Q) : bool := Qle_bool (Qabs (a - b)) ((1 # 1125899906842624) * (Qabs a + Qabs b)).
Definition same_column (model impl : list triple) : bool :=
  forallb (fun t => let '(r, c, v) := t in qnear (sum_at model r c) v) impl &&
  forallb (fun t => let '(r, c, _) := t in
                    Qeq_bool (sum_at model r c) 0 || existsb (fun u => Nat.eqb (fst (fst u)) r && Nat.eqb (snd (fst u)) c) impl)
          model.

Definition col_of (c : nat) (l : list triple) : list triple := filter (fun t => Nat.eqb (snd (fst t)) c) l.
Definition same_matrix (ncols : nat) (model impl : list triple) : bool :=
  forallb (fun c => same_column (col_of c model) (col_of c impl)) (seq 0 ncols) &&
  forallb (fun t => Nat.ltb (snd (fst t)) ncols) model && forallb (fun t => Nat.ltb (snd (fst t)) ncols) impl.

(* an exception of the implementation (no matrix) corresponds to None of the model *)
Definition dual0_case_ok (c : dual_case) : bool :=
  match dual0_entries (dc_truncate c) (dc_p1_support c) (dc_p1_g2l c), dc_dual0 c with
  | None, None => true
  | Some m, Some i => same_matrix (length (dc_p1_g2l c)) m i &&
                      Nat.eqb (fst (dc_dual0_shape c)) (6 * length (dc_p1_support c)) &&
                      Nat.eqb (snd (dc_dual0_shape c)) (length (dc_p1_g2l c)) &&
                      list_eqb (dc_dual0_support c) (children (dc_p1_support c))
  | _, _ => false
  end.

Definition dual1_case_ok (c : dual_case) : bool :=
  match dc_dual1 c with
  | None => true        (* not constructed for this option set (the harness reports exceptions as failures) *)
  | Some i =>
    same_matrix (length (dc_dp0_support c)) (dual1_entries (dc_truncate c) (dc_elements c) (dc_element_edges c) (dc_edge_neighbors c)
                               (dc_vertex_neighbors c) (dc_dp0_support c)) i &&
    Nat.eqb (fst (dc_dual1_shape c))
            (18 * length (support_final (dc_truncate c) (dc_elements c) (dc_element_edges c) (dc_edge_neighbors c)
                                        (dc_vertex_neighbors c) (dc_dp0_support c))) &&
    Nat.eqb (snd (dc_dual1_shape c)) (length (dc_dp0_support c)) &&
    list_eqb (dc_dual1_support c)
             (children (support_final (dc_truncate c) (dc_elements c) (dc_element_edges c) (dc_edge_neighbors c)
                                      (dc_vertex_neighbors c) (dc_dp0_support c)))
  end.
