(* C10 -- hand model (tie H) of the coefficient construction of dual0_function_space / dual1_function_space
   (bempp_cl/api/space/scalar_dual_spaces.py).  The literal index lists are the generated ones (BVgen.BaryTables);
   the loops are written here and tied to the implementation by the correspondence check (Bary/DualCorr.v).
   Definitions only. *)
From Coq Require Import QArith List Arith Bool.
From BV Require Import Bary.Syms.
From BVgen Require Import BaryTables.
Import ListNotations.
Open Scope Q_scope.

Definition triple := (nat * nat * Q)%type.          (* (bary dof, coarse dof, value) as passed to coo_matrix *)

Fixpoint index_of (x : nat) (l : list nat) : option nat :=
  match l with
  | [] => None
  | y :: t => if Nat.eqb x y then Some 0%nat else option_map S (index_of x t)
  end.
Definition mem (x : nat) (l : list nat) : bool := existsb (Nat.eqb x) l.

(* ---------------- DUAL0 ----------------
   inputs: the coarse P1 space (support_elements, global2local as lists of (face, local vertex)) and the flag.
   `support` in the source is the boolean array over the BARYCENTRIC grid; the source indexes it with the coarse face. *)
Definition bary_support (p1_support : list nat) (b : nat) : bool := mem (b / 6) p1_support.

Definition dual0_face_entries (truncate : bool) (p1_support : list nat) (d : nat) (fv : nat * nat)
  : option (list triple) :=
  let '(face, vertex) := fv in
  if (if dual0_guard_uses_coarse_support then mem face p1_support else bary_support p1_support face) || negb truncate then
    match index_of face p1_support with
    | Some face_n => Some (map (fun s => ((6 * face_n + s)%nat, d, 1)) (nth vertex dual0_subtris []))
    | None => None                                        (* KeyError in support_numbers[face] *)
    end
  else Some [].

Fixpoint concat_opt {A} (l : list (option (list A))) : option (list A) :=
  match l with
  | [] => Some []
  | None :: _ => None
  | Some x :: t => option_map (app x) (concat_opt t)
  end.

Definition dual0_entries (truncate : bool) (p1_support : list nat) (g2l : list (list (nat * nat)))
  : option (list triple) :=
  concat_opt (map (fun dl => concat_opt (map (dual0_face_entries truncate p1_support (fst dl)) (snd dl)))
                  (combine (seq 0 (length g2l)) g2l)).

(* ---------------- DUAL1 ---------------- *)
Section Dual1.
  Variable truncate : bool.
  Variable elements : list (list nat).           (* elements[e] = its three vertices *)
  Variable element_edges : list (list nat).      (* element_edges[e] = its three edges *)
  Variable edge_neighbors : list (list nat).
  Variable vertex_neighbors : list (list nat).
  Variable dp0_support : list nat.               (* support elements of the coarse DP0 space = its dofs *)

  Definition el (e v : nat) : nat := nth v (nth e elements []) 0%nat.
  Definition ee (e i : nat) : nat := nth i (nth e element_edges []) 0%nat.

  (* first pass: support extension *)
  Definition touched (E : nat) : list nat :=
    flat_map (fun e => nth (ee E e) edge_neighbors []) (seq 0 3) ++
    flat_map (fun v => nth (el E v) vertex_neighbors []) (seq 0 3).
  Definition support_final : list nat :=
    filter (fun e => mem e dp0_support || (negb truncate && mem e (flat_map touched dp0_support)))
           (seq 0 (length elements)).

  Definition first_local (f : nat -> nat) (x : nat) : option nat :=
    if Nat.eqb (f 0%nat) x then Some 0%nat else if Nat.eqb (f 1%nat) x then Some 1%nat
    else if Nat.eqb (f 2%nat) x then Some 2%nat else None.

  Definition block (d face_n : nat) (dofs : list nat) (val : Q) : list triple :=
    map (fun n => ((6 * 3 * face_n + n)%nat, d, val)) dofs.

  Definition centre_part (d E : nat) : list triple :=
    match index_of E support_final with
    | Some fn => block d fn dual1_centre_dofs 1
    | None => []
    end.
  Definition edge_part (d E : nat) : list triple :=
    flat_map (fun e =>
      let edge := ee E e in
      flat_map (fun nb =>
        match index_of nb support_final with
        | Some fn => match first_local (ee nb) edge with
                     | Some i => block d fn (nth i dual1_edge_dofs []) (1 # 2)
                     | None => []
                     end
        | None => []
        end) (nth edge edge_neighbors [])) (seq 0 3).
  Definition vertex_part (d E : nat) : list triple :=
    flat_map (fun v =>
      let vertex := el E v in
      let nbs := nth vertex vertex_neighbors [] in
      flat_map (fun nb =>
        match index_of nb support_final with
        | Some fn => match first_local (el nb) vertex with
                     | Some i => block d fn (nth i dual1_vertex_dofs []) (1 / inject_Z (Z.of_nat (length nbs)))
                     | None => []
                     end
        | None => []
        end) nbs) (seq 0 3).

  Definition dual1_entries : list triple :=
    flat_map (fun dE => centre_part (fst dE) (snd dE) ++ edge_part (fst dE) (snd dE) ++ vertex_part (fst dE) (snd dE))
             (combine (seq 0 (length dp0_support)) dp0_support).
End Dual1.

(* coo_matrix(...).tocsr() sums duplicates *)
Definition sum_at (l : list triple) (r c : nat) : Q :=
  fold_right (fun t acc => let '(r', c', v) := t in if Nat.eqb r r' && Nat.eqb c c' then v + acc else acc) 0 l.
