(* C10 -- per barycentric element, the triangle rule the sparse assembler uses integrates the product of two shape
   functions exactly (to 1e-14 on the exact values of the shipped doubles): the local mass matrices of the
   P1 x P1, P1 x P0 and P0 x P0 pairs on the reference triangle are 1/12 (diagonal), 1/24, 1/6 and 1/2.
   The rule is C12's model of triangle_gauss.rule over the regenerated tables. *)
From Coq Require Import QArith Qabs ZArith List Arith Bool Lia.
From BVgen Require Import TriTables.
From BV Require Import Quad.Rules Quad.Exactness Bary.Syms Bary.Model.
Import ListNotations.
Open Scope Q_scope.

Definition tri_den : positive := Z.to_pos (2 ^ tri_scale).
Definition tri_ruleQ (order : Z) : option (list (Q * Q * Q)) :=
  match tri_rule order with
  | None => None
  | Some r => Some (map (fun p => let '(x, y, w) := p in (x # tri_den, y # tri_den, w # (2 * tri_den))) r)
  end.
Definition quad (r : list (Q * Q * Q)) (f : pt -> Q) : Q :=
  fold_right (fun p acc => let '(x, y, w) := p in Qred (w * f (x, y) + acc)) 0 r.

Definition mass_exact (a b : nat) : Q := if Nat.eqb a b then 1 # 12 else 1 # 24.
Definition tol : Q := 1 # 100000000000000.
Definition near (a b : Q) : bool := Qle_bool (Qabs (a - b)) tol.

Definition local_mass_ok (order : Z) : bool :=
  match tri_ruleQ order with
  | None => false
  | Some r =>
    forallb (fun ab => near (quad r (fun p => p1_shape (fst ab) p * p1_shape (snd ab) p)) (mass_exact (fst ab) (snd ab)))
            (idx2 3 3) &&
    forallb (fun a => near (quad r (fun p => p1_shape a p)) (1 # 6)) (seq 0 3) &&
    near (quad r (fun _ => 1)) (1 # 2)
  end.

Definition orders_2_20 : list Z := map Z.of_nat (seq 2 19).

Lemma local_mass_sweep : forallb local_mass_ok orders_2_20 = true.
Proof. vm_compute. reflexivity. Qed.

Lemma local_mass_exact order :
  (2 <= order <= 20)%Z ->
  exists r, tri_ruleQ order = Some r /\
    (forall a b, (a < 3)%nat -> (b < 3)%nat ->
       near (quad r (fun p => p1_shape a p * p1_shape b p)) (mass_exact a b) = true) /\
    (forall a, (a < 3)%nat -> near (quad r (fun p => p1_shape a p)) (1 # 6) = true) /\
    near (quad r (fun _ => 1)) (1 # 2) = true.
Proof.
  intros Ho.
  assert (Hin : In order orders_2_20).
  { unfold orders_2_20. apply in_map_iff. exists (Z.to_nat order). split; [lia|]. apply in_seq. lia. }
  pose proof (proj1 (forallb_forall _ _) local_mass_sweep order Hin) as S.
  unfold local_mass_ok in S. destruct (tri_ruleQ order) as [r|]; [|discriminate].
  exists r. split; [reflexivity|].
  apply andb_true_iff in S. destruct S as [S S3]. apply andb_true_iff in S. destruct S as [S1 S2].
  split; [|split; [|assumption]].
  - intros a b Ha Hb. refine (proj1 (forallb_forall _ _) S1 (a, b) _). apply in_prod; apply in_seq; lia.
  - intros a Ha. refine (proj1 (forallb_forall _ _) S2 a _). apply in_seq; lia.
Qed.

(* every monomial of degree <= 2 (hence every product of two affine vector fields, component by component: the
   RWG/SNC/BC/RBC pairs) is integrated to 1e-14 by the same rules: C12's complete sweep *)
Lemma monomials_deg2 order :
  (2 <= order <= 20)%Z -> forall a b, (a + b <= 2)%nat -> exists r, tri_rule order = Some r /\ tri_ok r a b = true.
Proof.
  intros Ho a b Hab. destruct (tri_exact order a b) as [r [H1 [_ H3]]]; [lia|lia|].
  exists r. split; assumption.
Qed.
