(* Comparison functions of the C10 correspondence check.  The harness writes what the implementation produced (exact
   rationals of its doubles) into a cases file; these functions diff it against the model and only the indices of
   the failing cases are printed.  No proofs here. *)
From Coq Require Import QArith Qabs List Arith Bool.
From BV Require Import Bary.Syms Bary.Model.
From BVgen Require Import BaryTables.
Import ListNotations.
Open Scope Q_scope.

Definition qclose (tol a b : Q) : bool := Qle_bool (Qabs (a - b)) tol.
Definition qclose_rel (tol a b : Q) : bool := Qle_bool (Qabs (a - b)) (tol * (Qabs a + Qabs b)).

Definition failing {A} (ok : A -> bool) (l : list A) : list nat :=
  map fst (filter (fun ic => negb (ok (snd ic))) (combine (seq 0 (length l)) l)).

Definition qvec := (Q * Q * Q)%type.
Definition qx (u : qvec) := fst (fst u).  Definition qy (u : qvec) := snd (fst u).  Definition qz (u : qvec) := snd u.
Definition qaff (P0 P1 P2 : qvec) (r : pt) : qvec :=
  (qx P0 + fst r * (qx P1 - qx P0) + snd r * (qx P2 - qx P0),
   qy P0 + fst r * (qy P1 - qy P0) + snd r * (qy P2 - qy P0),
   qz P0 + fst r * (qz P1 - qz P0) + snd r * (qz P2 - qz P0)).
Definition vclose (tol : Q) (u w : qvec) : bool :=
  qclose tol (qx u) (qx w) && qclose tol (qy u) (qy w) && qclose tol (qz u) (qz w).

(* ---- barycentric grid of one coarse element ---- *)
Record geom_case := { gc_P : list qvec; gc_B : list (list qvec); gc_ids : list (list nat); gc_coarse : list nat }.

Definition sym_ids (ids : list (list nat)) : list (bsym * nat) :=
  map (fun jv => (sub_sym (fst jv) (snd jv), nth (snd jv) (nth (fst jv) ids []) 0%nat)) (idx2 6 3).
(* equal symbols <-> equal vertex ids (midpoints and the centroid are shared between the six children) *)
Definition ids_consistent (ids : list (list nat)) : bool :=
  let l := sym_ids ids in
  forallb (fun a => forallb (fun b => Bool.eqb (bsym_eqb (fst a) (fst b)) (Nat.eqb (snd a) (snd b))) l) l.
Definition corner_ids_ok (c : geom_case) : bool :=
  forallb (fun si => match fst si with BCorner k => Nat.eqb (snd si) (nth k (gc_coarse c) 0%nat) | _ => true end)
          (sym_ids (gc_ids c)).

Definition geom_case_ok (c : geom_case) : bool :=
  match gc_P c with
  | [P0; P1; P2] =>
    Nat.eqb (length (gc_B c)) 6 && forallb (fun r => Nat.eqb (length r) 3) (gc_B c) &&
    forallb (fun jv => vclose (1 # 10000000000000) (qaff P0 P1 P2 (sub_vertex (fst jv) (snd jv)))
                              (nth (snd jv) (nth (fst jv) (gc_B c) []) (0, 0, 0))) (idx2 6 3) &&
    ids_consistent (gc_ids c) && corner_ids_ok c
  | _ => false
  end.

(* ---- entries of the transform matrix of one coarse element ---- *)
(* tc_kind: 0 DP0, 1 P1, 2 RWG, 3 SNC;  tc_vals: per coarse local dof the 6*nb values (None: multiplier is zero);
   tc_len: the lengths |LV_i - LV_j| the implementation computes from the element (doubles, exact) *)
Record table_case := { tc_kind : nat; tc_vals : list (option (list Q)); tc_len : list (nat * nat * Q) }.

Fixpoint lookup_len (l : list (nat * nat * Q)) (ij : nat * nat) : Q :=
  match l with
  | [] => 0
  | (i, j, v) :: t => if (Nat.eqb i (fst ij) && Nat.eqb j (snd ij)) || (Nat.eqb j (fst ij) && Nat.eqb i (snd ij))
                      then v else lookup_len t ij      (* the norm of a difference is symmetric *)
  end.

(* model of the scaling loop of generate_rwg0_map:  bary_coeffs * outer_edges[local_dof] / dof_mult *)
Definition rwg_model_entry (coeffs : list (list (list Q))) (len : nat * nat -> Q) (a j k : nat) : Q :=
  nth3 coeffs a j k * len (nth a rwg_outer_edges (0, 0)%nat) / len (nth k (nth j rwg_dof_mult []) (0, 0)%nat).

Definition model_entry (c : table_case) (a n : nat) : Q :=
  match tc_kind c with
  | 0%nat => nth n (dp0_values 1) 0
  | 1%nat => p1_entry a (n / 3) (n mod 3)
  | 2%nat => rwg_model_entry rwg_coeffs (lookup_len (tc_len c)) a (n / 3) (n mod 3)
  | _ => rwg_model_entry snc_coeffs (lookup_len (tc_len c)) a (n / 3) (n mod 3)
  end.

Definition table_case_ok (c : table_case) : bool :=
  let nd := match tc_kind c with 0%nat => 1%nat | _ => 3%nat end in
  let nrow := match tc_kind c with 0%nat => 6%nat | _ => 18%nat end in
  Nat.eqb (length (tc_vals c)) nd &&
  forallb (fun a => match nth a (tc_vals c) None with
                    | None => true
                    | Some vs => Nat.eqb (length vs) nrow &&
                                 forallb (fun n => let m := model_entry c a n in let v := nth n vs 0 in
                                                   qclose_rel (1 # 1000000000000) m v) (seq 0 nrow)
                    end) (seq 0 nd).
