(* C10 finding -- dual0_function_space of the UNCHANGED tree tests the barycentric support array with a coarse face
   index: with truncate_at_segment_edge=True the two entries of a (face, vertex) pair are dropped whenever coarse
   element face/6 is outside the segment.  Stops compiling once repaired (docs/fixes/c10_dual0_support_index.diff):
   delete it and switch props/C10.v as in docs/fixes/c10_verif_after_dual0_fix.diff. *)
From Coq Require Import QArith List Arith Bool Lia.
From BV Require Import Bary.Syms Bary.DualModel.
From BVgen Require Import BaryTables.
Import ListNotations.

(* segment = coarse elements {5, 6}; the dof of local vertex 0 of face 5: nothing is written *)
Lemma dual0_truncate_refuted :
  dual0_guard_uses_coarse_support = false /\
  exists (sup : list nat) (g2l : list (list (nat * nat))),
    (forall dl f v, In dl g2l -> In (f, v) dl -> mem f sup = true) /\ g2l = [[(5, 0)%nat]] /\
    dual0_entries true sup g2l = Some [].
Proof.
  split; [reflexivity|]. exists [5; 6]%nat, [[(5, 0)%nat]]. split; [|split; [reflexivity|vm_compute; reflexivity]].
  intros dl f v [E|[]]; subst dl; intros [E2|[]]; inversion E2; subst; reflexivity.
Qed.
