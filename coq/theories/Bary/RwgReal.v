(* C10 -- for EVERY non-degenerate triangle in R^3 and every point: the RWG (and SNC) coefficient table, scaled by the
   length ratios generate_rwg0_map computes with Euclidean norms, reproduces each coarse RWG function on each of the
   six barycentric children.  The table enters only through the reference-level sweep rwg_entry_ok (Bary/Tables.v).

   Model of the implementation (hand-written from _numba_rwg0_evaluate / _numba_snc0_evaluate / generate_rwg0_map;
   edge conventions, shape-function origins, local coordinates and length index pairs are the generated ones). *)
From Coq Require Import Reals QArith Qreals Qabs List Arith Bool Lia Lra.
From BV Require Import Bary.Syms Bary.Model Bary.RwgModel Bary.Tables.
From BVgen Require Import BaryTables.
Import ListNotations.
Open Scope R_scope.

Definition V3 := (R * R * R)%type.
Definition rx (u : V3) := fst (fst u).  Definition ry (u : V3) := snd (fst u).  Definition rz (u : V3) := snd u.
Definition radd (u w : V3) : V3 := (rx u + rx w, ry u + ry w, rz u + rz w).
Definition rsub (u w : V3) : V3 := (rx u - rx w, ry u - ry w, rz u - rz w).
Definition rscale (c : R) (u : V3) : V3 := (c * rx u, c * ry u, c * rz u).
Definition rcross (u w : V3) : V3 :=
  (ry u * rz w - rz u * ry w, rz u * rx w - rx u * rz w, rx u * ry w - ry u * rx w).
Definition nrm (u : V3) : R := sqrt (rx u * rx u + ry u * ry u + rz u * rz u).

Definition R2 := (R * R)%type.
Definition q2 (p : pt) : R2 := (Q2R (fst p), Q2R (snd p)).

(* a triangle: its three corners *)
Definition tri := nat -> V3.
Definition mk_tri (P0 P1 P2 : V3) : tri := fun k => match k with 0%nat => P0 | 1%nat => P1 | _ => P2 end.
Definition jacapp (T : tri) (d : R2) : V3 :=
  radd (rscale (fst d) (rsub (T 1%nat) (T 0%nat))) (rscale (snd d) (rsub (T 2%nat) (T 0%nat))).
Definition l2g (T : tri) (p : R2) : V3 := radd (T 0%nat) (jacapp T p).              (* grid_data.local2global *)
Definition intel (T : tri) : R := nrm (rcross (rsub (T 1%nat) (T 0%nat)) (rsub (T 2%nat) (T 0%nat))).
Definition edge_len (T : tri) (k : nat) : R :=
  let '(a, b) := nth k rwg_eval_edges (0, 0)%nat in nrm (rsub (T a) (T b)).
(* _numba_rwg0_evaluate with local multiplier 1:  edge_length / integration_element * jacobian . psi_k(local point) *)
Definition rwg_eval (T : tri) (k : nat) (st : R2) : V3 :=
  rscale (edge_len T k / intel T)
         (jacapp T (fst st - Q2R (fst (origin k)), snd st - Q2R (snd (origin k)))).
(* _numba_snc0_evaluate: normal x (the RWG value); the normal of a child is the normal of its parent *)
Definition normal (T : tri) : V3 :=
  rscale (/ intel T) (rcross (rsub (T 1%nat) (T 0%nat)) (rsub (T 2%nat) (T 0%nat))).
Definition snc_eval (T : tri) (k : nat) (st : R2) : V3 := rcross (normal T) (rwg_eval T k st).

(* child j of T: corners at the local coordinates sub_vertex j v *)
Definition child (T : tri) (j : nat) : tri := fun v => l2g T (q2 (sub_vertex j v)).
(* local coordinates in the parent of the point with local coordinates st in child j *)
Definition sub_mapR (j : nat) (st : R2) : R2 :=
  (Q2R (fst (sub_vertex j 0)) + fst st * (Q2R (fst (sub_vertex j 1)) - Q2R (fst (sub_vertex j 0)))
                               + snd st * (Q2R (fst (sub_vertex j 2)) - Q2R (fst (sub_vertex j 0))),
   Q2R (snd (sub_vertex j 0)) + fst st * (Q2R (snd (sub_vertex j 1)) - Q2R (snd (sub_vertex j 0)))
                               + snd st * (Q2R (snd (sub_vertex j 2)) - Q2R (snd (sub_vertex j 0)))).

(* generate_rwg0_map: lengths between the seven local vertices and the scaled table entry *)
Definition lenR (T : tri) (ij : nat * nat) : R := nrm (rsub (l2g T (q2 (lc (fst ij)))) (l2g T (q2 (lc (snd ij))))).
Definition rwg_T (coeffs : list (list (list Q))) (T : tri) (a j k : nat) : R :=
  Q2R (nth3 coeffs a j k) * lenR T (outer_pair a) / lenR T (dm_pair j k).

(* ------------------------------------------------------------------------------------------------------- *)
Lemma v3_ext (u w : V3) : rx u = rx w -> ry u = ry w -> rz u = rz w -> u = w.
Proof. destruct u as [[a b] c], w as [[a' b'] c']. unfold rx, ry, rz; simpl. intros -> -> ->. reflexivity. Qed.

Ltac vunfold := unfold l2g, jacapp, radd, rsub, rscale, rcross, rx, ry, rz in *; cbn [fst snd] in *.
Ltac vring := apply v3_ext; vunfold; ring.

Lemma nrm_nonneg u : 0 <= nrm u.
Proof. apply sqrt_pos. Qed.

Lemma nrm_scale t u : nrm (rscale t u) = Rabs t * nrm u.
Proof.
  unfold nrm, rscale, rx, ry, rz. cbn [fst snd].
  replace (t * fst (fst u) * (t * fst (fst u)) + t * snd (fst u) * (t * snd (fst u)) + t * snd u * (t * snd u))
    with (Rsqr t * (fst (fst u) * fst (fst u) + snd (fst u) * snd (fst u) + snd u * snd u)) by (unfold Rsqr; ring).
  rewrite sqrt_mult; [rewrite sqrt_Rsqr_abs; reflexivity|apply Rle_0_sqr|].
  assert (H : forall x, 0 <= x * x) by (intro x; apply Rle_0_sqr).
  pose proof (H (fst (fst u))). pose proof (H (snd (fst u))). pose proof (H (snd u)). lra.
Qed.

Lemma nrm_zero u : nrm u = 0 -> u = (0, 0, 0).
Proof.
  unfold nrm. intros H. apply sqrt_eq_0 in H.
  - assert (A : forall x, 0 <= x * x) by (intro x; apply Rle_0_sqr).
    pose proof (A (rx u)). pose proof (A (ry u)). pose proof (A (rz u)).
    assert (rx u * rx u = 0) by lra. assert (ry u * ry u = 0) by lra. assert (rz u * rz u = 0) by lra.
    apply v3_ext; cbn [rx ry rz fst snd]; apply Rsqr_0_uniq; unfold Rsqr; assumption.
  - assert (A : forall x, 0 <= x * x) by (intro x; apply Rle_0_sqr).
    pose proof (A (rx u)). pose proof (A (ry u)). pose proof (A (rz u)). lra.
Qed.

(* the linear part of local2global *)
Lemma l2g_diff T p q : rsub (l2g T p) (l2g T q) = jacapp T (fst p - fst q, snd p - snd q).
Proof. vring. Qed.
Lemma jacapp_scale T c d : jacapp T (c * fst d, c * snd d) = rscale c (jacapp T d).
Proof. vring. Qed.
Lemma cross_jacapp T d e :
  rcross (jacapp T d) (jacapp T e) =
  rscale (fst d * snd e - snd d * fst e) (rcross (rsub (T 1%nat) (T 0%nat)) (rsub (T 2%nat) (T 0%nat))).
Proof. vring. Qed.

Lemma jacapp_nonzero T d : intel T <> 0 -> d <> (0, 0) -> nrm (jacapp T d) <> 0.
Proof.
  intros HJ Hd Hn. apply nrm_zero in Hn.
  pose proof (cross_jacapp T d (- snd d, fst d)) as C. rewrite Hn in C. cbn [fst snd] in C.
  apply HJ. unfold intel.
  set (N := rcross (rsub (T 1%nat) (T 0%nat)) (rsub (T 2%nat) (T 0%nat))) in *.
  assert (Hq : fst d * fst d - snd d * - snd d <> 0).
  { destruct d as [dx dy]. cbn [fst snd]. intro E.
    assert (A : forall x, 0 <= x * x) by (intro x; apply Rle_0_sqr).
    pose proof (A dx). pose proof (A dy).
    assert (dx * dx = 0) by lra. assert (dy * dy = 0) by lra.
    apply Hd. f_equal; apply Rsqr_0_uniq; unfold Rsqr; assumption. }
  assert (HN : N = (0, 0, 0)).
  { assert (E : rcross (0, 0, 0) (jacapp T (- snd d, fst d)) = (0, 0, 0)) by vring.
    rewrite E in C. destruct N as [[n1 n2] n3]. unfold rscale, rx, ry, rz in C. cbn [fst snd] in C.
    inversion C as [[C1 C2 C3]].
    symmetry in C1, C2, C3.
    apply Rmult_integral in C1. apply Rmult_integral in C2. apply Rmult_integral in C3.
    destruct C1 as [C1|C1]; [contradiction|]. destruct C2 as [C2|C2]; [contradiction|]. destruct C3 as [C3|C3]; [contradiction|].
    subst. reflexivity. }
  rewrite HN. unfold nrm, rx, ry, rz. cbn [fst snd]. replace (0 * 0 + 0 * 0 + 0 * 0) with 0 by ring. apply sqrt_0.
Qed.

(* ---- Q -> R transfer ---- *)
Lemma Q2R_abs q : Q2R (Qabs q) = Rabs (Q2R q).
Proof.
  apply Qabs_case; intros H.
  - apply Qle_Rle in H. rewrite RMicromega.Q2R_0 in H. rewrite Rabs_right; [reflexivity|lra].
  - apply Qle_Rle in H. rewrite RMicromega.Q2R_0 in H. rewrite Q2R_opp, Rabs_left1; [reflexivity|assumption].
Qed.

Lemma peq_q2 p q : peq p q -> q2 p = q2 q.
Proof. intros [A B]. unfold q2. rewrite (Qeq_eqR _ _ A), (Qeq_eqR _ _ B). reflexivity. Qed.
Lemma peqb_q2 p q : peqb p q = true -> q2 p = q2 q.
Proof. intros H. apply peq_q2, peqb_peq, H. Qed.

Lemma q2_psub p q : q2 (psub p q) = (fst (q2 p) - fst (q2 q), snd (q2 p) - snd (q2 q)).
Proof. unfold q2, psub. cbn [fst snd]. rewrite !Q2R_minus. reflexivity. Qed.
Lemma q2_pscale c p : q2 (pscale c p) = (Q2R c * fst (q2 p), Q2R c * snd (q2 p)).
Proof. unfold q2, pscale. cbn [fst snd]. rewrite !Q2R_mult. reflexivity. Qed.
Lemma q2_padd p q : q2 (padd p q) = (fst (q2 p) + fst (q2 q), snd (q2 p) + snd (q2 q)).
Proof. unfold q2, padd. cbn [fst snd]. rewrite !Q2R_plus. reflexivity. Qed.

Lemma ratio_spec d s q : ratio d s = Some q -> q2 d = (Q2R q * fst (q2 s), Q2R q * snd (q2 s)) /\ Q2R q <> 0.
Proof.
  unfold ratio.
  set (q0 := if Qeq_bool (fst s) 0 then (snd d / snd s)%Q else (fst d / fst s)%Q).
  destruct (peqb d (pscale q0 s)) eqn:E1; [|discriminate]. cbn [andb].
  destruct (negb (peqb s (0, 0)%Q)) eqn:E2; [|discriminate]. cbn [andb].
  destruct (Qeq_bool q0 0) eqn:E3; [discriminate|]. cbn [negb].
  intros H. inversion H; subst q. split.
  - rewrite (peqb_q2 _ _ E1). apply q2_pscale.
  - apply RMicromega.Qeq_false in E3. rewrite RMicromega.Q2R_0 in E3. assumption.
Qed.

Lemma sub_mapR_q2 j p : q2 (sub_map j p) = sub_mapR j (q2 p).
Proof.
  unfold sub_map, sub_mapR. rewrite q2_padd, q2_padd, !q2_pscale, !q2_psub. unfold q2. cbn [fst snd].
  f_equal; ring.
Qed.

Lemma sub_det_R j :
  Q2R (sub_det j) =
  (Q2R (fst (sub_vertex j 1)) - Q2R (fst (sub_vertex j 0))) * (Q2R (snd (sub_vertex j 2)) - Q2R (snd (sub_vertex j 0))) -
  (Q2R (snd (sub_vertex j 1)) - Q2R (snd (sub_vertex j 0))) * (Q2R (fst (sub_vertex j 2)) - Q2R (fst (sub_vertex j 0))).
Proof. unfold sub_det, det2, psub. cbn [fst snd]. rewrite Q2R_minus, !Q2R_mult, !Q2R_minus. reflexivity. Qed.

(* ---- geometry of a child ---- *)
Lemma child_jacapp T j d :
  jacapp (child T j) d =
  jacapp T (fst d * (Q2R (fst (sub_vertex j 1)) - Q2R (fst (sub_vertex j 0))) + snd d * (Q2R (fst (sub_vertex j 2)) - Q2R (fst (sub_vertex j 0))),
            fst d * (Q2R (snd (sub_vertex j 1)) - Q2R (snd (sub_vertex j 0))) + snd d * (Q2R (snd (sub_vertex j 2)) - Q2R (snd (sub_vertex j 0)))).
Proof. unfold child, q2. vring. Qed.

Lemma child_intel T j : (0 < sub_det j)%Q -> intel (child T j) = Q2R (sub_det j) * intel T.
Proof.
  intros Hpos. unfold intel at 1.
  replace (rsub (child T j 1%nat) (child T j 0%nat)) with (jacapp (child T j) (1, 0)) by vring.
  replace (rsub (child T j 2%nat) (child T j 0%nat)) with (jacapp (child T j) (0, 1)) by vring.
  rewrite !child_jacapp, cross_jacapp. cbn [fst snd]. rewrite nrm_scale. unfold intel.
  apply Qlt_Rlt in Hpos. rewrite RMicromega.Q2R_0 in Hpos.
  rewrite sub_det_R in *. rewrite Rabs_right; [f_equal; ring|].
  apply Rle_ge. left. eapply Rlt_le_trans; [apply Hpos|]. right. ring.
Qed.

Lemma child_l2g T j p : l2g (child T j) p = l2g T (sub_mapR j p).
Proof. unfold child, sub_mapR, q2. vring. Qed.

Lemma mk_tri_corner P0 P1 P2 k : (k < 3)%nat -> l2g (mk_tri P0 P1 P2) (q2 (ref_corner k)) = mk_tri P0 P1 P2 k.
Proof.
  intros Hk. destruct k as [|[|[|k]]]; try lia; unfold q2, ref_corner, mk_tri; cbn [fst snd];
    rewrite ?RMicromega.Q2R_0, ?RMicromega.Q2R_1; vring.
Qed.

(* edge k of a triangle whose corners are the images of reference points r *)
Lemma edge_len_image T (r : nat -> pt) (U : tri) k :
  (forall v, U v = l2g T (q2 (r v))) ->
  edge_len U k = nrm (jacapp T (q2 (eval_edge_vec r k))).
Proof.
  intros HU. unfold edge_len, eval_edge_vec. destruct (nth k rwg_eval_edges (0, 0)%nat) as [a b].
  rewrite !HU, l2g_diff, q2_psub. reflexivity.
Qed.

Lemma lenR_jacapp T ij : lenR T ij = nrm (jacapp T (q2 (len_vec ij))).
Proof. unfold lenR, len_vec. rewrite l2g_diff, q2_psub. reflexivity. Qed.

Lemma len_ratio T d s q :
  ratio d s = Some q -> nrm (jacapp T (q2 d)) = Rabs (Q2R q) * nrm (jacapp T (q2 s)).
Proof.
  intros H. destruct (ratio_spec _ _ _ H) as [E _]. rewrite E, jacapp_scale. apply nrm_scale.
Qed.

Lemma ratio_nonzero d s q : ratio d s = Some q -> q2 s <> (0, 0).
Proof.
  unfold ratio. intros H.
  destruct (peqb d (pscale _ s)); [|discriminate]. cbn [andb] in H.
  destruct (peqb s (0, 0)%Q) eqn:E; [discriminate|]. clear H.
  intro Hs. unfold peqb in E. apply andb_false_iff in E. unfold q2 in Hs.
  assert (H1 : Q2R (fst s) = Q2R 0) by (rewrite RMicromega.Q2R_0; exact (f_equal fst Hs)).
  assert (H2 : Q2R (snd s) = Q2R 0) by (rewrite RMicromega.Q2R_0; exact (f_equal snd Hs)).
  destruct E as [E|E]; apply RMicromega.Qeq_false in E; apply E; cbn [fst snd]; assumption.
Qed.

(* ---- the algebraic core (no norms, no rationals) ---- *)
Lemma core_alg (La J dl l0 l1 l2 c0 c1 c2 t m0 m1 m2 : R) (U0 U1 U2 : V3) :
  J <> 0 -> dl <> 0 -> l0 <> 0 -> l1 <> 0 -> l2 <> 0 -> m0 <> 0 -> m1 <> 0 -> m2 <> 0 ->
  radd (rscale (c0 * (t * La) / (m0 * l0)) (rscale (l0 / (dl * J)) U0))
       (radd (rscale (c1 * (t * La) / (m1 * l1)) (rscale (l1 / (dl * J)) U1))
             (rscale (c2 * (t * La) / (m2 * l2)) (rscale (l2 / (dl * J)) U2))) =
  rscale (La / J) (radd (rscale (c0 * t / (m0 * dl)) U0)
                        (radd (rscale (c1 * t / (m1 * dl)) U1) (rscale (c2 * t / (m2 * dl)) U2))).
Proof. intros. apply v3_ext; vunfold; field; repeat split; assumption. Qed.

Lemma core_lin T (X o r0 r1 r2 : R2) (w0 w1 w2 : R) :
  w0 + w1 + w2 = 1 ->
  w0 * fst r0 + w1 * fst r1 + w2 * fst r2 = fst o ->
  w0 * snd r0 + w1 * snd r1 + w2 * snd r2 = snd o ->
  radd (rscale w0 (jacapp T (fst X - fst r0, snd X - snd r0)))
       (radd (rscale w1 (jacapp T (fst X - fst r1, snd X - snd r1)))
             (rscale w2 (jacapp T (fst X - fst r2, snd X - snd r2)))) =
  jacapp T (fst X - fst o, snd X - snd o).
Proof.
  intros Hs Hx Hy. rewrite <- Hx, <- Hy.
  replace (fst X) with ((w0 + w1 + w2) * fst X) at 4 by (rewrite Hs; ring).
  replace (snd X) with ((w0 + w1 + w2) * snd X) at 4 by (rewrite Hs; ring).
  vring.
Qed.

Lemma mk_tri_image P0 P1 P2 v : mk_tri P0 P1 P2 v = l2g (mk_tri P0 P1 P2) (q2 (ref_corner v)).
Proof.
  destruct v as [|[|v]]; unfold q2, ref_corner, mk_tri; cbn [fst snd];
    rewrite ?RMicromega.Q2R_0, ?RMicromega.Q2R_1; vring.
Qed.

Lemma Qabs_nonzero q : Q2R q <> 0 -> ~ (Qabs q == 0)%Q.
Proof.
  intros H E. apply Qeq_eqR in E. rewrite Q2R_abs, RMicromega.Q2R_0 in E.
  apply H. destruct (Req_dec (Q2R q) 0) as [Z|Z]; [assumption|]. apply Rabs_no_R0 in Z. contradiction.
Qed.

Section Main.
  Variable coeffs : list (list (list Q)).
  Hypothesis sweep : forall a j, (a < 3)%nat -> (j < 6)%nat -> rwg_entry_ok coeffs (a, j) = true.

  Theorem rwg_table_pointwise (P0 P1 P2 : V3) :
    intel (mk_tri P0 P1 P2) <> 0 ->
    forall a j, (a < 3)%nat -> (j < 6)%nat -> forall st : R2,
      rwg_eval (mk_tri P0 P1 P2) a (sub_mapR j st) =
      radd (rscale (rwg_T coeffs (mk_tri P0 P1 P2) a j 0) (rwg_eval (child (mk_tri P0 P1 P2) j) 0 st))
           (radd (rscale (rwg_T coeffs (mk_tri P0 P1 P2) a j 1) (rwg_eval (child (mk_tri P0 P1 P2) j) 1 st))
                 (rscale (rwg_T coeffs (mk_tri P0 P1 P2) a j 2) (rwg_eval (child (mk_tri P0 P1 P2) j) 2 st))).
  Proof.
    set (T := mk_tri P0 P1 P2). intros HJ a j Ha Hj st.
    pose proof (sweep a j Ha Hj) as S. unfold rwg_entry_ok, weight in S.
    destruct (rho j 0) as [r0|] eqn:R0; [|discriminate].
    destruct (tau a) as [t|] eqn:TA; [|discriminate].
    destruct (rho j 1) as [r1|] eqn:R1; [|discriminate].
    destruct (rho j 2) as [r2|] eqn:R2; [|discriminate].
    apply andb_true_iff in S. destruct S as [S S3]. apply andb_true_iff in S. destruct S as [S1 S2].
    (* positivity of the determinant *)
    assert (Hdet : (0 < sub_det j)%Q).
    { apply Qle_bool_iff in S3. eapply Qlt_le_trans; [|apply S3]. reflexivity. }
    assert (HdR : 0 < Q2R (sub_det j)) by (apply Qlt_Rlt in Hdet; rewrite RMicromega.Q2R_0 in Hdet; exact Hdet).
    (* lengths *)
    unfold rho in R0, R1, R2. unfold tau in TA.
    assert (Hchild : forall v, child T j v = l2g T (q2 (sub_vertex j v))) by reflexivity.
    pose proof (edge_len_image T (sub_vertex j) (child T j) 0 Hchild) as L0.
    pose proof (edge_len_image T (sub_vertex j) (child T j) 1 Hchild) as L1.
    pose proof (edge_len_image T (sub_vertex j) (child T j) 2 Hchild) as L2.
    pose proof (edge_len_image T ref_corner T a (mk_tri_image P0 P1 P2)) as LA.
    assert (N0 : edge_len (child T j) 0 <> 0) by (rewrite L0; apply jacapp_nonzero; [exact HJ|exact (ratio_nonzero _ _ _ R0)]).
    assert (N1 : edge_len (child T j) 1 <> 0) by (rewrite L1; apply jacapp_nonzero; [exact HJ|exact (ratio_nonzero _ _ _ R1)]).
    assert (N2 : edge_len (child T j) 2 <> 0) by (rewrite L2; apply jacapp_nonzero; [exact HJ|exact (ratio_nonzero _ _ _ R2)]).
    assert (D0 : lenR T (dm_pair j 0) = Rabs (Q2R r0) * edge_len (child T j) 0)
      by (rewrite lenR_jacapp, L0; exact (len_ratio T _ _ _ R0)).
    assert (D1 : lenR T (dm_pair j 1) = Rabs (Q2R r1) * edge_len (child T j) 1)
      by (rewrite lenR_jacapp, L1; exact (len_ratio T _ _ _ R1)).
    assert (D2 : lenR T (dm_pair j 2) = Rabs (Q2R r2) * edge_len (child T j) 2)
      by (rewrite lenR_jacapp, L2; exact (len_ratio T _ _ _ R2)).
    assert (DA : lenR T (outer_pair a) = Rabs (Q2R t) * edge_len T a)
      by (rewrite lenR_jacapp, LA; exact (len_ratio T _ _ _ TA)).
    destruct (ratio_spec _ _ _ R0) as [_ Z0]. destruct (ratio_spec _ _ _ R1) as [_ Z1].
    destruct (ratio_spec _ _ _ R2) as [_ Z2].
    assert (M0 : Rabs (Q2R r0) <> 0) by (apply Rabs_no_R0; exact Z0).
    assert (M1 : Rabs (Q2R r1) <> 0) by (apply Rabs_no_R0; exact Z1).
    assert (M2 : Rabs (Q2R r2) <> 0) by (apply Rabs_no_R0; exact Z2).
    (* unfold the evaluators *)
    unfold rwg_T, rwg_eval. rewrite D0, D1, D2, DA, (child_intel T j Hdet), !child_jacapp. cbn [fst snd].
    rewrite (core_alg (edge_len T a) (intel T) (Q2R (sub_det j))); try assumption; try lra.
    f_equal.
    (* weights *)
    set (w0 := (nth3 coeffs a j 0 * Qabs t / (Qabs r0 * sub_det j))%Q) in *.
    set (w1 := (nth3 coeffs a j 1 * Qabs t / (Qabs r1 * sub_det j))%Q) in *.
    set (w2 := (nth3 coeffs a j 2 * Qabs t / (Qabs r2 * sub_det j))%Q) in *.
    assert (Hden : forall r, Q2R r <> 0 -> ~ (Qabs r * sub_det j == 0)%Q).
    { intros r Hr E. apply Qeq_eqR in E. rewrite Q2R_mult, Q2R_abs, RMicromega.Q2R_0 in E.
      apply Rmult_integral in E. destruct E as [E|E]; [apply Rabs_no_R0 in Hr; contradiction|lra]. }
    assert (W : forall c r, Q2R r <> 0 ->
                Q2R (c * Qabs t / (Qabs r * sub_det j)) = Q2R c * Rabs (Q2R t) / (Rabs (Q2R r) * Q2R (sub_det j))).
    { intros c r Hr. rewrite Q2R_div by (apply Hden; exact Hr). rewrite !Q2R_mult, !Q2R_abs. reflexivity. }
    rewrite <- (W (nth3 coeffs a j 0) r0 Z0), <- (W (nth3 coeffs a j 1) r1 Z1), <- (W (nth3 coeffs a j 2) r2 Z2). fold w0 w1 w2.
    apply RMicromega.Qeq_true in S1. rewrite !Q2R_plus, RMicromega.Q2R_1 in S1.
    apply peqb_q2 in S2. rewrite !q2_padd, !q2_pscale in S2. cbn [fst snd] in S2.
    unfold ropp in S2. rewrite !sub_mapR_q2 in S2.
    assert (S2x := f_equal fst S2). assert (S2y := f_equal snd S2). cbn [fst snd] in S2x, S2y.
    assert (Hx : Q2R w0 * fst (sub_mapR j (q2 (origin 0))) + Q2R w1 * fst (sub_mapR j (q2 (origin 1))) +
                 Q2R w2 * fst (sub_mapR j (q2 (origin 2))) = fst (q2 (origin a))) by (rewrite <- S2x; ring).
    assert (Hy : Q2R w0 * snd (sub_mapR j (q2 (origin 0))) + Q2R w1 * snd (sub_mapR j (q2 (origin 1))) +
                 Q2R w2 * snd (sub_mapR j (q2 (origin 2))) = snd (q2 (origin a))) by (rewrite <- S2y; ring).
    pose proof (core_lin T (sub_mapR j st) (q2 (origin a)) (sub_mapR j (q2 (origin 0))) (sub_mapR j (q2 (origin 1)))
                         (sub_mapR j (q2 (origin 2))) (Q2R w0) (Q2R w1) (Q2R w2) S1 Hx Hy) as CL.
    change (Q2R (fst (origin a))) with (fst (q2 (origin a))).
    change (Q2R (snd (origin a))) with (snd (q2 (origin a))).
    rewrite <- CL.
    f_equal; [|f_equal]; (f_equal; f_equal; unfold sub_mapR, q2; cbn [fst snd]; f_equal; ring).
  Qed.
End Main.

(* ---- SNC = normal x RWG; a child has the normal of its parent ---- *)
Lemma child_normal T j : (0 < sub_det j)%Q -> intel T <> 0 -> normal (child T j) = normal T.
Proof.
  intros Hpos HJ. unfold normal. rewrite (child_intel T j Hpos).
  replace (rsub (child T j 1%nat) (child T j 0%nat)) with (jacapp (child T j) (1, 0)) by vring.
  replace (rsub (child T j 2%nat) (child T j 0%nat)) with (jacapp (child T j) (0, 1)) by vring.
  rewrite !child_jacapp, cross_jacapp. cbn [fst snd].
  apply Qlt_Rlt in Hpos. rewrite RMicromega.Q2R_0 in Hpos. rewrite sub_det_R in *.
  apply v3_ext; vunfold; field; split; try assumption; lra.
Qed.

Lemma rcross_lincomb n a b c (U V W : V3) :
  rcross n (radd (rscale a U) (radd (rscale b V) (rscale c W))) =
  radd (rscale a (rcross n U)) (radd (rscale b (rcross n V)) (rscale c (rcross n W))).
Proof. vring. Qed.

(* RBC = n x BC on every barycentric element: both spaces carry the same coefficients (same dof_transformation and
   local2global, checked on every run) and differ in the evaluator only *)
Lemma rbc_n_cross_bc T c0 c1 c2 st :
  radd (rscale c0 (snc_eval T 0 st)) (radd (rscale c1 (snc_eval T 1 st)) (rscale c2 (snc_eval T 2 st))) =
  rcross (normal T) (radd (rscale c0 (rwg_eval T 0 st)) (radd (rscale c1 (rwg_eval T 1 st)) (rscale c2 (rwg_eval T 2 st)))).
Proof. unfold snc_eval. symmetry. apply rcross_lincomb. Qed.

Section MainSNC.
  Variable coeffs : list (list (list Q)).
  Hypothesis sweep : forall a j, (a < 3)%nat -> (j < 6)%nat -> rwg_entry_ok coeffs (a, j) = true.

  Theorem snc_table_pointwise (P0 P1 P2 : V3) :
    intel (mk_tri P0 P1 P2) <> 0 ->
    forall a j, (a < 3)%nat -> (j < 6)%nat -> forall st : R2,
      snc_eval (mk_tri P0 P1 P2) a (sub_mapR j st) =
      radd (rscale (rwg_T coeffs (mk_tri P0 P1 P2) a j 0) (snc_eval (child (mk_tri P0 P1 P2) j) 0 st))
           (radd (rscale (rwg_T coeffs (mk_tri P0 P1 P2) a j 1) (snc_eval (child (mk_tri P0 P1 P2) j) 1 st))
                 (rscale (rwg_T coeffs (mk_tri P0 P1 P2) a j 2) (snc_eval (child (mk_tri P0 P1 P2) j) 2 st))).
  Proof.
    intros HJ a j Ha Hj st. unfold snc_eval.
    assert (Hdet : (0 < sub_det j)%Q).
    { pose proof (sweep a j Ha Hj) as S. unfold rwg_entry_ok in S.
      destruct (weight coeffs a j 0); [|discriminate]. destruct (weight coeffs a j 1); [|discriminate].
      destruct (weight coeffs a j 2); [|discriminate].
      apply andb_true_iff in S. destruct S as [_ S3]. apply Qle_bool_iff in S3.
      eapply Qlt_le_trans; [|apply S3]. reflexivity. }
    rewrite (child_normal _ j Hdet HJ), <- rcross_lincomb.
    f_equal. apply (rwg_table_pointwise coeffs sweep); assumption.
  Qed.
End MainSNC.

(* the hypotheses are satisfiable: a 3-4-5 triangle *)
Example nondegenerate_example : intel (mk_tri (0, 0, 0) (3, 0, 0) (0, 4, 0)) <> 0.
Proof.
  unfold intel, nrm, mk_tri, rcross, rsub, rx, ry, rz. cbn [fst snd].
  intro H. apply sqrt_eq_0 in H; lra.
Qed.
