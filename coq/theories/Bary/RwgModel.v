(* C10 -- reference-level (rational) conditions under which the RWG/SNC coefficient table, scaled by the length
   ratios of generate_rwg0_map, reproduces a coarse RWG function on a sub-triangle.  Definitions only.

   Coarse function a:  f_a(x) = L_a / J * (x - F(origin_a));   sub-triangle j, function k:
   g_jk(x) = l_jk / J_j * (x - F(r_j,opp(k)))  with  J_j = det_j * J.  Table entry  T_ajk = c_ajk * outer_a / dm_jk.
   If  outer_a = |tau_a| L_a  and  dm_jk = |rho_jk| l_jk  then  sum_k T_ajk g_jk = L_a/J * sum_k w_k (x - F(ropp_k))
   with  w_k = c_ajk |tau_a| / (|rho_jk| det_j);  this is f_a  iff  sum w_k = 1  and  sum w_k ropp_k = origin_a. *)
From Coq Require Import QArith Qabs List Arith Bool.
From BV Require Import Bary.Syms Bary.Model.
From BVgen Require Import BaryTables.
Import ListNotations.
Open Scope Q_scope.

Definition lc (i : nat) : pt := nth i rwg_local_coords (0, 0).
Definition origin (k : nat) : pt := nth k rwg_shape_origin (0, 0).

(* Some q with d == q * s (s <> 0) *)
Definition ratio (d s : pt) : option Q :=
  let q := if Qeq_bool (fst s) 0 then snd d / snd s else fst d / fst s in
  if peqb d (pscale q s) && negb (peqb s (0, 0)) && negb (Qeq_bool q 0) then Some q else None.

Definition eval_edge_vec (r : nat -> pt) (k : nat) : pt :=
  let '(e0, e1) := nth k rwg_eval_edges (0, 0)%nat in psub (r e0) (r e1).
Definition len_vec (ij : nat * nat) : pt := psub (lc (fst ij)) (lc (snd ij)).
Definition dm_pair (j k : nat) : nat * nat := nth k (nth j rwg_dof_mult []) (0, 0)%nat.
Definition outer_pair (a : nat) : nat * nat := nth a rwg_outer_edges (0, 0)%nat.

Definition rho (j k : nat) : option Q := ratio (len_vec (dm_pair j k)) (eval_edge_vec (sub_vertex j) k).
Definition tau (a : nat) : option Q := ratio (len_vec (outer_pair a)) (eval_edge_vec ref_corner a).
(* reference position of the vertex of sub-triangle j opposite to its local edge k *)
Definition ropp (j k : nat) : pt := sub_map j (origin k).

Definition weight (coeffs : list (list (list Q))) (a j k : nat) : option Q :=
  match rho j k, tau a with
  | Some r, Some t => Some (nth3 coeffs a j k * Qabs t / (Qabs r * sub_det j))
  | _, _ => None
  end.

Definition rwg_entry_ok (coeffs : list (list (list Q))) (aj : nat * nat) : bool :=
  let '(a, j) := aj in
  match weight coeffs a j 0, weight coeffs a j 1, weight coeffs a j 2 with
  | Some w0, Some w1, Some w2 =>
      Qeq_bool (w0 + w1 + w2) 1 &&
      peqb (padd (pscale w0 (ropp j 0)) (padd (pscale w1 (ropp j 1)) (pscale w2 (ropp j 2)))) (origin a) &&
      Qle_bool (1 # 1000) (sub_det j)
  | _, _, _ => false
  end.

Definition rwg_shape_ok (coeffs : list (list (list Q))) : bool :=
  Nat.eqb (length coeffs) 3 &&
  forallb (fun m => Nat.eqb (length m) 6 && forallb (fun r => Nat.eqb (length r) 3) m) coeffs &&
  Nat.eqb (length rwg_local_coords) 7 && Nat.eqb (length rwg_outer_edges) 3 && Nat.eqb (length rwg_dof_mult) 6 &&
  Nat.eqb (length rwg_shape_origin) 3 && Nat.eqb (length rwg_eval_edges) 3.

(* per-entry closed form: the table entry is the reference flux of psi_a through local edge k of sub-triangle j,
   times the factor by which the stored length differs from the length of that sub-edge *)
Definition ref_flux (a j k : nat) : Q :=
  let '(e0, e1) := nth k rwg_eval_edges (0, 0)%nat in
  det2 (psub (sub_vertex j e0) (origin a)) (psub (sub_vertex j e1) (origin a)).
Definition rwg_flux_entry_ok (coeffs : list (list (list Q))) (ajk : nat * nat * nat) : bool :=
  let '(a, j, k) := ajk in
  match rho j k, tau a with
  | Some r, Some t => Qeq_bool (nth3 coeffs a j k * Qabs t) (Qabs r * ref_flux a j k)
  | _, _ => false
  end.
