(* C10 -- what the tables of the UNCHANGED tree get wrong (witnesses by computation).
   Each lemma here stops compiling once the corresponding defect is repaired in bempp-cl; props/C10.v must then be
   switched to the positive statement (see docs/C10.notes.md, "switching after a fix"). *)
From Coq Require Import QArith Qabs List Arith Bool Lia.
From BV Require Import Bary.Syms Bary.Model Bary.Tables.
From BVgen Require Import BaryTables.
Import ListNotations.
Open Scope Q_scope.

(* P1: entry [0][0][1] is 1/3 but phi_0 at vertex 1 of sub-triangle 0 (the midpoint of edge 0) is 1/2 *)
Lemma p1_table_refuted :
  p1_table_status = false /\
  exists a j v, (a < 3)%nat /\ (j < 6)%nat /\ (v < 3)%nat /\
    p1_entry a j v == 1 # 3 /\ p1_shape a (sub_vertex j v) == 1 # 2 /\
    ~ p1_entry a j v == p1_shape a (sub_vertex j v).
Proof.
  split; [vm_compute; reflexivity|].
  exists 0%nat, 0%nat, 1%nat. repeat split; try lia; try (vm_compute; reflexivity).
  intro H. vm_compute in H. discriminate.
Qed.

(* function level: the coarse hat function of corner 0 and its barycentric form differ at the midpoint of edge 0 *)
Lemma p1_pointwise_refuted :
  exists (c : nat -> Q) (j : nat) (st : pt), (j < 6)%nat /\ ~ p1_fun c (sub_map j st) == p1_bary_fun c j st.
Proof.
  exists (fun a => match a with 0%nat => 1 | _ => 0 end), 0%nat, (1, 0). split; [lia|].
  intro H. vm_compute in H. discriminate.
Qed.

(* DUAL1: the list of local barycentric dofs that receive the value "1 at the barycentre" names the edge midpoints *)
Lemma dual1_centre_refuted :
  dual1_centre_status = false /\ dual1_centre_is_midpoints = true /\
  exists n, In n dual1_centre_dofs /\ dof_sym n = BMid 0.
Proof.
  split; [vm_compute; reflexivity|]. split; [vm_compute; reflexivity|].
  exists 1%nat. split; [vm_compute; auto|vm_compute; reflexivity].
Qed.
