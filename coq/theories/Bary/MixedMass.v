(* C10 -- the assembled mixed mass matrix  X_test' . M_bary . X_trial  (sparse assembler on the common barycentric
   grid followed by the two dof_transformation products, model BV.AssemblyA.Sparse of core/sparse_assembler.py) is,
   entry by entry, the quadrature over the barycentric elements of the product of the two represented functions:
   test function r with barycentric coefficients X_test[:, r], trial function c with X_trial[:, c].
   Composition of C13's identity_bilinear_form with the dof-transformation products; over any commutative ring. *)
From Coq Require Import List Arith Bool Setoid Morphisms.
From BV Require Import AssemblyA.Sums AssemblyA.Mat AssemblyA.Dense AssemblyA.Sparse AssemblyA.L2Proofs.
Import ListNotations.
Local Open Scope cr_scope.

Section MixedMass.
  Context {A : Type} {R : CRing A}.

  Theorem mixed_mass_entry dim rule intel (bt br : basisfn) nel (St Sr : space A) gt gr (Xt Xr : mat) r c :
    dofs_in (seq 0 gt) St (sparse_elements nel St Sr) -> dofs_in (seq 0 gr) Sr (sparse_elements nel St Sr) ->
    sparse_op nel (Lsp_identity dim rule intel bt br) St Sr gt gr (Some Xt) (Some Xr) r c ==
    sumf (fun e => sumf (fun d => sumf (fun q =>
            uval (fun i => Xt i r) St bt e (fst q) d * uval (fun j => Xr j c) Sr br e (fst q) d * (snd q * intel e))
                                       rule) (seq 0 dim))
         (sparse_elements nel St Sr).
  Proof.
    intros Ht Hr.
    rewrite <- (identity_bilinear_form dim rule intel bt br nel St Sr (seq 0 gt) (seq 0 gr)
                                       (fun i => Xt i r) (fun j => Xr j c) (seq_NoDup gt 0) (seq_NoDup gr 0) Ht Hr).
    unfold sparse_op, dof_transform, mmul, tr, bilin, mvec. reflexivity.
  Qed.
End MixedMass.
