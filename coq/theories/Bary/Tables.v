(* C10 -- finite theorems about the generated tables (complete sweeps by vm_compute, lifted with forallb_forall)
   and the pointwise-agreement consequences that hold for every coefficient vector and every point. *)
From Coq Require Import QArith Qabs List Arith Bool Lia Setoid.
From BV Require Import Bary.Syms Bary.Model.
From BVgen Require Import BaryTables.
Import ListNotations.
Open Scope Q_scope.

Lemma in_idx2 n m i j : (i < n)%nat -> (j < m)%nat -> In (i, j) (idx2 n m).
Proof. intros. apply in_prod; apply in_seq; lia. Qed.
Lemma in_idx3 a j v : (a < 3)%nat -> (j < 6)%nat -> (v < 3)%nat -> In (a, j, v) idx3.
Proof. intros. apply in_prod; [apply in_idx2; assumption | apply in_seq; lia]. Qed.

Lemma peqb_peq p q : peqb p q = true -> peq p q.
Proof. unfold peqb, peq. rewrite andb_true_iff. intros [A B]. split; apply Qeq_bool_eq; assumption. Qed.

(* ---------------- sub-triangles ---------------- *)
Lemma subtri_vertices_sweep : forallb subtri_vertex_ok (idx2 6 3) = true.
Proof. vm_compute. reflexivity. Qed.
Lemma subtri_det_sweep : forallb subtri_det_ok (seq 0 6) = true.
Proof. vm_compute. reflexivity. Qed.
Lemma conn_shape : conn_shape_ok = true.
Proof. vm_compute. reflexivity. Qed.

Lemma subtri_vertices j v : (j < 6)%nat -> (v < 3)%nat -> peq (sub_vertex j v) (stated_vertex j v).
Proof.
  intros Hj Hv. apply peqb_peq.
  exact (proj1 (forallb_forall _ _) subtri_vertices_sweep (j, v) (in_idx2 6 3 j v Hj Hv)).
Qed.
Lemma subtri_det j : (j < 6)%nat -> sub_det j == 1 # 6.
Proof.
  intros Hj. apply Qeq_bool_eq.
  refine (proj1 (forallb_forall _ _) subtri_det_sweep j _). apply in_seq. lia.
Qed.

(* for EVERY geometry (corners P0 P1 P2 in Q^3): the cross product of the edge vectors of the image of a triangle
   with reference vertices r0 r1 r2 is det(r1-r0, r2-r0) times the cross product of the parent; with det = 1/6 > 0
   this is "same orientation, area 1/6". *)
Definition vec := (Q * Q * Q)%type.
Definition vx (u : vec) := fst (fst u).  Definition vy (u : vec) := snd (fst u).  Definition vz (u : vec) := snd u.
Definition vadd (u w : vec) : vec := (vx u + vx w, vy u + vy w, vz u + vz w).
Definition vsub (u w : vec) : vec := (vx u - vx w, vy u - vy w, vz u - vz w).
Definition vscale (c : Q) (u : vec) : vec := (c * vx u, c * vy u, c * vz u).
Definition cross (u w : vec) : vec :=
  (vy u * vz w - vz u * vy w, vz u * vx w - vx u * vz w, vx u * vy w - vy u * vx w).
Definition veq (u w : vec) : Prop := vx u == vx w /\ vy u == vy w /\ vz u == vz w.
Definition aff (P0 P1 P2 : vec) (r : pt) : vec :=
  vadd P0 (vadd (vscale (fst r) (vsub P1 P0)) (vscale (snd r) (vsub P2 P0))).

Lemma cross_affine P0 P1 P2 r0 r1 r2 :
  veq (cross (vsub (aff P0 P1 P2 r1) (aff P0 P1 P2 r0)) (vsub (aff P0 P1 P2 r2) (aff P0 P1 P2 r0)))
      (vscale (det2 (psub r1 r0) (psub r2 r0)) (cross (vsub P1 P0) (vsub P2 P0))).
Proof.
  destruct P0 as [[a0 b0] c0], P1 as [[a1 b1] c1], P2 as [[a2 b2] c2], r0 as [x0 y0], r1 as [x1 y1], r2 as [x2 y2].
  unfold veq, cross, aff, vadd, vsub, vscale, det2, psub, vx, vy, vz; simpl. repeat split; ring.
Qed.

Lemma veq_scale_compat c d u : c == d -> veq (vscale c u) (vscale d u).
Proof. intros H. unfold veq, vscale, vx, vy, vz; simpl. rewrite H. repeat split; reflexivity. Qed.
Lemma veq_trans u v w : veq u v -> veq v w -> veq u w.
Proof. unfold veq. intros [A [B C]] [D [E F]]. repeat split; etransitivity; eassumption. Qed.

Theorem bary_subtriangles :
  forall j, (j < 6)%nat ->
    (forall v, (v < 3)%nat -> peq (sub_vertex j v) (stated_vertex j v)) /\
    sub_det j == 1 # 6 /\
    forall P0 P1 P2 : vec,
      veq (cross (vsub (aff P0 P1 P2 (sub_vertex j 1)) (aff P0 P1 P2 (sub_vertex j 0)))
                 (vsub (aff P0 P1 P2 (sub_vertex j 2)) (aff P0 P1 P2 (sub_vertex j 0))))
          (vscale (1 # 6) (cross (vsub P1 P0) (vsub P2 P0))).
Proof.
  intros j Hj. split; [intros v Hv; apply subtri_vertices; assumption|]. split; [apply subtri_det; assumption|].
  intros P0 P1 P2. eapply veq_trans; [apply cross_affine|]. apply veq_scale_compat. apply (subtri_det j Hj).
Qed.

(* ---------------- P1 table ---------------- *)
Lemma p1_shape_sweep : p1_shape_ok = true.
Proof. vm_compute. reflexivity. Qed.

Lemma p1_table_correct :
  p1_table_status = true ->
  forall a j v, (a < 3)%nat -> (j < 6)%nat -> (v < 3)%nat -> p1_entry a j v == p1_shape a (sub_vertex j v).
Proof.
  intros H a j v Ha Hj Hv. apply Qeq_bool_eq.
  exact (proj1 (forallb_forall _ _) H (a, j, v) (in_idx3 a j v Ha Hj Hv)).
Qed.

Lemma p1_pou_sweep : forallb p1_pou_ok (idx2 6 3) = true.
Proof. vm_compute. reflexivity. Qed.
Lemma p1_partition_of_unity j v :
  (j < 6)%nat -> (v < 3)%nat -> p1_entry 0 j v + p1_entry 1 j v + p1_entry 2 j v == 1.
Proof.
  intros Hj Hv. apply Qeq_bool_eq.
  exact (proj1 (forallb_forall _ _) p1_pou_sweep (j, v) (in_idx2 6 3 j v Hj Hv)).
Qed.

(* an affine function is reproduced by its values at the three vertices of any triangle *)
Lemma p1_shape_affine a (r0 r1 r2 st : pt) :
  (a < 3)%nat ->
  p1_shape a (padd r0 (padd (pscale (fst st) (psub r1 r0)) (pscale (snd st) (psub r2 r0)))) ==
  p1_shape a r0 * p1_shape 0 st + p1_shape a r1 * p1_shape 1 st + p1_shape a r2 * p1_shape 2 st.
Proof.
  intros Ha. destruct r0, r1, r2, st.
  destruct a as [|[|[|a]]]; try lia; unfold p1_shape, padd, pscale, psub; simpl; ring.
Qed.

(* pointwise agreement on every sub-triangle, for every coefficient vector and every point, GIVEN the table sweep *)
Theorem p1_pointwise :
  p1_table_status = true ->
  forall (c : nat -> Q) (j : nat) (st : pt), (j < 6)%nat -> p1_fun c (sub_map j st) == p1_bary_fun c j st.
Proof.
  intros H c j st Hj. unfold p1_fun at 1, sub_map.
  rewrite !p1_shape_affine by lia.
  unfold p1_bary_fun, p1_fun, p1_bary_coeff.
  rewrite !(p1_table_correct H) by lia. ring.
Qed.

(* ---------------- DP0 map ---------------- *)
Lemma np_repeat_length {A} (l : list A) k : length (np_repeat l k) = (length l * k)%nat.
Proof. induction l; simpl; [reflexivity|]. rewrite app_length, repeat_length, IHl. reflexivity. Qed.

Lemma np_repeat_nth {A} (l : list A) k i d :
  (0 < k)%nat -> (i < length l * k)%nat -> nth i (np_repeat l k) d = nth (i / k) l d.
Proof.
  intros Hk. revert i. induction l as [|x t IH]; intros i Hi; simpl in *; [lia|].
  destruct (lt_dec i k) as [Hlt|Hge].
  - rewrite app_nth1 by (rewrite repeat_length; lia). rewrite Nat.div_small by lia.
    simpl. rewrite (nth_indep _ d x) by (rewrite repeat_length; lia). apply nth_repeat.
  - rewrite app_nth2 by (rewrite repeat_length; lia). rewrite repeat_length.
    rewrite IH by lia.
    replace i with ((i - k) + 1 * k)%nat at 2 by lia. rewrite Nat.div_add by lia.
    rewrite Nat.add_1_r. reflexivity.
Qed.

Theorem dp0_table n k :
  (k < 6 * n)%nat ->
  length (dp0_bary_dofs n) = (6 * n)%nat /\ length (dp0_coarse_dofs n) = (6 * n)%nat /\
  length (dp0_values n) = (6 * n)%nat /\
  nth k (dp0_bary_dofs n) 0%nat = k /\ nth k (dp0_coarse_dofs n) 0%nat = (k / 6)%nat /\ nth k (dp0_values n) 0 = 1.
Proof.
  intros Hk. unfold dp0_bary_dofs, dp0_coarse_dofs, dp0_values, np_arange, np_ones.
  rewrite np_repeat_length, !seq_length, repeat_length.
  repeat split; try lia.
  - rewrite seq_nth by lia. reflexivity.
  - rewrite np_repeat_nth by (rewrite ?seq_length; lia). rewrite seq_nth; [reflexivity|].
    apply Nat.div_lt_upper_bound; lia.
  - rewrite (nth_indep _ 0 1) by (rewrite repeat_length; lia). apply nth_repeat.
Qed.

(* ---------------- dual spaces: literal index lists ---------------- *)
Lemma dual0_rows_sweep : forallb dual0_row_ok (seq 0 3) = true.
Proof. vm_compute. reflexivity. Qed.
Lemma dual1_vertex_rows_sweep : forallb dual1_vertex_row_ok (seq 0 3) = true.
Proof. vm_compute. reflexivity. Qed.
Lemma dual1_edge_rows_sweep : forallb dual1_edge_row_ok (seq 0 3) = true.
Proof. vm_compute. reflexivity. Qed.

Lemma dual0_rows k : (k < 3)%nat -> same_set (nth k dual0_subtris []) (subtris_at_corner k) = true.
Proof. intros. refine (proj1 (forallb_forall _ _) dual0_rows_sweep k _). apply in_seq; lia. Qed.
Lemma dual1_vertex_rows k : (k < 3)%nat -> same_set (nth k dual1_vertex_dofs []) (all_dofs_of (BCorner k)) = true.
Proof. intros. refine (proj1 (forallb_forall _ _) dual1_vertex_rows_sweep k _). apply in_seq; lia. Qed.
Lemma dual1_edge_rows k : (k < 3)%nat -> same_set (nth k dual1_edge_dofs []) (all_dofs_of (BMid k)) = true.
Proof. intros. refine (proj1 (forallb_forall _ _) dual1_edge_rows_sweep k _). apply in_seq; lia. Qed.

(* ---------------- RWG / SNC tables (reference level) ---------------- *)
From BV Require Import Bary.RwgModel.
Lemma rwg_sweep : forallb (rwg_entry_ok rwg_coeffs) (idx2 3 6) = true.
Proof. vm_compute. reflexivity. Qed.
Lemma snc_sweep : forallb (rwg_entry_ok snc_coeffs) (idx2 3 6) = true.
Proof. vm_compute. reflexivity. Qed.
Lemma rwg_flux_sweep : forallb (rwg_flux_entry_ok rwg_coeffs) idx3 = true.
Proof. vm_compute. reflexivity. Qed.
Lemma snc_flux_sweep : forallb (rwg_flux_entry_ok snc_coeffs) idx3 = true.
Proof. vm_compute. reflexivity. Qed.
Lemma rwg_shapes : rwg_shape_ok rwg_coeffs = true /\ rwg_shape_ok snc_coeffs = true.
Proof. split; vm_compute; reflexivity. Qed.

Lemma rwg_entry a j : (a < 3)%nat -> (j < 6)%nat -> rwg_entry_ok rwg_coeffs (a, j) = true.
Proof. intros Ha Hj. exact (proj1 (forallb_forall _ _) rwg_sweep (a, j) (in_idx2 3 6 a j Ha Hj)). Qed.
Lemma snc_entry a j : (a < 3)%nat -> (j < 6)%nat -> rwg_entry_ok snc_coeffs (a, j) = true.
Proof. intros Ha Hj. exact (proj1 (forallb_forall _ _) snc_sweep (a, j) (in_idx2 3 6 a j Ha Hj)). Qed.
Lemma rwg_flux_entry a j k :
  (a < 3)%nat -> (j < 6)%nat -> (k < 3)%nat -> rwg_flux_entry_ok rwg_coeffs (a, j, k) = true.
Proof. intros Ha Hj Hk. exact (proj1 (forallb_forall _ _) rwg_flux_sweep (a, j, k) (in_idx3 a j k Ha Hj Hk)). Qed.
Lemma snc_flux_entry a j k :
  (a < 3)%nat -> (j < 6)%nat -> (k < 3)%nat -> rwg_flux_entry_ok snc_coeffs (a, j, k) = true.
Proof. intros Ha Hj Hk. exact (proj1 (forallb_forall _ _) snc_flux_sweep (a, j, k) (in_idx3 a j k Ha Hj Hk)). Qed.
