(* C10 -- hand model (tie H, pinned textually by translators/bary_tables.py) of the coefficient stage of the
   Buffa-Christiansen spaces: grid.py _get_bary_coefficients, _interior_barycentric_edges_coefficients,
   _border_barycentric_edges_coefficients, _get_coefficients_reference_edge.  The ordered vertex fans
   (_get_barycentric_edges_associated_to_vertex) are inputs.  Definitions only. *)
From Coq Require Import QArith List Arith Bool.
From BVgen Require Import BaryTables.
Import ListNotations.
Open Scope Q_scope.

Definition slot := (nat * nat)%type.                 (* (barycentric element, local edge) *)
Definition qn (n : nat) : Q := inject_Z (Z.of_nat n).

Section Bc.
  Variable eid : slot -> nat.                         (* bary_grid.element_edges[local_edge, elem] *)
  Variable len : nat -> Q.                            (* edge_lengths *)
  Variable nc : nat.                                  (* number of coarse cells around the vertex *)

  (* for index, edge in enumerate(vertex_edges): if index % 2 == 0: count += 1;
       values.append(sign * (nc - count) / (2 * nc * edge_length)); sign *= -1 *)
  (* [even] is "index % 2 == 0" *)
  Fixpoint interior_go (fan : list slot) (even : bool) (count : nat) (sign : Q) : list (slot * Q) :=
    match fan with
    | [] => []
    | s :: t =>
      let count' := if even then S count else count in
      (s, sign * (qn nc - qn count') / (2 * qn nc * len (eid s))) :: interior_go t (negb even) count' (- sign)
    end.
  Definition interior_coeffs (fan : list slot) (sign : Q) : list (slot * Q) := interior_go fan true 0 sign.

  Fixpoint pos_of (x : nat) (l : list nat) : nat :=           (* list.index *)
    match l with [] => 0%nat | y :: t => if Nat.eqb x y then 0%nat else S (pos_of x t) end.

  (* signs = sign * [-1, 1]; value by position of the edge in sorted_edges relative to ref_edge *)
  Definition border_value (sorted : list nat) (ref : nat) (sign : Q) (s : slot) : Q :=
    let sg := match snd s with 0%nat => - sign | _ => sign end in
    let count := pos_of (eid s) sorted in
    let L := len (eid s) in
    if Nat.ltb count ref then sg * (1 - qn nc) / (qn nc * L)
    else if Nat.eqb count ref then sg * (2 - qn nc) / (2 * qn nc * L)
    else sg * 1 / (qn nc * L).
  Definition border_coeffs (fan : list slot) (sorted : list nat) (ref : nat) (sign : Q) : list (slot * Q) :=
    map (fun s => (s, border_value sorted ref sign s)) fan.
End Bc.

Definition vertex_part (eid : slot -> nat) (len : nat -> Q) (fan : list slot) (sorted : list nat) (nc ref : nat) (sign : Q) :=
  if bc_border_test_uses_sorted_edges
  then match sorted with [] => interior_coeffs eid len nc fan sign | _ => border_coeffs eid len nc fan sorted ref sign end
  else interior_coeffs eid len nc fan sign.      (* the pre-repair test is not modelled: the translator fails closed *)

Definition reference_part (eid : slot -> nat) (len : nat -> Q) (um up lm lp : nat) : list (slot * Q) :=
  let Lu := len (eid (um, 2%nat)) in let Ll := len (eid (lm, 2%nat)) in
  [((um, 2%nat), 1 / (2 * Lu)); ((up, 2%nat), - (1) / (2 * Lu)); ((lm, 2%nat), - (1) / (2 * Ll)); ((lp, 2%nat), 1 / (2 * Ll))].

Definition bc_coeffs eid len fan1 fan2 sorted1 sorted2 nc1 nc2 ref1 ref2 um up lm lp : list (slot * Q) :=
  vertex_part eid len fan1 sorted1 nc1 ref1 (- (1)) ++ vertex_part eid len fan2 sorted2 nc2 ref2 1 ++
  reference_part eid len um up lm lp.
