(* Correspondence predicate for the connectivity model: the element array of Grid.barycentric_refinement, exactly. *)
From Coq Require Import List Arith Bool.
From BV Require Import Bary.Syms Bary.Refine.
Import ListNotations.

Record conn_case := { cc_nv : nat; cc_elements : list (list nat); cc_element_edges : list (list nat);
                      cc_bary : list (list nat) }.
Definition rows_eqb (a b : list (list nat)) : bool :=
  Nat.eqb (length a) (length b) &&
  forallb (fun xy => Nat.eqb (length (fst xy)) (length (snd xy)) &&
                     forallb (fun pq => Nat.eqb (fst pq) (snd pq)) (combine (fst xy) (snd xy))) (combine a b).
Definition conn_case_ok (c : conn_case) : bool :=
  rows_eqb (new_elements (combine (cc_elements c) (cc_element_edges c)) (cc_nv c)) (cc_bary c).
