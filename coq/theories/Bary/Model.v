(* C10 -- barycentric refinement of the reference triangle and the per-entry predicates on the coefficient tables
   regenerated in BVgen.BaryTables.  Definitions only (no proofs), so that they still evaluate when a proof breaks. *)
From Coq Require Import QArith Qabs List Arith Bool.
From BV Require Import Bary.Syms.
From BVgen Require Import BaryTables.
Import ListNotations.
Open Scope Q_scope.

Definition pt := (Q * Q)%type.
Definition padd (p q : pt) : pt := (fst p + fst q, snd p + snd q).
Definition psub (p q : pt) : pt := (fst p - fst q, snd p - snd q).
Definition pscale (c : Q) (p : pt) : pt := (c * fst p, c * snd p).
Definition peqb (p q : pt) : bool := Qeq_bool (fst p) (fst q) && Qeq_bool (snd p) (snd q).
Definition peq (p q : pt) : Prop := fst p == fst q /\ snd p == snd q.

(* corners of the reference triangle, in the order of the P1 shape functions *)
Definition ref_corner (k : nat) : pt :=
  match k with 0%nat => (0, 0) | 1%nat => (1, 0) | _ => (0, 1) end.

(* the point a symbol of the connectivity table denotes: weights and the local-edge table are the generated ones *)
Definition sym_point (s : bsym) : pt :=
  match s with
  | BCorner k => ref_corner k
  | BMid k => let '(a, b) := nth k edge_local (0, 0)%nat in
              pscale bary_midpoint_weight (padd (ref_corner a) (ref_corner b))
  | BCentre => pscale bary_centroid_weight (padd (ref_corner 0) (padd (ref_corner 1) (ref_corner 2)))
  end.

Definition sub_sym (j v : nat) : bsym := nth v (nth j bary_conn []) BCentre.
Definition sub_vertex (j v : nat) : pt := sym_point (sub_sym j v).

(* what the property says sub-triangle j must be *)
Definition v0 : pt := (0, 0).   Definition v1 : pt := (1, 0).   Definition v2 : pt := (0, 1).
Definition m01 : pt := (1 # 2, 0).  Definition m12 : pt := (1 # 2, 1 # 2).  Definition m20 : pt := (0, 1 # 2).
Definition cc : pt := (1 # 3, 1 # 3).
Definition stated_subtris : list (list pt) :=
  [[v0; m01; cc]; [v1; cc; m01]; [v1; m12; cc]; [v2; cc; m12]; [v2; m20; cc]; [v0; cc; m20]].
Definition stated_vertex (j v : nat) : pt := nth v (nth j stated_subtris []) (0, 0).

Definition det2 (p q : pt) : Q := fst p * snd q - snd p * fst q.
Definition sub_det (j : nat) : Q := det2 (psub (sub_vertex j 1) (sub_vertex j 0)) (psub (sub_vertex j 2) (sub_vertex j 0)).

Definition idx2 (n m : nat) : list (nat * nat) := list_prod (seq 0 n) (seq 0 m).
Definition idx3 : list (nat * nat * nat) := list_prod (idx2 3 6) (seq 0 3).

Definition subtri_vertex_ok (jv : nat * nat) : bool := peqb (sub_vertex (fst jv) (snd jv)) (stated_vertex (fst jv) (snd jv)).
Definition subtri_det_ok (j : nat) : bool := Qeq_bool (sub_det j) (1 # 6).
Definition conn_shape_ok : bool :=
  Nat.eqb (length bary_conn) 6 && forallb (fun r => Nat.eqb (length r) 3) bary_conn && Nat.eqb (length edge_local) 3.

(* ---- scalar shape functions on the reference triangle ---- *)
Definition p1_shape (a : nat) (p : pt) : Q :=
  match a with 0%nat => 1 - fst p - snd p | 1%nat => fst p | _ => snd p end.

(* affine map from the reference coordinates (s,t) of sub-triangle j to those of the coarse element *)
Definition sub_map (j : nat) (st : pt) : pt :=
  padd (sub_vertex j 0) (padd (pscale (fst st) (psub (sub_vertex j 1) (sub_vertex j 0)))
                              (pscale (snd st) (psub (sub_vertex j 2) (sub_vertex j 0)))).

(* P1 table *)
Definition p1_entry (a j v : nat) : Q := nth3 p1_coeffs a j v.
Definition p1_entry_ok (ajv : nat * nat * nat) : bool :=
  let '(a, j, v) := ajv in Qeq_bool (p1_entry a j v) (p1_shape a (sub_vertex j v)).
Definition p1_table_status : bool := forallb p1_entry_ok idx3.
(* the table that is shipped: row j carries the values of sub-triangle j-1 (mod 6) *)
Definition p1_entry_shifted_ok (ajv : nat * nat * nat) : bool :=
  let '(a, j, v) := ajv in Qeq_bool (p1_entry a j v) (p1_shape a (sub_vertex ((j + 5) mod 6) v)).
Definition p1_pou_ok (jv : nat * nat) : bool :=
  Qeq_bool (p1_entry 0 (fst jv) (snd jv) + p1_entry 1 (fst jv) (snd jv) + p1_entry 2 (fst jv) (snd jv)) 1.
Definition p1_shape_ok : bool :=
  Nat.eqb (length p1_coeffs) 3 && forallb (fun m => Nat.eqb (length m) 6 && forallb (fun r => Nat.eqb (length r) 3) m) p1_coeffs.

(* coarse P1 function with local coefficients c, and its barycentric form on sub-triangle j *)
Definition p1_fun (c : nat -> Q) (p : pt) : Q := c 0%nat * p1_shape 0 p + c 1%nat * p1_shape 1 p + c 2%nat * p1_shape 2 p.
Definition p1_bary_coeff (c : nat -> Q) (j v : nat) : Q :=
  c 0%nat * p1_entry 0 j v + c 1%nat * p1_entry 1 j v + c 2%nat * p1_entry 2 j v.
Definition p1_bary_fun (c : nat -> Q) (j : nat) (st : pt) : Q := p1_fun (p1_bary_coeff c j) st.

(* ---- dual spaces: which nodal point a local barycentric dof n = 3*j+v of a coarse element is ---- *)
Definition dof_sym (n : nat) : bsym := sub_sym (n / 3) (n mod 3).
Definition all_dofs_of (s : bsym) : list nat := filter (fun n => bsym_eqb (dof_sym n) s) (seq 0 18).
Definition subtris_at_corner (k : nat) : list nat :=
  filter (fun j => existsb (fun v => bsym_eqb (sub_sym j v) (BCorner k)) (seq 0 3)) (seq 0 6).
Definition same_set (l1 l2 : list nat) : bool :=
  forallb (fun x => existsb (Nat.eqb x) l2) l1 && forallb (fun x => existsb (Nat.eqb x) l1) l2 &&
  Nat.eqb (length l1) (length l2).
Definition dual0_row_ok (k : nat) : bool := same_set (nth k dual0_subtris []) (subtris_at_corner k).
Definition dual1_vertex_row_ok (k : nat) : bool := same_set (nth k dual1_vertex_dofs []) (all_dofs_of (BCorner k)).
Definition dual1_edge_row_ok (k : nat) : bool := same_set (nth k dual1_edge_dofs []) (all_dofs_of (BMid k)).
Definition dual1_centre_status : bool := same_set dual1_centre_dofs (all_dofs_of BCentre).
Definition dual1_centre_is_midpoints : bool :=
  same_set dual1_centre_dofs (all_dofs_of (BMid 0) ++ all_dofs_of (BMid 2) ++ all_dofs_of (BMid 1)).
