(* Vocabulary shared by the generated file gen/BaryTables.v and the hand-written barycentric models.
   No proofs here. *)
From Coq Require Import QArith List Arith.
Import ListNotations.

(* a vertex of a barycentric sub-triangle, named relative to its coarse element:
   corner k, midpoint of the coarse local edge k, or the centroid *)
Inductive bsym : Type :=
| BCorner (k : nat)
| BMid (k : nat)
| BCentre.

Definition bsym_eqb (a b : bsym) : bool :=
  match a, b with
  | BCorner i, BCorner j => Nat.eqb i j
  | BMid i, BMid j => Nat.eqb i j
  | BCentre, BCentre => true
  | _, _ => false
  end.

(* numpy helpers used by the translated array expressions *)
Definition np_arange (n : nat) : list nat := seq 0 n.
Fixpoint np_repeat {A} (l : list A) (k : nat) : list A :=      (* numpy.repeat(l, k) *)
  match l with
  | [] => []
  | x :: t => repeat x k ++ np_repeat t k
  end.
Fixpoint np_tile {A} (l : list A) (k : nat) : list A :=        (* numpy.tile(l, k) *)
  match k with
  | O => []
  | S k' => l ++ np_tile l k'
  end.
Definition np_ones (n : nat) : list Q := repeat 1%Q n.

Definition nth3 (t : list (list (list Q))) (a j v : nat) : Q := nth v (nth j (nth a t []) []) 0%Q.
