(* C10 finding -- the P1 barycentric coefficient table of the UNCHANGED tree is shifted by one sub-triangle.
   This file stops compiling once scalar_spaces.py is repaired (docs/fixes/c10_p1_bary_table.diff): delete it and
   switch props/C10.v as in docs/fixes/c10_verif_after_p1_fix.diff. *)
From Coq Require Import QArith List Arith Bool Lia Setoid.
From BV Require Import Bary.Syms Bary.Model Bary.Tables.
From BVgen Require Import BaryTables.
Import ListNotations.
Open Scope Q_scope.

(* entry [0][0][1] is 1/3 but phi_0 at vertex 1 of sub-triangle 0 (the midpoint of edge 0) is 1/2 *)
Lemma p1_table_refuted :
  p1_table_status = false /\
  exists a j v, (a < 3)%nat /\ (j < 6)%nat /\ (v < 3)%nat /\
    p1_entry a j v == 1 # 3 /\ p1_shape a (sub_vertex j v) == 1 # 2 /\
    ~ p1_entry a j v == p1_shape a (sub_vertex j v).
Proof.
  split; [vm_compute; reflexivity|].
  exists 0%nat, 0%nat, 1%nat. repeat split; try lia; try (vm_compute; reflexivity).
  intro H. vm_compute in H. discriminate.
Qed.

(* function level: the coarse hat function of corner 0 and its barycentric form differ at the midpoint of edge 0 *)
Lemma p1_pointwise_refuted :
  exists (c : nat -> Q) (j : nat) (st : pt), (j < 6)%nat /\ ~ p1_fun c (sub_map j st) == p1_bary_fun c j st.
Proof.
  exists (fun a => match a with 0%nat => 1 | _ => 0 end), 0%nat, (1, 0). split; [lia|].
  intro H. vm_compute in H. discriminate.
Qed.

(* what the shipped table is, exactly: row j carries the values of sub-triangle j-1 (mod 6) *)
Lemma p1_shifted_sweep : forallb p1_entry_shifted_ok idx3 = true.
Proof. vm_compute. reflexivity. Qed.
Lemma p1_table_shifted a j v :
  (a < 3)%nat -> (j < 6)%nat -> (v < 3)%nat -> p1_entry a j v == p1_shape a (sub_vertex ((j + 5) mod 6) v).
Proof.
  intros Ha Hj Hv. apply Qeq_bool_eq.
  exact (proj1 (forallb_forall _ _) p1_shifted_sweep (a, j, v) (in_idx3 a j v Ha Hj Hv)).
Qed.


(* what the shipped table does instead: on sub-triangle j it reproduces the coarse function of sub-triangle j-1 *)
Theorem p1_pointwise_shifted :
  forall (c : nat -> Q) (j : nat) (st : pt), (j < 6)%nat ->
    p1_bary_fun c j st == p1_fun c (sub_map ((j + 5) mod 6) st).
Proof.
  intros c j st Hj. unfold p1_fun at 1, sub_map.
  rewrite !p1_shape_affine by lia.
  unfold p1_bary_fun, p1_fun, p1_bary_coeff.
  rewrite !p1_table_shifted by lia. ring.
Qed.

