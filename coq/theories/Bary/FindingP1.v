(* C10 finding -- the P1 barycentric coefficient table of the UNCHANGED tree is shifted by one sub-triangle.
   This file stops compiling once scalar_spaces.py is repaired (docs/fixes/c10_p1_bary_table.diff): delete it and
   switch props/C10.v as in docs/fixes/c10_verif_after_p1_fix.diff. *)
From Coq Require Import QArith List Arith Bool Lia.
From BV Require Import Bary.Syms Bary.Model Bary.Tables.
From BVgen Require Import BaryTables.
Import ListNotations.
Open Scope Q_scope.

(* entry [0][0][1] is 1/3 but phi_0 at vertex 1 of sub-triangle 0 (the midpoint of edge 0) is 1/2 *)
Lemma p1_table_refuted :
  p1_table_status = false /\
  exists a j v, (a < 3)%nat /\ (j < 6)%nat /\ (v < 3)%nat /\
    p1_entry a j v == 1 # 3 /\ p1_shape a (sub_vertex j v) == 1 # 2 /\
    ~ p1_entry a j v == p1_shape a (sub_vertex j v).
Proof.
  split; [vm_compute; reflexivity|].
  exists 0%nat, 0%nat, 1%nat. repeat split; try lia; try (vm_compute; reflexivity).
  intro H. vm_compute in H. discriminate.
Qed.

(* function level: the coarse hat function of corner 0 and its barycentric form differ at the midpoint of edge 0 *)
Lemma p1_pointwise_refuted :
  exists (c : nat -> Q) (j : nat) (st : pt), (j < 6)%nat /\ ~ p1_fun c (sub_map j st) == p1_bary_fun c j st.
Proof.
  exists (fun a => match a with 0%nat => 1 | _ => 0 end), 0%nat, (1, 0). split; [lia|].
  intro H. vm_compute in H. discriminate.
Qed.
