(* Correspondence predicates for the BC coefficient model (no proofs): the column of dof_transformation the
   implementation built for one BC function vs bc_coeffs on the recorded fans; exact zero net flux on interior edges;
   and the hypotheses of the flux theorems (Bary/BcProofs.v) checked on the recorded fans. *)
From Coq Require Import QArith Qabs List Arith Bool.
From BV Require Import Bary.BcModel.
From BVgen Require Import BaryTables.
Import ListNotations.
Open Scope Q_scope.

Record bc_case := {
  bc_ve1 : list slot; bc_ve2 : list slot; bc_se1 : list nat; bc_se2 : list nat;
  bc_nc1 : nat; bc_nc2 : nat; bc_r1 : nat; bc_r2 : nat; bc_cells : list nat;
  bc_info : list (nat * nat * nat * nat);          (* element, local edge, edge id, local2global *)
  bc_len : list (nat * Q); bc_col : list (nat * Q);
  bc_interior : list (nat * list nat) }.           (* interior edge id, dofs of its slots *)

Definition info_of (c : bc_case) (s : slot) : nat * nat :=
  match find (fun i => Nat.eqb (fst (fst (fst i))) (fst s) && Nat.eqb (snd (fst (fst i))) (snd s)) (bc_info c) with
  | Some i => (snd (fst i), snd i)
  | None => (0%nat, 0%nat)
  end.
Definition c_eid (c : bc_case) (s : slot) : nat := fst (info_of c s).
Definition c_l2g (c : bc_case) (s : slot) : nat := snd (info_of c s).
Definition c_len (c : bc_case) (e : nat) : Q :=
  match find (fun p => Nat.eqb (fst p) e) (bc_len c) with Some p => snd p | None => 0 end.

Definition model_of (c : bc_case) : list (slot * Q) :=
  match bc_cells c with
  | [um; up; lm; lp] => bc_coeffs (c_eid c) (c_len c) (bc_ve1 c) (bc_ve2 c) (bc_se1 c) (bc_se2 c) (bc_nc1 c) (bc_nc2 c)
                                  (bc_r1 c) (bc_r2 c) um up lm lp
  | _ => []
  end.
Definition value_at (c : bc_case) (d : nat) : Q :=
  fold_right (fun sv acc => if Nat.eqb (c_l2g c (fst sv)) d then snd sv + acc else acc) 0 (model_of c).
Definition qnear (a b : Q) : bool := Qle_bool (Qabs (a - b)) ((1 # 1000000000000) * (Qabs a + Qabs b)).

Definition bc_column_ok (c : bc_case) : bool :=
  forallb (fun dv => qnear (value_at c (fst dv)) (snd dv)) (bc_col c) &&
  forallb (fun sv => let d := c_l2g c (fst sv) in
                     Qeq_bool (value_at c d) 0 || existsb (fun dv => Nat.eqb (fst dv) d) (bc_col c)) (model_of c).

(* net flux (coefficient x edge length, both sides) through every interior barycentric edge: exactly zero *)
Definition bc_flux_ok (c : bc_case) : bool :=
  forallb (fun ed => Qeq_bool (fold_right (fun d acc => value_at c d * c_len c (fst ed) + acc) 0 (snd ed)) 0)
          (bc_interior c).

Fixpoint pairs_same_edge (c : bc_case) (l : list slot) : bool :=
  match l with
  | s1 :: s2 :: t => Nat.eqb (c_eid c s1) (c_eid c s2) && pairs_same_edge c t
  | [] => true
  | _ => false
  end.
Definition border_fan_ok (c : bc_case) (fan : list slot) : bool :=
  forallb (fun s1 => forallb (fun s2 => negb (Nat.eqb (c_eid c s1) (c_eid c s2)) || Nat.eqb (fst s1) (fst s2) && Nat.eqb (snd s1) (snd s2)
                                          || Nat.eqb (snd s1 + snd s2) 1) fan && Nat.ltb (snd s1) 2) fan.
Definition fan_ok (c : bc_case) (fan : list slot) (sorted : list nat) : bool :=
  match sorted with [] => pairs_same_edge c fan | _ => border_fan_ok c fan end.

(* the hypotheses of interior_flux_cancels / border_flux_cancels / reference_flux_cancels hold on the recorded data *)
Definition bc_hyps_ok (c : bc_case) : bool :=
  fan_ok c (bc_ve1 c) (bc_se1 c) && fan_ok c (bc_ve2 c) (bc_se2 c) &&
  match bc_cells c with
  | [um; up; lm; lp] => Nat.eqb (c_eid c (um, 2%nat)) (c_eid c (up, 2%nat)) && Nat.eqb (c_eid c (lm, 2%nat)) (c_eid c (lp, 2%nat)) &&
                        (* "minus"/"plus" cells are children 2v, 2v+1 of one coarse element; upper and lower differ *)
                        Nat.eqb up (S um) && Nat.eqb lp (S lm) && Nat.even um && Nat.even lm &&
                        negb (Nat.eqb (um / 6) (lm / 6)) && Nat.eqb (um / 6) (up / 6) && Nat.eqb (lm / 6) (lp / 6)
  | _ => false
  end &&
  forallb (fun p => negb (Qeq_bool (snd p) 0)) (bc_len c) && Nat.ltb 0 (bc_nc1 c) && Nat.ltb 0 (bc_nc2 c).

