(* C10 -- DUAL1: no two entries of the coefficient map address the same (barycentric dof, coarse dof) pair, so the
   coo -> csr summation never adds two of them: with dual1_entries_sound the assembled matrix takes exactly the
   documented nodal values.  For every grid whose elements have three distinct vertices and edges and whose neighbour
   lists have no repetitions. *)
From Coq Require Import QArith List Arith Bool Lia.
From BV Require Import Bary.Syms Bary.Model Bary.Tables Bary.DualModel Bary.DualProofs.
From BVgen Require Import BaryTables.
Import ListNotations.

Lemma NoDup_app_intro {A} (l1 l2 : list A) :
  NoDup l1 -> NoDup l2 -> (forall x, In x l1 -> In x l2 -> False) -> NoDup (l1 ++ l2).
Proof.
  induction l1 as [|a l1 IH]; simpl; intros H1 H2 Hd; [assumption|].
  inversion H1; subst. constructor.
  - rewrite in_app_iff. intros [H|H]; [contradiction|]. apply (Hd a); [left; reflexivity|assumption].
  - apply IH; try assumption. intros x Hx1 Hx2. apply (Hd x); [right; assumption|assumption].
Qed.

Lemma NoDup_map_flat_map {A B K} (key : B -> K) (f : A -> list B) (l : list A) :
  NoDup l ->
  (forall x, In x l -> NoDup (map key (f x))) ->
  (forall x y b1 b2, In x l -> In y l -> In b1 (f x) -> In b2 (f y) -> key b1 = key b2 -> x = y) ->
  NoDup (map key (flat_map f l)).
Proof.
  induction l as [|a l IH]; simpl; intros Hl Hin Hdis; [constructor|].
  inversion Hl; subst. rewrite map_app. apply NoDup_app_intro.
  - apply Hin. left; reflexivity.
  - apply IH; [assumption| |].
    + intros x Hx. apply Hin. right; assumption.
    + intros x y b1 b2 Hx Hy. apply Hdis; right; assumption.
  - intros k Hk1 Hk2. apply in_map_iff in Hk1, Hk2.
    destruct Hk1 as [b1 [E1 Hb1]]. destruct Hk2 as [b2 [E2 Hb2]]. apply in_flat_map in Hb2. destruct Hb2 as [y [Hy Hb2]].
    assert (a = y) by (apply (Hdis a y b1 b2); [left; reflexivity|right; assumption|assumption|assumption|congruence]).
    subst y. contradiction.
Qed.

Fixpoint nodupb (l : list nat) : bool :=
  match l with [] => true | x :: t => negb (existsb (Nat.eqb x) t) && nodupb t end.
Lemma nodupb_NoDup l : nodupb l = true -> NoDup l.
Proof.
  induction l as [|x t IH]; simpl; [constructor|]. rewrite andb_true_iff, negb_true_iff. intros [A B].
  constructor; [|apply IH; assumption]. intro H. apply existsb_eqb_In in H. congruence.
Qed.

Definition dual1_lists_nodup : bool :=
  nodupb dual1_centre_dofs && forallb nodupb dual1_edge_dofs && forallb nodupb dual1_vertex_dofs &&
  Nat.eqb (length dual1_edge_dofs) 3 && Nat.eqb (length dual1_vertex_dofs) 3.
Lemma dual1_lists_nodup_true : dual1_lists_nodup = true.
Proof. vm_compute. reflexivity. Qed.

Lemma index_of_inj x y l i : index_of x l = Some i -> index_of y l = Some i -> x = y.
Proof.
  revert i. induction l as [|z l IH]; simpl; intros i; [discriminate|].
  destruct (Nat.eqb x z) eqn:Ex, (Nat.eqb y z) eqn:Ey.
  - intros _ _. apply Nat.eqb_eq in Ex, Ey. congruence.
  - intros H1 H2. inversion H1; subst. destruct (index_of y l); simpl in H2; discriminate.
  - intros H1 H2. inversion H2; subst. destruct (index_of x l); simpl in H1; discriminate.
  - destruct (index_of x l) as [a|] eqn:Hx; simpl; [|discriminate].
    destruct (index_of y l) as [b|] eqn:Hy; simpl; [|discriminate].
    intros H1 H2. inversion H1; inversion H2; subst. apply (IH a); [reflexivity|]. f_equal. lia.
Qed.

Definition key (t : triple) : nat * nat := fst t.

Lemma block_keys d fn dofs val : map key (block d fn dofs val) = map (fun n => ((6 * 3 * fn + n)%nat, d)) dofs.
Proof. unfold block. rewrite map_map. reflexivity. Qed.

Lemma NoDup_block d fn dofs val : NoDup dofs -> NoDup (map key (block d fn dofs val)).
Proof.
  intros H. rewrite block_keys. induction H; simpl; constructor; [|assumption].
  rewrite in_map_iff. intros [n [E Hn]]. inversion E. assert (n = x) by lia. subst. contradiction.
Qed.

Lemma dofs18 n fn n' fn' : (n < 18)%nat -> (n' < 18)%nat -> (6 * 3 * fn + n = 6 * 3 * fn' + n')%nat -> fn = fn' /\ n = n'.
Proof. intros. lia. Qed.

Section NoOverlap.
  Variable truncate : bool.
  Variables elements element_edges edge_neighbors vertex_neighbors : list (list nat).
  Variable dp0_support : list nat.
  Let SF := support_final truncate elements element_edges edge_neighbors vertex_neighbors dp0_support.
  Let EL := el elements.
  Let EE := ee element_edges.

  Definition grid_wf : Prop :=
    forall E, In E dp0_support ->
      (forall a b, (a < 3)%nat -> (b < 3)%nat -> EE E a = EE E b -> a = b) /\
      (forall a b, (a < 3)%nat -> (b < 3)%nat -> EL E a = EL E b -> a = b) /\
      (forall a, (a < 3)%nat -> NoDup (nth (EE E a) edge_neighbors [])) /\
      (forall a, (a < 3)%nat -> NoDup (nth (EL E a) vertex_neighbors [])).

  Hypothesis centre_ok : dual1_centre_status = true.     (* holds on the repaired tree: C10_dual1_centre *)

  Lemma centre_sym n : In n dual1_centre_dofs -> (n < 18)%nat /\ dof_sym n = BCentre.
  Proof. intros H. apply (proj1 (same_set_In dual1_centre_dofs (all_dofs_of BCentre) n centre_ok)) in H. apply all_dofs_of_In in H. exact H. Qed.
  Lemma edge_sym i n : (i < 3)%nat -> In n (nth i dual1_edge_dofs []) -> (n < 18)%nat /\ dof_sym n = BMid i.
  Proof. intros Hi H. apply (proj1 (same_set_In _ _ n (dual1_edge_rows i Hi))) in H. apply all_dofs_of_In in H. exact H. Qed.
  Lemma vertex_sym i n : (i < 3)%nat -> In n (nth i dual1_vertex_dofs []) -> (n < 18)%nat /\ dof_sym n = BCorner i.
  Proof. intros Hi H. apply (proj1 (same_set_In _ _ n (dual1_vertex_rows i Hi))) in H. apply all_dofs_of_In in H. exact H. Qed.

  Lemma nodup_rows : NoDup dual1_centre_dofs /\ (forall i, (i < 3)%nat -> NoDup (nth i dual1_edge_dofs [])) /\
                     (forall i, (i < 3)%nat -> NoDup (nth i dual1_vertex_dofs [])).
  Proof.
    pose proof dual1_lists_nodup_true as H. unfold dual1_lists_nodup in H. rewrite !andb_true_iff in H.
    destruct H as [[[[A B] C] D] E]. apply Nat.eqb_eq in D, E. rewrite forallb_forall in B, C.
    split; [apply nodupb_NoDup; assumption|]. split; intros i Hi; apply nodupb_NoDup; [apply B|apply C]; apply nth_In; lia.
  Qed.

  (* generic shape shared by the edge and the vertex pass *)
  Definition pass (d : nat) (loc : nat -> nat -> nat) (nbrs : list (list nat)) (rows : list (list nat)) (val : nat -> Q)
                  (items : nat -> nat) : list triple :=
    flat_map (fun a =>
      flat_map (fun nb =>
        match index_of nb SF with
        | Some fn => match first_local (loc nb) (items a) with
                     | Some i => block d fn (nth i rows []) (val (items a))
                     | None => []
                     end
        | None => []
        end) (nth (items a) nbrs [])) (seq 0 3).

  Lemma in_pass d loc nbrs rows val items t :
    In t (pass d loc nbrs rows val items) ->
    exists a nb fn i n, (a < 3)%nat /\ In nb (nth (items a) nbrs []) /\ index_of nb SF = Some fn /\ (i < 3)%nat /\
                        loc nb i = items a /\ In n (nth i rows []) /\ t = ((6 * 3 * fn + n)%nat, d, val (items a)).
  Proof.
    unfold pass. rewrite in_flat_map. intros [a [Ha Ht]]. apply in_seq in Ha. apply in_flat_map in Ht.
    destruct Ht as [nb [Hnb Ht]]. destruct (index_of nb SF) as [fn|] eqn:Hi; [|destruct Ht].
    destruct (first_local (loc nb) (items a)) as [i|] eqn:Hf; [|destruct Ht]. apply first_local_spec in Hf.
    apply in_block in Ht. destruct Ht as [n [Hn Et]]. exists a, nb, fn, i, n. repeat split; try tauto; lia.
  Qed.

  Lemma pass_nodup d loc nbrs rows val items (symc : nat -> bsym) :
    (forall i n, (i < 3)%nat -> In n (nth i rows []) -> (n < 18)%nat /\ dof_sym n = symc i) ->
    (forall i j, symc i = symc j -> i = j) ->
    (forall i, (i < 3)%nat -> NoDup (nth i rows [])) ->
    (forall a b, (a < 3)%nat -> (b < 3)%nat -> items a = items b -> a = b) ->
    (forall a, (a < 3)%nat -> NoDup (nth (items a) nbrs [])) ->
    NoDup (map key (pass d loc nbrs rows val items)).
  Proof.
    intros Hsym Hinj Hrows Hitems Hnb. unfold pass.
    apply NoDup_map_flat_map; [apply seq_NoDup| |].
    - intros a Ha. apply in_seq in Ha. apply NoDup_map_flat_map; [apply Hnb; lia| |].
      + intros nb _. destruct (index_of nb SF); [|constructor]. destruct (first_local (loc nb) (items a)) as [i|] eqn:Hf; [|constructor].
        apply first_local_spec in Hf. apply NoDup_block, Hrows. tauto.
      + intros x y b1 b2 _ _ H1 H2 Hk.
        destruct (index_of x SF) as [fx|] eqn:Hx; [|destruct H1]. destruct (index_of y SF) as [fy|] eqn:Hy; [|destruct H2].
        destruct (first_local (loc x) (items a)) as [ix|] eqn:Fx; [|destruct H1].
        destruct (first_local (loc y) (items a)) as [iy|] eqn:Fy; [|destruct H2].
        apply first_local_spec in Fx, Fy. apply in_block in H1, H2.
        destruct H1 as [n1 [N1 E1]], H2 as [n2 [N2 E2]]. subst b1 b2. unfold key in Hk. simpl in Hk. inversion Hk as [Hb].
        destruct (Hsym ix n1 (proj1 Fx) N1) as [L1 _]. destruct (Hsym iy n2 (proj1 Fy) N2) as [L2 _].
        destruct (dofs18 n1 fx n2 fy L1 L2 Hb) as [Ef _]. subst fy. exact (index_of_inj x y SF fx Hx Hy).
    - intros a b t1 t2 Ha Hb H1 H2 Hk. apply in_seq in Ha, Hb.
      apply in_flat_map in H1, H2. destruct H1 as [x [Hx H1]], H2 as [y [Hy H2]].
      destruct (index_of x SF) as [fx|] eqn:Ix; [|destruct H1]. destruct (index_of y SF) as [fy|] eqn:Iy; [|destruct H2].
      destruct (first_local (loc x) (items a)) as [ix|] eqn:Fx; [|destruct H1].
      destruct (first_local (loc y) (items b)) as [iy|] eqn:Fy; [|destruct H2].
      apply first_local_spec in Fx, Fy. apply in_block in H1, H2.
      destruct H1 as [n1 [N1 E1]], H2 as [n2 [N2 E2]]. subst t1 t2. unfold key in Hk. simpl in Hk. inversion Hk as [Hbd].
      destruct (Hsym ix n1 (proj1 Fx) N1) as [L1 S1]. destruct (Hsym iy n2 (proj1 Fy) N2) as [L2 S2].
      destruct (dofs18 n1 fx n2 fy L1 L2 Hbd) as [Ef En]. subst fy n2.
      assert (x = y) by exact (index_of_inj x y SF fx Ix Iy). subst y.
      assert (ix = iy) by (apply Hinj; congruence). subst iy.
      apply Hitems; try lia; destruct Fx as [_ Fx]; destruct Fy as [_ Fy]; congruence.
  Qed.

  Lemma edge_part_pass d E :
    edge_part truncate elements element_edges edge_neighbors vertex_neighbors dp0_support d E =
    pass d EE edge_neighbors dual1_edge_dofs (fun _ => 1 # 2) (EE E).
  Proof. reflexivity. Qed.
  Lemma vertex_part_pass d E :
    vertex_part truncate elements element_edges edge_neighbors vertex_neighbors dp0_support d E =
    pass d EL vertex_neighbors dual1_vertex_dofs
         (fun V => 1 / inject_Z (Z.of_nat (length (nth V vertex_neighbors [])))) (EL E).
  Proof. reflexivity. Qed.

  Theorem dual1_no_overlap :
    grid_wf ->
    NoDup (map key (dual1_entries truncate elements element_edges edge_neighbors vertex_neighbors dp0_support)).
  Proof.
    intros Hwf. destruct nodup_rows as [NC [NE NV]]. unfold dual1_entries.
    apply NoDup_map_flat_map.
    - (* positions are distinct *)
      assert (G : forall (l : list nat) s, NoDup (combine (seq s (length l)) l)).
      { induction l as [|x l IH]; intros s; simpl; constructor; [|apply IH].
        intro H. apply in_combine_l in H. apply in_seq in H. lia. }
      apply G.
    - intros [d E] HdE. simpl. pose proof (in_combine_r _ _ _ _ HdE) as HE. destruct (Hwf E HE) as [W1 [W2 [W3 W4]]].
      rewrite !map_app. apply NoDup_app_intro; [|apply NoDup_app_intro|].
      + unfold centre_part. fold SF. destruct (index_of E SF); [apply NoDup_block; assumption|constructor].
      + rewrite edge_part_pass. apply (pass_nodup d EE edge_neighbors dual1_edge_dofs _ (EE E) BMid); auto.
        * intros i n. apply edge_sym.
        * intros i j H. inversion H. reflexivity.
      + rewrite vertex_part_pass. apply (pass_nodup d EL vertex_neighbors dual1_vertex_dofs _ (EL E) BCorner); auto.
        * intros i n. apply vertex_sym.
        * intros i j H. inversion H. reflexivity.
      + (* edge vs vertex *)
        intros k H1 H2. apply in_map_iff in H1, H2. destruct H1 as [t1 [K1 H1]], H2 as [t2 [K2 H2]].
        rewrite edge_part_pass in H1. rewrite vertex_part_pass in H2. apply in_pass in H1, H2.
        destruct H1 as [a1 [nb1 [f1 [i1 [n1 [A1 [B1 [C1 [D1 [E1 [F1 G1]]]]]]]]]]].
        destruct H2 as [a2 [nb2 [f2 [i2 [n2 [A2 [B2 [C2 [D2 [E2 [F2 G2]]]]]]]]]]].
        subst t1 t2 k. unfold key in K2. simpl in K2. inversion K2 as [Hb].
        destruct (edge_sym i1 n1 D1 F1) as [L1 S1]. destruct (vertex_sym i2 n2 D2 F2) as [L2 S2].
        destruct (dofs18 n2 f2 n1 f1 L2 L1 Hb) as [_ En]. subst n2. congruence.
      + (* centre vs edge/vertex *)
        intros k H1 H2. apply in_map_iff in H1. destruct H1 as [t1 [K1 H1]].
        unfold centre_part in H1. fold SF in H1. destruct (index_of E SF) as [fc|]; [|destruct H1].
        apply in_block in H1. destruct H1 as [nc [NC1 Et1]]. destruct (centre_sym nc NC1) as [Lc Sc].
        rewrite <- map_app in H2. apply in_map_iff in H2. destruct H2 as [t2 [K2 H2]]. apply in_app_iff in H2.
        subst t1 k. unfold key in K2. simpl in K2.
        destruct H2 as [H2|H2]; [rewrite edge_part_pass in H2|rewrite vertex_part_pass in H2]; apply in_pass in H2;
          destruct H2 as [a2 [nb2 [f2 [i2 [n2 [A2 [B2 [C2 [D2 [E2 [F2 G2]]]]]]]]]]]; subst t2; simpl in K2; inversion K2 as [Hb].
        * destruct (edge_sym i2 n2 D2 F2) as [L2 S2]. destruct (dofs18 n2 f2 nc fc L2 Lc Hb) as [_ En]. subst. congruence.
        * destruct (vertex_sym i2 n2 D2 F2) as [L2 S2]. destruct (dofs18 n2 f2 nc fc L2 Lc Hb) as [_ En]. subst. congruence.
    - (* different dofs: the coarse dof is part of the key *)
      intros [d1 E1] [d2 E2] t1 t2 H1 H2 T1 T2 Hk.
      assert (P : forall d E t, In t (centre_part truncate elements element_edges edge_neighbors vertex_neighbors dp0_support d E ++
                                      edge_part truncate elements element_edges edge_neighbors vertex_neighbors dp0_support d E ++
                                      vertex_part truncate elements element_edges edge_neighbors vertex_neighbors dp0_support d E) ->
                                snd (key t) = d).
      { intros d E t Ht. rewrite !in_app_iff in Ht. destruct Ht as [Ht|[Ht|Ht]].
        - unfold centre_part in Ht. destruct (index_of E _); [|destruct Ht]. apply in_block in Ht. destruct Ht as [n0 [_ ->]]. reflexivity.
        - rewrite edge_part_pass in Ht. apply in_pass in Ht. destruct Ht as [a [nb [f [i [n0 [_ [_ [_ [_ [_ [_ ->]]]]]]]]]]]. reflexivity.
        - rewrite vertex_part_pass in Ht. apply in_pass in Ht. destruct Ht as [a [nb [f [i [n0 [_ [_ [_ [_ [_ [_ ->]]]]]]]]]]]. reflexivity. }
      simpl in T1, T2. apply P in T1, T2. assert (d1 = d2) by congruence. subst d2.
      destruct (in_combine_seq _ _ _ _ H1) as [_ N1]. destruct (in_combine_seq _ _ _ _ H2) as [_ N2]. congruence.
  Qed.
End NoOverlap.
