(* C10 finding -- dual1_function_space of the UNCHANGED tree writes its "1 at the barycentre" into the six
   edge-midpoint dofs.  Stops compiling once repaired (docs/fixes/c10_dual1_barycentre_dofs.diff): delete it and
   switch props/C10.v as in docs/fixes/c10_verif_after_dual1_fix.diff. *)
From Coq Require Import QArith List Arith Bool Lia.
From BV Require Import Bary.Syms Bary.Model.
From BVgen Require Import BaryTables.
Import ListNotations.

Lemma dual1_centre_refuted :
  dual1_centre_status = false /\ dual1_centre_is_midpoints = true /\
  exists n, In n dual1_centre_dofs /\ dof_sym n = BMid 0.
Proof.
  split; [vm_compute; reflexivity|]. split; [vm_compute; reflexivity|].
  exists 1%nat. split; [vm_compute; auto|vm_compute; reflexivity].
Qed.
