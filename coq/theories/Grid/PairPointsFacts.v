(* C01_singular_pair_points: for every singular pair of get_arrays() the stored offsets select, in the concatenated
   rule arrays, the points whose images under local2global are those of the canonical configuration "shared vertices
   first" -- expressed through the global vertex coordinates, hence independent of the local numbering. *)
From Coq Require Import QArith ZArith List Arith Bool Lia.
From BV Require Import Quad.Rules Quad.DuffyExact Grid.Topology Grid.PairFacts Grid.AdjacencyFacts Grid.Geometry
  Grid.GeometryFacts Grid.Refine Grid.SingularOffsets Grid.SingularOffsetsFacts.
Import ListNotations.
Close Scope Q_scope.
Open Scope nat_scope.

Definition phys (x0 x1 x2 : vec) (q : Q * Q) : vec := l2g x0 x1 x2 (fst q) (snd q).
(* A + p1 (B - A) + p2 (C - A) *)
Definition canon (A B C : vec) (p : Q * Q) : vec :=
  vadd A (vadd (vscale (fst p) (vsub B A)) (vscale (snd p) (vsub C A))).
Definition vsel (x0 x1 x2 : vec) (k : nat) : vec := match k with 0 => x0 | 1 => x1 | _ => x2 end.

Lemma phys_remap_edge x0 x1 x2 v0 v1 p : v0 < 3 -> v1 < 3 -> v0 <> v1 ->
  veq (phys x0 x1 x2 (remap_edge v0 v1 p)) (canon (vsel x0 x1 x2 v0) (vsel x0 x1 x2 v1) (vsel x0 x1 x2 (3 - v0 - v1)) p).
Proof.
  intros H0 H1 Hn. destruct p as [p1 p2]. vdestruct.
  destruct v0 as [|[|[|v0]]]; destruct v1 as [|[|[|v1]]]; try lia;
    unfold phys, canon, remap_edge, ref_vertex, vsel; cbn [fst snd Nat.sub]; vunfold; repeat split; ring.
Qed.

Lemma phys_remap_vertex x0 x1 x2 k p : k < 3 ->
  veq (phys x0 x1 x2 (remap_vertex k p)) (canon (vsel x0 x1 x2 k) (vsel x0 x1 x2 (vperm k 1)) (vsel x0 x1 x2 (vperm k 2)) p).
Proof.
  intros H. destruct p as [p1 p2]. vdestruct.
  destruct k as [|[|[|k]]]; try lia;
    unfold phys, canon, remap_vertex, remap_vertex_expr, vsel, vperm; cbn; vunfold; repeat split; ring.
Qed.

Section Points.
Variables (els : list elem) (vs : list vec).
Hypothesis W : elems_distinct_vertices els = true.
Definition XP (e k : nat) : vec := vat vs (vget (el els e) k).
Lemma vsel_XP e k : k < 3 -> vsel (XP e 0) (XP e 1) (XP e 2) k = XP e k.
Proof. intro H. destruct k as [|[|[|k]]]; try lia; reflexivity. Qed.

(* edge-adjacent pair: both elements' quadrature points are images of the same reference configuration with the two
   shared vertices A, B first *)
Theorem edge_pair_points tbl e f i0 i1 j0 j1 (p : Q * Q) :
  edge_adjacency els = Some tbl -> In (e, f, i0, i1, j0, j1) tbl ->
  let A := XP e i0 in let B := XP e i1 in
  A = XP f j0 /\ B = XP f j1 /\
  veq (phys (XP e 0) (XP e 1) (XP e 2) (remap_edge i0 i1 p)) (canon A B (XP e (3 - i0 - i1)) p) /\
  veq (phys (XP f 0) (XP f 1) (XP f 2) (remap_edge j0 j1 p)) (canon A B (XP f (3 - j0 - j1)) p).
Proof.
  intros Ht Hin. destruct (edge_rows_correct els tbl e f i0 i1 j0 j1 W Ht Hin)
    as (_ & _ & _ & A0 & A1 & B0 & B1 & Na & Nb & E0 & E1 & _).
  assert (QA : XP e i0 = XP f j0) by (unfold XP; rewrite E0; reflexivity).
  assert (QB : XP e i1 = XP f j1) by (unfold XP; rewrite E1; reflexivity).
  cbn zeta. split; [exact QA|]. split; [exact QB|]. split.
  - pose proof (phys_remap_edge (XP e 0) (XP e 1) (XP e 2) i0 i1 p A0 A1 Na) as H.
    rewrite !vsel_XP in H by lia. exact H.
  - pose proof (phys_remap_edge (XP f 0) (XP f 1) (XP f 2) j0 j1 p B0 B1 ltac:(lia)) as H.
    rewrite !vsel_XP in H by lia. rewrite QA, QB. exact H.
Qed.

Theorem vertex_pair_points tbl e f i j (p : Q * Q) :
  vertex_adjacency els = Some tbl -> In (e, f, i, j) tbl ->
  let A := XP e i in
  A = XP f j /\
  veq (phys (XP e 0) (XP e 1) (XP e 2) (remap_vertex i p)) (canon A (XP e (vperm i 1)) (XP e (vperm i 2)) p) /\
  veq (phys (XP f 0) (XP f 1) (XP f 2) (remap_vertex j p)) (canon A (XP f (vperm j 1)) (XP f (vperm j 2)) p).
Proof.
  intros Ht Hin. destruct (vertex_rows_correct els tbl e f i j W Ht Hin) as (_ & _ & _ & A0 & B0 & E0 & _).
  assert (P : forall k m, k < 3 -> m = 1 \/ m = 2 -> vperm k m < 3).
  { intros k m Hk [->| ->]; destruct k as [|[|[|k]]]; cbn; lia. }
  assert (QA : XP e i = XP f j) by (unfold XP; rewrite E0; reflexivity).
  cbn zeta. split; [exact QA|]. split.
  - pose proof (phys_remap_vertex (XP e 0) (XP e 1) (XP e 2) i p A0) as H.
    rewrite !vsel_XP in H by (auto using P). exact H.
  - pose proof (phys_remap_vertex (XP f 0) (XP f 1) (XP f 2) j p B0) as H.
    rewrite !vsel_XP in H by (auto using P). rewrite QA. exact H.
Qed.
End Points.

(* the offsets stored (as uint32) for the k-th edge-adjacent pair of get_arrays() select the blocks remapped with
   that pair's own local indices, for the test and the trial points *)
Theorem edge_pair_blocks (els : list elem) order ts rs ea va rc re rv k :
  elems_distinct_vertices els = true -> edge_adjacency els = Some ea ->
  (1 <= order <= 30)%Z -> duffy order 0 = Some rc -> duffy order 1 = Some re -> duffy order 2 = Some rv ->
  k < length (filter_edge ts rs ea) ->
  let A := vectorize order ts rs ea va in
  let pos := length (coincident_indices ts rs) + k in
  let TP := vectorize_points (map test_pt rc) (map test_pt re) (map test_pt rv) in
  let RP := vectorize_points (map trial_pt rc) (map trial_pt re) (map trial_pt rv) in
  match nth k (filter_edge ts rs ea) (0, 0, 0, 0, 0, 0) with
  | (e, f, i0, i1, j0, j1) =>
    nth pos (s_test_indices A) 0 = e /\ nth pos (s_trial_indices A) 0 = f /\
    slice (Z.to_nat (nth pos (s_test_offsets A) 0%Z)) (Z.to_nat (nth pos (s_nquad A) 0%Z)) TP
      = map (remap_edge i0 i1) (map test_pt re) /\
    slice (Z.to_nat (nth pos (s_trial_offsets A) 0%Z)) (Z.to_nat (nth pos (s_nquad A) 0%Z)) RP
      = map (remap_edge j0 j1) (map trial_pt re)
  end.
Proof.
  intros W Hea Ho Hc He Hv Hk A pos TP RP.
  pose proof (vectorize_edge_entry order ts rs ea va k Hk) as V. cbn zeta in V.
  destruct (nth k (filter_edge ts rs ea) (0, 0, 0, 0, 0, 0)) as [[[[[e f] i0] i1] j0] j1] eqn:E.
  destruct V as (V1 & V2 & V3 & V4 & _ & V6). fold A in V1, V2, V3, V4, V6. fold pos in V1, V2, V3, V4, V6.
  assert (Hin : In (e, f, i0, i1, j0, j1) ea).
  { assert (X : In (e, f, i0, i1, j0, j1) (filter_edge ts rs ea)) by (rewrite <- E; apply nth_In; exact Hk).
    unfold filter_edge in X. apply filter_In in X. tauto. }
  destruct (edge_rows_correct els ea e f i0 i1 j0 j1 W Hea Hin) as (_ & _ & _ & A0 & A1 & B0 & B1 & Na & Nb & _).
  destruct (offsets_fit_u32 order Ho) as (FE & _ & _ & F1 & _).
  rewrite V1, V2, V3, V4, V6, F1, !FE by (try assumption; lia).
  split; [reflexivity|]. split; [reflexivity|]. split.
  - destruct (offsets_select_remap order rc re rv test_pt q_w Ho Hc He Hv) as (_ & _ & S & _). apply S; assumption.
  - destruct (offsets_select_remap order rc re rv trial_pt q_w Ho Hc He Hv) as (_ & _ & S & _). apply S; [assumption|assumption|lia].
Qed.

Theorem vertex_pair_blocks (els : list elem) order ts rs ea va rc re rv k :
  elems_distinct_vertices els = true -> vertex_adjacency els = Some va ->
  (1 <= order <= 30)%Z -> duffy order 0 = Some rc -> duffy order 1 = Some re -> duffy order 2 = Some rv ->
  k < length (filter_vertex ts rs va) ->
  let A := vectorize order ts rs ea va in
  let pos := length (coincident_indices ts rs) + length (filter_edge ts rs ea) + k in
  let TP := vectorize_points (map test_pt rc) (map test_pt re) (map test_pt rv) in
  let RP := vectorize_points (map trial_pt rc) (map trial_pt re) (map trial_pt rv) in
  match nth k (filter_vertex ts rs va) (0, 0, 0, 0) with
  | (e, f, i, j) =>
    nth pos (s_test_indices A) 0 = e /\ nth pos (s_trial_indices A) 0 = f /\
    slice (Z.to_nat (nth pos (s_test_offsets A) 0%Z)) (Z.to_nat (nth pos (s_nquad A) 0%Z)) TP
      = map (remap_vertex i) (map test_pt rv) /\
    slice (Z.to_nat (nth pos (s_trial_offsets A) 0%Z)) (Z.to_nat (nth pos (s_nquad A) 0%Z)) RP
      = map (remap_vertex j) (map trial_pt rv)
  end.
Proof.
  intros W Hva Ho Hc He Hv Hk A pos TP RP.
  pose proof (vectorize_vertex_entry order ts rs ea va k Hk) as V. cbn zeta in V.
  destruct (nth k (filter_vertex ts rs va) (0, 0, 0, 0)) as [[[e f] i] j] eqn:E.
  destruct V as (V1 & V2 & V3 & V4 & _ & V6). fold A in V1, V2, V3, V4, V6. fold pos in V1, V2, V3, V4, V6.
  assert (Hin : In (e, f, i, j) va).
  { assert (X : In (e, f, i, j) (filter_vertex ts rs va)) by (rewrite <- E; apply nth_In; exact Hk).
    unfold filter_vertex in X. apply filter_In in X. tauto. }
  destruct (vertex_rows_correct els va e f i j W Hva Hin) as (_ & _ & _ & A0 & B0 & _).
  destruct (offsets_fit_u32 order Ho) as (_ & FV & _ & _ & F2 & _).
  rewrite V1, V2, V3, V4, V6, F2, !FV by assumption.
  split; [reflexivity|]. split; [reflexivity|]. split.
  - destruct (offsets_select_remap order rc re rv test_pt q_w Ho Hc He Hv) as (_ & _ & _ & S & _). apply S; assumption.
  - destruct (offsets_select_remap order rc re rv trial_pt q_w Ho Hc He Hv) as (_ & _ & _ & S & _). apply S; assumption.
Qed.
