(* C01_pair_coverage: regular pairs visited by the colour loop + singular pairs of get_arrays() = every ordered pair of
   the supports, each exactly once. *)
From Coq Require Import List Arith Bool Lia Permutation.
From BV Require Import Grid.Topology Grid.ListFacts Grid.PairFacts Grid.AdjacencyFacts Grid.SingularOffsets
  Grid.SingularOffsetsFacts Grid.PairCoverage.
Import ListNotations.

Lemma color_lt_ncolors cm k : In (Some k) cm -> k < ncolors cm.
Proof.
  induction cm as [|c r IH]; intros H; [destruct H|]. destruct H as [->|H].
  - change (k < Nat.max (S k) (ncolors r)). apply Nat.lt_le_trans with (S k); [lia|apply Nat.le_max_l].
  - change (k < match c with Some k0 => Nat.max (S k0) (ncolors r) | None => ncolors r end).
    specialize (IH H). destruct c; [eapply Nat.lt_le_trans; [exact IH|apply Nat.le_max_r]|exact IH].
Qed.

Lemma NoDup_concat_classes {A} (f : nat -> list A) : (forall c, NoDup (f c)) ->
  (forall c c' x, c <> c' -> In x (f c) -> In x (f c') -> False) ->
  forall k a, NoDup (concat (map f (seq a k))).
Proof.
  intros N D. induction k as [|k IH]; intros a; cbn; [constructor|].
  apply NoDup_app_intro; [apply N|apply IH|].
  intros x H1 H2. apply in_concat in H2 as [l [Hl Hx]]. apply in_map_iff in Hl as [c [<- Hc]].
  apply in_seq in Hc. apply (D a c x); [lia|exact H1|exact Hx].
Qed.

Lemma sorted_indices_in cm e : In e (sorted_indices cm) <-> e < length cm /\ nth e cm None <> None.
Proof.
  unfold sorted_indices, elements_by_color. rewrite in_concat. split.
  - intros [l [Hl He]]. apply in_map_iff in Hl as [c [<- Hc]]. unfold color_class in He.
    apply filter_In in He as [He Hc']. apply in_seq in He. split; [lia|]. unfold has_color in Hc'.
    destruct (nth e cm None); [discriminate|discriminate].
  - intros [He Hn]. destruct (nth e cm None) as [k|] eqn:E; [|congruence].
    exists (color_class cm k). split.
    + apply in_map, in_seq. split; [lia|]. cbn. apply color_lt_ncolors. rewrite <- E. apply nth_In. exact He.
    + unfold color_class. apply filter_In. split; [apply in_seq; lia|]. unfold has_color. rewrite E. apply Nat.eqb_refl.
Qed.

Lemma sorted_indices_NoDup cm : NoDup (sorted_indices cm).
Proof.
  unfold sorted_indices, elements_by_color. apply NoDup_concat_classes.
  - intro c. apply NoDup_filter, seq_NoDup.
  - intros c c' x Hcc H1 H2. unfold color_class in *. apply filter_In in H1 as [_ H1], H2 as [_ H2].
    unfold has_color in *. destruct (nth x cm None); [|discriminate]. apply Nat.eqb_eq in H1, H2. lia.
Qed.

Lemma list_prod_app {A B} (a b : list A) (l : list B) : list_prod (a ++ b) l = list_prod a l ++ list_prod b l.
Proof. induction a as [|x a IH]; cbn; [reflexivity|]. rewrite IH, app_assoc. reflexivity. Qed.

Lemma flat_prod_filter {A B} (g : A * B -> bool) (T : list B) (classes : list (list A)) :
  flat_map (fun cls => filter g (list_prod cls T)) classes = filter g (list_prod (concat classes) T).
Proof.
  induction classes as [|c r IH]; cbn; [reflexivity|]. rewrite list_prod_app, filter_app, IH. reflexivity.
Qed.
Lemma regular_pairs_flat els cm_test cm_trial :
  regular_pairs els cm_test cm_trial =
  filter (not_adjacent els) (list_prod (sorted_indices cm_test) (sorted_indices cm_trial)).
Proof. unfold regular_pairs. apply flat_prod_filter. Qed.

Lemma colours_match_spec cm s e : colours_match cm s = true -> e < length s ->
  (nth e cm None <> None <-> nth e s false = true) /\ length cm = length s.
Proof.
  unfold colours_match. rewrite andb_true_iff, Nat.eqb_eq, forallb_forall. intros [L H] He.
  split; [|exact L]. specialize (H e ltac:(apply in_seq; lia)). apply eqb_prop in H.
  destruct (nth e cm None); rewrite <- H; split; congruence.
Qed.

Lemma colours_match_len cm s : colours_match cm s = true -> length cm = length s.
Proof. unfold colours_match. rewrite andb_true_iff, Nat.eqb_eq. tauto. Qed.

Section Coverage.
Variables (els : list elem) (ts rs : list bool) (cm_test cm_trial : list (option nat)).
Notation n := (length els).
Hypothesis W : wf_grid els = true.
Hypothesis Lt : length ts = n.
Hypothesis Lr : length rs = n.
Hypothesis Ct : colours_match cm_test ts = true.
Hypothesis Cr : colours_match cm_trial rs = true.
Variables (ea : list erow) (va : list vrow).
Hypothesis Hea : edge_adjacency els = Some ea.
Hypothesis Hva : vertex_adjacency els = Some va.

Notation reg := (regular_pairs els cm_test cm_trial).
Notation sing := (singular_pairs ts rs ea va).
Definition in_supports (p : nat * nat) : bool := sup ts (fst p) && sup rs (snd p).
Notation target := (filter in_supports (all_pairs n)).

Lemma sorted_test e : In e (sorted_indices cm_test) <-> e < n /\ sup ts e = true.
Proof.
  rewrite sorted_indices_in. rewrite (colours_match_len _ _ Ct), Lt. split.
  - intros [He Hc]. split; [exact He|]. apply (colours_match_spec cm_test ts e Ct); [lia|exact Hc].
  - intros [He Hs]. split; [exact He|]. apply (colours_match_spec cm_test ts e Ct); [lia|exact Hs].
Qed.
Lemma sorted_trial e : In e (sorted_indices cm_trial) <-> e < n /\ sup rs e = true.
Proof.
  rewrite sorted_indices_in. rewrite (colours_match_len _ _ Cr), Lr. split.
  - intros [He Hc]. split; [exact He|]. apply (colours_match_spec cm_trial rs e Cr); [lia|exact Hc].
  - intros [He Hs]. split; [exact He|]. apply (colours_match_spec cm_trial rs e Cr); [lia|exact Hs].
Qed.

Lemma reg_in e f : In (e, f) reg <->
  e < n /\ f < n /\ sup ts e = true /\ sup rs f = true /\ elements_adjacent (el els e) (el els f) = false.
Proof.
  rewrite regular_pairs_flat, filter_In, in_prod_iff, sorted_test, sorted_trial. unfold not_adjacent. cbn [fst snd].
  rewrite negb_true_iff. tauto.
Qed.

Lemma sup_lt (s : list bool) e : length s = n -> sup s e = true -> e < n.
Proof.
  intros L H. unfold sup in H. destruct (Nat.lt_ge_cases e n); [assumption|].
  rewrite nth_overflow in H by lia. discriminate.
Qed.

Lemma epair_eq r : epair r = erow_pair r. Proof. destruct r as [[[[[? ?] ?] ?] ?] ?]. reflexivity. Qed.
Lemma vpair_eq r : vpair r = vrow_pair r. Proof. destruct r as [[[? ?] ?] ?]. reflexivity. Qed.

(* classification of a pair of the supports through C01_pair_partition *)
Lemma classify e f : e < n -> f < n ->
  let in_e := exists r, In r ea /\ erow_pair r = (e, f) in
  let in_v := exists r, In r va /\ vrow_pair r = (e, f) in
  let adj := elements_adjacent (el els e) (el els f) in
  (e = f /\ adj = true /\ ~ in_e /\ ~ in_v) \/ (e <> f /\ adj = true /\ in_e /\ ~ in_v) \/
  (e <> f /\ adj = true /\ ~ in_e /\ in_v) \/ (e <> f /\ adj = false /\ ~ in_e /\ ~ in_v).
Proof.
  intros He Hf. destruct (pair_partition els e f W He Hf) as (etbl & vtbl & E1 & E2 & _ & _ & H).
  rewrite Hea in E1. rewrite Hva in E2. inversion E1; inversion E2; subst etbl vtbl. cbn zeta in *.
  destruct H as [H|[H|[H|H]]]; [left; tauto| |right; right; left|right; right; right; tauto].
  - right; left. destruct H as (A & B & (r & R1 & R2 & _) & D). repeat split; auto. exists r. auto.
  - destruct H as (A & B & C & (r & R1 & R2 & _)). repeat split; auto. exists r. auto.
Qed.

Lemma row_unique_e r r' : In r ea -> In r' ea -> erow_pair r = erow_pair r' -> r = r'.
Proof.
  intros H H' E. unfold wf_grid in W. apply andb_true_iff in W as [W1 _].
  destruct (edge_adjacency_exact els W1) as (tbl & Ht & _ & I). rewrite Hea in Ht. inversion Ht; subst tbl.
  destruct r as [[[[[e f] a] b] c] d], r' as [[[[[e' f'] a'] b'] c'] d']. cbn in E. inversion E; subst e' f'.
  apply I in H as (_ & _ & _ & S1). apply I in H' as (_ & _ & _ & S2). rewrite S1 in S2. inversion S2. reflexivity.
Qed.
Lemma row_unique_v r r' : In r va -> In r' va -> vrow_pair r = vrow_pair r' -> r = r'.
Proof.
  intros H H' E. unfold wf_grid in W. apply andb_true_iff in W as [W1 _].
  destruct (vertex_adjacency_exact els W1) as (tbl & Ht & _ & I). rewrite Hva in Ht. inversion Ht; subst tbl.
  destruct r as [[[e f] a] b], r' as [[[e' f'] a'] b']. cbn in E. inversion E; subst e' f'.
  apply I in H as (_ & _ & _ & S1). apply I in H' as (_ & _ & _ & S2). rewrite S1 in S2. inversion S2. reflexivity.
Qed.
Lemma row_range_e r : In r ea -> fst (erow_pair r) < n /\ snd (erow_pair r) < n.
Proof.
  intros H. unfold wf_grid in W. apply andb_true_iff in W as [W1 _].
  destruct (edge_adjacency_exact els W1) as (tbl & Ht & _ & I). rewrite Hea in Ht. inversion Ht; subst tbl.
  destruct r as [[[[[e f] a] b] c] d]. apply I in H. cbn. tauto.
Qed.
Lemma row_range_v r : In r va -> fst (vrow_pair r) < n /\ snd (vrow_pair r) < n.
Proof.
  intros H. unfold wf_grid in W. apply andb_true_iff in W as [W1 _].
  destruct (vertex_adjacency_exact els W1) as (tbl & Ht & _ & I). rewrite Hva in Ht. inversion Ht; subst tbl.
  destruct r as [[[e f] a] b]. apply I in H. cbn. tauto.
Qed.

Lemma sing_in e f : In (e, f) sing <->
  (e = f /\ sup ts e = true /\ sup rs e = true) \/
  (exists r, In r ea /\ erow_pair r = (e, f) /\ sup ts e = true /\ sup rs f = true) \/
  (exists r, In r va /\ vrow_pair r = (e, f) /\ sup ts e = true /\ sup rs f = true).
Proof.
  destruct (support_filter ts rs ea va) as (FE & FV & FC & _).
  unfold singular_pairs. rewrite !in_app_iff, !in_map_iff. split.
  - intros [[x [E Hx]]|[[r [E Hr]]|[r [E Hr]]]].
    + inversion E; subst. apply FC in Hx. left. tauto.
    + right; left. apply FE in Hr as (A & B & C). rewrite epair_eq in E. rewrite E in B, C. exists r. cbn in *. tauto.
    + right; right. apply FV in Hr as (A & B & C). rewrite vpair_eq in E. rewrite E in B, C. exists r. cbn in *. tauto.
  - intros [(-> & A & B)|[(r & A & B & C & D)|(r & A & B & C & D)]].
    + left. exists f. split; [reflexivity|apply FC; tauto].
    + right; left. exists r. split; [rewrite epair_eq; exact B|]. apply FE. rewrite B. cbn. tauto.
    + right; right. exists r. split; [rewrite vpair_eq; exact B|]. apply FV. rewrite B. cbn. tauto.
Qed.

Lemma target_in e f : In (e, f) target <-> e < n /\ f < n /\ sup ts e = true /\ sup rs f = true.
Proof. rewrite filter_In, all_pairs_in. unfold in_supports. cbn [fst snd]. rewrite andb_true_iff. tauto. Qed.

(* every ordered pair of the supports is integrated by exactly one rule, exactly once *)
Theorem pair_coverage :
  NoDup (reg ++ sing) /\ (forall p, In p (reg ++ sing) <-> In p target) /\ Permutation (reg ++ sing) target.
Proof.
  assert (IFF : forall p, In p (reg ++ sing) <-> In p target).
  { intros [e f]. rewrite in_app_iff, reg_in, sing_in, target_in. split.
    - intros [H|[(-> & A & B)|[(r & A & B & C & D)|(r & A & B & C & D)]]].
      + tauto.
      + pose proof (sup_lt ts f Lt A). tauto.
      + pose proof (row_range_e r A) as R. rewrite B in R. cbn in R. tauto.
      + pose proof (row_range_v r A) as R. rewrite B in R. cbn in R. tauto.
    - intros (He & Hf & A & B). destruct (classify e f He Hf) as [C|[C|[C|C]]]; cbn zeta in C.
      + right; left. destruct C as (-> & _). tauto.
      + right; right; left. destruct C as (_ & _ & (r & R1 & R2) & _). exists r. tauto.
      + right; right; right. destruct C as (_ & _ & _ & (r & R1 & R2)). exists r. tauto.
      + left. tauto. }
  assert (ND : NoDup (reg ++ sing)).
  { apply NoDup_app_intro.
    - rewrite regular_pairs_flat. apply NoDup_filter, NoDup_list_prod; apply sorted_indices_NoDup.
    - unfold singular_pairs. destruct (support_filter ts rs ea va) as (FE & FV & FC & NC).
      assert (NE : NoDup ea).
      { unfold wf_grid in W. apply andb_true_iff in W as [W1 _].
        destruct (edge_adjacency_exact els W1) as (tbl & Ht & N & _). rewrite Hea in Ht. inversion Ht; subst; exact N. }
      assert (NV : NoDup va).
      { unfold wf_grid in W. apply andb_true_iff in W as [W1 _].
        destruct (vertex_adjacency_exact els W1) as (tbl & Ht & N & _). rewrite Hva in Ht. inversion Ht; subst; exact N. }
      apply NoDup_app_intro; [|apply NoDup_app_intro|].
      + apply NoDup_map_inj; [|exact NC]. intros x y _ _ E. inversion E. reflexivity.
      + apply NoDup_map_inj; [|apply NoDup_filter; exact NE]. intros x y Hx Hy E. rewrite !epair_eq in E.
        apply FE in Hx as [Hx _], Hy as [Hy _]. apply row_unique_e; assumption.
      + apply NoDup_map_inj; [|apply NoDup_filter; exact NV]. intros x y Hx Hy E. rewrite !vpair_eq in E.
        apply FV in Hx as [Hx _], Hy as [Hy _]. apply row_unique_v; assumption.
      + intros [e f] H1 H2. apply in_map_iff in H1 as [r [E1 H1]], H2 as [r' [E2 H2]].
        rewrite epair_eq in E1. rewrite vpair_eq in E2. apply FE in H1 as [H1 _]. apply FV in H2 as [H2 _].
        pose proof (row_range_e r H1) as R. rewrite E1 in R. cbn in R.
        destruct (classify e f (proj1 R) (proj2 R)) as [C|[C|[C|C]]]; cbn zeta in C.
        * destruct C as (_ & _ & C & _). apply C. exists r. tauto.
        * destruct C as (_ & _ & _ & C). apply C. exists r'. tauto.
        * destruct C as (_ & _ & C & _). apply C. exists r. tauto.
        * destruct C as (_ & _ & C & _). apply C. exists r. tauto.
      + intros [e f] H1 H2. apply in_map_iff in H1 as [x [E1 H1]]. inversion E1; subst e f.
        apply FC in H1 as [A B]. pose proof (sup_lt ts x Lt A) as Hx.
        destruct (classify x x Hx Hx) as [C|[C|[C|C]]]; cbn zeta in C; try (destruct C as (C & _); congruence).
        destruct C as (_ & _ & C1 & C2). apply in_app_or in H2 as [H2|H2]; apply in_map_iff in H2 as [r [E H2]].
        * rewrite epair_eq in E. apply FE in H2 as [H2 _]. apply C1. exists r. tauto.
        * rewrite vpair_eq in E. apply FV in H2 as [H2 _]. apply C2. exists r. tauto.
    - intros [e f] H1 H2. apply reg_in in H1 as (He & Hf & _ & _ & Adj). apply sing_in in H2.
      destruct (classify e f He Hf) as [C|[C|[C|C]]]; cbn zeta in C; try (destruct C as (_ & C & _); congruence).
      destruct C as (Ne & _ & C1 & C2). destruct H2 as [(E & _)|[(r & A & B & _)|(r & A & B & _)]].
      + congruence.
      + apply C1. exists r. tauto.
      + apply C2. exists r. tauto. }
  split; [exact ND|]. split; [exact IFF|].
  apply NoDup_Permutation; [exact ND|apply NoDup_filter, all_pairs_NoDup|exact IFF].
Qed.
End Coverage.
