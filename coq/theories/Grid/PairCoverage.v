(* Executable model (tie H) of which ordered element pairs the dense assembler integrates, and with which rule:
     Space._sort_elements_by_color / get_elements_by_color            -> elements_by_color, sorted_indices
     numba_assemblers.dense_assembler colour loop + default_scalar_regular_kernel's skip
       `if grids_identical and elements_adjacent(...)`                 -> regular_pairs
     _SingularQuadratureRuleInterfaceGalerkin.__init__ / _vectorize_indices
       (coincident, edge-adjacent, vertex-adjacent pairs in the supports) -> singular_pairs
   color_map is the per-element colour (None = -1 = not in the support).  No proofs here. *)
From Coq Require Import List Arith Bool.
From BV Require Import Grid.Topology Grid.SingularOffsets.
Import ListNotations.

(* 1 + max(color_map), 0 when every entry is -1 *)
Definition ncolors (cm : list (option nat)) : nat :=
  fold_right (fun c acc => match c with Some k => Nat.max (S k) acc | None => acc end) 0 cm.
Definition has_color (cm : list (option nat)) (c e : nat) : bool :=
  match nth e cm None with Some k => k =? c | None => false end.
(* np.where(color_map == color)[0] *)
Definition color_class (cm : list (option nat)) (c : nat) : list nat :=
  filter (has_color cm c) (seq 0 (length cm)).
Definition elements_by_color (cm : list (option nat)) : list (list nat) :=
  map (color_class cm) (seq 0 (ncolors cm)).
Definition sorted_indices (cm : list (option nat)) : list nat := concat (elements_by_color cm).

Definition not_adjacent (els : list elem) (p : nat * nat) : bool :=
  negb (elements_adjacent (el els (fst p)) (el els (snd p))).
(* one call of the regular kernel per test colour: test elements of that colour x all trial elements of the support,
   adjacent pairs skipped (grids_identical) *)
Definition regular_pairs (els : list elem) (cm_test cm_trial : list (option nat)) : list (nat * nat) :=
  flat_map (fun cls => filter (not_adjacent els) (list_prod cls (sorted_indices cm_trial))) (elements_by_color cm_test).

Definition epair (r : erow) : nat * nat := match r with (e, f, _, _, _, _) => (e, f) end.
Definition vpair (r : vrow) : nat * nat := match r with (e, f, _, _) => (e, f) end.
(* (test_indices[k], trial_indices[k]) of get_arrays() *)
Definition singular_pairs (ts rs : list bool) (ea : list erow) (va : list vrow) : list (nat * nat) :=
  map (fun e => (e, e)) (coincident_indices ts rs) ++ map epair (filter_edge ts rs ea) ++ map vpair (filter_vertex ts rs va).

(* the support of a space = the elements that carry a colour *)
Definition colours_match (cm : list (option nat)) (s : list bool) : bool :=
  (length cm =? length s) &&
  forallb (fun e => Bool.eqb (match nth e cm None with Some _ => true | None => false end) (nth e s false))
          (seq 0 (length s)).
