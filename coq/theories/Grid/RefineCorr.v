(* Comparison functions for the correspondence of refine / barycentric_refinement / union / grid_from_segments. *)
From Coq Require Import QArith List Arith Bool.
From BV Require Import Grid.Topology Grid.Geometry Grid.GridCorr Grid.Refine.
Import ListNotations.
Close Scope Q_scope.
Open Scope nat_scope.

Definition grid_close (m impl : cgrid) : bool :=
  forallb2 (vclose geom_tol) (g_vs impl) (g_vs m) && leqb p3eqb (g_els m) (g_els impl) &&
  leqb Nat.eqb (g_dom m) (g_dom impl).
Definition refine_case_ok (c : cgrid * cgrid) : bool := grid_close (refine (fst c)) (snd c).
Definition bary_case_ok (c : cgrid * cgrid) : bool := grid_close (barycentric (fst c)) (snd c).

(* equality up to a renumbering of the vertices *)
Definition corner_pairs (a b : list elem) : list (nat * nat) :=
  flat_map (fun p => [(vget (fst p) 0, vget (snd p) 0); (vget (fst p) 1, vget (snd p) 1); (vget (fst p) 2, vget (snd p) 2)])
           (combine a b).
Definition segments_case_ok (c : cgrid * list nat * cgrid) : bool :=
  let '(g, segs, impl) := c in
  let m := segments g segs in
  let ps := corner_pairs (g_els m) (g_els impl) in
  (length (g_els m) =? length (g_els impl)) && leqb Nat.eqb (g_dom m) (g_dom impl) &&
  (length (g_vs m) =? length (g_vs impl)) &&
  forallb (fun p => forallb (fun q => Bool.eqb (fst p =? fst q) (snd p =? snd q)) ps) ps &&
  forallb (fun p => (snd p <? length (g_vs impl)) && vclose geom_tol (vat (g_vs impl) (snd p)) (vat (g_vs m) (fst p))) ps.

Definition tgrid_eqb (a b : tgrid) : bool :=
  (fst (fst a) =? fst (fst b)) && leqb p3eqb (snd (fst a)) (snd (fst b)) && leqb Nat.eqb (snd a) (snd b).
Definition union_case := (list tgrid * option (list bool) * nat * option (list nat) * tgrid)%type.
Definition union_case_ok (c : union_case) : bool :=
  let '(gs, sw, mode, given, impl) := c in tgrid_eqb (union gs sw mode given) impl.
