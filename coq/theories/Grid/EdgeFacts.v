(* C11_edges_once: facts about the model of _numba_enumerate_edges, for every element list. *)
From Coq Require Import List Arith Bool PeanoNat Lia.
From BV Require Import Grid.Topology Grid.ListFacts.
Import ListNotations.

Lemma edge_eqb_spec s t : edge_eqb s t = true <-> s = t.
Proof.
  destruct s as [a b], t as [c d]. unfold edge_eqb. cbn. rewrite andb_true_iff, !Nat.eqb_eq.
  split; [intros [? ?]; subst; reflexivity|intro H; inversion H; auto].
Qed.

Lemma index_of_some t l i d : index_of t l = Some i -> i < length l /\ nth i l d = t.
Proof.
  revert i. induction l as [|h r IH]; intros i H; cbn in H; [discriminate|].
  destruct (edge_eqb h t) eqn:E.
  - inversion H; subst. cbn. split; [lia|]. apply edge_eqb_spec. exact E.
  - destruct (index_of t r) as [k|]; cbn in H; [|discriminate]. inversion H; subst.
    destruct (IH k eq_refl) as [A B]. cbn. split; [lia|exact B].
Qed.
Lemma index_of_none t l : index_of t l = None -> ~ In t l.
Proof.
  induction l as [|h r IH]; intros H; cbn in H; [intros []|].
  destruct (edge_eqb h t) eqn:E; [discriminate|].
  destruct (index_of t r) as [k|]; cbn in H; [discriminate|].
  intros [X|X]; [subst; rewrite (proj2 (edge_eqb_spec t t) eq_refl) in E; discriminate|exact (IH eq_refl X)].
Qed.

Definition dE : edge := (0, 0).

Lemma lookup_or_add_spec st t st' i : lookup_or_add st t = (st', i) ->
  (exists ext, st' = st ++ ext) /\ (NoDup st -> NoDup st') /\ i < length st' /\ nth i st' dE = t /\
  (forall g, In g st' -> In g st \/ g = t).
Proof.
  unfold lookup_or_add. destruct (index_of t st) as [k|] eqn:E; intro H; inversion H; subst.
  - destruct (index_of_some _ _ _ dE E) as [A B].
    split; [exists []; rewrite app_nil_r; reflexivity|]. repeat split; auto.
  - apply index_of_none in E. split; [eexists; reflexivity|]. split; [|split; [|split]].
    + intro N. apply NoDup_app_intro; [exact N|repeat constructor; intros []|].
      intros x Hx [Hx'|[]]. subst. exact (E Hx).
    + rewrite app_length. cbn. lia.
    + rewrite app_nth2 by lia. rewrite Nat.sub_diag. reflexivity.
    + intros g Hg. apply in_app_or in Hg as [Hg|[Hg|[]]]; auto.
Qed.

Definition edge_ok (st : list edge) (e : elem) (t : nat * nat * nat) : Prop :=
  forall l, l < 3 -> tget t l < length st /\ nth (tget t l) st dE = vertices_from_edge_index e l.

Lemma edge_ok_ext st ext e t : edge_ok st e t -> edge_ok (st ++ ext) e t.
Proof.
  intros H l Hl. destruct (H l Hl) as [A B]. split; [rewrite app_length; lia|]. rewrite app_nth1 by exact A. exact B.
Qed.

Lemma enum_elem_spec st e st' t : enum_elem st e = (st', t) ->
  (exists ext, st' = st ++ ext) /\ (NoDup st -> NoDup st') /\ edge_ok st' e t /\
  (forall g, In g st' -> In g st \/ exists l, l < 3 /\ g = vertices_from_edge_index e l).
Proof.
  unfold enum_elem.
  destruct (lookup_or_add st (vertices_from_edge_index e 0)) as [s0 i0] eqn:E0.
  destruct (lookup_or_add s0 (vertices_from_edge_index e 1)) as [s1 i1] eqn:E1.
  destruct (lookup_or_add s1 (vertices_from_edge_index e 2)) as [s2 i2] eqn:E2.
  intro H; inversion H; subst s2 t. clear H.
  apply lookup_or_add_spec in E0 as ([x0 P0] & N0 & L0 & V0 & I0).
  apply lookup_or_add_spec in E1 as ([x1 P1] & N1 & L1 & V1 & I1).
  apply lookup_or_add_spec in E2 as ([x2 P2] & N2 & L2 & V2 & I2).
  split; [exists (x0 ++ x1 ++ x2); subst; rewrite !app_assoc; reflexivity|].
  split; [auto|]. split.
  - intros l Hl. destruct l as [|[|[|l]]]; [| | |lia]; cbn [tget vget].
    + split; [subst; rewrite !app_length in *; lia|]. subst st' s1. rewrite !app_nth1; [exact V0| |]; try rewrite app_length; lia.
    + split; [subst; rewrite !app_length in *; lia|]. subst st'. rewrite app_nth1 by lia. exact V1.
    + split; [exact L2|exact V2].
  - intros g Hg. apply I2 in Hg as [Hg|Hg]; [|right; exists 2; split; [lia|exact Hg]].
    apply I1 in Hg as [Hg|Hg]; [|right; exists 1; split; [lia|exact Hg]].
    apply I0 in Hg as [Hg|Hg]; [left; exact Hg|right; exists 0; split; [lia|exact Hg]].
Qed.

Lemma enum_edges_spec els : forall st st' ees, enum_edges st els = (st', ees) ->
  (exists ext, st' = st ++ ext) /\ (NoDup st -> NoDup st') /\ length ees = length els /\
  (forall e, e < length els -> edge_ok st' (el els e) (nth e ees (0, 0, 0))) /\
  (forall g, In g st' -> In g st \/ exists e l, e < length els /\ l < 3 /\ g = vertices_from_edge_index (el els e) l).
Proof.
  induction els as [|a r IH]; intros st st' ees H; cbn in H.
  - inversion H; subst. split; [exists []; rewrite app_nil_r; reflexivity|]. repeat split; auto; cbn in *; lia.
  - destruct (enum_elem st a) as [s t] eqn:E. destruct (enum_edges s r) as [s' ees'] eqn:E'.
    inversion H; subst st' ees. clear H.
    apply enum_elem_spec in E as ([x P] & N & OK & I).
    apply IH in E' as ([x' P'] & N' & L' & OK' & I').
    split; [exists (x ++ x'); subst; rewrite app_assoc; reflexivity|]. split; [auto|].
    split; [cbn; lia|]. split.
    + intros e He. destruct e as [|e0].
      * unfold el. cbn [nth]. subst s'. apply edge_ok_ext. exact OK.
      * unfold el. cbn [nth]. apply OK'. cbn in He. lia.
    + intros g Hg. apply I' in Hg as [Hg|(e & l & He & Hl & Hg)].
      * apply I in Hg as [Hg|(l & Hl & Hg)]; [left; exact Hg|].
        right. exists 0, l. split; [cbn; lia|]. split; [exact Hl|exact Hg].
      * right. exists (S e), l. split; [cbn; lia|]. split; [exact Hl|exact Hg].
Qed.

Lemma sort_values_sorted a b : fst (sort_values a b) <= snd (sort_values a b).
Proof. unfold sort_values. destruct (Nat.ltb_spec b a); cbn; lia. Qed.
Lemma sort_values_set a b : sort_values a b = (a, b) \/ sort_values a b = (b, a).
Proof. unfold sort_values. destruct (b <? a); auto. Qed.

Section Edges.
Variable els : list elem.
Notation n := (length els).

(* every undirected edge is listed exactly once, sorted; element_edges[l,e] is the index of
   sort(elements[_EDGE_LOCAL[l], e]); no other entries *)
Theorem edges_once :
  NoDup (edges els) /\ length (element_edges els) = n /\
  (forall g, In g (edges els) -> fst g <= snd g) /\
  (forall e l, e < n -> l < 3 ->
     eedge els e l < length (edges els) /\ nth (eedge els e l) (edges els) dE = vertices_from_edge_index (el els e) l) /\
  (forall g, In g (edges els) -> exists e l, e < n /\ l < 3 /\ g = vertices_from_edge_index (el els e) l).
Proof.
  unfold eedge, edges, element_edges. destruct (enum_edges [] els) as [st' ees] eqn:E. cbn [fst snd].
  apply enum_edges_spec in E as (_ & N & L & OK & I).
  assert (I' : forall g, In g st' -> exists e l, e < n /\ l < 3 /\ g = vertices_from_edge_index (el els e) l).
  { intros g Hg. destruct (I g Hg) as [[]|X]. exact X. }
  split; [apply N; constructor|]. split; [exact L|]. split; [|split; [|exact I']].
  - intros g Hg. destruct (I' g Hg) as (e & l & _ & _ & ->). apply sort_values_sorted.
  - intros e l He Hl. apply (OK e He l Hl).
Qed.

(* two local edges get the same global number iff they join the same two vertices *)
Theorem edge_index_injective e l f l' : e < n -> l < 3 -> f < n -> l' < 3 ->
  (eedge els e l = eedge els f l' <-> vertices_from_edge_index (el els e) l = vertices_from_edge_index (el els f) l').
Proof.
  intros He Hl Hf Hl'. destruct edges_once as (N & _ & _ & OK & _).
  destruct (OK e l He Hl) as [A B], (OK f l' Hf Hl') as [A' B'].
  split; intro H.
  - rewrite <- B, <- B', H. reflexivity.
  - rewrite <- B, <- B' in H. apply (proj1 (NoDup_nth (edges els) dE) N); assumption.
Qed.

(* for elements with distinct vertices the two ends of every edge differ *)
Theorem edges_strict : elems_distinct_vertices els = true -> forall g, In g (edges els) -> fst g < snd g.
Proof.
  intros W g Hg. destruct edges_once as (_ & _ & _ & _ & I). destruct (I g Hg) as (e & l & He & Hl & ->).
  unfold elems_distinct_vertices in W. rewrite forallb_forall in W.
  assert (X := W (el els e) (nth_In _ _ He)). unfold wf_elem in X.
  rewrite !andb_true_iff, !negb_true_iff, !Nat.eqb_neq in X. destruct X as [[X1 X2] X3].
  unfold vertices_from_edge_index, sort_values.
  destruct l as [|[|[|l]]]; [| | |lia]; cbn [edge_local fst snd];
  match goal with |- context [?b <? ?a] => destruct (Nat.ltb_spec b a) end; cbn; lia.
Qed.
End Edges.
