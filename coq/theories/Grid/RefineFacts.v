(* C11_refine / C11_union / C11_segments: facts about the models in Refine.v, for every grid. *)
From Coq Require Import QArith Qfield Setoid List Arith Bool Lia.
From BV Require Import Grid.Topology Grid.ListFacts Grid.EdgeFacts Grid.Geometry Grid.GeometryFacts Grid.Refine.
Import ListNotations.
Close Scope Q_scope.
Open Scope nat_scope.

(* ---- list lemmas ----------------------------------------------------------------------------------------- *)
Lemma nth_flat_map_const {A B} (f : A -> list B) (k : nat) (l : list A) (da : A) (d : B) :
  (forall a, length (f a) = k) -> forall e j, e < length l -> j < k ->
  nth (k * e + j) (flat_map f l) d = nth j (f (nth e l da)) d.
Proof.
  intros Hk. induction l as [|a r IH]; intros e j He Hj; cbn in He; [lia|].
  cbn [flat_map]. destruct e as [|e].
  - rewrite Nat.mul_0_r. cbn [Nat.add nth]. apply app_nth1. rewrite Hk. exact Hj.
  - rewrite app_nth2 by (rewrite Hk; lia). rewrite Hk.
    replace (k * S e + j - k) with (k * e + j) by lia. cbn [nth]. apply IH; lia.
Qed.
Lemma length_flat_map_const {A B} (f : A -> list B) (k : nat) (l : list A) :
  (forall a, length (f a) = k) -> length (flat_map f l) = k * length l.
Proof. intros Hk. induction l as [|a r IH]; cbn; [lia|]. rewrite app_length, Hk, IH. lia. Qed.

(* ---- geometry of the children, for any triangle ------------------------------------------------------------ *)
Open Scope Q_scope.
Lemma midpoint_comm u v : veq (midpoint u v) (midpoint v u).
Proof. vdestruct. unfold midpoint. vunfold. repeat split; ring. Qed.

Lemma veq_refl u : veq u u.
Proof. unfold veq. repeat split; reflexivity. Qed.
Lemma veq_sym u v : veq u v -> veq v u.
Proof. unfold veq. intros (a & b & c). repeat split; symmetry; assumption. Qed.
Lemma veq_trans u v w : veq u v -> veq v w -> veq u w.
Proof. unfold veq. intros (a & b & c) (a' & b' & c'). repeat split; etransitivity; eassumption. Qed.

Lemma normal_dir_proper x0 x1 x2 y0 y1 y2 :
  veq x0 y0 -> veq x1 y1 -> veq x2 y2 -> veq (normal_dir x0 x1 x2) (normal_dir y0 y1 y2).
Proof.
  vdestruct. unfold veq. cbn [vx vy vz fst snd]. intros (a0 & b0 & c0) (a1 & b1 & c1) (a2 & b2 & c2).
  vunfold. rewrite a0, b0, c0, a1, b1, c1, a2, b2, c2. repeat split; reflexivity.
Qed.

(* the four children of the uniform refinement each carry 1/4 of the parent's normal direction *)
Lemma refine_children_normals x0 x1 x2 :
  let m01 := midpoint x0 x1 in let m20 := midpoint x2 x0 in let m12 := midpoint x1 x2 in
  veq (normal_dir x0 m01 m20) (vscale (1 # 4) (normal_dir x0 x1 x2)) /\
  veq (normal_dir m01 x1 m12) (vscale (1 # 4) (normal_dir x0 x1 x2)) /\
  veq (normal_dir m12 x2 m20) (vscale (1 # 4) (normal_dir x0 x1 x2)) /\
  veq (normal_dir m01 m12 m20) (vscale (1 # 4) (normal_dir x0 x1 x2)).
Proof. vdestruct. cbn zeta. unfold midpoint. vunfold. repeat split; ring. Qed.

(* the six children of the barycentric refinement each carry 1/6 of the parent's normal direction *)
Lemma bary_children_normals x0 x1 x2 :
  let m01 := midpoint x0 x1 in let m20 := midpoint x2 x0 in let m12 := midpoint x1 x2 in
  let c := vscale (1 # 3) (vadd (vadd x0 x1) x2) in
  let s := vscale (1 # 6) (normal_dir x0 x1 x2) in
  veq (normal_dir x0 m01 c) s /\ veq (normal_dir x1 c m01) s /\ veq (normal_dir x1 m12 c) s /\
  veq (normal_dir x2 c m12) s /\ veq (normal_dir x2 m20 c) s /\ veq (normal_dir x0 c m20) s.
Proof. vdestruct. cbn zeta. unfold midpoint. vunfold. repeat split; ring. Qed.
Close Scope Q_scope.

(* ---- Grid.refine --------------------------------------------------------------------------------------------- *)
Section RefineS.
Variables (vs : list vec) (els : list elem) (dom : list nat).
Notation nv := (length vs).
Notation n := (length els).
Notation g := (vs, els, dom).
Hypothesis Hrange : in_range els nv = true.

Lemma in_range_el e k : e < n -> k < 3 -> vget (el els e) k < nv.
Proof.
  intros He Hk. unfold in_range in Hrange. rewrite forallb_forall in Hrange.
  specialize (Hrange (el els e) (nth_In _ _ He)). rewrite !andb_true_iff, !Nat.ltb_lt in Hrange.
  destruct k as [|[|[|k]]]; [| | |lia]; tauto.
Qed.

Lemma refine_vs_old i : i < nv -> vat (g_vs (refine g)) i = vat vs i.
Proof. intros H. unfold refine, g_vs, vat, refine_vertices. cbn [fst snd]. apply app_nth1. exact H. Qed.

Lemma refine_vs_new i : i < length (edges els) ->
  vat (g_vs (refine g)) (nv + i) =
  midpoint (vat vs (fst (nth i (edges els) dE))) (vat vs (snd (nth i (edges els) dE))).
Proof.
  intros H. unfold refine, g_vs, vat, refine_vertices. cbn [fst snd]. rewrite app_nth2 by lia.
  replace (nv + i - nv) with i by lia.
  rewrite (nth_indep _ v0 ((fun e => midpoint (nth (fst e) vs v0) (nth (snd e) vs v0)) dE))
    by (rewrite map_length; exact H).
  rewrite (map_nth (fun e => midpoint (nth (fst e) vs v0) (nth (snd e) vs v0))). reflexivity.
Qed.

Definition X (e k : nat) : vec := vat vs (vget (el els e) k).

(* conformity: the new vertex on local edge l of element e is numbered nv + (global number of that edge) -- shared
   between elements exactly when they share the edge (C11_edge_numbering_injective) -- and it is the midpoint *)
Lemma refine_midpoint e l : e < n -> l < 3 ->
  eedge els e l < length (edges els) /\
  veq (vat (g_vs (refine g)) (nv + eedge els e l))
      (midpoint (X e (fst (edge_local l))) (X e (snd (edge_local l)))).
Proof.
  intros He Hl. destruct (edges_once els) as (_ & _ & _ & OK & _). destruct (OK e l He Hl) as [Lt Eq].
  split; [exact Lt|]. rewrite refine_vs_new by exact Lt. rewrite Eq. unfold vertices_from_edge_index, X.
  destruct (sort_values_set (vget (el els e) (fst (edge_local l))) (vget (el els e) (snd (edge_local l)))) as [-> | ->];
    cbn [fst snd]; [apply veq_refl|apply midpoint_comm].
Qed.

Lemma refine_elem_length nv' e t : length (refine_elem nv' e t) = 4.
Proof. reflexivity. Qed.

Lemma combine_ee_nth e : e < n ->
  nth e (combine els (element_edges els)) ((0, 0, 0), (0, 0, 0)) = (el els e, nth e (element_edges els) (0, 0, 0)).
Proof. intros He. rewrite combine_nth by (symmetry; apply (edges_once els)). reflexivity. Qed.

Lemma combine_ee_length : length (combine els (element_edges els)) = n.
Proof. rewrite combine_length. destruct (edges_once els) as (_ & L & _). rewrite L. apply Nat.min_id. Qed.

Lemma refine_child e k : e < n -> k < 4 ->
  nth (4 * e + k) (g_els (refine g)) (0, 0, 0) =
  nth k (refine_elem nv (el els e) (nth e (element_edges els) (0, 0, 0))) (0, 0, 0).
Proof.
  intros He Hk. unfold refine, g_els, refine_elements. cbn [fst snd].
  rewrite (nth_flat_map_const (fun p => refine_elem nv (fst p) (snd p)) 4 _ ((0, 0, 0), (0, 0, 0)))
    by (auto; rewrite ?combine_ee_length; auto).
  rewrite combine_ee_nth by exact He. reflexivity.
Qed.

Theorem refine_correct :
  length (g_vs (refine g)) = nv + length (edges els) /\ length (g_els (refine g)) = 4 * n /\
  length (g_dom (refine g)) = 4 * length dom /\
  (forall i, i < nv -> vat (g_vs (refine g)) i = vat vs i) /\
  (forall e k, e < length dom -> k < 4 -> nth (4 * e + k) (g_dom (refine g)) 0 = nth e dom 0) /\
  (forall e l, e < n -> l < 3 ->
     veq (vat (g_vs (refine g)) (nv + eedge els e l)) (midpoint (X e (fst (edge_local l))) (X e (snd (edge_local l))))) /\
  (* every child has the orientation of its parent and a quarter of its area vector *)
  (forall e k, e < n -> k < 4 ->
     let c := nth (4 * e + k) (g_els (refine g)) (0, 0, 0) in
     let Y := fun i => vat (g_vs (refine g)) (vget c i) in
     vget c 0 < length (g_vs (refine g)) /\ vget c 1 < length (g_vs (refine g)) /\ vget c 2 < length (g_vs (refine g)) /\
     veq (normal_dir (Y 0) (Y 1) (Y 2)) (vscale (1 # 4)%Q (normal_dir (X e 0) (X e 1) (X e 2)))).
Proof.
  assert (Lv : length (g_vs (refine g)) = nv + length (edges els)).
  { unfold refine, g_vs, refine_vertices. cbn [fst snd]. rewrite app_length, map_length. reflexivity. }
  split; [exact Lv|]. split; [|split; [|split; [exact refine_vs_old|split; [|split]]]].
  - unfold refine, g_els, refine_elements. cbn [fst snd].
    rewrite (length_flat_map_const _ 4) by reflexivity. rewrite combine_ee_length. reflexivity.
  - unfold refine, g_dom. cbn [fst snd]. apply length_flat_map_const. intro a. apply repeat_length.
  - intros e k He Hk. unfold refine, g_dom. cbn [fst snd].
    rewrite (nth_flat_map_const (fun d => repeat d 4) 4 dom 0 0) by (auto using repeat_length).
    destruct k as [|[|[|[|k]]]]; try lia; reflexivity.
  - intros e l He Hl. apply refine_midpoint; assumption.
  - intros e k He Hk c Y.
    destruct (refine_midpoint e 0 He ltac:(lia)) as [L0 M0].
    destruct (refine_midpoint e 1 He ltac:(lia)) as [L1 M1].
    destruct (refine_midpoint e 2 He ltac:(lia)) as [L2 M2].
    cbn [edge_local fst snd] in M0, M1, M2.
    pose proof (in_range_el e 0 He ltac:(lia)) as R0. pose proof (in_range_el e 1 He ltac:(lia)) as R1.
    pose proof (in_range_el e 2 He ltac:(lia)) as R2.
    assert (O0 := refine_vs_old _ R0). assert (O1 := refine_vs_old _ R1). assert (O2 := refine_vs_old _ R2).
    fold (X e 0) in O0. fold (X e 1) in O1. fold (X e 2) in O2.
    destruct (refine_children_normals (X e 0) (X e 1) (X e 2)) as (N0 & N1 & N2 & N3). cbn zeta in *.
    unfold Y, c. rewrite refine_child by assumption. rewrite Lv.
    unfold eedge in *. set (t := nth e (element_edges els) (0, 0, 0)) in *.
    destruct k as [|[|[|[|k]]]]; try lia; cbn [nth refine_elem vget]; rewrite ?(Nat.add_comm (tget t _) nv);
      (split; [lia|split; [lia|split; [lia|]]]).
    + eapply veq_trans; [|exact N0]. apply normal_dir_proper; [rewrite O0; apply veq_refl|exact M0|exact M1].
    + eapply veq_trans; [|exact N1]. apply normal_dir_proper; [exact M0|rewrite O1; apply veq_refl|exact M2].
    + eapply veq_trans; [|exact N2]. apply normal_dir_proper; [exact M2|rewrite O2; apply veq_refl|exact M1].
    + eapply veq_trans; [|exact N3]. apply normal_dir_proper; [exact M0|exact M2|exact M1].
Qed.
End RefineS.

(* ---- grid_from_segments ----------------------------------------------------------------------------------------- *)
Lemma position_spec x l : In x l -> position x l < length l /\ nth (position x l) l 0 = x.
Proof.
  induction l as [|h r IH]; intros H; [destruct H|]. cbn.
  destruct (Nat.eqb_spec h x) as [E|E]; [subst; split; [lia|reflexivity]|].
  destruct H as [H|H]; [contradiction|]. destruct (IH H) as [A B]. split; [lia|exact B].
Qed.
Lemma position_inj x y l : In x l -> In y l -> position x l = position y l -> x = y.
Proof.
  intros Hx Hy E. destruct (position_spec x l Hx) as [_ A], (position_spec y l Hy) as [_ B].
  rewrite <- A, <- B, E. reflexivity.
Qed.

Lemma used_vertices_in els nv v :
  In v (used_vertices els nv) <-> v < nv /\ exists e, In e els /\ elem_has_vertex e v = true.
Proof.
  unfold used_vertices. rewrite filter_In, in_seq, existsb_exists. intuition lia.
Qed.

Lemma elem_has_vertex_vget e k : k < 3 -> elem_has_vertex e (vget e k) = true.
Proof.
  intros Hk. unfold elem_has_vertex. destruct k as [|[|[|k]]]; [| | |lia]; rewrite Nat.eqb_refl;
    rewrite ?orb_true_r; reflexivity.
Qed.

Section Segments.
Variables (vs : list vec) (els : list elem) (dom : list nat) (segs : list nat).
Notation g := (vs, els, dom).
Hypothesis Hrange : in_range els (length vs) = true.
Notation sel := (selected g segs).
Notation s := (segments g segs).
Notation used := (used_vertices (map fst sel) (length vs)).

Lemma sel_in_range p k : In p sel -> k < 3 -> vget (fst p) k < length vs.
Proof.
  intros Hp Hk. unfold selected in Hp. apply filter_In in Hp as [Hp _]. destruct p as [pe pd].
  apply in_combine_l in Hp. unfold g_els in Hp. cbn [fst snd] in Hp |- *.
  unfold in_range in Hrange. rewrite forallb_forall in Hrange. specialize (Hrange _ Hp).
  rewrite !andb_true_iff, !Nat.ltb_lt in Hrange. destruct k as [|[|[|k]]]; [| | |lia]; tauto.
Qed.

Lemma sel_vertex_used p k : In p sel -> k < 3 -> In (vget (fst p) k) used.
Proof.
  intros Hp Hk. apply used_vertices_in. split; [apply sel_in_range; assumption|].
  exists (fst p). split; [apply in_map; exact Hp|apply elem_has_vertex_vget; exact Hk].
Qed.

(* exactly the elements whose domain index is in the list are kept, in order, with their domain indices; the
   vertices they use are renumbered injectively and keep their coordinates; no unused vertex remains *)
Theorem segments_correct :
  g_dom s = map snd sel /\ length (g_els s) = length sel /\
  (forall p, In p sel <-> In p (combine els dom) /\ existsb (Nat.eqb (snd p)) segs = true) /\
  (forall k i, k < length sel -> i < 3 ->
     let old := vget (fst (nth k sel ((0, 0, 0), 0))) i in
     let new := vget (nth k (g_els s) (0, 0, 0)) i in
     new < length (g_vs s) /\ vat (g_vs s) new = vat vs old) /\
  (forall k i k' i', k < length sel -> i < 3 -> k' < length sel -> i' < 3 ->
     (vget (nth k (g_els s) (0, 0, 0)) i = vget (nth k' (g_els s) (0, 0, 0)) i' <->
      vget (fst (nth k sel ((0, 0, 0), 0))) i = vget (fst (nth k' sel ((0, 0, 0), 0))) i')) /\
  (forall j, j < length (g_vs s) -> exists k i, k < length sel /\ i < 3 /\ vget (nth k (g_els s) (0, 0, 0)) i = j).
Proof.
  assert (NewEq : forall k i, k < length sel -> i < 3 ->
            vget (nth k (g_els s) (0, 0, 0)) i = position (vget (fst (nth k sel ((0, 0, 0), 0))) i) used).
  { intros k i Hk Hi. unfold segments, g_els. cbn [fst snd].
    set (f := fun e : elem => (position (vget e 0) used, position (vget e 1) used, position (vget e 2) used)).
    rewrite (nth_indep _ (0, 0, 0) (f (0, 0, 0))) by (rewrite !map_length; exact Hk).
    rewrite (map_nth f). rewrite (map_nth fst sel ((0, 0, 0), 0)). unfold f.
    destruct i as [|[|[|i]]]; [reflexivity|reflexivity|reflexivity|lia]. }
  split; [reflexivity|]. split; [unfold segments, g_els; cbn [fst snd]; rewrite !map_length; reflexivity|].
  split; [intro p; unfold selected; rewrite filter_In; reflexivity|]. split; [|split].
  - intros k i Hk Hi old new. unfold new. rewrite NewEq by assumption. fold old.
    assert (U : In old used) by (apply sel_vertex_used; [apply nth_In; exact Hk|exact Hi]).
    destruct (position_spec old used U) as [A B].
    unfold segments, g_vs, vat. cbn [fst snd]. rewrite map_length. split; [exact A|].
    rewrite (nth_indep _ v0 ((fun i => nth i vs v0) 0)) by (rewrite map_length; exact A).
    rewrite (map_nth (fun i => nth i vs v0)). rewrite B. reflexivity.
  - intros k i k' i' Hk Hi Hk' Hi'. rewrite !NewEq by assumption. split; [|intros ->; reflexivity].
    apply position_inj; apply sel_vertex_used; auto using nth_In.
  - intros j Hj. unfold segments, g_vs in Hj. cbn [fst snd] in Hj. rewrite map_length in Hj.
    assert (U : In (nth j used 0) used) by (apply nth_In; exact Hj).
    apply used_vertices_in in U as [_ [e [He Hv]]]. apply in_map_iff in He as [p [<- Hp]].
    apply (In_nth _ _ ((0, 0, 0), 0)) in Hp as [k [Hk Hn]].
    unfold elem_has_vertex in Hv. rewrite !orb_true_iff, !Nat.eqb_eq in Hv.
    assert (ND : NoDup used) by (apply NoDup_filter, seq_NoDup).
    assert (P : forall i, i < 3 -> vget (fst p) i = nth j used 0 -> vget (nth k (g_els s) (0, 0, 0)) i = j).
    { intros i Hi E. rewrite NewEq by assumption. subst p. unfold elem in *. rewrite E.
      apply (proj1 (NoDup_nth used 0) ND); [apply position_spec, nth_In; exact Hj|exact Hj|].
      apply position_spec, nth_In. exact Hj. }
    exists k. destruct Hv as [[Hv|Hv]|Hv]; [exists 0|exists 1|exists 2]; (split; [exact Hk|split; [lia|apply P; [lia|exact Hv]]]).
Qed.
End Segments.

(* ---- union ---------------------------------------------------------------------------------------------------- *)
Definition t_nv (g : tgrid) : nat := fst (fst g).
Definition t_els (g : tgrid) : list elem := snd (fst g).
Definition t_dom (g : tgrid) : list nat := snd g.
Fixpoint eoff (gs : list tgrid) (j : nat) : nat :=
  match j, gs with S j', g :: r => length (t_els g) + eoff r j' | _, _ => 0 end.
Fixpoint voff (gs : list tgrid) (j : nat) : nat :=
  match j, gs with S j', g :: r => t_nv g + voff r j' | _, _ => 0 end.
Definition maybe_swap (b : bool) (e : elem) : elem := if b then swap_elem e else e.
Definition dG : tgrid := (0, [], []).

(* element k of input grid j appears at position (number of elements before) + k, its vertex numbers shifted by
   the number of vertices before, with local vertices 1 and 2 exchanged when the grid's normals are swapped *)
Lemma union_els_nth gs : forall sw off j k, j < length gs -> k < length (t_els (nth j gs dG)) ->
  nth (eoff gs j + k) (union_els off gs sw) (0, 0, 0) =
  shift_elem (off + voff gs j) (maybe_swap (nth j sw false) (nth k (t_els (nth j gs dG)) (0, 0, 0))).
Proof.
  induction gs as [|g r IH]; intros sw off j k Hj Hk; cbn in Hj; [lia|].
  cbn [union_els]. destruct j as [|j].
  - cbn [eoff voff nth] in *. rewrite Nat.add_0_r. rewrite app_nth1 by (rewrite map_length; exact Hk).
    set (f := fun e : elem => shift_elem off (if match sw with [] => false | b :: _ => b end then swap_elem e else e)).
    rewrite (nth_indep _ (0, 0, 0) (f (0, 0, 0))) by (rewrite map_length; exact Hk).
    rewrite (map_nth f). unfold f, maybe_swap. destruct sw; reflexivity.
  - cbn [eoff voff nth] in *. fold (t_els g). rewrite app_nth2 by (rewrite map_length; lia). rewrite map_length.
    replace (length (t_els g) + eoff r j + k - length (t_els g)) with (eoff r j + k) by lia.
    rewrite IH by (try lia; exact Hk). fold (t_nv g).
    replace (off + t_nv g + voff r j) with (off + (t_nv g + voff r j)) by lia.
    destruct sw; cbn [tl nth]; [destruct j; reflexivity|reflexivity].
Qed.

Lemma vat_concat (vss : list (list vec)) : forall j v, j < length vss -> v < length (nth j vss []) ->
  vat (concat vss) (length (concat (firstn j vss)) + v) = vat (nth j vss []) v.
Proof.
  induction vss as [|a r IH]; intros j v Hj Hv; cbn in Hj; [lia|]. destruct j as [|j].
  - cbn in *. unfold vat. apply app_nth1. exact Hv.
  - cbn [firstn concat nth] in *. unfold vat in *. rewrite app_length. rewrite app_nth2 by lia.
    replace (length a + length (concat (firstn j r)) + v - length a) with (length (concat (firstn j r)) + v) by lia.
    apply IH; [lia|exact Hv].
Qed.

(* orientation: exchanging local vertices 1 and 2 reverses the normal direction, a shift keeps it *)
Lemma swap_elem_normal (vs : list vec) (e : elem) :
  let X := fun i => vat vs (vget e i) in let Y := fun i => vat vs (vget (swap_elem e) i) in
  veq (normal_dir (Y 0) (Y 1) (Y 2)) (vscale (-1 # 1)%Q (normal_dir (X 0) (X 1) (X 2))).
Proof. destruct e as [[a b] c]. cbn. apply normal_swap. Qed.

(* explicitly given domain indices: grid j receives the constant given[j] *)
Lemma union_given_dom gs sw mode ds : length ds = length gs ->
  snd (union gs sw mode (Some ds)) = concat (map (fun p => repeat (snd p) (length (t_els (fst p)))) (combine gs ds)).
Proof.
  intros _. unfold union. cbn [snd]. f_equal. apply map_ext. intros [g d]. cbn [fst snd]. unfold t_els.
  induction (snd (fst g)) as [|x l IH]; cbn; [reflexivity|f_equal; exact IH].
Qed.

(* rank among the distinct values is strictly monotone on the values of the list *)
Lemma nodup_filter_lt_length l x y : In x l -> x < y ->
  length (nodup Nat.eq_dec (filter (fun z => z <? x) l)) < length (nodup Nat.eq_dec (filter (fun z => z <? y) l)).
Proof.
  intros Hx Hxy.
  set (A := nodup Nat.eq_dec (filter (fun z => z <? x) l)). set (B := nodup Nat.eq_dec (filter (fun z => z <? y) l)).
  assert (N : NoDup (x :: A)).
  { constructor; [|apply NoDup_nodup]. intro H. apply nodup_In, filter_In in H as [_ H]. apply Nat.ltb_lt in H. lia. }
  assert (I : incl (x :: A) B).
  { intros z [<-|Hz]; apply nodup_In, filter_In.
    - split; [exact Hx|apply Nat.ltb_lt; exact Hxy].
    - apply nodup_In, filter_In in Hz as [Hz1 Hz2]. split; [exact Hz1|]. apply Nat.ltb_lt in Hz2. apply Nat.ltb_lt. lia. }
  pose proof (NoDup_incl_length N I) as L. cbn in L. lia.
Qed.

Theorem rank_monotone l x y : In x l -> In y l -> (x < y <-> rank_in l x < rank_in l y).
Proof.
  intros Hx Hy. unfold rank_in. split; [apply nodup_filter_lt_length; exact Hx|].
  intro H. destruct (Nat.lt_trichotomy x y) as [L|[E|G]]; [exact L|subst; lia|].
  pose proof (nodup_filter_lt_length l y x Hy G). lia.
Qed.

(* normalize_array keeps the partition into domains: equal ranks <=> equal indices *)
Theorem normalize_partition l i j : i < length l -> j < length l ->
  (nth i (normalize_array l) 0 = nth j (normalize_array l) 0 <-> nth i l 0 = nth j l 0).
Proof.
  intros Hi Hj. unfold normalize_array.
  rewrite !(nth_indep (map (rank_in l) l) 0 (rank_in l 0)) by (rewrite map_length; assumption).
  rewrite !map_nth. split; [|intros ->; reflexivity].
  intro E. pose proof (nth_In l 0 Hi) as Ii. pose proof (nth_In l 0 Hj) as Ij.
  destruct (Nat.lt_trichotomy (nth i l 0) (nth j l 0)) as [L|[Q|G]]; [|exact Q|].
  - apply (rank_monotone l _ _ Ii Ij) in L. lia.
  - apply (rank_monotone l _ _ Ij Ii) in G. lia.
Qed.

Lemma lmax_ge l x : In x l -> x <= lmax l.
Proof. unfold lmax. induction l as [|h r IH]; intros H; [destruct H|]. cbn. destruct H as [->|H]; [lia|]. specialize (IH H). lia. Qed.
Lemma fold_min_le h r : fold_right Nat.min h r <= h /\ forall x, In x r -> fold_right Nat.min h r <= x.
Proof.
  induction r as [|a r [IH1 IH2]]; cbn; [split; [lia|intros x []]|]. split; [lia|].
  intros x [->|H]; [lia|]. specialize (IH2 x H). lia.
Qed.
Lemma lmin_le l x : In x l -> lmin l <= x.
Proof.
  destruct l as [|h r]; intros H; [destruct H|]. unfold lmin. destruct (fold_min_le h r) as [A B].
  destruct H as [<-|H]; [exact A|apply B; exact H].
Qed.

(* the domain indices one input grid receives in the union (mode 0: normalised, mode 1: shifted only) *)
Definition union_dom_of (mode pm : nat) (first : bool) (d : list nat) : list nat :=
  match mode with
  | 0 => if first then normalize_array d else map (fun x => pm + 1 + x) (normalize_array d)
  | _ => if first then d else map (fun x => pm + 1 + (x - lmin d)) d
  end.
Lemma union_doms_cons mode pm first g r :
  union_doms mode pm first (g :: r) =
  union_dom_of mode pm first (snd g) :: union_doms mode (lmax (union_dom_of mode pm first (snd g))) false r.
Proof. destruct mode; reflexivity. Qed.

Lemma union_dom_of_length mode pm first d : length (union_dom_of mode pm first d) = length d.
Proof. unfold union_dom_of, normalize_array. destruct mode, first; rewrite ?map_length; reflexivity. Qed.

(* inside one grid the partition into domains is kept *)
Theorem union_dom_of_partition mode pm first d i j : i < length d -> j < length d ->
  (nth i (union_dom_of mode pm first d) 0 = nth j (union_dom_of mode pm first d) 0 <-> nth i d 0 = nth j d 0).
Proof.
  intros Hi Hj. unfold union_dom_of. destruct mode as [|mode], first.
  - apply normalize_partition; assumption.
  - assert (L : length (normalize_array d) = length d) by (unfold normalize_array; apply map_length).
    rewrite !(nth_indep (map _ (normalize_array d)) 0 ((fun x => pm + 1 + x) 0)) by (rewrite map_length; lia).
    rewrite !(map_nth (fun x => pm + 1 + x)). rewrite <- (normalize_partition d i j Hi Hj). lia.
  - reflexivity.
  - rewrite !(nth_indep (map _ d) 0 ((fun x => pm + 1 + (x - lmin d)) 0)) by (rewrite map_length; lia).
    rewrite !(map_nth (fun x => pm + 1 + (x - lmin d))).
    pose proof (lmin_le d _ (nth_In d 0 Hi)). pose proof (lmin_le d _ (nth_In d 0 Hj)). lia.
Qed.

Lemma union_dom_of_gt mode pm d x : In x (union_dom_of mode pm false d) -> pm < x.
Proof.
  unfold union_dom_of. destruct mode; intro H; apply in_map_iff in H as [y [<- _]]; lia.
Qed.

Lemma union_doms_gt mode : forall gs pm j x, (forall g, In g gs -> snd g <> []) ->
  In x (nth j (union_doms mode pm false gs) []) -> pm < x.
Proof.
  induction gs as [|g r IH]; intros pm j x NE H; [destruct j; destruct H|].
  rewrite union_doms_cons in H. destruct j as [|j]; cbn [nth] in H.
  - eapply union_dom_of_gt. exact H.
  - apply IH in H; [|intros g' Hg'; apply NE; right; exact Hg'].
    assert (snd g <> []) by (apply NE; left; reflexivity).
    destruct (snd g) as [|y l] eqn:E; [contradiction|].
    assert (In (nth 0 (union_dom_of mode pm false (y :: l)) 0) (union_dom_of mode pm false (y :: l)))
      by (apply nth_In; rewrite union_dom_of_length; cbn; lia).
    pose proof (union_dom_of_gt _ _ _ _ H1). pose proof (lmax_ge _ _ H1). lia.
Qed.

(* different input grids receive disjoint, increasing ranges of domain indices *)
Theorem union_doms_separated mode : forall gs pm first j j' x y, (forall g, In g gs -> snd g <> []) -> j < j' ->
  In x (nth j (union_doms mode pm first gs) []) -> In y (nth j' (union_doms mode pm first gs) []) -> x < y.
Proof.
  induction gs as [|g r IH]; intros pm first j j' x y NE Hjj Hx Hy; [destruct j; destruct Hx|].
  rewrite union_doms_cons in Hx, Hy. destruct j' as [|j']; [lia|]. cbn [nth] in Hy.
  assert (NE' : forall g', In g' r -> snd g' <> []) by (intros g' Hg'; apply NE; right; exact Hg').
  destruct j as [|j]; cbn [nth] in Hx.
  - apply union_doms_gt in Hy; [|exact NE']. pose proof (lmax_ge _ _ Hx). lia.
  - eapply IH; [exact NE'| |exact Hx|exact Hy]. lia.
Qed.

(* ---- barycentric refinement ------------------------------------------------------------------------------------ *)
Lemma set_nth_length {A} (l : list A) i a : length (set_nth l i a) = length l.
Proof. revert i. induction l as [|h r IH]; intros [|i]; cbn; auto. Qed.
Lemma nth_set_nth_eq {A} (l : list A) i a d : i < length l -> nth i (set_nth l i a) d = a.
Proof. revert i. induction l as [|h r IH]; intros [|i] H; cbn in *; try lia; auto. apply IH. lia. Qed.
Lemma nth_set_nth_neq {A} (l : list A) i j a d : i <> j -> nth j (set_nth l i a) d = nth j l d.
Proof. revert i j. induction l as [|h r IH]; intros [|i] [|j] H; cbn; try lia; auto. Qed.

Lemma vat_prefix (nvs x : list vec) k : k < length nvs -> vat (nvs ++ x) k = vat nvs k.
Proof. intro H. unfold vat. apply app_nth1. exact H. Qed.

Section Bary.
Variables (vs : list vec) (es : list edge).

Definition mid_of_edge (i : nat) : vec :=
  midpoint (vat vs (fst (nth i es (0, 0)))) (vat vs (snd (nth i es (0, 0)))).

Definition BInv (st : bstate) : Prop :=
  (exists x, fst st = vs ++ x) /\ length (snd st) = length es /\
  forall i k, nth i (snd st) None = Some k -> k < length (fst st) /\ vat (fst st) k = mid_of_edge i.

Lemma bary_edge_spec st ei st' id : BInv st -> ei < length es -> bary_edge vs es st ei = (st', id) ->
  BInv st' /\ (exists x, fst st' = fst st ++ x) /\ id < length (fst st') /\ vat (fst st') id = mid_of_edge ei.
Proof.
  destruct st as [nvs e2v]. intros ([x Hx] & Hl & Hm) Hei. unfold bary_edge. cbn [fst snd] in *.
  destruct (nth ei e2v None) as [k|] eqn:E; intro H; inversion H; subst st' id; clear H.
  - destruct (Hm ei k E) as [A B]. split; [split; [exists x; exact Hx|split; assumption]|].
    split; [exists []; rewrite app_nil_r; reflexivity|]. split; assumption.
  - unfold BInv. cbn [fst snd]. fold (mid_of_edge ei). split; [split; [|split]|split; [|split]].
    + exists (x ++ [mid_of_edge ei]). rewrite Hx, <- app_assoc. reflexivity.
    + rewrite set_nth_length. exact Hl.
    + intros i k Hk. destruct (Nat.eq_dec ei i) as [<-|Ne].
      * rewrite nth_set_nth_eq in Hk by lia. inversion Hk; subst k. rewrite app_length. cbn. split; [lia|].
        unfold vat. rewrite app_nth2 by lia. rewrite Nat.sub_diag. reflexivity.
      * rewrite nth_set_nth_neq in Hk by exact Ne. destruct (Hm i k Hk) as [A B].
        rewrite app_length. split; [lia|]. rewrite vat_prefix by exact A. exact B.
    + eexists; reflexivity.
    + rewrite app_length. cbn. lia.
    + unfold vat. rewrite app_nth2 by lia. rewrite Nat.sub_diag. reflexivity.
Qed.

(* a block of six children, relative to a vertex list *)
Definition centroid_of (e : elem) : vec :=
  vscale (1 # 3)%Q (vadd (vadd (vat vs (vget e 0)) (vat vs (vget e 1))) (vat vs (vget e 2))).
Definition Good (nvs : list vec) (p : elem * (nat * nat * nat)) (ch : list elem) : Prop :=
  exists m l0 l1 l2, let e := fst p in let ee := snd p in
    ch = [(vget e 0, l0, m); (vget e 1, m, l0); (vget e 1, l2, m); (vget e 2, m, l2); (vget e 2, l1, m); (vget e 0, m, l1)] /\
    m < length nvs /\ l0 < length nvs /\ l1 < length nvs /\ l2 < length nvs /\
    vat nvs m = centroid_of e /\ vat nvs l0 = mid_of_edge (tget ee 0) /\ vat nvs l1 = mid_of_edge (tget ee 1) /\
    vat nvs l2 = mid_of_edge (tget ee 2).

Lemma Good_ext nvs x p ch : Good nvs p ch -> Good (nvs ++ x) p ch.
Proof.
  intros (m & l0 & l1 & l2 & H). cbn zeta in H. destruct H as (E & A & B & C & D & F & G & I & J).
  exists m, l0, l1, l2. cbn zeta. rewrite app_length, !vat_prefix by assumption.
  repeat split; try assumption; lia.
Qed.

Definition okp (p : elem * (nat * nat * nat)) : Prop := forall l, l < 3 -> tget (snd p) l < length es.

Lemma bary_elem_spec st p st' ch : BInv st -> okp p -> bary_elem vs es st p = (st', ch) ->
  BInv st' /\ (exists x, fst st' = fst st ++ x) /\ Good (fst st') p ch.
Proof.
  destruct p as [e ee], st as [nvs e2v]. intros I Ok. unfold bary_elem.
  set (c := vscale (1 # 3)%Q (vadd (vadd (vat vs (vget e 0)) (vat vs (vget e 1))) (vat vs (vget e 2)))).
  assert (I0 : BInv (nvs ++ [c], e2v)).
  { destruct I as ([x Hx] & Hl & Hm). unfold BInv. cbn [fst snd] in *. split; [exists (x ++ [c]); rewrite Hx, <- app_assoc; reflexivity|].
    split; [exact Hl|]. intros i k Hk. destruct (Hm i k Hk) as [A B]. rewrite app_length. split; [lia|].
    rewrite vat_prefix by exact A. exact B. }
  destruct (bary_edge vs es (nvs ++ [c], e2v) (tget ee 0)) as [s0 l0] eqn:E0.
  destruct (bary_edge vs es s0 (tget ee 1)) as [s1 l1] eqn:E1.
  destruct (bary_edge vs es s1 (tget ee 2)) as [s2 l2] eqn:E2.
  intro H. inversion H; subst st' ch; clear H.
  destruct (bary_edge_spec _ _ _ _ I0 (Ok 0 ltac:(lia)) E0) as (I1 & [x0 P0] & L0 & V0).
  destruct (bary_edge_spec _ _ _ _ I1 (Ok 1 ltac:(lia)) E1) as (I2 & [x1 P1] & L1 & V1).
  destruct (bary_edge_spec _ _ _ _ I2 (Ok 2 ltac:(lia)) E2) as (I3 & [x2 P2] & L2 & V2).
  cbn [fst snd] in *.
  split; [exact I3|]. split; [exists ([c] ++ x0 ++ x1 ++ x2); rewrite P2, P1, P0, <- !app_assoc; reflexivity|].
  exists (length nvs), l0, l1, l2. cbn zeta. cbn [fst snd].
  assert (Lm : length nvs < length (fst s0)) by (rewrite P0, !app_length; cbn; lia).
  assert (Vm : vat (fst s0) (length nvs) = c).
  { rewrite P0. rewrite vat_prefix by (rewrite app_length; cbn; lia). unfold vat. rewrite app_nth2 by lia.
    rewrite Nat.sub_diag. reflexivity. }
  assert (Len1 : length (fst s1) = length (fst s0) + length x1) by (rewrite P1, app_length; reflexivity).
  assert (Len2 : length (fst s2) = length (fst s1) + length x2) by (rewrite P2, app_length; reflexivity).
  assert (Up1 : forall k, k < length (fst s0) -> vat (fst s1) k = vat (fst s0) k)
    by (intros; rewrite P1; apply vat_prefix; assumption).
  assert (Up2 : forall k, k < length (fst s1) -> vat (fst s2) k = vat (fst s1) k)
    by (intros; rewrite P2; apply vat_prefix; assumption).
  split; [reflexivity|]. split; [lia|]. split; [lia|]. split; [lia|]. split; [exact L2|].
  split; [rewrite Up2, Up1 by lia; exact Vm|].
  split; [rewrite Up2, Up1 by lia; exact V0|]. split; [rewrite Up2 by lia; exact V1|exact V2].
Qed.

Fixpoint AllGood (nvs : list vec) (l : list (elem * (nat * nat * nat))) (chs : list elem) : Prop :=
  match l with
  | [] => chs = []
  | p :: r => exists ch rest, chs = ch ++ rest /\ Good nvs p ch /\ AllGood nvs r rest
  end.
Lemma AllGood_ext nvs x l : forall chs, AllGood nvs l chs -> AllGood (nvs ++ x) l chs.
Proof.
  induction l as [|p r IH]; intros chs H; cbn in *; [exact H|].
  destruct H as (ch & rest & E & G & A). exists ch, rest. split; [exact E|]. split; [apply Good_ext; exact G|apply IH; exact A].
Qed.
Lemma Good_length nvs p ch : Good nvs p ch -> length ch = 6.
Proof. intros (m & l0 & l1 & l2 & H). cbn zeta in H. destruct H as (-> & _). reflexivity. Qed.

Lemma bary_loop_spec : forall l st st' chs, BInv st -> (forall p, In p l -> okp p) ->
  bary_loop vs es st l = (st', chs) ->
  BInv st' /\ (exists x, fst st' = fst st ++ x) /\ AllGood (fst st') l chs.
Proof.
  induction l as [|p r IH]; intros st st' chs I Ok H; cbn in H.
  - inversion H; subst. split; [exact I|]. split; [exists []; rewrite app_nil_r; reflexivity|reflexivity].
  - destruct (bary_elem vs es st p) as [s ch] eqn:E. destruct (bary_loop vs es s r) as [s' chs'] eqn:E'.
    inversion H; subst st' chs; clear H.
    destruct (bary_elem_spec _ _ _ _ I (Ok p (or_introl eq_refl)) E) as (I1 & [x P] & G).
    destruct (IH _ _ _ I1 (fun q Hq => Ok q (or_intror Hq)) E') as (I2 & [x' P'] & A).
    split; [exact I2|]. split; [exists (x ++ x'); rewrite P', P, app_assoc; reflexivity|].
    exists ch, chs'. split; [reflexivity|]. split; [rewrite P'; apply Good_ext; exact G|exact A].
Qed.

Lemma AllGood_nth nvs : forall l chs e, AllGood nvs l chs -> e < length l ->
  exists ch, Good nvs (nth e l ((0, 0, 0), (0, 0, 0))) ch /\
             forall k, k < 6 -> nth (6 * e + k) chs (0, 0, 0) = nth k ch (0, 0, 0).
Proof.
  induction l as [|p r IH]; intros chs e H He; cbn in He; [lia|]. cbn in H.
  destruct H as (ch & rest & -> & G & A). pose proof (Good_length _ _ _ G) as L. destruct e as [|e].
  - exists ch. split; [exact G|]. intros k Hk. rewrite Nat.mul_0_r. cbn [Nat.add]. apply app_nth1. lia.
  - destruct (IH rest e A ltac:(lia)) as (ch' & G' & N). exists ch'. split; [exact G'|].
    intros k Hk. rewrite app_nth2 by lia. rewrite L. replace (6 * S e + k - 6) with (6 * e + k) by lia. apply N. exact Hk.
Qed.
End Bary.

Lemma nth_repeat_same {A} (a : A) n i : nth i (repeat a n) a = a.
Proof. revert i. induction n as [|n IH]; intros [|i]; cbn; auto. Qed.

Lemma AllGood_length vs es nvs : forall l chs, AllGood vs es nvs l chs -> length chs = 6 * length l.
Proof.
  induction l as [|p r IH]; intros chs H; cbn in H; [subst; reflexivity|].
  destruct H as (ch & rest & -> & G & A). rewrite app_length, (Good_length _ _ _ _ _ G), (IH _ A). cbn [length]. lia.
Qed.

Section BaryS.
Variables (vs : list vec) (els : list elem) (dom : list nat).
Notation nv := (length vs).
Notation n := (length els).
Notation g := (vs, els, dom).
Hypothesis Hrange : in_range els nv = true.
Let XB (e k : nat) : vec := vat vs (vget (el els e) k).

Lemma mid_of_edge_local e l : e < n -> l < 3 ->
  eedge els e l < length (edges els) /\
  veq (mid_of_edge vs (edges els) (eedge els e l)) (midpoint (XB e (fst (edge_local l))) (XB e (snd (edge_local l)))).
Proof.
  intros He Hl. destruct (edges_once els) as (_ & _ & _ & OK & _). destruct (OK e l He Hl) as [Lt Eq].
  split; [exact Lt|]. unfold mid_of_edge. fold dE. rewrite Eq. unfold vertices_from_edge_index, XB.
  destruct (sort_values_set (vget (el els e) (fst (edge_local l))) (vget (el els e) (snd (edge_local l)))) as [-> | ->];
    cbn [fst snd]; [apply veq_refl|apply midpoint_comm].
Qed.

(* barycentric_refinement: six children per element in the library's order, each with the parent's orientation and
   a sixth of its area vector; old vertices kept; domain indices inherited.
   Not proved (correspondence only): the number of vertices is nv + n + number of edges. *)
Theorem barycentric_correct :
  let b := barycentric g in
  length (g_els b) = 6 * n /\ length (g_dom b) = 6 * length dom /\
  (forall e k, e < length dom -> k < 6 -> nth (6 * e + k) (g_dom b) 0 = nth e dom 0) /\
  (forall i, i < nv -> vat (g_vs b) i = vat vs i) /\
  (forall e k, e < n -> k < 6 ->
     let c := nth (6 * e + k) (g_els b) (0, 0, 0) in
     let Y := fun i => vat (g_vs b) (vget c i) in
     vget c 0 < length (g_vs b) /\ vget c 1 < length (g_vs b) /\ vget c 2 < length (g_vs b) /\
     veq (normal_dir (Y 0) (Y 1) (Y 2)) (vscale (1 # 6)%Q (normal_dir (XB e 0) (XB e 1) (XB e 2)))).
Proof.
  cbn zeta. unfold barycentric. cbn [g_vs g_els g_dom fst snd].
  destruct (bary_loop vs (edges els) (vs, repeat None (length (edges els))) (combine els (element_edges els)))
    as [[nvs e2v] nels] eqn:E.
  cbn [g_vs g_els g_dom fst snd].
  assert (I0 : BInv vs (edges els) (vs, repeat None (length (edges els)))).
  { split; [exists []; cbn; rewrite app_nil_r; reflexivity|]. split; [cbn; apply repeat_length|].
    intros i k H. cbn [snd] in H. rewrite nth_repeat_same in H. discriminate. }
  assert (Ok : forall p, In p (combine els (element_edges els)) -> okp (edges els) p).
  { intros p Hp. apply (In_nth _ _ ((0, 0, 0), (0, 0, 0))) in Hp as [e [He Hn]].
    rewrite combine_ee_length in He. rewrite combine_ee_nth in Hn by exact He. subst p. intros l Hl. cbn [snd].
    destruct (edges_once els) as (_ & _ & _ & OK & _). apply (OK e l He Hl). }
  destruct (bary_loop_spec vs (edges els) _ _ _ _ I0 Ok E) as (_ & [x Px] & A). cbn [fst] in Px, A.
  split; [rewrite (AllGood_length _ _ _ _ _ A), combine_ee_length; reflexivity|].
  split; [apply length_flat_map_const; intro a; apply repeat_length|].
  split.
  { intros e k He Hk. rewrite (nth_flat_map_const (fun d => repeat d 6) 6 dom 0 0) by (auto using repeat_length).
    destruct k as [|[|[|[|[|[|k]]]]]]; try lia; reflexivity. }
  split; [intros i Hi; rewrite Px; apply vat_prefix; exact Hi|].
  intros e k He Hk.
  destruct (AllGood_nth vs (edges els) nvs _ _ e A ltac:(rewrite combine_ee_length; exact He)) as (ch & G & N).
  rewrite N by exact Hk. rewrite combine_ee_nth in G by exact He.
  destruct G as (m & l0 & l1 & l2 & G). cbn zeta in G. cbn [fst snd] in G.
  destruct G as (-> & Lm & L0 & L1 & L2 & Vm & V0 & V1 & V2).
  assert (R : forall i, i < 3 -> vget (el els e) i < length nvs /\ vat nvs (vget (el els e) i) = XB e i).
  { intros i Hi. pose proof (in_range_el vs els Hrange e i He Hi) as Ri. rewrite Px, app_length.
    split; [lia|]. apply vat_prefix. exact Ri. }
  destruct (R 0 ltac:(lia)) as [R0 O0], (R 1 ltac:(lia)) as [R1 O1], (R 2 ltac:(lia)) as [R2 O2].
  destruct (mid_of_edge_local e 0 He ltac:(lia)) as [_ M0]. destruct (mid_of_edge_local e 1 He ltac:(lia)) as [_ M1].
  destruct (mid_of_edge_local e 2 He ltac:(lia)) as [_ M2]. cbn [edge_local fst snd] in M0, M1, M2.
  unfold eedge in M0, M1, M2. rewrite <- V0 in M0. rewrite <- V1 in M1. rewrite <- V2 in M2.
  assert (C : veq (vat nvs m) (vscale (1 # 3)%Q (vadd (vadd (XB e 0) (XB e 1)) (XB e 2)))) by (rewrite Vm; apply veq_refl).
  destruct (bary_children_normals (XB e 0) (XB e 1) (XB e 2)) as (N0 & N1 & N2 & N3 & N4 & N5). cbn zeta in *.
  destruct k as [|[|[|[|[|[|k]]]]]]; try lia; cbn [nth vget]; (split; [assumption|split; [assumption|split; [assumption|]]]).
  - eapply veq_trans; [|exact N0]. apply normal_dir_proper; [rewrite O0; apply veq_refl|exact M0|exact C].
  - eapply veq_trans; [|exact N1]. apply normal_dir_proper; [rewrite O1; apply veq_refl|exact C|exact M0].
  - eapply veq_trans; [|exact N2]. apply normal_dir_proper; [rewrite O1; apply veq_refl|exact M2|exact C].
  - eapply veq_trans; [|exact N3]. apply normal_dir_proper; [rewrite O2; apply veq_refl|exact C|exact M2].
  - eapply veq_trans; [|exact N4]. apply normal_dir_proper; [rewrite O2; apply veq_refl|exact M1|exact C].
  - eapply veq_trans; [|exact N5]. apply normal_dir_proper; [rewrite O0; apply veq_refl|exact C|exact M1].
Qed.
End BaryS.

(* ---- normalize_array: the ranks are exactly 0 .. (number of distinct values) - 1 ------------------------------- *)
Definition ndistinct (l : list nat) : nat := length (nodup Nat.eq_dec l).

Lemma rank_lt_ndistinct l x : In x l -> rank_in l x < ndistinct l.
Proof.
  intros Hx. unfold rank_in, ndistinct.
  set (A := nodup Nat.eq_dec (filter (fun z => z <? x) l)).
  assert (N : NoDup (x :: A)).
  { constructor; [|apply NoDup_nodup]. intro H. apply nodup_In, filter_In in H as [_ H]. apply Nat.ltb_lt in H. lia. }
  assert (I : incl (x :: A) (nodup Nat.eq_dec l)).
  { intros z [<-|Hz]; apply nodup_In; [exact Hx|]. apply nodup_In, filter_In in Hz as [Hz _]. exact Hz. }
  pose proof (NoDup_incl_length N I) as L. cbn in L. lia.
Qed.

Theorem normalize_array_range l :
  (forall r, In r (normalize_array l) -> r < ndistinct l) /\
  (forall r, r < ndistinct l -> In r (normalize_array l)).
Proof.
  split.
  - intros r H. unfold normalize_array in H. apply in_map_iff in H as [x [<- Hx]]. apply rank_lt_ndistinct. exact Hx.
  - set (D := nodup Nat.eq_dec l). set (R := map (rank_in l) D).
    assert (ND : NoDup R).
    { apply NoDup_map_inj; [|apply NoDup_nodup]. intros x y Hx Hy E. apply nodup_In in Hx, Hy.
      destruct (Nat.lt_trichotomy x y) as [L|[Q|G]]; [|exact Q|].
      - apply (rank_monotone l x y Hx Hy) in L. lia.
      - apply (rank_monotone l y x Hy Hx) in G. lia. }
    assert (IN : incl R (seq 0 (ndistinct l))).
    { intros r H. apply in_map_iff in H as [x [<- Hx]]. apply nodup_In in Hx. apply in_seq.
      pose proof (rank_lt_ndistinct l x Hx). lia. }
    assert (LE : length (seq 0 (ndistinct l)) <= length R)
      by (unfold R, D, ndistinct; rewrite seq_length, map_length; lia).
    pose proof (NoDup_length_incl ND LE IN) as SUR.
    intros r Hr. assert (Hin : In r R) by (apply SUR, in_seq; lia).
    apply in_map_iff in Hin as [x [<- Hx]]. apply nodup_In in Hx. unfold normalize_array. apply in_map. exact Hx.
Qed.

Lemma lmax_le l B : (forall x, In x l -> x <= B) -> lmax l <= B.
Proof.
  unfold lmax. induction l as [|h r IH]; intros H; cbn; [lia|].
  pose proof (H h (or_introl eq_refl)). assert (fold_right Nat.max 0 r <= B) by (apply IH; intros x Hx; apply H; right; exact Hx). lia.
Qed.
Lemma ndistinct_pos d : d <> [] -> 0 < ndistinct d.
Proof.
  destruct d as [|h r]; [congruence|]. intros _. unfold ndistinct.
  assert (In h (nodup Nat.eq_dec (h :: r))) by (apply nodup_In; left; reflexivity).
  destruct (nodup Nat.eq_dec (h :: r)); [destruct H|cbn; lia].
Qed.

Definition ubase (first : bool) (pm : nat) : nat := if first then 0 else pm + 1.

Lemma block_range first pm d x :
  In x (union_dom_of 0 pm first d) <-> ubase first pm <= x < ubase first pm + ndistinct d.
Proof.
  destruct (normalize_array_range d) as [A B]. unfold union_dom_of, ubase. destruct first.
  - split; [intro H; apply A in H; lia|intro H; apply B; lia].
  - rewrite in_map_iff. split.
    + intros [r [<- Hr]]. apply A in Hr. lia.
    + intros H. exists (x - (pm + 1)). split; [lia|apply B; lia].
Qed.

Lemma lmax_block first pm d : d <> [] ->
  lmax (union_dom_of 0 pm first d) = ubase first pm + ndistinct d - 1.
Proof.
  intros Hd. pose proof (ndistinct_pos d Hd) as P. apply Nat.le_antisymm.
  - apply lmax_le. intros x Hx. apply block_range in Hx. lia.
  - apply lmax_ge. apply block_range. lia.
Qed.

Definition total_distinct (gs : list tgrid) : nat := fold_right Nat.add 0 (map (fun g => ndistinct (snd g)) gs).

(* union with normalize_domain_indices=True: the indices of the union are exactly 0 .. N-1, N = total number of
   domains over all input grids *)
Theorem union_normalised : forall gs pm first, (forall g, In g gs -> snd g <> []) ->
  forall x, In x (concat (union_doms 0 pm first gs)) <-> ubase first pm <= x < ubase first pm + total_distinct gs.
Proof.
  induction gs as [|g r IH]; intros pm first NE x.
  - cbn. unfold total_distinct. cbn. lia.
  - rewrite union_doms_cons. cbn [concat]. rewrite in_app_iff, block_range.
    assert (Hg : snd g <> []) by (apply NE; left; reflexivity).
    rewrite IH by (intros g' Hg'; apply NE; right; exact Hg').
    rewrite (lmax_block first pm (snd g) Hg). pose proof (ndistinct_pos _ Hg) as P.
    unfold total_distinct. cbn [map fold_right]. fold (total_distinct r). unfold ubase. destruct first; lia.
Qed.

Theorem union_domain_indices :
  (forall mode pm first d i j, i < length d -> j < length d ->
     (nth i (union_dom_of mode pm first d) 0 = nth j (union_dom_of mode pm first d) 0 <-> nth i d 0 = nth j d 0)) /\
  (forall mode (gs : list tgrid) pm first j j' x y, (forall g, In g gs -> snd g <> []) -> j < j' ->
     In x (nth j (union_doms mode pm first gs) []) -> In y (nth j' (union_doms mode pm first gs) []) -> x < y) /\
  (forall (gs : list tgrid) sw mode ds, length ds = length gs ->
     snd (union gs sw mode (Some ds)) =
     concat (map (fun p => repeat (snd p) (length (t_els (fst p)))) (combine gs ds))) /\
  (forall (gs : list tgrid), (forall g, In g gs -> snd g <> []) ->
     forall x, In x (concat (union_doms 0 0 true gs)) <-> x < total_distinct gs).
Proof.
  split; [exact union_dom_of_partition|]. split; [exact union_doms_separated|]. split; [exact union_given_dom|].
  intros gs NE x. rewrite (union_normalised gs 0 true NE x). unfold ubase. lia.
Qed.

(* ---- barycentric refinement: number of vertices = nv + n + number of edges ------------------------------------- *)
Definition is_some (o : option nat) : bool := match o with Some _ => true | None => false end.
Definition count_some (l : list (option nat)) : nat := length (filter is_some l).

Lemma count_some_set l : forall i k, i < length l -> nth i l None = None ->
  count_some (set_nth l i (Some k)) = S (count_some l).
Proof.
  unfold count_some. induction l as [|h r IH]; intros [|i] k Hi Hn; cbn in *; try lia.
  - subst h. reflexivity.
  - destruct h; cbn; rewrite IH by (auto; lia); reflexivity.
Qed.
Lemma count_some_all l : (forall i, i < length l -> nth i l None <> None) -> count_some l = length l.
Proof.
  unfold count_some. induction l as [|h r IH]; intros H; [reflexivity|].
  pose proof (H 0 ltac:(cbn; lia)) as H0. cbn in H0. destruct h; [|congruence]. cbn. f_equal. apply IH.
  intros i Hi. apply (H (S i)). cbn. lia.
Qed.
Lemma count_some_repeat_none k : count_some (repeat None k) = 0.
Proof. unfold count_some. induction k; cbn; auto. Qed.

Section BaryCount.
Variables (vs : list vec) (es : list edge).
Definition mono (a b : list (option nat)) : Prop := forall i, nth i a None <> None -> nth i b None <> None.

Lemma bary_edge_count st ei st' id : ei < length (snd st) -> bary_edge vs es st ei = (st', id) ->
  length (fst st') + count_some (snd st) = length (fst st) + count_some (snd st') /\
  length (snd st') = length (snd st) /\ mono (snd st) (snd st') /\ nth ei (snd st') None <> None.
Proof.
  destruct st as [nvs e2v]. cbn [fst snd]. intros Hei. unfold bary_edge.
  destruct (nth ei e2v None) as [k|] eqn:E; intro H; inversion H; subst st' id; cbn [fst snd].
  - repeat split; try lia; [intros i Hi; exact Hi|rewrite E; discriminate].
  - rewrite app_length, set_nth_length, count_some_set by assumption. cbn. repeat split; try lia.
    + intros i Hi. destruct (Nat.eq_dec ei i) as [<-|Ne]; [congruence|]. rewrite nth_set_nth_neq by exact Ne. exact Hi.
    + rewrite nth_set_nth_eq by exact Hei. discriminate.
Qed.

Lemma bary_elem_count st p st' ch : (forall l, l < 3 -> tget (snd p) l < length (snd st)) ->
  bary_elem vs es st p = (st', ch) ->
  length (fst st') + count_some (snd st) = S (length (fst st)) + count_some (snd st') /\
  length (snd st') = length (snd st) /\ mono (snd st) (snd st') /\
  forall l, l < 3 -> nth (tget (snd p) l) (snd st') None <> None.
Proof.
  destruct p as [e ee], st as [nvs e2v]. cbn [fst snd]. intros Ok. unfold bary_elem.
  set (c := vscale (1 # 3)%Q (vadd (vadd (vat vs (vget e 0)) (vat vs (vget e 1))) (vat vs (vget e 2)))).
  destruct (bary_edge vs es (nvs ++ [c], e2v) (tget ee 0)) as [s0 l0] eqn:E0.
  destruct (bary_edge vs es s0 (tget ee 1)) as [s1 l1] eqn:E1.
  destruct (bary_edge vs es s1 (tget ee 2)) as [s2 l2] eqn:E2.
  intro H. inversion H; subst st' ch; clear H.
  apply bary_edge_count in E0 as (C0 & L0 & M0 & S0); [|cbn [snd]; apply Ok; lia]. cbn [fst snd] in *.
  apply bary_edge_count in E1 as (C1 & L1 & M1 & S1); [|rewrite L0; apply Ok; lia].
  apply bary_edge_count in E2 as (C2 & L2 & M2 & S2); [|rewrite L1, L0; apply Ok; lia].
  rewrite app_length in C0. cbn in C0. repeat split; try lia.
  - intros i Hi. apply M2, M1, M0. exact Hi.
  - intros l Hl. destruct l as [|[|[|l]]]; [| | |lia]; [apply M2, M1; exact S0|apply M2; exact S1|exact S2].
Qed.

Lemma bary_loop_count : forall l st st' chs, (forall p, In p l -> forall k, k < 3 -> tget (snd p) k < length (snd st)) ->
  bary_loop vs es st l = (st', chs) ->
  length (fst st') + count_some (snd st) = length l + length (fst st) + count_some (snd st') /\
  length (snd st') = length (snd st) /\ mono (snd st) (snd st') /\
  forall p, In p l -> forall k, k < 3 -> nth (tget (snd p) k) (snd st') None <> None.
Proof.
  induction l as [|p r IH]; intros st st' chs Ok H; cbn in H.
  - inversion H; subst. repeat split; try lia; [intros i Hi; exact Hi|intros p []].
  - destruct (bary_elem vs es st p) as [s ch] eqn:E. destruct (bary_loop vs es s r) as [s' chs'] eqn:E'.
    inversion H; subst st' chs; clear H.
    apply bary_elem_count in E as (C & L & M & V); [|intros k Hk; apply (Ok p); [left; reflexivity|exact Hk]].
    apply IH in E' as (C' & L' & M' & V'); [|intros q Hq k Hk; rewrite L; apply (Ok q); [right; exact Hq|exact Hk]].
    cbn [length]. repeat split; try lia.
    + intros i Hi. apply M', M. exact Hi.
    + intros q [<-|Hq] k Hk; [apply M', V; exact Hk|apply V'; assumption].
Qed.
End BaryCount.

Theorem barycentric_vertex_count (vs : list vec) (els : list elem) (dom : list nat) :
  length (g_vs (barycentric (vs, els, dom))) = length vs + length els + length (edges els).
Proof.
  unfold barycentric. cbn [g_vs g_els g_dom fst snd].
  destruct (bary_loop vs (edges els) (vs, repeat None (length (edges els))) (combine els (element_edges els)))
    as [[nvs e2v] nels] eqn:E. cbn [g_vs fst snd].
  destruct (edges_once els) as (_ & _ & _ & OK & ALL).
  assert (Ok : forall p, In p (combine els (element_edges els)) -> forall k, k < 3 ->
            tget (snd p) k < length (snd (vs, repeat (@None nat) (length (edges els))))).
  { intros p Hp k Hk. cbn [snd]. rewrite repeat_length.
    apply (In_nth _ _ ((0, 0, 0), (0, 0, 0))) in Hp as [e [He Hn]].
    rewrite combine_ee_length in He. rewrite combine_ee_nth in Hn by exact He. subst p. cbn [snd]. apply (OK e k He Hk). }
  destruct (bary_loop_count vs (edges els) _ _ _ _ Ok E) as (C & L & _ & V). cbn [fst snd] in C, L, V.
  rewrite repeat_length in L. rewrite count_some_repeat_none, combine_ee_length in C.
  assert (A : count_some e2v = length e2v).
  { apply count_some_all. intros i Hi. rewrite L in Hi.
    destruct (ALL (nth i (edges els) dE) (nth_In _ _ Hi)) as (e & l & He & Hl & Hg).
    destruct (OK e l He Hl) as [Lt Eq].
    assert (X : eedge els e l = i).
    { destruct (edges_once els) as (ND & _). apply (proj1 (NoDup_nth (edges els) dE) ND); [exact Lt|exact Hi|].
      rewrite Eq. symmetry. exact Hg. }
    rewrite <- X. unfold eedge.
    apply (V (el els e, nth e (element_edges els) (0, 0, 0))); [|exact Hl].
    rewrite <- combine_ee_nth by exact He. apply nth_In. rewrite combine_ee_length. exact He. }
  lia.
Qed.
