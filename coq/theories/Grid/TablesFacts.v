(* C11_tables_consistent: edge/vertex neighbours, boundary flags and their relation to edges, element_edges and
   the adjacency tables -- for every element list. *)
From Coq Require Import List Arith Bool PeanoNat Lia.
From BV Require Import Grid.Topology Grid.ListFacts Grid.PairFacts Grid.AdjacencyFacts Grid.EdgeFacts.
Import ListNotations.

Lemma nsum_app a b : nsum (a ++ b) = nsum a + nsum b.
Proof. unfold nsum. induction a; cbn; lia. Qed.

Lemma length_flat_repeat (m : nat -> nat) l :
  length (flat_map (fun e => repeat e (m e)) l) = nsum (map m l).
Proof. induction l as [|a r IH]; cbn; [reflexivity|]. rewrite app_length, repeat_length, IH. reflexivity. Qed.

Lemma map_nth_seq {A B} (g : A -> B) (l : list A) d :
  map (fun e => g (nth e l d)) (seq 0 (length l)) = map g l.
Proof.
  induction l as [|a r IH]; cbn; [reflexivity|]. f_equal. rewrite <- seq_shift, map_map. exact IH.
Qed.

Lemma nsum_cons a r : nsum (a :: r) = a + nsum r.
Proof. reflexivity. Qed.
Lemma nsum_sq (l : list nat) :
  (nsum (map (fun x => x * x) l) = 0 <-> nsum l = 0) /\ (nsum (map (fun x => x * x) l) = 1 <-> nsum l = 1).
Proof.
  induction l as [|a r [IH0 IH1]]; [cbn; lia|].
  cbn [map]. rewrite !nsum_cons.
  remember (nsum (map (fun x => x * x) r)) as p. remember (nsum r) as q.
  destruct a as [|[|a]].
  - cbn. tauto.
  - cbn. split; [lia|]. split; intro H; f_equal; lia.
  - split; split; intro H; exfalso; nia.
Qed.

Lemma in_flat_repeat (m : nat -> nat) l x : In x (flat_map (fun e => repeat e (m e)) l) <-> In x l /\ 0 < m x.
Proof.
  rewrite in_flat_map. split.
  - intros [e [He Hr]]. assert (x = e) by (eapply repeat_spec; exact Hr). subst. split; [exact He|].
    destruct (m e); [destruct Hr|lia].
  - intros [Hx Hm]. exists x. split; [exact Hx|]. destruct (m x); [lia|left; reflexivity].
Qed.

Lemma edge_mult_pos t i : 0 < edge_mult t i <-> exists l, l < 3 /\ tget t l = i.
Proof.
  unfold edge_mult. split.
  - intro H. destruct (Nat.eqb_spec (tget t 0) i); [exists 0; split; [lia|assumption]|].
    destruct (Nat.eqb_spec (tget t 1) i); [exists 1; split; [lia|assumption]|].
    destruct (Nat.eqb_spec (tget t 2) i); [exists 2; split; [lia|assumption]|]. cbn in H. lia.
  - intros [l [Hl E]]. destruct l as [|[|[|l]]]; [| | |lia]; rewrite E, Nat.eqb_refl; cbn; lia.
Qed.

Section Tables.
Variable els : list elem.
Notation n := (length els).
Notation ne := (length (edges els)).

Lemma ee_length : length (element_edges els) = n.
Proof. apply (edges_once els). Qed.

(* edge_neighbors[i] lists exactly the elements having edge i *)
Theorem edge_neighbors_exact i e : i < ne ->
  (In e (nth i (edge_neighbors els) []) <-> e < n /\ exists l, l < 3 /\ eedge els e l = i).
Proof.
  intros Hi. unfold edge_neighbors. rewrite (nth_map_seq (edge_neighbors_of (element_edges els)) ne i [] Hi).
  unfold edge_neighbors_of. rewrite in_flat_repeat, in_seq, ee_length, edge_mult_pos. unfold eedge. intuition lia.
Qed.

(* boundary flag of an edge <=> the edge has exactly one neighbour *)
Theorem edge_boundary_iff i : i < ne ->
  (nth i (edge_on_boundary els) false = true <-> length (nth i (edge_neighbors els) []) = 1).
Proof.
  intros Hi. unfold edge_on_boundary, edge_neighbors.
  rewrite (nth_map_seq (fun i => edge_diag (element_edges els) i =? 1) ne i false Hi).
  rewrite (nth_map_seq (edge_neighbors_of (element_edges els)) ne i [] Hi).
  unfold edge_neighbors_of, edge_diag. rewrite length_flat_repeat.
  rewrite (map_nth_seq (fun t => edge_mult t i) (element_edges els) (0, 0, 0)).
  rewrite Nat.eqb_eq.
  rewrite <- (map_map (fun t => edge_mult t i) (fun x => x * x)). apply nsum_sq.
Qed.

Lemma eob_length : length (edge_on_boundary els) = ne.
Proof. unfold edge_on_boundary. rewrite map_length, seq_length. reflexivity. Qed.

(* boundary flag of a vertex <=> it is an end of a boundary edge *)
Theorem vertex_boundary_iff nv v : v < nv ->
  (nth v (vertex_on_boundary els nv) false = true <->
   exists i, i < ne /\ nth i (edge_on_boundary els) false = true /\
             (fst (nth i (edges els) dE) = v \/ snd (nth i (edges els) dE) = v)).
Proof.
  intros Hv. unfold vertex_on_boundary.
  rewrite (nth_map_seq (fun v => existsb (fun ib => snd ib && edge_has_vertex (fst ib) v)
                                   (combine (edges els) (edge_on_boundary els))) nv v false Hv).
  rewrite existsb_exists. split.
  - intros [[g b] [Hin Hb]]. cbn in Hb. apply andb_true_iff in Hb as [Hb Hg]. subst b.
    apply (In_nth _ _ (dE, false)) in Hin as [i [Hi Hn]]. rewrite combine_length, eob_length, Nat.min_id in Hi.
    rewrite combine_nth in Hn by (symmetry; apply eob_length). inversion Hn as [[Hn1 Hn2]].
    exists i. split; [exact Hi|]. split; [reflexivity|].
    unfold edge_has_vertex in Hg. apply orb_true_iff in Hg. rewrite !Nat.eqb_eq in Hg. rewrite Hn1. exact Hg.
  - intros [i [Hi [Hb Hg]]]. exists (nth i (edges els) dE, nth i (edge_on_boundary els) false). split.
    + rewrite <- combine_nth by (symmetry; apply eob_length). apply nth_In.
      rewrite combine_length, eob_length, Nat.min_id. exact Hi.
    + cbn. rewrite Hb. cbn. unfold edge_has_vertex. apply orb_true_iff. rewrite !Nat.eqb_eq. exact Hg.
Qed.

(* vertex_neighbors[v] lists exactly the elements having vertex v, once each *)
Theorem vertex_neighbors_exact nv v e : v < nv ->
  (In e (nth v (vertex_neighbors els nv) []) <-> e < n /\ exists k, k < 3 /\ vget (el els e) k = v) /\
  NoDup (nth v (vertex_neighbors els nv) []).
Proof.
  intros Hv. unfold vertex_neighbors.
  rewrite (nth_map_seq (fun v => filter (fun e => elem_has_vertex (el els e) v) (seq 0 n)) nv v [] Hv).
  split; [|apply NoDup_filter, seq_NoDup].
  rewrite filter_In, in_seq. unfold elem_has_vertex. rewrite !orb_true_iff, !Nat.eqb_eq. split.
  - intros [He H]. split; [lia|]. destruct H as [[H|H]|H].
    + exists 0. split; [lia|exact H].
    + exists 1. split; [lia|exact H].
    + exists 2. split; [lia|exact H].
  - intros [He [k [Hk H]]]. split; [lia|]. destruct k as [|[|[|k]]]; [| | |lia]; auto.
Qed.

(* elements_adjacent <=> a common vertex (so element_neighbors[e] = union of vertex_neighbors over e's vertices) *)
Theorem elements_adjacent_iff e f :
  elements_adjacent e f = true <-> exists i j, i < 3 /\ j < 3 /\ vget e i = vget f j.
Proof.
  unfold elements_adjacent, adjacent_m. destruct e as [[a b] c], f as [[a' b'] c']. cbn.
  rewrite !orb_true_iff, !Nat.eqb_eq. split.
  - intros H.
    assert (T : forall i j, i < 3 -> j < 3 -> vget (a, b, c) i = vget (a', b', c') j ->
                exists i j, i < 3 /\ j < 3 /\ vget (a, b, c) i = vget (a', b', c') j).
    { intros i j Hi Hj E. exists i, j. auto. }
    destruct H as [[[[[[[[H|H]|H]|H]|H]|H]|H]|H]|H].
    + apply (T 0 0); auto.
    + apply (T 0 1); auto.
    + apply (T 0 2); auto.
    + apply (T 1 0); auto.
    + apply (T 1 1); auto.
    + apply (T 1 2); auto.
    + apply (T 2 0); auto.
    + apply (T 2 1); auto.
    + apply (T 2 2); auto.
  - intros (i & j & Hi & Hj & H). small i; small j; cbn in H; tauto.
Qed.

(* the local edge carrying the local vertex pair {i0,i1}: _EDGE_LOCAL = [[0,1],[2,0],[1,2]] *)
Definition local_edge_of (i0 i1 : nat) : nat := i0 + i1 - 1.

Lemma sort_values_comm a b : sort_values a b = sort_values b a.
Proof. unfold sort_values. destruct (Nat.ltb_spec b a), (Nat.ltb_spec a b); try reflexivity; try lia. f_equal; lia. Qed.

Lemma local_edge_vertices e i0 i1 : i0 < 3 -> i1 < 3 -> i0 <> i1 ->
  vertices_from_edge_index e (local_edge_of i0 i1) = sort_values (vget e i0) (vget e i1).
Proof.
  intros H0 H1 Hn. unfold vertices_from_edge_index, local_edge_of.
  destruct i0 as [|[|[|i0]]]; [| | |lia]; destruct i1 as [|[|[|i1]]]; try lia; cbn [Nat.add Nat.sub edge_local fst snd];
    try reflexivity; apply sort_values_comm.
Qed.

(* a row of the edge-adjacency table names the same global edge through both elements, and both elements
   are neighbours of that edge *)
Theorem edge_adjacency_consistent tbl e f i0 i1 j0 j1 : elems_distinct_vertices els = true ->
  edge_adjacency els = Some tbl -> In (e, f, i0, i1, j0, j1) tbl ->
  let g := eedge els e (local_edge_of i0 i1) in
  g = eedge els f (local_edge_of j0 j1) /\ g < ne /\
  In e (nth g (edge_neighbors els) []) /\ In f (nth g (edge_neighbors els) []) /\
  nth g (edge_on_boundary els) false = false.
Proof.
  intros W Ht Hin. destruct (edge_rows_correct els tbl e f i0 i1 j0 j1 W Ht Hin)
    as (He & Hf & Hef & A0 & A1 & B0 & B1 & Na & Nb & E0 & E1 & _).
  assert (L0 : local_edge_of i0 i1 < 3) by (unfold local_edge_of; lia).
  assert (L1 : local_edge_of j0 j1 < 3) by (unfold local_edge_of; lia).
  assert (G : eedge els e (local_edge_of i0 i1) = eedge els f (local_edge_of j0 j1)).
  { apply edge_index_injective; try assumption. rewrite !local_edge_vertices by lia. rewrite E0, E1. reflexivity. }
  cbn zeta. destruct (edges_once els) as (_ & _ & _ & OK & _). destruct (OK e _ He L0) as [Lt _].
  split; [exact G|]. split; [exact Lt|]. split; [|split].
  - apply edge_neighbors_exact; [exact Lt|]. split; [exact He|]. eexists; split; [exact L0|reflexivity].
  - apply edge_neighbors_exact; [exact Lt|]. split; [exact Hf|]. eexists; split; [exact L1|]. symmetry. exact G.
  - destruct (nth _ (edge_on_boundary els) false) eqn:B; [|reflexivity]. exfalso.
    apply edge_boundary_iff in B; [|exact Lt].
    assert (Ie : In e (nth (eedge els e (local_edge_of i0 i1)) (edge_neighbors els) [])).
    { apply edge_neighbors_exact; [exact Lt|]. split; [exact He|]. eexists; split; [exact L0|reflexivity]. }
    assert (If : In f (nth (eedge els e (local_edge_of i0 i1)) (edge_neighbors els) [])).
    { apply edge_neighbors_exact; [exact Lt|]. split; [exact Hf|]. eexists; split; [exact L1|]. symmetry. exact G. }
    destruct (nth _ (edge_neighbors els) []) as [|x [|y r]]; cbn in B; try discriminate.
    destruct Ie as [<-|[]], If as [<-|[]]. apply Hef. reflexivity.
Qed.
End Tables.

(* ---- CSR layout (IndexList(indices, indexptr)) of element_neighbors / vertex_neighbors ---------------------------
   the library stores the rows concatenated with indexptr[i] = total length of the rows before i *)
Definition csr_indices (rows : list (list nat)) : list nat := concat rows.
Fixpoint csr_indexptr (acc : nat) (rows : list (list nat)) : list nat :=
  match rows with [] => [acc] | r :: t => acc :: csr_indexptr (acc + length r) t end.
Fixpoint ldrop {A} (k : nat) (l : list A) : list A :=
  match k, l with 0, _ => l | S k', [] => [] | S k', _ :: t => ldrop k' t end.
Definition lslice {A} (a b : nat) (l : list A) : list A := firstn (b - a) (ldrop a l).

Lemma ldrop_app {A} (a l : list A) k : ldrop (length a + k) (a ++ l) = ldrop k l.
Proof. induction a; cbn; auto. Qed.

Lemma ldrop_app0 {A} (a l : list A) : ldrop (length a) (a ++ l) = l.
Proof. induction a; cbn; auto. Qed.
Lemma firstn_exact {A} (a l : list A) : firstn (length a) (a ++ l) = a.
Proof. induction a as [|x a IH]; cbn; [reflexivity|f_equal; exact IH]. Qed.

Theorem csr_rows rows : forall acc pre i, length pre = acc -> i < length rows ->
  length (csr_indexptr acc rows) = S (length rows) /\
  lslice (nth i (csr_indexptr acc rows) 0) (nth (S i) (csr_indexptr acc rows) 0) (pre ++ csr_indices rows) = nth i rows [].
Proof.
  induction rows as [|r t IH]; intros acc pre i Hp Hi; cbn in Hi; [lia|].
  split; [cbn; destruct t; [reflexivity|]; f_equal; apply (IH (acc + length r) (pre ++ r) 0); [rewrite app_length; lia|cbn; lia]|].
  destruct i as [|i].
  - cbn [csr_indexptr nth]. assert (X : nth 0 (csr_indexptr (acc + length r) t) 0 = acc + length r) by (destruct t; reflexivity).
    rewrite X. unfold lslice, csr_indices. cbn [concat]. rewrite <- Hp.
    rewrite ldrop_app0. replace (length pre + length r - length pre) with (length r) by lia. apply firstn_exact.
  - cbn [csr_indexptr nth]. unfold csr_indices. cbn [concat]. rewrite app_assoc.
    apply (IH (acc + length r) (pre ++ r) i); [rewrite app_length; lia|lia].
Qed.
