(* Executable model (tie H) of Grid.refine, _create_barycentric_connectivity_array / barycentric_refinement, union
   and grid_from_segments of bempp_cl/api/grid/grid.py.  A grid with coordinates is (vertices, elements, domain
   indices).  No proofs here. *)
From Coq Require Import QArith List Arith Bool.
From BV Require Import Grid.Topology Grid.Geometry.
Import ListNotations.
Close Scope Q_scope.
Open Scope nat_scope.

Definition cgrid := (list vec * list elem * list nat)%type.
Definition g_vs (g : cgrid) : list vec := fst (fst g).
Definition g_els (g : cgrid) : list elem := snd (fst g).
Definition g_dom (g : cgrid) : list nat := snd g.
Definition v0 : vec := (0, 0, 0)%Q.
Definition vat (vs : list vec) (i : nat) : vec := nth i vs v0.
Definition midpoint (u v : vec) : vec := vscale (1 # 2)%Q (vadd u v).

(* ---- Grid.refine ---------------------------------------------------------------------------------------- *)
Definition refine_vertices (vs : list vec) (es : list edge) : list vec :=
  vs ++ map (fun g => midpoint (vat vs (fst g)) (vat vs (snd g))) es.
Definition refine_elem (nv : nat) (e : elem) (ee : nat * nat * nat) : list elem :=
  let v01 := tget ee 0 + nv in let v20 := tget ee 1 + nv in let v12 := tget ee 2 + nv in
  [(vget e 0, v01, v20); (v01, vget e 1, v12); (v12, vget e 2, v20); (v01, v12, v20)].
Definition refine_elements (nv : nat) (els : list elem) : list elem :=
  flat_map (fun p => refine_elem nv (fst p) (snd p)) (combine els (element_edges els)).
Definition refine (g : cgrid) : cgrid :=
  (refine_vertices (g_vs g) (edges (g_els g)), refine_elements (length (g_vs g)) (g_els g),
   flat_map (fun d => repeat d 4) (g_dom g)).

(* ---- barycentric refinement --------------------------------------------------------------------------------
   state: vertices created so far (appended to the original ones) and edge_to_vertex (None = -1) *)
Definition bstate := (list vec * list (option nat))%type.
Fixpoint set_nth {A} (l : list A) (i : nat) (a : A) : list A :=
  match l, i with
  | [], _ => []
  | _ :: r, 0 => a :: r
  | h :: r, S i' => h :: set_nth r i' a
  end.
Definition bary_edge (vs : list vec) (es : list edge) (st : bstate) (edge_index : nat) : bstate * nat :=
  let '(nvs, e2v) := st in
  match nth edge_index e2v None with
  | Some k => (st, k)
  | None => let g := nth edge_index es (0, 0)%nat in
            ((nvs ++ [midpoint (vat vs (fst g)) (vat vs (snd g))], set_nth e2v edge_index (Some (length nvs))),
             length nvs)
  end.
Definition bary_elem (vs : list vec) (es : list edge) (st : bstate) (p : elem * (nat * nat * nat))
  : bstate * list elem :=
  let '(e, ee) := p in
  let '(nvs, e2v) := st in
  let m := length nvs in
  let c := vscale (1 # 3)%Q (vadd (vadd (vat vs (vget e 0)) (vat vs (vget e 1))) (vat vs (vget e 2))) in
  let '(s0, l0) := bary_edge vs es (nvs ++ [c], e2v) (tget ee 0) in
  let '(s1, l1) := bary_edge vs es s0 (tget ee 1) in
  let '(s2, l2) := bary_edge vs es s1 (tget ee 2) in
  (s2, [(vget e 0, l0, m); (vget e 1, m, l0); (vget e 1, l2, m); (vget e 2, m, l2); (vget e 2, l1, m);
        (vget e 0, m, l1)]).
Fixpoint bary_loop (vs : list vec) (es : list edge) (st : bstate) (l : list (elem * (nat * nat * nat)))
  : bstate * list elem :=
  match l with
  | [] => (st, [])
  | p :: r => let '(s, ch) := bary_elem vs es st p in
              let '(s', chs) := bary_loop vs es s r in (s', ch ++ chs)
  end.
Definition barycentric (g : cgrid) : cgrid :=
  let els := g_els g in let es := edges els in
  let '((nvs, _), nels) := bary_loop (g_vs g) es (g_vs g, repeat None (length es)) (combine els (element_edges els)) in
  (nvs, nels, flat_map (fun d => repeat d 6) (g_dom g)).

(* ---- union (connectivity and domain indices) ------------------------------------------------------------------
   an input grid is (number of vertices, elements, domain indices); mode 0 = normalize_domain_indices=True,
   1 = False, 2 = explicit domain_indices given *)
Definition tgrid := (nat * list elem * list nat)%type.
Definition lmax (l : list nat) : nat := fold_right Nat.max 0 l.
Definition lmin (l : list nat) : nat := match l with [] => 0 | h :: r => fold_right Nat.min h r end.
(* normalize_array: subtract the minimum, then replace every value by its rank among the distinct values *)
Definition rank_in (l : list nat) (x : nat) : nat :=
  length (nodup Nat.eq_dec (filter (fun y => y <? x) l)).
Definition normalize_array (l : list nat) : list nat := map (rank_in l) l.
Definition swap_elem (e : elem) : elem := (vget e 0, vget e 2, vget e 1).
Definition shift_elem (off : nat) (e : elem) : elem := (vget e 0 + off, vget e 1 + off, vget e 2 + off).
Fixpoint union_doms (mode : nat) (prev_max : nat) (first : bool) (gs : list tgrid) : list (list nat) :=
  match gs with
  | [] => []
  | g :: r =>
    let d := snd g in
    let d' := match mode with
              | 0 => if first then normalize_array d else map (fun x => prev_max + 1 + x) (normalize_array d)
              | _ => if first then d else map (fun x => prev_max + 1 + (x - lmin d)) d
              end in
    d' :: union_doms mode (lmax d') false r
  end.
Fixpoint union_els (off : nat) (gs : list tgrid) (sw : list bool) : list elem :=
  match gs with
  | [] => []
  | g :: r =>
    let s := match sw with b :: _ => b | [] => false end in
    map (fun e => shift_elem off (if s then swap_elem e else e)) (snd (fst g))
    ++ union_els (off + fst (fst g)) r (tl sw)
  end.
Definition union (gs : list tgrid) (swapped : option (list bool)) (mode : nat) (given : option (list nat)) : tgrid :=
  let sw := match swapped with Some s => s | None => [] end in
  let doms := match given with
              | Some ds => map (fun p => map (fun _ => snd p) (snd (fst (fst p)))) (combine gs ds)
              | None => union_doms mode 0 true gs
              end in
  (fold_right Nat.add 0 (map (fun g => fst (fst g)) gs), union_els 0 gs sw, concat doms).

(* ---- grid_from_segments --------------------------------------------------------------------------------------
   the library compacts the used vertices in the iteration order of a Python set (unspecified); the model uses
   increasing order, and the correspondence check compares up to the renumbering of vertices *)
Definition selected (g : cgrid) (segs : list nat) : list (elem * nat) :=
  filter (fun p => existsb (Nat.eqb (snd p)) segs) (combine (g_els g) (g_dom g)).
Definition used_vertices (els : list elem) (nv : nat) : list nat :=
  filter (fun v => existsb (fun e => elem_has_vertex e v) els) (seq 0 nv).
Fixpoint position (x : nat) (l : list nat) : nat :=
  match l with [] => 0 | h :: r => if h =? x then 0 else S (position x r) end.
Definition segments (g : cgrid) (segs : list nat) : cgrid :=
  let sel := selected g segs in
  let els := map fst sel in
  let used := used_vertices els (length (g_vs g)) in
  (map (vat (g_vs g)) used,
   map (fun e => (position (vget e 0) used, position (vget e 1) used, position (vget e 2) used)) els,
   map snd sel).
