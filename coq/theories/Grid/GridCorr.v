(* Comparison functions of the C11/C01 correspondence checks: the harness writes the inputs and what the library
   returned (canonicalised; floats as exact rationals) into a cases file; these functions run the model on the
   same input and report the indices of disagreeing cases. *)
From Coq Require Import QArith Qabs ZArith List Bool Arith.
From BV Require Import Grid.Topology Grid.Geometry.
Import ListNotations.

Fixpoint leqb {A} (eq : A -> A -> bool) (l1 l2 : list A) : bool :=
  match l1, l2 with
  | [], [] => true
  | a :: r1, b :: r2 => eq a b && leqb eq r1 r2
  | _, _ => false
  end.
Definition p2eqb (a b : nat * nat) : bool := (fst a =? fst b) && (snd a =? snd b).
Definition p3eqb (a b : nat * nat * nat) : bool := p2eqb (fst a) (fst b) && (snd a =? snd b).
Definition p4eqb (a b : vrow) : bool := p3eqb (fst a) (fst b) && (snd a =? snd b).
Definition p5eqb (a b : nat * nat * nat * nat * nat) : bool := p4eqb (fst a) (fst b) && (snd a =? snd b).
Definition p6eqb (a b : erow) : bool := p5eqb (fst a) (fst b) && (snd a =? snd b).

Definition topology_eqb (a b : topology) : bool :=
  leqb p2eqb (t_edges a) (t_edges b) && leqb p3eqb (t_element_edges a) (t_element_edges b) &&
  leqb p6eqb (t_edge_adjacency a) (t_edge_adjacency b) && leqb p4eqb (t_vertex_adjacency a) (t_vertex_adjacency b) &&
  leqb (leqb Nat.eqb) (t_element_neighbors a) (t_element_neighbors b) &&
  leqb (leqb Nat.eqb) (t_edge_neighbors a) (t_edge_neighbors b) &&
  leqb (leqb Nat.eqb) (t_vertex_neighbors a) (t_vertex_neighbors b) &&
  leqb Bool.eqb (t_edge_on_boundary a) (t_edge_on_boundary b) &&
  leqb Bool.eqb (t_vertex_on_boundary a) (t_vertex_on_boundary b).

(* which table differs (for the report): 0 = none *)
Definition topology_diff (a b : topology) : nat :=
  if negb (leqb p2eqb (t_edges a) (t_edges b)) then 1 else
  if negb (leqb p3eqb (t_element_edges a) (t_element_edges b)) then 2 else
  if negb (leqb p6eqb (t_edge_adjacency a) (t_edge_adjacency b)) then 3 else
  if negb (leqb p4eqb (t_vertex_adjacency a) (t_vertex_adjacency b)) then 4 else
  if negb (leqb (leqb Nat.eqb) (t_element_neighbors a) (t_element_neighbors b)) then 5 else
  if negb (leqb (leqb Nat.eqb) (t_edge_neighbors a) (t_edge_neighbors b)) then 6 else
  if negb (leqb (leqb Nat.eqb) (t_vertex_neighbors a) (t_vertex_neighbors b)) then 7 else
  if negb (leqb Bool.eqb (t_edge_on_boundary a) (t_edge_on_boundary b)) then 8 else
  if negb (leqb Bool.eqb (t_vertex_on_boundary a) (t_vertex_on_boundary b)) then 9 else 0.

(* exception class of Grid(...) with vertex coordinates in general position:
   0 accepted, 1 IndexError (no elements), 2 ValueError (index out of range / no second common pair),
   3 LinAlgError (an element with a repeated vertex has a singular J^T J; numpy.linalg.inv detects this only
     when the rounded J^T J is exactly singular, so for such input the library either raises or accepts --
     observed: both -- and kind 3 of the model allows both) *)
Definition model_kind (els : list elem) (nv : nat) : nat :=
  if length els =? 0 then 1 else
  match grid_topology els nv with
  | None => 2
  | Some _ => if forallb wf_elem els then 0 else 3
  end.

(* a case: elements, number of vertices, the library's exception class, the library's tables when accepted *)
Definition topo_case := (list elem * nat * nat * option topology)%type.
Definition kind_ok (kind mk : nat) : bool := if mk =? 3 then (kind =? 0) || (kind =? 3) else kind =? mk.
Definition topo_case_ok (c : topo_case) : bool :=
  let '(els, nv, kind, impl) := c in
  kind_ok kind (model_kind els nv) &&
  match impl, grid_topology els nv with
  | Some t', Some t => topology_eqb t t'
  | Some _, None => false
  | None, _ => true
  end.
Definition topo_case_diff (c : topo_case) : nat :=
  let '(els, nv, kind, impl) := c in
  if negb (kind_ok kind (model_kind els nv)) then 100 + model_kind els nv else
  match impl, grid_topology els nv with
  | Some t', Some t => topology_diff t t'
  | Some _, None => 99
  | None, _ => 0
  end.

(* elements_adjacent(elements, e, f) of core/numba_kernels.py on all ordered pairs, row-major *)
Definition adjacent_case_ok (c : list elem * list bool) : bool :=
  let '(els, impl) := c in
  leqb Bool.eqb (map (fun p => elements_adjacent (el els (fst p)) (el els (snd p))) (all_pairs (length els))) impl.

Definition failing {A} (ok : A -> bool) (l : list A) : list nat :=
  map fst (filter (fun ic => negb (ok (snd ic))) (combine (seq 0 (length l)) l)).
Definition diffs {A} (d : A -> nat) (l : list A) : list (nat * nat) :=
  filter (fun ic => negb (snd ic =? 0)) (combine (seq 0 (length l)) (map d l)).

(* ---- geometry: sqrt-free comparison ----------------------------------------------------------------------- *)
Open Scope Q_scope.
Definition qclose (tol a b : Q) : bool := Qle_bool (Qabs (a - b)) tol.
Definition relclose (tol a b : Q) : bool := Qle_bool (Qabs (a - b)) (tol * (Qabs b + 1)).
Definition vclose (tol : Q) (u v : vec) : bool :=
  relclose tol (vx u) (vx v) && relclose tol (vy u) (vy v) && relclose tol (vz u) (vz v).
Definition sgn (q : Q) : Z := Z.sgn (Qnum q).

(* what the library returned for one element *)
Record impl_geom := mkGeom {
  g_normal : vec; g_volume : Q; g_int_elem : Q; g_diameter : Q; g_centroid : vec;
  g_jac_a : vec; g_jac_b : vec; g_jinvT_a : vec; g_jinvT_b : vec }.

Definition geom_tol : Q := 1 # 1000000000000.

Definition normal_comp_ok (cc c n : Q) : bool :=
  (* n = c / sqrt(cc)  <=>  n^2 cc = c^2 and sign n = sign c *)
  relclose geom_tol (n * n * cc) (c * c) && ((sgn n =? sgn c)%Z || qclose geom_tol n 0 && Qeq_bool c 0).

Definition geom_elem_ok (x : vec * vec * vec) (g : impl_geom) : bool :=
  let '(x0, x1, x2) := x in
  let nd := normal_dir x0 x1 x2 in let cc := cross_sq x0 x1 x2 in
  let n := g_normal g in
  normal_comp_ok cc (vx nd) (vx n) && normal_comp_ok cc (vy nd) (vy n) && normal_comp_ok cc (vz nd) (vz n) &&
  relclose geom_tol (dot n n) 1 &&
  relclose geom_tol (4 * g_volume g * g_volume g) cc && Qle_bool 0 (g_volume g) &&
  relclose geom_tol (g_int_elem g * g_int_elem g) (gram_det x0 x1 x2) && Qle_bool 0 (g_int_elem g) &&
  relclose geom_tol (g_diameter g * g_diameter g) (diameter_sq x0 x1 x2) && Qle_bool 0 (g_diameter g) &&
  vclose geom_tol (g_centroid g) (centroid x0 x1 x2) &&
  vclose geom_tol (g_jac_a g) (jac_a x0 x1 x2) && vclose geom_tol (g_jac_b g) (jac_b x0 x1 x2) &&
  vclose geom_tol (g_jinvT_a g) (fst (jinvT x0 x1 x2)) && vclose geom_tol (g_jinvT_b g) (snd (jinvT x0 x1 x2)).

Definition elem_coords (vs : list vec) (e : elem) : vec * vec * vec :=
  (nth (vget e 0) vs (0, 0, 0), nth (vget e 1) vs (0, 0, 0), nth (vget e 2) vs (0, 0, 0)).
Fixpoint forallb2 {A B} (f : A -> B -> bool) (l1 : list A) (l2 : list B) : bool :=
  match l1, l2 with
  | [], [] => true
  | a :: l1', b :: l2' => f a b && forallb2 f l1' l2'
  | _, _ => false end.
(* a geometry case: vertices, elements, the library's per-element quantities, or None = LinAlgError *)
Definition geom_case := (list vec * list elem * option (list impl_geom))%type.
Definition geom_case_ok (c : geom_case) : bool :=
  let '(vs, els, impl) := c in
  let deg := existsb (fun e => let '(x0, x1, x2) := elem_coords vs e in degenerate x0 x1 x2) els in
  match impl with
  | None => deg
  | Some gs => negb deg && forallb2 (fun e g => geom_elem_ok (elem_coords vs e) g) els gs
  end.
