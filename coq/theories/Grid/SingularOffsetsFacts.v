(* C01_offsets_select_remap: the offsets stored per singular pair address exactly the block of the concatenated
   point array that was produced by the remap named by the pair's local indices. *)
From Coq Require Import QArith ZArith List Bool Lia.
From BV Require Import Quad.Rules Quad.DuffyMoments Quad.DuffyExact Grid.Topology Grid.AdjacencyFacts Grid.SingularOffsets.
Import ListNotations.

(* lengths of the Duffy rules without the exactness sweeps of C12 (keeps these theorems free of the primitive-integer
   axioms): the n-point Gauss rule has n points, for every accepted n, by a finite sweep over the lookup *)
Definition gauss_len_ok (o : Z) : bool :=
  match gauss_rule o with Some r => Nat.eqb (length r) (Z.to_nat o) | None => false end.
Lemma gauss_len_sweep : forallb gauss_len_ok (map Z.of_nat (seq 1 30)) = true.
Proof. vm_compute. reflexivity. Qed.
Lemma gauss_ruleQ_len order xw : (1 <= order <= 30)%Z -> gauss_ruleQ order = Some xw -> length xw = Z.to_nat order.
Proof.
  intros Ho H.
  assert (Hin : In order (map Z.of_nat (seq 1 30))).
  { replace order with (Z.of_nat (Z.to_nat order)) by lia. apply in_map, in_seq. lia. }
  pose proof (proj1 (forallb_forall _ _) gauss_len_sweep order Hin) as S. unfold gauss_len_ok in S.
  unfold gauss_ruleQ in H. destruct (gauss_rule order) as [r|]; [|discriminate].
  inversion H; subst. rewrite map_length. apply Nat.eqb_eq. exact S.
Qed.
Lemma duffy_counts order adj pts :
  (1 <= order <= 30)%Z -> (adj < 3)%nat -> duffy order adj = Some pts ->
  Z.of_nat (length pts) = (count_factor_of adj * order ^ 4)%Z /\
  count_factor_of adj = match adj with 0%nat => 6%Z | 1%nat => 5%Z | _ => 2%Z end.
Proof.
  intros Ho Ha H. unfold duffy in H. destruct (gauss_ruleQ order) as [xw|] eqn:E; [|discriminate].
  inversion H; subst. rewrite duffy_rule_length, (gauss_ruleQ_len _ _ Ho E).
  destruct region_counts as (c6 & c5 & c2 & f6 & f5 & f2).
  assert (Hn : Z.of_nat (Z.to_nat order) = order) by lia.
  destruct adj as [|[|[|adj]]]; try lia; cbn [regions_of count_factor_of];
    rewrite ?c6, ?c5, ?c2, ?f6, ?f5, ?f2; (split; [|reflexivity]);
    rewrite !Nat2Z.inj_mul, Hn; ring.
Qed.

Lemma drop_app_length {A} (a l : list A) k : drop (length a + k) (a ++ l) = drop k l.
Proof. induction a as [|x a IH]; cbn; [reflexivity|exact IH]. Qed.
Lemma take_app_length {A} (a l : list A) : take (length a) (a ++ l) = a.
Proof. induction a as [|x a IH]; cbn; [reflexivity|f_equal; exact IH]. Qed.
Lemma slice_skip {A} (a l : list A) k m : slice (length a + k) m (a ++ l) = slice k m l.
Proof. unfold slice. rewrite drop_app_length. reflexivity. Qed.
Lemma slice_head {A} (a l : list A) : slice 0 (length a) (a ++ l) = a.
Proof. unfold slice. cbn. apply take_app_length. Qed.

Lemma nth_map_d {A B} (f : A -> B) l k d d' : (k < length l)%nat -> nth k (map f l) d = f (nth k l d').
Proof. intros H. rewrite (nth_indep (map f l) d (f d')) by (rewrite map_length; exact H). apply map_nth. Qed.

(* the k-th of equally long blocks *)
Lemma slice_blocks {A} (blocks : list (list A)) m : (forall b, In b blocks -> length b = m) ->
  forall k pre post, (k < length blocks)%nat ->
  slice (length pre + k * m) m (pre ++ concat blocks ++ post) = nth k blocks [].
Proof.
  induction blocks as [|b0 bs IH]; intros H k pre post Hk; cbn in Hk; [lia|].
  assert (L0 : length b0 = m) by (apply H; left; reflexivity).
  destruct k as [|k].
  - cbn [Nat.mul nth concat]. rewrite slice_skip. rewrite <- app_assoc, <- L0. apply slice_head.
  - cbn [nth concat]. rewrite <- app_assoc.
    replace (length pre + S k * m)%nat with (length (pre ++ b0) + k * m)%nat by (rewrite app_length; lia).
    rewrite (app_assoc pre b0). apply IH; [intros b Hb; apply H; right; exact Hb|lia].
Qed.

Lemma edge_order_index i0 i1 : (i0 < 3)%nat -> (i1 < 3)%nat -> i0 <> i1 ->
  (0 <= offset_values i0 i1 < 6)%Z /\ nth (Z.to_nat (offset_values i0 i1)) edge_remap_order (0, 0)%nat = (i0, i1).
Proof.
  intros H0 H1 Hn. destruct i0 as [|[|[|i0]]]; try lia; destruct i1 as [|[|[|i1]]]; try lia; cbn; (split; [lia|reflexivity]).
Qed.

Section Blocks.
Variables (pc pe pv : list (Q * Q)).
Notation nc := (length pc). Notation ne := (length pe). Notation nv := (length pv).

Lemma collect_edge_concat : collect_edge pe = concat (map (fun v => map (remap_edge (fst v) (snd v)) pe) edge_remap_order).
Proof. unfold collect_edge. apply flat_map_concat_map. Qed.
Lemma collect_vertex_concat : collect_vertex pv = concat (map (fun k => map (remap_vertex k) pv) [0; 1; 2]%nat).
Proof. unfold collect_vertex. apply flat_map_concat_map. Qed.
Lemma collect_edge_length : length (collect_edge pe) = (6 * ne)%nat.
Proof. unfold collect_edge, edge_remap_order. cbn [flat_map]. rewrite !app_length, !map_length. cbn [length]. lia. Qed.

Theorem points_blocks :
  slice 0 nc (vectorize_points pc pe pv) = pc /\
  (forall i0 i1, (i0 < 3)%nat -> (i1 < 3)%nat -> i0 <> i1 ->
     slice (nc + Z.to_nat (offset_values i0 i1) * ne) ne (vectorize_points pc pe pv) = map (remap_edge i0 i1) pe) /\
  (forall k, (k < 3)%nat ->
     slice (nc + 6 * ne + k * nv) nv (vectorize_points pc pe pv) = map (remap_vertex k) pv).
Proof.
  unfold vectorize_points. split; [apply slice_head|]. split.
  - intros i0 i1 H0 H1 Hn. destruct (edge_order_index i0 i1 H0 H1 Hn) as [R N].
    rewrite collect_edge_concat.
    rewrite (slice_blocks _ ne).
    + rewrite (nth_map_d _ _ _ _ (0, 0)%nat) by (change (length edge_remap_order) with 6%nat; lia).
      rewrite N. reflexivity.
    + intros b Hb. apply in_map_iff in Hb as [v [<- _]]. apply map_length.
    + rewrite map_length. change (length edge_remap_order) with 6%nat. lia.
  - intros k Hk.
    replace (nc + 6 * ne + k * nv)%nat with (length (pc ++ collect_edge pe) + k * nv)%nat
      by (rewrite app_length, collect_edge_length; lia).
    rewrite app_assoc. rewrite collect_vertex_concat.
    rewrite <- (app_nil_r (concat _)). rewrite (slice_blocks _ nv).
    + destruct k as [|[|[|k]]]; [reflexivity|reflexivity|reflexivity|lia].
    + intros b Hb. apply in_map_iff in Hb as [v [<- _]]. apply map_length.
    + cbn. lia.
Qed.
End Blocks.

Theorem weights_blocks (wc we wv : list Q) :
  slice 0 (length wc) (vectorize_weights wc we wv) = wc /\
  slice (length wc) (length we) (vectorize_weights wc we wv) = we /\
  slice (length wc + length we) (length wv) (vectorize_weights wc we wv) = wv.
Proof.
  unfold vectorize_weights. split; [apply slice_head|]. split.
  - rewrite <- (Nat.add_0_r (length wc)). rewrite slice_skip. apply slice_head.
  - rewrite app_assoc. rewrite <- app_length. rewrite <- (Nat.add_0_r (length (wc ++ we))).
    rewrite slice_skip. rewrite <- (app_nil_r wv) at 2. apply slice_head.
Qed.

(* for the actual rules of duffy_galerkin.rule(order, .), orders 1..30, with the offsets of
   _compute_edge_offsets / _compute_vertex_offsets; [proj] is test_pt or trial_pt *)
Theorem offsets_select_remap order rc re rv (proj : qpoint -> Q * Q) (wp : qpoint -> Q) :
  (1 <= order <= 30)%Z -> duffy order 0 = Some rc -> duffy order 1 = Some re -> duffy order 2 = Some rv ->
  let P := vectorize_points (map proj rc) (map proj re) (map proj rv) in
  let W := vectorize_weights (map wp rc) (map wp re) (map wp rv) in
  (npts order 0 = 6 * order ^ 4 /\ npts order 1 = 5 * order ^ 4 /\ npts order 2 = 2 * order ^ 4)%Z /\
  slice 0 (Z.to_nat (npts order 0)) P = map proj rc /\
  (forall i0 i1, (i0 < 3)%nat -> (i1 < 3)%nat -> i0 <> i1 ->
     (0 <= edge_offset order i0 i1 < 2 ^ 32)%Z /\
     slice (Z.to_nat (edge_offset order i0 i1)) (Z.to_nat (npts order 1)) P = map (remap_edge i0 i1) (map proj re)) /\
  (forall k, (k < 3)%nat ->
     (0 <= vertex_offset order k < 2 ^ 32)%Z /\
     slice (Z.to_nat (vertex_offset order k)) (Z.to_nat (npts order 2)) P = map (remap_vertex k) (map proj rv)) /\
  slice 0 (Z.to_nat (npts order 0)) W = map wp rc /\
  slice (Z.to_nat (npts order 0)) (Z.to_nat (npts order 1)) W = map wp re /\
  slice (Z.to_nat (npts order 0 + npts order 1)) (Z.to_nat (npts order 2)) W = map wp rv.
Proof.
  intros Ho Hc He Hv P W.
  destruct (duffy_counts order 0 rc Ho ltac:(lia) Hc) as [Lc Fc].
  destruct (duffy_counts order 1 re Ho ltac:(lia) He) as [Le Fe].
  destruct (duffy_counts order 2 rv Ho ltac:(lia) Hv) as [Lv Fv].
  assert (N0 : npts order 0 = Z.of_nat (length rc)) by (unfold npts; lia).
  assert (N1 : npts order 1 = Z.of_nat (length re)) by (unfold npts; lia).
  assert (N2 : npts order 2 = Z.of_nat (length rv)) by (unfold npts; lia).
  assert (B : (1 <= order ^ 4 <= 30 ^ 4)%Z).
  { split; [apply (Z.pow_le_mono_l 1 order 4); lia|apply Z.pow_le_mono_l; lia]. }
  split; [unfold npts; rewrite Fc, Fe, Fv; auto|].
  destruct (points_blocks (map proj rc) (map proj re) (map proj rv)) as (PB0 & PB1 & PB2).
  destruct (weights_blocks (map wp rc) (map wp re) (map wp rv)) as (WB0 & WB1 & WB2).
  rewrite !map_length in *. rewrite N0, N1, N2, !Nat2Z.id.
  split; [exact PB0|]. split; [|split; [|split; [exact WB0|split; [exact WB1|]]]].
  - intros i0 i1 H0 H1 Hn. destruct (edge_order_index i0 i1 H0 H1 Hn) as [R _].
    unfold edge_offset. rewrite N0, N1. split; [rewrite <- N0, <- N1; unfold npts; rewrite Fc, Fe; cbn in B; nia|].
    replace (Z.to_nat (Z.of_nat (length rc) + Z.of_nat (length re) * offset_values i0 i1))
      with (length rc + Z.to_nat (offset_values i0 i1) * length re)%nat by nia.
    apply PB1; assumption.
  - intros k Hk. unfold vertex_offset. rewrite N0, N1, N2.
    split; [rewrite <- N0, <- N1, <- N2; unfold npts; rewrite Fc, Fe, Fv; cbn in B; nia|].
    replace (Z.to_nat (Z.of_nat (length rc) + 6 * Z.of_nat (length re) + Z.of_nat (length rv) * Z.of_nat k))
      with (length rc + 6 * length re + k * length rv)%nat by nia.
    apply PB2; assumption.
  - rewrite <- Nat2Z.inj_add, Nat2Z.id. exact WB2.
Qed.

(* per-pair arrays: the k-th edge pair carries the offsets of its own local indices (by construction of the
   model; stated so that the composition with edge_rows_correct is explicit) *)
Theorem vectorize_edge_entry order ts rs ea va k :
  let A := vectorize order ts rs ea va in
  let co := length (coincident_indices ts rs) in
  (k < length (filter_edge ts rs ea))%nat ->
  match nth k (filter_edge ts rs ea) (0, 0, 0, 0, 0, 0)%nat with
  | (e, f, i0, i1, j0, j1) =>
    nth (co + k) (s_test_indices A) 0%nat = e /\ nth (co + k) (s_trial_indices A) 0%nat = f /\
    nth (co + k) (s_test_offsets A) 0%Z = u32 (edge_offset order i0 i1) /\
    nth (co + k) (s_trial_offsets A) 0%Z = u32 (edge_offset order j0 j1) /\
    nth (co + k) (s_weights_offsets A) 0%Z = u32 (npts order 0) /\ nth (co + k) (s_nquad A) 0%Z = u32 (npts order 1)
  end.
Proof.
  intros A co Hk. unfold A, vectorize. cbn [s_test_indices s_trial_indices s_test_offsets s_trial_offsets
    s_weights_offsets s_nquad].
  set (ea' := filter_edge ts rs ea) in *. set (cl := coincident_indices ts rs) in *.
  destruct (nth k ea' (0, 0, 0, 0, 0, 0)%nat) as [[[[[e f] i0] i1] j0] j1] eqn:E.
  assert (X : forall {T} (d : T) (g : erow -> T) (pre : list T) post, length pre = co ->
            nth (co + k) (pre ++ map g ea' ++ post) d = g (nth k ea' (0, 0, 0, 0, 0, 0)%nat)).
  { intros T d g pre post Hl. rewrite app_nth2 by lia. rewrite Hl.
    replace (co + k - co)%nat with k by lia. rewrite app_nth1 by (rewrite map_length; exact Hk).
    apply nth_map_d. exact Hk. }
  repeat split; rewrite X by (try rewrite map_length; reflexivity); rewrite ?E; reflexivity.
Qed.

Theorem vectorize_vertex_entry order ts rs ea va k :
  let A := vectorize order ts rs ea va in
  let co := (length (coincident_indices ts rs) + length (filter_edge ts rs ea))%nat in
  (k < length (filter_vertex ts rs va))%nat ->
  match nth k (filter_vertex ts rs va) (0, 0, 0, 0)%nat with
  | (e, f, i, j) =>
    nth (co + k) (s_test_indices A) 0%nat = e /\ nth (co + k) (s_trial_indices A) 0%nat = f /\
    nth (co + k) (s_test_offsets A) 0%Z = vertex_offset_u32 order i /\
    nth (co + k) (s_trial_offsets A) 0%Z = vertex_offset_u32 order j /\
    nth (co + k) (s_weights_offsets A) 0%Z = u32 (npts order 0 + npts order 1) /\
    nth (co + k) (s_nquad A) 0%Z = u32 (npts order 2)
  end.
Proof.
  intros A co Hk. unfold A, vectorize. cbn [s_test_indices s_trial_indices s_test_offsets s_trial_offsets
    s_weights_offsets s_nquad].
  set (ea' := filter_edge ts rs ea) in *. set (va' := filter_vertex ts rs va) in *.
  set (cl := coincident_indices ts rs) in *.
  destruct (nth k va' (0, 0, 0, 0)%nat) as [[[e f] i] j] eqn:E.
  assert (X : forall {T} (d : T) (g : vrow -> T) (pre mid : list T), length pre = length cl -> length mid = length ea' ->
            nth (co + k) (pre ++ mid ++ map g va') d = g (nth k va' (0, 0, 0, 0)%nat)).
  { intros T d g pre mid Hl Hm. rewrite app_assoc. rewrite app_nth2 by (rewrite app_length; unfold co; lia).
    rewrite app_length, Hl, Hm. replace (co + k - (length cl + length ea'))%nat with k by (unfold co; lia).
    apply nth_map_d. exact Hk. }
  repeat split; rewrite X by (rewrite ?map_length; reflexivity); rewrite ?E; reflexivity.
Qed.

Theorem support_filter ts rs (ea : list erow) (va : list vrow) :
  (forall r, In r (filter_edge ts rs ea) <->
     In r ea /\ sup ts (fst (AdjacencyFacts.erow_pair r)) = true /\ sup rs (snd (AdjacencyFacts.erow_pair r)) = true) /\
  (forall r, In r (filter_vertex ts rs va) <->
     In r va /\ sup ts (fst (AdjacencyFacts.vrow_pair r)) = true /\ sup rs (snd (AdjacencyFacts.vrow_pair r)) = true) /\
  (forall e, In e (coincident_indices ts rs) <-> sup ts e = true /\ sup rs e = true) /\
  NoDup (coincident_indices ts rs).
Proof.
  split; [|split; [|split]].
  - intros [[[[[e f] a] b] c] d]. unfold filter_edge. rewrite filter_In, andb_true_iff. reflexivity.
  - intros [[[e f] a] b]. unfold filter_vertex. rewrite filter_In, andb_true_iff. reflexivity.
  - intros e. unfold coincident_indices. rewrite filter_In, andb_true_iff, in_seq. split; [tauto|].
    intros [A B]. split; [|auto]. unfold sup in *.
    assert (e < length ts)%nat by (destruct (Nat.lt_ge_cases e (length ts)); [assumption|rewrite nth_overflow in A by assumption; discriminate]).
    assert (e < length rs)%nat by (destruct (Nat.lt_ge_cases e (length rs)); [assumption|rewrite nth_overflow in B by assumption; discriminate]).
    lia.
  - apply NoDup_filter, seq_NoDup.
Qed.

(* the uint32 reductions are the identity for every accepted order (1..30) -- and would not be with 16 bits *)
Theorem offsets_fit_u32 order : (1 <= order <= 30)%Z ->
  (forall i j, (i < 3)%nat -> (j < 3)%nat -> i <> j -> u32 (edge_offset order i j) = edge_offset order i j) /\
  (forall k, (k < 3)%nat -> vertex_offset_u32 order k = vertex_offset order k) /\
  u32 (npts order 0) = npts order 0 /\ u32 (npts order 1) = npts order 1 /\ u32 (npts order 2) = npts order 2 /\
  u32 (npts order 0 + npts order 1) = (npts order 0 + npts order 1)%Z.
Proof.
  intros Ho. assert (B : (1 <= order ^ 4 <= 30 ^ 4)%Z).
  { split; [apply (Z.pow_le_mono_l 1 order 4); lia|apply Z.pow_le_mono_l; lia]. }
  destruct region_counts as (_ & _ & _ & f6 & f5 & f2).
  assert (N0 : npts order 0 = (6 * order ^ 4)%Z) by (unfold npts; cbn [count_factor_of]; rewrite f6; reflexivity).
  assert (N1 : npts order 1 = (5 * order ^ 4)%Z) by (unfold npts; cbn [count_factor_of]; rewrite f5; reflexivity).
  assert (N2 : npts order 2 = (2 * order ^ 4)%Z) by (unfold npts; cbn [count_factor_of]; rewrite f2; reflexivity).
  cbn in B. unfold vertex_offset_u32, u32, vertex_offset, edge_offset. rewrite N0, N1, N2.
  split; [|split; [|repeat split]].
  - intros i j Hi Hj Hn. destruct (edge_order_index i j Hi Hj Hn) as [R _]. apply Z.mod_small. nia.
  - intros k Hk. rewrite (Z.mod_small (2 * order ^ 4 * Z.of_nat k)) by nia. apply Z.mod_small. nia.
  - apply Z.mod_small. nia.
  - apply Z.mod_small. nia.
  - apply Z.mod_small. nia.
  - apply Z.mod_small. nia.
Qed.

Theorem offsets_do_not_fit_u16 :
  exists order i j, (1 <= order <= 30)%Z /\ (i < 3)%nat /\ (j < 3)%nat /\ i <> j /\
    (edge_offset order i j mod 2 ^ 16 <> edge_offset order i j)%Z.
Proof. exists 7%Z, 2%nat, 0%nat. repeat split; try lia. vm_compute. discriminate. Qed.
