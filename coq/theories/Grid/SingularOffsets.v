(* Executable model (tie H) of _SingularQuadratureRuleInterfaceGalerkin in bempp_cl/core/singular_assembler.py:
   __init__ (support filter), _compute_edge_offsets, _compute_vertex_offsets, _vectorize_indices,
   _get_number_of_quad_points, _vectorize_points, _vectorize_weights, _vectorize_offsets, get_arrays.
   The Duffy rules, remaps and point-count factors come from Quad.Rules (regenerated from duffy_galerkin.py).
   No proofs here. *)
From Coq Require Import QArith ZArith List Bool.
From BV Require Import Quad.Rules Grid.Topology.
Import ListNotations.

(* number_of_points(adjacency) = duffy_galerkin.number_of_quadrature_points(order, adjacency) *)
Definition npts (order : Z) (adj : nat) : Z := (count_factor_of adj * order ^ 4)%Z.

(* offset_values = [[-1, 0, 4], [1, -1, 2], [5, 3, -1]] *)
Definition offset_values (i j : nat) : Z :=
  nth j (nth i [[-1; 0; 4]; [1; -1; 2]; [5; 3; -1]]%Z []) 0%Z.
Definition edge_offset (order : Z) (i j : nat) : Z := (npts order 0 + npts order 1 * offset_values i j)%Z.
Definition vertex_offset (order : Z) (k : nat) : Z :=
  (npts order 0 + 6 * npts order 1 + npts order 2 * Z.of_nat k)%Z.

(* dtype of the arrays the offsets are stored in (test_offsets, trial_offsets, weights_offsets, number_of_quad_points
   are numpy uint32; vertex_offsets is computed in uint32 because of `_np.arange(3, dtype="uint32")`): values are
   reduced modulo 2^32.  edge_offsets is an int64 table (Python ints and a default-int array). *)
Definition u32 (z : Z) : Z := (z mod 2 ^ 32)%Z.
Definition vertex_offset_u32 (order : Z) (k : nat) : Z :=
  u32 (npts order 0 + 6 * npts order 1 + u32 (npts order 2 * Z.of_nat k)).

(* _collect_remapped_quad_points_for_edge_adjacent_rule: order of the hstack *)
Definition edge_remap_order : list (nat * nat) := [(0, 1); (1, 0); (1, 2); (2, 1); (0, 2); (2, 0)]%nat.
Definition collect_edge (pts : list (Q * Q)) : list (Q * Q) :=
  flat_map (fun v => map (remap_edge (fst v) (snd v)) pts) edge_remap_order.
Definition collect_vertex (pts : list (Q * Q)) : list (Q * Q) :=
  flat_map (fun k => map (remap_vertex k) pts) [0; 1; 2]%nat.
(* _vectorize_points (for the test or the trial points) and _vectorize_weights *)
Definition vectorize_points (pc pe pv : list (Q * Q)) : list (Q * Q) := pc ++ collect_edge pe ++ collect_vertex pv.
Definition vectorize_weights (wc we wv : list Q) : list Q := wc ++ we ++ wv.

(* Qred only normalises the representation of the rational (keeps vm_compute fast); the value is unchanged *)
Definition test_pt (p : qpoint) : Q * Q := (Qred (q_t0 p), Qred (q_t1 p)).
Definition trial_pt (p : qpoint) : Q * Q := (Qred (q_r0 p), Qred (q_r1 p)).
Definition weight_of (p : qpoint) : Q := Qred (q_w p).

(* __init__: rows of the adjacency tables whose elements lie in the supports; coincident elements *)
Definition sup (s : list bool) (e : nat) : bool := nth e s false.
Definition filter_edge (ts rs : list bool) (ea : list erow) : list erow :=
  filter (fun r => match r with (e, f, _, _, _, _) => sup ts e && sup rs f end) ea.
Definition filter_vertex (ts rs : list bool) (va : list vrow) : list vrow :=
  filter (fun r => match r with (e, f, _, _) => sup ts e && sup rs f end) va.
Definition coincident_indices (ts rs : list bool) : list nat :=
  filter (fun e => sup ts e && sup rs e) (seq 0 (Nat.min (length ts) (length rs))).

Record sing_arrays := mkSing {
  s_test_indices : list nat; s_trial_indices : list nat;
  s_test_offsets : list Z; s_trial_offsets : list Z; s_weights_offsets : list Z; s_nquad : list Z }.

(* _vectorize_indices, _vectorize_offsets, _get_number_of_quad_points *)
Definition vectorize (order : Z) (ts rs : list bool) (ea : list erow) (va : list vrow) : sing_arrays :=
  let co := coincident_indices ts rs in let ea' := filter_edge ts rs ea in let va' := filter_vertex ts rs va in
  mkSing
    (co ++ map (fun r => match r with (e, _, _, _, _, _) => e end) ea' ++ map (fun r => match r with (e, _, _, _) => e end) va')
    (co ++ map (fun r => match r with (_, f, _, _, _, _) => f end) ea' ++ map (fun r => match r with (_, f, _, _) => f end) va')
    (map (fun _ => 0%Z) co ++ map (fun r => match r with (_, _, i0, i1, _, _) => u32 (edge_offset order i0 i1) end) ea'
       ++ map (fun r => match r with (_, _, i, _) => vertex_offset_u32 order i end) va')
    (map (fun _ => 0%Z) co ++ map (fun r => match r with (_, _, _, _, j0, j1) => u32 (edge_offset order j0 j1) end) ea'
       ++ map (fun r => match r with (_, _, _, j) => vertex_offset_u32 order j end) va')
    (map (fun _ => 0%Z) co ++ map (fun _ => u32 (npts order 0)) ea' ++ map (fun _ => u32 (npts order 0 + npts order 1)) va')
    (map (fun _ => u32 (npts order 0)) co ++ map (fun _ => u32 (npts order 1)) ea' ++ map (fun _ => u32 (npts order 2)) va').

(* the three concatenated arrays of get_arrays for a given order (None if the order is rejected) *)
Definition rule_arrays (order : Z) : option (list (Q * Q) * list (Q * Q) * list Q) :=
  match duffy order 0, duffy order 1, duffy order 2 with
  | Some rc, Some re, Some rv =>
    Some (vectorize_points (map test_pt rc) (map test_pt re) (map test_pt rv),
          vectorize_points (map trial_pt rc) (map trial_pt re) (map trial_pt rv),
          vectorize_weights (map weight_of rc) (map weight_of re) (map weight_of rv))
  | _, _, _ => None
  end.
