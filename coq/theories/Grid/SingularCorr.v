(* Comparison functions of the C01 correspondence check (get_arrays of the singular quadrature interface). *)
From Coq Require Import QArith Qabs ZArith List Bool Arith.
From BV Require Import Quad.Rules Grid.Topology Grid.GridCorr Grid.SingularOffsets.
Import ListNotations.
Close Scope Q_scope.

(* order, test support, trial support, the grid's edge/vertex adjacency (in the library's own column order),
   and the six per-pair arrays the library returned *)
Definition sing_case := (Z * list bool * list bool * list erow * list vrow * sing_arrays)%type.
Definition sing_eqb (a b : sing_arrays) : bool :=
  leqb Nat.eqb (s_test_indices a) (s_test_indices b) && leqb Nat.eqb (s_trial_indices a) (s_trial_indices b) &&
  leqb Z.eqb (s_test_offsets a) (s_test_offsets b) && leqb Z.eqb (s_trial_offsets a) (s_trial_offsets b) &&
  leqb Z.eqb (s_weights_offsets a) (s_weights_offsets b) && leqb Z.eqb (s_nquad a) (s_nquad b).
Definition sing_case_ok (c : sing_case) : bool :=
  let '(order, ts, rs, ea, va, impl) := c in sing_eqb (vectorize order ts rs ea va) impl.

(* order and the three concatenated arrays (test points, trial points, weights) *)
Definition rule_case := (Z * list (Q * Q) * list (Q * Q) * list Q)%type.
Definition ptclose (a b : Q * Q) : bool :=
  qclose (1 # 100000000000000) (fst a) (fst b) && qclose (1 # 100000000000000) (snd a) (snd b).
Definition rule_case_ok (c : rule_case) : bool :=
  let '(order, tp, rp, w) := c in
  match rule_arrays order with
  | Some (mtp, mrp, mw) =>
    forallb2 ptclose mtp tp && forallb2 ptclose mrp rp && forallb2 (qclose (1 # 100000000000000)) mw w
  | None => false
  end.

(* structural variant for higher orders: the library's own duffy_galerkin.rule(order, .) outputs are given as
   input (their tie is C12's), only _vectorize_points / _vectorize_weights / the remaps are modelled *)
Definition rule2_case := (list qpoint * list qpoint * list qpoint * list (Q * Q) * list (Q * Q) * list Q)%type.
Definition rule2_case_ok (c : rule2_case) : bool :=
  let '(rc, re, rv, tp, rp, w) := c in
  forallb2 ptclose (vectorize_points (map test_pt rc) (map test_pt re) (map test_pt rv)) tp &&
  forallb2 ptclose (vectorize_points (map trial_pt rc) (map trial_pt re) (map trial_pt rv)) rp &&
  forallb2 (qclose (1 # 100000000000000)) (vectorize_weights (map weight_of rc) (map weight_of re) (map weight_of rv)) w.

(* Space.get_elements_by_color(): (color_map with -1 as None, sorted_indices, indexptr) *)
From BV Require Import Grid.PairCoverage.
Definition color_case := (list (option nat) * list nat * list nat)%type.
Fixpoint prefix_sums (acc : nat) (l : list nat) : list nat :=
  match l with [] => [acc] | h :: r => acc :: prefix_sums (acc + h) r end.
Definition color_case_ok (c : color_case) : bool :=
  let '(cm, sorted, indexptr) := c in
  leqb Nat.eqb (sorted_indices cm) sorted &&
  leqb Nat.eqb (prefix_sums 0 (map (@length nat) (elements_by_color cm))) indexptr.
