(* C11_geometry: identities between the modelled geometric quantities, for every triangle over Q. *)
From Coq Require Import QArith Qfield Setoid Lia ZArith.
From BV Require Import Grid.Geometry.
Open Scope Q_scope.

Ltac vunfold := unfold veq, jinvT, diameter_sq, centroid, l2g, cross_sq, gram_det, normal_dir, jac_a, jac_b, cross, dot, vsub, vadd,
  vscale, vx, vy, vz in *; cbn [fst snd] in *.
Ltac vdestruct := repeat match goal with v : vec |- _ => destruct v as [[? ?] ?] end.

(* Lagrange: |a x b|^2 = det(J^T J), i.e. integration_element^2 = (2 volume)^2 *)
Theorem cross_sq_is_gram_det x0 x1 x2 : cross_sq x0 x1 x2 == gram_det x0 x1 x2.
Proof. vdestruct. vunfold. ring. Qed.

(* the normal direction is orthogonal to both Jacobian columns *)
Theorem normal_orthogonal x0 x1 x2 :
  dot (normal_dir x0 x1 x2) (jac_a x0 x1 x2) == 0 /\ dot (normal_dir x0 x1 x2) (jac_b x0 x1 x2) == 0.
Proof. vdestruct. vunfold. split; ring. Qed.

(* right-handedness: det [a | b | n] = |n|^2 >= 0 *)
Definition det3 (u v w : vec) : Q := dot (cross u v) w.
Theorem right_handed x0 x1 x2 :
  det3 (jac_a x0 x1 x2) (jac_b x0 x1 x2) (normal_dir x0 x1 x2) == cross_sq x0 x1 x2 /\ 0 <= cross_sq x0 x1 x2.
Proof.
  split; [reflexivity|]. unfold cross_sq, dot.
  set (n := normal_dir x0 x1 x2). generalize (vx n) (vy n) (vz n). intros a b c.
  assert (H : forall q : Q, 0 <= q * q).
  { intros [qn qd]. unfold Qle. cbn. rewrite Z.mul_1_r. apply Z.square_nonneg. }
  pose proof (H a). pose proof (H b). pose proof (H c).
  apply Qle_trans with (0 + 0 + 0); [discriminate|]. repeat apply Qplus_le_compat; assumption.
Qed.

(* vertex order: a cyclic shift keeps the normal direction, a transposition reverses it *)
Theorem normal_cyclic x0 x1 x2 : veq (normal_dir x1 x2 x0) (normal_dir x0 x1 x2).
Proof. vdestruct. vunfold. repeat split; ring. Qed.
Theorem normal_swap x0 x1 x2 : veq (normal_dir x0 x2 x1) (vscale (-1 # 1) (normal_dir x0 x1 x2)).
Proof. vdestruct. vunfold. repeat split; ring. Qed.

(* JinvT^T J = I_2 for a non-degenerate element *)
Theorem jinvT_is_inverse x0 x1 x2 : ~ gram_det x0 x1 x2 == 0 ->
  let c0 := fst (jinvT x0 x1 x2) in let c1 := snd (jinvT x0 x1 x2) in
  dot c0 (jac_a x0 x1 x2) == 1 /\ dot c0 (jac_b x0 x1 x2) == 0 /\
  dot c1 (jac_a x0 x1 x2) == 0 /\ dot c1 (jac_b x0 x1 x2) == 1.
Proof. vdestruct. cbn zeta. vunfold. intro H. repeat split; field; exact H. Qed.

(* the columns of JinvT lie in the plane of the element *)
Theorem jinvT_tangential x0 x1 x2 : ~ gram_det x0 x1 x2 == 0 ->
  let c0 := fst (jinvT x0 x1 x2) in let c1 := snd (jinvT x0 x1 x2) in
  dot c0 (normal_dir x0 x1 x2) == 0 /\ dot c1 (normal_dir x0 x1 x2) == 0.
Proof. vdestruct. cbn zeta. vunfold. intro H. split; field; exact H. Qed.

(* centroid = image of the reference barycentre; three times it is the vertex sum *)
Theorem centroid_spec x0 x1 x2 :
  veq (centroid x0 x1 x2) (l2g x0 x1 x2 (1 # 3) (1 # 3)) /\
  veq (vscale 3 (centroid x0 x1 x2)) (vadd (vadd x0 x1) x2).
Proof. vdestruct. vunfold. repeat split; field. Qed.

(* local2global maps the reference vertices to the element's vertices *)
Theorem l2g_vertices x0 x1 x2 :
  veq (l2g x0 x1 x2 0 0) x0 /\ veq (l2g x0 x1 x2 1 0) x1 /\ veq (l2g x0 x1 x2 0 1) x2.
Proof. vdestruct. vunfold. repeat split; ring. Qed.

Theorem degenerate_spec x0 x1 x2 : degenerate x0 x1 x2 = true <-> cross_sq x0 x1 x2 == 0.
Proof. unfold degenerate. rewrite Qeq_bool_iff, cross_sq_is_gram_det. reflexivity. Qed.

Example geometry_example :
  let x0 := (0, 0, 0) in let x1 := (1, 0, 0) in let x2 := (0, 2, 0) in
  veq (normal_dir x0 x1 x2) (0, 0, 2) /\ cross_sq x0 x1 x2 == 4 /\ degenerate x0 x1 x2 = false /\
  diameter_sq x0 x1 x2 == 5.
Proof. vm_compute. repeat split; reflexivity || discriminate. Qed.

(* the conjunction stated in props/C11.v.  Not covered here (left to the correspondence check): the square roots
   volume = sqrt(cross_sq)/2, integration_element = sqrt(gram_det), normal = normal_dir / sqrt(cross_sq),
   diameter = sqrt(diameter_sq). *)
Theorem geometry_all x0 x1 x2 :
  cross_sq x0 x1 x2 == gram_det x0 x1 x2 /\
  dot (normal_dir x0 x1 x2) (jac_a x0 x1 x2) == 0 /\ dot (normal_dir x0 x1 x2) (jac_b x0 x1 x2) == 0 /\
  det3 (jac_a x0 x1 x2) (jac_b x0 x1 x2) (normal_dir x0 x1 x2) == cross_sq x0 x1 x2 /\ 0 <= cross_sq x0 x1 x2 /\
  veq (normal_dir x1 x2 x0) (normal_dir x0 x1 x2) /\
  veq (normal_dir x0 x2 x1) (vscale (-1 # 1) (normal_dir x0 x1 x2)) /\
  veq (centroid x0 x1 x2) (l2g x0 x1 x2 (1 # 3) (1 # 3)) /\
  veq (vscale 3 (centroid x0 x1 x2)) (vadd (vadd x0 x1) x2) /\
  (~ gram_det x0 x1 x2 == 0 ->
   let c0 := fst (jinvT x0 x1 x2) in let c1 := snd (jinvT x0 x1 x2) in
   dot c0 (jac_a x0 x1 x2) == 1 /\ dot c0 (jac_b x0 x1 x2) == 0 /\
   dot c1 (jac_a x0 x1 x2) == 0 /\ dot c1 (jac_b x0 x1 x2) == 1 /\
   dot c0 (normal_dir x0 x1 x2) == 0 /\ dot c1 (normal_dir x0 x1 x2) == 0).
Proof.
  split; [apply cross_sq_is_gram_det|]. destruct (normal_orthogonal x0 x1 x2) as [A B].
  split; [exact A|split; [exact B|]]. destruct (right_handed x0 x1 x2) as [C D].
  split; [exact C|split; [exact D|]]. split; [apply normal_cyclic|split; [apply normal_swap|]].
  destruct (centroid_spec x0 x1 x2) as [E F]. split; [exact E|split; [exact F|]].
  intro H. pose proof (jinvT_is_inverse x0 x1 x2 H) as I. pose proof (jinvT_tangential x0 x1 x2 H) as T.
  cbn zeta in *. destruct I as (I1 & I2 & I3 & I4), T as (T1 & T2). repeat split; assumption.
Qed.

(* ---- the sqrt step, as far as it can be said without sqrt -----------------------------------------------------
   Whatever number s the library computes for |n| (normal_direction_norms): if s^2 = |n|^2 and s <> 0 then
   normals = n / s is a unit vector orthogonal to both edges, right-handed when s > 0, and volumes = s/2,
   integration_elements = s satisfy their defining equations; diameters^2 |n|^2 = |a|^2 |b|^2 |a-b|^2. *)
Lemma dot_veq_l u v w : veq u v -> dot u w == dot v w.
Proof. intros (a & b & c). unfold dot. rewrite a, b, c. reflexivity. Qed.
Lemma dot_vscale_l s u w : dot (vscale s u) w == s * dot u w.
Proof. unfold dot, vscale, vx, vy, vz. cbn [fst snd]. ring. Qed.
Lemma dot_comm u w : dot u w == dot w u.
Proof. unfold dot. ring. Qed.

Theorem unit_normal_characterisation x0 x1 x2 (nrm : vec) (s : Q) :
  s * s == cross_sq x0 x1 x2 -> ~ s == 0 -> veq (vscale s nrm) (normal_dir x0 x1 x2) ->
  dot nrm nrm == 1 /\ dot nrm (jac_a x0 x1 x2) == 0 /\ dot nrm (jac_b x0 x1 x2) == 0 /\
  det3 (jac_a x0 x1 x2) (jac_b x0 x1 x2) nrm == s /\
  dot nrm nrm * ((2 * (s / 2)) * (2 * (s / 2))) == cross_sq x0 x1 x2 /\
  s * s == gram_det x0 x1 x2.
Proof.
  intros Hs Hn Hv. set (N := normal_dir x0 x1 x2) in *.
  assert (K : forall w, s * dot nrm w == dot N w).
  { intro w. rewrite <- dot_vscale_l. apply dot_veq_l. exact Hv. }
  assert (U1 : dot nrm nrm == 1).
  { assert (E : s * (s * dot nrm nrm) == s * (s * 1)).
    { rewrite K. rewrite (dot_comm N nrm), K. change (dot N N) with (cross_sq x0 x1 x2). rewrite <- Hs. ring. }
    apply Qmult_inj_l in E; [|exact Hn]. apply Qmult_inj_l in E; [exact E|exact Hn]. }
  destruct (normal_orthogonal x0 x1 x2) as [Oa Ob]. fold N in Oa, Ob.
  assert (Sa : s * dot nrm (jac_a x0 x1 x2) == 0) by (rewrite K; exact Oa).
  assert (Sb : s * dot nrm (jac_b x0 x1 x2) == 0) by (rewrite K; exact Ob).
  split; [exact U1|]. split; [apply Qmult_integral in Sa; tauto|]. split; [apply Qmult_integral in Sb; tauto|].
  split; [|split].
  - assert (E : s * det3 (jac_a x0 x1 x2) (jac_b x0 x1 x2) nrm == s * s).
    { unfold det3. change (cross (jac_a x0 x1 x2) (jac_b x0 x1 x2)) with N. rewrite (dot_comm N nrm), K.
      change (dot N N) with (cross_sq x0 x1 x2). rewrite Hs. reflexivity. }
    apply Qmult_inj_l in E; assumption.
  - rewrite U1, <- Hs. field.
  - rewrite Hs. apply cross_sq_is_gram_det.
Qed.

Theorem diameter_sq_spec x0 x1 x2 : ~ cross_sq x0 x1 x2 == 0 ->
  let a := jac_a x0 x1 x2 in let b := jac_b x0 x1 x2 in
  diameter_sq x0 x1 x2 * cross_sq x0 x1 x2 == dot a a * dot b b * dot (vsub a b) (vsub a b).
Proof. intros H. cbn zeta. unfold diameter_sq. field. exact H. Qed.
