(* Grid level: the edge-/vertex-adjacency tables and element_neighbors of the model contain exactly what the
   properties C01/C11 say (for every element list). *)
From Coq Require Import List Arith Bool PeanoNat Lia.
From BV Require Import Grid.Topology Grid.ListFacts Grid.PairFacts.
Import ListNotations.

(* ---- comparison table of two concrete elements --------------------------------------------------------- *)
Lemma mget_eqmat e f i j : i < 3 -> j < 3 -> mget (eqmat e f) i j = (vget e i =? vget f j).
Proof. intros Hi Hj. destruct e as [[a b] c], f as [[a' b'] c']. small i; small j; reflexivity. Qed.

Lemma wf_elem_spec e : wf_elem e = true <-> vget e 0 <> vget e 1 /\ vget e 0 <> vget e 2 /\ vget e 1 <> vget e 2.
Proof.
  unfold wf_elem. rewrite !andb_true_iff, !negb_true_iff, !Nat.eqb_neq. tauto.
Qed.

Lemma atmost1_eqb_l x a b c : a <> b -> a <> c -> b <> c -> atmost1 (x =? a) (x =? b) (x =? c) = true.
Proof. intros. unfold atmost1. destruct (Nat.eqb_spec x a), (Nat.eqb_spec x b), (Nat.eqb_spec x c); cbn; try reflexivity; lia. Qed.
Lemma atmost1_eqb_r x a b c : a <> b -> a <> c -> b <> c -> atmost1 (a =? x) (b =? x) (c =? x) = true.
Proof. intros. unfold atmost1. destruct (Nat.eqb_spec a x), (Nat.eqb_spec b x), (Nat.eqb_spec c x); cbn; try reflexivity; lia. Qed.

Lemma wfm_eqmat e f : wf_elem e = true -> wf_elem f = true -> wfm (eqmat e f) = true.
Proof.
  intros He Hf. apply wf_elem_spec in He as (H1 & H2 & H3). apply wf_elem_spec in Hf as (G1 & G2 & G3).
  destruct e as [[a b] c], f as [[a' b'] c']. cbn in *. unfold wfm. cbn.
  rewrite !atmost1_eqb_l, !atmost1_eqb_r by assumption. reflexivity.
Qed.

Lemma count_self e : wf_elem e = true -> shared_count e e = 3.
Proof.
  intros He. apply wf_elem_spec in He as (H1 & H2 & H3). destruct e as [[a b] c]. cbn in *.
  unfold shared_count, count_m. cbn. rewrite !Nat.eqb_refl.
  destruct (Nat.eqb_spec a b), (Nat.eqb_spec a c), (Nat.eqb_spec b c), (Nat.eqb_spec b a), (Nat.eqb_spec c a),
    (Nat.eqb_spec c b); try lia; reflexivity.
Qed.

Lemma adjacent_count (m : mat) : adjacent_m m = (0 <? count_m m).
Proof.
  destruct m as [[[[a0 a1] a2] [[b0 b1] b2]] [[c0 c1] c2]].
  destruct a0, a1, a2, b0, b1, b2, c0, c1, c2; reflexivity.
Qed.

Lemma count_le_9 (m : mat) : count_m m <= 9.
Proof.
  destruct m as [[[[a0 a1] a2] [[b0 b1] b2]] [[c0 c1] c2]].
  destruct a0, a1, a2, b0, b1, b2, c0, c1, c2; cbn; lia.
Qed.

(* ---- the tables of a grid ------------------------------------------------------------------------------- *)
Section Grid.
Variable els : list elem.
Notation n := (length els).

Lemma el_wf e : elems_distinct_vertices els = true -> e < n -> wf_elem (el els e) = true.
Proof.
  intros H He. unfold elems_distinct_vertices in H. rewrite forallb_forall in H. apply H. apply nth_In. exact He.
Qed.

Lemma no_dup_spec e f : no_duplicate_triangles els = true -> e < n -> f < n -> count els e f = 3 -> e = f.
Proof.
  intros H He Hf Hc. unfold no_duplicate_triangles in H. rewrite forallb_forall in H.
  specialize (H (e, f) (proj2 (all_pairs_in _ _ _) (conj He Hf))). cbn in H.
  apply orb_true_iff in H as [H|H]; [apply Nat.eqb_eq; exact H|].
  rewrite Hc in H. discriminate.
Qed.

Lemma pairs_with_in k e f : In (e, f) (pairs_with els k) <-> e < n /\ f < n /\ count els e f = k.
Proof.
  unfold pairs_with. rewrite filter_In, all_pairs_in. cbn. rewrite Nat.eqb_eq. tauto.
Qed.
Lemma pairs_with_NoDup k : NoDup (pairs_with els k).
Proof. apply NoDup_filter, all_pairs_NoDup. Qed.

Lemma pair_cases_el e f : elems_distinct_vertices els = true -> e < n -> f < n ->
  let m := eqmat (el els e) (el els f) in
  (count_m m = 0 /\ adjacent_m m = false) \/ (count_m m = 1 /\ adjacent_m m = true /\ vertex_case m) \/
  (count_m m = 2 /\ adjacent_m m = true /\ edge_case m) \/ (count_m m = 3 /\ adjacent_m m = true /\ same_case m).
Proof. intros H He Hf. apply pair_cases, wfm_eqmat; apply el_wf; assumption. Qed.

Definition vrow_pair (r : vrow) : nat * nat := match r with (e, f, _, _) => (e, f) end.
Definition erow_pair (r : erow) : nat * nat := match r with (e, f, _, _, _, _) => (e, f) end.

Lemma vertex_row_pair p r : vertex_row els p = Some r -> vrow_pair r = p.
Proof.
  unfold vertex_row. destruct (shared_vertex_info _ _) as [[i j]|]; cbn; intro H; inversion H. destruct p; reflexivity.
Qed.
Lemma edge_row_pair p r : edge_row els p = Some r -> erow_pair r = p.
Proof.
  unfold edge_row. destruct (shared_edge_info _ _) as [[[[i0 i1] j0] j1]|]; cbn; intro H; inversion H.
  destruct p; reflexivity.
Qed.

Theorem vertex_adjacency_exact : elems_distinct_vertices els = true ->
  exists tbl, vertex_adjacency els = Some tbl /\ NoDup tbl /\
    forall e f i j, In (e, f, i, j) tbl <->
      (e < n /\ f < n /\ count els e f = 1 /\ shared_vertex_info (el els e) (el els f) = Some (i, j)).
Proof.
  intros W. unfold vertex_adjacency.
  destruct (sequence_total (vertex_row els) (pairs_with els 1)) as [tbl Ht].
  { intros [e f] Hp. apply pairs_with_in in Hp as (He & Hf & Hc).
    destruct (pair_cases_el e f W He Hf) as [[C _]|[[C [_ V]]|[[C _]|[C _]]]]; try (unfold count, shared_count in Hc; lia).
    destruct V as (i & j & Hff & _). unfold vertex_row, shared_vertex_info. cbn [fst snd]. rewrite Hff. discriminate. }
  exists tbl. split; [exact Ht|]. split.
  - eapply sequence_NoDup; [exact Ht|apply pairs_with_NoDup|].
    intros x y b Hx Hy. apply vertex_row_pair in Hx, Hy. congruence.
  - intros e f i j. rewrite (sequence_in _ _ _ _ Ht). split.
    + intros [[e' f'] [Hp Hr]]. pose proof (vertex_row_pair _ _ Hr) as E. cbn in E. inversion E; subst e' f'.
      apply pairs_with_in in Hp as (He & Hf & Hc). repeat split; try assumption.
      unfold vertex_row in Hr. cbn [fst snd] in Hr. destruct (shared_vertex_info _ _) as [[i' j']|]; cbn in Hr; inversion Hr.
      reflexivity.
    + intros (He & Hf & Hc & Hs). exists (e, f). split; [apply pairs_with_in; auto|].
      unfold vertex_row. cbn [fst snd]. rewrite Hs. reflexivity.
Qed.

Theorem edge_adjacency_exact : elems_distinct_vertices els = true ->
  exists tbl, edge_adjacency els = Some tbl /\ NoDup tbl /\
    forall e f i0 i1 j0 j1, In (e, f, i0, i1, j0, j1) tbl <->
      (e < n /\ f < n /\ count els e f = 2 /\ shared_edge_info (el els e) (el els f) = Some (i0, i1, j0, j1)).
Proof.
  intros W. unfold edge_adjacency.
  destruct (sequence_total (edge_row els) (pairs_with els 2)) as [tbl Ht].
  { intros [e f] Hp. apply pairs_with_in in Hp as (He & Hf & Hc).
    destruct (pair_cases_el e f W He Hf) as [[C _]|[[C _]|[[C [_ V]]|[C _]]]]; try (unfold count, shared_count in Hc; lia).
    destruct V as (i0 & i1 & j0 & j1 & Hff & _). unfold edge_row, shared_edge_info. cbn [fst snd]. rewrite Hff. discriminate. }
  exists tbl. split; [exact Ht|]. split.
  - eapply sequence_NoDup; [exact Ht|apply pairs_with_NoDup|].
    intros x y b Hx Hy. apply edge_row_pair in Hx, Hy. congruence.
  - intros e f i0 i1 j0 j1. rewrite (sequence_in _ _ _ _ Ht). split.
    + intros [[e' f'] [Hp Hr]]. pose proof (edge_row_pair _ _ Hr) as E. cbn in E. inversion E; subst e' f'.
      apply pairs_with_in in Hp as (He & Hf & Hc). repeat split; try assumption.
      unfold edge_row in Hr. cbn [fst snd] in Hr. destruct (shared_edge_info _ _) as [[[[a b] c] d]|]; cbn in Hr; inversion Hr.
      reflexivity.
    + intros (He & Hf & Hc & Hs). exists (e, f). split; [apply pairs_with_in; auto|].
      unfold edge_row. cbn [fst snd]. rewrite Hs. reflexivity.
Qed.

(* the local indices stored in a row are exactly the shared vertices *)
Theorem vertex_rows_correct tbl e f i j : elems_distinct_vertices els = true ->
  vertex_adjacency els = Some tbl -> In (e, f, i, j) tbl ->
  e < n /\ f < n /\ e <> f /\ i < 3 /\ j < 3 /\ vget (el els e) i = vget (el els f) j /\
  forall i' j', i' < 3 -> j' < 3 -> vget (el els e) i' = vget (el els f) j' -> i' = i /\ j' = j.
Proof.
  intros W Ht Hin. destruct (vertex_adjacency_exact W) as (tbl' & Ht' & _ & Hiff).
  rewrite Ht in Ht'. inversion Ht'; subst tbl'. apply Hiff in Hin as (He & Hf & Hc & Hs).
  destruct (pair_cases_el e f W He Hf) as [[C _]|[[C [_ V]]|[[C _]|[C _]]]]; try (unfold count, shared_count in Hc; lia).
  destruct V as (a & b & Hff & Hi & Hj & Hm & Hu). unfold shared_vertex_info in Hs. rewrite Hff in Hs.
  inversion Hs; subst a b.
  assert (U : forall i' j', i' < 3 -> j' < 3 -> vget (el els e) i' = vget (el els f) j' -> i' = i /\ j' = j).
  { intros i' j' Hi' Hj' E. apply Hu; try assumption. rewrite mget_eqmat by assumption. apply Nat.eqb_eq. exact E. }
  refine (conj He (conj Hf (conj _ (conj Hi (conj Hj (conj _ U)))))).
  - intro E. subst f. unfold count in Hc. rewrite count_self in Hc by (apply el_wf; assumption). discriminate.
  - rewrite mget_eqmat in Hm by assumption. apply Nat.eqb_eq. exact Hm.
Qed.

Theorem edge_rows_correct tbl e f i0 i1 j0 j1 : elems_distinct_vertices els = true ->
  edge_adjacency els = Some tbl -> In (e, f, i0, i1, j0, j1) tbl ->
  e < n /\ f < n /\ e <> f /\ i0 < 3 /\ i1 < 3 /\ j0 < 3 /\ j1 < 3 /\ i0 <> i1 /\ j0 < j1 /\
  vget (el els e) i0 = vget (el els f) j0 /\ vget (el els e) i1 = vget (el els f) j1 /\
  forall i' j', i' < 3 -> j' < 3 -> vget (el els e) i' = vget (el els f) j' ->
    (i' = i0 /\ j' = j0) \/ (i' = i1 /\ j' = j1).
Proof.
  intros W Ht Hin. destruct (edge_adjacency_exact W) as (tbl' & Ht' & _ & Hiff).
  rewrite Ht in Ht'. inversion Ht'; subst tbl'. apply Hiff in Hin as (He & Hf & Hc & Hs).
  destruct (pair_cases_el e f W He Hf) as [[C _]|[[C _]|[[C [_ V]]|[C _]]]]; try (unfold count, shared_count in Hc; lia).
  destruct V as (a & b & c & d & Hff & Ha & Hb & Hcc & Hd & Hab & Hcd & Hm0 & Hm1 & Hu).
  unfold shared_edge_info in Hs. rewrite Hff in Hs. inversion Hs; subst a b c d.
  assert (U : forall i' j', i' < 3 -> j' < 3 -> vget (el els e) i' = vget (el els f) j' ->
    (i' = i0 /\ j' = j0) \/ (i' = i1 /\ j' = j1)).
  { intros i' j' Hi Hj E. apply Hu; try assumption. rewrite mget_eqmat by assumption. apply Nat.eqb_eq. exact E. }
  refine (conj He (conj Hf (conj _ (conj Ha (conj Hb (conj Hcc (conj Hd (conj Hab (conj Hcd (conj _ (conj _ U))))))))))).
  - intro E. subst f. unfold count in Hc. rewrite count_self in Hc by (apply el_wf; assumption). discriminate.
  - rewrite mget_eqmat in Hm0 by assumption. apply Nat.eqb_eq. exact Hm0.
  - rewrite mget_eqmat in Hm1 by assumption. apply Nat.eqb_eq. exact Hm1.
Qed.

(* element_neighbors (for every soup): row e lists, in increasing order and once each, the elements sharing
   at least one vertex with e -- which is what elements_adjacent tests *)
Theorem element_neighbors_exact e f : e < n ->
  (In f (nth e (element_neighbors els) []) <-> f < n /\ elements_adjacent (el els e) (el els f) = true) /\
  NoDup (nth e (element_neighbors els) []) /\ length (element_neighbors els) = n.
Proof.
  intros He. unfold element_neighbors.
  assert (X : nth e (map (fun e0 => filter (fun f0 => 0 <? count els e0 f0) (seq 0 n)) (seq 0 n)) []
              = filter (fun f0 => 0 <? count els e f0) (seq 0 n)).
  { exact (nth_map_seq (fun e0 => filter (fun f0 => 0 <? count els e0 f0) (seq 0 n)) n e [] He). }
  rewrite X. split; [|split].
  - rewrite filter_In, in_seq. unfold elements_adjacent. rewrite adjacent_count. unfold count, shared_count.
    split; intros [A B]; split; try lia; exact B.
  - apply NoDup_filter, seq_NoDup.
  - rewrite map_length, seq_length. reflexivity.
Qed.

Lemma count_sym_adj e f : elements_adjacent (el els e) (el els f) = elements_adjacent (el els f) (el els e).
Proof.
  destruct (el els e) as [[a b] c], (el els f) as [[a' b'] c']. unfold elements_adjacent, adjacent_m. cbn.
  rewrite (Nat.eqb_sym a' a), (Nat.eqb_sym a' b), (Nat.eqb_sym a' c), (Nat.eqb_sym b' a), (Nat.eqb_sym b' b),
    (Nat.eqb_sym b' c), (Nat.eqb_sym c' a), (Nat.eqb_sym c' b), (Nat.eqb_sym c' c).
  destruct (a =? a'), (a =? b'), (a =? c'), (b =? a'), (b =? b'), (b =? c'), (c =? a'), (c =? b'), (c =? c'); reflexivity.
Qed.

(* C01_pair_partition: every ordered pair of elements falls in exactly one class *)
Theorem pair_partition e f : wf_grid els = true -> e < n -> f < n ->
  exists etbl vtbl, edge_adjacency els = Some etbl /\ vertex_adjacency els = Some vtbl /\
    NoDup etbl /\ NoDup vtbl /\
  let in_e := exists r, In r etbl /\ erow_pair r = (e, f) in
  let in_v := exists r, In r vtbl /\ vrow_pair r = (e, f) in
  let one_e := exists r, In r etbl /\ erow_pair r = (e, f) /\ forall r', In r' etbl -> erow_pair r' = (e, f) -> r' = r in
  let one_v := exists r, In r vtbl /\ vrow_pair r = (e, f) /\ forall r', In r' vtbl -> vrow_pair r' = (e, f) -> r' = r in
  let adj := elements_adjacent (el els e) (el els f) in
  (e = f /\ adj = true /\ ~ in_e /\ ~ in_v) \/
  (e <> f /\ adj = true /\ one_e /\ ~ in_v) \/
  (e <> f /\ adj = true /\ ~ in_e /\ one_v) \/
  (e <> f /\ adj = false /\ ~ in_e /\ ~ in_v).
Proof.
  intros W He Hf. unfold wf_grid in W. apply andb_true_iff in W as [W D].
  destruct (edge_adjacency_exact W) as (etbl & Het & Ne & Ie).
  destruct (vertex_adjacency_exact W) as (vtbl & Hvt & Nv & Iv).
  exists etbl, vtbl. repeat (split; [assumption|]). cbn zeta.
  assert (NE : count els e f <> 2 -> ~ (exists r, In r etbl /\ erow_pair r = (e, f))).
  { intros Hk [[[[[[e' f'] a] b] c] d] [Hin E]]. cbn in E. inversion E; subst. apply Ie in Hin. lia. }
  assert (NV : count els e f <> 1 -> ~ (exists r, In r vtbl /\ vrow_pair r = (e, f))).
  { intros Hk [[[[e' f'] a] b] [Hin E]]. cbn in E. inversion E; subst. apply Iv in Hin. lia. }
  destruct (pair_cases_el e f W He Hf) as [[C A]|[[C [A V]]|[[C [A V]]|[C [A V]]]]]; fold (shared_count (el els e) (el els f)) in C;
    fold (count els e f) in C; fold (elements_adjacent (el els e) (el els f)) in A.
  - right; right; right. assert (e <> f).
    { intro; subst f. unfold count in C. rewrite count_self in C by (apply el_wf; assumption). discriminate. }
    repeat split; try assumption; [apply NE|apply NV]; lia.
  - right; right; left. assert (e <> f).
    { intro; subst f. unfold count in C. rewrite count_self in C by (apply el_wf; assumption). discriminate. }
    repeat split; try assumption; [apply NE; lia|].
    destruct V as (i & j & Hff & _). exists (e, f, i, j). split; [apply Iv; auto|]. split; [reflexivity|].
    intros [[[e' f'] a] b] Hin E. cbn in E. inversion E; subst. apply Iv in Hin as (_ & _ & _ & Hs).
    unfold shared_vertex_info in Hs. rewrite Hff in Hs. inversion Hs. reflexivity.
  - right; left. assert (e <> f).
    { intro; subst f. unfold count in C. rewrite count_self in C by (apply el_wf; assumption). discriminate. }
    repeat split; try assumption; [|apply NV; lia].
    destruct V as (i0 & i1 & j0 & j1 & Hff & _). exists (e, f, i0, i1, j0, j1). split; [apply Ie; auto|].
    split; [reflexivity|].
    intros [[[[[e' f'] a] b] c] d] Hin E. cbn in E. inversion E; subst. apply Ie in Hin as (_ & _ & _ & Hs).
    unfold shared_edge_info in Hs. rewrite Hff in Hs. inversion Hs. reflexivity.
  - left. assert (e = f) by (apply no_dup_spec; assumption).
    repeat split; try assumption; [apply NE|apply NV]; lia.
Qed.
End Grid.

(* the excluded case: two distinct elements on the same three vertices are adjacent for the regular kernel
   (skipped there) but appear in neither singular table -- their interaction is dropped *)
Lemma duplicate_pair_dropped :
  exists els e f etbl vtbl, elems_distinct_vertices els = true /\ no_duplicate_triangles els = false /\
    e < length els /\ f < length els /\ e <> f /\ elements_adjacent (el els e) (el els f) = true /\
    edge_adjacency els = Some etbl /\ vertex_adjacency els = Some vtbl /\
    forallb (fun r => negb ((fst (erow_pair r) =? e) && (snd (erow_pair r) =? f))) etbl = true /\
    forallb (fun r => negb ((fst (vrow_pair r) =? e) && (snd (vrow_pair r) =? f))) vtbl = true.
Proof.
  exists [(0, 1, 2); (1, 2, 0)], 0, 1, [], []. vm_compute. repeat split; try reflexivity; lia.
Qed.

(* C01_shared_indices_correct *)
Theorem shared_indices_correct (els : list elem) : elems_distinct_vertices els = true ->
  (forall tbl e f i0 i1 j0 j1, edge_adjacency els = Some tbl -> In (e, f, i0, i1, j0, j1) tbl ->
     e < length els /\ f < length els /\ e <> f /\ i0 < 3 /\ i1 < 3 /\ j0 < 3 /\ j1 < 3 /\ i0 <> i1 /\ j0 < j1 /\
     vget (el els e) i0 = vget (el els f) j0 /\ vget (el els e) i1 = vget (el els f) j1 /\
     forall i' j', i' < 3 -> j' < 3 -> vget (el els e) i' = vget (el els f) j' ->
       (i' = i0 /\ j' = j0) \/ (i' = i1 /\ j' = j1)) /\
  (forall tbl e f i j, vertex_adjacency els = Some tbl -> In (e, f, i, j) tbl ->
     e < length els /\ f < length els /\ e <> f /\ i < 3 /\ j < 3 /\ vget (el els e) i = vget (el els f) j /\
     forall i' j', i' < 3 -> j' < 3 -> vget (el els e) i' = vget (el els f) j' -> i' = i /\ j' = j).
Proof.
  intros W. split.
  - intros tbl e f i0 i1 j0 j1 Ht Hin. exact (edge_rows_correct els tbl e f i0 i1 j0 j1 W Ht Hin).
  - intros tbl e f i j Ht Hin. exact (vertex_rows_correct els tbl e f i j W Ht Hin).
Qed.
