(* Generic list lemmas used by the grid developments. *)
From Coq Require Import List Arith Bool PeanoNat Lia.
From BV Require Import Grid.Topology.
Import ListNotations.

(* ---- generic list facts ------------------------------------------------------------------------------ *)
Lemma NoDup_app_intro {A} (l1 l2 : list A) :
  NoDup l1 -> NoDup l2 -> (forall x, In x l1 -> In x l2 -> False) -> NoDup (l1 ++ l2).
Proof.
  intros H1 H2 H. induction H1 as [|a l Ha Hl IH]; cbn; [exact H2|].
  constructor.
  - intro Hin. apply in_app_or in Hin as [Hin|Hin]; [exact (Ha Hin)|]. apply (H a); [left; reflexivity|exact Hin].
  - apply IH. intros x Hx. apply H. right. exact Hx.
Qed.

Lemma NoDup_map_inj {A B} (f : A -> B) (l : list A) :
  (forall x y, In x l -> In y l -> f x = f y -> x = y) -> NoDup l -> NoDup (map f l).
Proof.
  intros Hinj H. induction H as [|a l Ha Hl IH]; cbn; constructor.
  - intro Hin. apply in_map_iff in Hin as [y [Hy Hyl]].
    assert (y = a) by (apply Hinj; [right; exact Hyl|left; reflexivity|exact Hy]). subst. exact (Ha Hyl).
  - apply IH. intros x y Hx Hy. apply Hinj; right; assumption.
Qed.

Lemma NoDup_list_prod {A B} (l : list A) (l' : list B) : NoDup l -> NoDup l' -> NoDup (list_prod l l').
Proof.
  intros Hl Hl'. induction Hl as [|a l Ha Hl IH]; cbn; [constructor|].
  apply NoDup_app_intro.
  - apply NoDup_map_inj; [|exact Hl']. intros x y _ _ E. inversion E. reflexivity.
  - exact IH.
  - intros [x y] H1 H2. apply in_map_iff in H1 as [z [Hz _]]. inversion Hz; subst.
    apply in_prod_iff in H2 as [H2 _]. exact (Ha H2).
Qed.

Lemma nth_map_seq {A} (f : nat -> A) n i d : i < n -> nth i (map f (seq 0 n)) d = f i.
Proof.
  intros H. rewrite (nth_indep _ d (f 0)) by (rewrite map_length, seq_length; exact H).
  rewrite map_nth. rewrite seq_nth by exact H. reflexivity.
Qed.

Lemma all_pairs_in n e f : In (e, f) (all_pairs n) <-> e < n /\ f < n.
Proof. unfold all_pairs. rewrite in_prod_iff, !in_seq. lia. Qed.
Lemma all_pairs_NoDup n : NoDup (all_pairs n).
Proof. apply NoDup_list_prod; apply seq_NoDup. Qed.

Lemma sequence_some {A} (l : list (option A)) r : sequence l = Some r <-> l = map Some r.
Proof.
  revert r. induction l as [|[a|] l IH]; intros r; cbn.
  - split; intro H; [inversion H; reflexivity|]. destruct r; [reflexivity|discriminate].
  - destruct (sequence l) as [r'|] eqn:E.
    + split; intro H.
      * inversion H; subst. cbn. f_equal. apply IH. reflexivity.
      * destruct r as [|b r]; [discriminate|]. cbn in H. inversion H; subst.
        f_equal. f_equal. assert (Some r' = Some r) as X by (apply IH; reflexivity). inversion X. reflexivity.
    + split; intro H; [discriminate|]. destruct r as [|b r]; [discriminate|]. cbn in H. inversion H; subst.
      assert (None = Some r) as X by (apply IH; reflexivity). discriminate.
  - split; intro H; [discriminate|]. destruct r; discriminate.
Qed.

Lemma sequence_total {A B} (f : A -> option B) (l : list A) :
  (forall x, In x l -> f x <> None) -> exists r, sequence (map f l) = Some r.
Proof.
  induction l as [|a l IH]; intros H; cbn; [eexists; reflexivity|].
  destruct (f a) as [b|] eqn:E; [|exfalso; apply (H a); [left; reflexivity|exact E]].
  destruct IH as [r Hr]; [intros x Hx; apply H; right; exact Hx|]. rewrite Hr. eexists; reflexivity.
Qed.

Lemma sequence_in {A B} (f : A -> option B) (l : list A) r y :
  sequence (map f l) = Some r -> (In y r <-> exists x, In x l /\ f x = Some y).
Proof.
  intros H. apply sequence_some in H.
  split.
  - intro Hy. assert (In (Some y) (map f l)) as X by (rewrite H; apply in_map; exact Hy).
    apply in_map_iff in X as [x [Hx Hxl]]. exists x. split; assumption.
  - intros [x [Hx Hfx]]. assert (In (Some y) (map Some r)) as X by (rewrite <- H, <- Hfx; apply in_map; exact Hx).
    apply in_map_iff in X as [y' [E Hy']]. inversion E; subst. exact Hy'.
Qed.

Lemma sequence_NoDup {A B} (f : A -> option B) (l : list A) r :
  sequence (map f l) = Some r -> NoDup l -> (forall x y b, f x = Some b -> f y = Some b -> x = y) -> NoDup r.
Proof.
  revert r. induction l as [|a l IH]; intros r H Hl Hinj; cbn in H.
  - inversion H. constructor.
  - destruct (f a) as [b|] eqn:E; [|discriminate]. destruct (sequence (map f l)) as [r'|] eqn:E'; [|discriminate].
    inversion H; subst. inversion Hl; subst. constructor.
    + intro Hin. apply (sequence_in f l r' b E') in Hin as [x [Hx Hfx]].
      assert (x = a) by (eapply Hinj; eassumption). subst. contradiction.
    + apply IH; auto.
Qed.

