(* Executable model (tie H) of the topology part of bempp_cl/api/grid/grid.py:
     _numba_enumerate_edges, _vertices_from_edge_index, _sort_values            -> edges, element_edges
     get_element_to_vertex_matrix / get_element_to_element_matrix (E^T E)          -> shared_count
     _compare_array_to_value, _find_first_common_array_index_pair_from_position,
     _find_two_common_array_index_pairs, _get_shared_{vertex,edge}_information   -> find_first, shared_edge_info
     _element_filter + _find_vertex_adjacency / _find_edge_adjacency               -> vertex_adjacency, edge_adjacency
     IndexList(elem_to_elem)                                                       -> element_neighbors
     _compute_edge_neighbors, _compute_vertex_neighbors, _compute_boundary_information
     core/numba_kernels.py: elements_adjacent
   A grid is a list of elements (triples of vertex numbers) plus the number of vertices.  Python exceptions are
   modelled by [None].  Where the library leaves the order of a table unspecified (scipy sparse products) the model
   lists in lexicographic order and the correspondence check sorts the library's output.
   No proofs in this file (it must evaluate even when a proof breaks). *)
From Coq Require Import List Arith Bool PeanoNat.
Import ListNotations.

Definition elem := (nat * nat * nat)%type.
Definition edge := (nat * nat)%type.

Definition vget (e : elem) (k : nat) : nat :=
  match e with (a, b, c) => match k with 0 => a | 1 => b | _ => c end end.
Definition el (els : list elem) (i : nat) : elem := nth i els (0, 0, 0).
Definition tget (t : nat * nat * nat) (k : nat) : nat := vget t k.

(* ---- edges ------------------------------------------------------------------------------------------- *)
(* _EDGE_LOCAL = [[0, 1], [2, 0], [1, 2]] *)
Definition edge_local (l : nat) : nat * nat :=
  match l with 0 => (0, 1) | 1 => (2, 0) | _ => (1, 2) end.
Definition sort_values (a b : nat) : edge := if b <? a then (b, a) else (a, b).
Definition vertices_from_edge_index (e : elem) (l : nat) : edge :=
  sort_values (vget e (fst (edge_local l))) (vget e (snd (edge_local l))).

Definition edge_eqb (s t : edge) : bool := (fst s =? fst t) && (snd s =? snd t).
(* the numba typed dict edge_tuple_to_index: position of the tuple in the list of edges created so far *)
Fixpoint index_of (t : edge) (l : list edge) : option nat :=
  match l with
  | [] => None
  | h :: r => if edge_eqb h t then Some 0 else option_map S (index_of t r)
  end.
Definition lookup_or_add (st : list edge) (t : edge) : list edge * nat :=
  match index_of t st with Some i => (st, i) | None => (st ++ [t], length st) end.
Definition enum_elem (st : list edge) (e : elem) : list edge * (nat * nat * nat) :=
  let '(s0, i0) := lookup_or_add st (vertices_from_edge_index e 0) in
  let '(s1, i1) := lookup_or_add s0 (vertices_from_edge_index e 1) in
  let '(s2, i2) := lookup_or_add s1 (vertices_from_edge_index e 2) in
  (s2, (i0, i1, i2)).
Fixpoint enum_edges (st : list edge) (els : list elem) : list edge * list (nat * nat * nat) :=
  match els with
  | [] => (st, [])
  | e :: r => let '(s, ee) := enum_elem st e in
              let '(s', ees) := enum_edges s r in (s', ee :: ees)
  end.
Definition edges (els : list elem) : list edge := fst (enum_edges [] els).
Definition element_edges (els : list elem) : list (nat * nat * nat) := snd (enum_edges [] els).
Definition eedge (els : list elem) (e l : nat) : nat := tget (nth e (element_edges els) (0, 0, 0)) l.

(* ---- element pairs ------------------------------------------------------------------------------------
   The library inspects a pair of elements only through the comparisons elements[i,e] == elements[j,f];
   the pair-level functions therefore take the 3x3 comparison table. *)
Definition row3 := (bool * bool * bool)%type.
Definition mat := (row3 * row3 * row3)%type.
Definition rget (r : row3) (j : nat) : bool :=
  match r with (a, b, c) => match j with 0 => a | 1 => b | _ => c end end.
Definition mget (m : mat) (i j : nat) : bool :=
  match m with (r0, r1, r2) => rget (match i with 0 => r0 | 1 => r1 | _ => r2 end) j end.
Definition eqrow (x : nat) (f : elem) : row3 := (x =? vget f 0, x =? vget f 1, x =? vget f 2).
(* eqmat e f = table of the comparisons elements[i,e] == elements[j,f] *)
Definition eqmat (e f : elem) : mat := (eqrow (vget e 0) f, eqrow (vget e 1) f, eqrow (vget e 2) f).
Definition b2n (b : bool) : nat := if b then 1 else 0.
(* entry (e,f) of element_to_vertex.T.dot(element_to_vertex): duplicates of the COO input are summed *)
Definition count_m (m : mat) : nat :=
  b2n (mget m 0 0) + b2n (mget m 0 1) + b2n (mget m 0 2) + b2n (mget m 1 0) + b2n (mget m 1 1)
  + b2n (mget m 1 2) + b2n (mget m 2 0) + b2n (mget m 2 1) + b2n (mget m 2 2).
(* core/numba_kernels.py: elements_adjacent *)
Definition adjacent_m (m : mat) : bool :=
  mget m 0 0 || mget m 0 1 || mget m 0 2 || mget m 1 0 || mget m 1 1 || mget m 1 2
  || mget m 2 0 || mget m 2 1 || mget m 2 2.

(* _compare_array_to_value(array2, array1[i]) *)
Definition compare_m (m : mat) (i : nat) : option nat :=
  if mget m i 0 then Some 0 else if mget m i 1 then Some 1 else if mget m i 2 then Some 2 else None.
Fixpoint first_some {A B} (f : A -> option B) (l : list A) : option B :=
  match l with [] => None | a :: r => match f a with Some b => Some b | None => first_some f r end end.
(* _find_first_common_array_index_pair_from_position; None = ValueError *)
Definition find_first_m (m : mat) (start : nat) : option (nat * nat) :=
  first_some (fun i => option_map (fun j => (i, j)) (compare_m m i)) (seq start (3 - start)).
(* _find_two_common_array_index_pairs *)
Definition find_two_m (m : mat) : option ((nat * nat) * (nat * nat)) :=
  match find_first_m m 0 with
  | None => None
  | Some p0 => match find_first_m m (fst p0 + 1) with
               | None => None
               | Some p1 => Some (p0, p1)
               end
  end.
(* _get_shared_edge_information_for_two_elements, flattened: (i0, i1, j0, j1) with the Bempp-3 ordering swap *)
Definition shared_edge_m (m : mat) : option (nat * nat * nat * nat) :=
  match find_two_m m with
  | None => None
  | Some (p0, p1) =>
    if snd p1 <? snd p0 then Some (fst p1, fst p0, snd p1, snd p0)
    else Some (fst p0, fst p1, snd p0, snd p1)
  end.

Definition shared_count (e f : elem) : nat := count_m (eqmat e f).
Definition elements_adjacent (e f : elem) : bool := adjacent_m (eqmat e f).
Definition shared_vertex_info (e f : elem) : option (nat * nat) := find_first_m (eqmat e f) 0.
Definition shared_edge_info (e f : elem) : option (nat * nat * nat * nat) := shared_edge_m (eqmat e f).

(* ---- adjacency tables ---------------------------------------------------------------------------------- *)
Definition all_pairs (n : nat) : list (nat * nat) := list_prod (seq 0 n) (seq 0 n).
Definition count (els : list elem) (e f : nat) : nat := shared_count (el els e) (el els f).
(* _element_filter(.., filter_type): pairs whose entry of the element-to-element matrix equals k *)
Definition pairs_with (els : list elem) (k : nat) : list (nat * nat) :=
  filter (fun p => count els (fst p) (snd p) =? k) (all_pairs (length els)).
Fixpoint sequence {A} (l : list (option A)) : option (list A) :=
  match l with
  | [] => Some []
  | None :: _ => None
  | Some a :: r => match sequence r with Some r' => Some (a :: r') | None => None end
  end.

Definition vrow := (nat * nat * nat * nat)%type.
Definition erow := (nat * nat * nat * nat * nat * nat)%type.
Definition vertex_row (els : list elem) (p : nat * nat) : option vrow :=
  option_map (fun ij => (fst p, snd p, fst ij, snd ij)) (shared_vertex_info (el els (fst p)) (el els (snd p))).
Definition edge_row (els : list elem) (p : nat * nat) : option erow :=
  option_map (fun q => match q with (i0, i1, j0, j1) => (fst p, snd p, i0, i1, j0, j1) end)
             (shared_edge_info (el els (fst p)) (el els (snd p))).
Definition vertex_adjacency (els : list elem) : option (list vrow) :=
  sequence (map (vertex_row els) (pairs_with els 1)).
Definition edge_adjacency (els : list elem) : option (list erow) :=
  sequence (map (edge_row els) (pairs_with els 2)).
Definition element_neighbors (els : list elem) : list (list nat) :=
  map (fun e => filter (fun f => 0 <? count els e f) (seq 0 (length els))) (seq 0 (length els)).

(* ---- edge / vertex neighbours, boundary flags -------------------------------------------------------------- *)
Definition edge_mult (t : nat * nat * nat) (i : nat) : nat :=
  b2n (tget t 0 =? i) + b2n (tget t 1 =? i) + b2n (tget t 2 =? i).
(* _compute_edge_neighbors: the element index is appended once per local edge carrying edge i *)
Definition edge_neighbors_of (ee : list (nat * nat * nat)) (i : nat) : list nat :=
  flat_map (fun e => repeat e (edge_mult (nth e ee (0, 0, 0)) i)) (seq 0 (length ee)).
Definition edge_neighbors (els : list elem) : list (list nat) :=
  map (edge_neighbors_of (element_edges els)) (seq 0 (length (edges els))).
Definition nsum (l : list nat) : nat := fold_right Nat.add 0 l.
(* diagonal of element_to_edge.T.dot(element_to_edge), duplicates of the COO input summed *)
Definition edge_diag (ee : list (nat * nat * nat)) (i : nat) : nat :=
  nsum (map (fun t => edge_mult t i * edge_mult t i) ee).
Definition edge_on_boundary (els : list elem) : list bool :=
  map (fun i => edge_diag (element_edges els) i =? 1) (seq 0 (length (edges els))).
Definition edge_has_vertex (g : edge) (v : nat) : bool := (fst g =? v) || (snd g =? v).
Definition vertex_on_boundary (els : list elem) (nv : nat) : list bool :=
  map (fun v => existsb (fun ib => snd ib && edge_has_vertex (fst ib) v)
                        (combine (edges els) (edge_on_boundary els))) (seq 0 nv).
Definition elem_has_vertex (e : elem) (v : nat) : bool := (vget e 0 =? v) || (vget e 1 =? v) || (vget e 2 =? v).
Definition vertex_neighbors (els : list elem) (nv : nat) : list (list nat) :=
  map (fun v => filter (fun e => elem_has_vertex (el els e) v) (seq 0 (length els))) (seq 0 nv).

(* ---- well-formedness predicates (hypotheses of the theorems; real triangulations satisfy them) ------------ *)
Definition wf_elem (e : elem) : bool :=
  negb (vget e 0 =? vget e 1) && negb (vget e 0 =? vget e 2) && negb (vget e 1 =? vget e 2).
Definition elems_distinct_vertices (els : list elem) : bool := forallb wf_elem els.
(* no two distinct elements on the same three vertices *)
Definition no_duplicate_triangles (els : list elem) : bool :=
  forallb (fun p => (fst p =? snd p) || negb (count els (fst p) (snd p) =? 3)) (all_pairs (length els)).
Definition wf_grid (els : list elem) : bool := elems_distinct_vertices els && no_duplicate_triangles els.
Definition in_range (els : list elem) (nv : nat) : bool :=
  forallb (fun e => (vget e 0 <? nv) && (vget e 1 <? nv) && (vget e 2 <? nv)) els.

(* ---- the constructor's accept/reject behaviour on the topology side --------------------------------------
   Grid(...) raises (ValueError) when an element refers to a vertex >= number_of_vertices (scipy csr_matrix
   rejects the index) or when _find_first_common... finds no second pair, and (IndexError) on an empty element
   array. *)
Record topology := mkTopology {
  t_edges : list edge; t_element_edges : list (nat * nat * nat);
  t_edge_adjacency : list erow; t_vertex_adjacency : list vrow; t_element_neighbors : list (list nat);
  t_edge_neighbors : list (list nat); t_vertex_neighbors : list (list nat);
  t_edge_on_boundary : list bool; t_vertex_on_boundary : list bool }.
Definition grid_topology (els : list elem) (nv : nat) : option topology :=
  if (length els =? 0) || negb (in_range els nv) then None else
  match vertex_adjacency els, edge_adjacency els with
  | Some va, Some ea =>
    Some (mkTopology (edges els) (element_edges els) ea va (element_neighbors els) (edge_neighbors els)
                     (vertex_neighbors els nv) (edge_on_boundary els) (vertex_on_boundary els nv))
  | _, _ => None
  end.
