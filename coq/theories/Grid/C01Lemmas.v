(* Assembly of C01_calderon_partial from the pieces. *)
From Coq Require Import QArith ZArith List Arith Bool Lia.
From BV Require Import Quad.Rules Quad.DuffyExact Grid.Topology Grid.PairFacts Grid.AdjacencyFacts
  Grid.SingularOffsets Grid.SingularOffsetsFacts.
Import ListNotations.
Close Scope Q_scope.
Open Scope nat_scope.

Theorem calderon_partial :
  (forall (els : list elem) e f, wf_grid els = true -> e < length els -> f < length els ->
     let adj := elements_adjacent (el els e) (el els f) in
     exists etbl vtbl, edge_adjacency els = Some etbl /\ vertex_adjacency els = Some vtbl /\
       ((e = f /\ adj = true) \/
        (e <> f /\ adj = true /\ (exists r, In r etbl /\ erow_pair r = (e, f)) /\
                                 ~ (exists r, In r vtbl /\ vrow_pair r = (e, f))) \/
        (e <> f /\ adj = true /\ ~ (exists r, In r etbl /\ erow_pair r = (e, f)) /\
                                 (exists r, In r vtbl /\ vrow_pair r = (e, f))) \/
        (e <> f /\ adj = false /\ ~ (exists r, In r etbl /\ erow_pair r = (e, f)) /\
                                  ~ (exists r, In r vtbl /\ vrow_pair r = (e, f))))) /\
  (forall (els : list elem) tbl e f i0 i1 j0 j1, elems_distinct_vertices els = true ->
     edge_adjacency els = Some tbl -> In (e, f, i0, i1, j0, j1) tbl ->
     i0 < 3 /\ i1 < 3 /\ j0 < 3 /\ j1 < 3 /\ i0 <> i1 /\ j0 <> j1 /\
     vget (el els e) i0 = vget (el els f) j0 /\ vget (el els e) i1 = vget (el els f) j1) /\
  (forall (els : list elem) tbl e f i j, elems_distinct_vertices els = true ->
     vertex_adjacency els = Some tbl -> In (e, f, i, j) tbl ->
     i < 3 /\ j < 3 /\ vget (el els e) i = vget (el els f) j) /\
  (forall (order : Z) rc re rv (proj : qpoint -> Q * Q) i0 i1,
     (1 <= order <= 30)%Z -> duffy order 0 = Some rc -> duffy order 1 = Some re -> duffy order 2 = Some rv ->
     i0 < 3 -> i1 < 3 -> i0 <> i1 ->
     slice (Z.to_nat (edge_offset order i0 i1)) (Z.to_nat (npts order 1))
           (vectorize_points (map proj rc) (map proj re) (map proj rv)) = map (remap_edge i0 i1) (map proj re)) /\
  (forall (order : Z) rc re rv (proj : qpoint -> Q * Q) k,
     (1 <= order <= 30)%Z -> duffy order 0 = Some rc -> duffy order 1 = Some re -> duffy order 2 = Some rv ->
     k < 3 ->
     slice (Z.to_nat (vertex_offset order k)) (Z.to_nat (npts order 2))
           (vectorize_points (map proj rc) (map proj re) (map proj rv)) = map (remap_vertex k) (map proj rv)) /\
  (forall (x0 x1 x2 : Q) (v0 v1 : nat) (p : Q * Q), v0 < 3 -> v1 < 3 -> v0 <> v1 ->
     (local2global x0 x1 x2 (remap_edge v0 v1 p)
      == vtx x0 x1 x2 v0 + (vtx x0 x1 x2 v1 - vtx x0 x1 x2 v0) * fst p
         + (vtx x0 x1 x2 (3 - v0 - v1) - vtx x0 x1 x2 v0) * snd p)%Q) /\
  (forall (x0 x1 x2 : Q) (k : nat) (p : Q * Q), k < 3 ->
     (local2global x0 x1 x2 (remap_vertex k p)
      == vtx x0 x1 x2 k + (vtx x0 x1 x2 (vperm k 1) - vtx x0 x1 x2 k) * fst p
         + (vtx x0 x1 x2 (vperm k 2) - vtx x0 x1 x2 k) * snd p)%Q).
Proof.
  split; [|split; [|split; [|split; [|split; [|split]]]]].
  - intros els e f W He Hf adj.
    destruct (pair_partition els e f W He Hf) as (etbl & vtbl & Ht & Hv & _ & _ & H). cbn zeta in H.
    exists etbl, vtbl. split; [exact Ht|split; [exact Hv|]].
    destruct H as [(A & B & _)|[(A & B & (r & R1 & R2 & _) & D)|[(A & B & C & (r & R1 & R2 & _))|(A & B & C & D)]]].
    + left. auto.
    + right; left. repeat split; auto. exists r. auto.
    + right; right; left. repeat split; auto. exists r. auto.
    + right; right; right. auto.
  - intros els tbl e f i0 i1 j0 j1 W Ht Hin.
    destruct (edge_rows_correct els tbl e f i0 i1 j0 j1 W Ht Hin) as (_ & _ & _ & A & B & C & D & E & F & G & H & _).
    repeat split; auto. lia.
  - intros els tbl e f i j W Ht Hin.
    destruct (vertex_rows_correct els tbl e f i j W Ht Hin) as (_ & _ & _ & A & B & C & _). auto.
  - intros order rc re rv proj i0 i1 Ho Hc He Hv H0 H1 Hn.
    destruct (offsets_select_remap order rc re rv proj q_w Ho Hc He Hv) as (_ & _ & E & _). apply E; assumption.
  - intros order rc re rv proj k Ho Hc He Hv Hk.
    destruct (offsets_select_remap order rc re rv proj q_w Ho Hc He Hv) as (_ & _ & _ & V & _). apply V; assumption.
  - exact remap_edge_places.
  - exact remap_vertex_places.
Qed.
