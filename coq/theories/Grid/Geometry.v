(* Sqrt-free model over Q of Grid._compute_geometric_quantities (bempp_cl/api/grid/grid.py:552-590).
   The library's quantities are   normals = n / |n|,  volumes = |n| / 2,  integration_elements = sqrt(det(J^T J)),
   diameters = |a| |b| |a-b| / |n|,  centroids,  jacobians = [a b],  jacobian_inverse_transposed = J (J^T J)^-1
   with a = x1 - x0, b = x2 - x0, n = a x b.  The model gives n, |n|^2, det(J^T J), J (J^T J)^-1, the centroid and
   the squared diameter; the sqrt / normalisation step is compared in the correspondence check.  No proofs here. *)
From Coq Require Import QArith.
Open Scope Q_scope.

Definition vec := (Q * Q * Q)%type.
Definition vx (v : vec) : Q := fst (fst v).
Definition vy (v : vec) : Q := snd (fst v).
Definition vz (v : vec) : Q := snd v.
Definition vsub (u v : vec) : vec := (vx u - vx v, vy u - vy v, vz u - vz v).
Definition vadd (u v : vec) : vec := (vx u + vx v, vy u + vy v, vz u + vz v).
Definition vscale (c : Q) (v : vec) : vec := (c * vx v, c * vy v, c * vz v).
Definition dot (u v : vec) : Q := vx u * vx v + vy u * vy v + vz u * vz v.
Definition cross (u v : vec) : vec :=
  (vy u * vz v - vz u * vy v, vz u * vx v - vx u * vz v, vx u * vy v - vy u * vx v).
Definition veq (u v : vec) : Prop := vx u == vx v /\ vy u == vy v /\ vz u == vz v.

(* columns of the Jacobian of element (x0, x1, x2) *)
Definition jac_a (x0 x1 x2 : vec) : vec := vsub x1 x0.
Definition jac_b (x0 x1 x2 : vec) : vec := vsub x2 x0.
Definition normal_dir (x0 x1 x2 : vec) : vec := cross (jac_a x0 x1 x2) (jac_b x0 x1 x2).
(* (2 * volume)^2 *)
Definition cross_sq (x0 x1 x2 : vec) : Q := dot (normal_dir x0 x1 x2) (normal_dir x0 x1 x2).
(* integration_element^2 = det(J^T J) *)
Definition gram_det (x0 x1 x2 : vec) : Q :=
  let a := jac_a x0 x1 x2 in let b := jac_b x0 x1 x2 in dot a a * dot b b - dot a b * dot a b.
(* the two columns of jacobian_inverse_transposed = J (J^T J)^-1 *)
Definition jinvT (x0 x1 x2 : vec) : vec * vec :=
  let a := jac_a x0 x1 x2 in let b := jac_b x0 x1 x2 in
  let d := gram_det x0 x1 x2 in
  (vscale (/ d) (vsub (vscale (dot b b) a) (vscale (dot a b) b)),
   vscale (/ d) (vsub (vscale (dot a a) b) (vscale (dot a b) a))).
Definition centroid (x0 x1 x2 : vec) : vec := vscale (1 # 3) (vadd (vadd x0 x1) x2).
(* diameter^2 = |a|^2 |b|^2 |a-b|^2 / |n|^2 (circumscribed-circle diameter) *)
Definition diameter_sq (x0 x1 x2 : vec) : Q :=
  let a := jac_a x0 x1 x2 in let b := jac_b x0 x1 x2 in
  dot a a * dot b b * dot (vsub a b) (vsub a b) / cross_sq x0 x1 x2.
(* local2global of the reference point (s, t) *)
Definition l2g (x0 x1 x2 : vec) (s t : Q) : vec :=
  vadd x0 (vadd (vscale s (jac_a x0 x1 x2)) (vscale t (jac_b x0 x1 x2))).
(* numpy.linalg.inv raises LinAlgError for an exactly singular J^T J *)
Definition degenerate (x0 x1 x2 : vec) : bool := Qeq_bool (gram_det x0 x1 x2) 0.
