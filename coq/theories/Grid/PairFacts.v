(* Pair level: what the comparison table of two elements determines (C01_pair_partition /
   C01_shared_indices_correct at the level of one ordered pair).  Complete case analysis over the 2^9 tables. *)
From Coq Require Import List Arith Bool PeanoNat Lia.
From BV Require Import Grid.Topology.
Import ListNotations.

Definition atmost1 (a b c : bool) : bool := negb (a && b) && negb (a && c) && negb (b && c).
(* at most one match per row and per column: holds when both elements have pairwise distinct vertices *)
Definition wfm (m : mat) : bool :=
  atmost1 (mget m 0 0) (mget m 0 1) (mget m 0 2) && atmost1 (mget m 1 0) (mget m 1 1) (mget m 1 2) &&
  atmost1 (mget m 2 0) (mget m 2 1) (mget m 2 2) && atmost1 (mget m 0 0) (mget m 1 0) (mget m 2 0) &&
  atmost1 (mget m 0 1) (mget m 1 1) (mget m 2 1) && atmost1 (mget m 0 2) (mget m 1 2) (mget m 2 2).

Definition vertex_case (m : mat) : Prop :=
  exists i j, find_first_m m 0 = Some (i, j) /\ i < 3 /\ j < 3 /\ mget m i j = true /\
    forall i' j', i' < 3 -> j' < 3 -> mget m i' j' = true -> i' = i /\ j' = j.
Definition edge_case (m : mat) : Prop :=
  exists i0 i1 j0 j1, shared_edge_m m = Some (i0, i1, j0, j1) /\ i0 < 3 /\ i1 < 3 /\ j0 < 3 /\ j1 < 3 /\
    i0 <> i1 /\ j0 < j1 /\ mget m i0 j0 = true /\ mget m i1 j1 = true /\
    forall i' j', i' < 3 -> j' < 3 -> mget m i' j' = true -> (i' = i0 /\ j' = j0) \/ (i' = i1 /\ j' = j1).
Definition same_case (m : mat) : Prop :=
  (forall i, i < 3 -> exists j, j < 3 /\ mget m i j = true) /\
  (forall j, j < 3 -> exists i, i < 3 /\ mget m i j = true).

Ltac small i := destruct i as [ | [ | [ | i ] ] ]; [ | | | lia ].

Lemma pair_cases (m : mat) : wfm m = true ->
  (count_m m = 0 /\ adjacent_m m = false) \/
  (count_m m = 1 /\ adjacent_m m = true /\ vertex_case m) \/
  (count_m m = 2 /\ adjacent_m m = true /\ edge_case m) \/
  (count_m m = 3 /\ adjacent_m m = true /\ same_case m).
Proof.
  destruct m as [[[[a0 a1] a2] [[b0 b1] b2]] [[c0 c1] c2]].
  destruct a0, a1, a2, b0, b1, b2, c0, c1, c2; intro W; try discriminate W; clear W.
  all: first
    [ left; split; reflexivity
    | right; left; split; [reflexivity|split; [reflexivity|]];
      unfold vertex_case; do 2 eexists; split; [vm_compute; reflexivity|];
      repeat split; try lia; try reflexivity;
      small i'; small j'; cbn; congruence || discriminate
    | right; right; left; split; [reflexivity|split; [reflexivity|]];
      unfold edge_case; do 4 eexists; split; [vm_compute; reflexivity|];
      repeat split; try lia; try reflexivity;
      intros i' j' Hi Hj; small i'; small j'; cbn; intros; try discriminate; (left; split; reflexivity) || (right; split; reflexivity)
    | right; right; right; split; [reflexivity|split; [reflexivity|]];
      split; intros k Hk; small k; first [exists 0; split; [lia|reflexivity] | exists 1; split; [lia|reflexivity]
                                          | exists 2; split; [lia|reflexivity]] ].
Qed.
