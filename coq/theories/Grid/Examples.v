(* Concrete grids: the hypotheses of the C11/C01 theorems are satisfiable and the tables are what one expects. *)
From Coq Require Import List Arith Bool Lia.
From BV Require Import Grid.Topology.
Import ListNotations.

(* the octahedron used by the harness (outward oriented) *)
Definition octahedron : list elem :=
  [(0, 2, 4); (2, 1, 4); (1, 3, 4); (3, 0, 4); (2, 0, 5); (1, 2, 5); (3, 1, 5); (0, 3, 5)].
(* 2x2 screen: 9 vertices, 8 triangles *)
Definition screen2 : list elem :=
  [(0, 1, 4); (0, 4, 3); (1, 2, 5); (1, 5, 4); (3, 4, 7); (3, 7, 6); (4, 5, 8); (4, 8, 7)].
(* a non-manifold fan: three triangles on the edge {0,1} *)
Definition fan3 : list elem := [(0, 1, 2); (0, 1, 3); (1, 0, 4)].

Example octahedron_wf : wf_grid octahedron = true /\ in_range octahedron 6 = true.
Proof. vm_compute. split; reflexivity. Qed.
Example screen2_wf : wf_grid screen2 = true /\ in_range screen2 9 = true.
Proof. vm_compute. split; reflexivity. Qed.
Example fan3_wf : wf_grid fan3 = true.
Proof. vm_compute. reflexivity. Qed.

Example octahedron_closed :
  length (edges octahedron) = 12 /\ forallb negb (edge_on_boundary octahedron) = true /\
  option_map (@length _) (edge_adjacency octahedron) = Some 24 /\
  option_map (@length _) (vertex_adjacency octahedron) = Some 24.
Proof. vm_compute. repeat split; reflexivity. Qed.

(* the edge with three neighbours is not flagged as boundary; the ordering swap is visible in row (2,0) *)
Example fan3_tables :
  edge_adjacency fan3 = Some [(0, 1, 0, 1, 0, 1); (0, 2, 1, 0, 0, 1); (1, 0, 0, 1, 0, 1); (1, 2, 1, 0, 0, 1);
                               (2, 0, 1, 0, 0, 1); (2, 1, 1, 0, 0, 1)] /\
  vertex_adjacency fan3 = Some [] /\
  edge_neighbors fan3 = [[0; 1; 2]; [0]; [0]; [1]; [1]; [2]; [2]] /\
  edge_on_boundary fan3 = [false; true; true; true; true; true; true].
Proof. vm_compute. repeat split; reflexivity. Qed.
