(* C14 -- discrete operator algebra: to_dense of the composite classes is the matrix expression and agrees with
   _matvec (hence with matmat, column by column); real operator applied to a complex vector; blocked pack/unpack.
   Stated over the class bodies regenerated from discrete_boundary_operator.py / blocked_operator.py. *)
From Coq Require Import List Arith Bool String Lia Ring Setoid.
From BV Require Import Algebra.Mat Algebra.OpLang Algebra.DiscLang.
From BVgen Require Import OpClasses.
Import ListNotations.

Section Disc.
  Variable A : Type.
  Variables (r0 r1 : A) (radd rmul rsub : A -> A -> A) (ropp : A -> A).
  Hypothesis Rth : ring_theory r0 r1 radd rmul rsub ropp (@eq A).
  Add Ring Rr4 : Rth.
  Notation M := (M A).
  Notation mmul := (mmul A r0 radd rmul).
  Notation madd := (madd A radd).
  Notation mscale := (mscale A rmul).
  Notation meq := (meq A).
  Notation build := (build A r0 ScaledDiscreteOperator SumDiscreteOperator ProductDiscreteOperator).
  Notation dense := (dense A r0 radd rmul).
  Notation matvec := (matvec A r0 radd rmul).
  Notation sden := (sden A r0 radd rmul).
  Notation swf := (swf A r0 radd rmul).
  Notation dwf := (dwf A).
  Notation dshape := (dshape A).

  Lemma dense_scaled : forall l r alpha, dense (DN ScaledDiscreteOperator l r alpha) = mscale alpha (dense l).
  Proof. reflexivity. Qed.
  Lemma dense_sum : forall l r alpha, dense (DN SumDiscreteOperator l r alpha) = madd (dense l) (dense r).
  Proof. reflexivity. Qed.
  Lemma dense_prod : forall l r alpha, dense (DN ProductDiscreteOperator l r alpha) = mmul (dense l) (dense r).
  Proof. reflexivity. Qed.
  Lemma mv_scaled : forall l r alpha x, matvec (DN ScaledDiscreteOperator l r alpha) x = mscale alpha (matvec l x).
  Proof. reflexivity. Qed.
  Lemma mv_sum : forall l r alpha x, matvec (DN SumDiscreteOperator l r alpha) x = madd (matvec l x) (matvec r x).
  Proof. reflexivity. Qed.
  Lemma mv_prod : forall l r alpha x, matvec (DN ProductDiscreteOperator l r alpha) x = matvec l (matvec r x).
  Proof. reflexivity. Qed.
  Lemma shape_scaled : forall l r alpha, dshape (DN ScaledDiscreteOperator l r alpha) = dshape l.
  Proof. reflexivity. Qed.
  Lemma shape_sum : forall l r alpha, dshape (DN SumDiscreteOperator l r alpha) = dshape l.
  Proof. reflexivity. Qed.
  Lemma shape_prod : forall l r alpha, dshape (DN ProductDiscreteOperator l r alpha) = (fst (dshape l), snd (dshape r)).
  Proof. reflexivity. Qed.
  Lemma wf_scaled : forall l r alpha, dwf (DN ScaledDiscreteOperator l r alpha) = dwf l && dwf r && true.
  Proof. reflexivity. Qed.
  Lemma wf_sum : forall l r alpha, dwf (DN SumDiscreteOperator l r alpha) =
    dwf l && dwf r && negb (negb (Nat.eqb (fst (dshape l)) (fst (dshape r)) && Nat.eqb (snd (dshape l)) (snd (dshape r)))).
  Proof. reflexivity. Qed.
  Lemma wf_prod : forall l r alpha, dwf (DN ProductDiscreteOperator l r alpha) =
    dwf l && dwf r && negb (negb (Nat.eqb (snd (dshape l)) (fst (dshape r)))).
  Proof. reflexivity. Qed.

  Definition dinv (e : dspec A) : Prop :=
    dwf (build e) = true /\ dshape (build e) = (rows (sden e), cols (sden e)) /\
    meq (dense (build e)) (sden e) /\
    forall x, rows x = cols (sden e) -> meq (matvec (build e) x) (mmul (sden e) x).

  Lemma dinv_all : forall e, swf e = true -> dinv e.
  Proof.
    induction e; cbn [DiscLang.swf]; intro W; unfold dinv; cbn [DiscLang.build DiscLang.sden].
    - repeat split.
    - destruct (IHe W) as (W1 & S1 & D1 & V1).
      rewrite wf_scaled, shape_scaled, dense_scaled, W1, S1. split; [reflexivity|]. split; [reflexivity|]. split.
      + now apply mscale_compat.
      + intros x Hx. rewrite mv_scaled.
        rewrite (mscale_mmul_l A r0 r1 radd rmul rsub ropp Rth). apply mscale_compat. now apply V1.
    - apply andb_prop in W. destruct W as [W Wc]. apply andb_prop in W. destruct W as [W Wr].
      apply andb_prop in W. destruct W as [Wa Wb]. apply Nat.eqb_eq in Wc, Wr.
      destruct (IHe1 Wa) as (W1 & S1 & D1 & V1). destruct (IHe2 Wb) as (W2 & S2 & D2 & V2).
      rewrite wf_sum, shape_sum, dense_sum, W1, W2, S1, S2. cbn [fst snd]. rewrite (proj2 (Nat.eqb_eq _ _) Wr), (proj2 (Nat.eqb_eq _ _) Wc).
      split; [reflexivity|]. split; [reflexivity|]. split.
      + apply madd_compat; try assumption. destruct D1 as (? & ? & _), D2 as (? & ? & _). split; congruence.
      + intros x Hx. rewrite mv_sum. cbn in Hx.
        rewrite (mmul_madd_r A r0 r1 radd rmul rsub ropp Rth) by assumption.
        assert (E1 := V1 x Hx). assert (E2 := V2 x ltac:(congruence)).
        apply madd_compat; try assumption. destruct E1 as (? & ? & _), E2 as (? & ? & _). cbn in *. split; congruence.
    - apply andb_prop in W. destruct W as [W Wi]. apply andb_prop in W. destruct W as [Wa Wb].
      apply Nat.eqb_eq in Wi.
      destruct (IHe1 Wa) as (W1 & S1 & D1 & V1). destruct (IHe2 Wb) as (W2 & S2 & D2 & V2).
      rewrite wf_prod, shape_prod, dense_prod, W1, W2, S1, S2. cbn [fst snd]. rewrite (proj2 (Nat.eqb_eq _ _) Wi).
      split; [reflexivity|]. split; [reflexivity|]. split.
      + apply mmul_compat; try assumption. destruct D1 as (? & ? & _), D2 as (? & ? & _). congruence.
      + intros x Hx. rewrite mv_prod. cbn in Hx.
        assert (E2 := V2 x Hx).
        assert (R2 : rows (matvec (build e2) x) = cols (sden e1)).
        { destruct E2 as (R & _). cbn in R. congruence. }
        rewrite (V1 _ R2). rewrite (mmul_assoc A r0 r1 radd rmul rsub ropp Rth).
        apply mmul_compat; [reflexivity|assumption|congruence].
  Qed.

  (* to_dense of Sum / Scaled / Product operators is the matrix expression, the shape guards accept the
     conformable operands, and _matvec agrees with to_dense *)
  Theorem discrete_algebra : forall e, swf e = true ->
    dwf (build e) = true /\ dshape (build e) = (rows (sden e), cols (sden e)) /\
    meq (dense (build e)) (sden e) /\
    forall x, rows x = cols (sden e) -> meq (matvec (build e) x) (mmul (dense (build e)) x).
  Proof.
    intros e W. destruct (dinv_all e W) as (W1 & S1 & D1 & V1). split; [assumption|]. split; [assumption|].
    split; [assumption|]. intros x Hx. rewrite (V1 x Hx). apply mmul_compat; [now symmetry|reflexivity|]. destruct D1 as (? & ? & _). congruence.
  Qed.

  (* non-conformable operands are rejected by the constructors *)
  Theorem discrete_shape_guards : forall (a b : M),
    (dwf (DN SumDiscreteOperator (DA a) (DA b) r0) = true <-> rows a = rows b /\ cols a = cols b) /\
    (dwf (DN ProductDiscreteOperator (DA a) (DA b) r0) = true <-> cols a = rows b).
  Proof.
    intros a b. rewrite wf_sum, wf_prod. cbn [DiscLang.dwf DiscLang.dshape fst snd andb]. rewrite !negb_involutive. split.
    - rewrite andb_true_iff, !Nat.eqb_eq. tauto.
    - apply Nat.eqb_eq.
  Qed.
End Disc.

(* ---- a real operator applied to a complex vector acts on real and imaginary parts ---- *)
Section Complex.
  Variable A : Type.
  Variables (r0 r1 : A) (radd rmul rsub : A -> A -> A) (ropp : A -> A).
  Hypothesis Rth : ring_theory r0 r1 radd rmul rsub ropp (@eq A).
  Add Ring Rr5 : Rth.
  Definition C := (A * A)%type.
  Definition c0 : C := (r0, r0).
  Definition cadd (x y : C) : C := (radd (fst x) (fst y), radd (snd x) (snd y)).
  Definition cmul (x y : C) : C :=
    (rsub (rmul (fst x) (fst y)) (rmul (snd x) (snd y)), radd (rmul (fst x) (snd y)) (rmul (snd x) (fst y))).
  Definition embed (m : M A) : M C := mk (rows m) (cols m) (fun i j => (ent m i j, r0)).
  Definition re_part (x : M C) : M A := mk (rows x) (cols x) (fun i j => fst (ent x i j)).
  Definition im_part (x : M C) : M A := mk (rows x) (cols x) (fun i j => snd (ent x i j)).
  Definition join (p q : M A) : M C := mk (rows p) (cols p) (fun i j => (ent p i j, ent q i j)).

  Lemma sumn_pair : forall n (f : nat -> C),
    sumn C c0 cadd n f = (sumn A r0 radd n (fun k => fst (f k)), sumn A r0 radd n (fun k => snd (f k))).
  Proof. induction n; intro f; simpl; [reflexivity|]. rewrite IHn. reflexivity. Qed.

  (* A x = (A re x) + i (A im x), entry by entry, for every real matrix A and complex matrix x *)
  Theorem real_times_complex : forall (m : M A) (x : M C) i j,
    ent (mmul C c0 cadd cmul (embed m) x) i j =
    ent (join (mmul A r0 radd rmul m (re_part x)) (mmul A r0 radd rmul m (im_part x))) i j.
  Proof.
    intros. simpl. rewrite sumn_pair. f_equal; apply sumn_ext; intros k _; simpl; ring.
  Qed.
End Complex.

(* ---- blocked pack / unpack ---- *)
Section PackProofs.
  Variable X : Type.

  Lemma unpack_pack : forall vs : list (list X), unpack X (map (@List.length X) vs) (pack X vs) = vs.
  Proof.
    induction vs; simpl; [reflexivity|]. unfold pack in *. simpl.
    rewrite firstn_app, Nat.sub_diag, firstn_all. simpl. rewrite app_nil_r.
    rewrite skipn_app, Nat.sub_diag, skipn_all. simpl. now rewrite IHvs.
  Qed.

  Lemma pack_unpack : forall dims (v : list X), List.length v = list_sum dims -> pack X (unpack X dims v) = v.
  Proof.
    induction dims; intros v H; simpl in *.
    - destruct v; [reflexivity|discriminate].
    - unfold pack in *. simpl. rewrite IHdims; [apply firstn_skipn|]. rewrite skipn_length. lia.
  Qed.

  (* unpacking a projection vector (pieces have the dual dof counts) recovers the pieces when the slice lengths used
     are the dual ones (or happen to coincide with them) *)
  Theorem unpack_projections_ok : forall sel dim spaces duals (ps : list (list X)),
    map (@List.length X) ps = map dim duals ->
    (sel = DimDual \/ map dim spaces = map dim duals) ->
    unpack_projections X sel dim spaces duals (pack X ps) = ps.
  Proof.
    intros sel dim spaces duals ps L H. unfold unpack_projections.
    assert (E : map dim (match sel with DimSpace => spaces | DimDual => duals end) = map (@List.length X) ps).
    { destruct H as [->|H]; [now symmetry|]. destruct sel; congruence. }
    rewrite E. apply unpack_pack.
  Qed.
End PackProofs.

(* the current source: pieces are recovered whenever the primal and dual dof counts agree, and always if the slices are
   taken by the dual spaces *)
Lemma cur_unpack_projections : forall (X : Type) dim spaces duals (ps : list (list X)),
  map (@List.length X) ps = map dim duals ->
  (slice_projections_by = DimDual \/ map dim spaces = map dim duals) ->
  unpack_projections X slice_projections_by dim spaces duals (pack X ps) = ps.
Proof. intros. now apply unpack_projections_ok. Qed.

(* pinned tree (slices by the primal dof counts): P1 range with 6 dofs, DP0 dual with 8 dofs *)
Lemma unpack_projections_refuted :
  exists (dim : nat -> nat) spaces duals (ps : list (list nat)),
    map (@List.length nat) ps = map dim duals /\
    unpack_projections nat DimSpace dim spaces duals (pack nat ps) <> ps.
Proof.
  exists (fun s => match s with O => 6 | _ => 8 end)%nat, [0%nat], [1%nat], [[1; 2; 3; 4; 5; 6; 7; 8]]%nat.
  split; [reflexivity|]. vm_compute. discriminate.
Qed.

(* the current source slices by the dual spaces and rejects foreign operands through NotImplemented *)
Lemma cur_recipe : slice_projections_by = DimDual /\ blocked_add_foreign = AddNotImplemented.
Proof. split; reflexivity. Qed.

Lemma cur_unpack_projections_now : forall (X : Type) dim spaces duals (ps : list (list X)),
  map (@List.length X) ps = map dim duals ->
  unpack_projections X slice_projections_by dim spaces duals (pack X ps) = ps.
Proof. intros. apply cur_unpack_projections; [assumption|left; apply cur_recipe]. Qed.

(* ---- transposes of the leaf classes that define _transpose / _adjoint (regenerated list [transposable]) ---- *)
Section Transposes.
  Variable A : Type.
  Variables (r0 r1 : A) (radd rmul rsub : A -> A -> A) (ropp : A -> A).
  Hypothesis Rth : ring_theory r0 r1 radd rmul rsub ropp (@eq A).
  Add Ring Rr8 : Rth.
  Notation M := (M A).
  Inductive leaf := LDense (m : M) | LSparse (m : M) | LDiag (n : nat) (d : nat -> A) | LRankOne (m n : nat) (c r : nat -> A).
  Definition leaf_class (l : leaf) : string :=
    match l with LDense _ => "DenseDiscreteBoundaryOperator" | LSparse _ => "SparseDiscreteBoundaryOperator"
            | LDiag _ _ => "DiagonalOperator" | LRankOne _ _ _ _ => "DiscreteRankOneOperator" end%string.
  Definition leaf_dense (l : leaf) : M :=
    match l with LDense m | LSparse m => m | LDiag n d => mdiag A r0 n d | LRankOne m n c r => mouter A rmul m n c r end.
  (* what `_transpose` builds, by the kind read off the source *)
  Definition leaf_transpose (k : trkind) (l : leaf) : leaf :=
    match k, l with
    | TrDense, LDense m => LDense (mtrans A m)
    | TrDense, LSparse m => LSparse (mtrans A m)
    | TrSwap, LRankOne m n c r => LRankOne n m r c
    | _, l => l                                  (* TrSelf: `return self` *)
    end.
  Definition kind_of_class (c : string) : option trkind :=
    match find (fun p => String.eqb (fst p) c) transposable with Some p => Some (snd p) | None => None end.

  Lemma transposable_now :
    kind_of_class "DenseDiscreteBoundaryOperator" = Some TrDense /\ kind_of_class "SparseDiscreteBoundaryOperator" = Some TrDense /\
    kind_of_class "DiagonalOperator" = Some TrSelf /\ kind_of_class "DiscreteRankOneOperator" = Some TrSwap /\
    List.length transposable = 4%nat.
  Proof. repeat split; reflexivity. Qed.

  (* op.T of a Dense / Sparse / Diagonal / RankOne operator has the transposed matrix *)
  Theorem leaf_transposes : forall l k, kind_of_class (leaf_class l) = Some k ->
    meq A (leaf_dense (leaf_transpose k l)) (mtrans A (leaf_dense l)).
  Proof.
    intros l k H. destruct transposable_now as (H1 & H2 & H3 & H4 & _).
    destruct l; cbn [leaf_class] in H; rewrite ?H1, ?H2, ?H3, ?H4 in H; injection H as <-; cbn [leaf_transpose leaf_dense].
    - reflexivity.
    - reflexivity.
    - symmetry. apply mdiag_trans.
    - symmetry. eapply mouter_trans; exact Rth.
  Qed.

  (* what a transpose of the composite classes would have to be (they define none: recorded finding) *)
  Theorem composite_transposes : forall X Y a,
    meq A (mtrans A (madd A radd X Y)) (madd A radd (mtrans A X) (mtrans A Y)) /\
    meq A (mtrans A (mscale A rmul a X)) (mscale A rmul a (mtrans A X)) /\
    (cols X = rows Y -> meq A (mtrans A (mmul A r0 radd rmul X Y)) (mmul A r0 radd rmul (mtrans A Y) (mtrans A X))).
  Proof.
    intros. split; [apply mtrans_madd|]. split; [apply mtrans_mscale|]. eapply mtrans_mmul; exact Rth.
  Qed.
End Transposes.
