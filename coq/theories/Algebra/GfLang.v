(* C14 -- GridFunction arithmetic (__add__, __sub__, __mul__, __rmul__, __neg__, __truediv__) as data + interpreter.
   The rules of the current source (guards, representation-dependent branches, what each branch builds) are
   regenerated into gen/OpClasses.v (GF : gfrules).  Model only. *)
From Coq Require Import List Arith Bool String.
From BV Require Import Algebra.Mat Algebra.OpLang.
Import ListNotations.

Inductive gkind := GKCoef | GKProj.
(* GridFunction(self.space, coefficients|projections = term, dual_space = self.<r_dual> | omitted) *)
Record gfres := { r_kind : gkind; r_term : tm; r_dual : option spk }.
Record gfrules := { gf_add_guard : gexp;                       (* raise ValueError if *)
                    gf_add_branches : list (gexp * gfres);     (* first condition that holds *)
                    gf_add_default : gfres;
                    gf_sub_guard : gexp; gf_sub : dexp;
                    gf_mul_cond : gexp; gf_mul_then : gfres; gf_mul_else : gfres;
                    gf_rmul : dexp; gf_neg : dexp; gf_div : dexp }.

Section GfSem.
  Variable A : Type.
  Variables (r0 r1 : A) (radd rmul : A -> A -> A) (ropp rinv : A -> A).
  Notation M := (M A).
  Variable invmass : nat -> nat -> M.
  Variable mass : nat -> nat -> M.
  Variable G : gfrules.
  Notation gfun := (gfun A).
  Notation coefficients := (coefficients A r0 radd rmul invmass).
  Notation projections := (projections A r0 radd rmul mass).

  Definition gsel (s : side) (x y : gfun) : gfun := match s with SR => y | _ => x end.
  Definition gspace (k : spk) (f : gfun) : res nat :=
    match k with Space => Ok (g_space f) | DualSp => Ok (g_dual f) | _ => Err AttributeError end.

  Fixpoint gfguard (g : gexp) (x y : gfun) : res bool :=
    match g with
    | GCompat a ka b kb => bind (gspace ka (gsel a x y)) (fun u => bind (gspace kb (gsel b x y)) (fun v => Ok (Nat.eqb u v)))
    | GRepDual a => Ok (is_dual A (gsel a x y))
    | GNot g => bind (gfguard g x y) (fun b => Ok (negb b))
    | GOr g h => bind (gfguard g x y) (fun b => if b then Ok true else gfguard h x y)
    | GAnd g h => bind (gfguard g x y) (fun b => if b then gfguard h x y else Ok false)
    | GTrue => Ok true
    | GFalse => Ok false
    | _ => Err AttributeError
    end.

  Definition build (r : gfres) (x y : gfun) (alpha : A) : res gfun :=
    bind (interp A r0 r1 radd rmul ropp rinv invmass mass
            {| e_weak := no_leaf A; e_strong := no_leaf A;
               e_coef := fun s => Ok (VM (coefficients (gsel s x y)));
               e_proj := fun s => Ok (VM (projections (gsel s x y)));
               e_eval := no_leaf A; e_alpha := alpha; e_self_spaces := (g_space x, g_space x, g_dual x) |} (r_term r))
         (fun v => bind (as_mat A v) (fun m =>
          Ok {| g_space := g_space x;
                g_dual := match r_dual r with Some DualSp => g_dual x | _ => g_space x end;
                g_rep := match r_kind r with GKCoef => Primal m | GKProj => DualRep m end |})).

  Fixpoint pick_branch (bs : list (gexp * gfres)) (dflt : gfres) (x y : gfun) : res gfres :=
    match bs with
    | [] => Ok dflt
    | (c, r) :: t => bind (gfguard c x y) (fun b => if b then Ok r else pick_branch t dflt x y)
    end.

  Definition add_rule (x y : gfun) : res gfun :=
    bind (gfguard (gf_add_guard G) x y) (fun raise => if raise then Err ValueError else
    bind (pick_branch (gf_add_branches G) (gf_add_default G) x y) (fun r => build r x y r0)).

  Definition mul_rule (x : gfun) (alpha : A) : res gfun :=
    bind (gfguard (gf_mul_cond G) x x) (fun b => build (if b then gf_mul_then G else gf_mul_else G) x x alpha).

  Inductive gval := GVf (f : gfun) | GVs (a : A).
  Fixpoint gdeval (fuel : nat) (d : dexp) (self other : gval) : res gval :=
    match fuel with
    | O => Err TypeError
    | S f =>
      match d with
      | DSelf => Ok self
      | DOther => Ok other
      | DMinusOne => Ok (GVs (ropp r1))
      | DInv a => bind (gdeval f a self other) (fun v => match v with GVs s => Ok (GVs (rinv s)) | _ => Err TypeError end)
      | DAdd a b => bind (gdeval f a self other) (fun u => bind (gdeval f b self other) (fun v =>
                    match u, v with GVf x, GVf y => bind (add_rule x y) (fun g => Ok (GVf g)) | _, _ => Err AttributeError end))
      | DMul a b => bind (gdeval f a self other) (fun u => bind (gdeval f b self other) (fun v =>
                    match u, v with GVf x, GVs s => bind (mul_rule x s) (fun g => Ok (GVf g)) | _, _ => Err TypeError end))
      | DNeg a => bind (gdeval f a self other) (fun u =>
                    match u with GVf _ => gdeval f (gf_neg G) u u | GVs s => Ok (GVs (ropp s)) end)
      | _ => Err TypeError
      end
    end.

  Inductive ugf := GAtom (f : gfun) | GAdd (a b : ugf) | GSub (a b : ugf) | GNeg (a : ugf)
                 | GScalL (alpha : A) (a : ugf) | GScalR (a : ugf) (alpha : A) | GDiv (a : ugf) (alpha : A).

  Definition as_f (r : res gval) : res gfun := bind r (fun v => match v with GVf g => Ok g | _ => Err TypeError end).
  Fixpoint gfeval (e : ugf) : res gfun :=
    match e with
    | GAtom f => Ok f
    | GAdd a b => bind (gfeval a) (fun x => bind (gfeval b) (fun y => as_f (gdeval 6 (DAdd DSelf DOther) (GVf x) (GVf y))))
    | GSub a b => bind (gfeval a) (fun x => bind (gfeval b) (fun y =>
                    bind (gfguard (gf_sub_guard G) x y) (fun raise => if raise then Err ValueError else
                    as_f (gdeval 6 (gf_sub G) (GVf x) (GVf y)))))
    | GNeg a => bind (gfeval a) (fun x => as_f (gdeval 6 (gf_neg G) (GVf x) (GVf x)))
    | GScalL alpha a => bind (gfeval a) (fun x => as_f (gdeval 6 (gf_rmul G) (GVf x) (GVs alpha)))
    | GScalR a alpha => bind (gfeval a) (fun x => as_f (gdeval 6 (DMul DSelf DOther) (GVf x) (GVs alpha)))
    | GDiv a alpha => bind (gfeval a) (fun x => as_f (gdeval 6 (gf_div G) (GVf x) (GVs alpha)))
    end.

  (* ---- specification ---- *)
  Fixpoint gtype (e : ugf) : option nat :=
    match e with
    | GAtom f => Some (g_space f)
    | GAdd a b | GSub a b => match gtype a, gtype b with
                             | Some s, Some t => if Nat.eqb s t then Some s else None | _, _ => None end
    | GNeg a | GScalL _ a | GScalR a _ | GDiv a _ => gtype a
    end.
  Fixpoint gcoef (e : ugf) : M :=
    match e with
    | GAtom f => coefficients f
    | GAdd a b => madd A radd (gcoef a) (gcoef b)
    | GSub a b => madd A radd (gcoef a) (mscale A rmul (ropp r1) (gcoef b))
    | GNeg a => mscale A rmul (ropp r1) (gcoef a)
    | GScalL alpha a | GScalR a alpha => mscale A rmul alpha (gcoef a)
    | GDiv a alpha => mscale A rmul (rinv alpha) (gcoef a)
    end.
End GfSem.
Arguments GAtom {A}. Arguments GAdd {A}. Arguments GSub {A}. Arguments GNeg {A}. Arguments GScalL {A}.
Arguments GScalR {A}. Arguments GDiv {A}.
