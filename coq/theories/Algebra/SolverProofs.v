(* C15 -- theorems about the solver glue regenerated from bempp_cl/api/linalg (BVgen.SolverGlue) on top of the
   operator algebra (BVgen.OpClasses).  scipy.linalg.solve / lu_solve is the oracle [solve] with the hypothesis
   A * solve(A, b) = b for invertible A; convergence of gmres / cg is not modelled (trusted, _partial). *)
From Coq Require Import List Arith Bool String Lia Ring Setoid.
From BV Require Import Algebra.Mat Algebra.OpLang Algebra.OpProofs Algebra.SolverLang.
From BVgen Require Import OpClasses SolverGlue.
Import ListNotations.

Section Solvers.
  Variable A : Type.
  Variables (r0 r1 : A) (radd rmul rsub : A -> A -> A) (ropp : A -> A).
  Hypothesis Rth : ring_theory r0 r1 radd rmul rsub ropp (@eq A).
  Add Ring Rr3 : Rth.
  Variable rinv : A -> A.
  Notation M := (M A).
  Notation mmul := (mmul A r0 radd rmul).
  Notation meq := (meq A).
  Notation mid := (mid A r0 r1).

  Definition invertible (W : M) : Prop :=
    rows W = cols W /\
    exists B, rows B = cols W /\ cols B = rows W /\ meq (mmul B W) (mid (cols W)) /\ meq (mmul W B) (mid (rows W)).

  Variable solve : M -> M -> M.
  Hypothesis solve_spec : forall W v, invertible W -> rows v = rows W ->
    meq (mmul W (solve W v)) v /\ rows (solve W v) = cols W /\ cols (solve W v) = cols v.

  Lemma left_cancel : forall W x y, invertible W -> rows x = cols W -> rows y = cols W -> cols x = cols y ->
    meq (mmul W x) (mmul W y) -> meq x y.
  Proof.
    intros W x y (Sq & B & B1 & B2 & BL & BR) Rx Ry Cxy H.
    assert (Ex : meq x (mmul B (mmul W x))).
    { rewrite <- (mmul_assoc A r0 r1 radd rmul rsub ropp Rth B W x).
      transitivity (mmul (mid (cols W)) x).
      - rewrite <- Rx. symmetry. apply (mid_l A r0 r1 radd rmul rsub ropp Rth).
      - apply mmul_compat; [now symmetry|reflexivity|]. simpl. congruence. }
    assert (Ey : meq y (mmul B (mmul W y))).
    { rewrite <- (mmul_assoc A r0 r1 radd rmul rsub ropp Rth B W y).
      transitivity (mmul (mid (cols W)) y).
      - rewrite <- Ry. symmetry. apply (mid_l A r0 r1 radd rmul rsub ropp Rth).
      - apply mmul_compat; [now symmetry|reflexivity|]. simpl. congruence. }
    rewrite Ex, Ey. apply mmul_compat; [reflexivity|assumption|]. simpl. congruence.
  Qed.

  (* the solution handed back by the oracle is the only one *)
  Lemma solve_unique : forall W x v, invertible W -> rows x = cols W -> rows v = rows W -> cols x = cols v ->
    meq (mmul W x) v -> meq x (solve W v).
  Proof.
    intros W x v I Rx Rv Cx H. destruct (solve_spec W v I Rv) as (S1 & S2 & S3).
    apply (left_cancel W); try assumption; try congruence. now rewrite H, S1.
  Qed.

  Lemma invertible_meq : forall W W', meq W W' -> invertible W -> invertible W'.
  Proof.
    intros W W' E (Sq & B & B1 & B2 & BL & BR). assert (E' := E). destruct E' as (E1 & E2 & _).
    split; [congruence|]. exists B. split; [congruence|]. split; [congruence|]. split.
    - rewrite <- E2. transitivity (mmul B W); [|assumption].
      apply mmul_compat; [reflexivity|now symmetry|congruence].
    - rewrite <- E1. transitivity (mmul W B); [|assumption].
      apply mmul_compat; [now symmetry|reflexivity|congruence].
  Qed.

  Variable dim : nat -> nat.
  Variable invmass : nat -> nat -> M.
  Variable mass : nat -> nat -> M.
  Variable atoms : nat -> (nat * nat * nat) * M.
  Hypothesis atoms_dims : forall i, rows (snd (atoms i)) = dim (pick3 Dual (fst (atoms i))) /\
                                    cols (snd (atoms i)) = dim (pick3 Dom (fst (atoms i))).
  Hypothesis invmass_dims : forall r d, rows (invmass r d) = dim r /\ cols (invmass r d) = dim d.

  Notation weak := (weak A r0 r1 radd rmul ropp rinv invmass mass atoms (bd_strong BD)).
  Notation spaces := (spaces A atoms).
  Notation elab := (elab A r0 r1 ropp rinv BD boundary_classes).
  Notation type_of := (type_of A atoms).
  Notation den := (den A r0 r1 radd rmul ropp invmass atoms).
  Notation apply_op := (apply_op A r0 r1 radd rmul ropp rinv invmass mass atoms (bd_strong BD) BD).
  Notation coefficients := (coefficients A r0 radd rmul invmass).
  Notation lu_single := (lu_single A r0 r1 radd rmul ropp rinv invmass mass atoms (bd_strong BD) solve).
  Notation it_system := (it_system A r0 r1 radd rmul ropp rinv invmass mass atoms (bd_strong BD)).
  Notation inv_all := (inv_all A r0 r1 radd rmul ropp rinv dim invmass mass atoms atoms_dims invmass_dims).

  Notation strong := (strong A r0 r1 radd rmul ropp rinv invmass mass atoms (bd_strong BD)).
  Notation proj_onto := (proj_onto A r0 radd rmul invmass mass).

  (* what the regenerated glue says, with the operator's weak form left folded *)
  Lemma lu_single_unfold : forall o b,
    lu_single LU o b =
    bind (weak o) (fun v => bind (as_mat A v) (fun W =>
      Ok {| g_space := pick3 Dom (spaces o); g_dual := pick3 Dom (spaces o);
            g_rep := Primal (solve W (proj_onto b (pick3 Dual (spaces o)))) |})).
  Proof. reflexivity. Qed.

  Lemma it_weak_unfold : forall o b,
    it_system IT false o b =
    bind (weak o) (fun v => bind (as_mat A v) (fun Aop =>
      Ok (Aop, proj_onto b (pick3 Dual (spaces o)), pick3 Dom (spaces o)))).
  Proof. reflexivity. Qed.

  Lemma it_strong_unfold : forall o b,
    it_system IT true o b =
    (if negb (Nat.eqb (pick3 Ran (spaces o)) (g_space b)) then Err ValueError else
     bind (strong o) (fun v => bind (as_mat A v) (fun Aop =>
       Ok (Aop, coefficients b, pick3 Dom (spaces o))))).
  Proof. intros. unfold SolverLang.it_system. cbn [it_guard IT guard3 bind pick3]. destruct (spaces o) as [[d q] u].
    cbn [pick3]. destruct (Nat.eqb q (g_space b)); reflexivity. Qed.

  (* lu(A, A*f) returns f, in the domain space of A *)
  Theorem lu_recovers : forall e d q u c, type_of e = Some (d, q, u) -> invertible (den e) ->
    rows c = dim d ->
    let f := {| g_space := d; g_dual := d; g_rep := Primal c |} in
    exists b g, bind (elab e) (fun o => apply_op o f) = Ok b /\
                bind (elab e) (fun o => lu_single LU o b) = Ok g /\
                g_space g = d /\ meq (coefficients g) c.
  Proof.
    intros e d q u c T I Rc f. assert (V := inv_all e). unfold inv in V. rewrite T in V.
    destruct V as (S & m & W & E & D1 & D2). rewrite elab_ok. cbn [bind].
    exists {| g_space := q; g_dual := u; g_rep := DualRep (mmul m c) |}.
    eexists. split; [|split].
    - unfold OpLang.apply_op. rewrite W, S. cbn. now rewrite Nat.eqb_refl.
    - rewrite lu_single_unfold, W, S. cbn [bind as_mat pick3]. reflexivity.
    - cbn [g_space g_rep OpLang.coefficients]. split; [reflexivity|].
      unfold SolverLang.proj_onto. cbn [g_rep g_dual]. rewrite Nat.eqb_refl. symmetry.
      apply solve_unique.
      + apply (invertible_meq (den e)); [now symmetry|assumption].
      + cbn in *. congruence.
      + reflexivity.
      + reflexivity.
      + reflexivity.
  Qed.

  (* the systems handed to gmres / cg *)
  Theorem weak_system : forall e d q u b, type_of e = Some (d, q, u) ->
    exists m, bind (elab e) (fun o => it_system IT false o b) = Ok (m, proj_onto b u, d) /\ meq m (den e).
  Proof.
    intros e d q u b T. assert (V := inv_all e). unfold inv in V. rewrite T in V.
    destruct V as (S & m & W & E & D). rewrite elab_ok. cbn [bind]. rewrite it_weak_unfold, W, S.
    cbn [bind as_mat pick3]. eauto.
  Qed.

  Theorem strong_system : forall e d q u b, type_of e = Some (d, q, u) ->
    (g_space b <> q -> bind (elab e) (fun o => it_system IT true o b) = Err ValueError) /\
    (g_space b = q ->
       exists m, bind (elab e) (fun o => it_system IT true o b) = Ok (m, coefficients b, d) /\
                 meq m (mmul (invmass q u) (den e))).
  Proof.
    intros e d q u b T. assert (V := inv_all e). unfold inv in V. rewrite T in V.
    destruct V as (S & m & W & E & D). rewrite elab_ok. cbn [bind]. rewrite it_strong_unfold, S. cbn [pick3].
    split; intro H.
    - apply Nat.eqb_neq in H. rewrite Nat.eqb_sym, H. reflexivity.
    - rewrite H, Nat.eqb_refl. cbn [negb]. unfold OpLang.strong, strong_of. rewrite W, S. cbn.
      eexists. split; [reflexivity|]. destruct (invmass_dims q u). apply mmul_compat; [reflexivity|assumption|].
      unfold dims_ok in D. cbn in *. destruct D. congruence.
  Qed.

  (* with a two-sided inverse mass matrix the strong-form system has the same solutions as the weak one *)
  Theorem strong_weak_equivalent : forall (W Mi Mm x cb : M) (n k : nat),
    rows Mm = n -> cols Mm = k -> rows Mi = k -> cols Mi = n -> rows W = n -> rows cb = k -> rows x = cols W ->
    meq (mmul Mm Mi) (mid n) -> meq (mmul Mi Mm) (mid k) ->
    (meq (mmul (mmul Mi W) x) cb <-> meq (mmul W x) (mmul Mm cb)).
  Proof.
    intros W Mi Mm x cb n k R1 C1 R2 C2 RW Rc Rx MI IM. split; intro H.
    - transitivity (mmul (mid n) (mmul W x)).
      { rewrite <- RW. symmetry. apply (mid_l A r0 r1 radd rmul rsub ropp Rth (mmul W x)). }
      transitivity (mmul (mmul Mm Mi) (mmul W x)).
      { apply mmul_compat; [now symmetry|reflexivity|]. simpl. congruence. }
      rewrite (mmul_assoc A r0 r1 radd rmul rsub ropp Rth Mm Mi (mmul W x)).
      apply mmul_compat; [reflexivity| |simpl; congruence].
      rewrite <- (mmul_assoc A r0 r1 radd rmul rsub ropp Rth Mi W x). exact H.
    - rewrite (mmul_assoc A r0 r1 radd rmul rsub ropp Rth Mi W x).
      transitivity (mmul Mi (mmul Mm cb)).
      { apply mmul_compat; [reflexivity|assumption|]. simpl. congruence. }
      rewrite <- (mmul_assoc A r0 r1 radd rmul rsub ropp Rth Mi Mm cb).
      transitivity (mmul (mid k) cb).
      { apply mmul_compat; [assumption|reflexivity|]. simpl. congruence. }
      rewrite <- Rc. apply (mid_l A r0 r1 radd rmul rsub ropp Rth cb).
  Qed.

  (* IterationCounter *)
  Variable norm : M -> A.
  Variable msub : M -> M -> M.
  Notation ic_run := (ic_run A r0 radd rmul norm msub).
  Notation ic_eval := (ic_eval A r0 radd rmul msub).

  Lemma ic_fold : forall store is_cg op rhs xs c rs,
    fold_left (ic_call A r0 radd rmul norm msub IC store is_cg op rhs) xs (c, rs) =
    ((c + List.length xs)%nat,
     (rs ++ if store then map (fun x => norm (ic_eval (if is_cg then ISub IRhs IOpX else IX) op rhs x)) xs else [])%list).
  Proof.
    induction xs; intros c rs; cbn [fold_left List.length map].
    - rewrite Nat.add_0_r. destruct store; now rewrite app_nil_r.
    - unfold ic_call at 2. cbn [fst snd ic_incr IC ic_cg_res ic_other_res]. destruct store.
      + rewrite IHxs. f_equal; [lia|]. rewrite <- app_assoc. reflexivity.
      + rewrite IHxs. f_equal. lia.
  Qed.

  (* for every sequence of callback calls: count = number of calls; residuals[i] = norm of the i-th callback value
     (gmres: the value scipy passes; cg: rhs - A x_i); nothing stored when residuals were not requested *)
  Theorem counter : forall store is_cg op rhs xs,
    ic_run IC store is_cg op rhs xs =
    (List.length xs,
     if store then map (fun x => norm (if is_cg then msub rhs (mmul op x) else x)) xs else []).
  Proof.
    intros. unfold SolverLang.ic_run. rewrite ic_fold. cbn [Nat.add app]. f_equal.
    destruct store; [|reflexivity]. apply map_ext. intro x. destruct is_cg; reflexivity.
  Qed.

  (* every wrapper of the current source hands its return_residuals flag to the callback, hence for all four flag combinations
     and every sequence of SciPy callbacks: residuals are returned iff requested and then there is exactly one per iteration
     (the norm SciPy reports / of rhs - A x_i for cg); the count is returned iff requested and is the number of callbacks *)
  Theorem wrapper_flags : forall w flag, In (w, flag) store_flags ->
    forall rr ric is_cg op rhs xs,
    wrapper_out A r0 radd rmul norm msub IC flag rr ric is_cg op rhs xs =
    (if rr then Some (map (fun x => norm (if is_cg then msub rhs (mmul op x) else x)) xs) else None,
     if ric then Some (List.length xs) else None).
  Proof.
    intros w flag Hin rr ric is_cg op rhs xs.
    assert (flag = "return_residuals"%string) as ->.
    { cbn in Hin. repeat (destruct Hin as [Hin|Hin]; [now inversion Hin|]). contradiction. }
    unfold wrapper_out. change (store_of "return_residuals" rr ric) with rr. rewrite counter. cbn [fst snd].
    destruct rr; reflexivity.
  Qed.
End Solvers.

Lemma wrappers_listed : map fst store_flags = ["_gmres_single_op_imp"; "cg"; "_gmres_block_op_imp"]%string.
Proof. reflexivity. Qed.

(* blocked wrappers: in every branch the solution vector is cut by the DOMAIN spaces of A, the right-hand side of the weak
   systems is taken with respect to the dual_to_range spaces *)
Lemma blocked_space_lists :
  it_blocked_result_strong IT = "domain_spaces"%string /\ it_blocked_result_weak IT = "domain_spaces"%string /\
  lu_blocked_result LU = "domain_spaces"%string /\ it_blocked_weak_rhs IT = "dual_to_range_spaces"%string /\
  lu_blocked_rhs LU = "dual_to_range_spaces"%string.
Proof. repeat split; reflexivity. Qed.

From Coq Require Import ZArith.
(* ---- the strong-form system matrix M^-1 W of an SPD operator is in general NOT symmetric (recorded finding: cg with
   use_strong_form=True), but it is self-adjoint with respect to the M-inner product: M (M^-1 W) = W ---- *)
Definition symmetric {A} (X : M A) : Prop := rows X = cols X /\ forall i j, (i < rows X)%nat -> (j < rows X)%nat -> ent X i j = ent X j i.

Lemma strong_system_not_symmetric :
  exists (W Mi : M Z), symmetric W /\ symmetric Mi /\
    ~ symmetric (mmul Z 0%Z Z.add Z.mul Mi W).
Proof.
  exists (of_rows Z 0%Z 2 2 [[2; 1]; [1; 2]]%Z), (of_rows Z 0%Z 2 2 [[1; 0]; [0; 2]]%Z).
  split; [|split].
  - split; [reflexivity|]. intros [|[|i]] [|[|j]] Hi Hj; simpl in *; try reflexivity; lia.
  - split; [reflexivity|]. intros [|[|i]] [|[|j]] Hi Hj; simpl in *; try reflexivity; lia.
  - intros [_ H]. specialize (H 0%nat 1%nat ltac:(simpl; lia) ltac:(simpl; lia)). vm_compute in H. discriminate.
Qed.

Section MSelfAdjoint.
  Variable A : Type.
  Variables (r0 r1 : A) (radd rmul rsub : A -> A -> A) (ropp : A -> A).
  Hypothesis Rth : ring_theory r0 r1 radd rmul rsub ropp (@eq A).
  (* M (M^-1 W) = W: with W symmetric, M^-1 W is self-adjoint in the inner product induced by M *)
  Lemma strong_system_M_selfadjoint : forall (W Mm Mi : M A) n, rows W = n -> cols Mi = n ->
    meq A (mmul A r0 radd rmul Mm Mi) (mid A r0 r1 n) ->
    meq A (mmul A r0 radd rmul Mm (mmul A r0 radd rmul Mi W)) W.
  Proof.
    intros W Mm Mi n RW C I.
    rewrite <- (mmul_assoc A r0 r1 radd rmul rsub ropp Rth Mm Mi W).
    transitivity (mmul A r0 radd rmul (mid A r0 r1 n) W).
    - apply mmul_compat; [assumption|reflexivity|]. simpl. congruence.
    - rewrite <- RW. apply (mid_l A r0 r1 radd rmul rsub ropp Rth).
  Qed.
End MSelfAdjoint.
