(* C14 -- composite discrete operators (_ScaledDiscreteOperator, _SumDiscreteOperator, _ProductDiscreteOperator):
   their to_dense and _matvec bodies as terms (regenerated into gen/OpClasses.v) and the interpretation;
   slicing recipes of the blocked pack / unpack helpers.  Models only. *)
From Coq Require Import List Arith Bool String.
From BV Require Import Algebra.Mat Algebra.OpLang.
Import ListNotations.

Inductive dtm :=
| XArg                              (* the argument x of _matvec *)
| XAlpha                             (* self._alpha *)
| XDense (s : side)                  (* self._opN.to_dense() *)
| XApply (s : side) (t : dtm)        (* self._opN @ t *)
| XAdd (a b : dtm)
| XScale (a b : dtm)                 (* python `*` with a scalar on the left *)
| XMatMul (a b : dtm).               (* python `@` on arrays *)

Inductive shape_guard := SGNone | SGSameShape | SGInner.
Inductive shape_rule := ShLeft | ShOuter.
Record dclass := { dc_name : string; dc_guard : shape_guard; dc_shape : shape_rule; dc_dense : dtm; dc_matvec : dtm }.

(* how a leaf class builds its transpose: from the transposed dense/sparse matrix, itself (diagonal), swapped factors *)
Inductive trkind := TrDense | TrSelf | TrSwap.
Inductive dimsel := DimSpace | DimDual.
Inductive addforeign := AddReturnsErrorClass | AddNotImplemented.

Section DiscSem.
  Variable A : Type.
  Variables (r0 : A) (radd rmul : A -> A -> A).
  Notation M := (M A).
  Notation mmul := (mmul A r0 radd rmul).
  Notation madd := (madd A radd).
  Notation mscale := (mscale A rmul).

  Inductive dop := DA (m : M) | DN (c : dclass) (l r : dop) (alpha : A).

  Fixpoint dshape (o : dop) : nat * nat :=
    match o with
    | DA m => (rows m, cols m)
    | DN c l r _ => match dc_shape c with ShLeft => dshape l | ShOuter => (fst (dshape l), snd (dshape r)) end
    end.

  Definition guard_raises (g : shape_guard) (sl sr : nat * nat) : bool :=
    match g with
    | SGNone => false
    | SGSameShape => negb (Nat.eqb (fst sl) (fst sr) && Nat.eqb (snd sl) (snd sr))
    | SGInner => negb (Nat.eqb (snd sl) (fst sr))
    end.

  (* construction: operands first, then the shape guard *)
  Fixpoint dwf (o : dop) : bool :=
    match o with
    | DA _ => true
    | DN c l r _ => dwf l && dwf r && negb (guard_raises (dc_guard c) (dshape l) (dshape r))
    end.

  Inductive xval := XVs (a : A) | XVm (m : M).

  (* interpretation of a body; [dn], [ap] give the meaning of the operand leaves *)
  Fixpoint dinterp (dn : side -> M) (ap : side -> M -> M) (alpha : A) (x : M) (t : dtm) : xval :=
    match t with
    | XArg => XVm x
    | XAlpha => XVs alpha
    | XDense s => XVm (dn s)
    | XApply s u => match dinterp dn ap alpha x u with XVm v => XVm (ap s v) | XVs a => XVs a end
    | XAdd a b => match dinterp dn ap alpha x a, dinterp dn ap alpha x b with
                  | XVm p, XVm q => XVm (madd p q) | v, _ => v end
    | XScale a b => match dinterp dn ap alpha x a, dinterp dn ap alpha x b with
                    | XVs s, XVm q => XVm (mscale s q) | v, _ => v end
    | XMatMul a b => match dinterp dn ap alpha x a, dinterp dn ap alpha x b with
                     | XVm p, XVm q => XVm (mmul p q) | v, _ => v end
    end.
  Definition as_m (v : xval) : M := match v with XVm m => m | XVs _ => mzero A r0 0 0 end.

  Fixpoint dense (o : dop) : M :=
    match o with
    | DA m => m
    | DN c l r alpha =>
        as_m (dinterp (fun s => match s with SR => dense r | _ => dense l end) (fun _ v => v) alpha (mzero A r0 0 0)
                      (dc_dense c))
    end.

  Fixpoint matvec (o : dop) (x : M) : M :=
    match o with
    | DA m => mmul m x
    | DN c l r alpha =>
        as_m (dinterp (fun _ => mzero A r0 0 0) (fun s v => match s with SR => matvec r v | _ => matvec l v end) alpha x
                      (dc_matvec c))
    end.

  (* the mathematical meaning, written independently: Scaled / Sum / Product by class name order in [classes] *)
  Variables (cScaled cSum cProduct : dclass).
  Inductive dspec := SAtom (m : M) | SScaled (a : dspec) (alpha : A) | SSum (a b : dspec) | SProd (a b : dspec).
  Fixpoint build (e : dspec) : dop :=
    match e with
    | SAtom m => DA m
    | SScaled a alpha => DN cScaled (build a) (build a) alpha
    | SSum a b => DN cSum (build a) (build b) r0
    | SProd a b => DN cProduct (build a) (build b) r0
    end.
  Fixpoint sden (e : dspec) : M :=
    match e with
    | SAtom m => m
    | SScaled a alpha => mscale alpha (sden a)
    | SSum a b => madd (sden a) (sden b)
    | SProd a b => mmul (sden a) (sden b)
    end.
  Fixpoint swf (e : dspec) : bool :=
    match e with
    | SAtom _ => true
    | SScaled a _ => swf a
    | SSum a b => swf a && swf b && Nat.eqb (rows (sden a)) (rows (sden b)) && Nat.eqb (cols (sden a)) (cols (sden b))
    | SProd a b => swf a && swf b && Nat.eqb (cols (sden a)) (rows (sden b))
    end.
End DiscSem.

Arguments DA {A}. Arguments DN {A}. Arguments SAtom {A}. Arguments SScaled {A}. Arguments SSum {A}. Arguments SProd {A}.

(* ---- pack / unpack of blocked vectors ---- *)
Section Pack.
  Variable X : Type.
  Fixpoint unpack (dims : list nat) (v : list X) : list (list X) :=
    match dims with [] => [] | d :: ds => firstn d v :: unpack ds (skipn d v) end.
  Definition pack (vs : list (list X)) : list X := List.concat vs.
  (* grid_function_list_from_projections(v, spaces, duals): slice lengths come from the selected space list *)
  Definition unpack_projections (sel : dimsel) (dim : nat -> nat) (spaces duals : list nat) (v : list X) : list (list X) :=
    unpack (map dim (match sel with DimSpace => spaces | DimDual => duals end)) v.
End Pack.
