(* C14 -- potential operators: objects, property lookup through the class tables, guards, evaluation.
   Models only; the tables of the current source are in gen/OpClasses.v. *)
From Coq Require Import List Arith Bool String.
From BV Require Import Algebra.Mat Algebra.OpLang.
Import ListNotations.
Open Scope string_scope.

(* a derived potential class: ctor guard, evaluate body, properties as attribute paths [field; attribute], fields *)
Record pclass := { p_name : string; p_guard : gexp; p_body : tm;
                   p_props : list (string * list string); p_fields : list (string * side) }.
(* the base class PotentialOperator *)
Record pbase := { pb_props : list (string * list string);          (* property -> path from self *)
                  pb_methods : list (string * gexp);               (* boolean methods (self, other) *)
                  pb_evaluator_attrs : list string;                (* attributes of the evaluator object *)
                  pb_add_guard : gexp; pb_add : dexp; pb_neg : dexp; pb_sub : dexp;
                  pb_mul : dispatch; pb_rmul : dispatch; pb_matmul : dexp;
                  pb_eval : tm }.

Fixpoint assoc {T} (k : string) (l : list (string * T)) : option T :=
  match l with [] => None | (k', v) :: t => if String.eqb k k' then Some v else assoc k t end.
Definition mem_str (k : string) (l : list string) : bool := existsb (String.eqb k) l.

Section PotSem.
  Variable A : Type.
  Variables (r0 r1 : A) (radd rmul : A -> A -> A) (ropp : A -> A) (rinv : A -> A).
  Notation M := (M A).
  Variable invmass : nat -> nat -> M.
  Variable mass : nat -> nat -> M.
  (* assembled potential operators: (space id, component count, id of the point set) and the matrix K with
     evaluate(f) = K * f.coefficients *)
  Variable patoms : nat -> (nat * nat * nat) * M.
  Variable PB : pbase.
  Variable pclasses : list pclass.
  Definition find_pclass (n : string) : option pclass := find (fun c => String.eqb (p_name c) n) pclasses.

  Inductive pop := PAtom (i : nat) | PNew (c : pclass) (l r : pop) (alpha : A).

  (* value of attribute [name] of the evaluator object of an atom *)
  Definition evaluator_attr (i : nat) (name : string) : res nat :=
    if mem_str name (pb_evaluator_attrs PB) then
      let '(s, c, p) := fst (patoms i) in
      if String.eqb name "space" then Ok s
      else if String.eqb name "kernel_dimension" then Ok c
      else if String.eqb name "points" then Ok p
      else Err AttributeError
    else Err AttributeError.

  (* python attribute lookup `o.name` for the properties of potential operators *)
  Fixpoint pprop (o : pop) (name : string) : res nat :=
    match o with
    | PAtom i =>
        match assoc name (pb_props PB) with
        | Some [fld; a] => if String.eqb fld "_evaluator" then evaluator_attr i a else Err AttributeError
        | _ => Err AttributeError
        end
    | PNew c l r _ =>
        match assoc name (p_props c) with
        | Some [fld; a] =>
            match assoc fld (p_fields c) with
            | Some SL => pprop l a
            | Some SR => pprop r a
            | _ => Err AttributeError
            end
        | _ => Err AttributeError      (* not overridden: the inherited property needs self._evaluator, which the
                                          derived constructors never set; unknown name: AttributeError as well *)
        end
    end.

  Definition obj_of (s : side) (self other : pop) : pop := match s with SR => other | _ => self end.

  Fixpoint pguard (fuel : nat) (g : gexp) (self other : pop) : res bool :=
    match fuel with
    | O => Err TypeError
    | S f =>
      match g with
      | GCompat a ka b kb =>
          match ka, kb with
          | Space, Space => bind (pprop (obj_of a self other) "space") (fun x =>
                            bind (pprop (obj_of b self other) "space") (fun y => Ok (Nat.eqb x y)))
          | _, _ => Err AttributeError
          end
      | GEqProp a b p => bind (pprop (obj_of a self other) p) (fun x =>
                         bind (pprop (obj_of b self other) p) (fun y => Ok (Nat.eqb x y)))
      | GSamePoints a b p => bind (pprop (obj_of a self other) p) (fun x =>
                             bind (pprop (obj_of b self other) p) (fun y => Ok (Nat.eqb x y)))
      | GCall recv meth arg =>
          match assoc meth (pb_methods PB) with
          | Some body => pguard f body (obj_of recv self other) (obj_of arg self other)
          | None => Err AttributeError
          end
      | GNot g => bind (pguard f g self other) (fun b => Ok (negb b))
      | GOr g h => bind (pguard f g self other) (fun b => if b then Ok true else pguard f h self other)
      | GAnd g h => bind (pguard f g self other) (fun b => if b then pguard f h self other else Ok false)
      | GTrue => Ok true
      | GFalse => Ok false
      | GRepDual _ => Err AttributeError
      end
    end.

  Notation interp := (interp A r0 r1 radd rmul ropp rinv invmass mass).
  Notation mmul := (mmul A r0 radd rmul).

  (* the constructor of a derived class: operands first, then its guard; Ok tt or the exception *)
  Fixpoint pconstruct (o : pop) : res unit :=
    match o with
    | PAtom _ => Ok tt
    | PNew c l r _ =>
        bind (pconstruct l) (fun _ => bind (pconstruct r) (fun _ =>
        bind (pguard 6 (p_guard c) l r) (fun raise => if raise then Err ValueError else Ok tt)))
    end.

  Fixpoint peval (o : pop) (coef : M) : res (val A) :=
    match o with
    | PAtom i => Ok (VM (mmul (snd (patoms i)) coef))
    | PNew c l r alpha =>
        interp {| e_weak := no_leaf A; e_strong := no_leaf A; e_coef := no_leaf A; e_proj := no_leaf A;
                  e_eval := fun s => match s with SL => peval l coef | SR => peval r coef
                                                | SSelf => Err AttributeError end;
                  e_alpha := alpha; e_self_spaces := (0, 0, 0)%nat |} (p_body c)
    end.

  (* p * f for a user: construct (guards), then evaluate *)
  Definition papply (o : pop) (coef : M) : res (val A) := bind (pconstruct o) (fun _ => peval o coef).

  (* ---- user expressions and elaboration through the dunders of PotentialOperator ---- *)
  Inductive upot :=
  | UPAtom (i : nat) | UPAdd (a b : upot) | UPSub (a b : upot) | UPNeg (a : upot)
  | UPScalL (alpha : A) (a : upot) | UPScalR (a : upot) (alpha : A).

  Inductive pdval := PVop (o : pop) | PVscalar (a : A).
  Definition pkind (v : pdval) : operand := match v with PVop _ => OOperator | PVscalar _ => OScalar end.
  Definition plookup (k : operand) (d : dispatch) : dexp :=
    match find (fun p => match fst p, k with
                         | OScalar, OScalar | OOperator, OOperator | OFunction, OFunction | OOther, OOther => true
                         | _, _ => false end) d with
    | Some p => snd p | None => DNotImplemented end.

  Fixpoint pdeval (fuel : nat) (d : dexp) (self other : pdval) : res pdval :=
    match fuel with
    | O => Err TypeError
    | S f =>
      match d with
      | DSelf => Ok self
      | DOther => Ok other
      | DMinusOne => Ok (PVscalar (ropp r1))
      | DInv a => bind (pdeval f a self other) (fun x => match x with PVscalar s => Ok (PVscalar (rinv s)) | _ => Err TypeError end)
      | DNew n a b =>
          bind (pdeval f a self other) (fun x => bind (pdeval f b self other) (fun y =>
          match find_pclass n, x, y with
          | Some c, PVop l, PVop r =>
              bind (pguard 6 (p_guard c) l r) (fun raise => if raise then Err ValueError else Ok (PVop (PNew c l r r0)))
          | Some c, PVop l, PVscalar s =>
              bind (pguard 6 (p_guard c) l l) (fun raise => if raise then Err ValueError else Ok (PVop (PNew c l l s)))
          | _, _, _ => Err AttributeError
          end))
      | DAdd a b => bind (pdeval f a self other) (fun x => bind (pdeval f b self other) (fun y =>
                    match x, y with
                    | PVop xo, PVop yo =>
                        bind (pguard 6 (pb_add_guard PB) xo yo) (fun raise =>
                        if raise then Err ValueError else pdeval f (pb_add PB) x y)
                    | _, _ => Err AttributeError
                    end))
      | DMul a b => bind (pdeval f a self other) (fun x => bind (pdeval f b self other) (fun y =>
                    match x with PVop _ => pdeval f (plookup (pkind y) (pb_mul PB)) x y | _ => Err TypeError end))
      | DNeg a => bind (pdeval f a self other) (fun x =>
                    match x with PVop _ => pdeval f (pb_neg PB) x x | PVscalar s => Ok (PVscalar (ropp s)) end)
      | DApply => Err TypeError
      | DNotImplemented => Err TypeError
      | DReturnClassNotImplementedError => Err NotImplementedReturned
      end
    end.

  Fixpoint pelab (e : upot) : res pop :=
    let as_op (r : res pdval) : res pop := bind r (fun v => match v with PVop o => Ok o | _ => Err TypeError end) in
    match e with
    | UPAtom i => Ok (PAtom i)
    | UPAdd a b => bind (pelab a) (fun x => bind (pelab b) (fun y =>
                     as_op (pdeval 8 (DAdd DSelf DOther) (PVop x) (PVop y))))
    | UPSub a b => bind (pelab a) (fun x => bind (pelab b) (fun y => as_op (pdeval 8 (pb_sub PB) (PVop x) (PVop y))))
    | UPNeg a => bind (pelab a) (fun x => as_op (pdeval 8 (pb_neg PB) (PVop x) (PVop x)))
    | UPScalL alpha a => bind (pelab a) (fun x => as_op (pdeval 8 (plookup OScalar (pb_rmul PB)) (PVop x) (PVscalar alpha)))
    | UPScalR a alpha => bind (pelab a) (fun x => as_op (pdeval 8 (plookup OScalar (pb_mul PB)) (PVop x) (PVscalar alpha)))
    end.

  (* (expression) * f *)
  Definition upapply (e : upot) (coef : M) : res (val A) := bind (pelab e) (fun o => peval o coef).

  (* ---- specification ---- *)
  Fixpoint ptype_of (e : upot) : option (nat * nat * nat) :=
    match e with
    | UPAtom i => Some (fst (patoms i))
    | UPAdd a b | UPSub a b =>
        match ptype_of a, ptype_of b with
        | Some (s1, c1, p1), Some (s2, c2, p2) =>
            if Nat.eqb s1 s2 && Nat.eqb c1 c2 && Nat.eqb p1 p2 then Some (s1, c1, p1) else None
        | _, _ => None
        end
    | UPNeg a | UPScalL _ a | UPScalR a _ => ptype_of a
    end.
  Fixpoint pden (e : upot) : M :=
    match e with
    | UPAtom i => snd (patoms i)
    | UPAdd a b => madd A radd (pden a) (pden b)
    | UPSub a b => madd A radd (pden a) (mscale A rmul (ropp r1) (pden b))
    | UPNeg a => mscale A rmul (ropp r1) (pden a)
    | UPScalL alpha a | UPScalR a alpha => mscale A rmul alpha (pden a)
    end.
End PotSem.

Arguments PAtom {A}. Arguments PNew {A}. Arguments UPAtom {A}. Arguments UPAdd {A}. Arguments UPSub {A}.
Arguments UPNeg {A}. Arguments UPScalL {A}. Arguments UPScalR {A}.
