(* C14 -- potential operators and name resolution: theorems over the regenerated tables, and the witnesses on the
   hand-written tables of the pinned tree. *)
From Coq Require Import List Arith Bool String Lia.
From BV Require Import Algebra.Mat Algebra.OpLang Algebra.PotLang.
From BVgen Require Import OpClasses.
Import ListNotations.
Open Scope string_scope.

(* ---- every attribute / method used on self or on an operand resolves, except the recorded ones ---- *)
Definition known_unresolved : list (string * string * string * string) := [].
(* history: on the pinned tree (f71eeee) three names did not resolve, all in potential_operator.py:
   _ScaledPotentialOperator.evaluation_points -> .points, _SumPotentialOperator.__init__ -> ._is__compatible,
   _SumPotentialOperator.evaluation_points -> .points; repaired by b425e0a.  The list is empty now, so a re-introduced
   typo breaks [resolution_sweep]. *)

Definition row_eqb (a b : string * string * string * string) : bool :=
  let '(a1, a2, a3, a4) := a in let '(b1, b2, b3, b4) := b in
  String.eqb a1 b1 && String.eqb a2 b2 && String.eqb a3 b3 && String.eqb a4 b4.

Definition is_known (r : string * string * string * string) : bool := existsb (row_eqb r) known_unresolved.

Lemma resolution_sweep : forallb is_known unresolved = true.
Proof. vm_compute. reflexivity. Qed.

Lemma methods_resolve : forall r, In r unresolved -> In r known_unresolved.
Proof.
  intros [[[c m] t] a] H. assert (R := proj1 (forallb_forall _ _) resolution_sweep _ H). unfold is_known in R.
  apply existsb_exists in R. destruct R as ([[[c' m'] t'] a'] & Hin & E). cbn [row_eqb] in E.
  repeat (apply andb_prop in E; destruct E as [E ?]).
  repeat match goal with H : String.eqb _ _ = true |- _ => apply String.eqb_eq in H end. subst. exact Hin.
Qed.

Lemma resolution_nonempty : (100 <= resolution_checked)%nat.
Proof. vm_compute. lia. Qed.

(* ---- history: the tables of the pinned tree f71eeee, written by hand.  The lemmas below document what the typo did;
   they are no longer part of props/C14.v ---- *)
Definition ScaledPotential_pinned : pclass :=
  {| p_name := "_ScaledPotentialOperator"; p_guard := GFalse; p_body := TMul TAlpha (TEval SL);
     p_props := [("space", ["_op"; "space"]); ("component_count", ["_op"; "component_count"]);
                 ("evaluation_points", ["_op"; "points"])];
     p_fields := [("_op", SL)] |}.
Definition SumPotential_pinned : pclass :=
  {| p_name := "_SumPotentialOperator"; p_guard := GNot (GCall SL "_is__compatible" SR);
     p_body := TAdd (TEval SL) (TEval SR);
     p_props := [("space", ["_op1"; "space"]); ("component_count", ["_op1"; "component_count"]);
                 ("evaluation_points", ["_op1"; "points"])];
     p_fields := [("_op1", SL); ("_op2", SR)] |}.
Definition classes_pinned := [ScaledPotential_pinned; SumPotential_pinned].
Definition PB_pinned : pbase :=
  {| pb_props := [("space", ["_evaluator"; "space"]); ("component_count", ["_evaluator"; "kernel_dimension"]);
                  ("evaluation_points", ["_evaluator"; "points"])];
     pb_methods := [("_is_compatible",
                     GAnd (GAnd (GEqProp SSelf SR "component_count") (GSamePoints SSelf SR "evaluation_points"))
                          (GCompat SSelf Space SR Space))];
     pb_evaluator_attrs := ["space"; "points"; "kernel_dimension"];
     pb_add_guard := GNot (GCall SSelf "_is_compatible" SR);
     pb_add := DNew "_SumPotentialOperator" DSelf DOther; pb_neg := DMul DSelf DMinusOne;
     pb_sub := DAdd DSelf (DNeg DOther);
     pb_mul := [(OScalar, DNew "_ScaledPotentialOperator" DSelf DOther); (OFunction, DApply); (OOther, DNotImplemented)];
     pb_rmul := [(OScalar, DNew "_ScaledPotentialOperator" DSelf DOther); (OOther, DNotImplemented)];
     pb_matmul := DMul DSelf DOther;
     pb_eval := TMul (TWeak SSelf) (TCoef SR) |}.

Section Pinned.
  Variable A : Type.
  Variables (r0 r1 : A) (radd rmul : A -> A -> A) (ropp : A -> A) (rinv : A -> A).
  Variable patoms : nat -> (nat * nat * nat) * M A.
  Notation pelab := (pelab A r0 r1 ropp rinv patoms PB_pinned classes_pinned).
  Notation pguard := (pguard A patoms PB_pinned).

  Notation pdeval := (pdeval A r0 r1 ropp rinv patoms PB_pinned classes_pinned).

  Lemma pdeval_add : forall f x y,
    pdeval (S (S f)) (DAdd DSelf DOther) (PVop A x) (PVop A y) =
    bind (pguard 6 (pb_add_guard PB_pinned) x y)
         (fun raise => if raise then Err ValueError else pdeval (S f) (pb_add PB_pinned) (PVop A x) (PVop A y)).
  Proof. reflexivity. Qed.

  (* the constructor of the sum class looks up a method that does not exist *)
  Lemma pinned_sum_ctor : forall f x y,
    pdeval (S (S f)) (pb_add PB_pinned) (PVop A x) (PVop A y) = Err AttributeError.
  Proof. reflexivity. Qed.

  (* on the pinned tree no sum of potential operators can be built, whatever the operands *)
  Lemma pinned_sum_never_builds : forall a b o, pelab (UPAdd a b) <> Ok o.
  Proof.
    intros a b o. cbn [PotLang.pelab]. destruct (pelab a) as [x|]; [|discriminate].
    destruct (pelab b) as [y|]; [|discriminate]. cbn [bind].
    rewrite pdeval_add, pinned_sum_ctor.
    destruct (pguard 6 (pb_add_guard PB_pinned) x y) as [[|]|]; discriminate.
  Qed.

  (* ... and a sum of two operators with identical space, points and components raises AttributeError *)
  Lemma pinned_compatible_sum_attribute_error : forall i,
    pelab (UPAdd (UPAtom i) (UPAtom i)) = Err AttributeError.
  Proof.
    intro i. cbn [PotLang.pelab bind]. rewrite pdeval_add, pinned_sum_ctor.
    replace (pguard 6 (pb_add_guard PB_pinned) (PAtom i) (PAtom i)) with (@Ok bool false); [reflexivity|].
    cbv -[Nat.eqb]. destruct (patoms i) as [[[s c] p] m]. cbv -[Nat.eqb]. now rewrite !Nat.eqb_refl.
  Qed.

  Lemma pinned_scaled_points_attribute_error : forall i alpha,
    bind (pelab (UPScalL alpha (UPAtom i)))
         (fun o => pprop A patoms PB_pinned o "evaluation_points") = Err AttributeError.
  Proof. intros i alpha. reflexivity. Qed.
End Pinned.

Lemma all_names_resolve : unresolved = [].
Proof. reflexivity. Qed.
