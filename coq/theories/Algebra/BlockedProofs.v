(* C14 -- BLOCKED operators (BlockedOperatorBase, Sum/Scaled/ProductBlockedOperator): the file is Algebra/OpProofs.v replayed over the
   class descriptions regenerated from blocked_operator.py.  A space id of the model now stands for a LIST of spaces (two
   lists are equal iff python's tuple comparison says so), dim for the total dof count, and invmass r d for the block-diagonal
   operator of the inverse mass matrices between the spaces of list r and list d (see BlockedInst below).
   Original header: theorems about the boundary-operator algebra, stated over the class descriptions regenerated from the
   current source (BVgen.OpClasses).  Every [reflexivity] that unfolds [elab] / [weak] re-checks the translated
   dunder methods, guards and _assemble bodies. *)
From Coq Require Import List Arith Bool String Lia Ring Setoid.
From BV Require Import Algebra.Mat Algebra.OpLang.
From BVgen Require Import OpClasses.
Import ListNotations.

Section Blocked.
  Variable A : Type.
  Variables (r0 r1 : A) (radd rmul rsub : A -> A -> A) (ropp : A -> A).
  Hypothesis Rth : ring_theory r0 r1 radd rmul rsub ropp (@eq A).
  Add Ring Rr10 : Rth.
  Variable rinv : A -> A.
  Notation M := (M A).
  Notation mmul := (mmul A r0 radd rmul).
  Notation madd := (madd A radd).
  Notation mscale := (mscale A rmul).
  Notation meq := (meq A).

  Variable dim : nat -> nat.                       (* global_dof_count of a space id *)
  Variable invmass : nat -> nat -> M.
  Variable mass : nat -> nat -> M.
  Variable atoms : nat -> (nat * nat * nat) * M.
  (* assembled operators are (dual dofs) x (domain dofs); the inverse mass matrix maps dual dofs to range dofs *)
  Hypothesis atoms_dims : forall i, rows (snd (atoms i)) = dim (pick3 Dual (fst (atoms i))) /\
                                    cols (snd (atoms i)) = dim (pick3 Dom (fst (atoms i))).
  Hypothesis invmass_dims : forall r d, rows (invmass r d) = dim r /\ cols (invmass r d) = dim d.

  Notation weak := (weak A r0 r1 radd rmul ropp rinv invmass mass atoms (bd_strong BBD)).
  Notation spaces := (spaces A atoms).
  Notation elab := (elab A r0 r1 ropp rinv BBD blocked_classes).
  Notation uweak := (uweak A r0 r1 radd rmul ropp rinv invmass mass atoms (bd_strong BBD) BBD blocked_classes).
  Notation uspaces := (uspaces A r0 r1 radd rmul ropp rinv invmass mass atoms (bd_strong BBD) BBD blocked_classes).
  Notation type_of := (type_of A atoms).
  Notation den := (den A r0 r1 radd rmul ropp invmass atoms).

  (* the object graph the API builds, written down independently *)
  Fixpoint elab_spec (e : uexp A) : bop A :=
    match e with
    | UAtom i => Atom i
    | UAdd a b => New SumBlockedOperator (elab_spec a) (elab_spec b) r0
    | USub a b => New SumBlockedOperator (elab_spec a)
                      (New ScaledBlockedOperator (elab_spec b) (elab_spec b) (ropp r1)) r0
    | UNeg a => New ScaledBlockedOperator (elab_spec a) (elab_spec a) (ropp r1)
    | UScalL alpha a | UScalR a alpha => New ScaledBlockedOperator (elab_spec a) (elab_spec a) alpha
    | UMul a b | UMatmul a b => New ProductBlockedOperator (elab_spec a) (elab_spec b) r0
    end.

  Lemma elab_ok : forall e, elab e = Ok (elab_spec e).
  Proof.
    induction e; cbn [OpLang.elab elab_spec]; rewrite ?IHe, ?IHe1, ?IHe2; reflexivity.
  Qed.

  Definition dims_ok (t : nat * nat * nat) (m : M) : Prop :=
    rows m = dim (pick3 Dual t) /\ cols m = dim (pick3 Dom t).

  (* invariant: a well-typed expression denotes, with the right spaces and dimensions;
     an ill-typed one raises ValueError *)
  Definition inv (e : uexp A) : Prop :=
    match type_of e with
    | Some t => spaces (elab_spec e) = t /\
                exists m, weak (elab_spec e) = Ok (VM m) /\ meq m (den e) /\ dims_ok t m
    | None => weak (elab_spec e) = Err ValueError
    end.

  Lemma eqb3 : forall a b c a' b' c',
    (Nat.eqb a a' && Nat.eqb b b' && Nat.eqb c c' = true) -> a = a' /\ b = b' /\ c = c'.
  Proof.
    intros. apply andb_prop in H. destruct H as [H H3]. apply andb_prop in H. destruct H as [H1 H2].
    repeat split; now apply Nat.eqb_eq.
  Qed.

  Ltac dims := unfold same_shape, dims_ok in *; cbn in *;
    repeat match goal with H : _ /\ _ |- _ => destruct H end; repeat split; congruence.

  Lemma inv_all : forall e, inv e.
  Proof.
    induction e; unfold inv in *; cbn [OpLang.type_of elab_spec].
    - (* atom *)
      split; [reflexivity|]. eexists. split; [reflexivity|]. split; [reflexivity|]. apply atoms_dims.
    - (* a + b *)
      destruct (type_of e1) as [[[d1 q1] u1]|]; [|cbn [OpLang.weak]; rewrite IHe1; reflexivity].
      destruct IHe1 as (S1 & m1 & W1 & E1 & D1).
      destruct (type_of e2) as [[[d2 q2] u2]|]; [|cbn [OpLang.weak]; rewrite W1, IHe2; reflexivity].
      destruct IHe2 as (S2 & m2 & W2 & E2 & D2).
      cbn [OpLang.weak OpLang.spaces]. rewrite W1, W2, S1, S2. cbn.
      destruct (Nat.eqb d1 d2) eqn:Hd; [|reflexivity].
      destruct (Nat.eqb q1 q2) eqn:Hq; [|reflexivity].
      destruct (Nat.eqb u1 u2) eqn:Hu; [|reflexivity]. cbn.
      apply Nat.eqb_eq in Hd, Hq, Hu. subst.
      split; [reflexivity|]. eexists. split; [reflexivity|]. split.
      + apply madd_compat; try assumption. dims.
      + dims.
    - (* a - b *)
      destruct (type_of e1) as [[[d1 q1] u1]|]; [|cbn [OpLang.weak]; rewrite IHe1; reflexivity].
      destruct IHe1 as (S1 & m1 & W1 & E1 & D1).
      destruct (type_of e2) as [[[d2 q2] u2]|]; [|cbn [OpLang.weak]; rewrite W1, IHe2; reflexivity].
      destruct IHe2 as (S2 & m2 & W2 & E2 & D2).
      cbn [OpLang.weak OpLang.spaces]. rewrite W1, W2, S1, S2. cbn.
      destruct (Nat.eqb d1 d2) eqn:Hd; [|reflexivity].
      destruct (Nat.eqb q1 q2) eqn:Hq; [|reflexivity].
      destruct (Nat.eqb u1 u2) eqn:Hu; [|reflexivity]. cbn.
      apply Nat.eqb_eq in Hd, Hq, Hu. subst.
      split; [reflexivity|]. eexists. split; [reflexivity|]. split.
      + apply madd_compat; try assumption.
        * now apply mscale_compat.
        * dims.
      + dims.
    - (* - a *)
      destruct (type_of e) as [[[d1 q1] u1]|]; [|cbn [OpLang.weak]; rewrite IHe; reflexivity].
      destruct IHe as (S1 & m1 & W1 & E1 & D1).
      cbn [OpLang.weak OpLang.spaces]. rewrite W1, S1. cbn.
      split; [reflexivity|]. eexists. split; [reflexivity|]. split.
      + now apply mscale_compat.
      + dims.
    - (* alpha * a *)
      destruct (type_of e) as [[[d1 q1] u1]|]; [|cbn [OpLang.weak]; rewrite IHe; reflexivity].
      destruct IHe as (S1 & m1 & W1 & E1 & D1).
      cbn [OpLang.weak OpLang.spaces]. rewrite W1, S1. cbn.
      split; [reflexivity|]. eexists. split; [reflexivity|]. split.
      + now apply mscale_compat.
      + dims.
    - (* a * alpha *)
      destruct (type_of e) as [[[d1 q1] u1]|]; [|cbn [OpLang.weak]; rewrite IHe; reflexivity].
      destruct IHe as (S1 & m1 & W1 & E1 & D1).
      cbn [OpLang.weak OpLang.spaces]. rewrite W1, S1. cbn.
      split; [reflexivity|]. eexists. split; [reflexivity|]. split.
      + now apply mscale_compat.
      + dims.
    - (* a * b *)
      destruct (type_of e1) as [[[d1 q1] u1]|]; [|cbn [OpLang.weak]; rewrite IHe1; reflexivity].
      destruct IHe1 as (S1 & m1 & W1 & E1 & D1).
      destruct (type_of e2) as [[[d2 q2] u2]|] eqn:T2; [|cbn [OpLang.weak]; rewrite W1, IHe2; reflexivity].
      destruct IHe2 as (S2 & m2 & W2 & E2 & D2).
      cbn [OpLang.weak OpLang.spaces]. rewrite W1, W2, S1, S2. cbn.
      destruct (Nat.eqb q2 d1) eqn:Hq; [|reflexivity]. cbn.
      apply Nat.eqb_eq in Hq. subst.
      split; [reflexivity|]. eexists. split; [reflexivity|].
      destruct (invmass_dims d1 u2) as [I1 I2]. split.
      + cbn [OpLang.den]. rewrite T2. apply mmul_compat; try assumption.
        * apply mmul_compat; [reflexivity|assumption|]. dims.
        * dims.
      + dims.
    - (* a @ b *)
      destruct (type_of e1) as [[[d1 q1] u1]|]; [|cbn [OpLang.weak]; rewrite IHe1; reflexivity].
      destruct IHe1 as (S1 & m1 & W1 & E1 & D1).
      destruct (type_of e2) as [[[d2 q2] u2]|] eqn:T2; [|cbn [OpLang.weak]; rewrite W1, IHe2; reflexivity].
      destruct IHe2 as (S2 & m2 & W2 & E2 & D2).
      cbn [OpLang.weak OpLang.spaces]. rewrite W1, W2, S1, S2. cbn.
      destruct (Nat.eqb q2 d1) eqn:Hq; [|reflexivity]. cbn.
      apply Nat.eqb_eq in Hq. subst.
      split; [reflexivity|]. eexists. split; [reflexivity|].
      destruct (invmass_dims d1 u2) as [I1 I2]. split.
      + cbn [OpLang.den]. rewrite T2. apply mmul_compat; try assumption.
        * apply mmul_compat; [reflexivity|assumption|]. dims.
        * dims.
      + dims.
  Qed.

  Notation strong := (strong A r0 r1 radd rmul ropp rinv invmass mass atoms (bd_strong BBD)).
  Notation apply_op := (apply_op A r0 r1 radd rmul ropp rinv invmass mass atoms (bd_strong BBD) BBD).
  Notation coefficients := (coefficients A r0 radd rmul invmass).

  (* sums, differences, negations, scalar multiples and products denote the matrix expressions
     (product = W1 * (M^-1 * W2), M the mass matrix between op2.range and op2.dual_to_range),
     in the spaces the typing rules predict *)
  Theorem denotation : forall e t, type_of e = Some t ->
    exists m, uweak e = Ok (VM m) /\ meq m (den e) /\ uspaces e = Ok t /\ dims_ok t m.
  Proof.
    intros e t T. assert (I := inv_all e). unfold inv in I. rewrite T in I.
    destruct I as (S & m & W & E & D). exists m. unfold OpLang.uweak, OpLang.uspaces. rewrite elab_ok. cbn [bind].
    rewrite W, S. auto.
  Qed.

  (* the guards raise ValueError exactly on incompatible spaces, and nothing else is ever raised *)
  Theorem typing_sound_complete : forall e,
    (type_of e = None <-> uweak e = Err ValueError) /\
    (type_of e <> None <-> exists m, uweak e = Ok (VM m)).
  Proof.
    intro e. assert (I := inv_all e). unfold inv in I. unfold OpLang.uweak. rewrite elab_ok. cbn [bind].
    destruct (type_of e) as [t|].
    - destruct I as (S & m & W & E & D). rewrite W. split; split; intro H; try discriminate; eauto.
    - rewrite I. split; split; intro H; try reflexivity; try congruence. destruct H; discriminate.
  Qed.

  Theorem strong_form : forall e d q u, type_of e = Some (d, q, u) ->
    exists m, bind (elab e) strong = Ok (VM m) /\ meq m (mmul (invmass q u) (den e)).
  Proof.
    intros e d q u T. assert (I := inv_all e). unfold inv in I. rewrite T in I.
    destruct I as (S & m & W & E & D). rewrite elab_ok. cbn [bind]. unfold OpLang.strong, strong_of. rewrite S, W.
    cbn. eexists. split; [reflexivity|]. destruct (invmass_dims q u). apply mmul_compat; [reflexivity|assumption|]. dims.
  Qed.

  (* blocked operator times a list of grid functions (packed coefficient vector c): there is no space test; the result is
     labelled with the range / dual_to_range lists and carries the projections W * c *)
  Theorem apply_function : forall e d q u f, type_of e = Some (d, q, u) ->
    exists p, bind (elab e) (fun o => apply_op o f) = Ok {| g_space := q; g_dual := u; g_rep := DualRep p |} /\
              (rows (coefficients f) = dim d -> meq p (mmul (den e) (coefficients f))).
  Proof.
    intros e d q u f T. assert (I := inv_all e). unfold inv in I. rewrite T in I.
    destruct I as (S & m & W & E & D). rewrite elab_ok. cbn [bind]. unfold OpLang.apply_op. rewrite W, S. cbn.
    eexists. split; [reflexivity|]. intro R. apply mmul_compat; [assumption|reflexivity|]. dims.
  Qed.
End Blocked.
