(* C14 -- BlockedDiscreteOperator: blocks (None = ZeroDiscreteBoundaryOperator of the row/column size), to_dense as the
   assembled block matrix and _matvec/_matmat as sums of block products over slices; they agree. *)
From Coq Require Import List Arith Bool Lia Ring.
From BV Require Import Algebra.Mat.
Import ListNotations.

Section Block.
  Variable A : Type.
  Variables (r0 r1 : A) (radd rmul rsub : A -> A -> A) (ropp : A -> A).
  Hypothesis Rth : ring_theory r0 r1 radd rmul rsub ropp (@eq A).
  Add Ring Rr9 : Rth.
  Notation M := (M A).
  Notation sumn := (sumn A r0 radd).

  Fixpoint off (d : nat -> nat) (k : nat) : nat := match k with O => O | S k' => off d k' + d k' end.
  (* block index and local index of a global index among the first n blocks *)
  Fixpoint locate (d : nat -> nat) (n i : nat) : nat * nat :=
    match n with
    | O => (O, i)
    | S n' => if Nat.ltb i (off d n') then locate d n' i else (n', i - off d n')
    end.

  Lemma off_mono : forall d q n, (q <= n)%nat -> (off d q <= off d n)%nat.
  Proof. induction n; intro H; [now replace q with O by lia|]. destruct (Nat.eq_dec q (S n)); [subst; lia|]. simpl. specialize (IHn ltac:(lia)). lia. Qed.

  Lemma locate_off : forall d n q l, (q < n)%nat -> (l < d q)%nat -> locate d n (off d q + l) = (q, l).
  Proof.
    induction n; intros q l Hq Hl; [lia|]. simpl. destruct (Nat.eq_dec q n) as [->|N].
    - destruct (Nat.ltb_spec (off d n + l) (off d n)); [lia|]. f_equal. lia.
    - assert (off d (S q) <= off d n)%nat by (apply off_mono; lia). simpl in H.
      destruct (Nat.ltb_spec (off d q + l) (off d n)); [|lia]. apply IHn; lia.
  Qed.

  Lemma sumn_app : forall a b f, sumn (a + b) f = radd (sumn a f) (sumn b (fun l => f (a + l)%nat)).
  Proof.
    induction b; intro f; simpl.
    - rewrite Nat.add_0_r. ring.
    - replace (a + S b)%nat with (S (a + b)) by lia. simpl. rewrite IHb. ring.
  Qed.

  Lemma sum_blocks : forall d n f,
    sumn (off d n) f = sumn n (fun q => sumn (d q) (fun l => f (off d q + l)%nat)).
  Proof. induction n; intro f; simpl; [reflexivity|]. rewrite sumn_app, IHn. reflexivity. Qed.

  Variables (nr nc : nat) (rd cd : nat -> nat).
  Variable blk : nat -> nat -> option M.          (* None: the block is missing and acts as a zero operator *)
  Definition bent (p q li lj : nat) : A := match blk p q with Some m => ent m li lj | None => r0 end.

  Definition block_dense : M :=
    mk (off rd nr) (off cd nc)
       (fun i j => let '(p, li) := locate rd nr i in let '(q, lj) := locate cd nc j in bent p q li lj).

  (* res[rows of block row p] += B_pq . x[rows of block column q]   for all q *)
  Definition block_matmat (x : M) : M :=
    mk (off rd nr) (cols x)
       (fun i c => let '(p, li) := locate rd nr i in
                   sumn nc (fun q => sumn (cd q) (fun l => rmul (bent p q li l) (ent x (off cd q + l)%nat c)))).

  Theorem block_matmat_dense : forall x, meq A (mmul A r0 radd rmul block_dense x) (block_matmat x).
  Proof.
    intro x. split; [reflexivity|]. split; [reflexivity|]. intros i c _ _. simpl.
    rewrite sum_blocks. destruct (locate rd nr i) as [p li]. apply sumn_ext. intros q Hq. apply sumn_ext. intros l Hl.
    now rewrite locate_off.
  Qed.

  (* the (p, q) region of the dense matrix is the block, or zeros where the block is missing *)
  Theorem block_dense_region : forall p q li lj, (p < nr)%nat -> (q < nc)%nat -> (li < rd p)%nat -> (lj < cd q)%nat ->
    ent block_dense (off rd p + li) (off cd q + lj) = match blk p q with Some m => ent m li lj | None => r0 end.
  Proof. intros. simpl. now rewrite !locate_off. Qed.

  (* block-diagonal operators (BlockedOperatorBase.strong_form: `_range_ops[index, index] = get_inverse_mass_matrix(...)`):
     row block p of (blockdiag D) * x is D_p times row block p of x *)
  Lemma sumn_single : forall n p (f : nat -> A), (p < n)%nat -> (forall q, (q < n)%nat -> q <> p -> f q = r0) -> sumn n f = f p.
  Proof.
    induction n; intros p f Hp Hz; [lia|]. simpl. destruct (Nat.eq_dec p n) as [->|N].
    - rewrite (sumn_ext A r0 radd n f (fun _ => r0)) by (intros; apply Hz; lia). rewrite (sumn_zero A r0 r1 radd rmul rsub ropp Rth). ring.
    - rewrite (IHn p f) by (try lia; intros; apply Hz; lia). rewrite (Hz n) by lia. ring.
  Qed.

  Theorem block_diagonal_rows : forall (D : nat -> M) (x : M) p li c,
    (forall a b, blk a b = if Nat.eqb a b then Some (D a) else None) ->
    (p < nr)%nat -> (p < nc)%nat -> (li < rd p)%nat -> (c < cols x)%nat ->
    ent (mmul A r0 radd rmul block_dense x) (off rd p + li) c =
    sumn (cd p) (fun l => rmul (ent (D p) li l) (ent x (off cd p + l)%nat c)).
  Proof.
    intros D x p li c HD Hp Hq Hl Hc.
    destruct (block_matmat_dense x) as (_ & _ & E). rewrite E; [|simpl|simpl].
    - simpl. rewrite locate_off by assumption. rewrite (sumn_single nc p).
      + apply sumn_ext. intros l _. unfold bent. now rewrite HD, Nat.eqb_refl.
      + assumption.
      + intros q _ N. unfold bent. rewrite HD. destruct (Nat.eqb_spec p q); [congruence|].
        rewrite (sumn_ext A r0 radd _ _ (fun _ => r0)) by (intros; ring). apply (sumn_zero A r0 r1 radd rmul rsub ropp Rth).
    - assert (off rd (S p) <= off rd nr)%nat by (apply off_mono; lia). simpl in H. lia.
    - simpl. assumption.
  Qed.
End Block.
