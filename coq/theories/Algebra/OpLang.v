(* C14/C15 -- deep embedding of the operator / grid-function / potential algebra of bempp-cl.
   This file contains the languages and their interpreters only (no proofs): the *terms* (guards, bodies, dunder
   dispatch, property paths, slice recipes) describing the current source are regenerated on every run into
   gen/OpClasses.v by translators/opclasses.py; theorems (Algebra/OpProofs.v, ...) are stated over those.

   Space objects are natural-number ids: two spaces have the same id iff `space1 == space2` in the library
   (Space.__eq__ = check_if_compatible: same object id or equal hash of the compatible representations). *)
From Coq Require Import List Arith Bool String.
From BV Require Import Algebra.Mat.
Import ListNotations.
Open Scope string_scope.

Inductive exn := ValueError | AttributeError | TypeError | NotImplementedReturned.
Inductive res (T : Type) := Ok (t : T) | Err (e : exn).
Arguments Ok {T}. Arguments Err {T}.
Definition bind {T U} (r : res T) (f : T -> res U) : res U := match r with Ok t => f t | Err e => Err e end.

Inductive side := SL | SR | SSelf.               (* first ctor argument (op / op1) | second (op2 / other) | self *)
Inductive spk := Dom | Ran | Dual | Space | DualSp.

(* boolean expressions deciding `raise ValueError` *)
Inductive gexp :=
| GCompat (a : side) (ka : spk) (b : side) (kb : spk)      (* a.ka.is_compatible(b.kb)  /  a.ka == b.kb *)
| GEqProp (a : side) (b : side) (p : string)               (* a.p == b.p  for a python-level property (component_count) *)
| GSamePoints (a : side) (b : side) (p : string)           (* norm(a.p - b.p, inf) == 0 *)
| GCall (recv : side) (meth : string) (arg : side)         (* recv.meth(arg), resolved against the class *)
| GRepDual (a : side)                                      (* a.representation == "dual" *)
| GNot (g : gexp) | GOr (g h : gexp) | GAnd (g h : gexp) | GTrue | GFalse.

(* bodies of _assemble / evaluate / strong_form / coefficient and projection expressions *)
Inductive tm :=
| TWeak (s : side)                 (* s.weak_form() *)
| TStrong (s : side)               (* s.strong_form() *)
| TInvMass (a b : spk)             (* get_inverse_mass_matrix(self.a, self.b) *)
| TMass (a b : spk)
| TCoef (s : side)                 (* s.coefficients *)
| TProj (s : side)                 (* s.projections() / s._projections *)
| TEval (s : side)                 (* s.evaluate(grid_fun) *)
| TAlpha                           (* self._alpha, or the scalar operand *)
| TMinusOne                        (* the literal -1.0 / -1 *)
| TInvAlpha                        (* 1.0 / alpha *)
| TAdd (a b : tm) | TMul (a b : tm).

(* ---- boundary operator classes ---- *)
Record bclass := { b_name : string; b_guard : gexp; b_dom : side * spk; b_ran : side * spk; b_dual : side * spk;
                   b_body : tm }.

(* what a dunder method returns *)
Inductive dexp :=
| DSelf | DOther
| DMinusOne
| DInv (a : dexp)                               (* 1.0 / a *)
| DNew (c : string) (a b : dexp)                (* _SumBoundaryOperator(a, b) / _ScaledBoundaryOperator(a, alpha=b) *)
| DApply                                        (* the GridFunction branch: described by the bd_apply_* fields *)
| DAdd (a b : dexp)                             (* a.__add__(b) *)
| DMul (a b : dexp)                             (* a.__mul__(b) *)
| DNeg (a : dexp)                               (* -a *)
| DNotImplemented                               (* return NotImplemented *)
| DReturnClassNotImplementedError.              (* return NotImplementedError  (a class object, not an operator) *)

Inductive operand := OScalar | OOperator | OFunction | OList | OOther.
Definition dispatch := list (operand * dexp).

Record bdunders := { bd_add : dexp; bd_neg : dexp; bd_sub : dexp; bd_mul : dispatch; bd_rmul : dispatch;
                     bd_matmul : dexp;
                     bd_strong : tm;                        (* body of strong_form *)
                     bd_apply_guard : gexp;                 (* __mul__ with a GridFunction: raise ValueError if *)
                     bd_apply_space : spk; bd_apply_dual : spk; bd_apply_proj : tm }.

Section Sem.
  Variable A : Type.
  Variables (r0 r1 : A) (radd rmul rsub : A -> A -> A) (ropp : A -> A).
  Variable rinv : A -> A.                         (* 1.0 / alpha (only used by GridFunction.__truediv__) *)
  Notation M := (M A).
  Notation mmul := (mmul A r0 radd rmul).
  Notation madd := (madd A radd).
  Notation mscale := (mscale A rmul).

  Variable invmass : nat -> nat -> M.             (* (space, dual) -> get_inverse_mass_matrix(space, dual) *)
  Variable mass : nat -> nat -> M.                (* (space, dual) -> get_mass_matrix(space, dual) *)
  Variable atoms : nat -> (nat * nat * nat) * M.  (* assembled operators: (domain, range, dual) and weak form *)

  Inductive val := VS (a : A) | VM (m : M).
  Definition vadd (x y : val) : res val :=
    match x, y with
    | VM a, VM b => Ok (VM (madd a b))
    | VS a, VS b => Ok (VS (radd a b))
    | _, _ => Err TypeError
    end.
  Definition vmul (x y : val) : res val :=
    match x, y with
    | VM a, VM b => Ok (VM (mmul a b))
    | VS a, VM b => Ok (VM (mscale a b))
    | VM a, VS b => Ok (VM (mscale b a))
    | VS a, VS b => Ok (VS (rmul a b))
    end.
  Definition as_mat (v : val) : res M := match v with VM m => Ok m | VS _ => Err TypeError end.

  (* ---------------- boundary operators ---------------- *)
  Inductive bop :=
  | Atom (i : nat)
  | New (c : bclass) (l r : bop) (alpha : A).       (* r is a copy of l for one-operand classes; alpha unused for two-operand ones *)

  Definition pick3 (k : spk) (s : nat * nat * nat) : nat :=
    let '(d, r, u) := s in match k with Dom => d | Ran => r | Dual => u | Space => d | DualSp => u end.

  Fixpoint spaces (o : bop) : nat * nat * nat :=
    match o with
    | Atom i => fst (atoms i)
    | New c l r _ =>
        let sl := spaces l in let sr := spaces r in
        let get (p : side * spk) := pick3 (snd p) (match fst p with SR => sr | _ => sl end) in
        (get (b_dom c), get (b_ran c), get (b_dual c))
    end.

  (* guards over two operands with (domain, range, dual) triples *)
  Fixpoint guard3 (g : gexp) (sl sr : nat * nat * nat) : res bool :=
    match g with
    | GCompat a ka b kb =>
        let s x := match x with SR => sr | _ => sl end in
        Ok (Nat.eqb (pick3 ka (s a)) (pick3 kb (s b)))
    | GNot g => bind (guard3 g sl sr) (fun b => Ok (negb b))
    | GOr g h => bind (guard3 g sl sr) (fun b => if b then Ok true else guard3 h sl sr)
    | GAnd g h => bind (guard3 g sl sr) (fun b => if b then guard3 h sl sr else Ok false)
    | GTrue => Ok true
    | GFalse => Ok false
    | _ => Err AttributeError
    end.

  (* term interpretation; the environment gives the meaning of the leaves *)
  Record env := { e_weak : side -> res val; e_strong : side -> res val; e_coef : side -> res val;
                  e_proj : side -> res val; e_eval : side -> res val; e_alpha : A;
                  e_self_spaces : nat * nat * nat }.
  Fixpoint interp (e : env) (t : tm) : res val :=
    match t with
    | TWeak s => e_weak e s
    | TStrong s => e_strong e s
    | TInvMass a b => Ok (VM (invmass (pick3 a (e_self_spaces e)) (pick3 b (e_self_spaces e))))
    | TMass a b => Ok (VM (mass (pick3 a (e_self_spaces e)) (pick3 b (e_self_spaces e))))
    | TCoef s => e_coef e s
    | TProj s => e_proj e s
    | TEval s => e_eval e s
    | TAlpha => Ok (VS (e_alpha e))
    | TMinusOne => Ok (VS (ropp r1))
    | TInvAlpha => Ok (VS (rinv (e_alpha e)))
    | TAdd a b => bind (interp e a) (fun x => bind (interp e b) (fun y => vadd x y))
    | TMul a b => bind (interp e a) (fun x => bind (interp e b) (fun y => vmul x y))
    end.

  Definition no_leaf : side -> res val := fun _ => Err AttributeError.

  Variable strong_body : tm.                       (* BoundaryOperator.strong_form, from the source *)

  Definition strong_of (sp3 : nat * nat * nat) (w : res val) : res val :=
    interp {| e_weak := fun s => match s with SSelf => w | _ => Err AttributeError end; e_strong := no_leaf;
              e_coef := no_leaf; e_proj := no_leaf; e_eval := no_leaf; e_alpha := r0; e_self_spaces := sp3 |}
           strong_body.

  Fixpoint weak (o : bop) : res val :=
    match o with
    | Atom i => Ok (VM (snd (atoms i)))
    | New c l r alpha =>
        let wl := weak l in let wr := weak r in
        bind wl (fun _ => bind wr (fun _ =>          (* operands are constructed (and their guards run) first *)
        bind (guard3 (b_guard c) (spaces l) (spaces r)) (fun raise =>
        if raise then Err ValueError else
        interp {| e_weak := fun s => match s with SL => wl | SR => wr | SSelf => Err AttributeError end;
                  e_strong := fun s => match s with SL => strong_of (spaces l) wl | SR => strong_of (spaces r) wr
                                                | SSelf => Err AttributeError end;
                  e_coef := no_leaf; e_proj := no_leaf; e_eval := no_leaf; e_alpha := alpha;
                  e_self_spaces := spaces o |} (b_body c))))
    end.

  Definition strong (o : bop) : res val := strong_of (spaces o) (weak o).

  (* ---------------- user-level expressions and their elaboration through the dunder methods ---------------- *)
  Inductive uexp :=
  | UAtom (i : nat)
  | UAdd (a b : uexp) | USub (a b : uexp) | UNeg (a : uexp)
  | UScalL (alpha : A) (a : uexp)            (* alpha * a *)
  | UScalR (a : uexp) (alpha : A)            (* a * alpha *)
  | UMul (a b : uexp) | UMatmul (a b : uexp).

  Variable D : bdunders.
  Variable classes : list bclass.
  Definition find_class (n : string) : option bclass := find (fun c => String.eqb (b_name c) n) classes.

  Inductive dval := DVop (o : bop) | DVscalar (a : A).
  Definition lookup_disp (k : operand) (d : dispatch) : dexp :=
    match find (fun p => match fst p, k with
                         | OScalar, OScalar | OOperator, OOperator | OFunction, OFunction | OList, OList
                         | OOther, OOther => true | _, _ => false end) d with
    | Some p => snd p
    | None => DNotImplemented
    end.
  Definition kind_of (v : dval) : operand := match v with DVop _ => OOperator | DVscalar _ => OScalar end.

  (* evaluation of a dunder body with self/other bound; fuel bounds the chain of dunder-to-dunder calls *)
  Fixpoint deval (fuel : nat) (d : dexp) (self other : dval) : res dval :=
    match fuel with
    | O => Err TypeError
    | S f =>
      match d with
      | DSelf => Ok self
      | DOther => Ok other
      | DMinusOne => Ok (DVscalar (ropp r1))
      | DInv a => bind (deval f a self other) (fun x => match x with DVscalar s => Ok (DVscalar (rinv s)) | _ => Err TypeError end)
      | DNew n a b =>
          bind (deval f a self other) (fun x => bind (deval f b self other) (fun y =>
          match find_class n, x, y with
          | Some c, DVop l, DVop r => Ok (DVop (New c l r r0))
          | Some c, DVop l, DVscalar s => Ok (DVop (New c l l s))
          | _, _, _ => Err AttributeError
          end))
      | DApply => Err TypeError
      | DAdd a b => bind (deval f a self other) (fun x => bind (deval f b self other) (fun y =>
                    match x with DVop _ => deval f (bd_add D) x y | _ => Err TypeError end))
      | DMul a b => bind (deval f a self other) (fun x => bind (deval f b self other) (fun y =>
                    match x with DVop _ => deval f (lookup_disp (kind_of y) (bd_mul D)) x y | _ => Err TypeError end))
      | DNeg a => bind (deval f a self other) (fun x =>
                    match x with DVop _ => deval f (bd_neg D) x x | DVscalar s => Ok (DVscalar (ropp s)) end)
      | DNotImplemented => Err TypeError               (* both operands decline: python raises TypeError *)
      | DReturnClassNotImplementedError => Err NotImplementedReturned
      end
    end.

  Definition fuel0 := 8%nat.
  Fixpoint elab (e : uexp) : res bop :=
    let as_op (r : res dval) : res bop :=
      bind r (fun v => match v with DVop o => Ok o | _ => Err TypeError end) in
    match e with
    | UAtom i => Ok (Atom i)
    | UAdd a b => bind (elab a) (fun x => bind (elab b) (fun y => as_op (deval fuel0 (bd_add D) (DVop x) (DVop y))))
    | USub a b => bind (elab a) (fun x => bind (elab b) (fun y => as_op (deval fuel0 (bd_sub D) (DVop x) (DVop y))))
    | UNeg a => bind (elab a) (fun x => as_op (deval fuel0 (bd_neg D) (DVop x) (DVop x)))
    | UScalL alpha a => bind (elab a) (fun x =>
                          as_op (deval fuel0 (lookup_disp OScalar (bd_rmul D)) (DVop x) (DVscalar alpha)))
    | UScalR a alpha => bind (elab a) (fun x =>
                          as_op (deval fuel0 (lookup_disp OScalar (bd_mul D)) (DVop x) (DVscalar alpha)))
    | UMul a b => bind (elab a) (fun x => bind (elab b) (fun y =>
                          as_op (deval fuel0 (lookup_disp OOperator (bd_mul D)) (DVop x) (DVop y))))
    | UMatmul a b => bind (elab a) (fun x => bind (elab b) (fun y => as_op (deval fuel0 (bd_matmul D) (DVop x) (DVop y))))
    end.

  (* the weak form of a user expression: Err ValueError when some constructor rejects its operands *)
  Definition uweak (e : uexp) : res val := bind (elab e) weak.
  Definition uspaces (e : uexp) : res (nat * nat * nat) := bind (elab e) (fun o => bind (weak o) (fun _ => Ok (spaces o))).

  (* ---------------- specification: typing and denotation, written independently of the source ---------------- *)
  Fixpoint type_of (e : uexp) : option (nat * nat * nat) :=
    match e with
    | UAtom i => Some (fst (atoms i))
    | UAdd a b | USub a b =>
        match type_of a, type_of b with
        | Some (d1, r1', u1), Some (d2, r2, u2) =>
            if Nat.eqb d1 d2 && Nat.eqb r1' r2 && Nat.eqb u1 u2 then Some (d1, r1', u1) else None
        | _, _ => None
        end
    | UNeg a | UScalL _ a | UScalR a _ => type_of a
    | UMul a b | UMatmul a b =>
        match type_of a, type_of b with
        | Some (d1, r1', u1), Some (d2, r2, u2) => if Nat.eqb r2 d1 then Some (d2, r1', u1) else None
        | _, _ => None
        end
    end.

  Fixpoint den (e : uexp) : M :=
    match e with
    | UAtom i => snd (atoms i)
    | UAdd a b => madd (den a) (den b)
    | USub a b => madd (den a) (mscale (ropp r1) (den b))
    | UNeg a => mscale (ropp r1) (den a)
    | UScalL alpha a | UScalR a alpha => mscale alpha (den a)
    | UMul a b | UMatmul a b =>
        match type_of b with
        | Some (_, rb, ub) => mmul (den a) (mmul (invmass rb ub) (den b))
        | None => den a
        end
    end.

  (* ---------------- grid functions ---------------- *)
  Inductive rep := Primal (c : M) | DualRep (p : M).
  Record gfun := { g_space : nat; g_dual : nat; g_rep : rep }.

  Definition coefficients (f : gfun) : M :=
    match g_rep f with Primal c => c | DualRep p => mmul (invmass (g_space f) (g_dual f)) p end.
  Definition projections (f : gfun) : M :=
    match g_rep f with DualRep p => p | Primal c => mmul (mass (g_space f) (g_dual f)) c end.
  Definition is_dual (f : gfun) : bool := match g_rep f with DualRep _ => true | _ => false end.

  (* A * f  (BoundaryOperator.__mul__ with a GridFunction), from the translated guard and recipe *)
  Definition apply_op (o : bop) (f : gfun) : res gfun :=
    bind (weak o) (fun w =>
    let so := spaces o in
    let sf := (g_space f, g_space f, g_dual f) in
    bind (guard3 (bd_apply_guard D) so sf) (fun raise =>
    if raise then Err ValueError else
    bind (interp {| e_weak := fun s => match s with SSelf | SL => Ok w | SR => Err AttributeError end;
                    e_strong := no_leaf;
                    e_coef := fun s => match s with SR => Ok (VM (coefficients f)) | _ => Err AttributeError end;
                    e_proj := fun s => match s with SR => Ok (VM (projections f)) | _ => Err AttributeError end;
                    e_eval := no_leaf; e_alpha := r0; e_self_spaces := so |} (bd_apply_proj D)) (fun v =>
    bind (as_mat v) (fun p =>
    Ok {| g_space := pick3 (bd_apply_space D) so; g_dual := pick3 (bd_apply_dual D) so; g_rep := DualRep p |})))).
End Sem.

Arguments Atom {A}. Arguments New {A}. Arguments VS {A}. Arguments VM {A}.
Arguments UAtom {A}. Arguments UAdd {A}. Arguments USub {A}. Arguments UNeg {A}. Arguments UScalL {A}.
Arguments UScalR {A}. Arguments UMul {A}. Arguments UMatmul {A}.
Arguments Primal {A}. Arguments DualRep {A}. Arguments g_space {A}. Arguments g_dual {A}. Arguments g_rep {A}.
