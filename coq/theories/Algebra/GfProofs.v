(* C14 -- GridFunction arithmetic of the current source (BVgen.OpClasses.GF): for every expression built with
   + - unary- scalar* (either side) and / over grid functions in coefficient or projection representation with any
   dual spaces: rejected with ValueError iff the spaces differ, otherwise the result lives in the common space and its
   coefficients are the vector expression of the operands' coefficients. *)
From Coq Require Import List Arith Bool String Lia Ring Setoid.
From BV Require Import Algebra.Mat Algebra.OpLang Algebra.GfLang.
From BVgen Require Import OpClasses.
Import ListNotations.

Section Gf.
  Variable A : Type.
  Variables (r0 r1 : A) (radd rmul rsub : A -> A -> A) (ropp : A -> A).
  Hypothesis Rth : ring_theory r0 r1 radd rmul rsub ropp (@eq A).
  Add Ring Rr7 : Rth.
  Variable rinv : A -> A.
  Notation M := (M A).
  Notation mmul := (mmul A r0 radd rmul).
  Notation madd := (madd A radd).
  Notation mscale := (mscale A rmul).
  Notation meq := (meq A).
  Variable dim : nat -> nat.
  Variable ncol : nat.                               (* number of columns of every coefficient / projection array *)
  Variable invmass : nat -> nat -> M.
  Variable mass : nat -> nat -> M.
  Hypothesis invmass_dims : forall r d, rows (invmass r d) = dim r /\ cols (invmass r d) = dim d.

  Notation gfun := (gfun A).
  Notation coefficients := (coefficients A r0 radd rmul invmass).
  Notation projections := (projections A r0 radd rmul mass).
  Notation add_rule := (add_rule A r0 r1 radd rmul ropp rinv invmass mass GF).
  Notation mul_rule := (mul_rule A r0 r1 radd rmul ropp rinv invmass mass GF).
  Notation gfeval := (gfeval A r0 r1 radd rmul ropp rinv invmass mass GF).
  Notation gdeval := (gdeval A r0 r1 radd rmul ropp rinv invmass mass GF).
  Notation gcoef := (gcoef A r0 r1 radd rmul ropp rinv invmass).
  Notation gtype := (gtype A).

  Definition wf (g : gfun) : Prop :=
    match g_rep g with
    | Primal c => rows c = dim (g_space g) /\ cols c = ncol
    | DualRep p => rows p = dim (g_dual g) /\ cols p = ncol
    end.

  Lemma coef_dims : forall g, wf g -> rows (coefficients g) = dim (g_space g) /\ cols (coefficients g) = ncol.
  Proof.
    intros g W. unfold wf in W. unfold OpLang.coefficients. destruct (g_rep g); [assumption|].
    destruct W. destruct (invmass_dims (g_space g) (g_dual g)). cbn. split; congruence.
  Qed.

  (* ---- the rules of the current source, unfolded ---- *)
  Lemma add_rule_eq : forall x y,
    add_rule x y =
    if negb (Nat.eqb (g_space x) (g_space y)) then Err ValueError
    else if is_dual A x && is_dual A y && Nat.eqb (g_dual x) (g_dual y)
         then Ok {| g_space := g_space x; g_dual := g_dual x;
                    g_rep := DualRep (madd (projections x) (projections y)) |}
         else Ok {| g_space := g_space x; g_dual := g_space x;
                    g_rep := Primal (madd (coefficients x) (coefficients y)) |}.
  Proof.
    intros x y. unfold GfLang.add_rule. cbn.
    destruct (Nat.eqb (g_space x) (g_space y)); cbn; [|reflexivity].
    destruct (is_dual A x); cbn; [|reflexivity]. destruct (is_dual A y); cbn; [|reflexivity].
    destruct (Nat.eqb (g_dual x) (g_dual y)); reflexivity.
  Qed.

  Lemma mul_rule_eq : forall x alpha,
    mul_rule x alpha =
    if is_dual A x
    then Ok {| g_space := g_space x; g_dual := g_dual x; g_rep := DualRep (mscale alpha (projections x)) |}
    else Ok {| g_space := g_space x; g_dual := g_space x; g_rep := Primal (mscale alpha (coefficients x)) |}.
  Proof. intros x alpha. unfold GfLang.mul_rule. cbn. destruct (is_dual A x); reflexivity. Qed.

  Lemma bind_ok : forall T (r : res T), bind r (fun g => Ok g) = r.
  Proof. intros T [t|e]; reflexivity. Qed.

  Lemma ev_add : forall x y, as_f A (gdeval 6 (DAdd DSelf DOther) (GVf A x) (GVf A y)) = add_rule x y.
  Proof. intros. cbn [GfLang.gdeval bind as_f]. destruct (add_rule x y); reflexivity. Qed.
  Lemma ev_mul : forall x alpha, as_f A (gdeval 6 (DMul DSelf DOther) (GVf A x) (GVs A alpha)) = mul_rule x alpha.
  Proof. intros. cbn [GfLang.gdeval bind as_f]. destruct (mul_rule x alpha); reflexivity. Qed.
  Lemma ev_rmul : forall x alpha, as_f A (gdeval 6 (gf_rmul GF) (GVf A x) (GVs A alpha)) = mul_rule x alpha.
  Proof. intros. cbn [gf_rmul GF GfLang.gdeval bind as_f]. destruct (mul_rule x alpha); reflexivity. Qed.
  Lemma ev_neg : forall x, as_f A (gdeval 6 (gf_neg GF) (GVf A x) (GVf A x)) = mul_rule x (ropp r1).
  Proof. intros. cbn [gf_neg GF GfLang.gdeval bind as_f]. destruct (mul_rule x (ropp r1)); reflexivity. Qed.
  Lemma ev_div : forall x alpha, as_f A (gdeval 6 (gf_div GF) (GVf A x) (GVs A alpha)) = mul_rule x (rinv alpha).
  Proof. intros. cbn [gf_div GF GfLang.gdeval bind as_f]. destruct (mul_rule x (rinv alpha)); reflexivity. Qed.
  Lemma ev_sub : forall x y, as_f A (gdeval 6 (gf_sub GF) (GVf A x) (GVf A y)) =
                             bind (mul_rule y (ropp r1)) (fun y' => add_rule x y').
  Proof.
    intros. cbn [gf_sub gf_neg GF GfLang.gdeval bind as_f]. destruct (mul_rule y (ropp r1)) as [y'|]; cbn [bind as_f]; [|reflexivity].
    destruct (add_rule x y'); reflexivity.
  Qed.
  Lemma sub_guard_eq : forall x y,
    gfguard A (gf_sub_guard GF) x y = Ok (negb (Nat.eqb (g_space x) (g_space y))).
  Proof. reflexivity. Qed.

  (* ---- the two rules are correct on well-formed operands ---- *)
  Lemma mul_ok : forall x alpha, wf x ->
    exists g, mul_rule x alpha = Ok g /\ g_space g = g_space x /\ wf g /\
              meq (coefficients g) (mscale alpha (coefficients x)).
  Proof.
    intros x alpha W. rewrite mul_rule_eq. unfold is_dual, wf in *. unfold OpLang.coefficients, OpLang.projections.
    destruct (g_rep x) as [c|p] eqn:R; eexists; (split; [reflexivity|]); cbn; rewrite ?R; (split; [reflexivity|]).
    - split; [cbn; assumption|reflexivity].
    - split; [cbn; assumption|]. apply (mscale_mmul_r A r0 r1 radd rmul rsub ropp Rth).
  Qed.

  Lemma add_ok : forall x y, wf x -> wf y -> g_space x = g_space y ->
    exists g, add_rule x y = Ok g /\ g_space g = g_space x /\ wf g /\
              meq (coefficients g) (madd (coefficients x) (coefficients y)).
  Proof.
    intros x y Wx Wy S. rewrite add_rule_eq, (proj2 (Nat.eqb_eq _ _) S). cbn [negb].
    destruct (coef_dims x Wx) as [Rx Cx]. destruct (coef_dims y Wy) as [Ry Cy].
    destruct (is_dual A x && is_dual A y && Nat.eqb (g_dual x) (g_dual y)) eqn:B.
    - apply andb_prop in B. destruct B as [B D]. apply andb_prop in B. destruct B as [Bx By]. apply Nat.eqb_eq in D.
      unfold is_dual, wf in *. unfold OpLang.coefficients, OpLang.projections in *.
      destruct (g_rep x) as [|p] eqn:Rx'; [discriminate|]. destruct (g_rep y) as [|q] eqn:Ry'; [discriminate|].
      eexists. split; [reflexivity|]. cbn. split; [congruence|]. split; [cbn; tauto|].
      rewrite <- D, <- S. apply (mmul_madd_l A r0 r1 radd rmul rsub ropp Rth).
    - eexists. split; [reflexivity|]. cbn. split; [congruence|]. unfold wf. cbn. split; [split; congruence|reflexivity].
  Qed.

  Definition ginv (wfa : Prop) (e : ugf A) : Prop :=
    match gtype e with
    | Some s => exists g, gfeval e = Ok g /\ g_space g = s /\ wf g /\ meq (coefficients g) (gcoef e)
    | None => gfeval e = Err ValueError
    end.

  Fixpoint atoms_wf (e : ugf A) : Prop :=
    match e with
    | GAtom f => wf f
    | GAdd a b | GSub a b => atoms_wf a /\ atoms_wf b
    | GNeg a | GScalL _ a | GScalR a _ | GDiv a _ => atoms_wf a
    end.

  Lemma scal_case : forall e alpha (ev : gfun -> res gfun),
    (forall x, ev x = mul_rule x alpha) ->
    match gtype e with
    | Some s => exists g, gfeval e = Ok g /\ g_space g = s /\ wf g /\ meq (coefficients g) (gcoef e)
    | None => gfeval e = Err ValueError end ->
    match gtype e with
    | Some s => exists g, bind (gfeval e) ev = Ok g /\ g_space g = s /\ wf g /\
                          meq (coefficients g) (mscale alpha (gcoef e))
    | None => bind (gfeval e) ev = Err ValueError end.
  Proof.
    intros e alpha ev Hev IH. destruct (gtype e) as [s|]; [|now rewrite IH].
    destruct IH as (x & Ex & Sx & Wx & Mx). rewrite Ex. cbn [bind]. rewrite Hev.
    destruct (mul_ok x alpha Wx) as (g & Eg & Sg & Wg & Mg). exists g. split; [assumption|]. split; [congruence|]. split; [assumption|].
    rewrite Mg. now apply mscale_compat.
  Qed.

  Theorem gf_arithmetic : forall e, atoms_wf e ->
    match gtype e with
    | Some s => exists g, gfeval e = Ok g /\ g_space g = s /\ wf g /\ meq (coefficients g) (gcoef e)
    | None => gfeval e = Err ValueError
    end.
  Proof.
    induction e; cbn [atoms_wf GfLang.gtype GfLang.gfeval GfLang.gcoef]; intro W.
    - exists f. split; [reflexivity|]. split; [reflexivity|]. split; [assumption|reflexivity].
    - destruct W as [Wa Wb]. specialize (IHe1 Wa). specialize (IHe2 Wb).
      destruct (gtype e1) as [s|]; [|now rewrite IHe1].
      destruct IHe1 as (x & Ex & Sx & Wx & Mx). rewrite Ex. cbn [bind].
      destruct (gtype e2) as [t|]; [|now rewrite IHe2].
      destruct IHe2 as (y & Ey & Sy & Wy & My). rewrite Ey. cbn [bind]. rewrite ev_add.
      destruct (Nat.eqb_spec s t) as [->|N].
      + destruct (add_ok x y Wx Wy ltac:(congruence)) as (g & Eg & Sg & Wg & Mg). exists g.
        split; [assumption|]. split; [congruence|]. split; [assumption|]. rewrite Mg.
        destruct (coef_dims x Wx), (coef_dims y Wy).
        apply madd_compat; try assumption. split; congruence.
      + rewrite add_rule_eq. subst. destruct (Nat.eqb_spec (g_space x) (g_space y)); [contradiction|reflexivity].
    - destruct W as [Wa Wb]. specialize (IHe1 Wa). specialize (IHe2 Wb).
      destruct (gtype e1) as [s|]; [|now rewrite IHe1].
      destruct IHe1 as (x & Ex & Sx & Wx & Mx). rewrite Ex. cbn [bind].
      destruct (gtype e2) as [t|]; [|now rewrite IHe2].
      destruct IHe2 as (y & Ey & Sy & Wy & My). rewrite Ey. cbn [bind]. rewrite sub_guard_eq. cbn [bind].
      destruct (Nat.eqb_spec s t) as [->|N].
      + subst. rewrite Sy, Nat.eqb_refl. cbn [negb]. rewrite ev_sub.
        destruct (mul_ok y (ropp r1) Wy) as (y' & Ey' & Sy' & Wy' & My'). rewrite Ey'. cbn [bind].
        destruct (add_ok x y' Wx Wy' ltac:(congruence)) as (g & Eg & Sg & Wg & Mg). exists g.
        split; [assumption|]. split; [congruence|]. split; [assumption|]. rewrite Mg.
        destruct (coef_dims x Wx), (coef_dims y Wy), (coef_dims y' Wy').
        apply madd_compat; try assumption.
        * rewrite My'. now apply mscale_compat.
        * split; congruence.
      + subst. destruct (Nat.eqb_spec (g_space x) (g_space y)); [contradiction|reflexivity].
    - apply (scal_case e (ropp r1) (fun x => as_f A (gdeval 6 (gf_neg GF) (GVf A x) (GVf A x)))); [apply ev_neg|exact (IHe W)].
    - apply (scal_case e alpha (fun x => as_f A (gdeval 6 (gf_rmul GF) (GVf A x) (GVs A alpha)))); [intro; apply ev_rmul|exact (IHe W)].
    - apply (scal_case e alpha (fun x => as_f A (gdeval 6 (DMul DSelf DOther) (GVf A x) (GVs A alpha)))); [intro; apply ev_mul|exact (IHe W)].
    - apply (scal_case e (rinv alpha) (fun x => as_f A (gdeval 6 (gf_div GF) (GVf A x) (GVs A alpha)))); [intro; apply ev_div|exact (IHe W)].
  Qed.
End Gf.
