(* C15 -- glue of the linear-solver wrappers (bempp_cl/api/linalg) as data + its model.  No proofs here.
   gen/SolverGlue.v (LU, IT, IC) is regenerated from the source by translators/opclasses.py:solver_glue. *)
From Coq Require Import List Arith Bool String.
From BV Require Import Algebra.Mat Algebra.OpLang.
Import ListNotations.

Record lu_glue := { lu_rhs_dual : spk;            (* vec = b.projections(A.<lu_rhs_dual>) *)
                    lu_space : spk;               (* GridFunction(A.<lu_space>, coefficients=sol) *)
                    lu_mat : tm;                  (* the matrix handed to scipy.linalg.solve *)
                    lu_blocked_rhs : string; lu_blocked_result : string;
                    lu_factor_of : tm }.          (* compute_lu_factors factorises this *)
Record it_glue := { it_guard : gexp;              (* use_strong_form: raise ValueError if *)
                    it_strong_op : tm; it_strong_rhs : tm;
                    it_weak_op : tm; it_weak_rhs_dual : spk;
                    it_space : spk; it_tol_kw : string;
                    it_blocked_strong_rhs : string; it_blocked_weak_rhs : string;
                    it_blocked_result_strong : string; it_blocked_result_weak : string }.   (* attribute of A whose spaces cut the solution *)
Inductive ictm := IX | IRhs | IOpX | ISub (a b : ictm).
Record ic_glue := { ic_incr : nat; ic_cg_res : ictm; ic_other_res : ictm; ic_norm : bool; ic_else_pure : bool }.

Section SolverSem.
  Variable A : Type.
  Variables (r0 r1 : A) (radd rmul : A -> A -> A) (ropp : A -> A) (rinv : A -> A).
  Notation M := (M A).
  Notation mmul := (mmul A r0 radd rmul).
  Variable invmass : nat -> nat -> M.
  Variable mass : nat -> nat -> M.
  Variable atoms : nat -> (nat * nat * nat) * M.
  Variable strong_body : tm.
  Variable solve : M -> M -> M.                      (* scipy.linalg.solve / lu_solve (oracle) *)

  Notation weak := (weak A r0 r1 radd rmul ropp rinv invmass mass atoms strong_body).
  Notation spaces := (spaces A atoms).
  Notation interp := (interp A r0 r1 radd rmul ropp rinv invmass mass).

  (* GridFunction.projections(dual_space)  (shape of the source checked by the translator) *)
  Definition proj_onto (f : gfun A) (d : nat) : M :=
    match g_rep f with
    | DualRep p => if Nat.eqb d (g_dual f) then p
                   else mmul (mass (g_space f) d) (mmul (invmass (g_space f) (g_dual f)) p)
    | Primal c => mmul (mass (g_space f) d) c
    end.

  Definition env_of (o : bop A) (f : gfun A) : env A :=
    {| e_weak := fun s => match s with SL => weak o | _ => Err AttributeError end;
       e_strong := fun s => match s with SL => strong A r0 r1 radd rmul ropp rinv invmass mass atoms strong_body o
                                      | _ => Err AttributeError end;
       e_coef := fun s => match s with SR => Ok (VM (coefficients A r0 radd rmul invmass f)) | _ => Err AttributeError end;
       e_proj := no_leaf A; e_eval := no_leaf A; e_alpha := r0; e_self_spaces := spaces o |}.

  (* lu(A, b) for a single operator *)
  Definition lu_single (G : lu_glue) (o : bop A) (b : gfun A) : res (gfun A) :=
    bind (interp (env_of o b) (lu_mat G)) (fun v => bind (as_mat A v) (fun W =>
    let vec := proj_onto b (pick3 (lu_rhs_dual G) (spaces o)) in
    let s := pick3 (lu_space G) (spaces o) in
    Ok {| g_space := s; g_dual := s; g_rep := Primal (solve W vec) |})).

  (* the linear system (operator, right-hand side) handed to scipy's gmres / cg, and the space of the result *)
  Definition it_system (G : it_glue) (use_strong : bool) (o : bop A) (b : gfun A) : res (M * M * nat) :=
    let so := spaces o in
    if use_strong then
      bind (guard3 (it_guard G) so (g_space b, g_space b, g_dual b)) (fun raise =>
      if raise then Err ValueError else
      bind (interp (env_of o b) (it_strong_op G)) (fun v => bind (as_mat A v) (fun Aop =>
      bind (interp (env_of o b) (it_strong_rhs G)) (fun w => bind (as_mat A w) (fun rhs =>
      Ok (Aop, rhs, pick3 (it_space G) so))))))
    else
      bind (interp (env_of o b) (it_weak_op G)) (fun v => bind (as_mat A v) (fun Aop =>
      Ok (Aop, proj_onto b (pick3 (it_weak_rhs_dual G) so), pick3 (it_space G) so))).

  (* IterationCounter: state = (count, residuals); one callback call *)
  Variable norm : M -> A.
  Variable msub : M -> M -> M.
  Fixpoint ic_eval (t : ictm) (op rhs x : M) : M :=
    match t with
    | IX => x | IRhs => rhs | IOpX => mmul op x | ISub a b => msub (ic_eval a op rhs x) (ic_eval b op rhs x)
    end.
  Definition ic_call (G : ic_glue) (store is_cg : bool) (op rhs : M) (st : nat * list A) (x : M) : nat * list A :=
    let c := (fst st + ic_incr G)%nat in
    if store then (c, (snd st ++ [norm (ic_eval (if is_cg then ic_cg_res G else ic_other_res G) op rhs x)])%list)
    else (c, snd st).
  Definition ic_run (G : ic_glue) (store is_cg : bool) (op rhs : M) (xs : list M) : nat * list A :=
    fold_left (ic_call G store is_cg op rhs) xs (O, []).

  (* the wrappers gmres / cg: [flag] is the name of the wrapper's parameter handed to IterationCounter as store_residuals
     (regenerated table store_flags); the return tuple is (x, info[, callback.residuals if return_residuals][, callback.count
     if return_iteration_count]) -- the tail of every wrapper, checked literally by the translator *)
  Definition store_of (flag : string) (return_residuals return_iteration_count : bool) : bool :=
    if String.eqb flag "return_residuals" then return_residuals
    else if String.eqb flag "return_iteration_count" then return_iteration_count else false.
  Definition wrapper_out (G : ic_glue) (flag : string) (rr ric is_cg : bool) (op rhs : M) (xs : list M)
    : option (list A) * option nat :=
    let cr := ic_run G (store_of flag rr ric) is_cg op rhs xs in
    (if rr then Some (snd cr) else None, if ric then Some (fst cr) else None).
End SolverSem.
