(* Comparison functions of the C15 correspondence check: the linear system the solver wrappers hand to SciPy
   (captured at the call) vs the model of the regenerated glue, evaluated on complex rationals. *)
From Coq Require Import QArith Qabs List Arith Bool String.
From BV Require Import Algebra.Mat Algebra.OpLang Algebra.SolverLang Algebra.Corr.
From BVgen Require Import OpClasses SolverGlue.
Import ListNotations.
Open Scope Q_scope.

Record bfun := { bf_space : nat; bf_dual : nat; bf_primal : bool; bf_vec : list QC }.
Definition gfun_of (b : bfun) : gfun QC :=
  let v := mat_of (map (fun x => [x]) (bf_vec b)) in
  {| g_space := bf_space b; g_dual := bf_dual b; g_rep := if bf_primal b then Primal v else DualRep v |}.

Inductive sys_expected := SysOk (A : list (list QC)) (rhs : list QC) (space : nat) | SysExn (e : exn) | SysOther.

Definition col_close (m : M QC) (l : list QC) : bool := mat_close m (map (fun x => [x]) l).

Definition sys_case_ok (E : cenv) (c : uexp QC * bfun * bool * sys_expected) : bool :=
  let '(e, b, strong, x) := c in
  let r := bind (elab QC qc0 qc1 qcopp qcinv BD boundary_classes e)
                (fun o => it_system QC qc0 qc1 qcadd qcmul qcopp qcinv (table_of E (ce_invmass E)) (table_of E (ce_mass E))
                                    (atoms_of E) (bd_strong BD) IT strong o (gfun_of b)) in
  match r, x with
  | Ok (m, rhs, s), SysOk A v s' => mat_close m A && col_close rhs v && Nat.eqb s s'
  | Err e, SysExn e' => exn_eqb e e'
  | _, _ => false
  end.

(* lu: the right-hand side vector and the result space (solve := identity on the right-hand side) *)
Definition lu_case_ok (E : cenv) (c : uexp QC * bfun * list (list QC) * list QC * nat) : bool :=
  let '(e, b, A, v, s) := c in
  let r := bind (elab QC qc0 qc1 qcopp qcinv BD boundary_classes e)
                (fun o => bind (weak QC qc0 qc1 qcadd qcmul qcopp qcinv (table_of E (ce_invmass E)) (table_of E (ce_mass E))
                                     (atoms_of E) (bd_strong BD) o)
                (fun w => bind (lu_single QC qc0 qc1 qcadd qcmul qcopp qcinv (table_of E (ce_invmass E))
                                          (table_of E (ce_mass E)) (atoms_of E) (bd_strong BD) (fun _ rhs => rhs) LU o
                                          (gfun_of b)) (fun g => Ok (w, g)))) in
  match r with
  | Ok (VM w, g) => mat_close w A && Nat.eqb (g_space g) s &&
                    match g_rep g with Primal rhs => col_close rhs v | _ => false end
  | _ => false
  end.

(* IterationCounter: count and squared residual norms *)
Definition norm2 (m : M QC) : QC :=
  (fold_left (fun acc i => acc + fst (ent m i 0%nat) * fst (ent m i 0%nat) + snd (ent m i 0%nat) * snd (ent m i 0%nat))
             (seq 0 (rows m)) 0, 0).
Definition msubq (a b : M QC) : M QC := mk (rows a) (cols a) (fun i j => qcadd (ent a i j) (qcopp (ent b i j))).

Definition ic_case_ok (c : bool * bool * list (list QC) * list QC * list (list QC) * nat * list Q) : bool :=
  let '(store, is_cg, op, rhs, xs, count, res2) := c in
  let col l := mat_of (map (fun x => [x]) l) in
  let r := ic_run QC qc0 qcadd qcmul norm2 msubq IC store is_cg (mat_of op) (col rhs) (map col xs) in
  Nat.eqb (fst r) count &&
  Nat.eqb (List.length (snd r)) (List.length res2) &&
  forallb (fun p => qclose (fst (fst p)) (snd p) (1 + Qabs (snd p))) (combine (snd r) res2).
