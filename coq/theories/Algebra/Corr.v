(* Comparison functions of the C14 correspondence check.  The harness dumps the operands (exact rationals of the
   doubles) and what the library returned for a user expression; these functions run the *interpretation of the
   regenerated class tables* (OpLang.uweak / PotLang.upapply over BVgen.OpClasses) on complex rationals and report
   the indices of disagreeing cases. *)
From Coq Require Import QArith Qabs List Arith Bool String.
From BV Require Import Algebra.Mat Algebra.OpLang Algebra.PotLang.
From BVgen Require Import OpClasses.
Import ListNotations.
Open Scope Q_scope.

Definition failing {T} (ok : T -> bool) (l : list T) : list nat :=
  map fst (filter (fun ic => negb (ok (snd ic))) (combine (seq 0 (List.length l)) l)).

Definition QC := (Q * Q)%type.
Definition qc0 : QC := (0, 0).
Definition qc1 : QC := (1, 0).
Definition qcadd (a b : QC) : QC := (Qred (fst a + fst b), Qred (snd a + snd b)).
Definition qcmul (a b : QC) : QC := (Qred (fst a * fst b - snd a * snd b), Qred (fst a * snd b + snd a * fst b)).
Definition qcopp (a : QC) : QC := (- fst a, - snd a).
Definition qcinv (a : QC) : QC :=
  let n := fst a * fst a + snd a * snd a in (Qred (fst a / n), Qred (- snd a / n)).

Definition mat_of (l : list (list QC)) : M QC :=
  of_rows QC qc0 (List.length l) (List.length (hd [] l)) l.
Definition mat_of_shape (r c : nat) (l : list (list QC)) : M QC := of_rows QC qc0 r c l.

Record cenv := { ce_atoms : list ((nat * nat * nat) * list (list QC));
                 ce_dims : list (nat * nat);
                 ce_invmass : list (nat * nat * list (list QC));
                 ce_mass : list (nat * nat * list (list QC));
                 ce_patoms : list ((nat * nat * nat) * list (list QC)) }.

Definition dim_of (E : cenv) (s : nat) : nat :=
  match find (fun p => Nat.eqb (fst p) s) (ce_dims E) with Some p => snd p | None => O end.
Definition atoms_of (E : cenv) (i : nat) : (nat * nat * nat) * M QC :=
  match nth_error (ce_atoms E) i with
  | Some (t, l) => (t, mat_of_shape (dim_of E (pick3 Dual t)) (dim_of E (pick3 Dom t)) l)
  | None => ((O, O, O), mzero QC qc0 0 0)
  end.
Definition table_of (E : cenv) (tab : list (nat * nat * list (list QC))) (r d : nat) : M QC :=
  match find (fun p => Nat.eqb (fst (fst p)) r && Nat.eqb (snd (fst p)) d) tab with
  | Some p => mat_of (snd p)
  | None => mzero QC qc0 (dim_of E r) (dim_of E d)
  end.
Definition patoms_of (E : cenv) (i : nat) : (nat * nat * nat) * M QC :=
  match nth_error (ce_patoms E) i with
  | Some (t, l) => (t, mat_of l)
  | None => ((O, O, O), mzero QC qc0 0 0)
  end.

Definition qclose (a b : Q) (scale : Q) : bool := Qle_bool (Qabs (a - b)) ((1 # 1000000000) * scale).
Definition qcclose (scale : Q) (a b : QC) : bool := qclose (fst a) (fst b) scale && qclose (snd a) (snd b) scale.
Definition qcmag (a : QC) : Q := Qabs (fst a) + Qabs (snd a).
Definition qmax (a b : Q) : Q := if Qle_bool a b then b else a.
Definition scale_of (l : list (list QC)) : Q :=
  fold_left (fun acc row => fold_left (fun acc x => qmax acc (qcmag x)) row acc) l 1.

Definition mat_close (m : M QC) (l : list (list QC)) : bool :=
  let s := scale_of l in
  Nat.eqb (rows m) (List.length l) &&
  forallb (fun ir => let '(i, row) := ir in
             Nat.eqb (cols m) (List.length row) &&
             forallb (fun jx => let '(j, x) := jx in qcclose s (ent m i j) x) (combine (seq 0 (List.length row)) row))
          (combine (seq 0 (List.length l)) l).

Inductive expected := EMat (l : list (list QC)) | EExn (e : exn) | EOther.

Definition exn_eqb (a b : exn) : bool :=
  match a, b with
  | ValueError, ValueError | AttributeError, AttributeError | TypeError, TypeError
  | NotImplementedReturned, NotImplementedReturned => true
  | _, _ => false
  end.

Definition res_ok (r : res (val QC)) (x : expected) : bool :=
  match r, x with
  | Ok (VM m), EMat l => mat_close m l
  | Err e, EExn e' => exn_eqb e e'
  | _, _ => false
  end.

Definition bcase_ok (E : cenv) (c : uexp QC * expected) : bool :=
  res_ok (uweak QC qc0 qc1 qcadd qcmul qcopp qcinv (table_of E (ce_invmass E)) (table_of E (ce_mass E)) (atoms_of E)
                (bd_strong BD) BD boundary_classes (fst c)) (snd c).

(* potential expression applied to a coefficient vector (column matrix) *)
Definition pcase_ok (E : cenv) (c : upot QC * list (list QC) * expected) : bool :=
  let '(e, coef, x) := c in
  res_ok (upapply QC qc0 qc1 qcadd qcmul qcopp qcinv (table_of E (ce_invmass E)) (table_of E (ce_mass E)) (patoms_of E)
                  PB potential_classes e (mat_of coef)) x.

(* ---- grid-function expressions: coefficients of the result (or the exception) ---- *)
From BV Require Import Algebra.GfLang.
Record gatom := { ga_space : nat; ga_dual : nat; ga_primal : bool; ga_vec : list QC }.
Definition gfun_of_atom (a : gatom) : gfun QC :=
  let v := mat_of (map (fun x => [x]) (ga_vec a)) in
  {| g_space := ga_space a; g_dual := ga_dual a; g_rep := if ga_primal a then Primal v else DualRep v |}.
Inductive gexpected := GCoefs (space : nat) (v : list QC) | GExn (e : exn) | GOther.
Definition gfcase_ok (E : cenv) (c : ugf QC * gexpected) : bool :=
  match gfeval QC qc0 qc1 qcadd qcmul qcopp qcinv (table_of E (ce_invmass E)) (table_of E (ce_mass E)) GF (fst c), snd c with
  | Ok g, GCoefs s v =>
      Nat.eqb (g_space g) s &&
      mat_close (coefficients QC qc0 qcadd qcmul (table_of E (ce_invmass E)) g) (map (fun x => [x]) v)
  | Err e, GExn e' => exn_eqb e e'
  | _, _ => false
  end.

(* ---- blocked operators: the same interpreter over the blocked tables; ids of the environment stand for space lists ---- *)
Definition bb_weak (E : cenv) (e : uexp QC) : res (val QC) :=
  uweak QC qc0 qc1 qcadd qcmul qcopp qcinv (table_of E (ce_invmass E)) (table_of E (ce_mass E)) (atoms_of E)
        (bd_strong BBD) BBD blocked_classes e.
Definition bb_strong (E : cenv) (e : uexp QC) : res (val QC) :=
  bind (elab QC qc0 qc1 qcopp qcinv BBD blocked_classes e)
       (strong QC qc0 qc1 qcadd qcmul qcopp qcinv (table_of E (ce_invmass E)) (table_of E (ce_mass E)) (atoms_of E) (bd_strong BBD)).
Definition bb_apply (E : cenv) (e : uexp QC) (coef : list QC) : res (val QC) :=
  bind (elab QC qc0 qc1 qcopp qcinv BBD blocked_classes e) (fun o =>
  bind (apply_op QC qc0 qc1 qcadd qcmul qcopp qcinv (table_of E (ce_invmass E)) (table_of E (ce_mass E)) (atoms_of E)
                 (bd_strong BBD) BBD o
                 {| g_space := O; g_dual := O; g_rep := Primal (mat_of (map (fun x => [x]) coef)) |})
       (fun g => match g_rep g with DualRep p => Ok (VM p) | Primal p => Ok (VM p) end)).
(* what: 0 weak form, 1 strong form, 2 applied to a packed coefficient vector *)
Definition bbcase_ok (E : cenv) (c : nat * uexp QC * list QC * expected) : bool :=
  let '(what, e, coef, x) := c in
  res_ok (match what with O => bb_weak E e | S O => bb_strong E e | _ => bb_apply E e coef end) x.
