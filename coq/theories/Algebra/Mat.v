(* Matrices over a commutative ring given by Section variables + ring_theory (instantiated with Q and R, and with
   the complex extension of a ring in Algebra/Cplx.v).  A matrix is (rows, cols, entry function); equality is
   entrywise inside the bounds.  Used by the operator-algebra model (C14, C15). *)
From Coq Require Import List Arith Lia Ring Setoid Morphisms.
Import ListNotations.

Section Mat.
  Variable A : Type.
  Variables (r0 r1 : A) (radd rmul rsub : A -> A -> A) (ropp : A -> A).
  Hypothesis Rth : ring_theory r0 r1 radd rmul rsub ropp (@eq A).
  Add Ring Rr : Rth.
  Notation "0" := r0. Notation "1" := r1.
  Infix "+" := radd. Infix "*" := rmul.

  Fixpoint sumn (n : nat) (f : nat -> A) : A :=
    match n with O => 0 | S k => sumn k f + f k end.

  Lemma sumn_ext : forall n f g, (forall k, (k < n)%nat -> f k = g k) -> sumn n f = sumn n g.
  Proof. induction n; simpl; intros; [reflexivity|]. rewrite (IHn f g), H by auto with arith. reflexivity. Qed.

  Lemma sumn_add : forall n f g, sumn n (fun k => f k + g k) = sumn n f + sumn n g.
  Proof. induction n; simpl; intros; [ring|]. rewrite IHn. ring. Qed.

  Lemma sumn_scale_l : forall n a f, sumn n (fun k => a * f k) = a * sumn n f.
  Proof. induction n; simpl; intros; [ring|]. rewrite IHn. ring. Qed.

  Lemma sumn_scale_r : forall n a f, sumn n (fun k => f k * a) = sumn n f * a.
  Proof. induction n; simpl; intros; [ring|]. rewrite IHn. ring. Qed.

  Lemma sumn_zero : forall n, sumn n (fun _ => 0) = 0.
  Proof. induction n; simpl; [reflexivity|]. rewrite IHn. ring. Qed.

  Lemma sumn_swap : forall n m (f : nat -> nat -> A),
    sumn n (fun i => sumn m (fun j => f i j)) = sumn m (fun j => sumn n (fun i => f i j)).
  Proof.
    induction n; simpl; intros.
    - now rewrite sumn_zero.
    - rewrite IHn, <- sumn_add. reflexivity.
  Qed.

  Lemma sumn_delta : forall n i (f : nat -> A), (i < n)%nat ->
    sumn n (fun k => (if Nat.eqb i k then 1 else 0) * f k) = f i.
  Proof.
    induction n; intros i f Hi; [lia|]. simpl. destruct (Nat.eqb_spec i n).
    - subst. rewrite (sumn_ext n _ (fun _ => 0)).
      + rewrite sumn_zero. ring.
      + intros k Hk. destruct (Nat.eqb_spec n k); [lia|ring].
    - rewrite IHn by lia. ring.
  Qed.

  Lemma sumn_delta_r : forall n j (f : nat -> A), (j < n)%nat ->
    sumn n (fun k => f k * (if Nat.eqb k j then 1 else 0)) = f j.
  Proof.
    intros n j f Hj. rewrite <- (sumn_delta n j f Hj). apply sumn_ext. intros k _.
    rewrite (Nat.eqb_sym k j). ring.
  Qed.

  Record M := mk { rows : nat; cols : nat; ent : nat -> nat -> A }.

  Definition meq (X Y : M) : Prop :=
    rows X = rows Y /\ cols X = cols Y /\
    forall i j, (i < rows X)%nat -> (j < cols X)%nat -> ent X i j = ent Y i j.

  Lemma meq_refl : forall X, meq X X.
  Proof. intro X. repeat split. Qed.
  Lemma meq_sym : forall X Y, meq X Y -> meq Y X.
  Proof. intros X Y (H1 & H2 & H3). repeat split; auto. intros. symmetry. apply H3; congruence. Qed.
  Lemma meq_trans : forall X Y Z, meq X Y -> meq Y Z -> meq X Z.
  Proof.
    intros X Y Z (H1 & H2 & H3) (K1 & K2 & K3). repeat split; try congruence.
    intros. rewrite H3 by assumption. apply K3; congruence.
  Qed.
  Global Instance meq_equiv : Equivalence meq.
  Proof. split; [exact meq_refl | exact meq_sym | exact meq_trans]. Qed.

  Definition madd (X Y : M) : M := mk (rows X) (cols X) (fun i j => ent X i j + ent Y i j).
  Definition mscale (a : A) (X : M) : M := mk (rows X) (cols X) (fun i j => a * ent X i j).
  Definition mmul (X Y : M) : M :=
    mk (rows X) (cols Y) (fun i j => sumn (cols X) (fun k => ent X i k * ent Y k j)).
  Definition mzero (r c : nat) : M := mk r c (fun _ _ => 0).
  Definition mid (n : nat) : M := mk n n (fun i j => if Nat.eqb i j then 1 else 0).
  Definition mneg (X : M) : M := mscale (ropp 1) X.
  Definition same_shape (X Y : M) : Prop := rows X = rows Y /\ cols X = cols Y.

  Lemma madd_compat : forall X X' Y Y', meq X X' -> meq Y Y' -> same_shape X Y -> meq (madd X Y) (madd X' Y').
  Proof.
    intros X X' Y Y' (H1 & H2 & H3) (K1 & K2 & K3) (S1 & S2). repeat split; simpl; auto.
    intros i j Hi Hj. rewrite H3, K3 by congruence. reflexivity.
  Qed.

  Lemma mscale_compat : forall a X X', meq X X' -> meq (mscale a X) (mscale a X').
  Proof. intros a X X' (H1 & H2 & H3). repeat split; simpl; auto. intros. now rewrite H3. Qed.

  Lemma mmul_compat : forall X X' Y Y', meq X X' -> meq Y Y' -> cols X = rows Y -> meq (mmul X Y) (mmul X' Y').
  Proof.
    intros X X' Y Y' (H1 & H2 & H3) (K1 & K2 & K3) D. repeat split; simpl; auto.
    intros i j Hi Hj. rewrite <- H2. apply sumn_ext. intros k Hk. rewrite H3, K3 by congruence. reflexivity.
  Qed.

  Lemma mmul_assoc : forall X Y Z, meq (mmul (mmul X Y) Z) (mmul X (mmul Y Z)).
  Proof.
    intros. repeat split. simpl. intros i j _ _.
    rewrite (sumn_ext _ _ (fun l => sumn (cols X) (fun k => ent X i k * ent Y k l * ent Z l j)))
      by (intros; now rewrite sumn_scale_r).
    rewrite sumn_swap. apply sumn_ext. intros k _. rewrite <- sumn_scale_l. apply sumn_ext. intros; ring.
  Qed.

  Lemma mmul_madd_l : forall X Y Z, meq (mmul X (madd Y Z)) (madd (mmul X Y) (mmul X Z)).
  Proof.
    intros. repeat split. simpl. intros i j _ _. rewrite <- sumn_add. apply sumn_ext. intros; ring.
  Qed.

  Lemma mmul_madd_r : forall X Y Z, cols X = cols Y -> meq (mmul (madd X Y) Z) (madd (mmul X Z) (mmul Y Z)).
  Proof.
    intros X Y Z D. repeat split. simpl. intros i j _ _. rewrite <- D, <- sumn_add. apply sumn_ext. intros; ring.
  Qed.

  Lemma mscale_mmul_l : forall a X Y, meq (mmul (mscale a X) Y) (mscale a (mmul X Y)).
  Proof. intros. repeat split. simpl. intros. rewrite <- sumn_scale_l. apply sumn_ext. intros; ring. Qed.

  Lemma mscale_mmul_r : forall a X Y, meq (mmul X (mscale a Y)) (mscale a (mmul X Y)).
  Proof. intros. repeat split. simpl. intros. rewrite <- sumn_scale_l. apply sumn_ext. intros; ring. Qed.

  Lemma mscale_madd : forall a X Y, meq (mscale a (madd X Y)) (madd (mscale a X) (mscale a Y)).
  Proof. intros. repeat split. simpl. intros. ring. Qed.

  Lemma mscale_mscale : forall a b X, meq (mscale a (mscale b X)) (mscale (a * b) X).
  Proof. intros. repeat split. simpl. intros. ring. Qed.

  Lemma mscale_one : forall X, meq (mscale 1 X) X.
  Proof. intros. repeat split. simpl. intros. ring. Qed.

  Lemma madd_comm : forall X Y, same_shape X Y -> meq (madd X Y) (madd Y X).
  Proof. intros X Y (S1 & S2). repeat split; simpl; auto. intros. ring. Qed.

  Lemma madd_assoc : forall X Y Z, meq (madd (madd X Y) Z) (madd X (madd Y Z)).
  Proof. intros. repeat split. simpl. intros. ring. Qed.

  Lemma madd_zero_r : forall X, meq (madd X (mzero (rows X) (cols X))) X.
  Proof. intros. repeat split. simpl. intros. ring. Qed.

  Lemma mmul_zero_l : forall r X, meq (mmul (mzero r (rows X)) X) (mzero r (cols X)).
  Proof. intros. repeat split. simpl. intros. rewrite (sumn_ext _ _ (fun _ => 0)) by (intros; ring). apply sumn_zero. Qed.

  Lemma mid_l : forall X, meq (mmul (mid (rows X)) X) X.
  Proof. intros. repeat split. simpl. intros i j Hi _. now apply (sumn_delta (rows X) i (fun k => ent X k j)). Qed.

  Lemma mid_r : forall X, meq (mmul X (mid (cols X))) X.
  Proof. intros. repeat split. simpl. intros i j _ Hj. now apply (sumn_delta_r (cols X) j (fun k => ent X i k)). Qed.

  (* transposition *)
  Definition mtrans (X : M) : M := mk (cols X) (rows X) (fun i j => ent X j i).
  Lemma mtrans_invol : forall X, meq (mtrans (mtrans X)) X.
  Proof. intros. repeat split. Qed.
  Lemma mtrans_mmul : forall X Y, cols X = rows Y -> meq (mtrans (mmul X Y)) (mmul (mtrans Y) (mtrans X)).
  Proof.
    intros X Y D. repeat split. simpl. intros i j _ _. rewrite <- D. apply sumn_ext. intros; ring.
  Qed.
  Lemma mtrans_madd : forall X Y, meq (mtrans (madd X Y)) (madd (mtrans X) (mtrans Y)).
  Proof. intros. repeat split. Qed.
  Lemma mtrans_mscale : forall a X, meq (mtrans (mscale a X)) (mscale a (mtrans X)).
  Proof. intros. repeat split. Qed.
  (* diagonal and rank-one matrices *)
  Definition mdiag (n : nat) (d : nat -> A) : M := mk n n (fun i j => if Nat.eqb i j then d i else 0).
  Definition mouter (m n : nat) (c r : nat -> A) : M := mk m n (fun i j => c i * r j).
  Lemma mdiag_trans : forall n d, meq (mtrans (mdiag n d)) (mdiag n d).
  Proof.
    intros. repeat split. simpl. intros i j _ _. rewrite (Nat.eqb_sym j i). destruct (Nat.eqb_spec i j); [now subst|reflexivity].
  Qed.
  Lemma mouter_trans : forall m n c r, meq (mtrans (mouter m n c r)) (mouter n m r c).
  Proof. intros. repeat split. simpl. intros. ring. Qed.

  (* concrete matrices from lists of rows (used by the correspondence check) *)
  Definition of_rows (r c : nat) (l : list (list A)) : M := mk r c (fun i j => nth j (nth i l []) 0).
End Mat.

Arguments rows {A}. Arguments cols {A}. Arguments ent {A}. Arguments mk {A}.
