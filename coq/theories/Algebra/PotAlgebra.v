(* C14 -- the positive half of the potential-operator algebra, over the tables regenerated from the current
   potential_operator.py.  Every statement is conditional on [potential_clean] (no unresolved attribute name is
   left in the algebra files): on the pinned tree this is false (see PotProofs.v for the refutations) and the
   statements are vacuous; on a tree where the names resolve they carry the content.  Every proof therefore first
   tries to refute the hypothesis by computation and only otherwise runs the real argument. *)
From Coq Require Import List Arith Bool String Lia Ring Setoid.
From BV Require Import Algebra.Mat Algebra.OpLang Algebra.PotLang.
From BVgen Require Import OpClasses.
Import ListNotations.
Open Scope string_scope.

Definition potential_clean : bool := match unresolved with [] => true | _ => false end.
Ltac vac C := exfalso; vm_compute in C; discriminate C.

Lemma bind_ext : forall T U (r : res T) (f g : T -> res U), (forall t, f t = g t) -> bind r f = bind r g.
Proof. intros T U [t|e] f g H; simpl; auto. Qed.

Section PA.
  Variable A : Type.
  Variables (r0 r1 : A) (radd rmul rsub : A -> A -> A) (ropp : A -> A).
  Hypothesis Rth : ring_theory r0 r1 radd rmul rsub ropp (@eq A).
  Add Ring Rr6 : Rth.
  Variable rinv : A -> A.
  Notation M := (M A).
  Notation mmul := (mmul A r0 radd rmul).
  Notation madd := (madd A radd).
  Notation mscale := (mscale A rmul).
  Notation meq := (meq A).
  Variable invmass : nat -> nat -> M.
  Variable mass : nat -> nat -> M.
  Variable patoms : nat -> (nat * nat * nat) * M.
  Variable prow : nat -> nat -> nat.          (* (component count, point-set id) -> rows of the evaluation matrix *)
  Variable dim : nat -> nat.
  Hypothesis patoms_dims : forall i, let '(s, c, p) := fst (patoms i) in
                                     rows (snd (patoms i)) = prow c p /\ cols (snd (patoms i)) = dim s.

  Notation pprop := (pprop A patoms PB).
  Notation pguard := (pguard A patoms PB).
  Notation pelab := (pelab A r0 r1 ropp rinv patoms PB potential_classes).
  Notation peval := (peval A r0 r1 radd rmul ropp rinv invmass mass patoms).
  Notation pdeval := (pdeval A r0 r1 ropp rinv patoms PB potential_classes).
  Notation ptype_of := (ptype_of A patoms).
  Notation pden := (pden A r1 radd rmul ropp patoms).

  (* ---- guards through a property oracle (table independent) ---- *)
  Fixpoint pguard_o (fuel : nat) (g : gexp) (phi : side -> string -> res nat) : res bool :=
    match fuel with
    | O => Err TypeError
    | S f =>
      match g with
      | GCompat a ka b kb =>
          match ka, kb with
          | Space, Space => bind (phi a "space") (fun x => bind (phi b "space") (fun y => Ok (Nat.eqb x y)))
          | _, _ => Err AttributeError
          end
      | GEqProp a b p => bind (phi a p) (fun x => bind (phi b p) (fun y => Ok (Nat.eqb x y)))
      | GSamePoints a b p => bind (phi a p) (fun x => bind (phi b p) (fun y => Ok (Nat.eqb x y)))
      | GCall recv meth arg =>
          match assoc meth (pb_methods PB) with
          | Some body => pguard_o f body (fun s => phi (match s with SR => arg | _ => recv end))
          | None => Err AttributeError
          end
      | GNot g => bind (pguard_o f g phi) (fun b => Ok (negb b))
      | GOr g h => bind (pguard_o f g phi) (fun b => if b then Ok true else pguard_o f h phi)
      | GAnd g h => bind (pguard_o f g phi) (fun b => if b then pguard_o f h phi else Ok false)
      | GTrue => Ok true
      | GFalse => Ok false
      | GRepDual _ => Err AttributeError
      end
    end.

  Lemma pguard_o_ext : forall f g phi psi, (forall s n, phi s n = psi s n) -> pguard_o f g phi = pguard_o f g psi.
  Proof.
    induction f; intros g phi psi H; [reflexivity|].
    destruct g as [a ka b kb|a b p|a b p|recv meth arg|a|g|g h|g h| | ]; cbn [pguard_o]; try reflexivity.
    - destruct ka, kb; try reflexivity. rewrite !H. reflexivity.
    - rewrite !H. reflexivity.
    - rewrite !H. reflexivity.
    - destruct (assoc meth (pb_methods PB)); [|reflexivity]. apply IHf. intros. apply H.
    - rewrite (IHf g phi psi H). reflexivity.
    - rewrite (IHf g phi psi H). apply bind_ext. intros [|]; [reflexivity|]. now apply IHf.
    - rewrite (IHf g phi psi H). apply bind_ext. intros [|]; [|reflexivity]. now apply IHf.
  Qed.

  Lemma pguard_as_oracle : forall f g x y,
    pguard f g x y = pguard_o f g (fun s => pprop (obj_of A s x y)).
  Proof.
    induction f; intros g x y; [reflexivity|].
    destruct g as [a ka b kb|a b p|a b p|recv meth arg|a|g|g h|g h| | ]; cbn [PotLang.pguard pguard_o]; try reflexivity.
    - destruct (assoc meth (pb_methods PB)); [|reflexivity]. rewrite IHf. apply pguard_o_ext.
      intros s n. destruct s, recv, arg; reflexivity.
    - now rewrite IHf.
    - rewrite IHf. apply bind_ext. intros [|]; [reflexivity|]. apply IHf.
    - rewrite IHf. apply bind_ext. intros [|]; [|reflexivity]. apply IHf.
  Qed.

  (* the table function that agrees with an oracle whose three properties are known on both operands *)
  Definition tabulated (phi : side -> string -> res nat) (s1 c1 p1 s2 c2 p2 : nat) : side -> string -> res nat :=
    fun s n =>
      let '(sv, cv, pv) := match s with SR => (s2, c2, p2) | _ => (s1, c1, p1) end in
      if String.eqb n "space" then Ok sv
      else if String.eqb n "component_count" then Ok cv
      else if String.eqb n "evaluation_points" then Ok pv
      else phi s n.

  Lemma tabulated_ext : forall phi s1 c1 p1 s2 c2 p2,
    (forall s, s <> SR -> phi s "space" = Ok s1 /\ phi s "component_count" = Ok c1 /\ phi s "evaluation_points" = Ok p1) ->
    (phi SR "space" = Ok s2 /\ phi SR "component_count" = Ok c2 /\ phi SR "evaluation_points" = Ok p2) ->
    forall s n, phi s n = tabulated phi s1 c1 p1 s2 c2 p2 s n.
  Proof.
    intros phi s1 c1 p1 s2 c2 p2 H1 (H2a & H2b & H2c) s n. unfold tabulated.
    destruct s.
    - destruct (H1 SL ltac:(discriminate)) as (Ha & Hb & Hc).
      destruct (String.eqb_spec n "space"); [now subst|].
      destruct (String.eqb_spec n "component_count"); [now subst|].
      destruct (String.eqb_spec n "evaluation_points"); [now subst|]. reflexivity.
    - destruct (String.eqb_spec n "space"); [now subst|].
      destruct (String.eqb_spec n "component_count"); [now subst|].
      destruct (String.eqb_spec n "evaluation_points"); [now subst|]. reflexivity.
    - destruct (H1 SSelf ltac:(discriminate)) as (Ha & Hb & Hc).
      destruct (String.eqb_spec n "space"); [now subst|].
      destruct (String.eqb_spec n "component_count"); [now subst|].
      destruct (String.eqb_spec n "evaluation_points"); [now subst|]. reflexivity.
  Qed.

  Definition compatible (s1 c1 p1 s2 c2 p2 : nat) : bool := Nat.eqb c1 c2 && Nat.eqb p1 p2 && Nat.eqb s1 s2.

  (* both the guard of PotentialOperator.__add__ and the constructor guard of the sum class raise exactly when the
     operands differ in component count, evaluation points or space *)
  Lemma guards_value : potential_clean = true -> forall x y s1 c1 p1 s2 c2 p2,
    pprop x "space" = Ok s1 -> pprop x "component_count" = Ok c1 -> pprop x "evaluation_points" = Ok p1 ->
    pprop y "space" = Ok s2 -> pprop y "component_count" = Ok c2 -> pprop y "evaluation_points" = Ok p2 ->
    pguard 6 (pb_add_guard PB) x y = Ok (negb (compatible s1 c1 p1 s2 c2 p2)) /\
    pguard 6 (p_guard SumPotentialOperator) x y = Ok (negb (compatible s1 c1 p1 s2 c2 p2)).
  Proof.
    intro C. first [vac C | idtac].
    all: intros x y s1 c1 p1 s2 c2 p2 X1 X2 X3 Y1 Y2 Y3.
    all: assert (E : forall s n, pprop (obj_of A s x y) n =
                            tabulated (fun s => pprop (obj_of A s x y)) s1 c1 p1 s2 c2 p2 s n)
      by (apply tabulated_ext; [|cbn [obj_of]; auto]; intros s Hs; destruct s; try congruence; cbn [obj_of]; auto).
    all: rewrite !pguard_as_oracle; rewrite !(pguard_o_ext _ _ _ _ E); unfold compatible.
    all: split; cbv -[Nat.eqb pprop obj_of];
      destruct (Nat.eqb c1 c2); destruct (Nat.eqb p1 p2); destruct (Nat.eqb s1 s2); reflexivity.
  Qed.

  (* ---- what the dunders build ---- *)
  Lemma elab_scal_l : potential_clean = true -> forall alpha a,
    pelab (UPScalL alpha a) = bind (pelab a) (fun x => Ok (PNew ScaledPotentialOperator x x alpha)).
  Proof. intro C. first [vac C | idtac]. all: intros; cbn [PotLang.pelab]; apply bind_ext; intro x; reflexivity. Qed.

  Lemma elab_scal_r : potential_clean = true -> forall alpha a,
    pelab (UPScalR a alpha) = bind (pelab a) (fun x => Ok (PNew ScaledPotentialOperator x x alpha)).
  Proof. intro C. first [vac C | idtac]. all: intros; cbn [PotLang.pelab]; apply bind_ext; intro x; reflexivity. Qed.

  Lemma elab_neg : potential_clean = true -> forall a,
    pelab (UPNeg a) = bind (pelab a) (fun x => Ok (PNew ScaledPotentialOperator x x (ropp r1))).
  Proof. intro C. first [vac C | idtac]. all: intros; cbn [PotLang.pelab]; apply bind_ext; intro x; reflexivity. Qed.

  Definition add_objects (x y : pop A) : res (pop A) :=
    bind (pguard 6 (pb_add_guard PB) x y) (fun raise => if raise then Err ValueError else
    bind (pguard 6 (p_guard SumPotentialOperator) x y) (fun raise2 => if raise2 then Err ValueError else
    Ok (PNew SumPotentialOperator x y r0))).

  Lemma elab_add : potential_clean = true -> forall a b,
    pelab (UPAdd a b) = bind (pelab a) (fun x => bind (pelab b) (fun y => add_objects x y)).
  Proof.
    intro C. first [vac C | idtac].
    all: intros; cbn [PotLang.pelab]; apply bind_ext; intro x; apply bind_ext; intro y; unfold add_objects.
    all: change (PotLang.pdeval A r0 r1 ropp rinv patoms PB potential_classes 8 (DAdd DSelf DOther) (PVop A x) (PVop A y))
      with (bind (pguard 6 (pb_add_guard PB) x y)
                 (fun raise => if raise then Err ValueError else pdeval 7 (pb_add PB) (PVop A x) (PVop A y))).
    all: destruct (pguard 6 (pb_add_guard PB) x y) as [[|]|]; cbn [bind]; try reflexivity.
    all: change (pdeval 7 (pb_add PB) (PVop A x) (PVop A y))
      with (bind (pguard 6 (p_guard SumPotentialOperator) x y)
                 (fun raise => if raise then Err ValueError else Ok (PVop A (PNew SumPotentialOperator x y r0)))).
    all: destruct (pguard 6 (p_guard SumPotentialOperator) x y) as [[|]|]; reflexivity.
  Qed.

  Lemma elab_sub : potential_clean = true -> forall a b,
    pelab (UPSub a b) = bind (pelab a) (fun x => bind (pelab b) (fun y =>
                          add_objects x (PNew ScaledPotentialOperator y y (ropp r1)))).
  Proof.
    intro C. first [vac C | idtac].
    all: intros; cbn [PotLang.pelab]; apply bind_ext; intro x; apply bind_ext; intro y; unfold add_objects.
    all: change (PotLang.pdeval A r0 r1 ropp rinv patoms PB potential_classes 8 (pb_sub PB) (PVop A x) (PVop A y))
      with (bind (pguard 6 (pb_add_guard PB) x (PNew ScaledPotentialOperator y y (ropp r1)))
                 (fun raise => if raise then Err ValueError
                               else pdeval 6 (pb_add PB) (PVop A x) (PVop A (PNew ScaledPotentialOperator y y (ropp r1))))).
    all: destruct (pguard 6 (pb_add_guard PB) x (PNew ScaledPotentialOperator y y (ropp r1))) as [[|]|]; cbn [bind];
      try reflexivity.
    all: change (pdeval 6 (pb_add PB) (PVop A x) (PVop A (PNew ScaledPotentialOperator y y (ropp r1))))
      with (bind (pguard 6 (p_guard SumPotentialOperator) x (PNew ScaledPotentialOperator y y (ropp r1)))
                 (fun raise => if raise then Err ValueError
                               else Ok (PVop A (PNew SumPotentialOperator x (PNew ScaledPotentialOperator y y (ropp r1)) r0)))).
    all: destruct (pguard 6 (p_guard SumPotentialOperator) x (PNew ScaledPotentialOperator y y (ropp r1))) as [[|]|];
      reflexivity.
  Qed.

  (* properties and evaluation of the derived objects *)
  Lemma props_scaled : potential_clean = true -> forall x alpha,
    pprop (PNew ScaledPotentialOperator x x alpha) "space" = pprop x "space" /\
    pprop (PNew ScaledPotentialOperator x x alpha) "component_count" = pprop x "component_count" /\
    pprop (PNew ScaledPotentialOperator x x alpha) "evaluation_points" = pprop x "evaluation_points".
  Proof. intro C. first [vac C | idtac]. all: intros; repeat split; reflexivity. Qed.

  Lemma props_sum : potential_clean = true -> forall x y alpha,
    pprop (PNew SumPotentialOperator x y alpha) "space" = pprop x "space" /\
    pprop (PNew SumPotentialOperator x y alpha) "component_count" = pprop x "component_count" /\
    pprop (PNew SumPotentialOperator x y alpha) "evaluation_points" = pprop x "evaluation_points".
  Proof. intro C. first [vac C | idtac]. all: intros; repeat split; reflexivity. Qed.

  Lemma props_atom : potential_clean = true -> forall i s c p m, patoms i = ((s, c, p), m) ->
    pprop (PAtom i) "space" = Ok s /\ pprop (PAtom i) "component_count" = Ok c /\
    pprop (PAtom i) "evaluation_points" = Ok p.
  Proof.
    intro C. first [vac C | idtac].
    all: intros i s c p m E; unfold PotLang.pprop, evaluator_attr; simpl; rewrite E; repeat split; reflexivity.
  Qed.

  Lemma eval_scaled : potential_clean = true -> forall x alpha coef,
    peval (PNew ScaledPotentialOperator x x alpha) coef =
    bind (peval x coef) (fun v => vmul A r0 radd rmul (VS alpha) v).
  Proof. intro C. first [vac C | idtac]. all: intros; reflexivity. Qed.

  Lemma eval_sum : potential_clean = true -> forall x y alpha coef,
    peval (PNew SumPotentialOperator x y alpha) coef =
    bind (peval x coef) (fun u => bind (peval y coef) (fun v => vadd A radd u v)).
  Proof. intro C. first [vac C | idtac]. all: intros; reflexivity. Qed.

  (* ---- the invariant ---- *)
  Definition pinv (e : upot A) : Prop :=
    match ptype_of e with
    | Some (s, c, p) =>
        rows (pden e) = prow c p /\ cols (pden e) = dim s /\
        exists o, pelab e = Ok o /\ pprop o "space" = Ok s /\ pprop o "component_count" = Ok c /\
                  pprop o "evaluation_points" = Ok p /\
                  forall coef, rows coef = dim s ->
                    exists m, peval o coef = Ok (VM m) /\ meq m (mmul (pden e) coef)
    | None => pelab e = Err ValueError
    end.

  Lemma add_objects_ok : potential_clean = true -> forall x y s c p,
    pprop x "space" = Ok s -> pprop x "component_count" = Ok c -> pprop x "evaluation_points" = Ok p ->
    pprop y "space" = Ok s -> pprop y "component_count" = Ok c -> pprop y "evaluation_points" = Ok p ->
    add_objects x y = Ok (PNew SumPotentialOperator x y r0).
  Proof.
    intros C x y s c p X1 X2 X3 Y1 Y2 Y3. unfold add_objects.
    destruct (guards_value C x y s c p s c p X1 X2 X3 Y1 Y2 Y3) as [G1 G2]. rewrite G1, G2.
    unfold compatible. rewrite !Nat.eqb_refl. reflexivity.
  Qed.

  Lemma add_objects_bad : potential_clean = true -> forall x y s1 c1 p1 s2 c2 p2,
    pprop x "space" = Ok s1 -> pprop x "component_count" = Ok c1 -> pprop x "evaluation_points" = Ok p1 ->
    pprop y "space" = Ok s2 -> pprop y "component_count" = Ok c2 -> pprop y "evaluation_points" = Ok p2 ->
    Nat.eqb s1 s2 && Nat.eqb c1 c2 && Nat.eqb p1 p2 = false ->
    add_objects x y = Err ValueError.
  Proof.
    intros C x y s1 c1 p1 s2 c2 p2 X1 X2 X3 Y1 Y2 Y3 N. unfold add_objects.
    destruct (guards_value C x y s1 c1 p1 s2 c2 p2 X1 X2 X3 Y1 Y2 Y3) as [G1 _]. rewrite G1. unfold compatible.
    replace (Nat.eqb c1 c2 && Nat.eqb p1 p2 && Nat.eqb s1 s2) with false; [reflexivity|].
    destruct (Nat.eqb s1 s2), (Nat.eqb c1 c2), (Nat.eqb p1 p2); simpl in *; congruence.
  Qed.

  Lemma pinv_all : potential_clean = true -> forall e, pinv e.
  Proof.
    intros C. induction e; unfold pinv in *; cbn [PotLang.ptype_of PotLang.pden].
    - (* atom *)
      assert (D := patoms_dims i). destruct (patoms i) as [[[s c] p] m] eqn:E. cbn [fst snd] in *.
      destruct D as [D1 D2]. destruct (props_atom C i s c p m E) as (P1 & P2 & P3).
      split; [assumption|]. split; [assumption|]. exists (PAtom i). repeat split; try assumption.
      intros coef Hc. eexists. split; [cbn [PotLang.peval]; rewrite E; reflexivity|reflexivity].
    - (* a + b *)
      rewrite (elab_add C).
      destruct (ptype_of e1) as [[[s1 c1] p1]|]; [|now rewrite IHe1].
      destruct IHe1 as (R1 & C1 & x & Ex & X1 & X2 & X3 & Vx). rewrite Ex. cbn [bind].
      destruct (ptype_of e2) as [[[s2 c2] p2]|]; [|now rewrite IHe2].
      destruct IHe2 as (R2 & C2 & y & Ey & Y1 & Y2 & Y3 & Vy). rewrite Ey. cbn [bind].
      destruct (Nat.eqb s1 s2 && Nat.eqb c1 c2 && Nat.eqb p1 p2) eqn:T.
      + apply andb_prop in T. destruct T as [T T3]. apply andb_prop in T. destruct T as [T1 T2].
        apply Nat.eqb_eq in T1, T2, T3. subst.
        split; [assumption|]. split; [assumption|].
        exists (PNew SumPotentialOperator x y r0). destruct (props_sum C x y r0) as (Q1 & Q2 & Q3).
        split; [now apply (add_objects_ok C x y s2 c2 p2)|]. rewrite Q1, Q2, Q3. repeat split; try assumption.
        intros coef Hc. destruct (Vx coef Hc) as (mx & Px & Mx). destruct (Vy coef Hc) as (my & Py & My).
        rewrite (eval_sum C), Px, Py. cbn [bind vadd]. eexists. split; [reflexivity|].
        rewrite (mmul_madd_r A r0 r1 radd rmul rsub ropp Rth) by congruence.
        apply madd_compat; try assumption. destruct Mx as (? & ? & _), My as (? & ? & _). unfold same_shape. cbn in *. split; congruence.
      + now apply (add_objects_bad C x y s1 c1 p1 s2 c2 p2).
    - (* a - b *)
      rewrite (elab_sub C).
      destruct (ptype_of e1) as [[[s1 c1] p1]|]; [|now rewrite IHe1].
      destruct IHe1 as (R1 & C1 & x & Ex & X1 & X2 & X3 & Vx). rewrite Ex. cbn [bind].
      destruct (ptype_of e2) as [[[s2 c2] p2]|]; [|now rewrite IHe2].
      destruct IHe2 as (R2 & C2 & y & Ey & Y1 & Y2 & Y3 & Vy). rewrite Ey. cbn [bind].
      destruct (props_scaled C y (ropp r1)) as (S1 & S2 & S3).
      destruct (Nat.eqb s1 s2 && Nat.eqb c1 c2 && Nat.eqb p1 p2) eqn:T.
      + apply andb_prop in T. destruct T as [T T3]. apply andb_prop in T. destruct T as [T1 T2].
        apply Nat.eqb_eq in T1, T2, T3. subst.
        split; [assumption|]. split; [assumption|].
        exists (PNew SumPotentialOperator x (PNew ScaledPotentialOperator y y (ropp r1)) r0).
        destruct (props_sum C x (PNew ScaledPotentialOperator y y (ropp r1)) r0) as (Q1 & Q2 & Q3).
        split; [apply (add_objects_ok C x _ s2 c2 p2); congruence|]. rewrite Q1, Q2, Q3. repeat split; try assumption.
        intros coef Hc. destruct (Vx coef Hc) as (mx & Px & Mx). destruct (Vy coef Hc) as (my & Py & My).
        rewrite (eval_sum C), Px, (eval_scaled C), Py. cbn [bind vadd vmul]. eexists. split; [reflexivity|].
        rewrite (mmul_madd_r A r0 r1 radd rmul rsub ropp Rth) by (cbn; congruence).
        apply madd_compat; try assumption.
        * transitivity (mscale (ropp r1) (mmul (pden e2) coef)); [now apply mscale_compat|].
          symmetry. apply (mscale_mmul_l A r0 r1 radd rmul rsub ropp Rth).
        * destruct Mx as (? & ? & _), My as (? & ? & _). unfold same_shape. cbn in *. split; congruence.
      + apply (add_objects_bad C x _ s1 c1 p1 s2 c2 p2); congruence.
    - (* - a *)
      rewrite (elab_neg C).
      destruct (ptype_of e) as [[[s c] p]|]; [|now rewrite IHe].
      destruct IHe as (R1 & C1 & x & Ex & X1 & X2 & X3 & Vx). rewrite Ex. cbn [bind].
      destruct (props_scaled C x (ropp r1)) as (S1 & S2 & S3).
      split; [assumption|]. split; [assumption|]. eexists. split; [reflexivity|]. rewrite S1, S2, S3.
      repeat split; try assumption. intros coef Hc. destruct (Vx coef Hc) as (mx & Px & Mx).
      rewrite (eval_scaled C), Px. cbn [bind vmul]. eexists. split; [reflexivity|].
      rewrite (mscale_mmul_l A r0 r1 radd rmul rsub ropp Rth). now apply mscale_compat.
    - (* alpha * a *)
      rewrite (elab_scal_l C).
      destruct (ptype_of e) as [[[s c] p]|]; [|now rewrite IHe].
      destruct IHe as (R1 & C1 & x & Ex & X1 & X2 & X3 & Vx). rewrite Ex. cbn [bind].
      destruct (props_scaled C x alpha) as (S1 & S2 & S3).
      split; [assumption|]. split; [assumption|]. eexists. split; [reflexivity|]. rewrite S1, S2, S3.
      repeat split; try assumption. intros coef Hc. destruct (Vx coef Hc) as (mx & Px & Mx).
      rewrite (eval_scaled C), Px. cbn [bind vmul]. eexists. split; [reflexivity|].
      rewrite (mscale_mmul_l A r0 r1 radd rmul rsub ropp Rth). now apply mscale_compat.
    - (* a * alpha *)
      rewrite (elab_scal_r C).
      destruct (ptype_of e) as [[[s c] p]|]; [|now rewrite IHe].
      destruct IHe as (R1 & C1 & x & Ex & X1 & X2 & X3 & Vx). rewrite Ex. cbn [bind].
      destruct (props_scaled C x alpha) as (S1 & S2 & S3).
      split; [assumption|]. split; [assumption|]. eexists. split; [reflexivity|]. rewrite S1, S2, S3.
      repeat split; try assumption. intros coef Hc. destruct (Vx coef Hc) as (mx & Px & Mx).
      rewrite (eval_scaled C), Px. cbn [bind vmul]. eexists. split; [reflexivity|].
      rewrite (mscale_mmul_l A r0 r1 radd rmul rsub ropp Rth). now apply mscale_compat.
  Qed.

  (* potential algebra of the current source, when its names resolve: a well-typed expression applied to a grid function
     evaluates to (matrix expression) * coefficients and keeps space, component count and points; an ill-typed one
     raises ValueError *)
  Theorem potential_algebra : potential_clean = true -> forall e,
    match ptype_of e with
    | Some (s, c, p) =>
        exists o, pelab e = Ok o /\ pprop o "space" = Ok s /\ pprop o "component_count" = Ok c /\
                  pprop o "evaluation_points" = Ok p /\
                  forall coef, rows coef = dim s ->
                    exists m, peval o coef = Ok (VM m) /\ meq m (mmul (pden e) coef)
    | None => pelab e = Err ValueError
    end.
  Proof.
    intros C e. assert (I := pinv_all C e). unfold pinv in I. destruct (ptype_of e) as [[[s c] p]|]; [|assumption].
    destruct I as (_ & _ & I). exact I.
  Qed.
End PA.

Lemma potential_clean_now : potential_clean = true.
Proof. reflexivity. Qed.
