(* C08: the Maxwell potential and far-field integrands (generated from maxwell_{e,m}field_{potential,far_field} of
   core/numba_kernels.py) in terms of the scalar Helmholtz kernel G, its gradient, and the far-field kernel. *)
From Coq Require Import Reals Lra Lia.
From Coquelicot Require Import Coquelicot.
From BVgen Require Import NumbaKernels MaxwellIntegrands.
From BV Require Import Kernels.KernelTactics Kernels.KernelDerive Kernels.C08Lemmas.
Open Scope R_scope.

Definition cadd (a b : R * R) : R * R := (fst a + fst b, snd a + snd b).
Definition csub (a b : R * R) : R * R := (fst a - fst b, snd a - snd b).
Definition cdiv (a b : R * R) : R * R :=
  ((fst a * fst b + snd a * snd b) / (fst b * fst b + snd b * snd b),
   (snd a * fst b - fst a * snd b) / (fst b * fst b + snd b * snd b)).
Definition ik (p0 p1 : R) : R * R := (- p1, p0).          (* i (p0 + i p1) *)

(* ---- the gradient slots of fmm.helpers.helmholtz_kernel are the partial derivatives of G w.r.t. the evaluation point *)
Lemma helmholtz_gradient_is_derivative x0 x1 x2 y0 y1 y2 nx0 nx1 nx2 ny0 ny1 ny2 p0 p1 :
  (x0, x1, x2) <> (y0, y1, y2) ->
  (is_derive (fun t => helmholtz_single_layer_regular_re (x0 + t) x1 x2 y0 y1 y2 nx0 nx1 nx2 ny0 ny1 ny2 p0 p1) 0
             (fmm_helmholtz_kernel_1_re x0 x1 x2 y0 y1 y2 p0 p1) /\
   is_derive (fun t => helmholtz_single_layer_regular_im (x0 + t) x1 x2 y0 y1 y2 nx0 nx1 nx2 ny0 ny1 ny2 p0 p1) 0
             (fmm_helmholtz_kernel_1_im x0 x1 x2 y0 y1 y2 p0 p1)) /\
  (is_derive (fun t => helmholtz_single_layer_regular_re x0 (x1 + t) x2 y0 y1 y2 nx0 nx1 nx2 ny0 ny1 ny2 p0 p1) 0
             (fmm_helmholtz_kernel_2_re x0 x1 x2 y0 y1 y2 p0 p1) /\
   is_derive (fun t => helmholtz_single_layer_regular_im x0 (x1 + t) x2 y0 y1 y2 nx0 nx1 nx2 ny0 ny1 ny2 p0 p1) 0
             (fmm_helmholtz_kernel_2_im x0 x1 x2 y0 y1 y2 p0 p1)) /\
  (is_derive (fun t => helmholtz_single_layer_regular_re x0 x1 (x2 + t) y0 y1 y2 nx0 nx1 nx2 ny0 ny1 ny2 p0 p1) 0
             (fmm_helmholtz_kernel_3_re x0 x1 x2 y0 y1 y2 p0 p1) /\
   is_derive (fun t => helmholtz_single_layer_regular_im x0 x1 (x2 + t) y0 y1 y2 nx0 nx1 nx2 ny0 ny1 ny2 p0 p1) 0
             (fmm_helmholtz_kernel_3_im x0 x1 x2 y0 y1 y2 p0 p1)).
Proof.
  intros Hne.
  unfold helmholtz_single_layer_regular_re, helmholtz_single_layer_regular_im,
         fmm_helmholtz_kernel_1_re, fmm_helmholtz_kernel_1_im, fmm_helmholtz_kernel_2_re, fmm_helmholtz_kernel_2_im,
         fmm_helmholtz_kernel_3_re, fmm_helmholtz_kernel_3_im, M_INV_4PI.
  destruct (Req_EM_T p1 0) as [e|e]; [subst p1|];
  (split; [|split]); split; derive_tac x0 x1 x2 y0 y1 y2 Hne.
Qed.

(* ---- potential integrands:  H = grad G x v ,  E = i k G v - (q / (i k)) grad G ---- *)
Section Potential.
Variables x0 x1 x2 y0 y1 y2 v0r v0i v1r v1i v2r v2i qr qi p0 p1 : R.
Hypothesis Hne : (x0, x1, x2) <> (y0, y1, y2).
Let G : R * R := helmholtz_single_layer_regular x0 x1 x2 y0 y1 y2 0 0 0 0 0 0 p0 p1.
Let g1 : R * R := (fmm_helmholtz_kernel_1_re x0 x1 x2 y0 y1 y2 p0 p1, fmm_helmholtz_kernel_1_im x0 x1 x2 y0 y1 y2 p0 p1).
Let g2 : R * R := (fmm_helmholtz_kernel_2_re x0 x1 x2 y0 y1 y2 p0 p1, fmm_helmholtz_kernel_2_im x0 x1 x2 y0 y1 y2 p0 p1).
Let g3 : R * R := (fmm_helmholtz_kernel_3_re x0 x1 x2 y0 y1 y2 p0 p1, fmm_helmholtz_kernel_3_im x0 x1 x2 y0 y1 y2 p0 p1).
Let v0 : R * R := (v0r, v0i).
Let v1 : R * R := (v1r, v1i).
Let v2 : R * R := (v2r, v2i).
Let q : R * R := (qr, qi).

Ltac unfold_all :=
  unfold G, g1, g2, g3, v0, v1, v2, q, cmul, csub, cadd, cdiv, ik, helmholtz_single_layer_regular; cbn [fst snd];
  unfold helmholtz_single_layer_regular_re, helmholtz_single_layer_regular_im,
         fmm_helmholtz_kernel_1_re, fmm_helmholtz_kernel_1_im, fmm_helmholtz_kernel_2_re, fmm_helmholtz_kernel_2_im,
         fmm_helmholtz_kernel_3_re, fmm_helmholtz_kernel_3_im, M_INV_4PI.

Lemma mfield_integrand_is_curl :
  (maxwell_mfield_potential_integrand_0_re x0 x1 x2 y0 y1 y2 (fst G) (snd G) v0r v0i v1r v1i v2r v2i qr qi p0 p1,
   maxwell_mfield_potential_integrand_0_im x0 x1 x2 y0 y1 y2 (fst G) (snd G) v0r v0i v1r v1i v2r v2i qr qi p0 p1)
    = csub (cmul g2 v2) (cmul g3 v1) /\
  (maxwell_mfield_potential_integrand_1_re x0 x1 x2 y0 y1 y2 (fst G) (snd G) v0r v0i v1r v1i v2r v2i qr qi p0 p1,
   maxwell_mfield_potential_integrand_1_im x0 x1 x2 y0 y1 y2 (fst G) (snd G) v0r v0i v1r v1i v2r v2i qr qi p0 p1)
    = csub (cmul g3 v0) (cmul g1 v2) /\
  (maxwell_mfield_potential_integrand_2_re x0 x1 x2 y0 y1 y2 (fst G) (snd G) v0r v0i v1r v1i v2r v2i qr qi p0 p1,
   maxwell_mfield_potential_integrand_2_im x0 x1 x2 y0 y1 y2 (fst G) (snd G) v0r v0i v1r v1i v2r v2i qr qi p0 p1)
    = csub (cmul g1 v1) (cmul g2 v0).
Proof.
  unfold maxwell_mfield_potential_integrand_0_re, maxwell_mfield_potential_integrand_0_im,
         maxwell_mfield_potential_integrand_1_re, maxwell_mfield_potential_integrand_1_im,
         maxwell_mfield_potential_integrand_2_re, maxwell_mfield_potential_integrand_2_im.
  unfold_all.
  repeat split; f_equal; kernel_eq x0 x1 x2 y0 y1 y2 Hne.
Qed.

Hypothesis Hk : p0 * p0 + p1 * p1 <> 0.

Lemma efield_integrand_form :
  (maxwell_efield_potential_integrand_0_re x0 x1 x2 y0 y1 y2 (fst G) (snd G) v0r v0i v1r v1i v2r v2i qr qi p0 p1,
   maxwell_efield_potential_integrand_0_im x0 x1 x2 y0 y1 y2 (fst G) (snd G) v0r v0i v1r v1i v2r v2i qr qi p0 p1)
    = csub (cmul (ik p0 p1) (cmul G v0)) (cmul (cdiv q (ik p0 p1)) g1) /\
  (maxwell_efield_potential_integrand_1_re x0 x1 x2 y0 y1 y2 (fst G) (snd G) v0r v0i v1r v1i v2r v2i qr qi p0 p1,
   maxwell_efield_potential_integrand_1_im x0 x1 x2 y0 y1 y2 (fst G) (snd G) v0r v0i v1r v1i v2r v2i qr qi p0 p1)
    = csub (cmul (ik p0 p1) (cmul G v1)) (cmul (cdiv q (ik p0 p1)) g2) /\
  (maxwell_efield_potential_integrand_2_re x0 x1 x2 y0 y1 y2 (fst G) (snd G) v0r v0i v1r v1i v2r v2i qr qi p0 p1,
   maxwell_efield_potential_integrand_2_im x0 x1 x2 y0 y1 y2 (fst G) (snd G) v0r v0i v1r v1i v2r v2i qr qi p0 p1)
    = csub (cmul (ik p0 p1) (cmul G v2)) (cmul (cdiv q (ik p0 p1)) g3).
Proof.
  unfold maxwell_efield_potential_integrand_0_re, maxwell_efield_potential_integrand_0_im,
         maxwell_efield_potential_integrand_1_re, maxwell_efield_potential_integrand_1_im,
         maxwell_efield_potential_integrand_2_re, maxwell_efield_potential_integrand_2_im.
  unfold_all.
  assert (Hk' : - p1 * - p1 + p0 * p0 <> 0) by (replace (- p1 * - p1 + p0 * p0) with (p0 * p0 + p1 * p1) by ring; exact Hk).
  repeat split; f_equal; kernel_eq x0 x1 x2 y0 y1 y2 Hne.
  all: try (let E0 := fresh in intro E0; apply Hk; rewrite E0; ring).
  all: match goal with
       | |- ?a * ?d * ?d * (?a * ?d * ?d) + ?b * ?d * ?d * (?b * ?d * ?d) <> 0 =>
           replace (a * d * d * (a * d * d) + b * d * d * (b * d * d)) with ((a * a + b * b) * (d * d * (d * d))) by ring;
           repeat apply Rmult_integral_contrapositive_currified; assumption
       end.
Qed.
End Potential.

(* ---- far-field integrands are complex-linear in the kernel value and do not otherwise depend on the source point ---- *)
Lemma far_field_integrands_linear x0 x1 x2 y0 y1 y2 z0 z1 z2 Gre Gim fr fi v0r v0i v1r v1i v2r v2i qr qi p0 p1 :
  let phi := (fr, fi) in let G := (Gre, Gim) in let G' := cmul phi G in
  (maxwell_efield_far_field_integrand_0_re x0 x1 x2 z0 z1 z2 (fst G') (snd G') v0r v0i v1r v1i v2r v2i qr qi p0 p1,
   maxwell_efield_far_field_integrand_0_im x0 x1 x2 z0 z1 z2 (fst G') (snd G') v0r v0i v1r v1i v2r v2i qr qi p0 p1)
  = cmul phi (maxwell_efield_far_field_integrand_0_re x0 x1 x2 y0 y1 y2 Gre Gim v0r v0i v1r v1i v2r v2i qr qi p0 p1,
              maxwell_efield_far_field_integrand_0_im x0 x1 x2 y0 y1 y2 Gre Gim v0r v0i v1r v1i v2r v2i qr qi p0 p1) /\
  (maxwell_efield_far_field_integrand_1_re x0 x1 x2 z0 z1 z2 (fst G') (snd G') v0r v0i v1r v1i v2r v2i qr qi p0 p1,
   maxwell_efield_far_field_integrand_1_im x0 x1 x2 z0 z1 z2 (fst G') (snd G') v0r v0i v1r v1i v2r v2i qr qi p0 p1)
  = cmul phi (maxwell_efield_far_field_integrand_1_re x0 x1 x2 y0 y1 y2 Gre Gim v0r v0i v1r v1i v2r v2i qr qi p0 p1,
              maxwell_efield_far_field_integrand_1_im x0 x1 x2 y0 y1 y2 Gre Gim v0r v0i v1r v1i v2r v2i qr qi p0 p1) /\
  (maxwell_efield_far_field_integrand_2_re x0 x1 x2 z0 z1 z2 (fst G') (snd G') v0r v0i v1r v1i v2r v2i qr qi p0 p1,
   maxwell_efield_far_field_integrand_2_im x0 x1 x2 z0 z1 z2 (fst G') (snd G') v0r v0i v1r v1i v2r v2i qr qi p0 p1)
  = cmul phi (maxwell_efield_far_field_integrand_2_re x0 x1 x2 y0 y1 y2 Gre Gim v0r v0i v1r v1i v2r v2i qr qi p0 p1,
              maxwell_efield_far_field_integrand_2_im x0 x1 x2 y0 y1 y2 Gre Gim v0r v0i v1r v1i v2r v2i qr qi p0 p1) /\
  (maxwell_mfield_far_field_integrand_0_re x0 x1 x2 z0 z1 z2 (fst G') (snd G') v0r v0i v1r v1i v2r v2i qr qi p0 p1,
   maxwell_mfield_far_field_integrand_0_im x0 x1 x2 z0 z1 z2 (fst G') (snd G') v0r v0i v1r v1i v2r v2i qr qi p0 p1)
  = cmul phi (maxwell_mfield_far_field_integrand_0_re x0 x1 x2 y0 y1 y2 Gre Gim v0r v0i v1r v1i v2r v2i qr qi p0 p1,
              maxwell_mfield_far_field_integrand_0_im x0 x1 x2 y0 y1 y2 Gre Gim v0r v0i v1r v1i v2r v2i qr qi p0 p1) /\
  (maxwell_mfield_far_field_integrand_1_re x0 x1 x2 z0 z1 z2 (fst G') (snd G') v0r v0i v1r v1i v2r v2i qr qi p0 p1,
   maxwell_mfield_far_field_integrand_1_im x0 x1 x2 z0 z1 z2 (fst G') (snd G') v0r v0i v1r v1i v2r v2i qr qi p0 p1)
  = cmul phi (maxwell_mfield_far_field_integrand_1_re x0 x1 x2 y0 y1 y2 Gre Gim v0r v0i v1r v1i v2r v2i qr qi p0 p1,
              maxwell_mfield_far_field_integrand_1_im x0 x1 x2 y0 y1 y2 Gre Gim v0r v0i v1r v1i v2r v2i qr qi p0 p1) /\
  (maxwell_mfield_far_field_integrand_2_re x0 x1 x2 z0 z1 z2 (fst G') (snd G') v0r v0i v1r v1i v2r v2i qr qi p0 p1,
   maxwell_mfield_far_field_integrand_2_im x0 x1 x2 z0 z1 z2 (fst G') (snd G') v0r v0i v1r v1i v2r v2i qr qi p0 p1)
  = cmul phi (maxwell_mfield_far_field_integrand_2_re x0 x1 x2 y0 y1 y2 Gre Gim v0r v0i v1r v1i v2r v2i qr qi p0 p1,
              maxwell_mfield_far_field_integrand_2_im x0 x1 x2 y0 y1 y2 Gre Gim v0r v0i v1r v1i v2r v2i qr qi p0 p1).
Proof.
  cbv zeta. unfold cmul; cbn [fst snd].
  unfold maxwell_efield_far_field_integrand_0_re, maxwell_efield_far_field_integrand_0_im,
         maxwell_efield_far_field_integrand_1_re, maxwell_efield_far_field_integrand_1_im,
         maxwell_efield_far_field_integrand_2_re, maxwell_efield_far_field_integrand_2_im,
         maxwell_mfield_far_field_integrand_0_re, maxwell_mfield_far_field_integrand_0_im,
         maxwell_mfield_far_field_integrand_1_re, maxwell_mfield_far_field_integrand_1_im,
         maxwell_mfield_far_field_integrand_2_re, maxwell_mfield_far_field_integrand_2_im.
  repeat split; f_equal; ring.
Qed.

(* ---- wrappers: component c (0,1,2) of each integrand as a complex pair; x = evaluation point / direction, y = quadrature
        point, G = kernel value, v = accumulated vector density (3 complex), q = accumulated divergence density ---- *)
Definition vec3 : Type := (R * R * R)%type.
Definition cvec3 : Type := ((R * R) * (R * R) * (R * R))%type.
Definition pick {A} (c : nat) (a b d : A) : A := match c with O => a | S O => b | _ => d end.

Definition mk_integrand (f0r f0i f1r f1i f2r f2i :
    R -> R -> R -> R -> R -> R -> R -> R -> R -> R -> R -> R -> R -> R -> R -> R -> R -> R -> R)
    (c : nat) (x y : vec3) (G : R * R) (v : cvec3) (q k : R * R) : R * R :=
  let '(x0, x1, x2) := x in let '(y0, y1, y2) := y in let '((v0r, v0i), (v1r, v1i), (v2r, v2i)) := v in
  let app f := f x0 x1 x2 y0 y1 y2 (fst G) (snd G) v0r v0i v1r v1i v2r v2i (fst q) (snd q) (fst k) (snd k) in
  pick c (app f0r, app f0i) (app f1r, app f1i) (app f2r, app f2i).

Definition efield_potential_integrand := mk_integrand
  maxwell_efield_potential_integrand_0_re maxwell_efield_potential_integrand_0_im maxwell_efield_potential_integrand_1_re
  maxwell_efield_potential_integrand_1_im maxwell_efield_potential_integrand_2_re maxwell_efield_potential_integrand_2_im.
Definition mfield_potential_integrand := mk_integrand
  maxwell_mfield_potential_integrand_0_re maxwell_mfield_potential_integrand_0_im maxwell_mfield_potential_integrand_1_re
  maxwell_mfield_potential_integrand_1_im maxwell_mfield_potential_integrand_2_re maxwell_mfield_potential_integrand_2_im.
Definition efield_far_field_integrand := mk_integrand
  maxwell_efield_far_field_integrand_0_re maxwell_efield_far_field_integrand_0_im maxwell_efield_far_field_integrand_1_re
  maxwell_efield_far_field_integrand_1_im maxwell_efield_far_field_integrand_2_re maxwell_efield_far_field_integrand_2_im.
Definition mfield_far_field_integrand := mk_integrand
  maxwell_mfield_far_field_integrand_0_re maxwell_mfield_far_field_integrand_0_im maxwell_mfield_far_field_integrand_1_re
  maxwell_mfield_far_field_integrand_1_im maxwell_mfield_far_field_integrand_2_re maxwell_mfield_far_field_integrand_2_im.

Definition G_helm (x y : vec3) (k : R * R) : R * R :=
  let '(x0, x1, x2) := x in let '(y0, y1, y2) := y in
  helmholtz_single_layer_regular x0 x1 x2 y0 y1 y2 0 0 0 0 0 0 (fst k) (snd k).
Definition G_ff (x y : vec3) (k : R * R) : R * R :=
  let '(x0, x1, x2) := x in let '(y0, y1, y2) := y in
  helmholtz_far_field_single_layer x0 x1 x2 y0 y1 y2 0 0 0 0 0 0 (fst k) (snd k).
(* gradient of G_helm w.r.t. the evaluation point, from fmm.helpers.helmholtz_kernel (is_derive: helmholtz_gradient_is_derivative) *)
Definition gradG (c : nat) (x y : vec3) (k : R * R) : R * R :=
  let '(x0, x1, x2) := x in let '(y0, y1, y2) := y in
  pick c (fmm_helmholtz_kernel_1_re x0 x1 x2 y0 y1 y2 (fst k) (snd k), fmm_helmholtz_kernel_1_im x0 x1 x2 y0 y1 y2 (fst k) (snd k))
         (fmm_helmholtz_kernel_2_re x0 x1 x2 y0 y1 y2 (fst k) (snd k), fmm_helmholtz_kernel_2_im x0 x1 x2 y0 y1 y2 (fst k) (snd k))
         (fmm_helmholtz_kernel_3_re x0 x1 x2 y0 y1 y2 (fst k) (snd k), fmm_helmholtz_kernel_3_im x0 x1 x2 y0 y1 y2 (fst k) (snd k)).
Definition vcomp (c : nat) (v : cvec3) : R * R := let '(a, b, d) := v in pick c a b d.
Definition vadd (y t : vec3) : vec3 :=
  let '(y0, y1, y2) := y in let '(t0, t1, t2) := t in (y0 + t0, y1 + t1, y2 + t2).
Definition vdot (x t : vec3) : R := let '(x0, x1, x2) := x in let '(t0, t1, t2) := t in dot3 x0 x1 x2 t0 t1 t2.

(* H integrand = (grad G x v)_c ;  E integrand = i k G v_c - (q / (i k)) (grad G)_c *)
Lemma maxwell_potential_integrands (c : nat) (x y : vec3) (v : cvec3) (q k : R * R) :
  (c < 3)%nat -> x <> y ->
  mfield_potential_integrand c x y (G_helm x y k) v q k
    = csub (cmul (gradG ((c + 1) mod 3) x y k) (vcomp ((c + 2) mod 3) v))
           (cmul (gradG ((c + 2) mod 3) x y k) (vcomp ((c + 1) mod 3) v)) /\
  (fst k * fst k + snd k * snd k <> 0 ->
   efield_potential_integrand c x y (G_helm x y k) v q k
     = csub (cmul (ik (fst k) (snd k)) (cmul (G_helm x y k) (vcomp c v)))
            (cmul (cdiv q (ik (fst k) (snd k))) (gradG c x y k))).
Proof.
  destruct x as [[x0 x1] x2], y as [[y0 y1] y2], v as [[[v0r v0i] [v1r v1i]] [v2r v2i]], q as [qr qi], k as [p0 p1].
  intros Hc Hne.
  assert (Hne' : (x0, x1, x2) <> (y0, y1, y2)) by exact Hne.
  pose proof (mfield_integrand_is_curl x0 x1 x2 y0 y1 y2 v0r v0i v1r v1i v2r v2i qr qi p0 p1 Hne') as [M0 [M1 M2]].
  split.
  - destruct c as [|[|[|c]]]; [exact M0|exact M1|exact M2|exfalso; lia].
  - cbn [fst snd]. intros Hk.
    pose proof (efield_integrand_form x0 x1 x2 y0 y1 y2 v0r v0i v1r v1i v2r v2i qr qi p0 p1 Hne' Hk) as [E0 [E1 E2]].
    destruct c as [|[|[|c]]]; [exact E0|exact E1|exact E2|exfalso; lia].
Qed.

(* real k: translating the source by t multiplies every component of both Maxwell far-field integrands by exp(-ik xhat.t)
   (v, q are the densities at the quadrature point and move with the grid) *)
Lemma maxwell_far_field_translation (c : nat) (x y t : vec3) (v : cvec3) (q : R * R) (k : R) :
  (c < 3)%nat ->
  efield_far_field_integrand c x (vadd y t) (G_ff x (vadd y t) (k, 0)) v q (k, 0)
    = cmul (cexp_mik k 0 (vdot x t)) (efield_far_field_integrand c x y (G_ff x y (k, 0)) v q (k, 0)) /\
  mfield_far_field_integrand c x (vadd y t) (G_ff x (vadd y t) (k, 0)) v q (k, 0)
    = cmul (cexp_mik k 0 (vdot x t)) (mfield_far_field_integrand c x y (G_ff x y (k, 0)) v q (k, 0)).
Proof.
  destruct x as [[x0 x1] x2], y as [[y0 y1] y2], t as [[t0 t1] t2], v as [[[v0r v0i] [v1r v1i]] [v2r v2i]], q as [qr qi].
  intros Hc.
  pose proof (far_field_translation x0 x1 x2 y0 y1 y2 t0 t1 t2 0 0 0 0 0 0 k) as [T _].
  unfold G_ff, vadd, vdot; cbn [fst snd]. rewrite T.
  destruct (helmholtz_far_field_single_layer x0 x1 x2 y0 y1 y2 0 0 0 0 0 0 k 0) as [Gre Gim].
  destruct (cexp_mik k 0 (dot3 x0 x1 x2 t0 t1 t2)) as [fr fi].
  pose proof (far_field_integrands_linear x0 x1 x2 y0 y1 y2 (y0 + t0) (y1 + t1) (y2 + t2) Gre Gim fr fi
                v0r v0i v1r v1i v2r v2i qr qi k 0) as L. cbv zeta in L.
  destruct L as [L0 [L1 [L2 [L3 [L4 L5]]]]].
  unfold efield_far_field_integrand, mfield_far_field_integrand, mk_integrand; cbn [fst snd].
  destruct c as [|[|[|c]]]; cbn [pick];
    [split; assumption|split; assumption|split; assumption|exfalso; lia].
Qed.
