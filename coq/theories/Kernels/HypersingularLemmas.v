(* C05: the hypersingular assemblers of core/numba_kernels.py integrate  G(x,y) (curl_t . curl_s + M phi_t phi_s n_t . n_s)
   with G the single-layer kernel of the family and M the complex factor translated into gen/Hypersingular.v:
   M = 0 (Laplace), M = -k^2 (Helmholtz, complex k), M = +w^2 (modified Helmholtz); same factor in the regular and the singular
   assembler; family laws k = 0, k = i w, -conj k. *)
From Coq Require Import Reals Lra String List Bool.
From BVgen Require Import NumbaKernels Hypersingular Dispatch.
From BV Require Import Kernels.KernelTactics Kernels.DispatchModel Kernels.C05Lemmas.
Import ListNotations.
Open Scope R_scope.
Open Scope string_scope.

Definition mass_of (tbl : list (string * string)) (assembly_type : string) : option (R -> R -> R * R) :=
  match assoc assembly_type tbl with Some fn => hyp_mass fn | None => None end.

(* l, h, m = mass factors of the laplace_/helmholtz_/modified_helmholtz_hypersingular assembler of the table *)
Definition hyp_family_ok (tbl : list (string * string)) : Prop :=
  exists l h m,
    mass_of tbl "laplace_hypersingular" = Some l /\ mass_of tbl "helmholtz_hypersingular" = Some h /\
    mass_of tbl "modified_helmholtz_hypersingular" = Some m /\
    (forall p0 p1, l p0 p1 = (0, 0)) /\
    (forall kr ki, h kr ki = (- (kr * kr - ki * ki), - (2 * kr * ki))) /\       (* - k^2 *)
    (forall w q, m w q = (w * w, 0)) /\                                          (* + w^2 *)
    h 0 0 = (0, 0) /\                                                            (* k = 0 : Laplace *)
    (forall w q, h 0 w = m w q) /\                                               (* k = i w : modified Helmholtz *)
    (forall kr ki, h (- kr) ki = conjp (h kr ki)).                               (* -conj k conjugates *)

Ltac hyp_tac :=
  eexists; eexists; eexists; split; [reflexivity | split; [reflexivity | split; [reflexivity |]]];
  repeat split; intros;
  match goal with
  | |- ?f _ _ = conjp (?g _ _) => unfold conjp, f; cbn [fst snd]; f_equal; ring
  | |- ?f _ _ = ?g _ _ => unfold f, g; f_equal; ring
  | |- ?f _ _ = _ => unfold f; f_equal; ring
  end.

Lemma hyp_family_regular : hyp_family_ok numba_assembly_functions_regular.
Proof. hyp_tac. Qed.

Lemma hyp_family_singular : hyp_family_ok numba_assembly_functions_singular.
Proof. hyp_tac. Qed.

(* the Green's function each hypersingular factory asks for: the single-layer kernel of its own family, and the
   hypersingular assembler of its own family *)
Definition is_hypersingular (f : factory) : bool := String.eqb (f_name f) "hypersingular".

Lemma hypersingular_factories_kernels :
  Forall (fun f => f_kernel_type f = f_module f ++ "_single_layer" /\ f_assembly_type f = f_module f ++ "_hypersingular")
         (filter is_hypersingular factories) /\ length (filter is_hypersingular factories) = 3%nat.
Proof.
  split; [|reflexivity].
  cbv [filter factories is_hypersingular f_name String.eqb Ascii.eqb Bool.eqb].
  repeat (apply Forall_cons; [split; reflexivity|]). apply Forall_nil.
Qed.

(* integrand at one pair of quadrature points: G (c + M m), c = curl product, m = phi_t phi_s n_t.n_s (both real) *)
Definition hyp_integrand (G M : R * R) (c m : R) : R * R :=
  (fst G * (c + fst M * m) - snd G * (snd M * m), fst G * (snd M * m) + snd G * (c + fst M * m)).

(* whole integrand, regular (= singular: same G law by C05_family_*, same M) : k = i w gives the modified Helmholtz integrand *)
Lemma hyp_integrand_imaginary_k x0 x1 x2 y0 y1 y2 nx0 nx1 nx2 ny0 ny1 ny2 w q c m :
  (x0, x1, x2) <> (y0, y1, y2) ->
  hyp_integrand (helmholtz_single_layer_regular x0 x1 x2 y0 y1 y2 nx0 nx1 nx2 ny0 ny1 ny2 0 w)
                (hyp_mass_helmholtz_hypersingular_regular 0 w) c m
  = hyp_integrand (modified_helmholtz_single_layer_regular x0 x1 x2 y0 y1 y2 nx0 nx1 nx2 ny0 ny1 ny2 w q)
                  (hyp_mass_modified_helmholtz_hypersingular_regular w q) c m /\
  hyp_integrand (helmholtz_single_layer_singular x0 x1 x2 y0 y1 y2 nx0 nx1 nx2 ny0 ny1 ny2 0 w)
                (hyp_mass_helmholtz_hypersingular_singular 0 w) c m
  = hyp_integrand (modified_helmholtz_single_layer_singular x0 x1 x2 y0 y1 y2 nx0 nx1 nx2 ny0 ny1 ny2 w q)
                  (hyp_mass_modified_helmholtz_hypersingular_singular w q) c m.
Proof.
  intros Hne.
  destruct (proj1 (Forall_forall _ _) family_regular "single_layer" ltac:(simpl; auto)) as [h [l [mm [Eh [El [Em F]]]]]].
  destruct (proj1 (Forall_forall _ _) family_singular "single_layer" ltac:(simpl; auto)) as [h' [l' [mm' [Eh' [El' [Em' F']]]]]].
  inversion Eh; inversion Em; inversion Eh'; inversion Em'; subst.
  destruct (F x0 x1 x2 y0 y1 y2 nx0 nx1 nx2 ny0 ny1 ny2 Hne) as [_ [A _]].
  destruct (F' x0 x1 x2 y0 y1 y2 nx0 nx1 nx2 ny0 ny1 ny2 Hne) as [_ [A' _]].
  rewrite (A w q), (A' w q).
  split; unfold hyp_integrand, hyp_mass_helmholtz_hypersingular_regular, hyp_mass_modified_helmholtz_hypersingular_regular,
    hyp_mass_helmholtz_hypersingular_singular, hyp_mass_modified_helmholtz_hypersingular_singular; cbn [fst snd]; f_equal; ring.
Qed.
