(* |e^z - 1 - z| <= |z|^2 for complex z = a + i b with |z| <= 1, by comparison of second derivatives along the ray t z
   (no complex analysis), and the small-wavenumber bound of the Helmholtz single-layer kernel for general complex k. *)
From Coq Require Import Reals Lra.
From Coquelicot Require Import Coquelicot.
From BVgen Require Import NumbaKernels.
From BV Require Import Kernels.KernelTactics Kernels.SmallK.
Open Scope R_scope.

Lemma cauchy_schwarz2 c s P Q M : 0 <= M -> P * P + Q * Q = M * M -> c * P + s * Q <= sqrt (c * c + s * s) * M.
Proof.
  intros HM E.
  assert (Hn : 0 <= c * c + s * s) by nra.
  pose proof (sqrt_pos (c * c + s * s)) as Hs. pose proof (sqrt_sqrt _ Hn) as Hss.
  set (N := sqrt (c * c + s * s)) in *.
  apply Rsqr_incr_0_var; [|apply Rmult_le_pos; assumption].
  unfold Rsqr.
  replace (N * M * (N * M)) with ((c * c + s * s) * (P * P + Q * Q)) by (rewrite E, <- Hss; ring).
  pose proof (Rle_0_sqr (c * Q - s * P)) as Hsq. unfold Rsqr in Hsq.
  replace ((c * c + s * s) * (P * P + Q * Q))
    with ((c * P + s * Q) * (c * P + s * Q) + (c * Q - s * P) * (c * Q - s * P)) by ring.
  lra.
Qed.

Section Ray.
Variables a b : R.
Hypothesis Hz : a * a + b * b <= 1.
Let m := a * a + b * b.
Definition gX (t : R) : R := exp (t * a) * cos (t * b) - 1 - t * a.
Definition gY (t : R) : R := exp (t * a) * sin (t * b) - t * b.
Definition gX1 (t : R) : R := exp (t * a) * (a * cos (t * b) - b * sin (t * b)) - a.
Definition gY1 (t : R) : R := exp (t * a) * (a * sin (t * b) + b * cos (t * b)) - b.
Definition gX2 (t : R) : R := exp (t * a) * ((a * a - b * b) * cos (t * b) - 2 * a * b * sin (t * b)).
Definition gY2 (t : R) : R := exp (t * a) * ((a * a - b * b) * sin (t * b) + 2 * a * b * cos (t * b)).
(* comparison function  H'' = e^{ta},  H(0) = H'(0) = 0 *)
Definition cH (t : R) : R := if Req_EM_T a 0 then t * t / 2 else (exp (t * a) - 1 - t * a) / (a * a).
Definition cH1 (t : R) : R := if Req_EM_T a 0 then t else (exp (t * a) - 1) / a.

Lemma second_norm t : gX2 t * gX2 t + gY2 t * gY2 t = (exp (t * a) * m) * (exp (t * a) * m).
Proof.
  unfold gX2, gY2, m. pose proof (sin2_cos2 (t * b)) as T. unfold Rsqr in T.
  set (C := cos (t * b)) in *. set (S := sin (t * b)) in *. set (E := exp (t * a)).
  transitivity (E * E * ((a * a + b * b) * (a * a + b * b)) * (S * S + C * C)); [ring|rewrite T; ring].
Qed.

Lemma ray_bound c s : c * gX 1 + s * gY 1 <= sqrt (c * c + s * s) * m.
Proof.
  set (N := sqrt (c * c + s * s)).
  assert (HN : 0 <= N) by apply sqrt_pos.
  assert (Hm : 0 <= m) by (unfold m; nra).
  assert (Ha : -1 <= a <= 1) by (unfold m in *; nra).
  (* D = N m cH - (c gX + s gY) *)
  assert (D2 : forall t, 0 <= N * m * exp (t * a) - (c * gX2 t + s * gY2 t)).
  { intros t. pose proof (cauchy_schwarz2 c s (gX2 t) (gY2 t) (exp (t * a) * m)
                           ltac:(apply Rmult_le_pos; [left; apply exp_pos|exact Hm]) (second_norm t)) as CS.
    fold N in CS. lra. }
  assert (D1 : forall t, 0 <= t <= 1 -> 0 <= N * m * cH1 t - (c * gX1 t + s * gY1 t)).
  { intros t Ht.
    pose proof (nondecr_from_0 (fun u => N * m * cH1 u - (c * gX1 u + s * gY1 u))
                               (fun u => N * m * exp (u * a) - (c * gX2 u + s * gY2 u)) t (proj1 Ht)) as H.
    cbv beta in H.
    assert (Z : N * m * cH1 0 - (c * gX1 0 + s * gY1 0) = 0).
    { unfold cH1, gX1, gY1. rewrite !Rmult_0_l, exp_0, cos_0, sin_0. destruct (Req_EM_T a 0); [ring|field; assumption]. }
    rewrite Z in H. apply H.
    - intros u _. unfold cH1, gX1, gY1, gX2, gY2. destruct (Req_EM_T a 0) as [e|e].
      + auto_derive; auto. rewrite e, ?Rmult_0_r, ?Rmult_0_l, ?exp_0. ring.
      + auto_derive; auto. field. exact e.
    - intros u _. apply D2. }
  pose proof (nondecr_from_0 (fun u => N * m * cH u - (c * gX u + s * gY u))
                             (fun u => N * m * cH1 u - (c * gX1 u + s * gY1 u)) 1 ltac:(lra)) as H.
  cbv beta in H.
  assert (Z : N * m * cH 0 - (c * gX 0 + s * gY 0) = 0).
  { unfold cH, gX, gY. rewrite !Rmult_0_l, exp_0, cos_0, sin_0. destruct (Req_EM_T a 0); [field|field; assumption]. }
  rewrite Z in H.
  assert (D0 : 0 <= N * m * cH 1 - (c * gX 1 + s * gY 1)).
  { apply H.
    - intros u _. unfold cH, cH1, gX, gY, gX1, gY1. destruct (Req_EM_T a 0) as [e|e].
      + auto_derive; auto. rewrite e, ?Rmult_0_r, ?Rmult_0_l, ?exp_0. field.
      + auto_derive; auto. field. exact e.
    - intros u Hu. apply D1. exact Hu. }
  (* cH 1 <= 1 *)
  assert (H1 : cH 1 <= 1).
  { unfold cH. destruct (Req_EM_T a 0) as [e|e]; [lra|].
    rewrite Rmult_1_l. pose proof (exp_remainder a Ha) as [_ E].
    apply (Rmult_le_reg_r (a * a)); [nra|]. unfold Rdiv. rewrite Rmult_assoc, Rinv_l by nra. lra. }
  assert (N * m * cH 1 <= N * m) by (assert (0 <= N * m) by (apply Rmult_le_pos; assumption); nra).
  lra.
Qed.

(* |e^z - 1 - z|^2 <= |z|^4 *)
Lemma cexp_remainder :
  (exp a * cos b - 1 - a) * (exp a * cos b - 1 - a) + (exp a * sin b - b) * (exp a * sin b - b) <= m * m.
Proof.
  pose proof (ray_bound (gX 1) (gY 1)) as B.
  assert (EX : gX 1 = exp a * cos b - 1 - a) by (unfold gX; rewrite !Rmult_1_l; reflexivity).
  assert (EY : gY 1 = exp a * sin b - b) by (unfold gY; rewrite !Rmult_1_l; reflexivity).
  rewrite <- EX, <- EY. set (X := gX 1) in *. set (Y := gY 1) in *.
  assert (Hn : 0 <= X * X + Y * Y) by nra.
  pose proof (sqrt_pos (X * X + Y * Y)) as Hs. pose proof (sqrt_sqrt _ Hn) as Hss.
  set (N := sqrt (X * X + Y * Y)) in *.
  assert (Hm : 0 <= m) by (unfold m; nra).
  (* N^2 <= N m  ->  N <= m *)
  assert (N <= m). { destruct (Req_dec N 0) as [Z|Z]; [lra|]. assert (0 < N) by lra. nra. }
  rewrite <- Hss. nra.
Qed.
End Ray.

(* complex k = kr + i ki with |k| r <= 1:  |K_helm - K_lap - i k/(4 pi)| <= |k|^2 r/(4 pi)  (squared moduli), all x <> y *)
Lemma helmholtz_sl_small_complex_k x0 x1 x2 y0 y1 y2 nx0 nx1 nx2 ny0 ny1 ny2 kr ki p q :
  (x0, x1, x2) <> (y0, y1, y2) ->
  let r := sqrt (r2 x0 x1 x2 y0 y1 y2) in
  (kr * kr + ki * ki) * (r * r) <= 1 ->
  let re := helmholtz_single_layer_regular_re x0 x1 x2 y0 y1 y2 nx0 nx1 nx2 ny0 ny1 ny2 kr ki in
  let im := helmholtz_single_layer_regular_im x0 x1 x2 y0 y1 y2 nx0 nx1 nx2 ny0 ny1 ny2 kr ki in
  let l := laplace_single_layer_regular_re x0 x1 x2 y0 y1 y2 nx0 nx1 nx2 ny0 ny1 ny2 p q in
  (re - l - (- ki) / (4 * PI)) * (re - l - (- ki) / (4 * PI)) + (im - kr / (4 * PI)) * (im - kr / (4 * PI))
  <= ((kr * kr + ki * ki) * r / (4 * PI)) * ((kr * kr + ki * ki) * r / (4 * PI)).
Proof.
  intros Hne r Hk re im l.
  destruct (helmholtz_sl_explicit x0 x1 x2 y0 y1 y2 nx0 nx1 nx2 ny0 ny1 ny2 Hne kr ki) as [E1 [E2 _]].
  destruct (helmholtz_sl_explicit x0 x1 x2 y0 y1 y2 nx0 nx1 nx2 ny0 ny1 ny2 Hne p q) as [_ [_ E3]].
  unfold re, im, l. rewrite E1, E2, E3. clear E1 E2 E3 re im l. fold r.
  assert (Hr : 0 < r) by (exact (sqrt_r2_pos _ _ _ _ _ _ Hne)).
  set (a := - ki * r). set (b := kr * r).
  assert (Hz : a * a + b * b <= 1) by (unfold a, b; nra).
  pose proof (cexp_remainder a b Hz) as C.
  replace (exp (- ki * r)) with (exp a) by reflexivity. replace (kr * r) with b by reflexivity.
  pose proof PI_RGT_0 as Pp. assert (A : 0 < 4 * PI * r) by nra.
  set (w := / (4 * PI * r)). assert (Hw : 0 < w) by (apply Rinv_0_lt_compat; exact A).
  replace (cos b * exp a / (4 * PI * r) - 1 / (4 * PI * r) - - ki / (4 * PI)) with ((exp a * cos b - 1 - a) * w)
    by (unfold w, a; field; split; lra).
  replace (sin b * exp a / (4 * PI * r) - kr / (4 * PI)) with ((exp a * sin b - b) * w) by (unfold w, b; field; split; lra).
  replace ((kr * kr + ki * ki) * r / (4 * PI)) with ((a * a + b * b) * w) by (unfold w, a, b; field; split; lra).
  set (X := exp a * cos b - 1 - a) in *. set (Y := exp a * sin b - b) in *. set (mm := a * a + b * b) in *.
  replace (X * w * (X * w) + Y * w * (Y * w)) with ((X * X + Y * Y) * (w * w)) by ring.
  replace (mm * w * (mm * w)) with (mm * mm * (w * w)) by ring.
  apply Rmult_le_compat_r; [nra|exact C].
Qed.

(* ---- double layer / adjoint double layer: |(1 - z) e^z - 1| <= |z|^2 for |z| <= 1 ---- *)
From Interval Require Import Tactic.
From Coq Require Import String List.
From BV Require Import Kernels.Invariance.

(* e^a (a - 1) + 1 <= a^2 on [-1, 1] (equality at a = 0 and a = 1) *)
Lemma exp_remainder2 a : -1 <= a <= 1 -> exp a * (a - 1) + 1 <= a * a.
Proof.
  intros Ha.
  destruct (Rle_dec a 0) as [N|N].
  - (* n(u) = M(-u), n' = u (2 - e^-u) >= 0 *)
    pose proof (nondecr_from_0 (fun u => u * u - 1 + exp (- u) * (u + 1)) (fun u => u * (2 - exp (- u))) (- a) ltac:(lra)) as H.
    cbv beta in H. rewrite Ropp_0, exp_0 in H. rewrite Ropp_involutive in H.
    assert (0 * 0 - 1 + 1 * (0 + 1) <= - a * - a - 1 + exp a * (- a + 1)); [|nra].
    apply H.
    + intros u _. auto_derive; auto. ring.
    + intros u Hu. assert (exp (- u) <= 1) by (rewrite <- exp_0; destruct (Req_dec u 0) as [Z|Z];
        [subst u; rewrite Ropp_0; lra | left; apply exp_increasing; lra]).
      apply Rmult_le_pos; lra.
  - assert (Hp : 0 < a) by lra.
    destruct (Rle_dec a (1/8)) as [S|S].
    + (* M' = a (2 - e^a) >= 0 on [0, 1/8] *)
      pose proof (nondecr_from_0 (fun u => u * u - 1 - exp u * (u - 1)) (fun u => u * (2 - exp u)) a ltac:(lra)) as H.
      cbv beta in H. rewrite exp_0 in H.
      assert (0 * 0 - 1 - 1 * (0 - 1) <= a * a - 1 - exp a * (a - 1)); [|lra].
      apply H.
      * intros u _. auto_derive; auto. ring.
      * intros u Hu. assert (Hu2 : 0 <= u <= 1/8) by lra. assert (exp u <= 2) by (interval with (i_prec 64)).
        apply Rmult_le_pos; lra.
    + destruct (Rle_dec a (7/8)) as [T|T].
      * assert (Hb : 1/8 <= a <= 7/8) by lra.
        assert (0 <= a * a - 1 - exp a * (a - 1)) by (interval with (i_bisect a, i_prec 64, i_depth 20)). lra.
      * (* n(u) = M(1 - u), n' = -(1-u)(2 - e^{1-u}) >= 0 while e^{1-u} >= 2 *)
        pose proof (nondecr_from_0 (fun u => (1 - u) * (1 - u) - 1 - exp (1 - u) * ((1 - u) - 1))
                                   (fun u => (1 - u) * (exp (1 - u) - 2)) (1 - a) ltac:(lra)) as H.
        cbv beta in H. replace (1 - (1 - a)) with a in H by ring. rewrite Rminus_0_r in H.
        assert ((1 * 1 - 1 - exp 1 * (1 - 1)) <= a * a - 1 - exp a * (a - 1)); [|lra].
        apply H.
        -- intros u _. auto_derive; auto. unfold Rminus. ring.
        -- intros u Hu. assert (Hu2 : 7/8 <= 1 - u <= 1) by lra. set (w := 1 - u) in *.
           assert (2 <= exp w) by (interval with (i_prec 64)). apply Rmult_le_pos; lra.
Qed.

Section Ray2.
Variables a b : R.
Hypothesis Hz : a * a + b * b <= 1.
Let m := a * a + b * b.
Definition hX (t : R) : R := exp (t * a) * ((1 - t * a) * cos (t * b) + t * b * sin (t * b)) - 1.
Definition hY (t : R) : R := exp (t * a) * ((1 - t * a) * sin (t * b) - t * b * cos (t * b)).
Definition cK (t : R) : R := if Req_EM_T a 0 then t * t / 2 else (exp (t * a) * (t * a - 1) + 1) / (a * a).

Lemma ray2_bound c s : c * hX 1 + s * hY 1 <= sqrt (c * c + s * s) * m.
Proof.
  set (N := sqrt (c * c + s * s)).
  assert (HN : 0 <= N) by apply sqrt_pos.
  assert (Hm : 0 <= m) by (unfold m; nra).
  assert (Ha : -1 <= a <= 1) by (unfold m in *; nra).
  pose proof (nondecr_from_0 (fun u => N * m * cK u - (c * hX u + s * hY u))
                             (fun u => u * (N * m * exp (u * a) + (c * gX2 a b u + s * gY2 a b u))) 1 ltac:(lra)) as H.
  cbv beta in H.
  assert (Z : N * m * cK 0 - (c * hX 0 + s * hY 0) = 0).
  { unfold cK, hX, hY. rewrite !Rmult_0_l, exp_0, cos_0, sin_0. destruct (Req_EM_T a 0); [field|field; assumption]. }
  rewrite Z in H.
  assert (D0 : 0 <= N * m * cK 1 - (c * hX 1 + s * hY 1)).
  { apply H.
    - intros u _. unfold cK, hX, hY, gX2, gY2. destruct (Req_EM_T a 0) as [e|e].
      + auto_derive; auto. rewrite e, ?Rmult_0_r, ?Rmult_0_l, ?exp_0. field.
      + auto_derive; auto. field. exact e.
    - intros u Hu.
      pose proof (cauchy_schwarz2 (- c) (- s) (gX2 a b u) (gY2 a b u) (exp (u * a) * m)
                    ltac:(apply Rmult_le_pos; [left; apply exp_pos|exact Hm]) (second_norm a b u)) as CS.
      replace (- c * - c + - s * - s) with (c * c + s * s) in CS by ring. fold N in CS.
      apply Rmult_le_pos; [lra|]. lra. }
  assert (H1 : cK 1 <= 1).
  { unfold cK. destruct (Req_EM_T a 0) as [e|e]; [lra|].
    rewrite !Rmult_1_l. pose proof (exp_remainder2 a Ha) as E.
    apply (Rmult_le_reg_r (a * a)); [nra|]. unfold Rdiv. rewrite Rmult_assoc, Rinv_l by nra. lra. }
  assert (N * m * cK 1 <= N * m) by (assert (0 <= N * m) by (apply Rmult_le_pos; assumption); nra).
  lra.
Qed.

Lemma cexp_remainder2 : hX 1 * hX 1 + hY 1 * hY 1 <= m * m.
Proof.
  pose proof (ray2_bound (hX 1) (hY 1)) as B. set (X := hX 1) in *. set (Y := hY 1) in *.
  assert (Hn : 0 <= X * X + Y * Y) by nra.
  pose proof (sqrt_pos (X * X + Y * Y)) as Hs. pose proof (sqrt_sqrt _ Hn) as Hss.
  set (N := sqrt (X * X + Y * Y)) in *.
  assert (Hm : 0 <= m) by (unfold m; nra).
  assert (N <= m). { destruct (Req_dec N 0) as [Z|Z]; [lra|]. assert (0 < N) by lra. nra. }
  rewrite <- Hss. nra.
Qed.
End Ray2.

(* (i k r - 1) e^{i k r} L  differs from  -L  by at most |L| |k|^2 r^2 *)
Lemma helm_grad_remainder L r p0 p1 : 0 < r -> (p0 * p0 + p1 * p1) * (r * r) <= 1 ->
  (fst (helm_grad L r p0 p1) + L) * (fst (helm_grad L r p0 p1) + L) + snd (helm_grad L r p0 p1) * snd (helm_grad L r p0 p1)
  <= (L * ((p0 * p0 + p1 * p1) * (r * r))) * (L * ((p0 * p0 + p1 * p1) * (r * r))).
Proof.
  intros Hr Hk. unfold helm_grad; cbn [fst snd].
  set (a := - p1 * r). set (b := p0 * r).
  assert (Hz : a * a + b * b <= 1) by (unfold a, b; nra).
  pose proof (cexp_remainder2 a b Hz) as C. unfold hX, hY in C. rewrite !Rmult_1_l in C.
  replace (exp (- p1 * r)) with (exp a) by reflexivity. replace (p0 * r) with b by reflexivity.
  replace ((p0 * p0 + p1 * p1) * (r * r)) with (a * a + b * b) by (unfold a, b; ring).
  replace (- 1 - p1 * r) with (- (1 - a)) by (unfold a; ring).
  set (X := exp a * ((1 - a) * cos b + b * sin b) - 1) in *. set (Y := exp a * ((1 - a) * sin b - b * cos b)) in *.
  replace (- (1 - a) * (cos b * exp a * L) - b * (sin b * exp a * L) + L) with (- L * X) by (unfold X; ring).
  replace (b * (cos b * exp a * L) + - (1 - a) * (sin b * exp a * L)) with (- L * Y) by (unfold Y; ring).
  set (mm := a * a + b * b) in *.
  replace (- L * X * (- L * X) + - L * Y * (- L * Y)) with ((X * X + Y * Y) * (L * L)) by ring.
  replace (L * mm * (L * mm)) with (mm * mm * (L * L)) by ring.
  apply Rmult_le_compat_r; [nra|exact C].
Qed.

(* complex k, |k| r <= 1:  |K_dl,helm - K_dl,lap| <= |k|^2/(4 pi) |n_y.(y-x)|/r  and  |K_adl,helm - K_adl,lap| <= |k|^2/(4 pi) |n_x.(y-x)|/r *)
Lemma helmholtz_dl_adl_small_complex_k x0 x1 x2 y0 y1 y2 nx0 nx1 nx2 ny0 ny1 ny2 kr ki p q :
  (x0, x1, x2) <> (y0, y1, y2) ->
  let r := sqrt (r2 x0 x1 x2 y0 y1 y2) in
  (kr * kr + ki * ki) * (r * r) <= 1 ->
  let bound (d : R) := ((kr * kr + ki * ki) / (4 * PI) * (d / r)) * ((kr * kr + ki * ki) / (4 * PI) * (d / r)) in
  let dl := helmholtz_double_layer_regular x0 x1 x2 y0 y1 y2 nx0 nx1 nx2 ny0 ny1 ny2 kr ki in
  let ldl := fst (laplace_double_layer_regular x0 x1 x2 y0 y1 y2 nx0 nx1 nx2 ny0 ny1 ny2 p q) in
  let adl := helmholtz_adjoint_double_layer_regular x0 x1 x2 y0 y1 y2 nx0 nx1 nx2 ny0 ny1 ny2 kr ki in
  let ladl := fst (laplace_adjoint_double_layer_regular x0 x1 x2 y0 y1 y2 nx0 nx1 nx2 ny0 ny1 ny2 p q) in
  (fst dl - ldl) * (fst dl - ldl) + snd dl * snd dl <= bound (dotd x0 x1 x2 y0 y1 y2 ny0 ny1 ny2) /\
  (fst adl - ladl) * (fst adl - ladl) + snd adl * snd adl <= bound (dotd x0 x1 x2 y0 y1 y2 nx0 nx1 nx2).
Proof.
  intros Hne r Hk bound dl ldl adl ladl.
  assert (Hr : 0 < r) by (exact (sqrt_r2_pos _ _ _ _ _ _ Hne)).
  pose proof PI_RGT_0 as Pp.
  assert (F1 := kernel_has_form "helmholtz_double_layer_regular" G_helm_dl 2 _ ltac:(simpl; auto 20) eq_refl
                  x0 x1 x2 y0 y1 y2 nx0 nx1 nx2 ny0 ny1 ny2 kr ki Hne).
  assert (F2 := kernel_has_form "laplace_double_layer_regular" G_lap_dl 2 _ ltac:(simpl; auto 20) eq_refl
                  x0 x1 x2 y0 y1 y2 nx0 nx1 nx2 ny0 ny1 ny2 p q Hne).
  assert (F3 := kernel_has_form "helmholtz_adjoint_double_layer_regular" G_helm_adl 2 _ ltac:(simpl; auto 20) eq_refl
                  x0 x1 x2 y0 y1 y2 nx0 nx1 nx2 ny0 ny1 ny2 kr ki Hne).
  assert (F4 := kernel_has_form "laplace_adjoint_double_layer_regular" G_lap_adl 2 _ ltac:(simpl; auto 20) eq_refl
                  x0 x1 x2 y0 y1 y2 nx0 nx1 nx2 ny0 ny1 ny2 p q Hne).
  unfold dl, ldl, adl, ladl, bound. rewrite F1, F2, F3, F4. fold r.
  unfold G_helm_dl, G_lap_dl, G_helm_adl, G_lap_adl; cbn [fst snd].
  set (a := dotd x0 x1 x2 y0 y1 y2 ny0 ny1 ny2). set (b := dotd x0 x1 x2 y0 y1 y2 nx0 nx1 nx2).
  assert (R3 : r * r * r <> 0) by (repeat apply Rmult_integral_contrapositive_currified; lra).
  split.
  - pose proof (helm_grad_remainder (c4 * a / (r * r * r)) r kr ki Hr Hk) as B.
    replace (fst (helm_grad (c4 * a / (r * r * r)) r kr ki) - - (c4 * a / (r * r * r)))
      with (fst (helm_grad (c4 * a / (r * r * r)) r kr ki) + c4 * a / (r * r * r)) by ring.
    replace ((kr * kr + ki * ki) / (4 * PI) * (a / r)) with (c4 * a / (r * r * r) * ((kr * kr + ki * ki) * (r * r)))
      by (unfold c4; field; repeat split; lra).
    exact B.
  - pose proof (helm_grad_remainder (- (c4 * b / (r * r * r))) r kr ki Hr Hk) as B.
    replace (fst (helm_grad (- (c4 * b / (r * r * r))) r kr ki) - c4 * b / (r * r * r))
      with (fst (helm_grad (- (c4 * b / (r * r * r))) r kr ki) + - (c4 * b / (r * r * r))) by ring.
    replace (((kr * kr + ki * ki) / (4 * PI) * (b / r)) * ((kr * kr + ki * ki) / (4 * PI) * (b / r)))
      with ((- (c4 * b / (r * r * r)) * ((kr * kr + ki * ki) * (r * r))) * (- (c4 * b / (r * r * r)) * ((kr * kr + ki * ki) * (r * r))))
      by (unfold c4; field; repeat split; lra).
    exact B.
Qed.
