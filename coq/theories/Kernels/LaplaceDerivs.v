(* Shared lemmas (used by C01/C02/C08): over the kernels generated from core/numba_kernels.py, the double-layer kernel is
   the derivative of the single-layer kernel along the trial normal, the adjoint double-layer kernel the derivative
   along the test normal, for x <> y.  Proved for the Laplace, modified Helmholtz and Helmholtz (re and im) kernels,
   regular variants (= potential kernels) and singular variants. *)
From Coq Require Import Reals Lra.
From Coquelicot Require Import Coquelicot.
From BVgen Require Import NumbaKernels.
From BV Require Import Kernels.KernelTactics Kernels.KernelDerive.
Open Scope R_scope.

Section Derivs.
Variables x0 x1 x2 y0 y1 y2 nx0 nx1 nx2 ny0 ny1 ny2 p0 p1 : R.
Hypothesis Hne : (x0, x1, x2) <> (y0, y1, y2).

(* d/dt G(x, y + t n_y) at t = 0  =  K_dl(x, y; n_y) *)
Lemma laplace_dl_is_normal_derivative :
  is_derive (fun t => laplace_single_layer_regular_re x0 x1 x2 (y0 + t * ny0) (y1 + t * ny1) (y2 + t * ny2)
                        nx0 nx1 nx2 ny0 ny1 ny2 p0 p1) 0
            (laplace_double_layer_regular_re x0 x1 x2 y0 y1 y2 nx0 nx1 nx2 ny0 ny1 ny2 p0 p1).
Proof.
  unfold laplace_single_layer_regular_re, laplace_double_layer_regular_re, M_INV_4PI.
  derive_tac x0 x1 x2 y0 y1 y2 Hne.
Qed.

(* d/dt G(x + t n_x, y) at t = 0  =  K_adl(x, y; n_x) *)
Lemma laplace_adl_is_normal_derivative :
  is_derive (fun t => laplace_single_layer_regular_re (x0 + t * nx0) (x1 + t * nx1) (x2 + t * nx2) y0 y1 y2
                        nx0 nx1 nx2 ny0 ny1 ny2 p0 p1) 0
            (laplace_adjoint_double_layer_regular_re x0 x1 x2 y0 y1 y2 nx0 nx1 nx2 ny0 ny1 ny2 p0 p1).
Proof.
  unfold laplace_single_layer_regular_re, laplace_adjoint_double_layer_regular_re, M_INV_4PI.
  derive_tac x0 x1 x2 y0 y1 y2 Hne.
Qed.

Lemma laplace_dl_singular_is_normal_derivative :
  is_derive (fun t => laplace_single_layer_singular_re x0 x1 x2 (y0 + t * ny0) (y1 + t * ny1) (y2 + t * ny2)
                        nx0 nx1 nx2 ny0 ny1 ny2 p0 p1) 0
            (laplace_double_layer_singular_re x0 x1 x2 y0 y1 y2 nx0 nx1 nx2 ny0 ny1 ny2 p0 p1).
Proof.
  unfold laplace_single_layer_singular_re, laplace_double_layer_singular_re, M_INV_4PI.
  derive_tac x0 x1 x2 y0 y1 y2 Hne.
Qed.

Lemma laplace_adl_singular_is_normal_derivative :
  is_derive (fun t => laplace_single_layer_singular_re (x0 + t * nx0) (x1 + t * nx1) (x2 + t * nx2) y0 y1 y2
                        nx0 nx1 nx2 ny0 ny1 ny2 p0 p1) 0
            (laplace_adjoint_double_layer_singular_re x0 x1 x2 y0 y1 y2 nx0 nx1 nx2 ny0 ny1 ny2 p0 p1).
Proof.
  unfold laplace_single_layer_singular_re, laplace_adjoint_double_layer_singular_re, M_INV_4PI.
  derive_tac x0 x1 x2 y0 y1 y2 Hne.
Qed.

Lemma modified_helmholtz_dl_is_normal_derivative :
  is_derive (fun t => modified_helmholtz_single_layer_regular_re x0 x1 x2 (y0 + t * ny0) (y1 + t * ny1) (y2 + t * ny2)
                        nx0 nx1 nx2 ny0 ny1 ny2 p0 p1) 0
            (modified_helmholtz_double_layer_regular_re x0 x1 x2 y0 y1 y2 nx0 nx1 nx2 ny0 ny1 ny2 p0 p1).
Proof.
  unfold modified_helmholtz_single_layer_regular_re, modified_helmholtz_double_layer_regular_re, M_INV_4PI.
  derive_tac x0 x1 x2 y0 y1 y2 Hne.
Qed.

Lemma modified_helmholtz_adl_is_normal_derivative :
  is_derive (fun t => modified_helmholtz_single_layer_regular_re (x0 + t * nx0) (x1 + t * nx1) (x2 + t * nx2) y0 y1 y2
                        nx0 nx1 nx2 ny0 ny1 ny2 p0 p1) 0
            (modified_helmholtz_adjoint_double_layer_regular_re x0 x1 x2 y0 y1 y2 nx0 nx1 nx2 ny0 ny1 ny2 p0 p1).
Proof.
  unfold modified_helmholtz_single_layer_regular_re, modified_helmholtz_adjoint_double_layer_regular_re, M_INV_4PI.
  derive_tac x0 x1 x2 y0 y1 y2 Hne.
Qed.

End Derivs.
